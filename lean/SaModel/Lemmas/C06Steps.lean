import SaModel.Lemmas.C06WFMain
/-
C06 helpers, part 7: `Steps c o t t'` (t' is reached from t by absorbing further samples), an inversion principle for
one `absorb` step (`absorb_rel`), and the first monotonicity facts: the nullable flag is never lost and a node never goes
back to `Unknown`.
-/
namespace SaModel.Lemmas.C06
open SaModel SaModel.Trace SaModel.Lemmas.C07 SaModel.Props.C07

/-- `t'` is reached from `t` by absorbing some further samples -/
def Steps (c : Code) (o : Options) (t t' : Tracer) : Prop := ∃ ys, absorbAll c o t ys = .ok t'

theorem Steps.refl (c : Code) (o : Options) (t : Tracer) : Steps c o t t := ⟨[], rfl⟩

theorem Steps.trans {c : Code} {o : Options} {t1 t2 t3 : Tracer} (h1 : Steps c o t1 t2) (h2 : Steps c o t2 t3) :
    Steps c o t1 t3 := by
  obtain ⟨ys, h1⟩ := h1
  obtain ⟨zs, h2⟩ := h2
  exact ⟨ys ++ zs, by rw [absorbAll_append, h1]; exact h2⟩

theorem Steps.single {c : Code} {o : Options} {t t' : Tracer} {y : SVal} (h : absorb c o t y = .ok t') :
    Steps c o t t' := ⟨[y], by rw [absorbAll_cons, h]; rfl⟩

theorem Steps.mark (c : Code) (o : Options) (t : Tracer) : Steps c o t t.mark_nullable :=
  Steps.single (y := .none) (absorb_none c o t)

theorem Steps.wf {c : Code} {o : Options} {t t' : Tracer} (h : Steps c o t t') (hw : WF o t) : WF o t' := by
  obtain ⟨ys, h⟩ := h
  exact absorbAll_wf' c o ys hw h

/-- lifting a reflexive, (head-)transitive relation from one step to `Steps` -/
theorem Steps.lift {c : Code} {o : Options} (Q : Tracer → Tracer → Prop) (hrefl : ∀ t, Q t t)
    (hstep : ∀ t y t1 t2, WF o t → absorb c o t y = .ok t1 → Q t1 t2 → Q t t2) :
    ∀ {t t2 : Tracer}, WF o t → Steps c o t t2 → Q t t2 := by
  intro t t2 hw ⟨ys, h⟩
  induction ys generalizing t with
  | nil => simp [absorbAll] at h; subst h; exact hrefl t
  | cons y ys ih =>
    rw [absorbAll_cons] at h
    cases ha : absorb c o t y with
    | error e => rw [ha] at h; cases h
    | ok t1 =>
      rw [ha] at h
      exact hstep t y t1 t2 hw ha (ih (absorb_wf c o y t t1 hw ha) h)

/-- inversion of one `absorb` step: what it does to the node it is applied to, family by family -/
theorem absorb_rel (c : Code) (o : Options) (Q : Tracer → Tracer → Prop)
    (hnone : ∀ t, Q t t.mark_nullable)
    (hmark : ∀ t t2, Q t.mark_nullable t2 → Q t t2)
    (hprim : ∀ t ty t2, ty ∈ leafTypes o → t.ensure_primitive o ty = .ok t2 → Q t t2)
    (hlist : ∀ t n p nl i i', t.ensure_list = .ok (.list n p nl i) → Steps c o i i' → Q t (.list n p nl i'))
    (hmap : ∀ t n p nl k v k' v', t.ensure_map = .ok (.map n p nl k v) → Steps c o k k' → Steps c o v v' →
      Q t (.map n p nl k' v'))
    (htuple : ∀ t n p nl ts ts' (vs : List SVal), t.ensure_tuple c vs.length = .ok (.tuple n p nl ts) →
      absorbTupleL c o p ts 0 vs = .ok ts' → Q t (.tuple n p nl ts'))
    (hstruct : ∀ t mode n p nl fs m s kvs fs', t.ensure_struct c [] mode = .ok (.struct n p nl fs m s) →
      absorbKVs c o p s fs kvs = .ok fs' → Q t (.struct n p nl (fs'.end_ s) m (s + 1)))
    (hunion : ∀ t n p nl vs0 vs vn idx nm' vt vt', t.ensure_union [] = .ok (.union n p nl vs0) →
      ensure_variant p vs0 vn idx = .ok vs → vs.get? idx = some (some (nm', vt)) → Steps c o vt vt' →
      Q t (.union n p nl (vs.set idx vn vt'))) :
    ∀ y t t2, absorb c o t y = .ok t2 → Q t t2 := by
  have hS : ∀ x mode rk, asStruct o x = some (mode, rk) → ∀ t t2, absorb c o t x = .ok t2 → Q t t2 := by
    intro x mode rk hx t t2 ha
    obtain ⟨kvs, n, p, nl, fs, m, s, fs', _, h1, h2, rfl⟩ := (absorb_asStruct_ok c o t t2 x mode rk hx).mp ha
    exact hstruct t mode n p nl fs m s kvs fs' h1 h2
  have hM : ∀ x ks vs, asMap o x = some (ks, vs) → ∀ t t2, absorb c o t x = .ok t2 → Q t t2 := by
    intro x ks vs hx t t2 ha
    obtain ⟨n, p, nl, k, v, k', v', h1, h2, h3, rfl⟩ := (absorb_asMap_ok c o t t2 x ks vs hx).mp ha
    exact hmap t n p nl k v k' v' h1 ⟨ks, h2⟩ ⟨vs, h3⟩
  have hT : ∀ items : SVals, ∀ t t2, absorb c o t (.tuple items) = .ok t2 → Q t t2 := by
    intro items t t2 ha
    obtain ⟨n, p, nl, ts, ts', h1, h2, rfl⟩ := (absorb_tuple_ok c o t t2 items).mp ha
    rw [← SVals.length_toList] at h1
    exact htuple t n p nl ts ts' _ h1 h2
  have hV : ∀ nm idx vn v, ∀ t t2, absorb c o t (.newtypeVariant nm idx vn v) = .ok t2 → Q t t2 := by
    intro nm idx vn v t t2 ha
    obtain ⟨n, p, nl, vs0, vs, nm', vt, vt', h1, h2, h3, h4, rfl⟩ :=
      (absorb_newtypeVariant_ok c o t t2 nm idx vn v).mp ha
    exact hunion t n p nl vs0 vs vn idx nm' vt vt' h1 h2 h3 (Steps.single h4)
  apply sval_induct o (fun y => ∀ t t2, absorb c o t y = .ok t2 → Q t t2)
  · intro x ty hx t t2 ha
    rw [absorb_prim c o t hx] at ha
    exact hprim t ty t2 (leafTypeOf_mem o hx) ha
  · intro t t2 ha; rw [absorb_none] at ha; cases ha; exact hnone t
  · intro v ih t t2 ha; rw [absorb_some] at ha; exact hmark t t2 (ih _ _ ha)
  · intro n v ih t t2 ha; rw [absorb_newtypeStruct] at ha; exact ih _ _ ha
  · intro items _ t t2 ha
    obtain ⟨n, p, nl, i, i', h1, h2, rfl⟩ := (absorb_seq_ok c o t t2 items).mp ha
    exact hlist t n p nl i i' h1 ⟨_, h2⟩
  · intro items _; exact hT items
  · intro n items _ t t2 ha; rw [absorb_tupleStruct] at ha; exact hT items t t2 ha
  · intro n fs _; exact hS _ .struct (.ok (SFields.kvs fs)) rfl
  · intro es _ _
    by_cases hm : o.map_as_struct = true
    · exact hS _ .map (SEntries.kvs es) (by simp [asStruct, hm])
    · exact hM _ (SEntries.keys es) (SEntries.vals es) (by simp [asMap, hm])
  · intro ops _ _
    by_cases hm : o.map_as_struct = true
    · exact hS _ .map (SMapOps.kvs none ops) (by simp [asStruct, hm])
    · exact hM _ (SMapOps.keys ops) (SMapOps.vals ops) (by simp [asMap, hm])
  · intro n i vn t t2 ha; rw [absorb_unitVariant] at ha; exact hV n i vn _ t t2 ha
  · intro n i vn v _; exact hV n i vn v
  · intro n i vn items _ t t2 ha; rw [absorb_tupleVariant] at ha; exact hV n i vn _ t t2 ha
  · intro n i vn fs _ t t2 ha; rw [absorb_structVariant] at ha; exact hV n i vn _ t t2 ha

/-! ### nullable is sticky, `Unknown` is never re-entered -/

def isUnknown : Tracer → Bool
  | .unknown _ _ _ => true
  | _ => false

theorem coerce_nullable_mono (o : Options) (pty ty : DataType) (nl : Bool) (st st' : Option Strategy) :
    ∀ a b c, coerce_primitive_type o pty nl st ty st' = .ok (a, b, c) → nl = true → b = true := by
  unfold coerce_primitive_type
  repeat (first
    | (refine ite_prop (P := fun r => ∀ a b c, r = Except.ok (a, b, c) → nl = true → b = true) ?_ ?_
       · intro a b c h; cases h; intro h'; first | exact h' | rfl)
    | (intro a b c h; cases h))

theorem set_nullable_facts (t : Tracer) :
    (t.set_nullable true).nullable = true ∧ isUnknown (t.set_nullable true) = isUnknown t ∧
    (t.set_nullable true).name = t.name ∧ (t.set_nullable true).path = t.path := by
  cases t <;> exact ⟨rfl, rfl, rfl, rfl⟩

theorem ensure_primitive_mono (o : Options) {t t2 : Tracer} {ty : DataType} (h : t.ensure_primitive o ty = .ok t2) :
    (t.nullable = true → t2.nullable = true) ∧ isUnknown t2 = false ∧ t2.name = t.name ∧ t2.path = t.path := by
  cases t with
  | unknown n p nl =>
    simp only [Tracer.ensure_primitive, Tracer.ensure_primitive_with_strategy] at h; cases h
    exact ⟨fun h => by simp only [Tracer.nullable] at h ⊢; rw [h]; rfl, rfl, rfl, rfl⟩
  | primitive n p nl pty st =>
    simp only [Tracer.ensure_primitive, Tracer.ensure_primitive_with_strategy, bind_ok] at h
    obtain ⟨⟨a, b, c'⟩, h1, h2⟩ := h
    cases h2
    exact ⟨fun h => coerce_nullable_mono o pty ty nl st none a b c' h1 h, rfl, rfl, rfl⟩
  | list n p nl i =>
    simp only [Tracer.ensure_primitive, Tracer.ensure_primitive_with_strategy] at h
    split at h <;> cases h
    exact ⟨fun _ => rfl, rfl, rfl, rfl⟩
  | map n p nl k v =>
    simp only [Tracer.ensure_primitive, Tracer.ensure_primitive_with_strategy] at h
    split at h <;> cases h
    exact ⟨fun _ => rfl, rfl, rfl, rfl⟩
  | struct n p nl fs m s =>
    simp only [Tracer.ensure_primitive, Tracer.ensure_primitive_with_strategy] at h
    split at h <;> cases h
    exact ⟨fun _ => rfl, rfl, rfl, rfl⟩
  | tuple n p nl ts =>
    simp only [Tracer.ensure_primitive, Tracer.ensure_primitive_with_strategy] at h
    split at h <;> cases h
    exact ⟨fun _ => rfl, rfl, rfl, rfl⟩
  | union n p nl vs =>
    simp only [Tracer.ensure_primitive, Tracer.ensure_primitive_with_strategy] at h
    split at h <;> cases h
    exact ⟨fun _ => rfl, rfl, rfl, rfl⟩

/-- what every step keeps: the nullable flag once set, not being `Unknown`, name and path -/
def Keeps (t t2 : Tracer) : Prop :=
  (t.nullable = true → t2.nullable = true) ∧ (isUnknown t = false → isUnknown t2 = false) ∧
  t2.name = t.name ∧ t2.path = t.path

theorem Keeps.refl (t : Tracer) : Keeps t t := ⟨id, id, rfl, rfl⟩

theorem Keeps.trans {t1 t2 t3 : Tracer} (h1 : Keeps t1 t2) (h2 : Keeps t2 t3) : Keeps t1 t3 :=
  ⟨fun h => h2.1 (h1.1 h), fun h => h2.2.1 (h1.2.1 h), by rw [h2.2.2.1, h1.2.2.1], by rw [h2.2.2.2, h1.2.2.2]⟩

theorem Keeps.mark (t : Tracer) : Keeps t t.mark_nullable := by
  have := set_nullable_facts t
  exact ⟨fun _ => this.1, fun h => by rw [Tracer.mark_nullable, this.2.1]; exact h, this.2.2.1, this.2.2.2⟩

theorem absorb_keeps (c : Code) (o : Options) : ∀ y t t2, absorb c o t y = .ok t2 → Keeps t t2 := by
  apply absorb_rel c o Keeps
  · exact Keeps.mark
  · intro t t2 h; exact (Keeps.mark t).trans h
  · intro t ty t2 _ h
    have := ensure_primitive_mono o h
    exact ⟨this.1, fun _ => this.2.1, this.2.2.1, this.2.2.2⟩
  · intro t n p nl i i' h _
    obtain ⟨_, i0, he, _⟩ := ensure_list_ok o h
    cases he
    exact ⟨id, fun _ => rfl, rfl, rfl⟩
  · intro t n p nl k v k' v' h _ _
    obtain ⟨_, k0, v0, he, _⟩ := ensure_map_ok o h
    cases he
    exact ⟨id, fun _ => rfl, rfl, rfl⟩
  · intro t n p nl ts ts' vs h _
    obtain ⟨_, ts0, he, _⟩ := ensure_tuple_ok o c h
    cases he
    exact ⟨id, fun _ => rfl, rfl, rfl⟩
  · intro t mode n p nl fs m s kvs fs' h _
    obtain ⟨_, fs0, m0, s0, he, _⟩ := ensure_struct_ok o c h
    cases he
    exact ⟨id, fun _ => rfl, rfl, rfl⟩
  · intro t n p nl vs0 vs vn idx nm' vt vt' h _ _ _
    obtain ⟨_, vs00, he, _⟩ := ensure_union_ok o h
    cases he
    exact ⟨id, fun _ => rfl, rfl, rfl⟩

theorem Steps.keeps {c : Code} {o : Options} {t t2 : Tracer} (h : Steps c o t t2) : Keeps t t2 := by
  obtain ⟨ys, h⟩ := h
  induction ys generalizing t with
  | nil => simp [absorbAll] at h; subst h; exact Keeps.refl t
  | cons y ys ih =>
    rw [absorbAll_cons] at h
    cases ha : absorb c o t y with
    | error e => rw [ha] at h; cases h
    | ok t1 => rw [ha] at h; exact (absorb_keeps c o y t t1 ha).trans (ih h)

end SaModel.Lemmas.C06
