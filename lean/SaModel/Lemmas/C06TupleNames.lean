import SaModel.Lemmas.C06Stable
import SaModel.Build.Builder
/-
C06 helpers: the tuple-name invariant `TN t` of the tracer under the repaired code (`Code.fixed`): in every tuple node
the tracer at position `i` is NAMED `toString i`.

`Tracer::new` satisfies it (`TN_new`), every successful `absorb .fixed` preserves it (`absorb_tn`), hence every tracer
`from_samples` can reach has it (`absorbAll_tn`, `steps_tn`).  The pinned code does not: `field_tracer(idx)` names every
slot it creates after `idx`, so a longer second tuple sample creates slots with repeated names; under the repaired code
`ensure_tuple` has already grown the vector to the sample's arity (`ensure_tuple_len`), so `field_tracer` never grows.

Together with the injectivity of the decimal representation (`toString_nat_inj`) the names of a tuple node are pairwise
different and the name lookup of the builder finds position `j` for the name `toString j` (`indexOfName_toString`).
-/
namespace SaModel.Lemmas.C06
open SaModel SaModel.Trace SaModel.Lemmas.C07 SaModel.Props.C07

mutual
def TN : Tracer → Prop
  | .unknown _ _ _ => True
  | .primitive _ _ _ _ _ => True
  | .list _ _ _ i => TN i
  | .map _ _ _ k v => TN k ∧ TN v
  | .struct _ _ _ fs _ _ => TNF fs
  | .tuple _ _ _ ts => TNT 0 ts
  | .union _ _ _ vs => TNV vs
/-- `k` = position of the head -/
def TNT : Nat → Tracers → Prop
  | _, .nil => True
  | k, .cons t r => t.name = toString k ∧ TN t ∧ TNT (k + 1) r
def TNF : TFields → Prop
  | .nil => True
  | .cons _ _ t r => TN t ∧ TNF r
def TNV : Variants → Prop
  | .nil => True
  | .absent r => TNV r
  | .present _ t r => TN t ∧ TNV r
end

/-! ### `get?` characterisations -/

theorem TNT_iff_from : ∀ (ts : Tracers) (k : Nat),
    TNT k ts ↔ ∀ i t, ts.get? i = some t → t.name = toString (k + i) ∧ TN t
  | .nil, k => by simp [TNT, Tracers.get?]
  | .cons t r, k => by
    simp only [TNT, TNT_iff_from r (k + 1)]
    constructor
    · rintro ⟨h1, h2, h3⟩ i t' hg
      cases i with
      | zero => simp only [Tracers.get?, Option.some.injEq] at hg; subst hg; exact ⟨h1, h2⟩
      | succ i =>
        have := h3 i t' hg
        rw [show k + 1 + i = k + (i + 1) by omega] at this
        exact this
    · intro h
      refine ⟨(h 0 t rfl).1, (h 0 t rfl).2, fun i t' hg => ?_⟩
      have := h (i + 1) t' hg
      rw [show k + (i + 1) = k + 1 + i by omega] at this
      exact this

theorem TNT_iff (ts : Tracers) : TNT 0 ts ↔ ∀ i t, ts.get? i = some t → t.name = toString i ∧ TN t := by
  rw [TNT_iff_from ts 0]
  constructor
  · intro h i t hg; have := h i t hg; rw [Nat.zero_add] at this; exact this
  · intro h i t hg; rw [Nat.zero_add]; exact h i t hg

theorem TNF_iff : ∀ fs : TFields, TNF fs ↔ ∀ i t, fs.get? i = some t → TN t
  | .nil => by simp [TNF, TFields.get?]
  | .cons n l t r => by
    simp only [TNF, TNF_iff r]
    constructor
    · rintro ⟨h1, h2⟩ i t' hg
      cases i with
      | zero => simp only [TFields.get?, Option.some.injEq] at hg; subst hg; exact h1
      | succ i => exact h2 i t' hg
    · intro h
      exact ⟨h 0 t rfl, fun i t' hg => h (i + 1) t' hg⟩

theorem TNV_iff : ∀ vs : Variants, TNV vs ↔ ∀ i n t, vs.get? i = some (some (n, t)) → TN t
  | .nil => by simp [TNV, Variants.get?]
  | .absent r => by
    simp only [TNV, TNV_iff r]
    constructor
    · intro h i n t hg
      cases i with
      | zero => simp [Variants.get?] at hg
      | succ i => exact h i n t hg
    · intro h i n t hg
      exact h (i + 1) n t hg
  | .present n' t' r => by
    simp only [TNV, TNV_iff r]
    constructor
    · rintro ⟨h1, h2⟩ i n t hg
      cases i with
      | zero =>
        simp only [Variants.get?, Option.some.injEq, Prod.mk.injEq] at hg
        obtain ⟨_, rfl⟩ := hg; exact h1
      | succ i => exact h2 i n t hg
    · intro h
      exact ⟨h 0 n' t' rfl, fun i n t hg => h (i + 1) n t hg⟩

/-! ### leaf level -/

theorem TN_new (n p : String) : TN (Tracer.new n p) := by simp [Tracer.new, TN]

theorem TN_set_nullable {t : Tracer} (b : Bool) (h : TN t) : TN (t.set_nullable b) := by
  cases t <;> simp only [Tracer.set_nullable, TN] at h ⊢ <;> exact h

theorem TN_mark_nullable {t : Tracer} (h : TN t) : TN t.mark_nullable := TN_set_nullable true h

theorem mark_nullable_name (t : Tracer) : t.mark_nullable.name = t.name := (set_nullable_facts t).2.2.1

theorem ensure_primitive_tn (o : Options) {t t' : Tracer} {ty : DataType} (ht : TN t)
    (h : t.ensure_primitive o ty = .ok t') : TN t' := by
  cases t with
  | unknown n p nl =>
    simp only [Tracer.ensure_primitive, Tracer.ensure_primitive_with_strategy] at h; cases h
    simp [TN]
  | primitive n p nl pty st =>
    simp only [Tracer.ensure_primitive, Tracer.ensure_primitive_with_strategy, bind_ok] at h
    obtain ⟨⟨a, b, c'⟩, _, h2⟩ := h
    cases h2
    simp [TN]
  | list n p nl i =>
    simp only [Tracer.ensure_primitive, Tracer.ensure_primitive_with_strategy] at h
    split at h <;> cases h
    exact TN_set_nullable true ht
  | map n p nl k v =>
    simp only [Tracer.ensure_primitive, Tracer.ensure_primitive_with_strategy] at h
    split at h <;> cases h
    exact TN_set_nullable true ht
  | struct n p nl fs m s =>
    simp only [Tracer.ensure_primitive, Tracer.ensure_primitive_with_strategy] at h
    split at h <;> cases h
    exact TN_set_nullable true ht
  | tuple n p nl ts =>
    simp only [Tracer.ensure_primitive, Tracer.ensure_primitive_with_strategy] at h
    split at h <;> cases h
    exact TN_set_nullable true ht
  | union n p nl vs =>
    simp only [Tracer.ensure_primitive, Tracer.ensure_primitive_with_strategy] at h
    split at h <;> cases h
    exact TN_set_nullable true ht

/-! ### the container `ensure_*` methods -/

theorem ensure_list_tn {t t1 : Tracer} (ht : TN t) (h : t.ensure_list = .ok t1) : TN t1 := by
  unfold Tracer.ensure_list at h
  obtain ⟨_, h⟩ := enforce_ok_or h
  by_cases hu : t.is_unknown_or_null = true
  · rw [if_pos hu] at h; cases h
    simp only [TN]; exact TN_new _ _
  · rw [if_neg hu] at h
    cases t with
    | list n p nl i => simp only at h; cases h; exact ht
    | _ => simp only [fail] at h; cases h

theorem ensure_map_tn {t t1 : Tracer} (ht : TN t) (h : t.ensure_map = .ok t1) : TN t1 := by
  unfold Tracer.ensure_map at h
  obtain ⟨_, h⟩ := enforce_ok_or h
  by_cases hu : t.is_unknown_or_null = true
  · rw [if_pos hu] at h; cases h
    simp only [TN]; exact ⟨TN_new _ _, TN_new _ _⟩
  · rw [if_neg hu] at h
    cases t with
    | map n p nl k v => simp only at h; cases h; exact ht
    | _ => simp only [fail] at h; cases h

theorem ensure_struct_tn (c : Code) {t t1 : Tracer} {mode : StructMode} (ht : TN t)
    (h : t.ensure_struct c [] mode = .ok t1) : TN t1 := by
  unfold Tracer.ensure_struct at h
  obtain ⟨_, h⟩ := enforce_ok_or h
  by_cases hu : t.is_unknown_or_null = true
  · rw [if_pos hu] at h; cases h
    simp [TN, mkStructFields, TNF]
  · rw [if_neg hu] at h
    cases t with
    | struct n p nl fs m s =>
      simp only at h
      split at h <;> cases h
      · simpa only [TN] using ht
      · exact ht
    | _ => simp only [fail] at h; cases h

theorem ensure_union_tn {t t1 : Tracer} (ht : TN t) (h : t.ensure_union [] = .ok t1) : TN t1 := by
  unfold Tracer.ensure_union at h
  obtain ⟨_, h⟩ := enforce_ok_or h
  by_cases hu : t.is_unknown_or_null = true
  · rw [if_pos hu] at h; cases h
    simp [TN, mkVariants, TNV]
  · rw [if_neg hu] at h
    cases t with
    | union n p nl vs => simp only at h; cases h; exact ht
    | _ => simp only [fail] at h; cases h

/-! ### tuples: the fresh vector, `markFrom`, the nullable growth loop -/

theorem TNT_mkTupleFields (path : String) (n : Nat) : ∀ k, k ≤ n → TNT (n - k) (mkTupleFields path n k)
  | 0, _ => by simp [mkTupleFields, TNT]
  | k + 1, hk => by
    simp only [mkTupleFields, TNT]
    refine ⟨rfl, TN_new _ _, ?_⟩
    rw [show n - (k + 1) + 1 = n - k by omega]
    exact TNT_mkTupleFields path n k (by omega)

theorem TNT_markFrom (k : Nat) {ts : Tracers} (h : TNT 0 ts) : TNT 0 (ts.markFrom k) := by
  rw [TNT_iff] at h ⊢
  intro i t hi
  rw [Tracers.get?_markFrom] at hi
  cases hg : ts.get? i with
  | none => rw [hg] at hi; cases hi
  | some t0 =>
    rw [hg] at hi
    simp only [Option.map_some, Option.some.injEq] at hi
    subst hi
    split
    · exact ⟨by rw [mark_nullable_name]; exact (h i t0 hg).1, TN_mark_nullable (h i t0 hg).2⟩
    · exact h i t0 hg

/-- a slot created by `growN` at position `i` is `g acc` for a vector `acc` of length `i` -/
theorem growN_get?_new_at (g : Tracers → Tracer) (Q : Nat → Tracer → Prop) (hQ : ∀ acc, Q acc.length (g acc)) :
    ∀ (k : Nat) (ts : Tracers) (i : Nat) (t : Tracer), ts.length ≤ i → (growN g k ts).get? i = some t → Q i t
  | 0, ts, i, t, h, hg => by
    simp only [growN] at hg
    rw [(Tracers.get?_none_iff ts i).mpr h] at hg; cases hg
  | k + 1, ts, i, t, h, hg => by
    simp only [growN] at hg
    by_cases hi : i = ts.length
    · subst hi
      rw [growN_get?_lt g k _ _ (by rw [Tracers.length_push]; omega), Tracers.get?_push_len] at hg
      cases hg; exact hQ ts
    · exact growN_get?_new_at g Q hQ k _ i t (by rw [Tracers.length_push]; omega) hg

theorem TNT_tupleGrowNullable (path : String) (n : Nat) {ts : Tracers} (h : TNT 0 ts) :
    TNT 0 (tupleGrowNullable path n ts) := by
  rw [tupleGrowNullable_eq]
  rw [TNT_iff] at h ⊢
  intro i t hi
  by_cases hlt : i < ts.length
  · rw [growN_get?_lt _ _ ts i hlt] at hi; exact h i t hi
  · exact growN_get?_new_at _ (fun i t => t.name = toString i ∧ TN t)
      (fun acc => ⟨by rw [mark_nullable_name]; rfl, TN_mark_nullable (TN_new _ _)⟩) _ ts i t (by omega) hi

/-- `ensure_tuple` of the repaired code keeps the invariant -/
theorem ensure_tuple_tn {t t1 : Tracer} {k : Nat} (ht : TN t) (h : t.ensure_tuple .fixed k = .ok t1) : TN t1 := by
  unfold Tracer.ensure_tuple at h
  obtain ⟨_, h⟩ := enforce_ok_or h
  by_cases hu : t.is_unknown_or_null = true
  · rw [if_pos hu] at h; cases h
    simp only [TN]
    have := TNT_mkTupleFields t.path k k (Nat.le_refl k)
    rw [Nat.sub_self] at this
    exact this
  · rw [if_neg hu] at h
    cases t with
    | tuple n p nl ts =>
      simp only at h
      rw [if_pos (show Code.fixed.tuple_arity_nullable = true from rfl)] at h
      cases h
      simp only [TN] at ht ⊢
      exact TNT_tupleGrowNullable p k (TNT_markFrom k ht)
    | _ => simp only [fail] at h; cases h

theorem TNT_set {ts : Tracers} (i : Nat) {x : Tracer} (h : TNT 0 ts) (hn : x.name = toString i) (hx : TN x) :
    TNT 0 (ts.set i x) := by
  rw [TNT_iff] at h ⊢
  intro j t hj
  by_cases e : i = j
  · subst e
    have hlt := Tracers.get?_lt hj
    rw [Tracers.length_set] at hlt
    rw [Tracers.get?_set_eq _ _ _ hlt] at hj; cases hj; exact ⟨hn, hx⟩
  · rw [Tracers.get?_set_ne _ _ _ _ e] at hj; exact h j t hj

/-! ### list level -/

/-- `absorb` of the sample `v` (repaired code) preserves `TN` -/
def PTN (o : Options) (v : SVal) : Prop := ∀ t t', TN t → absorb .fixed o t v = .ok t' → TN t'

theorem absorbAll_tn_of (o : Options) : ∀ vs : List SVal, (∀ v ∈ vs, PTN o v) → ∀ t t', TN t →
    absorbAll .fixed o t vs = .ok t' → TN t'
  | [], _, t, t', hw, h => by simp [absorbAll] at h; subst h; exact hw
  | v :: vs, hp, t, t', hw, h => by
    rw [absorbAll_cons] at h
    cases ha : absorb .fixed o t v with
    | error e => rw [ha] at h; cases h
    | ok t1 =>
      rw [ha] at h
      exact absorbAll_tn_of o vs (fun x hx => hp x (by simp [hx])) t1 t' (hp v (by simp) t t1 hw ha) h

/-- one pass over the positions of a tuple sample whose positions all exist already: nothing is created, names stay -/
theorem absorbTupleL_tn (o : Options) (path : String) : ∀ vs : List SVal, (∀ v ∈ vs, PTN o v) →
    ∀ ts pos ts', pos + vs.length ≤ ts.length → TNT 0 ts → absorbTupleL .fixed o path ts pos vs = .ok ts' → TNT 0 ts'
  | [], _, ts, pos, ts', _, hw, h => by simp [absorbTupleL] at h; subst h; exact hw
  | v :: vs, hp, ts, pos, ts', hle, hw, h => by
    simp only [List.length_cons] at hle
    simp only [absorbTupleL] at h
    rw [field_tracer_grow_of_lt path pos ts (by omega)] at h
    cases hg : ts.get? pos with
    | none => rw [hg] at h; cases h
    | some ft =>
      rw [hg] at h; simp only at h
      cases ha : absorb .fixed o ft v with
      | error e => rw [ha] at h; cases h
      | ok ft' =>
        rw [ha] at h; simp only at h
        have hft := (TNT_iff ts).mp hw pos ft hg
        have hname : ft'.name = toString pos := by rw [(absorb_keeps .fixed o v ft ft' ha).2.2.1]; exact hft.1
        exact absorbTupleL_tn o path vs (fun x hx => hp x (by simp [hx])) _ (pos + 1) ts'
          (by rw [Tracers.length_set]; omega) (TNT_set pos hw hname (hp v (by simp) ft ft' hft.2 ha)) h

theorem ensure_field_tnf (path : String) (s : Nat) {fs : TFields} (k : String) (h : TNF fs) :
    TNF (ensure_field path s fs k).2 := by
  rw [TNF_iff] at h ⊢
  cases hi : fs.indexOf k with
  | some i =>
    rw [ensure_field_found hi]; simp only
    exact fun j t hj => h j t (by rw [TFields.get?_setLastSeen] at hj; exact hj)
  | none =>
    rw [ensure_field_new hi]; simp only
    intro j t hj
    have hlt := TFields.get?_lt hj
    rw [TFields.length_push] at hlt
    by_cases e : j = fs.length
    · subst e
      rw [TFields.get?_push_len] at hj; cases hj
      split
      · exact TN_mark_nullable (TN_new _ _)
      · exact TN_new _ _
    · rw [TFields.get?_push_lt _ _ _ _ _ (by omega)] at hj; exact h j t hj

theorem TNF_set {fs : TFields} (i : Nat) {x : Tracer} (h : TNF fs) (hx : TN x) : TNF (fs.set i x) := by
  rw [TNF_iff] at h ⊢
  intro j t hj
  by_cases e : i = j
  · subst e
    have hlt := TFields.get?_lt hj
    rw [TFields.length_set] at hlt
    rw [TFields.get?_set_eq _ _ _ hlt] at hj; cases hj; exact hx
  · rw [TFields.get?_set_ne _ _ _ _ e] at hj; exact h j t hj

theorem TNF_end (s : Nat) : ∀ {fs : TFields}, TNF fs → TNF (fs.end_ s)
  | .nil, _ => by simp [TFields.end_, TNF]
  | .cons n l t r, h => by
    simp only [TNF, TFields.end_] at h ⊢
    refine ⟨?_, TNF_end s h.2⟩
    split
    · exact TN_mark_nullable h.1
    · exact h.1

theorem absorbKVs_tn (o : Options) (path : String) (s : Nat) : ∀ kvs : List (String × SVal),
    (∀ kv ∈ kvs, PTN o kv.2) → ∀ fs fs', TNF fs → absorbKVs .fixed o path s fs kvs = .ok fs' → TNF fs'
  | [], _, fs, fs', hw, h => by simp [absorbKVs] at h; subst h; exact hw
  | kv :: kvs, hp, fs, fs', hw, h => by
    simp only [absorbKVs] at h
    have hw1 := ensure_field_tnf path s kv.1 hw
    cases hg : (ensure_field path s fs kv.1).2.get? (ensure_field path s fs kv.1).1 with
    | none => rw [hg] at h; cases h
    | some ft =>
      rw [hg] at h; simp only at h
      cases ha : absorb .fixed o ft kv.2 with
      | error e => rw [ha] at h; cases h
      | ok ft' =>
        rw [ha] at h; simp only at h
        have hft : TN ft := (TNF_iff _).mp hw1 _ _ hg
        exact absorbKVs_tn o path s kvs (fun x hx => hp x (by simp [hx])) _ fs'
          (TNF_set _ hw1 (hp kv (by simp) ft ft' hft ha)) h

theorem TNV_set {vs : Variants} (i : Nat) (n : String) {x : Tracer} (h : TNV vs) (hx : TN x) :
    TNV (vs.set i n x) := by
  rw [TNV_iff] at h ⊢
  intro j n' t hj
  by_cases e : i = j
  · subst e
    have hlt := Variants.get?_lt hj
    rw [Variants.length_set] at hlt
    rw [Variants.get?_set_eq _ _ _ _ hlt] at hj
    simp only [Option.some.injEq, Prod.mk.injEq] at hj
    rw [← hj.2]; exact hx
  · rw [Variants.get?_set_ne _ _ _ _ _ e] at hj; exact h j n' t hj

/-! ### the samples, family by family -/

theorem PTN_leaf (o : Options) (x : SVal) (ty : DataType) (h : leafTypeOf o x = some ty) : PTN o x := by
  intro t t' hw ha
  rw [absorb_prim .fixed o t h] at ha
  exact ensure_primitive_tn o hw ha

theorem PTN_asStruct (o : Options) (x : SVal) (mode : StructMode) (rk : R (List (String × SVal)))
    (hx : asStruct o x = some (mode, rk)) (hp : ∀ kvs, rk = .ok kvs → ∀ kv ∈ kvs, PTN o kv.2) : PTN o x := by
  intro t t' hw ha
  obtain ⟨kvs, n, p, nl, fs, m, s, fs', hk, h1, h2, rfl⟩ := (absorb_asStruct_ok .fixed o t t' x mode rk hx).mp ha
  have h3 := ensure_struct_tn .fixed hw h1
  simp only [TN] at h3 ⊢
  exact TNF_end _ (absorbKVs_tn o _ s kvs (hp kvs hk) fs fs' h3 h2)

theorem PTN_asMap (o : Options) (x : SVal) (ks vs : List SVal) (hx : asMap o x = some (ks, vs))
    (hk : ∀ v ∈ ks, PTN o v) (hv : ∀ v ∈ vs, PTN o v) : PTN o x := by
  intro t t' hw ha
  obtain ⟨n, p, nl, k, v, k', v', h1, h2, h3, rfl⟩ := (absorb_asMap_ok .fixed o t t' x ks vs hx).mp ha
  have h4 := ensure_map_tn hw h1
  simp only [TN] at h4 ⊢
  exact ⟨absorbAll_tn_of o ks hk _ _ h4.1 h2, absorbAll_tn_of o vs hv _ _ h4.2 h3⟩

theorem PTN_tuple (o : Options) (items : SVals) (hp : ∀ v ∈ items.toList, PTN o v) : PTN o (.tuple items) := by
  intro t t' hw ha
  obtain ⟨n, p, nl, ts, ts', h1, h2, rfl⟩ := (absorb_tuple_ok .fixed o t t' items).mp ha
  have h3 := ensure_tuple_tn hw h1
  have hlen := ensure_tuple_len o (c := .fixed) rfl h1
  simp only [TN] at h3 ⊢
  exact absorbTupleL_tn o p _ hp ts 0 ts' (by rw [SVals.length_toList]; omega) h3 h2

theorem PTN_newtypeVariant (o : Options) (nm : String) (idx : Nat) (vn : String) (v : SVal) (hp : PTN o v) :
    PTN o (.newtypeVariant nm idx vn v) := by
  intro t t' hw ha
  obtain ⟨n, p, nl, vs0, vs, nm', vt, vt', h1, h2, h3, h4, rfl⟩ :=
    (absorb_newtypeVariant_ok .fixed o t t' nm idx vn v).mp ha
  have h5 := ensure_union_tn hw h1
  simp only [TN] at h5 ⊢
  obtain ⟨_, _, _, hnew, _⟩ := ensure_variant_ok h2
  have hwv0 := (TNV_iff _).mp h5
  have hwv : TNV vs := by
    rw [TNV_iff]
    intro j n' t1 hj
    rcases hnew j n' t1 hj with h | h
    · exact hwv0 j n' t1 h
    · rw [h]; exact TN_new _ _
  exact TNV_set idx vn hwv (hp vt vt' ((TNV_iff _).mp hwv idx nm' vt h3) h4)

/-- every successful `absorb` of the repaired code preserves the tuple-name invariant (no well-formedness needed) -/
theorem absorb_tn' (o : Options) : ∀ x : SVal, PTN o x := by
  apply sval_induct o (PTN o)
  · exact PTN_leaf o
  · intro t t' hw ha; rw [absorb_none] at ha; cases ha; exact TN_mark_nullable hw
  · intro v ih t t' hw ha; rw [absorb_some] at ha; exact ih _ _ (TN_mark_nullable hw) ha
  · intro n v ih t t' hw ha; rw [absorb_newtypeStruct] at ha; exact ih _ _ hw ha
  · intro items ih t t' hw ha
    obtain ⟨n, p, nl, i, i', h1, h2, rfl⟩ := (absorb_seq_ok .fixed o t t' items).mp ha
    have h3 := ensure_list_tn hw h1
    simp only [TN] at h3 ⊢
    exact absorbAll_tn_of o _ ih _ _ h3 h2
  · exact PTN_tuple o
  · intro n items ih t t' hw ha; rw [absorb_tupleStruct] at ha; exact PTN_tuple o items ih t t' hw ha
  · intro n fs ih
    exact PTN_asStruct o _ .struct (.ok (SFields.kvs fs)) rfl (fun kvs hk => by cases hk; exact ih)
  · intro es ihk ihv
    by_cases hm : o.map_as_struct = true
    · exact PTN_asStruct o _ .map (SEntries.kvs es) (by simp [asStruct, hm])
        (fun kvs hk kv hkv => ihv _ (SEntries.kvs_vals es kvs hk kv hkv))
    · exact PTN_asMap o _ _ _ (by simp [asMap, hm]) ihk ihv
  · intro ops ihk ihv
    by_cases hm : o.map_as_struct = true
    · exact PTN_asStruct o _ .map (SMapOps.kvs none ops) (by simp [asStruct, hm])
        (fun kvs hk kv hkv => ihv _ (SMapOps.kvs_vals ops none kvs hk kv hkv))
    · exact PTN_asMap o _ _ _ (by simp [asMap, hm]) ihk ihv
  · intro n i vn t t' hw ha
    rw [absorb_unitVariant] at ha
    exact PTN_newtypeVariant o n i vn .unit (PTN_leaf o .unit .null rfl) t t' hw ha
  · exact fun n i vn v ih => PTN_newtypeVariant o n i vn v ih
  · intro n i vn items ih t t' hw ha
    rw [absorb_tupleVariant] at ha
    exact PTN_newtypeVariant o n i vn _ (PTN_tuple o items ih) t t' hw ha
  · intro n i vn fs ih t t' hw ha
    rw [absorb_structVariant] at ha
    exact PTN_newtypeVariant o n i vn _
      (PTN_asStruct o _ .struct (.ok (SFields.kvs fs)) rfl (fun kvs hk => by cases hk; exact ih)) t t' hw ha

/-- MAIN: every successful `absorb` of the repaired code preserves the tuple-name invariant -/
theorem absorb_tn (o : Options) : ∀ (x : SVal) (t t' : Tracer), WF o t → TN t → absorb .fixed o t x = .ok t' → TN t' :=
  fun x t t' _ ht h => absorb_tn' o x t t' ht h

theorem absorbAll_tn' (o : Options) (xs : List SVal) {t t' : Tracer} (ht : TN t)
    (h : absorbAll .fixed o t xs = .ok t') : TN t' :=
  absorbAll_tn_of o xs (fun v _ => absorb_tn' o v) t t' ht h

theorem absorbAll_tn (o : Options) (xs : List SVal) {t t' : Tracer} (_hw : WF o t) (ht : TN t)
    (h : absorbAll .fixed o t xs = .ok t') : TN t' :=
  absorbAll_tn' o xs ht h

theorem steps_tn (o : Options) {t t2 : Tracer} (_hw : WF o t) (ht : TN t) (h : Steps .fixed o t t2) : TN t2 := by
  obtain ⟨ys, h⟩ := h
  exact absorbAll_tn' o ys ht h

/-- every tracer `from_samples` builds from the root satisfies the tuple-name invariant -/
theorem fromSamplesTracer_tn (o : Options) (xs : List SVal) {t : Tracer}
    (h : absorbAll .fixed o (Tracer.new "$" "$") xs = .ok t) : TN t :=
  absorbAll_tn' o xs (TN_new _ _) h

/-! ### the names `toString i` are pairwise different -/

theorem toString_nat_inj : ∀ i j : Nat, toString i = toString j → i = j := by
  intro i j h
  rw [Nat.toString_eq_repr, Nat.toString_eq_repr] at h
  have h1 : Nat.toDigits 10 i = Nat.toDigits 10 j := by
    rw [← Nat.toList_repr, ← Nat.toList_repr, h]
  have h2 := congrArg (fun l => Nat.ofDigitChars 10 l 0) h1
  simpa only [Nat.ofDigitChars_ten_toDigits] using h2

theorem indexOfName_go_toString (key : String) : ∀ (names : List String) (k : Nat) (j : Nat) (hj : j < names.length),
    names[j] = key → (∀ i (h : i < names.length), i < j → names[i] ≠ key) →
    SaModel.Build.indexOfName.go key names k = some (k + j)
  | [], _, j, hj, _, _ => by simp at hj
  | n :: ns, k, 0, _, hk, _ => by
    simp only [List.getElem_cons_zero] at hk
    simp [SaModel.Build.indexOfName.go, hk]
  | n :: ns, k, j + 1, hj, hk, hne => by
    have h0 : n ≠ key := fun e => hne 0 (by simp) (by omega) (by simpa using e)
    simp only [List.getElem_cons_succ] at hk
    simp only [SaModel.Build.indexOfName.go, beq_iff_eq, if_neg h0]
    rw [indexOfName_go_toString key ns (k + 1) j (by simpa using hj) hk
      (fun i h hi e => hne (i + 1) (by simpa using h) (by omega) (by simpa using e))]
    congr 1; omega

/-- in a list whose `i`-th name is `toString i` the name lookup of the builder finds position `j` for `toString j` -/
theorem indexOfName_toString : ∀ (names : List String), (∀ i (h : i < names.length), names[i] = toString i) →
    ∀ j, j < names.length → SaModel.Build.indexOfName names (toString j) = some j := by
  intro names hn j hj
  have := indexOfName_go_toString (toString j) names 0 j hj (hn j hj)
    (fun i h hi e => by rw [hn i h] at e; have := toString_nat_inj i j e; omega)
  rw [Nat.zero_add] at this
  exact this

end SaModel.Lemmas.C06
