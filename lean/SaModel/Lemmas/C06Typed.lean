import SaModel.Lemmas.C06Seen
import SaModel.Lemmas.C06Room
import SaModel.Lemmas.C06NewRoot
import SaModel.Lemmas.C03Total
/-
C06 (closure): the BUILDER-side schema conditions of `Props.C01.toMarrow_complete` hold for every schema `from_samples`
traces (repaired code, options without overwrites).  For every tracer `from_samples` can reach — `C07.WF o t` (leaf
alphabet) and `US t` (every union node has a seen variant, `Lemmas/C06Seen.lean`) — and every field `f = t.to_field o`:

  typedF f     sizes are `i32`, union type ids `i8` values: the tracer never emits FixedSizeBinary / FixedSizeList, and
               `UnionTracer::to_field` converts every variant index with `i8::try_from` (the model's `idx > 127` guard),
               so a Union that was emitted has at most 128 variants with the type ids 0, 1, …
  defOKF f     the builder of `f` supports `serialize_default`: a traced `Null` field is never an `UnknownVariant`
               placeholder (those only stand inside unions), and a traced Union has a variant that is not a placeholder —
               the first seen one — whose field is again `defOKF` (induction)
  totalF f     C01's `total` (every nullable struct has `defOK` children; unions ≤ 128 variants)
  wideF f      dictionary keys are UInt32 (`Lemmas/C06Room.lean`)

`to_schema_good`: the packaging for `Tracer.to_schema`.  Nothing remains of `totalFs` / `typedFs` as hypotheses of the
closure: after repo fix 837fa53 `total` CANNOT fail for a traced schema.
-/
namespace SaModel.Lemmas.C06
open SaModel SaModel.Spec SaModel.Build SaModel.Trace

/-- what `toMarrow_complete` and the capacity bound ask of a field -/
def GoodF (f : Field) : Prop :=
  C03.typedF f = true ∧ defOKF f = true ∧ totalF f = true ∧ wideF f = true

theorem goodF_mk {n : String} {dt : DataType} {nl : Bool} {md : Metadata} (h1 : C03.typedDT dt = true)
    (h2 : defOK dt md = true) (h3 : total dt nl md = true) (h4 : wideDT dt = true) : GoodF (.mk n dt nl md) := by
  simp only [GoodF, C03.typedF, defOKF, totalF, wideF]; exact ⟨h1, h2, h3, h4⟩

/-! ### lists of fields -/

theorem typedFs_ofList : ∀ l : List Field, (∀ f ∈ l, C03.typedF f = true) → C03.typedFs (Fields.ofList l) = true
  | [], _ => rfl
  | f :: r, h => by
    simp only [Fields.ofList, C03.typedFs, Bool.and_eq_true]
    exact ⟨h f (by simp), typedFs_ofList r (fun g hg => h g (by simp [hg]))⟩

theorem defOKFs_ofList : ∀ l : List Field, (∀ f ∈ l, defOKF f = true) → defOKFs (Fields.ofList l) = true
  | [], _ => by simp [Fields.ofList, defOKFs]
  | f :: r, h => by
    simp only [Fields.ofList, defOKFs, Bool.and_eq_true]
    exact ⟨h f (by simp), defOKFs_ofList r (fun g hg => h g (by simp [hg]))⟩

theorem totalFs_ofList : ∀ l : List Field, (∀ f ∈ l, totalF f = true) → totalFs (Fields.ofList l) = true
  | [], _ => by simp [Fields.ofList, totalFs]
  | f :: r, h => by
    simp only [Fields.ofList, totalFs, Bool.and_eq_true]
    exact ⟨h f (by simp), totalFs_ofList r (fun g hg => h g (by simp [hg]))⟩

theorem wideFs_ofList : ∀ l : List Field, (∀ f ∈ l, wideF f = true) → wideFs (Fields.ofList l) = true
  | [], _ => by simp [Fields.ofList, wideFs]
  | f :: r, h => by
    simp only [Fields.ofList, wideFs, Bool.and_eq_true]
    exact ⟨h f (by simp), wideFs_ofList r (fun g hg => h g (by simp [hg]))⟩

theorem good_struct {n : String} {nl : Bool} {md : Metadata} {l : List Field} (h : ∀ f ∈ l, GoodF f) :
    GoodF (.mk n (.struct (Fields.ofList l)) nl md) := by
  have h1 := typedFs_ofList l (fun f hf => (h f hf).1)
  have h2 := defOKFs_ofList l (fun f hf => (h f hf).2.1)
  have h3 := totalFs_ofList l (fun f hf => (h f hf).2.2.1)
  have h4 := wideFs_ofList l (fun f hf => (h f hf).2.2.2)
  refine goodF_mk ?_ ?_ ?_ ?_
  · simpa [C03.typedDT] using h1
  · simpa [defOK] using h2
  · simp [total, h2, h3]
  · simpa [wideDT] using h4

/-! ### leaves -/

/-- the leaf types: no children, no size parameter, not `Null` -/
def plainDT : DataType → Bool
  | .null | .struct _ | .list _ | .largeList _ | .fixedSizeList _ _ | .map _ _ | .dictionary _ _ | .runEndEncoded _ _
  | .union _ _ | .fixedSizeBinary _ => false
  | _ => true

theorem plain_leafTypes (o : Options) : ∀ ty ∈ leafTypes o, ty = .null ∨ plainDT ty = true := by
  simp only [leafTypes, Options.string_type]
  cases o.string_as_large_utf8 <;> decide

theorem good_plain {n : String} {dt : DataType} {nl : Bool} {md : Metadata} (h : plainDT dt = true) :
    GoodF (.mk n dt nl md) := by
  cases dt <;> simp [plainDT] at h <;>
    exact goodF_mk (by simp [C03.typedDT]) (by simp [defOK]) (by simp [total]) (by simp [wideDT])

theorem good_null (n : String) (nl : Bool) : GoodF (.mk n .null nl []) :=
  goodF_mk rfl (by decide) (by simp [total]) rfl

theorem good_dictionary (o : Options) (n : String) (nl : Bool) : GoodF (default_dictionary_field n nl o.string_type) := by
  simp only [default_dictionary_field, Options.string_type]
  split <;> exact goodF_mk (by simp [C03.typedDT]) (by simp [defOK]) (by simp [total]) (by simp [wideDT, wideKey])

theorem good_list (o : Options) {n : String} {nl : Bool} {item : Field} (h : GoodF item) :
    GoodF (.mk n (if o.sequence_as_large_list then .largeList item else .list item) nl []) := by
  obtain ⟨h1, _, h3, h4⟩ := h
  split <;> exact goodF_mk (by simpa [C03.typedDT] using h1) (by simp [defOK]) (by simpa [total] using h3)
    (by simpa [wideDT] using h4)

theorem good_map {n : String} {nl : Bool} {kf vf : Field} (hk : GoodF kf) (hv : GoodF vf) :
    GoodF (.mk n (.map (Field.mk "entries" (.struct (Fields.ofList [kf, vf])) false []) false) nl []) := by
  obtain ⟨k1, _, k3, k4⟩ := hk
  obtain ⟨v1, _, v3, v4⟩ := hv
  exact goodF_mk (by simp [C03.typedDT, C03.typedF, C03.typedFs, Fields.ofList, k1, v1]) (by simp [defOK])
    (by simp [total, Fields.ofList, k3, v3]) (by simp [wideDT, wideF, wideFs, Fields.ofList, k4, v4])

/-! ### unions -/

/-- what the variant loop of `UnionTracer::to_field` establishes, from variant index `idx` on -/
structure GoodV (vs : Variants) (idx : Nat) (l : List (Int × Field)) : Prop where
  typed : C03.typedU (UFields.ofList l) = true
  total : totalUs (UFields.ofList l) = true
  wide : wideU (UFields.ofList l) = true
  len : idx ≤ 128 → idx + UFields.length (UFields.ofList l) ≤ 128
  first : vs.hasPresent = true → defOKFirst (UFields.ofList l) = true

theorem placeholder_unknown_variant_field : isPlaceholderF unknown_variant_field = true := by decide

theorem good_union {n : String} {nl : Bool} {vs : Variants} {l : List (Int × Field)} (h : GoodV vs 0 l)
    (hp : vs.hasPresent = true) : GoodF (.mk n (.union (UFields.ofList l) .dense) nl []) := by
  have hl := h.len (by omega)
  exact goodF_mk (by simpa [C03.typedDT] using h.typed)
    (by simp only [defOK, Bool.and_eq_true, decide_eq_true_eq]; exact ⟨by omega, h.first hp⟩)
    (by simp only [total, Bool.and_eq_true, decide_eq_true_eq]; exact ⟨by omega, h.total⟩)
    (by simpa [wideDT] using h.wide)

/-! ### the traversal -/

mutual
theorem to_field_good (o : Options) (h0 : o.overwrites = []) :
    ∀ (t : Tracer) (f : Field), C07.WF o t → US t → t.to_field o = .ok f → GoodF f
  | .unknown n p nl, f, _, _, h => by
    rw [to_field_unknown_inv h0 h]; exact good_null n nl
  | .primitive n p nl ty st, f, hw, _, h => by
    rw [C07.WF] at hw
    obtain ⟨rfl, hs⟩ := hw
    have hty := (C07.mem_leafStates.mp hs).1
    rcases to_field_primitive_inv h0 h with ⟨_, rfl⟩ | ⟨_, _, ⟨_, rfl⟩ | ⟨_, rfl⟩⟩ | ⟨hne, _, rfl⟩
    · exact good_null n true
    · rcases plain_leafTypes o ty hty with rfl | hpl
      · rename_i hne _; exact absurd rfl hne
      · exact good_plain hpl
    · exact good_dictionary o n nl
    · rcases plain_leafTypes o ty hty with rfl | hpl
      · exact absurd rfl hne
      · exact good_plain hpl
  | .list n p nl i, f, hw, hu, h => by
    rw [C07.WF] at hw; rw [US] at hu
    obtain ⟨item, hi, rfl⟩ := to_field_list_inv h0 h
    exact good_list o (to_field_good o h0 i item hw hu hi)
  | .map n p nl k v, f, hw, hu, h => by
    rw [C07.WF] at hw; rw [US] at hu
    obtain ⟨kf, vf, hk, hv, rfl⟩ := to_field_map_inv h0 h
    exact good_map (to_field_good o h0 k kf hw.1 hu.1 hk) (to_field_good o h0 v vf hw.2 hu.2 hv)
  | .struct n p nl fs m s, f, hw, hu, h => by
    rw [C07.WF] at hw; rw [US] at hu
    obtain ⟨fields, hfs, hc⟩ := to_field_struct_inv h0 h
    have ih := to_fieldsF_good o h0 s fs fields hw hu hfs
    rcases hc with ⟨_, rfl⟩ | ⟨_, rfl⟩
    · exact good_struct (fun g hg => ih g ((mem_sortByName fields g).1 hg))
    · exact good_struct ih
  | .tuple n p nl ts, f, hw, hu, h => by
    rw [C07.WF] at hw; rw [US] at hu
    obtain ⟨fields, hfs, rfl⟩ := to_field_tuple_inv h0 h
    exact good_struct (to_fieldsT_good o h0 ts fields hw hu hfs)
  | .union n p nl vs, f, hw, hu, h => by
    rw [C07.WF] at hw; rw [US] at hu
    rcases to_field_union_inv h0 h with ⟨_, _, rfl⟩ | ⟨fields, hfs, rfl, _⟩
    · exact good_dictionary o n nl
    · exact good_union (to_fieldsV_good o h0 vs 0 fields hw hu.2 hfs) hu.1
theorem to_fieldsT_good (o : Options) (h0 : o.overwrites = []) :
    ∀ (ts : Tracers) (l : List Field), C07.TsWF o ts → UST ts → ts.to_fields o = .ok l → ∀ f ∈ l, GoodF f
  | .nil, l, _, _, h => by
    simp only [Tracers.to_fields] at h; cases h; simp
  | .cons t r, l, hw, hu, h => by
    rw [C07.TsWF] at hw; rw [UST] at hu
    simp only [Tracers.to_fields] at h
    obtain ⟨f, hf, h⟩ := bind_ok'.mp h
    obtain ⟨fs, hfs, h⟩ := bind_ok'.mp h
    cases h
    intro g hg
    rcases List.mem_cons.1 hg with rfl | hg
    · exact to_field_good o h0 t _ hw.1 hu.1 hf
    · exact to_fieldsT_good o h0 r fs hw.2 hu.2 hfs g hg
theorem to_fieldsF_good (o : Options) (h0 : o.overwrites = []) (s : Nat) :
    ∀ (fs : TFields) (l : List Field), C07.FWF o s fs → USF fs → fs.to_fields o = .ok l → ∀ f ∈ l, GoodF f
  | .nil, l, _, _, h => by
    simp only [TFields.to_fields] at h; cases h; simp
  | .cons _ _ t r, l, hw, hu, h => by
    rw [C07.FWF] at hw; rw [USF] at hu
    simp only [TFields.to_fields] at h
    obtain ⟨f, hf, h⟩ := bind_ok'.mp h
    obtain ⟨fs', hfs, h⟩ := bind_ok'.mp h
    cases h
    intro g hg
    rcases List.mem_cons.1 hg with rfl | hg
    · exact to_field_good o h0 t _ hw.2.2.2.1 hu.1 hf
    · exact to_fieldsF_good o h0 s r fs' hw.2.2.2.2 hu.2 hfs g hg
theorem to_fieldsV_good (o : Options) (h0 : o.overwrites = []) :
    ∀ (vs : Variants) (idx : Nat) (l : List (Int × Field)), C07.VWF o vs → USV vs → vs.to_fields o idx = .ok l →
      GoodV vs idx l
  | .nil, idx, l, _, _, h => by
    simp only [Variants.to_fields] at h; cases h
    exact ⟨rfl, by simp [UFields.ofList, totalUs], by simp [UFields.ofList, wideU],
      by simp [UFields.ofList, UFields.length], by simp [Variants.hasPresent]⟩
  | .absent r, idx, l, hw, hu, h => by
    rw [C07.VWF] at hw; rw [USV] at hu
    simp only [Variants.to_fields] at h
    split at h
    · obtain ⟨_, hx, _⟩ := bind_ok'.mp h; simp [fail] at hx
    rename_i hidx
    obtain ⟨fs, hfs, h⟩ := bind_ok'.mp h
    cases h
    have ih := to_fieldsV_good o h0 r (idx + 1) fs hw hu hfs
    refine ⟨?_, ?_, ?_, ?_, ?_⟩
    · simp only [UFields.ofList, C03.typedU, Bool.and_eq_true, decide_eq_true_eq, Int.ofNat_eq_natCast]
      exact ⟨⟨⟨by omega, by omega⟩, by decide⟩, ih.typed⟩
    · simp only [UFields.ofList, totalUs, Bool.and_eq_true]; exact ⟨by decide, ih.total⟩
    · simp only [UFields.ofList, wideU, Bool.and_eq_true]; exact ⟨by decide, ih.wide⟩
    · intro _
      have := ih.len (by omega)
      simp only [UFields.ofList, UFields.length]; omega
    · intro hp
      simp only [Variants.hasPresent] at hp
      simp only [UFields.ofList, defOKFirst, placeholder_unknown_variant_field, if_true]
      exact ih.first hp
  | .present _ t r, idx, l, hw, hu, h => by
    rw [C07.VWF] at hw; rw [USV] at hu
    simp only [Variants.to_fields] at h
    split at h
    · obtain ⟨_, hx, _⟩ := bind_ok'.mp h; simp [fail] at hx
    rename_i hidx
    obtain ⟨f, hf, h⟩ := bind_ok'.mp h
    obtain ⟨fs, hfs, h⟩ := bind_ok'.mp h
    cases h
    have ih := to_fieldsV_good o h0 r (idx + 1) fs hw.2 hu.2 hfs
    obtain ⟨g1, g2, g3, g4⟩ := to_field_good o h0 t f hw.1 hu.1 hf
    have hnp : isPlaceholderF f = false := by
      have := (to_field_facts h0 hf).2.1
      cases f; simpa [isPlaceholderF, Field.dataType, Field.metadata] using this
    refine ⟨?_, ?_, ?_, ?_, ?_⟩
    · simp only [UFields.ofList, C03.typedU, Bool.and_eq_true, decide_eq_true_eq, Int.ofNat_eq_natCast]
      exact ⟨⟨⟨by omega, by omega⟩, g1⟩, ih.typed⟩
    · simp only [UFields.ofList, totalUs, Bool.and_eq_true]; exact ⟨g3, ih.total⟩
    · simp only [UFields.ofList, wideU, Bool.and_eq_true]; exact ⟨g4, ih.wide⟩
    · intro _
      have := ih.len (by omega)
      simp only [UFields.ofList, UFields.length]; omega
    · intro _
      simp only [UFields.ofList, defOKFirst, hnp, Bool.false_eq_true, if_false]
      exact g2
end

/-! ### the root -/

theorem typedFs_toList' : ∀ fs : Fields, C03.typedFs (Fields.ofList fs.toList) = C03.typedFs fs := fun fs => by
  rw [Roundtrip.ofList_toList']

/-- **every schema `from_samples` traces is well typed, `total`, and has UInt32 dictionary keys** -/
theorem to_schema_good (o : Options) (h0 : o.overwrites = []) (t : Tracer) (hw : C07.WF o t) (hu : US t)
    (fields : List Field) (h : t.to_schema o = .ok fields) :
    C03.typedFs (Fields.ofList fields) = true ∧ totalFs (Fields.ofList fields) = true ∧
      wideFs (Fields.ofList fields) = true := by
  obtain ⟨n, children, md, hr, rfl⟩ := to_schema_ok o t fields h
  obtain ⟨h1, _, h3, h4⟩ := to_field_good o h0 t _ hw hu hr
  rw [Roundtrip.ofList_toList']
  simp only [C03.typedF, C03.typedDT, totalF, total, wideF, wideDT, Bool.and_eq_true] at h1 h3 h4
  exact ⟨h1, h3.1, h4⟩

end SaModel.Lemmas.C06
