import SaModel.Lemmas.C06Bridge
/-
C06 helpers, part 5: `absorb` on the compound samples as explicit existence statements (one per family), so that the
nested proofs never unfold the mutual definition again.
-/
namespace SaModel.Lemmas.C06
open SaModel SaModel.Trace

theorem bind_ok {α β} {x : R α} {f : α → R β} {b : β} : (x >>= f) = .ok b ↔ ∃ a, x = .ok a ∧ f a = .ok b := by
  cases x with
  | error e => simp [bind, Except.bind]
  | ok a => simp [bind, Except.bind]

theorem absorb_some (c : Code) (o : Options) (t : Tracer) (v : SVal) :
    absorb c o t (.some v) = absorb c o t.mark_nullable v := by simp only [absorb]

theorem absorb_newtypeStruct (c : Code) (o : Options) (t : Tracer) (n : String) (v : SVal) :
    absorb c o t (.newtypeStruct n v) = absorb c o t v := by simp only [absorb]

theorem absorb_none (c : Code) (o : Options) (t : Tracer) : absorb c o t .none = .ok t.mark_nullable := by
  simp only [absorb]

theorem absorb_seq_ok (c : Code) (o : Options) (t t' : Tracer) (items : SVals) :
    absorb c o t (.seq items) = .ok t' ↔
      ∃ n p nl i i', t.ensure_list = .ok (.list n p nl i) ∧ absorbAll c o i items.toList = .ok i' ∧
        t' = .list n p nl i' := by
  simp only [absorb, bind_ok]
  constructor
  · rintro ⟨t1, h1, h2⟩
    cases t1 <;> try (simp only [panic] at h2; cases h2; done)
    rename_i n p nl i
    simp only [bind_ok] at h2
    obtain ⟨i', h2, h3⟩ := h2
    rw [absorbSeq_eq] at h2
    cases h3
    exact ⟨n, p, nl, i, i', h1, h2, rfl⟩
  · rintro ⟨n, p, nl, i, i', h1, h2, rfl⟩
    refine ⟨_, h1, ?_⟩
    simp only [bind_ok]
    exact ⟨i', by rw [absorbSeq_eq]; exact h2, rfl⟩

theorem absorb_tuple_ok (c : Code) (o : Options) (t t' : Tracer) (items : SVals) :
    absorb c o t (.tuple items) = .ok t' ↔
      ∃ n p nl ts ts', t.ensure_tuple c items.length = .ok (.tuple n p nl ts) ∧
        absorbTupleL c o p ts 0 items.toList = .ok ts' ∧ t' = .tuple n p nl ts' := by
  simp only [absorb, bind_ok]
  constructor
  · rintro ⟨t1, h1, h2⟩
    cases t1 <;> try (simp only [panic] at h2; cases h2; done)
    rename_i n p nl ts
    simp only [bind_ok] at h2
    obtain ⟨ts', h2, h3⟩ := h2
    rw [absorbTuple_eq] at h2
    cases h3
    exact ⟨n, p, nl, ts, ts', h1, h2, rfl⟩
  · rintro ⟨n, p, nl, ts, ts', h1, h2, rfl⟩
    refine ⟨_, h1, ?_⟩
    simp only [bind_ok]
    exact ⟨ts', by rw [absorbTuple_eq]; exact h2, rfl⟩

/-- samples traced through `StructTracer`: the mode they request and their (key, value) list -/
def asStruct (o : Options) : SVal → Option (StructMode × R (List (String × SVal)))
  | .record _ fs => some (.struct, .ok (SFields.kvs fs))
  | .map es => if o.map_as_struct then some (.map, SEntries.kvs es) else none
  | .mapRaw ops => if o.map_as_struct then some (.map, SMapOps.kvs none ops) else none
  | _ => none

theorem absorb_asStruct_ok (c : Code) (o : Options) (t t' : Tracer) (x : SVal) (mode : StructMode)
    (rk : R (List (String × SVal))) (hx : asStruct o x = some (mode, rk)) :
    absorb c o t x = .ok t' ↔
      ∃ kvs n p nl fs m s fs', rk = .ok kvs ∧ t.ensure_struct c [] mode = .ok (.struct n p nl fs m s) ∧
        absorbKVs c o p s fs kvs = .ok fs' ∧ t' = .struct n p nl (fs'.end_ s) m (s + 1) := by
  cases x <;> simp only [asStruct, reduceCtorEq] at hx
  case record nm fields =>
    simp only [Option.some.injEq, Prod.mk.injEq] at hx
    obtain ⟨rfl, rfl⟩ := hx
    simp only [absorb, bind_ok]
    constructor
    · rintro ⟨t1, h1, h2⟩
      cases t1 <;> try (simp only [panic] at h2; cases h2; done)
      rename_i n p nl fs m s
      simp only [bind_ok] at h2
      obtain ⟨fs', h2, h3⟩ := h2
      rw [absorbFields_eq] at h2
      cases h3
      exact ⟨_, n, p, nl, fs, m, s, fs', rfl, h1, h2, rfl⟩
    · rintro ⟨kvs, n, p, nl, fs, m, s, fs', hk, h1, h2, rfl⟩
      cases hk
      refine ⟨_, h1, ?_⟩
      simp only [bind_ok]
      exact ⟨fs', by rw [absorbFields_eq]; exact h2, rfl⟩
  case map es =>
    by_cases hm : o.map_as_struct = true
    · rw [if_pos hm] at hx
      simp only [Option.some.injEq, Prod.mk.injEq] at hx
      obtain ⟨rfl, rfl⟩ := hx
      simp only [absorb, if_pos hm, bind_ok]
      constructor
      · rintro ⟨t1, h1, h2⟩
        cases t1 <;> try (simp only [panic] at h2; cases h2; done)
        rename_i n p nl fs m s
        simp only [bind_ok] at h2
        obtain ⟨fs', h2, h3⟩ := h2
        rw [absorbEntriesAsStruct_ok] at h2
        obtain ⟨kvs, hk, h2⟩ := h2
        cases h3
        exact ⟨kvs, n, p, nl, fs, m, s, fs', hk, h1, h2, rfl⟩
      · rintro ⟨kvs, n, p, nl, fs, m, s, fs', hk, h1, h2, rfl⟩
        refine ⟨_, h1, ?_⟩
        simp only [bind_ok]
        exact ⟨fs', (absorbEntriesAsStruct_ok c o p s es fs fs').mpr ⟨kvs, hk, h2⟩, rfl⟩
    · rw [if_neg hm] at hx; cases hx
  case mapRaw ops =>
    by_cases hm : o.map_as_struct = true
    · rw [if_pos hm] at hx
      simp only [Option.some.injEq, Prod.mk.injEq] at hx
      obtain ⟨rfl, rfl⟩ := hx
      simp only [absorb, if_pos hm, bind_ok]
      constructor
      · rintro ⟨t1, h1, h2⟩
        cases t1 <;> try (simp only [panic] at h2; cases h2; done)
        rename_i n p nl fs m s
        simp only [bind_ok] at h2
        obtain ⟨fs', h2, h3⟩ := h2
        rw [absorbOpsAsStruct_ok] at h2
        obtain ⟨kvs, hk, h2⟩ := h2
        cases h3
        exact ⟨kvs, n, p, nl, fs, m, s, fs', hk, h1, h2, rfl⟩
      · rintro ⟨kvs, n, p, nl, fs, m, s, fs', hk, h1, h2, rfl⟩
        refine ⟨_, h1, ?_⟩
        simp only [bind_ok]
        exact ⟨fs', (absorbOpsAsStruct_ok c o p s ops none fs fs').mpr ⟨kvs, hk, h2⟩, rfl⟩
    · rw [if_neg hm] at hx; cases hx

/-- samples traced through `MapTracer`: their key list and value list -/
def asMap (o : Options) : SVal → Option (List SVal × List SVal)
  | .map es => if o.map_as_struct then none else some (SEntries.keys es, SEntries.vals es)
  | .mapRaw ops => if o.map_as_struct then none else some (SMapOps.keys ops, SMapOps.vals ops)
  | _ => none

theorem absorb_asMap_ok (c : Code) (o : Options) (t t' : Tracer) (x : SVal) (ks vs : List SVal)
    (hx : asMap o x = some (ks, vs)) :
    absorb c o t x = .ok t' ↔
      ∃ n p nl k v k' v', t.ensure_map = .ok (.map n p nl k v) ∧ absorbAll c o k ks = .ok k' ∧
        absorbAll c o v vs = .ok v' ∧ t' = .map n p nl k' v' := by
  cases x <;> simp only [asMap, reduceCtorEq] at hx
  case map es =>
    by_cases hm : o.map_as_struct = true
    · rw [if_pos hm] at hx; cases hx
    · rw [if_neg hm] at hx
      simp only [Option.some.injEq, Prod.mk.injEq] at hx
      obtain ⟨rfl, rfl⟩ := hx
      simp only [absorb, if_neg hm, bind_ok]
      constructor
      · rintro ⟨t1, h1, h2⟩
        cases t1 <;> try (simp only [panic] at h2; cases h2; done)
        rename_i n p nl k v
        simp only [bind_ok] at h2
        obtain ⟨⟨k', v'⟩, h2, h3⟩ := h2
        rw [absorbEntriesAsMap_ok] at h2
        cases h3
        exact ⟨n, p, nl, k, v, k', v', h1, h2.1, h2.2, rfl⟩
      · rintro ⟨n, p, nl, k, v, k', v', h1, h2, h3, rfl⟩
        refine ⟨_, h1, ?_⟩
        simp only [bind_ok]
        exact ⟨(k', v'), (absorbEntriesAsMap_ok c o es k v k' v').mpr ⟨h2, h3⟩, rfl⟩
  case mapRaw ops =>
    by_cases hm : o.map_as_struct = true
    · rw [if_pos hm] at hx; cases hx
    · rw [if_neg hm] at hx
      simp only [Option.some.injEq, Prod.mk.injEq] at hx
      obtain ⟨rfl, rfl⟩ := hx
      simp only [absorb, if_neg hm, bind_ok]
      constructor
      · rintro ⟨t1, h1, h2⟩
        cases t1 <;> try (simp only [panic] at h2; cases h2; done)
        rename_i n p nl k v
        simp only [bind_ok] at h2
        obtain ⟨⟨k', v'⟩, h2, h3⟩ := h2
        rw [absorbOpsAsMap_ok] at h2
        cases h3
        exact ⟨n, p, nl, k, v, k', v', h1, h2.1, h2.2, rfl⟩
      · rintro ⟨n, p, nl, k, v, k', v', h1, h2, h3, rfl⟩
        refine ⟨_, h1, ?_⟩
        simp only [bind_ok]
        exact ⟨(k', v'), (absorbOpsAsMap_ok c o ops k v k' v').mpr ⟨h2, h3⟩, rfl⟩

theorem ensure_union_variant_ok (t : Tracer) (vn : String) (idx : Nat) (n p : String) (nl : Bool) (vs : Variants)
    (vt : Tracer) :
    ensure_union_variant t vn idx = .ok (n, p, nl, vs, vt) ↔
      ∃ vs0 nm, t.ensure_union [] = .ok (.union n p nl vs0) ∧ ensure_variant p vs0 vn idx = .ok vs ∧
        vs.get? idx = some (some (nm, vt)) := by
  simp only [ensure_union_variant, bind_ok]
  constructor
  · rintro ⟨t1, h1, h2⟩
    cases t1 <;> try (simp only [panic] at h2; cases h2; done)
    rename_i n1 p1 nl1 vs0
    simp only [bind_ok] at h2
    obtain ⟨vs1, h2, h3⟩ := h2
    cases hg : vs1.get? idx with
    | none => rw [hg] at h3; simp only [panic] at h3; cases h3
    | some x =>
      cases x with
      | none => rw [hg] at h3; simp only [panic] at h3; cases h3
      | some y =>
        obtain ⟨nm, vt1⟩ := y
        rw [hg] at h3; simp only at h3; cases h3
        exact ⟨vs0, nm, h1, h2, hg⟩
  · rintro ⟨vs0, nm, h1, h2, h3⟩
    refine ⟨_, h1, ?_⟩
    simp only [bind_ok]
    refine ⟨vs, h2, ?_⟩
    rw [h3]

theorem absorb_newtypeVariant_ok (c : Code) (o : Options) (t t' : Tracer) (nm : String) (idx : Nat) (vn : String)
    (v : SVal) :
    absorb c o t (.newtypeVariant nm idx vn v) = .ok t' ↔
      ∃ n p nl vs0 vs nm' vt vt', t.ensure_union [] = .ok (.union n p nl vs0) ∧
        ensure_variant p vs0 vn idx = .ok vs ∧ vs.get? idx = some (some (nm', vt)) ∧ absorb c o vt v = .ok vt' ∧
        t' = .union n p nl (vs.set idx vn vt') := by
  simp only [absorb, bind_ok]
  constructor
  · rintro ⟨⟨n, p, nl, vs, vt⟩, h1, h2⟩
    simp only at h2
    obtain ⟨vt', h2, h3⟩ := h2
    cases h3
    obtain ⟨vs0, nm', h4, h5, h6⟩ := (ensure_union_variant_ok t vn idx n p nl vs vt).mp h1
    exact ⟨n, p, nl, vs0, vs, nm', vt, vt', h4, h5, h6, h2, rfl⟩
  · rintro ⟨n, p, nl, vs0, vs, nm', vt, vt', h4, h5, h6, h2, rfl⟩
    refine ⟨(n, p, nl, vs, vt), (ensure_union_variant_ok t vn idx n p nl vs vt).mpr ⟨vs0, nm', h4, h5, h6⟩, ?_⟩
    simp only
    exact ⟨vt', h2, rfl⟩

end SaModel.Lemmas.C06
