import SaModel.Lemmas.C06Bridge
import SaModel.Lemmas.C06Erase
import SaModel.Props.C07
/-
C06 helpers, part 4: the reachable-state invariant `WF o t` of the tracer and its preservation by `absorb`.

`WF o t`: every primitive node carries strategy `None` and a state of the leaf alphabet (`leafStates o`), and in every
struct node each field's `last_seen_in_sample` is below the node's `seen_samples` (true after `StructTracer::end`).
`Tracer::new` satisfies it and every successful `absorb` preserves it (`absorb_wf`), so it holds for every tracer
`from_samples` can reach.
-/
namespace SaModel.Lemmas.C06
open SaModel SaModel.Trace SaModel.Lemmas.C07 SaModel.Props.C07

mutual
def WF (o : Options) : Tracer → Prop
  | .unknown _ _ _ => True
  | .primitive _ _ nl ty st => st = none ∧ (some ty, nl) ∈ leafStates o
  | .list _ _ _ i => WF o i
  | .map _ _ _ k v => WF o k ∧ WF o v
  | .struct _ _ _ fs _ s => WFF o s fs
  | .tuple _ _ _ ts => WFT o ts
  | .union _ _ _ vs => WFV o vs
def WFT (o : Options) : Tracers → Prop
  | .nil => True
  | .cons t r => WF o t ∧ WFT o r
def WFF (o : Options) (b : Nat) : TFields → Prop
  | .nil => True
  | .cons _ l t r => l < b ∧ WF o t ∧ WFF o b r
def WFV (o : Options) : Variants → Prop
  | .nil => True
  | .absent r => WFV o r
  | .present _ t r => WF o t ∧ WFV o r
end

theorem WF_new (o : Options) (n p : String) : WF o (Tracer.new n p) := by simp [Tracer.new, WF]

theorem WFT_iff (o : Options) : ∀ ts : Tracers, WFT o ts ↔ ∀ i t, ts.get? i = some t → WF o t
  | .nil => by simp [WFT, Tracers.get?]
  | .cons t r => by
    simp only [WFT, WFT_iff o r]
    constructor
    · rintro ⟨h1, h2⟩ i t' hg
      cases i with
      | zero => simp only [Tracers.get?, Option.some.injEq] at hg; subst hg; exact h1
      | succ i => exact h2 i t' hg
    · intro h
      exact ⟨h 0 t rfl, fun i t' hg => h (i + 1) t' hg⟩

theorem WFF_iff (o : Options) (b : Nat) : ∀ fs : TFields,
    WFF o b fs ↔ (∀ i t, fs.get? i = some t → WF o t) ∧ (∀ i l, lastSeen? fs i = some l → l < b)
  | .nil => by simp [WFF, TFields.get?, lastSeen?]
  | .cons n l t r => by
    simp only [WFF, WFF_iff o b r]
    constructor
    · rintro ⟨h1, h2, h3, h4⟩
      constructor
      · intro i t' hg
        cases i with
        | zero => simp only [TFields.get?, Option.some.injEq] at hg; subst hg; exact h2
        | succ i => exact h3 i t' hg
      · intro i l' hl
        cases i with
        | zero => simp only [lastSeen?, Option.some.injEq] at hl; subst hl; exact h1
        | succ i => exact h4 i l' hl
    · rintro ⟨h1, h2⟩
      exact ⟨h2 0 l rfl, h1 0 t rfl, fun i t' hg => h1 (i + 1) t' hg, fun i l' hl => h2 (i + 1) l' hl⟩

theorem WFV_iff (o : Options) : ∀ vs : Variants, WFV o vs ↔ ∀ i n t, vs.get? i = some (some (n, t)) → WF o t
  | .nil => by simp [WFV, Variants.get?]
  | .absent r => by
    simp only [WFV, WFV_iff o r]
    constructor
    · intro h i n t hg
      cases i with
      | zero => simp [Variants.get?] at hg
      | succ i => exact h i n t hg
    · intro h i n t hg
      exact h (i + 1) n t hg
  | .present n' t' r => by
    simp only [WFV, WFV_iff o r]
    constructor
    · rintro ⟨h1, h2⟩ i n t hg
      cases i with
      | zero =>
        simp only [Variants.get?, Option.some.injEq, Prod.mk.injEq] at hg
        obtain ⟨_, rfl⟩ := hg; exact h1
      | succ i => exact h2 i n t hg
    · intro h
      exact ⟨h 0 n' t' rfl, fun i n t hg => h (i + 1) n t hg⟩

theorem WFF_mono (o : Options) {b b' : Nat} (hb : b ≤ b') {fs : TFields} (h : WFF o b fs) : WFF o b' fs := by
  rw [WFF_iff] at h ⊢
  exact ⟨h.1, fun i l hl => Nat.lt_of_lt_of_le (h.2 i l hl) hb⟩

/-! ### leaf level -/

def markMemTable (o : Options) : Bool :=
  (leafStates o).all fun s => (leafStates o).any fun x => decide (x = mark s)

set_option maxRecDepth 100000 in
theorem markMemTable_all : coerceOptions.all markMemTable = true := by decide +kernel

theorem mark_mem (o : Options) {s : LeafSt} (hs : s ∈ leafStates o) : mark s ∈ leafStates o := by
  have h := table_at markMemTable_all o
  unfold markMemTable at h
  rw [leafStates_coerceView] at hs
  have hr := List.all_eq_true.mp h s hs
  simp only [List.any_eq_true, decide_eq_true_eq] at hr
  obtain ⟨x, hx, rfl⟩ := hr
  rw [leafStates_coerceView]; exact hx

theorem unknown_mem (o : Options) (nl : Bool) : ((none, nl) : LeafSt) ∈ leafStates o := by
  cases nl <;> simp [leafStates]

theorem WF_set_nullable (o : Options) {t : Tracer} (h : WF o t) : WF o (t.set_nullable true) := by
  cases t <;> simp only [Tracer.set_nullable, WF] at h ⊢ <;> try exact h
  exact ⟨h.1, mark_mem o h.2⟩

theorem WF_mark_nullable (o : Options) {t : Tracer} (h : WF o t) : WF o t.mark_nullable := WF_set_nullable o h

/-- the tracer as a leaf state (for `Unknown` / `Primitive` nodes) -/
theorem ensure_primitive_wf (o : Options) {t t' : Tracer} {ty : DataType} (hty : ty ∈ leafTypes o) (hwf : WF o t)
    (h : t.ensure_primitive o ty = .ok t') : WF o t' := by
  cases t with
  | unknown n p nl =>
    have e := ensure_primitive_embed o n p (none, nl) ty
    simp only [LeafSt.embed] at e
    rw [e] at h
    cases ha : act o (none, nl) ty with
    | error e' => rw [ha] at h; cases h
    | ok s' =>
      rw [ha] at h; cases h
      have hm := (step_facts o (unknown_mem o nl) hty ha).1
      simp only [act] at ha; cases ha
      simp only [WF]; exact ⟨trivial, hm⟩
  | primitive n p nl pty st =>
    simp only [WF] at hwf
    obtain ⟨rfl, hs⟩ := hwf
    have e := ensure_primitive_embed o n p (some pty, nl) ty
    simp only [LeafSt.embed] at e
    rw [e] at h
    cases ha : act o (some pty, nl) ty with
    | error e' => rw [ha] at h; cases h
    | ok s' =>
      rw [ha] at h; cases h
      have hm := (step_facts o hs hty ha).1
      obtain ⟨t2, nl2⟩ := s'
      cases t2 with
      | none => simp [WF]
      | some ty2 => simp only [WF]; exact ⟨trivial, hm⟩
  | list n p nl i =>
    simp only [Tracer.ensure_primitive, Tracer.ensure_primitive_with_strategy] at h
    split at h
    · cases h; exact WF_set_nullable o hwf
    · cases h
  | map n p nl k v =>
    simp only [Tracer.ensure_primitive, Tracer.ensure_primitive_with_strategy] at h
    split at h
    · cases h; exact WF_set_nullable o hwf
    · cases h
  | struct n p nl fs m s =>
    simp only [Tracer.ensure_primitive, Tracer.ensure_primitive_with_strategy] at h
    split at h
    · cases h; exact WF_set_nullable o hwf
    · cases h
  | tuple n p nl ts =>
    simp only [Tracer.ensure_primitive, Tracer.ensure_primitive_with_strategy] at h
    split at h
    · cases h; exact WF_set_nullable o hwf
    · cases h
  | union n p nl vs =>
    simp only [Tracer.ensure_primitive, Tracer.ensure_primitive_with_strategy] at h
    split at h
    · cases h; exact WF_set_nullable o hwf
    · cases h

/-! ### shapes produced by the container `ensure_*` methods -/

theorem enforce_ok_or {t : Tracer} {α} {k : R α} {r : α} (h : (do t.enforce_depth_limit; k) = .ok r) :
    t.enforce_depth_limit = .ok () ∧ k = .ok r := by
  cases he : t.enforce_depth_limit with
  | error e => rw [he] at h; cases h
  | ok u => rw [he] at h; exact ⟨rfl, h⟩

theorem ensure_list_ok (o : Options) {t t1 : Tracer} (h : t.ensure_list = .ok t1) :
    t.enforce_depth_limit = .ok () ∧ ∃ i, t1 = .list t.name t.path t.nullable i ∧ (WF o t → WF o i) ∧
      (∀ n p nl i0, t = .list n p nl i0 → i = i0) := by
  unfold Tracer.ensure_list at h
  obtain ⟨hd, h⟩ := enforce_ok_or h
  refine ⟨hd, ?_⟩
  by_cases hu : t.is_unknown_or_null = true
  · rw [if_pos hu] at h
    cases h
    refine ⟨_, rfl, fun _ => WF_new o _ _, ?_⟩
    intro n p nl i0 ht; subst ht; simp [Tracer.is_unknown_or_null] at hu
  · rw [if_neg hu] at h
    cases t with
    | list n p nl i =>
      simp only at h; cases h
      exact ⟨i, rfl, fun hw => by simpa [WF] using hw, fun _ _ _ _ ht => by cases ht; rfl⟩
    | _ => simp only [fail] at h; cases h

theorem ensure_map_ok (o : Options) {t t1 : Tracer} (h : t.ensure_map = .ok t1) :
    t.enforce_depth_limit = .ok () ∧ ∃ k v, t1 = .map t.name t.path t.nullable k v ∧ (WF o t → WF o k ∧ WF o v) ∧
      (∀ n p nl k0 v0, t = .map n p nl k0 v0 → k = k0 ∧ v = v0) := by
  unfold Tracer.ensure_map at h
  obtain ⟨hd, h⟩ := enforce_ok_or h
  refine ⟨hd, ?_⟩
  by_cases hu : t.is_unknown_or_null = true
  · rw [if_pos hu] at h
    cases h
    refine ⟨_, _, rfl, fun _ => ⟨WF_new o _ _, WF_new o _ _⟩, ?_⟩
    intro n p nl k0 v0 ht; subst ht; simp [Tracer.is_unknown_or_null] at hu
  · rw [if_neg hu] at h
    cases t with
    | map n p nl k v =>
      simp only at h; cases h
      exact ⟨k, v, rfl, fun hw => by simpa [WF] using hw, fun _ _ _ _ _ ht => by cases ht; exact ⟨rfl, rfl⟩⟩
    | _ => simp only [fail] at h; cases h

theorem ensure_struct_ok (o : Options) (c : Code) {t t1 : Tracer} {mode : StructMode}
    (h : t.ensure_struct c [] mode = .ok t1) :
    t.enforce_depth_limit = .ok () ∧ ∃ fs m s, t1 = .struct t.name t.path t.nullable fs m s ∧ (WF o t → WFF o s fs) ∧
      (∀ n p nl fs0 m0 s0, t = .struct n p nl fs0 m0 s0 → fs = fs0 ∧ s = s0 ∧
        m = (if (c.struct_mode_join && mode == .map) = true then .map else m0)) := by
  unfold Tracer.ensure_struct at h
  obtain ⟨hd, h⟩ := enforce_ok_or h
  refine ⟨hd, ?_⟩
  by_cases hu : t.is_unknown_or_null = true
  · rw [if_pos hu] at h
    cases h
    refine ⟨_, _, _, rfl, fun _ => by simp [mkStructFields, WFF], ?_⟩
    intro n p nl fs0 m0 s0 ht; subst ht; simp [Tracer.is_unknown_or_null] at hu
  · rw [if_neg hu] at h
    cases t with
    | struct n p nl fs m s =>
      simp only at h
      by_cases hc : (c.struct_mode_join && mode == .map) = true
      · rw [if_pos hc] at h; cases h
        exact ⟨fs, .map, s, rfl, fun hw => by simpa [WF] using hw,
          fun _ _ _ _ _ _ ht => by cases ht; exact ⟨rfl, rfl, by rw [if_pos hc]⟩⟩
      · rw [if_neg hc] at h; cases h
        exact ⟨fs, m, s, rfl, fun hw => by simpa [WF] using hw,
          fun _ _ _ _ _ _ ht => by cases ht; exact ⟨rfl, rfl, by rw [if_neg hc]⟩⟩
    | _ => simp only [fail] at h; cases h

theorem WFT_mkTupleFields (o : Options) (path : String) (n : Nat) : ∀ k, WFT o (mkTupleFields path n k)
  | 0 => by simp [mkTupleFields, WFT]
  | k + 1 => by simp only [mkTupleFields, WFT]; exact ⟨WF_new o _ _, WFT_mkTupleFields o path n k⟩

theorem WFT_growN (o : Options) (g : Tracers → Tracer) (hg : ∀ acc, WF o (g acc)) (k : Nat) {ts : Tracers}
    (h : WFT o ts) : WFT o (growN g k ts) := by
  rw [WFT_iff] at h ⊢
  intro i t hi
  by_cases hlt : i < ts.length
  · rw [growN_get?_lt g k ts i hlt] at hi; exact h i t hi
  · exact growN_get?_new g (WF o) hg k ts i t (by omega) hi

theorem WFT_markFrom (o : Options) (k : Nat) {ts : Tracers} (h : WFT o ts) : WFT o (ts.markFrom k) := by
  rw [WFT_iff] at h ⊢
  intro i t hi
  rw [Tracers.get?_markFrom] at hi
  cases hg : ts.get? i with
  | none => rw [hg] at hi; cases hi
  | some t0 =>
    rw [hg] at hi
    simp only [Option.map_some, Option.some.injEq] at hi
    subst hi
    split
    · exact WF_mark_nullable o (h i t0 hg)
    · exact h i t0 hg

theorem ensure_tuple_ok (o : Options) (c : Code) {t t1 : Tracer} {k : Nat} (h : t.ensure_tuple c k = .ok t1) :
    t.enforce_depth_limit = .ok () ∧ ∃ ts, t1 = .tuple t.name t.path t.nullable ts ∧ (WF o t → WFT o ts) ∧
      (c.tuple_arity_nullable = true → ∀ i x, ts.get? i = some x → k ≤ i → x.nullable = true) ∧
      (∀ n p nl ts0, t = .tuple n p nl ts0 →
        ts = (if c.tuple_arity_nullable = true then tupleGrowNullable p k (ts0.markFrom k) else ts0)) := by
  unfold Tracer.ensure_tuple at h
  obtain ⟨hd, h⟩ := enforce_ok_or h
  refine ⟨hd, ?_⟩
  by_cases hu : t.is_unknown_or_null = true
  · rw [if_pos hu] at h
    cases h
    refine ⟨_, rfl, fun _ => WFT_mkTupleFields o _ _ _, ?_, ?_⟩
    · intro _ i x hg hk
      have := Tracers.get?_lt hg
      rw [mkTupleFields_length] at this; omega
    · intro n p nl ts0 ht; subst ht; simp [Tracer.is_unknown_or_null] at hu
  · rw [if_neg hu] at h
    cases t with
    | tuple n p nl ts =>
      simp only at h
      by_cases hc : c.tuple_arity_nullable = true
      · rw [if_pos hc] at h; cases h
        refine ⟨_, rfl, ?_, ?_, fun _ _ _ _ ht => by cases ht; rw [if_pos hc]⟩
        · intro hw
          simp only [WF] at hw
          rw [tupleGrowNullable_eq]
          exact WFT_growN o _ (fun acc => WF_mark_nullable o (WF_new o _ _)) _ (WFT_markFrom o k hw)
        · intro _ i x hg hk
          rw [tupleGrowNullable_eq] at hg
          by_cases hlt : i < (ts.markFrom k).length
          · rw [growN_get?_lt _ _ _ _ hlt, Tracers.get?_markFrom] at hg
            cases hg0 : ts.get? i with
            | none => rw [hg0] at hg; cases hg
            | some x0 =>
              rw [hg0] at hg
              simp only [Option.map_some, if_pos hk, Option.some.injEq] at hg
              subst hg; exact mark_nullable_nullable x0
          · exact growN_get?_new _ (fun x => x.nullable = true) (fun acc => mark_nullable_nullable _) _ _ i x
              (by omega) hg
      · rw [if_neg hc] at h; cases h
        refine ⟨ts, rfl, fun hw => by simpa [WF] using hw, fun h' => absurd h' hc,
          fun _ _ _ _ ht => by cases ht; rw [if_neg hc]⟩
    | _ => simp only [fail] at h; cases h

end SaModel.Lemmas.C06
