import SaModel.Lemmas.C06WF
import SaModel.Lemmas.C06Unfold
/-
C06 helpers, part 6: every successful `absorb` preserves the reachable-state invariant (`absorb_wf`).
-/
namespace SaModel.Lemmas.C06
open SaModel SaModel.Trace SaModel.Lemmas.C07 SaModel.Props.C07

theorem ensure_union_ok (o : Options) {t t1 : Tracer} (h : t.ensure_union [] = .ok t1) :
    t.enforce_depth_limit = .ok () ∧ ∃ vs, t1 = .union t.name t.path t.nullable vs ∧ (WF o t → WFV o vs) ∧
      (∀ n p nl vs0, t = .union n p nl vs0 → vs = vs0) := by
  unfold Tracer.ensure_union at h
  obtain ⟨hd, h⟩ := enforce_ok_or h
  refine ⟨hd, ?_⟩
  by_cases hu : t.is_unknown_or_null = true
  · rw [if_pos hu] at h
    cases h
    refine ⟨_, rfl, fun _ => by simp [mkVariants, WFV], ?_⟩
    intro n p nl vs0 ht; subst ht; simp [Tracer.is_unknown_or_null] at hu
  · rw [if_neg hu] at h
    cases t with
    | union n p nl vs =>
      simp only at h; cases h
      exact ⟨vs, rfl, fun hw => by simpa [WF] using hw, fun _ _ _ _ ht => by cases ht; rfl⟩
    | _ => simp only [fail] at h; cases h

theorem ensure_variant_ok {p : String} {vs0 vs : Variants} {vn : String} {idx : Nat}
    (h : ensure_variant p vs0 vn idx = .ok vs) :
    idx < VARIANT_ALLOC_LIMIT ∧ (∃ vt, vs.get? idx = some (some (vn, vt))) ∧
    (∀ j x, vs0.get? j = some (some x) → vs.get? j = some (some x)) ∧
    (∀ j n t, vs.get? j = some (some (n, t)) → vs0.get? j = some (some (n, t)) ∨ t = Tracer.new vn (p ++ "." ++ vn)) ∧
    (∀ vt, vs0.get? idx = some (some (vn, vt)) → vs = vs0) := by
  unfold ensure_variant at h
  by_cases hl : idx ≥ VARIANT_ALLOC_LIMIT
  · rw [if_pos hl] at h; cases h
  · rw [if_neg hl] at h
    simp only at h
    have hpad := Variants.padNone_get? vs0 (idx + 1 - vs0.length)
    have hold : ∀ j x, vs0.get? j = some (some x) → (vs0.padNone (idx + 1 - vs0.length)).get? j = some (some x) := by
      intro j x hj
      rw [(hpad j).1 (Variants.get?_lt hj)]; exact hj
    have hnew : ∀ j x, (vs0.padNone (idx + 1 - vs0.length)).get? j = some (some x) → vs0.get? j = some (some x) := by
      intro j x hj
      by_cases hlt : j < vs0.length
      · rw [(hpad j).1 hlt] at hj; exact hj
      · have := (hpad j).2 (by omega) _ hj; cases this
    refine ⟨by omega, ?_⟩
    cases hg : (vs0.padNone (idx + 1 - vs0.length)).get? idx with
    | none => rw [hg] at h; simp only [panic] at h; cases h
    | some x =>
      rw [hg] at h
      cases x with
      | some y =>
        obtain ⟨prev, pt⟩ := y
        simp only at h
        by_cases hne : (prev != vn) = true
        · rw [if_pos hne] at h; cases h
        · rw [if_neg hne] at h; cases h
          have hpv : prev = vn := by simpa using hne
          subst hpv
          refine ⟨⟨pt, hg⟩, hold, fun j n t hj => .inl (hnew j _ hj), ?_⟩
          intro vt hvt
          have : idx + 1 - vs0.length = 0 := by have := Variants.get?_lt hvt; omega
          rw [this, Variants.padNone_zero]
      | none =>
        simp only at h; cases h
        have hlt := Variants.get?_lt hg
        refine ⟨⟨_, Variants.get?_set_eq _ idx vn _ hlt⟩, ?_, ?_, ?_⟩
        · intro j x hj
          have hj' := hold j x hj
          have : idx ≠ j := by intro e; subst e; rw [hg] at hj'; cases hj'
          rw [Variants.get?_set_ne _ _ _ _ _ this]; exact hj'
        · intro j n t hj
          by_cases e : idx = j
          · subst e
            rw [Variants.get?_set_eq _ idx vn _ hlt] at hj
            simp only [Option.some.injEq, Prod.mk.injEq] at hj
            exact .inr hj.2.symm
          · rw [Variants.get?_set_ne _ _ _ _ _ e] at hj
            exact .inl (hnew j _ hj)
        · intro vt hvt
          have := hold idx _ hvt
          rw [hg] at this; cases this

/-! ### list level -/

/-- `absorb` of the sample `v` preserves `WF` -/
def PW (c : Code) (o : Options) (v : SVal) : Prop := ∀ t t', WF o t → absorb c o t v = .ok t' → WF o t'

theorem absorbAll_wf (c : Code) (o : Options) : ∀ vs : List SVal, (∀ v ∈ vs, PW c o v) → ∀ t t', WF o t →
    absorbAll c o t vs = .ok t' → WF o t'
  | [], _, t, t', hw, h => by simp [absorbAll] at h; subst h; exact hw
  | v :: vs, hp, t, t', hw, h => by
    rw [absorbAll_cons] at h
    cases ha : absorb c o t v with
    | error e => rw [ha] at h; cases h
    | ok t1 =>
      rw [ha] at h
      exact absorbAll_wf c o vs (fun x hx => hp x (by simp [hx])) t1 t' (hp v (by simp) t t1 hw ha) h

theorem ensure_field_wff (o : Options) (path : String) (s : Nat) {fs : TFields} (k : String)
    (h : WFF o (s + 1) fs) : WFF o (s + 1) (ensure_field path s fs k).2 := by
  rw [WFF_iff] at h ⊢
  cases hi : fs.indexOf k with
  | some i =>
    rw [ensure_field_found hi]; simp only
    refine ⟨fun j t hj => h.1 j t (by rw [TFields.get?_setLastSeen] at hj; exact hj), ?_⟩
    intro j l hl
    by_cases e : i = j
    · subst e
      rw [lastSeen?_setLastSeen_eq _ _ _ (TFields.indexOf_lt hi)] at hl; cases hl; omega
    · rw [lastSeen?_setLastSeen_ne _ _ _ _ e] at hl; exact h.2 j l hl
  | none =>
    rw [ensure_field_new hi]; simp only
    constructor
    · intro j t hj
      have hlt := TFields.get?_lt hj
      rw [TFields.length_push] at hlt
      by_cases e : j = fs.length
      · subst e
        rw [TFields.get?_push_len] at hj; cases hj
        split
        · exact WF_mark_nullable o (WF_new o _ _)
        · exact WF_new o _ _
      · rw [TFields.get?_push_lt _ _ _ _ _ (by omega)] at hj; exact h.1 j t hj
    · intro j l hl
      have hlt := lastSeen?_lt hl
      rw [TFields.length_push] at hlt
      by_cases e : j = fs.length
      · subst e
        rw [lastSeen?_push_len] at hl; cases hl; omega
      · rw [lastSeen?_push_lt _ _ _ _ _ (by omega)] at hl; exact h.2 j l hl

theorem WFF_set (o : Options) (b : Nat) {fs : TFields} (i : Nat) {x : Tracer} (h : WFF o b fs) (hx : WF o x) :
    WFF o b (fs.set i x) := by
  rw [WFF_iff] at h ⊢
  constructor
  · intro j t hj
    by_cases e : i = j
    · subst e
      have hlt := TFields.get?_lt hj
      rw [TFields.length_set] at hlt
      rw [TFields.get?_set_eq _ _ _ hlt] at hj; cases hj; exact hx
    · rw [TFields.get?_set_ne _ _ _ _ e] at hj; exact h.1 j t hj
  · intro j l hl
    rw [lastSeen?_set] at hl; exact h.2 j l hl

theorem WFF_end (o : Options) (b s : Nat) : ∀ {fs : TFields}, WFF o b fs → WFF o b (fs.end_ s)
  | .nil, _ => by simp [TFields.end_, WFF]
  | .cons n l t r, h => by
    simp only [WFF, TFields.end_] at h ⊢
    refine ⟨h.1, ?_, WFF_end o b s h.2.2⟩
    split
    · exact WF_mark_nullable o h.2.1
    · exact h.2.1

theorem absorbKVs_wf (c : Code) (o : Options) (path : String) (s : Nat) : ∀ kvs : List (String × SVal),
    (∀ kv ∈ kvs, PW c o kv.2) → ∀ fs fs', WFF o (s + 1) fs → absorbKVs c o path s fs kvs = .ok fs' →
    WFF o (s + 1) fs'
  | [], _, fs, fs', hw, h => by simp [absorbKVs] at h; subst h; exact hw
  | kv :: kvs, hp, fs, fs', hw, h => by
    simp only [absorbKVs] at h
    have hw1 := ensure_field_wff o path s kv.1 hw
    cases hg : (ensure_field path s fs kv.1).2.get? (ensure_field path s fs kv.1).1 with
    | none => rw [hg] at h; cases h
    | some ft =>
      rw [hg] at h; simp only at h
      cases ha : absorb c o ft kv.2 with
      | error e => rw [ha] at h; cases h
      | ok ft' =>
        rw [ha] at h; simp only at h
        have hft : WF o ft := ((WFF_iff o _ _).mp hw1).1 _ _ hg
        exact absorbKVs_wf c o path s kvs (fun x hx => hp x (by simp [hx])) _ fs'
          (WFF_set o _ _ hw1 (hp kv (by simp) ft ft' hft ha)) h

theorem WFT_set (o : Options) {ts : Tracers} (i : Nat) {x : Tracer} (h : WFT o ts) (hx : WF o x) :
    WFT o (ts.set i x) := by
  rw [WFT_iff] at h ⊢
  intro j t hj
  by_cases e : i = j
  · subst e
    have hlt := Tracers.get?_lt hj
    rw [Tracers.length_set] at hlt
    rw [Tracers.get?_set_eq _ _ _ hlt] at hj; cases hj; exact hx
  · rw [Tracers.get?_set_ne _ _ _ _ e] at hj; exact h j t hj

theorem WFT_field_tracer_grow (o : Options) (path : String) (pos : Nat) {ts : Tracers} (h : WFT o ts) :
    WFT o (field_tracer_grow path pos ts) := by
  rw [field_tracer_grow_eq]
  exact WFT_growN o _ (fun _ => WF_new o _ _) _ h

theorem absorbTupleL_wf (c : Code) (o : Options) (path : String) : ∀ vs : List SVal,
    (∀ v ∈ vs, PW c o v) → ∀ ts pos ts', WFT o ts → absorbTupleL c o path ts pos vs = .ok ts' → WFT o ts'
  | [], _, ts, pos, ts', hw, h => by simp [absorbTupleL] at h; subst h; exact hw
  | v :: vs, hp, ts, pos, ts', hw, h => by
    simp only [absorbTupleL] at h
    have hw1 := WFT_field_tracer_grow o path pos hw
    cases hg : (field_tracer_grow path pos ts).get? pos with
    | none => rw [hg] at h; cases h
    | some ft =>
      rw [hg] at h; simp only at h
      cases ha : absorb c o ft v with
      | error e => rw [ha] at h; cases h
      | ok ft' =>
        rw [ha] at h; simp only at h
        have hft : WF o ft := (WFT_iff o _).mp hw1 _ _ hg
        exact absorbTupleL_wf c o path vs (fun x hx => hp x (by simp [hx])) _ _ ts'
          (WFT_set o _ hw1 (hp v (by simp) ft ft' hft ha)) h

theorem WFV_set (o : Options) {vs : Variants} (i : Nat) (n : String) {x : Tracer} (h : WFV o vs) (hx : WF o x) :
    WFV o (vs.set i n x) := by
  rw [WFV_iff] at h ⊢
  intro j n' t hj
  by_cases e : i = j
  · subst e
    have hlt := Variants.get?_lt hj
    rw [Variants.length_set] at hlt
    rw [Variants.get?_set_eq _ _ _ _ hlt] at hj
    simp only [Option.some.injEq, Prod.mk.injEq] at hj
    rw [← hj.2]; exact hx
  · rw [Variants.get?_set_ne _ _ _ _ _ e] at hj; exact h j n' t hj

/-! ### the samples, family by family -/

theorem PW_leaf (c : Code) (o : Options) (x : SVal) (ty : DataType) (h : leafTypeOf o x = some ty) : PW c o x := by
  intro t t' hw ha
  rw [absorb_prim c o t h] at ha
  exact ensure_primitive_wf o (leafTypeOf_mem o h) hw ha

theorem PW_asStruct (c : Code) (o : Options) (x : SVal) (mode : StructMode) (rk : R (List (String × SVal)))
    (hx : asStruct o x = some (mode, rk)) (hp : ∀ kvs, rk = .ok kvs → ∀ kv ∈ kvs, PW c o kv.2) : PW c o x := by
  intro t t' hw ha
  obtain ⟨kvs, n, p, nl, fs, m, s, fs', hk, h1, h2, rfl⟩ := (absorb_asStruct_ok c o t t' x mode rk hx).mp ha
  obtain ⟨_, fs0, m0, s0, he, hwf, _⟩ := ensure_struct_ok o c h1
  cases he
  simp only [WF]
  exact WFF_end o _ _ (absorbKVs_wf c o _ s kvs (hp kvs hk) fs fs' (WFF_mono o (Nat.le_succ s) (hwf hw)) h2)

theorem PW_asMap (c : Code) (o : Options) (x : SVal) (ks vs : List SVal) (hx : asMap o x = some (ks, vs))
    (hk : ∀ v ∈ ks, PW c o v) (hv : ∀ v ∈ vs, PW c o v) : PW c o x := by
  intro t t' hw ha
  obtain ⟨n, p, nl, k, v, k', v', h1, h2, h3, rfl⟩ := (absorb_asMap_ok c o t t' x ks vs hx).mp ha
  obtain ⟨_, k0, v0, he, hwf, _⟩ := ensure_map_ok o h1
  cases he
  simp only [WF]
  exact ⟨absorbAll_wf c o ks hk _ _ (hwf hw).1 h2, absorbAll_wf c o vs hv _ _ (hwf hw).2 h3⟩

theorem PW_tuple (c : Code) (o : Options) (items : SVals) (hp : ∀ v ∈ items.toList, PW c o v) :
    PW c o (.tuple items) := by
  intro t t' hw ha
  obtain ⟨n, p, nl, ts, ts', h1, h2, rfl⟩ := (absorb_tuple_ok c o t t' items).mp ha
  obtain ⟨_, ts0, he, hwf, _⟩ := ensure_tuple_ok o c h1
  cases he
  simp only [WF]
  exact absorbTupleL_wf c o _ _ hp _ _ _ (hwf hw) h2

theorem PW_newtypeVariant (c : Code) (o : Options) (nm : String) (idx : Nat) (vn : String) (v : SVal)
    (hp : PW c o v) : PW c o (.newtypeVariant nm idx vn v) := by
  intro t t' hw ha
  obtain ⟨n, p, nl, vs0, vs, nm', vt, vt', h1, h2, h3, h4, rfl⟩ := (absorb_newtypeVariant_ok c o t t' nm idx vn v).mp ha
  obtain ⟨_, vs00, he, hwf, _⟩ := ensure_union_ok o h1
  cases he
  obtain ⟨_, _, _, hnew, _⟩ := ensure_variant_ok h2
  have hwv0 := (WFV_iff o _).mp (hwf hw)
  have hwv : WFV o vs := by
    rw [WFV_iff]
    intro j n' t1 hj
    rcases hnew j n' t1 hj with h | h
    · exact hwv0 j n' t1 h
    · rw [h]; exact WF_new o _ _
  simp only [WF]
  exact WFV_set o idx vn hwv (hp vt vt' ((WFV_iff o _).mp hwv idx nm' vt h3) h4)

/-- every successful `absorb` preserves the reachable-state invariant -/
theorem absorb_wf (c : Code) (o : Options) : ∀ x : SVal, PW c o x := by
  apply sval_induct o (PW c o)
  · exact PW_leaf c o
  · intro t t' hw ha; rw [absorb_none] at ha; cases ha; exact WF_mark_nullable o hw
  · intro v ih t t' hw ha; rw [absorb_some] at ha; exact ih _ _ (WF_mark_nullable o hw) ha
  · intro n v ih t t' hw ha; rw [absorb_newtypeStruct] at ha; exact ih _ _ hw ha
  · intro items ih t t' hw ha
    obtain ⟨n, p, nl, i, i', h1, h2, rfl⟩ := (absorb_seq_ok c o t t' items).mp ha
    obtain ⟨_, i0, he, hwf, _⟩ := ensure_list_ok o h1
    cases he
    simp only [WF]
    exact absorbAll_wf c o _ ih _ _ (hwf hw) h2
  · exact PW_tuple c o
  · intro n items ih t t' hw ha; rw [absorb_tupleStruct] at ha; exact PW_tuple c o items ih t t' hw ha
  · intro n fs ih
    exact PW_asStruct c o _ .struct (.ok (SFields.kvs fs)) rfl (fun kvs hk => by cases hk; exact ih)
  · intro es ihk ihv
    by_cases hm : o.map_as_struct = true
    · exact PW_asStruct c o _ .map (SEntries.kvs es) (by simp [asStruct, hm])
        (fun kvs hk kv hkv => ihv _ (SEntries.kvs_vals es kvs hk kv hkv))
    · exact PW_asMap c o _ _ _ (by simp [asMap, hm]) ihk ihv
  · intro ops ihk ihv
    by_cases hm : o.map_as_struct = true
    · exact PW_asStruct c o _ .map (SMapOps.kvs none ops) (by simp [asStruct, hm])
        (fun kvs hk kv hkv => ihv _ (SMapOps.kvs_vals ops none kvs hk kv hkv))
    · exact PW_asMap c o _ _ _ (by simp [asMap, hm]) ihk ihv
  · intro n i vn t t' hw ha
    rw [absorb_unitVariant] at ha
    exact PW_newtypeVariant c o n i vn .unit (PW_leaf c o .unit .null rfl) t t' hw ha
  · exact fun n i vn v ih => PW_newtypeVariant c o n i vn v ih
  · intro n i vn items ih t t' hw ha
    rw [absorb_tupleVariant] at ha
    exact PW_newtypeVariant c o n i vn _ (PW_tuple c o items ih) t t' hw ha
  · intro n i vn fs ih t t' hw ha
    rw [absorb_structVariant] at ha
    exact PW_newtypeVariant c o n i vn _
      (PW_asStruct c o _ .struct (.ok (SFields.kvs fs)) rfl (fun kvs hk => by cases hk; exact ih)) t t' hw ha

theorem absorbAll_wf' (c : Code) (o : Options) (xs : List SVal) {t t' : Tracer} (hw : WF o t)
    (h : absorbAll c o t xs = .ok t') : WF o t' :=
  absorbAll_wf c o xs (fun v _ => absorb_wf c o v) t t' hw h

end SaModel.Lemmas.C06
