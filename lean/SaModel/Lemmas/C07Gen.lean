import SaModel.Generated.CoerceArms
import SaModel.Trace.Leaf
/-
C07, translation obligation — definitions of the finite tables that compare the arms of `coerce_primitive_type` as
the translator reads them out of tracer.rs (`Generated.CoerceArms.arms`) with the hand-written model
(`Trace.coerce_primitive_type`), and the lemmas that turn a table into an equation.  The tables themselves are
evaluated in SaModel/Props/C07Gen.lean (leaf alphabet) and SaModel/Lemmas/C07Gen{Wide,Strat}.lean.
-/
namespace SaModel.Lemmas.C07Gen
open SaModel SaModel.Trace SaModel.Trace.CoerceTable SaModel.Generated.CoerceArms

/-- every value of `Option<Strategy>` -/
def strategies : List (Option Strategy) :=
  [none, some .inconsistentTypes, some .tupleAsStruct, some .mapAsStruct, some .unknownVariant]

theorem strategies_complete (s : Option Strategy) : s ∈ strategies := by
  cases s with
  | none => simp [strategies]
  | some s => cases s <;> simp [strategies]

/-- one row: the interpreter on the generated arms and the hand-written model return the same value, or both return an
`Err` (the message of an `Err` is the same constant on both sides: `evalArms_err`, `coerce_err`; comparing the two
strings in every row would dominate the evaluation time) -/
def agreeRow (o : Options) (p : DataType) (nl : Bool) (ps : Option Strategy) (c : DataType) (cs : Option Strategy) : Bool :=
  match evalArms arms o (p, nl, ps) (c, cs), coerce_primitive_type o p nl ps c cs with
  | .ok x, .ok y => decide (x = y)
  | .error (.err _), .error (.err _) => true
  | _, _ => false

/-- the rows over an alphabet `ts` of data types and `ss` of strategies: every previous type × both nullable flags ×
every strategy × every current type × every strategy -/
def agreeOn (ts : List DataType) (ss : List (Option Strategy)) (o : Options) : Bool :=
  ts.all fun p => [false, true].all fun nl => ss.all fun ps => ts.all fun c => ss.all fun cs => agreeRow o p nl ps c cs

/-- an `Err` of the interpreter carries the message of `Res.fail`, whatever the list of arms -/
theorem evalArms_err (o : Options) (p : Prev) (c : Curr) (m : String) :
    (as : List Arm) → evalArms as o p c = .error (.err m) → m = failMsg
  | [], h => by simp [evalArms, SaModel.panic] at h
  | a :: rest, h => by
    simp only [evalArms] at h
    split at h
    · cases hr : a.res with
      | fail => rw [hr] at h; simp only [Res.eval, SaModel.fail, Except.error.injEq, Fail.err.injEq] at h; exact h.symm
      | ok ty nl st =>
        rw [hr] at h
        cases ty with
        | ctor k =>
          simp only [Res.eval] at h
          split at h
          · cases h
          · simp [SaModel.panic] at h
        | _ => simp [Res.eval] at h
    · exact evalArms_err o p c m rest h

theorem ite_ok_err {α} {c : Prop} [Decidable c] {x : α} {e : R α} {f : Fail}
    (h : (if c then .ok x else e) = Except.error f) : e = .error f := by
  split at h
  · cases h
  · exact h

/-- the model fails in its last arm only, with that message -/
theorem coerce_err (o : Options) (p : DataType) (nl : Bool) (ps : Option Strategy) (c : DataType) (cs : Option Strategy)
    (m : String) (h : coerce_primitive_type o p nl ps c cs = .error (.err m)) : m = failMsg := by
  unfold coerce_primitive_type at h
  repeat (replace h := ite_ok_err h)
  simp only [SaModel.fail, Except.error.injEq, Fail.err.injEq] at h
  exact h.symm

theorem agreeRow_spec {o : Options} {p c : DataType} {nl : Bool} {ps cs : Option Strategy}
    (h : agreeRow o p nl ps c cs = true) :
    evalArms arms o (p, nl, ps) (c, cs) = coerce_primitive_type o p nl ps c cs := by
  unfold agreeRow at h
  split at h
  · rename_i x y h1 h2; rw [h1, h2, of_decide_eq_true h]
  · rename_i m1 m2 h1 h2
    rw [h1, h2, evalArms_err _ _ _ _ _ h1, coerce_err _ _ _ _ _ _ _ h2]
  · cases h

theorem agreeOn_spec {ts : List DataType} {ss : List (Option Strategy)} {o : Options} (h : agreeOn ts ss o = true)
    {p c : DataType} (hp : p ∈ ts) (hc : c ∈ ts) (nl : Bool) {ps cs : Option Strategy} (hps : ps ∈ ss) (hcs : cs ∈ ss) :
    evalArms arms o (p, nl, ps) (c, cs) = coerce_primitive_type o p nl ps c cs := by
  unfold agreeOn at h
  have h1 := List.all_eq_true.mp h p hp
  have h2 := List.all_eq_true.mp h1 nl (by cases nl <;> decide)
  have h3 := List.all_eq_true.mp h2 ps hps
  have h4 := List.all_eq_true.mp h3 c hc
  have h5 := List.all_eq_true.mp h4 cs hcs
  exact agreeRow_spec h5

/-- a wider alphabet: every constructor without arguments, both string types whatever `o` says, time stamps of several
units and time zones, and one representative of every parameterised constructor -/
def wideTypes : List DataType :=
  [.null, .boolean, .int8, .int16, .int32, .int64, .uint8, .uint16, .uint32, .uint64, .float16, .float32, .float64,
   .utf8, .largeUtf8, .utf8View, .binary, .largeBinary, .binaryView, .date32, .date64,
   .timestamp .second none, .timestamp .millisecond none, .timestamp .millisecond (some "UTC"),
   .timestamp .nanosecond (some "UTC"), .timestamp .millisecond (some "+01:00"),
   .fixedSizeBinary 4, .time32 .second, .time64 .nanosecond, .duration .microsecond, .interval .dayTime,
   .decimal128 5 2, .struct .nil, .list (.mk "element" .int8 false []), .largeList (.mk "element" .int8 true []),
   .fixedSizeList (.mk "element" .int8 false []) 2, .map (.mk "entries" (.struct .nil) false []) false,
   .dictionary .uint32 .largeUtf8, .runEndEncoded (.mk "r" .int32 false []) (.mk "v" .utf8 true []),
   .union .nil .dense]

/-- the types on which the strategies are varied: one per group of arms -/
def stratTypes : List DataType :=
  [.null, .int8, .uint16, .float32, .boolean, .utf8, .largeUtf8, .timestamp .millisecond none,
   .timestamp .millisecond (some "UTC"), .date32]

/-- the flags that occur in guards are among the three `Options.coerceView` keeps -/
def usesCoerceFlagsOnly (as : List Arm) : Bool :=
  as.all fun a => a.guard.all fun g =>
    match g with
    | .opt f => decide (f = .coerce_numbers ∨ f = .allow_to_string ∨ f = .string_as_large_utf8)
    | _ => true

theorem holds_coerceView (o : Options) (p : Prev) (c : Curr) (g : GuardAtom)
    (h : (match g with
      | .opt f => decide (f = .coerce_numbers ∨ f = .allow_to_string ∨ f = .string_as_large_utf8)
      | _ => true) = true) : g.holds o p c = g.holds o.coerceView p c := by
  cases g with
  | opt f =>
    simp only [decide_eq_true_eq] at h
    rcases h with h | h | h <;> subst h <;> rfl
  | _ => rfl

/-- the interpreter reads the options through `OptFlag.get` and `string_type` only: with guards over the three coerce
flags it cannot tell `o` from `o.coerceView` -/
theorem evalArms_coerceView (o : Options) (p : Prev) (c : Curr) :
    (as : List Arm) → usesCoerceFlagsOnly as = true → evalArms as o p c = evalArms as o.coerceView p c
  | [], _ => rfl
  | a :: rest, h => by
    simp only [usesCoerceFlagsOnly, List.all_cons, Bool.and_eq_true] at h
    have ih := evalArms_coerceView o p c rest (by simpa [usesCoerceFlagsOnly] using h.2)
    have hg : a.guard.all (·.holds o p c) = a.guard.all (·.holds o.coerceView p c) := by
      have h1 := h.1
      clear h ih
      generalize a.guard = gs at h1 ⊢
      induction gs with
      | nil => rfl
      | cons g gs ihg =>
        simp only [List.all_cons, Bool.and_eq_true] at h1 ⊢
        rw [holds_coerceView o p c g h1.1, ihg h1.2]
    have hr : a.res.eval o p c = a.res.eval o.coerceView p c := by
      cases a.res with
      | fail => rfl
      | ok ty nl st => cases ty <;> rfl
    show (if a.fires o p c then a.res.eval o p c else evalArms rest o p c) =
      (if a.fires o.coerceView p c then a.res.eval o.coerceView p c else evalArms rest o.coerceView p c)
    unfold Arm.fires
    rw [hg, hr, ih]

theorem coerce_coerceView (o : Options) (p : DataType) (nl : Bool) (ps : Option Strategy) (c : DataType)
    (cs : Option Strategy) : coerce_primitive_type o p nl ps c cs = coerce_primitive_type o.coerceView p nl ps c cs := rfl

theorem coerceView_mem (o : Options) : o.coerceView ∈ coerceOptions := by
  unfold Options.coerceView
  cases o.coerce_numbers <;> cases o.allow_to_string <;> cases o.string_as_large_utf8 <;> decide

end SaModel.Lemmas.C07Gen
