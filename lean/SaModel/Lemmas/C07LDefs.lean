import SaModel.Lemmas.C07TInd
import SaModel.Lemmas.C07LTableA
import SaModel.Lemmas.C07LTableB
/-
C07, least-upper-bound argument — definitions: the information order `TLe o t u` on tracers (leaf: the coercion order
`sle`; nullable `false ⊑ true`; `Unknown` / `Primitive(Null)` below every node of the same name and path whose children
carry the canonical names and paths; struct: fields by name, missing fields below present ones, mode `struct ⊑ map`,
`seen_samples` zero below non-zero; tuple and union by position; list / map pointwise), and the leaf facts it rests on.
-/
namespace SaModel.Lemmas.C07
open SaModel SaModel.Trace SaModel.Props.C07

/-! ### leaf level: transitivity and "above the join ⇒ absorbed" from the table `upTable` -/

theorem upRow_holds (o : Options) {q u : LeafSt} {a : DataType} (hq : q ∈ leafStates o) (hu : u ∈ leafStates o)
    (ha : a ∈ leafTypes o) (h1 : act o q a = .ok q) (h2 : sle o q u = true) : act o u a = .ok u := by
  have hall : coerceOptions.all upTable = true := by
    have e : coerceOptions = coerceOptions.take 4 ++ coerceOptions.drop 4 := by decide
    rw [e, List.all_append, upTable_lo, upTable_hi]; rfl
  have h := table_at hall o
  unfold upTable at h
  rw [leafStates_coerceView] at hq hu; rw [leafTypes_coerceView] at ha
  have hrow := List.all_eq_true.mp (List.all_eq_true.mp (List.all_eq_true.mp h q hq) u hu) a ha
  unfold upRow at hrow
  rw [← sle_coerceView, ← act_coerceView, ← act_coerceView, h1, h2] at hrow
  simp only [decide_true, Bool.and_self, Bool.not_true, Bool.false_or, decide_eq_true_eq] at hrow
  rw [act_coerceView]; exact hrow

theorem sle_flag {o : Options} {s r : LeafSt} (h : sle o s r = true) : s.2 = true → r.2 = true := by
  unfold sle at h
  simp only [Bool.and_eq_true, Bool.or_eq_true, Bool.not_eq_true'] at h
  intro hs
  rcases h.2 with h2 | h2
  · rw [hs] at h2; cases h2
  · exact h2

theorem sle_trans (o : Options) {q r u : LeafSt} (hq : q ∈ leafStates o) (hr : r ∈ leafStates o) (hu : u ∈ leafStates o)
    (h1 : sle o q r = true) (h2 : sle o r u = true) : sle o q u = true := by
  have f1 := sle_flag h1
  have f2 := sle_flag h2
  obtain ⟨ty, nl⟩ := q
  unfold sle at h1 ⊢
  simp only [Bool.and_eq_true, Bool.or_eq_true, Bool.not_eq_true'] at h1 ⊢
  refine ⟨?_, ?_⟩
  · cases ty with
    | none => rfl
    | some ty =>
      simp only [decide_eq_true_eq] at h1 ⊢
      exact upRow_holds o hr hu (state_type_mem o hq) h1.1 h2
  · cases nl with
    | false => exact .inl rfl
    | true => exact .inr (f2 (f1 rfl))

/-- one step from `s`: the result is above `s` -/
theorem step_sle (o : Options) {s s' : LeafSt} {a : DataType} (hs : s ∈ leafStates o) (ha : a ∈ leafTypes o)
    (h : act o s a = .ok s') : sle o s s' = true :=
  run_sle o [a] s s' hs (fun b hb => by simp at hb; subst hb; exact ha) (by simp only [run, h])

/-- monotone: `s ⊑ u`, both absorb `a` ⇒ the results are ordered -/
theorem step_mono (o : Options) {s s' u u' : LeafSt} {a : DataType} (hs : s ∈ leafStates o) (hu : u ∈ leafStates o)
    (ha : a ∈ leafTypes o) (hle : sle o s u = true) (h1 : act o s a = .ok s') (h2 : act o u a = .ok u') :
    sle o s' u' = true := by
  have hu' := (step_facts o hu ha h2).1
  have h3 := sle_trans o hs hu hu' hle (step_sle o hu ha h2)
  exact least_step o hs hu' ha h3 (coerce_idem o hu ha h2) h1

/-- a state above the join has absorbed the sample -/
theorem step_up (o : Options) {s s' u : LeafSt} {a : DataType} (hs : s ∈ leafStates o) (hu : u ∈ leafStates o)
    (ha : a ∈ leafTypes o) (h1 : act o s a = .ok s') (hle : sle o s' u = true) : act o u a = .ok u :=
  upRow_holds o (step_facts o hs ha h1).1 hu ha (coerce_idem o hs ha h1) hle

/-! ### the order -/

/-- `b` sits where a fresh `Unknown { name, path, nullable }` would sit -/
def ULe (n p : String) (nl : Bool) (b : Tracer) : Prop :=
  b.name = n ∧ b.path = p ∧ (nl = true → b.nullable = true)

/-- the present variant at position `j` -/
def vget (vs : Variants) (j : Nat) : Option (String × Tracer) :=
  match vs.get? j with
  | some (some nt) => some nt
  | _ => none

/-- the children of every container node carry the names and paths `Tracer::new` gives them -/
inductive Canon : Tracer → Prop
  | unknown {n p nl} : Canon (.unknown n p nl)
  | primitive {n p nl ty st} : Canon (.primitive n p nl ty st)
  | list {n p nl i} : ULe "element" (p ++ ".element") false i → Canon i → Canon (.list n p nl i)
  | map {n p nl k v} : ULe "key" (p ++ ".key") false k → Canon k → ULe "value" (p ++ ".value") false v → Canon v →
      Canon (.map n p nl k v)
  | struct {n p nl fs m s} : (∀ k l b, fs.find k = some (l, b) → ULe k (p ++ "." ++ k) false b) →
      (∀ k l b, fs.find k = some (l, b) → Canon b) → Canon (.struct n p nl fs m s)
  | tuple {n p nl ts} : (∀ j b, ts.get? j = some b → ULe (toString j) (p ++ "." ++ toString j) false b) →
      (∀ j b, ts.get? j = some b → Canon b) → Canon (.tuple n p nl ts)
  | union {n p nl vs} : (∀ j a b, vget vs j = some (a, b) → ULe a (p ++ "." ++ a) false b) →
      (∀ j a b, vget vs j = some (a, b) → Canon b) → Canon (.union n p nl vs)

/-- the information order on tracers -/
inductive TLe (o : Options) : Tracer → Tracer → Prop
  | unk {n p nl b} : ULe n p nl b → Canon b → TLe o (.unknown n p nl) b
  | prim {n p nl nl' ty ty' st} : sle o (some ty, nl) (some ty', nl') = true →
      TLe o (.primitive n p nl ty st) (.primitive n p nl' ty' st)
  | null {n p nl st b} : Tracer.isLeaf b = false → ULe n p true b → Canon b → TLe o (.primitive n p nl .null st) b
  | list {n p nl nl' i i'} : (nl = true → nl' = true) → TLe o i i' → TLe o (.list n p nl i) (.list n p nl' i')
  | map {n p nl nl' k k' v v'} : (nl = true → nl' = true) → TLe o k k' → TLe o v v' →
      TLe o (.map n p nl k v) (.map n p nl' k' v')
  | struct {n p nl nl' A B m m' s s'} : (nl = true → nl' = true) → (m = .map → m' = .map) → (s ≠ 0 → s' ≠ 0) →
      (∀ k, (A.find k).isSome = true → (B.find k).isSome = true) →
      (∀ k l a l' b, A.find k = some (l, a) → B.find k = some (l', b) → TLe o a b) →
      (∀ k l b, A.find k = none → B.find k = some (l, b) → ULe k (p ++ "." ++ k) (s != 0) b ∧ Canon b) →
      TLe o (.struct n p nl A m s) (.struct n p nl' B m' s')
  | tuple {n p nl nl' A B} : (nl = true → nl' = true) →
      (∀ j, (A.get? j).isSome = true → (B.get? j).isSome = true) →
      (∀ j a b, A.get? j = some a → B.get? j = some b → TLe o a b) →
      (∀ j b, A.get? j = none → B.get? j = some b → ULe (toString j) (p ++ "." ++ toString j) true b ∧ Canon b) →
      TLe o (.tuple n p nl A) (.tuple n p nl' B)
  | union {n p nl nl' A B} : (nl = true → nl' = true) → A.length ≤ B.length →
      (∀ j a x, vget A j = some (a, x) → ∃ y, vget B j = some (a, y)) →
      (∀ j a x b y, vget A j = some (a, x) → vget B j = some (b, y) → TLe o x y) →
      (∀ j b y, vget A j = none → vget B j = some (b, y) → ULe b (p ++ "." ++ b) false y ∧ Canon y) →
      TLe o (.union n p nl A) (.union n p nl' B)

theorem ULe.mono {n p : String} {nl nl' : Bool} {b : Tracer} (h : ULe n p nl b) (hn : nl' = true → nl = true) :
    ULe n p nl' b := ⟨h.1, h.2.1, fun e => h.2.2 (hn e)⟩

theorem ULe.weak {n p : String} {nl : Bool} {b : Tracer} (h : ULe n p nl b) : ULe n p false b :=
  h.mono (fun e => by cases e)

/-- what the order fixes at the top of the node -/
theorem TLe_top {o : Options} {a b : Tracer} (h : TLe o a b) : ULe a.name a.path a.nullable b := by
  cases h with
  | unk h _ => exact h
  | prim h => exact ⟨rfl, rfl, fun e => sle_flag h e⟩
  | null _ h _ => exact ⟨h.1, h.2.1, fun _ => h.2.2 rfl⟩
  | list h _ => exact ⟨rfl, rfl, h⟩
  | map h _ _ => exact ⟨rfl, rfl, h⟩
  | struct h _ _ _ _ _ => exact ⟨rfl, rfl, h⟩
  | tuple h _ _ _ => exact ⟨rfl, rfl, h⟩
  | union h _ _ _ _ => exact ⟨rfl, rfl, h⟩

theorem ULe_of_le {o : Options} {n p : String} {nl : Bool} {a b : Tracer} (h : ULe n p nl a) (hab : TLe o a b) :
    ULe n p nl b := by
  have := TLe_top hab
  exact ⟨this.1.trans h.1, this.2.1.trans h.2.1, fun e => this.2.2 (h.2.2 e)⟩

theorem TLe_isLeaf {o : Options} {a b : Tracer} (h : TLe o a b) (ha : Tracer.isLeaf a = false) :
    Tracer.shape b = Tracer.shape a := by
  cases h <;> first | rfl | (simp [Tracer.isLeaf] at ha)

theorem TLe_leaf_r {o : Options} {a b : Tracer} (h : TLe o a b) (hb : Tracer.isLeaf b = true) :
    Tracer.isLeaf a = true := by
  cases h <;> first | rfl | (simp [Tracer.isLeaf] at hb)

/-! ### lookups -/

theorem vget_wf {o : Options} {vs : Variants} (hw : VWF o vs) {j : Nat} {a : String} {x : Tracer}
    (h : vget vs j = some (a, x)) : WF o x := by
  unfold vget at h
  cases hg : vs.get? j with
  | none => rw [hg] at h; cases h
  | some y =>
    rw [hg] at h
    cases y with
    | none => cases h
    | some nt => simp only [Option.some.injEq] at h; subst h; exact VWF_get hw j a x hg

theorem get_wf {o : Options} {ts : Tracers} (hw : TsWF o ts) {j : Nat} {a : Tracer} (h : ts.get? j = some a) : WF o a :=
  TsWF_get hw j a h

/-! ### reflexivity -/

theorem TLe_refl_leaf {o : Options} {t : Tracer} (hw : WF o t) (hl : Tracer.isLeaf t = true) : TLe o t t := by
  cases t <;> simp [Tracer.isLeaf] at hl
  case unknown n p nl => exact .unk ⟨rfl, rfl, id⟩ .unknown
  case primitive n p nl ty st =>
    rw [WF] at hw
    exact .prim (sle_refl o hw.2)

mutual
theorem TLe_refl (o : Options) : ∀ t, WF o t → TLe o t t
  | .unknown n p nl, _ => .unk ⟨rfl, rfl, id⟩ .unknown
  | .primitive n p nl ty st, hw => TLe_refl_leaf hw rfl
  | .list _ _ _ i, hw => by rw [WF] at hw; exact .list id (TLe_refl o i hw)
  | .map _ _ _ k v, hw => by rw [WF] at hw; exact .map id (TLe_refl o k hw.1) (TLe_refl o v hw.2)
  | .struct _ _ _ fs _ s, hw => by
    rw [WF] at hw
    refine .struct id id id (fun _ h => h) ?_ (fun k l b h1 h2 => by rw [h1] at h2; cases h2)
    intro k l a l' b h1 h2
    rw [h1] at h2; cases h2
    exact FLe_refl o s fs hw k l a h1
  | .tuple _ _ _ ts, hw => by
    rw [WF] at hw
    refine .tuple id (fun _ h => h) ?_ (fun j b h1 h2 => by rw [h1] at h2; cases h2)
    intro j a b h1 h2
    rw [h1] at h2; cases h2
    exact TsLe_refl o ts hw j a h1
  | .union _ _ _ vs, hw => by
    rw [WF] at hw
    refine .union id (Nat.le_refl _) (fun j a x h => ⟨x, h⟩) ?_ (fun j b y h1 h2 => by rw [h1] at h2; cases h2)
    intro j a x b y h1 h2
    rw [h1] at h2; cases h2
    exact VLe_refl o vs hw j a x h1
theorem FLe_refl (o : Options) (s : Nat) : ∀ fs, FWF o s fs → ∀ k l a, fs.find k = some (l, a) → TLe o a a
  | .nil, _, k, l, a, h => by simp [TFields.find] at h
  | .cons n l0 t r, hw, k, l, a, h => by
    rw [FWF] at hw
    simp only [TFields.find] at h
    by_cases hn : n = k
    · simp only [hn, if_true, Option.some.injEq, Prod.mk.injEq] at h
      rw [← h.2]; exact TLe_refl o t hw.2.2.2.1
    · simp only [hn, if_false] at h
      exact FLe_refl o s r hw.2.2.2.2 k l a h
theorem TsLe_refl (o : Options) : ∀ ts, TsWF o ts → ∀ j a, ts.get? j = some a → TLe o a a
  | .nil, _, j, a, h => by simp [Tracers.get?] at h
  | .cons t r, hw, j, a, h => by
    rw [TsWF] at hw
    cases j with
    | zero => simp only [Tracers.get?, Option.some.injEq] at h; rw [← h]; exact TLe_refl o t hw.1
    | succ j => simp only [Tracers.get?] at h; exact TsLe_refl o r hw.2 j a h
theorem VLe_refl (o : Options) : ∀ vs, VWF o vs → ∀ j a x, vget vs j = some (a, x) → TLe o x x
  | .nil, _, j, a, x, h => by simp [vget, Variants.get?] at h
  | .absent r, hw, j, a, x, h => by
    rw [VWF] at hw
    cases j with
    | zero => simp [vget, Variants.get?] at h
    | succ j => exact VLe_refl o r hw j a x (by simpa [vget, Variants.get?] using h)
  | .present n t r, hw, j, a, x, h => by
    rw [VWF] at hw
    cases j with
    | zero =>
      simp only [vget, Variants.get?, Option.some.injEq, Prod.mk.injEq] at h
      rw [← h.2]; exact TLe_refl o t hw.1
    | succ j => exact VLe_refl o r hw.2 j a x (by simpa [vget, Variants.get?] using h)
end

end SaModel.Lemmas.C07
