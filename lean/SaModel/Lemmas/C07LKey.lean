import SaModel.Lemmas.C07LLub
/-
C07, least-upper-bound argument — the per-key form of the order on struct and tuple nodes (`KLe`), the law for the
tracer of one key over one sample (`keyT_lub`), `Unknown` / `Null` nodes below containers, and the `seq` and map
families.
-/
namespace SaModel.Lemmas.C07
open SaModel SaModel.Trace SaModel.Props.C07

theorem freshField_eq (p : String) (s : Nat) (k : String) :
    freshField p s k = .unknown k (p ++ "." ++ k) (s != 0) := by
  unfold freshField
  by_cases h : s = 0
  · subst h; rfl
  · have : (s != 0) = true := by simp [h]
    simp [this, Tracer.new, Tracer.mark_nullable, Tracer.set_nullable]

/-- the order on the lookups of one key: a missing entry counts as the field `ensure_field` would create -/
def KLe (o : Options) (p : String) (s : Nat) (k : String) (cur cur' : Option Tracer) : Prop :=
  match cur' with
  | none => cur = none
  | some b => TLe o (curT p s k cur) b

theorem KLe_seen {o : Options} {p : String} {s s' : Nat} (hs : s = 0 ↔ s' = 0) {k : String} {cur cur' : Option Tracer}
    (h : KLe o p s k cur cur') : KLe o p s' k cur cur' := by
  cases cur' with
  | none => exact h
  | some b =>
    cases cur with
    | none => simp only [KLe, curT] at h ⊢; rw [← freshField_zero p hs k]; exact h
    | some a => exact h

theorem fresh_le_fresh {o : Options} (p : String) {s s' : Nat} (hs : s ≠ 0 → s' ≠ 0) (k : String) :
    TLe o (freshField p s k) (freshField p s' k) := by
  rw [freshField_eq, freshField_eq]
  refine .unk ⟨rfl, rfl, ?_⟩ .unknown
  intro e
  simp only [bne_iff_ne, ne_eq, Tracer.nullable] at e ⊢
  exact hs e

/-- one sample on the tracer of one key -/
theorem keyT_lub {o : Options} {p : String} {s s' : Nat} {k : String} {vs : List SVal} {cur cur' r : Option Tracer}
    (hl : LubL o vs) (hw : OWF o cur) (hw' : OWF o cur') (hs : s ≠ 0 → s' ≠ 0) (hle : KLe o p s k cur cur')
    (h : keyT o p s cur k vs = .ok r) :
    KLe o p s k cur r ∧ OWF o r ∧ (∀ r', keyT o p s' cur' k vs = .ok r' → KLe o p (s + 1) k r r' ∧ OWF o r') ∧
      (KLe o p (s + 1) k r cur' → ∃ r', keyT o p s' cur' k vs = .ok r' ∧ KLe o p (s' + 1) k r' cur') := by
  have wc := curT_wf (p := p) (s := s) (k := k) hw
  have wc' := curT_wf (p := p) (s := s') (k := k) hw'
  cases vs with
  | nil =>
    simp only [keyT] at h ⊢
    cases h
    have owf : ∀ c : Option Tracer, OWF o c → OWF o (c.map Tracer.mark_nullable) := by
      intro c hc t ht
      cases c with
      | none => cases ht
      | some t0 => cases ht; exact WF_mark (hc t0 rfl)
    refine ⟨?_, owf cur hw, ?_, ?_⟩
    · cases cur with
      | none => rfl
      | some a => exact TLe_mark_self (hw a rfl)
    · intro r' hr'
      cases hr'
      refine ⟨?_, owf cur' hw'⟩
      cases cur' with
      | none => simp only [KLe] at hle ⊢; rw [hle]; rfl
      | some b =>
        have hle' : TLe o (curT p s k cur) b := hle
        show TLe o (curT p (s + 1) k (cur.map Tracer.mark_nullable)) b.mark_nullable
        rw [curT_succ]
        exact TLe_mark hle' wc (hw' b rfl)
    · intro hk
      refine ⟨_, rfl, ?_⟩
      cases cur' with
      | none => rfl
      | some b =>
        have hk' : TLe o (curT p (s + 1) k (cur.map Tracer.mark_nullable)) b := hk
        rw [curT_succ] at hk'
        show TLe o b.mark_nullable b
        rw [nullable_of_mark_le hk']
        exact TLe_refl o _ (hw' b rfl)
  | cons w ws =>
    simp only [keyT] at h ⊢
    cases hb : absorbAll .fixed o (curT p s k cur) (w :: ws) with
    | error e => rw [hb] at h; cases h
    | ok a =>
      rw [hb] at h; cases h
      have wa := allWf o wc hb
      have hcc : TLe o (curT p s k cur) (curT p s' k cur') := by
        cases cur' with
        | some b => exact hle
        | none => simp only [KLe] at hle; subst hle; exact fresh_le_fresh p hs k
      obtain ⟨L1, L2, L3⟩ := hl _ _ a wc wc' hcc hb
      refine ⟨L1, fun t ht => by cases ht; exact wa, ?_, ?_⟩
      · intro r' hr'
        cases hb' : absorbAll .fixed o (curT p s' k cur') (w :: ws) with
        | error e => rw [hb'] at hr'; cases hr'
        | ok b' =>
          rw [hb'] at hr'; cases hr'
          exact ⟨L2 b' hb', fun t ht => by cases ht; exact allWf o wc' hb'⟩
      · intro hk
        cases cur' with
        | none => cases hk
        | some b =>
          simp only [KLe, curT] at hk L3 ⊢
          obtain ⟨b', h1, h2⟩ := L3 hk
          rw [h1]
          exact ⟨_, rfl, h2⟩

/-! ### `Unknown` / `Null` nodes -/

theorem unknownish_le {o : Options} {t u : Tracer} (hu : t.is_unknown_or_null = true) (h : TLe o t u) :
    ULe t.name t.path t.nullable u ∧ Canon u := by
  refine ⟨TLe_top h, ?_⟩
  cases h with
  | unk _ hc => exact hc
  | prim _ => exact .primitive
  | null _ _ hc => exact hc
  | list _ _ => simp [Tracer.is_unknown_or_null] at hu
  | map _ _ _ => simp [Tracer.is_unknown_or_null] at hu
  | struct _ _ _ _ _ _ => simp [Tracer.is_unknown_or_null] at hu
  | tuple _ _ _ _ => simp [Tracer.is_unknown_or_null] at hu
  | union _ _ _ _ _ => simp [Tracer.is_unknown_or_null] at hu

theorem unknownish_le_mk {o : Options} {t c : Tracer} (wt : WF o t) (hu : t.is_unknown_or_null = true)
    (hl : Tracer.isLeaf c = false) (h : ULe t.name t.path t.nullable c) (hc : Canon c) : TLe o t c := by
  cases t <;> simp [Tracer.is_unknown_or_null] at hu
  case unknown n p nl => exact .unk h hc
  case primitive n p nl ty st =>
    cases ty <;> simp at hu
    rw [WF] at wt
    have := (mem_leafStates.mp wt.2).2 rfl
    subst this
    exact .null hl h hc

theorem depthOk_le {o : Options} {t u : Tracer} (h : TLe o t u) : depthOk u ↔ depthOk t :=
  depthOk_path (TLe_top h).2.1

theorem new_le {o : Options} {n p : String} {b : Tracer} (h : ULe n p false b) (hc : Canon b) : TLe o (Tracer.new n p) b :=
  .unk h hc

/-! ### `seq` -/

theorem lub_seq {o : Options} {items : SVals} (hi : ∀ v ∈ items.toList, Lub o v) : Lub o (.seq items) := by
  intro t u a wt wu htu h
  obtain ⟨n, p, nl, i, i', h1, h2, rfl⟩ := absorb_seq_ok h
  obtain ⟨wi, hd, hcase⟩ := ensure_list_facts wt h1
  have L := lubL hi
  have wi' := allWf o wi h2
  have wa : WF o (.list n p nl i') := by rw [WF]; exact wi'
  -- what `ensure_list` does on the `u` side
  have hu1 : ∀ n' p' nl' j, u.ensure_list = .ok (.list n' p' nl' j) →
      n' = n ∧ p' = p ∧ (nl = true → nl' = true) ∧ TLe o i j ∧ WF o j := by
    intro n' p' nl' j e
    obtain ⟨wj, _, _⟩ := ensure_list_facts wu e
    obtain ⟨hdu, hcu⟩ := ensure_list_inv e
    obtain ⟨_, hct⟩ := ensure_list_inv h1
    rcases hct with ⟨hu, e1⟩ | ⟨n0, p0, nl0, i0, rfl, e1⟩
    · cases e1
      obtain ⟨ule, hcan⟩ := unknownish_le hu htu
      rcases hcu with ⟨_, e2⟩ | ⟨n0, p0, nl0, j0, rfl, e2⟩
      · cases e2
        refine ⟨ule.1, ule.2.1, ule.2.2, ?_, wj⟩
        rw [ule.2.1]; exact TLe_refl o _ wj
      · cases e2
        simp only [ULe, Tracer.name, Tracer.path, Tracer.nullable] at ule
        obtain ⟨rfl, rfl, hn⟩ := ule
        cases hcan with
        | list hu' hc' => exact ⟨rfl, rfl, hn, new_le hu' hc', wj⟩
    · cases e1
      cases htu with
      | list hn hij =>
        rw [ensure_list_same hdu] at e
        cases e
        exact ⟨rfl, rfl, hn, hij, wj⟩
  have ht1 : TLe o t (.list n p nl i') := by
    obtain ⟨L1, _, _⟩ := L i i i' wi wi (TLe_refl o _ wi) h2
    obtain ⟨_, hct⟩ := ensure_list_inv h1
    rcases hct with ⟨hu, e1⟩ | ⟨n0, p0, nl0, i0, rfl, e1⟩
    · cases e1
      refine unknownish_le_mk wt hu rfl ⟨rfl, rfl, id⟩ (.list ?_ ?_)
      · exact ULe_of_le ⟨rfl, rfl, nofun⟩ L1
      · exact TLe_canon L1 .unknown
    · cases e1
      exact .list id L1
  refine ⟨ht1, ?_, ?_⟩
  · intro b hb
    obtain ⟨n', p', nl', j, j', g1, g2, rfl⟩ := absorb_seq_ok hb
    obtain ⟨rfl, rfl, hn, hij, wj⟩ := hu1 _ _ _ _ g1
    exact .list hn ((L i j i' wi wj hij h2).2.1 j' g2)
  · intro hau
    cases hau with
    | @list _ _ _ nl'' _ j hn hi'j =>
      have hdu : depthOk (.list n p nl'' j) := (depthOk_path (a := .list n p nl i) rfl).mpr (hd i)
      have g1 := ensure_list_same hdu
      obtain ⟨_, _, _, hij, wj⟩ := hu1 _ _ _ _ g1
      obtain ⟨j', g2, g3⟩ := (L i j i' wi wj hij h2).2.2 hi'j
      exact ⟨_, absorb_seq_mk g1 g2, .list id g3⟩

/-! ### maps traced as maps -/

theorem lub_map {o : Options} {x : SVal} {ks vs : List SVal} (hx : MapLike o x ks vs)
    (hk : ∀ v ∈ ks, Lub o v) (hv : ∀ v ∈ vs, Lub o v) : Lub o x := by
  intro t u a wt wu htu h
  obtain ⟨n, p, nl, k, v, k', v', h1, h2, h3, rfl⟩ := (hx t _).mp h
  obtain ⟨wk, wv, hd, hcase⟩ := ensure_map_facts wt h1
  have LK := lubL hk
  have LV := lubL hv
  have wk' := allWf o wk h2
  have wv' := allWf o wv h3
  have hu1 : ∀ n' p' nl' j w, u.ensure_map = .ok (.map n' p' nl' j w) →
      n' = n ∧ p' = p ∧ (nl = true → nl' = true) ∧ TLe o k j ∧ TLe o v w ∧ WF o j ∧ WF o w := by
    intro n' p' nl' j w e
    obtain ⟨wj, ww, _, _⟩ := ensure_map_facts wu e
    obtain ⟨hdu, hcu⟩ := ensure_map_inv e
    obtain ⟨_, hct⟩ := ensure_map_inv h1
    rcases hct with ⟨hu, e1⟩ | ⟨n0, p0, nl0, k0, v0, rfl, e1⟩
    · cases e1
      obtain ⟨ule, hcan⟩ := unknownish_le hu htu
      rcases hcu with ⟨_, e2⟩ | ⟨n0, p0, nl0, j0, w0, rfl, e2⟩
      · cases e2
        refine ⟨ule.1, ule.2.1, ule.2.2, ?_, ?_, wj, ww⟩
        · rw [ule.2.1]; exact TLe_refl o _ wj
        · rw [ule.2.1]; exact TLe_refl o _ ww
      · cases e2
        simp only [ULe, Tracer.name, Tracer.path, Tracer.nullable] at ule
        obtain ⟨rfl, rfl, hn⟩ := ule
        cases hcan with
        | map hu1 hc1 hu2 hc2 => exact ⟨rfl, rfl, hn, new_le hu1 hc1, new_le hu2 hc2, wj, ww⟩
    · cases e1
      cases htu with
      | map hn hkj hvw =>
        rw [ensure_map_same hdu] at e
        cases e
        exact ⟨rfl, rfl, hn, hkj, hvw, wj, ww⟩
  have ht1 : TLe o t (.map n p nl k' v') := by
    obtain ⟨K1, _, _⟩ := LK k k k' wk wk (TLe_refl o _ wk) h2
    obtain ⟨V1, _, _⟩ := LV v v v' wv wv (TLe_refl o _ wv) h3
    obtain ⟨_, hct⟩ := ensure_map_inv h1
    rcases hct with ⟨hu, e1⟩ | ⟨n0, p0, nl0, k0, v0, rfl, e1⟩
    · cases e1
      refine unknownish_le_mk wt hu rfl ⟨rfl, rfl, id⟩ (.map ?_ ?_ ?_ ?_)
      · exact ULe_of_le ⟨rfl, rfl, nofun⟩ K1
      · exact TLe_canon K1 .unknown
      · exact ULe_of_le ⟨rfl, rfl, nofun⟩ V1
      · exact TLe_canon V1 .unknown
    · cases e1
      exact .map id K1 V1
  refine ⟨ht1, ?_, ?_⟩
  · intro b hb
    obtain ⟨n', p', nl', j, w, j', w', g1, g2, g3, rfl⟩ := (hx u _).mp hb
    obtain ⟨rfl, rfl, hn, hkj, hvw, wj, ww⟩ := hu1 _ _ _ _ _ g1
    exact .map hn ((LK k j k' wk wj hkj h2).2.1 j' g2) ((LV v w v' wv ww hvw h3).2.1 w' g3)
  · intro hau
    cases hau with
    | @map _ _ _ nl'' _ j _ w hn hk'j hv'w =>
      have hdu : depthOk (.map n p nl'' j w) := (depthOk_path (a := .map n p nl k v) rfl).mpr (hd k v)
      have g1 := ensure_map_same hdu
      obtain ⟨_, _, _, hkj, hvw, wj, ww⟩ := hu1 _ _ _ _ _ g1
      obtain ⟨j', g2, g3⟩ := (LK k j k' wk wj hkj h2).2.2 hk'j
      obtain ⟨w', g4, g5⟩ := (LV v w v' wv ww hvw h3).2.2 hv'w
      exact ⟨_, (hx _ _).mpr ⟨_, _, _, _, _, _, _, g1, g2, g4, rfl⟩, .map id g3 g5⟩

end SaModel.Lemmas.C07
