import SaModel.Lemmas.C07LOrder
/-
C07, least-upper-bound argument — the law as a predicate on samples (`Lub`: a successful `absorb t x` is above `t`, is
below every result of absorbing `x` into a tracer above `t`, and every tracer above it absorbs `x` without moving), its
lift to sample lists, and the cases leaf / `None` / `Some` / newtype / never accepted.
-/
namespace SaModel.Lemmas.C07
open SaModel SaModel.Trace SaModel.Props.C07

/-- `absorb t x = a` is the least tracer above `t` that has absorbed `x` -/
def Lub (o : Options) (x : SVal) : Prop :=
  ∀ t u a, WF o t → WF o u → TLe o t u → absorb .fixed o t x = .ok a →
    TLe o t a ∧ (∀ b, absorb .fixed o u x = .ok b → TLe o a b) ∧
      (TLe o a u → ∃ b, absorb .fixed o u x = .ok b ∧ TLe o b u)

/-- the same for a list of samples absorbed one after the other -/
def LubL (o : Options) (xs : List SVal) : Prop :=
  ∀ t u a, WF o t → WF o u → TLe o t u → absorbAll .fixed o t xs = .ok a →
    TLe o t a ∧ (∀ b, absorbAll .fixed o u xs = .ok b → TLe o a b) ∧
      (TLe o a u → ∃ b, absorbAll .fixed o u xs = .ok b ∧ TLe o b u)

theorem absorb_wf (o : Options) {t a : Tracer} {x : SVal} (hw : WF o t) (h : absorb .fixed o t x = .ok a) : WF o a :=
  (cong_any o x).wf hw h

theorem allWf (o : Options) : ∀ {xs : List SVal} {t a : Tracer}, WF o t → absorbAll .fixed o t xs = .ok a → WF o a
  | [], t, a, hw, h => by cases h; exact hw
  | x :: xs, t, a, hw, h => by
    obtain ⟨m, h1, h2⟩ := absorbAll_cons_ok h
    exact allWf o (absorb_wf o hw h1) h2

theorem lubL {o : Options} : ∀ {xs : List SVal}, (∀ x ∈ xs, Lub o x) → LubL o xs
  | [], _ => by
    intro t u a wt wu htu h
    cases h
    exact ⟨TLe_refl o _ wt, fun b hb => by cases hb; exact htu, fun _ => ⟨u, rfl, TLe_refl o _ wu⟩⟩
  | x :: xs, hl => by
    intro t u a wt wu htu h
    obtain ⟨m, h1, h2⟩ := absorbAll_cons_ok h
    have wm := absorb_wf o wt h1
    have wa := allWf o wm h2
    obtain ⟨L1, L2, L3⟩ := hl x (by simp) t u m wt wu htu h1
    have ih := lubL (xs := xs) (fun y hy => hl y (by simp [hy]))
    obtain ⟨I1, _, _⟩ := ih m m a wm wm (TLe_refl o _ wm) h2
    refine ⟨TLe_trans L1 wt wm wa I1, ?_, ?_⟩
    · intro b hb
      obtain ⟨m', h3, h4⟩ := absorbAll_cons_ok hb
      exact (ih m m' a wm (absorb_wf o wu h3) (L2 m' h3) h2).2.1 b h4
    · intro hau
      obtain ⟨m', h3, h4⟩ := L3 (TLe_trans I1 wm wa wu hau)
      have wm' := absorb_wf o wu h3
      have hum' : TLe o u m' := (hl x (by simp) u u m' wu wu (TLe_refl o _ wu) h3).1
      obtain ⟨b, h5, h6⟩ := (ih m m' a wm wm' (L2 m' h3) h2).2.2 (TLe_trans hau wa wu wm' hum')
      exact ⟨b, absorbAll_cons_mk h3 h5, TLe_trans h6 (allWf o wm' h5) wm' wu h4⟩

/-! ### `None`, `Some`, newtype, never accepted -/

theorem nullable_of_mark_le {o : Options} {t u : Tracer} (h : TLe o t.mark_nullable u) : u.mark_nullable = u :=
  mark_of_nullable ((TLe_top h).2.2 (nullable_mark t))

theorem lub_none (o : Options) : Lub o .none := by
  intro t u a wt wu htu h
  simp only [absorb] at h ⊢
  cases h
  refine ⟨TLe_mark_self wt, fun b hb => by cases hb; exact TLe_mark htu wt wu, fun hau => ?_⟩
  exact ⟨_, rfl, by rw [nullable_of_mark_le hau]; exact TLe_refl o _ wu⟩

theorem lub_some {o : Options} {v : SVal} (hv : Lub o v) : Lub o (.some v) := by
  intro t u a wt wu htu h
  simp only [absorb] at h ⊢
  obtain ⟨L1, L2, L3⟩ := hv _ _ a (WF_mark wt) (WF_mark wu) (TLe_mark htu wt wu) h
  have wa := absorb_wf o (WF_mark wt) h
  refine ⟨TLe_trans (TLe_mark_self wt) wt (WF_mark wt) wa L1, L2, fun hau => ?_⟩
  have e := nullable_of_mark_le (TLe_trans L1 (WF_mark wt) wa wu hau)
  rw [e] at L3 ⊢
  exact L3 hau

theorem lub_newtype {o : Options} {n : String} {v : SVal} (hv : Lub o v) : Lub o (.newtypeStruct n v) := by
  intro t u a wt wu htu h
  simp only [absorb] at h ⊢
  exact hv t u a wt wu htu h

theorem Never.lub {o : Options} {x : SVal} (h : Never o x) : Lub o x := fun t _ a _ _ _ ha => absurd ha (h t a)

/-! ### leaves -/

theorem embed_nullable (n p : String) (s : LeafSt) : (LeafSt.embed n p s).nullable = s.2 := by
  obtain ⟨ty, nl⟩ := s
  cases ty <;> rfl

theorem embed_isLeaf (n p : String) (s : LeafSt) : Tracer.isLeaf (LeafSt.embed n p s) = true := by
  obtain ⟨ty, nl⟩ := s
  cases ty <;> rfl

theorem sle_none_r {o : Options} {ty : DataType} {nl nl' : Bool} : sle o (some ty, nl) (none, nl') = false := by
  unfold sle
  simp [act]

theorem TLe_embed {o : Options} {n p : String} {s s' : LeafSt} (h : sle o s s' = true) :
    TLe o (LeafSt.embed n p s) (LeafSt.embed n p s') := by
  obtain ⟨ty, nl⟩ := s
  cases ty with
  | none =>
    refine .unk ⟨(embed_name n p s').1, (embed_name n p s').2, ?_⟩ ?_
    · rw [embed_nullable]; exact sle_flag h
    · obtain ⟨ty', nl'⟩ := s'
      cases ty' <;> constructor
  | some ty =>
    obtain ⟨ty', nl'⟩ := s'
    cases ty' with
    | none => rw [sle_none_r] at h; cases h
    | some ty' => exact .prim h

theorem TLe_embed_inv {o : Options} {n p n' p' : String} {s s' : LeafSt}
    (h : TLe o (LeafSt.embed n p s) (LeafSt.embed n' p' s')) : n' = n ∧ p' = p ∧ sle o s s' = true := by
  have ht := TLe_top h
  unfold ULe at ht
  rw [(embed_name n p s).1, (embed_name n p s).2, (embed_name n' p' s').1, (embed_name n' p' s').2] at ht
  refine ⟨ht.1, ht.2.1, ?_⟩
  obtain ⟨ty, nl⟩ := s
  cases ty with
  | none =>
    have := ht.2.2
    rw [embed_nullable, embed_nullable] at this
    unfold sle
    cases nl with
    | false => simp
    | true => simp [this rfl]
  | some ty =>
    obtain ⟨ty', nl'⟩ := s'
    cases ty' with
    | none =>
      simp only [LeafSt.embed] at h
      cases h with
      | null hl _ _ => simp [Tracer.isLeaf] at hl
    | some ty' =>
      simp only [LeafSt.embed] at h
      cases h with
      | prim hs => exact hs
      | null hl _ _ => simp [Tracer.isLeaf] at hl

theorem act_null_id (o : Options) (ty : DataType) : act o (some ty, true) .null = .ok (some ty, true) := by
  simp only [act, coerce_primitive_type]
  by_cases h : ty = .null
  · subst h; simp
  · simp [h]

theorem nullify_nullable (t : Tracer) : (nullify t).nullable = true := by cases t <;> rfl

/-- a null leaf sample (`unit`, unit struct) -/
theorem lub_null_leaf {o : Options} {x : SVal} (hx : leafTypeOf o x = some .null) : Lub o x := by
  intro t u a wt wu htu h
  rw [absorb_null_leaf hx wt] at h
  cases h
  refine ⟨?_, ?_, ?_⟩
  · cases t
    case unknown n p nl => exact .unk ⟨rfl, rfl, fun _ => rfl⟩ .primitive
    all_goals exact TLe_mark_self wt
  · intro b hb
    rw [absorb_null_leaf hx wu] at hb
    cases hb
    cases htu with
    | @unk n p nl u hu hc =>
      cases hl : Tracer.isLeaf u with
      | false =>
        rw [nullify_container hl]
        exact .null (by rw [isLeaf_mark]; exact hl) (ULe_mark hu) (Canon_mark hc)
      | true =>
        cases u <;> simp [Tracer.isLeaf] at hl
        case unknown n' p' nl' =>
          simp only [ULe, Tracer.name, Tracer.path] at hu
          obtain ⟨rfl, rfl, _⟩ := hu
          exact .prim (sle_refl o (mem_leafStates.mpr ⟨by simp [leafTypes], fun _ => rfl⟩))
        case primitive n' p' nl' ty' st' =>
          simp only [ULe, Tracer.name, Tracer.path] at hu
          obtain ⟨rfl, rfl, _⟩ := hu
          rw [WF] at wu
          obtain ⟨rfl, _⟩ := wu
          refine .prim ?_
          unfold sle
          simp [act_null_id]
    | prim hs => exact TLe_mark (.prim hs) wt wu
    | null hl hu hc => rw [nullify_container hl]; exact TLe_mark (.null hl hu hc) wt wu
    | list h1 h2 => exact TLe_mark (.list h1 h2) wt wu
    | map h1 h2 h3 => exact TLe_mark (.map h1 h2 h3) wt wu
    | struct h1 h2 h3 h4 h5 h6 => exact TLe_mark (.struct h1 h2 h3 h4 h5 h6) wt wu
    | tuple h1 h2 h3 h4 => exact TLe_mark (.tuple h1 h2 h3 h4) wt wu
    | union h1 h2 h3 h4 h5 => exact TLe_mark (.union h1 h2 h3 h4 h5) wt wu
  · intro hau
    rw [absorb_null_leaf hx wu]
    refine ⟨_, rfl, ?_⟩
    have hn := (TLe_top hau).2.2 (nullify_nullable t)
    cases u
    case unknown n' p' nl' =>
      have := TLe_leaf_r hau rfl
      cases t <;> simp only [nullify, Tracer.mark_nullable, Tracer.set_nullable] at hau <;> cases hau
      all_goals (rename_i hl _ _; simp [Tracer.isLeaf] at hl)
    all_goals (
      simp only [nullify]
      rw [mark_of_nullable hn]
      exact TLe_refl o _ wu)

/-- a primitive leaf sample of a non-null type -/
theorem lub_prim_leaf {o : Options} {x : SVal} {ty : DataType} (hx : leafTypeOf o x = some ty) (hty : ty ≠ .null) :
    Lub o x := by
  intro t u a wt wu htu h
  have hmem := leafTypeOf_mem o hx
  have hnn : isNull ty = false := by cases ty <;> simp_all [isNull]
  rw [absorb_prim .fixed o t hx] at h
  rw [absorb_prim .fixed o u hx]
  cases hl : Tracer.isLeaf t with
  | false =>
    rw [Tracer.ensure_primitive, ensure_prim_container o hl] at h
    simp [hnn] at h
    cases h
  | true =>
    obtain ⟨s, hs, e⟩ := WF_leaf_embed wt hl
    rw [e] at h htu ⊢
    rw [ensure_primitive_embed] at h
    cases h1 : act o s ty with
    | error e' => rw [h1] at h; cases h
    | ok s' =>
      rw [h1] at h; cases h
      have hs' := (step_facts o hs hmem h1).1
      refine ⟨TLe_embed (step_sle o hs hmem h1), ?_, ?_⟩
      · intro b hb
        cases hlu : Tracer.isLeaf u with
        | false =>
          rw [Tracer.ensure_primitive, ensure_prim_container o hlu] at hb
          simp [hnn] at hb
          cases hb
        | true =>
          obtain ⟨su, hsu, eu⟩ := WF_leaf_embed wu hlu
          rw [eu] at hb htu
          obtain ⟨en, ep, hle⟩ := TLe_embed_inv htu
          rw [ensure_primitive_embed] at hb
          cases h2 : act o su ty with
          | error e' => rw [h2] at hb; cases hb
          | ok su' =>
            rw [h2] at hb; cases hb
            rw [en, ep]
            exact TLe_embed (step_mono o hs hsu hmem hle h1 h2)
      · intro hau
        cases hlu : Tracer.isLeaf u with
        | false =>
          exfalso
          obtain ⟨ty', nl'⟩ := s'
          cases ty' with
          | none => simp only [act] at h1; cases s with | mk a b => cases a <;> simp [act] at h1 <;> (split at h1 <;> cases h1)
          | some ty' =>
            simp only [LeafSt.embed] at hau
            cases hau with
            | prim _ => simp [Tracer.isLeaf] at hlu
            | null _ _ _ => exact hty (act_null hs hmem h1 rfl)
        | true =>
          obtain ⟨su, hsu, eu⟩ := WF_leaf_embed wu hlu
          rw [eu] at hau ⊢
          obtain ⟨en, ep, hle⟩ := TLe_embed_inv hau
          rw [ensure_primitive_embed, step_up o hs hsu hmem h1 hle]
          exact ⟨_, rfl, TLe_refl o _ (by rw [← eu]; exact wu)⟩

theorem lub_leaf {o : Options} {x : SVal} {ty : DataType} (hx : leafTypeOf o x = some ty) : Lub o x := by
  by_cases h : ty = .null
  · subst h; exact lub_null_leaf hx
  · exact lub_prim_leaf hx h

end SaModel.Lemmas.C07
