import SaModel.Lemmas.C07LUnion
import SaModel.Lemmas.C07TIdem
/-
C07, least-upper-bound argument — the induction over nested samples (`lub_any`: every sample, every option setting),
and its consequences for sample lists: what a successful run has absorbed stays absorbed, the result of a run is the
least tracer above the start that has absorbed every sample, hence two runs over the same SET of samples that both
succeed end in equivalent tracers (any order, any multiplicity — also under `allow_to_string`).
-/
namespace SaModel.Lemmas.C07
open SaModel SaModel.Trace SaModel.Props.C07

theorem lub_all (o : Options) : ∀ (n : Nat) (x : SVal), sz x ≤ n → Lub o x := by
  intro n
  induction n with
  | zero => intro x h; have := sz_pos x; omega
  | succ n ih =>
    intro x hx
    rcases classify o x with rfl | ⟨v, rfl⟩ | ⟨nm, v, rfl⟩ | ⟨ty, hl⟩ | hn | ⟨S, hf⟩
    · exact lub_none o
    · exact lub_some (ih v (by simp only [sz] at hx; omega))
    · exact lub_newtype (ih v (by simp only [sz] at hx; omega))
    · exact lub_leaf hl
    · exact hn.lub
    · cases S
      case list =>
        obtain ⟨items, rfl⟩ := hf
        exact lub_seq fun v hv => ih v (by have := szs_mem items v hv; simp only [sz] at hx; omega)
      case struct =>
        obtain ⟨mode, ps, hl, hs⟩ := hf
        exact lub_struct hl fun kv hkv => ih kv.2 (by have := hs kv hkv; omega)
      case map =>
        obtain ⟨ks, vs, hl, hk, hv⟩ := hf
        exact lub_map hl (fun v h => ih v (by have := hk v h; omega)) (fun v h => ih v (by have := hv v h; omega))
      case tuple =>
        obtain ⟨items, hl, hs⟩ := hf
        exact lub_tuple hl fun v hv => ih v (by have := hs v hv; omega)
      case union =>
        obtain ⟨idx, vn, payload, hl, hs⟩ := hf
        exact lub_union hl (ih payload (by omega))

theorem lub_any (o : Options) (x : SVal) : Lub o x := lub_all o (sz x) x (Nat.le_refl _)

theorem lubL_any (o : Options) (xs : List SVal) : LubL o xs := lubL fun x _ => lub_any o x

/-- `u` has absorbed `x`: absorbing it again does not move `u` up -/
def Accepts (o : Options) (u : Tracer) (x : SVal) : Prop := ∃ b, absorb .fixed o u x = .ok b ∧ TLe o b u

theorem accepts_up {o : Options} {u b : Tracer} {x : SVal} (wu : WF o u) (wb : WF o b) (hub : TLe o u b)
    (h : Accepts o u x) : Accepts o b x := by
  obtain ⟨c, h1, h2⟩ := h
  exact (lub_any o x u b c wu wb hub h1).2.2 (TLe_trans h2 (absorb_wf o wu h1) wu wb hub)

theorem accepts_list {o : Options} : ∀ {xs : List SVal} {u : Tracer}, WF o u → (∀ x ∈ xs, Accepts o u x) →
    ∃ b, absorbAll .fixed o u xs = .ok b ∧ TLe o b u
  | [], u, wu, _ => ⟨u, rfl, TLe_refl o u wu⟩
  | x :: xs, u, wu, h => by
    obtain ⟨b1, h1, h2⟩ := h x (by simp)
    have wb1 := absorb_wf o wu h1
    have hub1 : TLe o u b1 := (lub_any o x u u b1 wu wu (TLe_refl o u wu) h1).1
    obtain ⟨b, h3, h4⟩ := accepts_list (xs := xs) wb1 (fun y hy => accepts_up wu wb1 hub1 (h y (by simp [hy])))
    exact ⟨b, absorbAll_cons_mk h1 h3, TLe_trans h4 (allWf o wb1 h3) wb1 wu h2⟩

theorem run_le {o : Options} {xs : List SVal} {t a : Tracer} (wt : WF o t) (h : absorbAll .fixed o t xs = .ok a) :
    TLe o t a := (lubL_any o xs t t a wt wt (TLe_refl o t wt) h).1

/-- every sample of a successful run has been absorbed by the result -/
theorem run_accepts {o : Options} : ∀ {ys : List SVal} {t t2 : Tracer}, WF o t → absorbAll .fixed o t ys = .ok t2 →
    ∀ y ∈ ys, Accepts o t2 y
  | [], _, _, _, _, y, hy => by cases hy
  | y0 :: r, t, t2, wt, h, y, hy => by
    obtain ⟨m, h1, h2⟩ := absorbAll_cons_ok h
    have wm := absorb_wf o wt h1
    have w2 := allWf o wm h2
    rcases List.mem_cons.mp hy with rfl | hy'
    · have hm2 := run_le wm h2
      have ht2 := TLe_trans (lub_any o y t t m wt wt (TLe_refl o t wt) h1).1 wt wm w2 hm2
      exact (lub_any o y t t2 m wt w2 ht2 h1).2.2 hm2
    · exact run_accepts wm h2 y hy'

/-- the result of a run is below every result of a run that contains its samples -/
theorem same_set_le {o : Options} {xs ys : List SVal} {t t1 t2 : Tracer} (wt : WF o t)
    (h1 : absorbAll .fixed o t xs = .ok t1) (h2 : absorbAll .fixed o t ys = .ok t2) (hsub : ∀ x ∈ xs, x ∈ ys) :
    TLe o t1 t2 := by
  have w1 := allWf o wt h1
  have w2 := allWf o wt h2
  obtain ⟨b, hb, hle⟩ := accepts_list w2 (fun x hx => run_accepts wt h2 x (hsub x hx))
  have := (lubL_any o xs t t2 t1 wt w2 (run_le wt h2) h1).2.1 b hb
  exact TLe_trans this w1 (allWf o w2 hb) w2 hle

theorem eqv_of_le {o : Options} {a b : Tracer} (wa : WF o a) (wb : WF o b) (h1 : TLe o a b) (h2 : TLe o b a) : Eqv a b :=
  ⟨TLe_antisymm h1 wa wb h2, TLe_antisymm h2 wb wa h1⟩

/-- two runs from the same tracer over the same set of samples that both succeed end in equivalent tracers -/
theorem same_set_eqv {o : Options} {xs ys : List SVal} {t t1 t2 : Tracer} (wt : WF o t)
    (h1 : absorbAll .fixed o t xs = .ok t1) (h2 : absorbAll .fixed o t ys = .ok t2) (hset : ∀ x, x ∈ xs ↔ x ∈ ys) :
    Eqv t1 t2 :=
  eqv_of_le (allWf o wt h1) (allWf o wt h2) (same_set_le wt h1 h2 fun x hx => (hset x).mp hx)
    (same_set_le wt h2 h1 fun x hx => (hset x).mpr hx)

/-- a successful run can be repeated and changes nothing -/
theorem run_again {o : Options} {xs : List SVal} {t t1 : Tracer} (wt : WF o t)
    (h1 : absorbAll .fixed o t xs = .ok t1) : ∃ b, absorbAll .fixed o t1 xs = .ok b ∧ Eqv b t1 := by
  have w1 := allWf o wt h1
  obtain ⟨b, hb, hle⟩ := accepts_list w1 (run_accepts wt h1)
  exact ⟨b, hb, eqv_of_le (allWf o w1 hb) w1 hle (run_le w1 hb)⟩

end SaModel.Lemmas.C07
