import SaModel.Lemmas.C07LDefs
/-
C07, least-upper-bound argument — the order is a partial order up to the schema equivalence: transitive
(`TLe_trans`), antisymmetric up to `TEq` (`TLe_antisymm`), compatible with `mark_nullable`.
-/
namespace SaModel.Lemmas.C07
open SaModel SaModel.Trace SaModel.Props.C07

theorem bool_eq_of_imp {a b : Bool} (h1 : a = true → b = true) (h2 : b = true → a = true) : a = b := by
  cases a <;> cases b <;> simp_all

theorem isSome_some {α} {x : Option α} (h : x.isSome = true) : ∃ y, x = some y := by
  cases x with
  | none => cases h
  | some y => exact ⟨y, rfl⟩

/-- canonical names and paths are inherited upwards -/
theorem TLe_canon {o : Options} {a b : Tracer} (h : TLe o a b) : Canon a → Canon b := by
  induction h with
  | unk _ hc => intro _; exact hc
  | prim _ => intro _; exact .primitive
  | null _ _ hc => intro _; exact hc
  | list _ hi ih =>
    intro hc; cases hc with
    | list hu hci => exact .list (ULe_of_le hu hi) (ih hci)
  | map _ hk hv ihk ihv =>
    intro hc; cases hc with
    | map hu1 hc1 hu2 hc2 => exact .map (ULe_of_le hu1 hk) (ihk hc1) (ULe_of_le hu2 hv) (ihv hc2)
  | @struct n p nl nl' A B m m' s s' _ _ _ hk hf hx ih =>
    intro hc; cases hc with
    | struct hu hcc =>
      refine .struct ?_ ?_
      · intro k l b hb
        cases ha : A.find k with
        | none => exact (hx k l b ha hb).1.weak
        | some la => obtain ⟨l0, a⟩ := la; exact ULe_of_le (hu k l0 a ha) (hf k l0 a l b ha hb)
      · intro k l b hb
        cases ha : A.find k with
        | none => exact (hx k l b ha hb).2
        | some la => obtain ⟨l0, a⟩ := la; exact ih k l0 a l b ha hb (hcc k l0 a ha)
  | @tuple n p nl nl' A B _ hk hf hx ih =>
    intro hc; cases hc with
    | tuple hu hcc =>
      refine .tuple ?_ ?_
      · intro j b hb
        cases ha : A.get? j with
        | none => exact (hx j b ha hb).1.weak
        | some a => exact ULe_of_le (hu j a ha) (hf j a b ha hb)
      · intro j b hb
        cases ha : A.get? j with
        | none => exact (hx j b ha hb).2
        | some a => exact ih j a b ha hb (hcc j a ha)
  | @union n p nl nl' A B _ _ hp hf hx ih =>
    intro hc; cases hc with
    | union hu hcc =>
      refine .union ?_ ?_
      · intro j b y hb
        cases ha : vget A j with
        | none => exact (hx j b y ha hb).1
        | some ax =>
          obtain ⟨a, x⟩ := ax
          obtain ⟨y', hy'⟩ := hp j a x ha
          have e := Option.some.inj (hb.symm.trans hy')
          have e1 : b = a := congrArg Prod.fst e
          rw [e1] at hb ⊢
          exact ULe_of_le (hu j a x ha) (hf j a x a y ha hb)
      · intro j b y hb
        cases ha : vget A j with
        | none => exact (hx j b y ha hb).2
        | some ax => obtain ⟨a, x⟩ := ax; exact ih j a x b y ha hb (hcc j a x ha)

/-- only `Null` is below `Null` -/
theorem sle_null {o : Options} {ty : DataType} {nl nl' : Bool} (h : sle o (some ty, nl) (some .null, nl') = true) :
    ty = .null := by
  unfold sle at h
  simp only [Bool.and_eq_true, decide_eq_true_eq] at h
  have h1 := h.1
  simp only [act, coerce_primitive_type] at h1
  by_cases e : DataType.null = ty
  · exact e.symm
  · simp [e] at h1
    exact h1.1

theorem WF_prim {o : Options} {n p : String} {nl : Bool} {ty : DataType} {st : Option Strategy}
    (h : WF o (.primitive n p nl ty st)) : (some ty, nl) ∈ leafStates o := by rw [WF] at h; exact h.2

theorem TLe_trans {o : Options} {a b : Tracer} (hab : TLe o a b) :
    ∀ {c}, WF o a → WF o b → WF o c → TLe o b c → TLe o a c := by
  induction hab with
  | unk hu hc => intro c _ _ _ hbc; exact .unk (ULe_of_le hu hbc) (TLe_canon hbc hc)
  | prim hs =>
    intro c wa wb wc hbc
    cases hbc with
    | prim hs' => exact .prim (sle_trans o (WF_prim wa) (WF_prim wb) (WF_prim wc) hs hs')
    | null hl hu hc => have := sle_null hs; subst this; exact .null hl hu hc
  | null hl hu hc =>
    intro c _ _ _ hbc
    refine .null ?_ (ULe_of_le hu hbc) (TLe_canon hbc hc)
    have := TLe_isLeaf hbc hl
    cases hc' : Tracer.isLeaf c with
    | false => rfl
    | true =>
      rw [shape_isLeaf.mpr hc'] at this
      have h2 := shape_isLeaf.mp this.symm
      rw [hl] at h2; cases h2
  | list hn _ ih =>
    intro c wa wb wc hbc
    cases hbc with
    | list hn' hi' =>
      rw [WF] at wa wb wc
      exact .list (fun e => hn' (hn e)) (ih wa wb wc hi')
  | map hn _ _ ihk ihv =>
    intro c wa wb wc hbc
    cases hbc with
    | map hn' hk' hv' =>
      rw [WF] at wa wb wc
      exact .map (fun e => hn' (hn e)) (ihk wa.1 wb.1 wc.1 hk') (ihv wa.2 wb.2 wc.2 hv')
  | @struct n p nl nl' A B m m' s s' hn hm hs hk hf hx ih =>
    intro c wa wb wc hbc
    cases hbc with
    | @struct _ _ _ nl'' _ C _ m'' _ s'' hn' hm' hs' hk' hf' hx' =>
      rw [WF] at wa wb wc
      refine .struct (fun e => hn' (hn e)) (fun e => hm' (hm e)) (fun e => hs' (hs e)) (fun k h => hk' k (hk k h)) ?_ ?_
      · intro k l a l'' c' h1 h3
        obtain ⟨lb, h2⟩ := isSome_some (hk k (by rw [h1]; rfl))
        obtain ⟨l', b⟩ := lb
        exact ih k l a l' b h1 h2 (find_wf wa h1).2 (find_wf wb h2).2 (find_wf wc h3).2 (hf' k l' b l'' c' h2 h3)
      · intro k l c' h1 h3
        cases h2 : B.find k with
        | none =>
          obtain ⟨u1, u2⟩ := hx' k l c' h2 h3
          refine ⟨u1.mono ?_, u2⟩
          intro e
          simp only [bne_iff_ne, ne_eq] at e ⊢
          exact hs e
        | some lb =>
          obtain ⟨l', b⟩ := lb
          obtain ⟨u1, u2⟩ := hx k l' b h1 h2
          have hbc' := hf' k l' b l c' h2 h3
          exact ⟨ULe_of_le u1 hbc', TLe_canon hbc' u2⟩
  | @tuple n p nl nl' A B hn hk hf hx ih =>
    intro c wa wb wc hbc
    cases hbc with
    | @tuple _ _ _ nl'' _ C hn' hk' hf' hx' =>
      rw [WF] at wa wb wc
      refine .tuple (fun e => hn' (hn e)) (fun j h => hk' j (hk j h)) ?_ ?_
      · intro j a c' h1 h3
        obtain ⟨b, h2⟩ := isSome_some (hk j (by rw [h1]; rfl))
        exact ih j a b h1 h2 (get_wf wa h1) (get_wf wb h2) (get_wf wc h3) (hf' j b c' h2 h3)
      · intro j c' h1 h3
        cases h2 : B.get? j with
        | none => exact hx' j c' h2 h3
        | some b =>
          obtain ⟨u1, u2⟩ := hx j b h1 h2
          have hbc' := hf' j b c' h2 h3
          exact ⟨ULe_of_le u1 hbc', TLe_canon hbc' u2⟩
  | @union n p nl nl' A B hn hlen hp hf hx ih =>
    intro c wa wb wc hbc
    cases hbc with
    | @union _ _ _ nl'' _ C hn' hlen' hp' hf' hx' =>
      rw [WF] at wa wb wc
      refine .union (fun e => hn' (hn e)) (Nat.le_trans hlen hlen') ?_ ?_ ?_
      · intro j a x h1
        obtain ⟨y, h2⟩ := hp j a x h1
        exact hp' j a y h2
      · intro j a x c' z h1 h3
        obtain ⟨y, h2⟩ := hp j a x h1
        exact ih j a x a y h1 h2 (vget_wf wa h1) (vget_wf wb h2) (vget_wf wc h3) (hf' j a y c' z h2 h3)
      · intro j c' z h1 h3
        cases h2 : vget B j with
        | none => exact hx' j c' z h2 h3
        | some by' =>
          obtain ⟨b, y⟩ := by'
          obtain ⟨u1, u2⟩ := hx j b y h1 h2
          obtain ⟨z', h3'⟩ := hp' j b y h2
          have e := Option.some.inj (h3.symm.trans h3')
          have e1 : c' = b := congrArg Prod.fst e
          rw [e1] at h3 ⊢
          have hbc' := hf' j b y b z h2 h3
          exact ⟨ULe_of_le u1 hbc', TLe_canon hbc' u2⟩

/-! ### `mark_nullable` -/

theorem mark_of_nullable {t : Tracer} (h : t.nullable = true) : t.mark_nullable = t := by
  cases t <;> simp only [Tracer.nullable] at h <;> subst h <;> rfl

theorem nullable_mark (t : Tracer) : t.mark_nullable.nullable = true := by cases t <;> rfl
theorem path_mark (t : Tracer) : t.mark_nullable.path = t.path := by cases t <;> rfl
theorem isLeaf_mark (t : Tracer) : Tracer.isLeaf t.mark_nullable = Tracer.isLeaf t := by cases t <;> rfl

theorem ULe_mark {n p : String} {nl : Bool} {b : Tracer} (h : ULe n p nl b) : ULe n p true b.mark_nullable :=
  ⟨by rw [name_mark]; exact h.1, by rw [path_mark]; exact h.2.1, fun _ => nullable_mark b⟩

theorem Canon_mark {b : Tracer} (h : Canon b) : Canon b.mark_nullable := by
  cases h with
  | unknown => exact .unknown
  | primitive => exact .primitive
  | list h1 h2 => exact .list h1 h2
  | map h1 h2 h3 h4 => exact .map h1 h2 h3 h4
  | struct h1 h2 => exact .struct h1 h2
  | tuple h1 h2 => exact .tuple h1 h2
  | union h1 h2 => exact .union h1 h2

theorem sle_mark {o : Options} {s r : LeafSt} (h : sle o s r = true) (hr : r ∈ leafStates o)
    (hty : ∀ ty, s.1 = some ty → ty ∈ leafTypes o) : sle o (mark s) (mark r) = true := by
  obtain ⟨ty, nl⟩ := s
  obtain ⟨ty', nl'⟩ := r
  unfold sle at h ⊢
  rw [Bool.and_eq_true] at h ⊢
  refine ⟨?_, by simp [mark]⟩
  cases ty with
  | none => rfl
  | some ty =>
    have h1 := h.1
    simp only [decide_eq_true_eq] at h1
    have := (mark_commutes o hr (hty ty rfl)).1 _ h1
    simp only [mark] at this ⊢
    exact decide_eq_true this

/-- the order is compatible with `mark_nullable` -/
theorem TLe_mark {o : Options} {a b : Tracer} (h : TLe o a b) (wa : WF o a) (wb : WF o b) :
    TLe o a.mark_nullable b.mark_nullable := by
  cases h with
  | unk hu hc => exact .unk (ULe_mark hu) (Canon_mark hc)
  | prim hs =>
    refine .prim ?_
    have := sle_mark hs (WF_prim wb) (fun ty e => by cases e; exact state_type_mem o (WF_prim wa))
    exact this
  | null hl hu hc => exact .null (by rw [isLeaf_mark]; exact hl) (ULe_mark hu) (Canon_mark hc)
  | list _ hi => exact .list (fun _ => rfl) hi
  | map _ hk hv => exact .map (fun _ => rfl) hk hv
  | struct _ h2 h3 h4 h5 h6 => exact .struct (fun _ => rfl) h2 h3 h4 h5 h6
  | tuple _ h2 h3 h4 => exact .tuple (fun _ => rfl) h2 h3 h4
  | union _ h2 h3 h4 h5 => exact .union (fun _ => rfl) h2 h3 h4 h5

/-- marking moves up -/
theorem TLe_mark_self {o : Options} {a : Tracer} (wa : WF o a) : TLe o a a.mark_nullable := by
  have h := TLe_refl o a wa
  cases a <;> simp only [Tracer.mark_nullable, Tracer.set_nullable]
  case unknown n p nl => exact .unk ⟨rfl, rfl, fun _ => rfl⟩ .unknown
  case primitive n p nl ty st =>
    refine .prim ?_
    have hm := WF_prim wa
    have h1 := sle_refl o hm
    unfold sle at h1 ⊢
    rw [Bool.and_eq_true] at h1 ⊢
    refine ⟨?_, by simp⟩
    simp only [decide_eq_true_eq] at h1 ⊢
    exact (mark_commutes o hm (state_type_mem o hm)).1 _ h1.1
  case list => cases h with | list _ hi => exact .list (fun _ => rfl) hi
  case map => cases h with | map _ hk hv => exact .map (fun _ => rfl) hk hv
  case struct => cases h with | struct _ h2 h3 h4 h5 h6 => exact .struct (fun _ => rfl) h2 h3 h4 h5 h6
  case tuple => cases h with | tuple _ h2 h3 h4 => exact .tuple (fun _ => rfl) h2 h3 h4
  case union => cases h with | union _ h2 h3 h4 h5 => exact .union (fun _ => rfl) h2 h3 h4 h5

/-! ### antisymmetry -/

theorem VEq_of_get : ∀ {A B : Variants}, (∀ j, SRel (A.get? j) (B.get? j)) → VEq A B
  | .nil, B, h => by
    rw [VEq]
    cases B with
    | nil => rfl
    | absent r => have := h 0; simp [Variants.get?, SRel] at this
    | present n t r => have := h 0; simp [Variants.get?, SRel] at this
  | .absent r, B, h => by
    rw [VEq]
    cases B with
    | nil => have := h 0; simp [Variants.get?, SRel] at this
    | absent r' => exact ⟨r', rfl, VEq_of_get fun j => by have := h (j + 1); simpa [Variants.get?] using this⟩
    | present n t r' => have := h 0; simp [Variants.get?, SRel] at this
  | .present n t r, B, h => by
    rw [VEq]
    cases B with
    | nil => have := h 0; simp [Variants.get?, SRel] at this
    | absent r' => have := h 0; simp [Variants.get?, SRel] at this
    | present n' t' r' =>
      have h0 := h 0
      simp only [Variants.get?, SRel] at h0
      obtain ⟨rfl, h0⟩ := h0
      exact ⟨t', r', rfl, h0, VEq_of_get fun j => by have := h (j + 1); simpa [Variants.get?] using this⟩

theorem mode_eq {m m' : StructMode} (h1 : m = .map → m' = .map) (h2 : m' = .map → m = .map) : m = m' := by
  cases m <;> cases m' <;> simp_all

theorem TLe_antisymm {o : Options} {a b : Tracer} (hab : TLe o a b) : WF o a → WF o b → TLe o b a → TEq a b := by
  induction hab with
  | @unk n p nl b hu hc =>
    intro _ _ hba
    have hl := TLe_leaf_r hba rfl
    cases hba with
    | unk hu' _ =>
      rw [TEq]
      simp only [ULe, Tracer.name, Tracer.path, Tracer.nullable] at hu hu'
      obtain ⟨rfl, rfl, h1⟩ := hu
      rw [bool_eq_of_imp h1 hu'.2.2]
    | null hl' _ _ => simp [Tracer.isLeaf] at hl'
  | prim hs =>
    intro wa wb hba
    cases hba with
    | prim hs' =>
      have := sle_antisymm o (WF_prim wa) (WF_prim wb) hs hs'
      simp only [Prod.mk.injEq, Option.some.injEq] at this
      obtain ⟨rfl, rfl⟩ := this
      rw [TEq]
    | null hl' _ _ => simp [Tracer.isLeaf] at hl'
  | null hl _ _ =>
    intro _ _ hba
    have := TLe_leaf_r hba rfl
    rw [hl] at this; cases this
  | list hn _ ih =>
    intro wa wb hba
    cases hba with
    | list hn' hi' =>
      rw [WF] at wa wb
      have := bool_eq_of_imp hn hn'
      subst this
      rw [TEq]
      exact ⟨_, rfl, ih wa wb hi'⟩
  | map hn _ _ ihk ihv =>
    intro wa wb hba
    cases hba with
    | map hn' hk' hv' =>
      rw [WF] at wa wb
      have := bool_eq_of_imp hn hn'
      subst this
      rw [TEq]
      exact ⟨_, _, rfl, ihk wa.1 wb.1 hk', ihv wa.2 wb.2 hv'⟩
  | @struct n p nl nl' A B m m' s s' hn hm hs hk hf hx ih =>
    intro wa wb hba
    cases hba with
    | struct hn' hm' hs' hk' hf' hx' =>
      rw [WF] at wa wb
      have e1 := bool_eq_of_imp hn hn'
      have e2 := mode_eq hm hm'
      subst e1; subst e2
      refine TEq_struct_of wa ⟨fun e => Classical.byContradiction fun h => hs' h e, fun e => Classical.byContradiction fun h => hs h e⟩ ?_
      intro k
      cases h1 : A.find k with
      | none =>
        cases h2 : B.find k with
        | none => simp [tr, ORel]
        | some lb => have := hk' k (by rw [h2]; rfl); rw [h1] at this; cases this
      | some la =>
        obtain ⟨l, x⟩ := la
        obtain ⟨lb, h2⟩ := isSome_some (hk k (by rw [h1]; rfl))
        obtain ⟨l', y⟩ := lb
        rw [h2]
        simp only [tr, Option.map, ORel]
        exact ih k l x l' y h1 h2 (find_wf wa h1).2 (find_wf wb h2).2 (hf' k l' y l x h2 h1)
  | @tuple n p nl nl' A B hn hk hf hx ih =>
    intro wa wb hba
    cases hba with
    | tuple hn' hk' hf' hx' =>
      rw [WF] at wa wb
      have e1 := bool_eq_of_imp hn hn'
      subst e1
      rw [TEq]
      refine ⟨B, rfl, TsEq_of_get ?_⟩
      intro j
      cases h1 : A.get? j with
      | none =>
        cases h2 : B.get? j with
        | none => simp [ORel]
        | some y => have := hk' j (by rw [h2]; rfl); rw [h1] at this; cases this
      | some x =>
        obtain ⟨y, h2⟩ := isSome_some (hk j (by rw [h1]; rfl))
        rw [h2]
        simp only [ORel]
        exact ih j x y h1 h2 (get_wf wa h1) (get_wf wb h2) (hf' j y x h2 h1)
  | @union n p nl nl' A B hn hlen hp hf hx ih =>
    intro wa wb hba
    cases hba with
    | union hn' hlen' hp' hf' hx' =>
      rw [WF] at wa wb
      have e1 := bool_eq_of_imp hn hn'
      subst e1
      rw [TEq]
      refine ⟨B, rfl, VEq_of_get ?_⟩
      intro j
      have hlen2 : A.length = B.length := Nat.le_antisymm hlen hlen'
      cases h1 : A.get? j with
      | none =>
        have := Vs.get?_none.mp h1
        have h2 : B.get? j = none := Vs.get?_none.mpr (by omega)
        rw [h2]; simp [SRel]
      | some x =>
        cases h2 : B.get? j with
        | none =>
          have := Vs.get?_none.mp h2
          have : A.get? j = none := Vs.get?_none.mpr (by omega)
          rw [h1] at this; cases this
        | some y =>
          cases x with
          | none =>
            cases y with
            | none => simp [SRel]
            | some by' =>
              obtain ⟨b, y⟩ := by'
              obtain ⟨x', hx''⟩ := hp' j b y (by simp [vget, h2])
              simp [vget, h1] at hx''
          | some ax =>
            obtain ⟨a, x⟩ := ax
            have v1 : vget A j = some (a, x) := by simp [vget, h1]
            obtain ⟨y', v2⟩ := hp j a x v1
            cases y with
            | none => simp [vget, h2] at v2
            | some by' =>
              obtain ⟨b, y⟩ := by'
              have v2' : vget B j = some (b, y) := by simp [vget, h2]
              rw [v2'] at v2
              simp only [Option.some.injEq, Prod.mk.injEq] at v2
              obtain ⟨rfl, rfl⟩ := v2
              simp only [SRel, true_and]
              exact ih j b x b y v1 v2' (vget_wf wa v1) (vget_wf wb v2') (hf' j b y b x v2' v1)

end SaModel.Lemmas.C07
