import SaModel.Lemmas.C07LKey
/-
C07, least-upper-bound argument — the struct family (`record`, maps and raw key/value streams traced as structs,
the payload of struct variants): a struct node is a finite map, the law holds key by key (`keyT_lub`).
-/
namespace SaModel.Lemmas.C07
open SaModel SaModel.Trace SaModel.Props.C07

theorem TLe_struct_of_K {o : Options} {n p : String} {nl nl' : Bool} {A B : TFields} {m m' : StructMode} {s s' : Nat}
    (hn : nl = true → nl' = true) (hm : m = .map → m' = .map) (hs : s ≠ 0 → s' ≠ 0)
    (hK : ∀ k, KLe o p s k (tr (A.find k)) (tr (B.find k))) :
    TLe o (.struct n p nl A m s) (.struct n p nl' B m' s') := by
  refine .struct hn hm hs ?_ ?_ ?_
  · intro k h
    cases hb : B.find k with
    | some _ => rfl
    | none =>
      have := hK k
      rw [hb] at this
      have e : tr (A.find k) = none := this
      cases ha : A.find k with
      | none => rw [ha] at h; cases h
      | some _ => rw [ha] at e; cases e
  · intro k l a l' b ha hb
    have := hK k
    rw [ha, hb] at this
    exact this
  · intro k l b ha hb
    have := hK k
    rw [ha, hb] at this
    have h2 : TLe o (freshField p s k) b := this
    rw [freshField_eq] at h2
    cases h2 with
    | unk hu hc => exact ⟨hu, hc⟩

theorem K_of_TLe_struct {o : Options} {n p : String} {nl : Bool} {A : TFields} {m : StructMode} {s : Nat} {u : Tracer}
    (h : TLe o (.struct n p nl A m s) u) : ∃ nl' B m' s', u = .struct n p nl' B m' s' ∧ (nl = true → nl' = true) ∧
      (m = .map → m' = .map) ∧ (s ≠ 0 → s' ≠ 0) ∧ ∀ k, KLe o p s k (tr (A.find k)) (tr (B.find k)) := by
  cases h with
  | @struct _ _ _ nl' _ B _ m' _ s' hn hm hs hk hf hx =>
    refine ⟨_, _, _, _, rfl, hn, hm, hs, ?_⟩
    intro k
    cases hb : B.find k with
    | none =>
      show tr (A.find k) = none
      cases ha : A.find k with
      | none => rfl
      | some _ => have := hk k (by rw [ha]; rfl); rw [hb] at this; cases this
    | some lb =>
      obtain ⟨l', b⟩ := lb
      cases ha : A.find k with
      | none =>
        show TLe o (freshField p s k) b
        rw [freshField_eq]
        obtain ⟨hu, hc⟩ := hx k l' b ha hb
        exact .unk hu hc
      | some la => obtain ⟨l, a⟩ := la; exact hf k l a l' b ha hb

theorem KLe_refl {o : Options} {p : String} {s : Nat} {k : String} {cur : Option Tracer} (hw : OWF o cur) :
    KLe o p s k cur cur := by
  cases cur with
  | none => rfl
  | some a => exact TLe_refl o a (hw a rfl)

theorem joinMode_of_le {m mode : StructMode} (h : mode = .map → m = .map) : joinMode m mode = m := by
  cases m <;> cases mode <;> first | rfl | (simp at h)

theorem lub_struct {o : Options} {x : SVal} {mode : StructMode} {ps : List (String × SVal)}
    (hx : StructLike o x mode ps) (hc : ∀ kv ∈ ps, Lub o kv.2) : Lub o x := by
  intro t u a wt wu htu h
  obtain ⟨n, p, nl, A, m, s, A1, e1, r1, rfl⟩ := (hx t _).mp h
  obtain ⟨wA, hd, hcase⟩ := ensure_struct_facts wt e1
  have cong : ∀ kv ∈ ps, Cong o kv.2 := fun kv _ => cong_any o kv.2
  obtain ⟨KA, _, _⟩ := sample_find (fun k l t hf => (find_wf wA hf).1) (FWF_nodup wA) r1
  have LK : ∀ k, LubL o (keyVals k ps) := fun k => lubL (fun v hv => hc (k, v) (keyVals_mem hv))
  have hmode : mode = .map → m = .map := by
    rcases hcase with ⟨_, _, _, rfl, _⟩ | ⟨m0, _, rfl⟩
    · exact id
    · intro e; subst e; cases m0 <;> rfl
  have hu1 : ∀ n' p' nl' B m' s', u.ensure_struct .fixed [] mode = .ok (.struct n' p' nl' B m' s') →
      n' = n ∧ p' = p ∧ (nl = true → nl' = true) ∧ (m = .map → m' = .map) ∧ (s ≠ 0 → s' ≠ 0) ∧ FWF o s' B ∧
        ∀ k, KLe o p s k (tr (A.find k)) (tr (B.find k)) := by
    intro n' p' nl' B m' s' e
    obtain ⟨wB, _, _⟩ := ensure_struct_facts wu e
    obtain ⟨hdu, hcu⟩ := ensure_struct_inv e
    obtain ⟨_, hct⟩ := ensure_struct_inv e1
    rcases hct with ⟨hu, e2⟩ | ⟨n0, p0, nl0, A0, m0, s0, rfl, e2⟩
    · cases e2
      obtain ⟨ule, hcan⟩ := unknownish_le hu htu
      rcases hcu with ⟨_, e3⟩ | ⟨n1, p1, nl1, B0, m1, s1, rfl, e3⟩
      · cases e3
        exact ⟨ule.1, ule.2.1, ule.2.2, id, fun h => absurd rfl h, wB, fun k => rfl⟩
      · cases e3
        simp only [ULe, Tracer.name, Tracer.path, Tracer.nullable] at ule
        obtain ⟨rfl, rfl, hn⟩ := ule
        refine ⟨rfl, rfl, hn, (fun e => by subst e; cases m1 <;> rfl), (fun h => absurd rfl h), wB, ?_⟩
        intro k
        cases hb : B.find k with
        | none => rfl
        | some lb =>
          obtain ⟨l, b⟩ := lb
          show TLe o (freshField _ 0 k) b
          rw [freshField_eq]
          cases hcan with
          | struct hu' hc' => exact .unk (hu' k l b hb) (hc' k l b hb)
    · cases e2
      obtain ⟨nl', B', m'', s'', rfl, hn, hm, hs, hK⟩ := K_of_TLe_struct htu
      rw [ensure_struct_same mode hdu] at e
      cases e
      refine ⟨rfl, rfl, hn, ?_, hs, wB, hK⟩
      intro e
      cases m0 <;> cases m'' <;> cases mode <;> simp_all [joinMode]
  have hself : ∀ k, KLe o p s k (tr (A.find k)) (tr ((A1.end_ s).find k)) := fun k =>
    (keyT_lub (s' := s) (LK k) (OWF_find wA k) (OWF_find wA k) id (KLe_refl (OWF_find wA k)) (KA k)).1
  refine ⟨?_, ?_, ?_⟩
  · obtain ⟨_, hct⟩ := ensure_struct_inv e1
    rcases hct with ⟨hu, e2⟩ | ⟨n0, p0, nl0, A0, m0, s0, rfl, e2⟩
    · cases e2
      refine unknownish_le_mk wt hu rfl ⟨rfl, rfl, id⟩ (.struct ?_ ?_)
      · intro k l b hb
        have := hself k
        rw [hb] at this
        have h2 : TLe o (freshField t.path 0 k) b := this
        rw [freshField_eq] at h2
        cases h2 with
        | unk hu' _ => exact hu'
      · intro k l b hb
        have := hself k
        rw [hb] at this
        have h2 : TLe o (freshField t.path 0 k) b := this
        rw [freshField_eq] at h2
        cases h2 with
        | unk _ hc' => exact hc'
    · cases e2
      refine TLe_struct_of_K id ?_ (by omega) hself
      intro e; subst e; cases mode <;> rfl
  · intro b hb
    obtain ⟨n', p', nl', B, m', s', B1, g1, g2, rfl⟩ := (hx u _).mp hb
    obtain ⟨rfl, rfl, hn, hm, hs, wB, hK⟩ := hu1 _ _ _ _ _ _ g1
    obtain ⟨KB, _, _⟩ := sample_find (fun k l t hf => (find_wf wB hf).1) (FWF_nodup wB) g2
    refine TLe_struct_of_K hn hm (by omega) ?_
    intro k
    exact ((keyT_lub (s' := s') (LK k) (OWF_find wA k) (OWF_find wB k) hs (hK k) (KA k)).2.2.1 _ (KB k)).1
  · intro hau
    obtain ⟨nl'', B, m'', s'', rfl, hn, hm, hs, hK'⟩ := K_of_TLe_struct hau
    have hdu : depthOk (.struct n p nl'' B m'' s'') := (depthOk_path (a := .struct n p nl A m s) rfl).mpr (hd _ _ _)
    have g1 := ensure_struct_same mode hdu
    have hjm : joinMode m'' mode = m'' := joinMode_of_le (fun e => hm (hmode e))
    rw [hjm] at g1
    obtain ⟨_, _, _, _, hs2, wB, hK⟩ := hu1 _ _ _ _ _ _ g1
    have key : ∀ k, ∃ r', keyT o p s'' (tr (B.find k)) k (keyVals k ps) = .ok r' ∧
        KLe o p (s'' + 1) k r' (tr (B.find k)) := fun k =>
      (keyT_lub (s' := s'') (LK k) (OWF_find wA k) (OWF_find wB k) hs2 (hK k) (KA k)).2.2.2 (hK' k)
    obtain ⟨B1, g2⟩ := sample_mk (fun k => let ⟨r', h1, _⟩ := key k; ⟨r', h1⟩)
    obtain ⟨KB, _, _⟩ := sample_find (fun k l t hf => (find_wf wB hf).1) (FWF_nodup wB) g2
    refine ⟨_, (hx _ _).mpr ⟨_, _, _, _, _, _, B1, g1, g2, rfl⟩, ?_⟩
    refine TLe_struct_of_K id id (fun _ => hs (by omega)) ?_
    intro k
    obtain ⟨r', h1, h2⟩ := key k
    have := KB k
    rw [h1] at this
    rw [← Except.ok.inj this]
    exact h2

end SaModel.Lemmas.C07
