import SaModel.Lemmas.C07Tables
/-
C07, least-upper-bound argument — one more leaf table: whatever a state `q` has absorbed, every state above `q`
(`sle`) has absorbed too.  (Also the transitivity of `sle`: take `a` = the type of a state below `q`.)
-/
namespace SaModel.Lemmas.C07
open SaModel SaModel.Trace

def upRow (o : Options) (q u : LeafSt) (a : DataType) : Bool :=
  !(decide (act o q a = .ok q) && sle o q u) || decide (act o u a = .ok u)

def upTable (o : Options) : Bool :=
  (leafStates o).all fun q => (leafStates o).all fun u => (leafTypes o).all fun a => upRow o q u a

end SaModel.Lemmas.C07
