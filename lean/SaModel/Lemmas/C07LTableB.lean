import SaModel.Lemmas.C07LTable
/- kernel evaluation of the leaf table `upTable` (split so that every file builds quickly) -/
namespace SaModel.Lemmas.C07
open SaModel SaModel.Trace
set_option maxRecDepth 1000000

theorem upTable_hi : (coerceOptions.drop 4).all upTable = true := by decide +kernel

end SaModel.Lemmas.C07
