import SaModel.Lemmas.C07LStruct
/-
C07, least-upper-bound argument — the tuple family (`tuple`, `tuple_struct`, the payload of tuple variants): a tuple
node is a finite map over positions (an existing node plays `seen_samples = 1`, an `Unknown` node `0`).
-/
namespace SaModel.Lemmas.C07
open SaModel SaModel.Trace SaModel.Props.C07

theorem one_bne : ((1 : Nat) != 0) = true := rfl

theorem TLe_tuple_of_K {o : Options} {n p : String} {nl nl' : Bool} {A B : Tracers}
    (hn : nl = true → nl' = true) (hK : ∀ j, KLe o p 1 (toString j) (A.get? j) (B.get? j)) :
    TLe o (.tuple n p nl A) (.tuple n p nl' B) := by
  refine .tuple hn ?_ ?_ ?_
  · intro j h
    cases hb : B.get? j with
    | some _ => rfl
    | none =>
      have := hK j
      rw [hb] at this
      have e : A.get? j = none := this
      rw [e] at h; cases h
  · intro j a b ha hb
    have := hK j
    rw [ha, hb] at this
    exact this
  · intro j b ha hb
    have := hK j
    rw [ha, hb] at this
    have h2 : TLe o (freshField p 1 (toString j)) b := this
    rw [freshField_eq, one_bne] at h2
    cases h2 with
    | unk hu hc => exact ⟨hu, hc⟩

theorem K_of_TLe_tuple {o : Options} {n p : String} {nl : Bool} {A : Tracers} {u : Tracer}
    (h : TLe o (.tuple n p nl A) u) : ∃ nl' B, u = .tuple n p nl' B ∧ (nl = true → nl' = true) ∧
      ∀ j, KLe o p 1 (toString j) (A.get? j) (B.get? j) := by
  cases h with
  | @tuple _ _ _ nl' _ B hn hk hf hx =>
    refine ⟨_, _, rfl, hn, ?_⟩
    intro j
    cases hb : B.get? j with
    | none =>
      show A.get? j = none
      cases ha : A.get? j with
      | none => rfl
      | some _ => have := hk j (by rw [ha]; rfl); rw [hb] at this; cases this
    | some b =>
      cases ha : A.get? j with
      | none =>
        show TLe o (freshField p 1 (toString j)) b
        rw [freshField_eq, one_bne]
        obtain ⟨hu, hc⟩ := hx j b ha hb
        exact .unk hu hc
      | some a => exact hf j a b ha hb

theorem lub_tuple {o : Options} {x : SVal} {items : SVals} (hx : TupleLike o x items)
    (hc : ∀ v ∈ items.toList, Lub o v) : Lub o x := by
  intro t u a wt wu htu h
  obtain ⟨n, p, nl, ts, R, e1, r1, rfl⟩ := (hx t _).mp h
  obtain ⟨s, ts0, h0, rfl, wts, hd, hcase⟩ := ensure_tuple_facts wt e1
  have KA := tuple_sample_find h0 r1
  have LK : ∀ j, LubL o (optList (SVals.get? items j)) := fun j => lubL (fun v hv => hc v (optList_mem hv))
  have hu1 : ∀ n' p' nl' us, u.ensure_tuple .fixed items.length = .ok (.tuple n' p' nl' us) →
      ∃ s' us0, (s' = 0 → us0 = .nil) ∧ us = tupleEns s' p' items.length us0 ∧ TsWF o us0 ∧ n' = n ∧ p' = p ∧
        (nl = true → nl' = true) ∧ (s ≠ 0 → s' ≠ 0) ∧
        ((u.is_unknown_or_null = true ∧ s' = 0) ∨ (u = .tuple n' p' nl' us0 ∧ s' = 1)) ∧
        ∀ j, KLe o p s (toString j) (ts0.get? j) (us0.get? j) := by
    intro n' p' nl' us e
    obtain ⟨s', us0, h0', rfl, wus, _, hcu⟩ := ensure_tuple_facts wu e
    rcases hcase with ⟨hu, rfl, rfl, rfl, rfl⟩ | ⟨rfl, rfl⟩
    · have := h0 rfl
      subst this
      obtain ⟨ule, hcan⟩ := unknownish_le hu htu
      rcases hcu with ⟨hu', rfl, rfl, rfl, rfl⟩ | ⟨rfl, rfl⟩
      · have := h0' rfl
        subst this
        exact ⟨0, .nil, h0', rfl, wus, ule.1, ule.2.1, ule.2.2, fun h => absurd rfl h, .inl ⟨hu', rfl⟩, fun j => rfl⟩
      · simp only [ULe, Tracer.name, Tracer.path, Tracer.nullable] at ule
        obtain ⟨rfl, rfl, hn⟩ := ule
        refine ⟨1, us0, h0', rfl, wus, rfl, rfl, hn, fun h => absurd rfl h, .inr ⟨rfl, rfl⟩, ?_⟩
        intro j
        cases hb : us0.get? j with
        | none => rfl
        | some b =>
          show TLe o (freshField _ 0 (toString j)) b
          rw [freshField_eq]
          cases hcan with
          | tuple hu' hc' => exact .unk (hu' j b hb) (hc' j b hb)
    · obtain ⟨nl'', B, rfl, hn, hK⟩ := K_of_TLe_tuple htu
      rcases hcu with ⟨hu', _⟩ | ⟨e2, rfl⟩
      · simp [Tracer.is_unknown_or_null] at hu'
      · cases e2
        exact ⟨1, _, h0', rfl, wus, rfl, rfl, hn, fun _ => by omega, .inr ⟨rfl, rfl⟩, hK⟩
  have hself : ∀ j, KLe o p s (toString j) (ts0.get? j) (R.get? j) := fun j =>
    (keyT_lub (s' := s) (LK j) (TsWF_get wts j) (TsWF_get wts j) id (KLe_refl (TsWF_get wts j)) (KA j)).1
  have hs1 : s + 1 = 0 ↔ (1 : Nat) = 0 := by constructor <;> intro h <;> omega
  refine ⟨?_, ?_, ?_⟩
  · rcases hcase with ⟨hu, rfl, rfl, rfl, rfl⟩ | ⟨rfl, rfl⟩
    · have := h0 rfl
      subst this
      refine unknownish_le_mk wt hu rfl ⟨rfl, rfl, id⟩ (.tuple ?_ ?_)
      · intro j b hb
        have := hself j
        rw [hb] at this
        have h2 : TLe o (freshField t.path 0 (toString j)) b := this
        rw [freshField_eq] at h2
        cases h2 with
        | unk hu' _ => exact hu'
      · intro j b hb
        have := hself j
        rw [hb] at this
        have h2 : TLe o (freshField t.path 0 (toString j)) b := this
        rw [freshField_eq] at h2
        cases h2 with
        | unk _ hc' => exact hc'
    · exact TLe_tuple_of_K id hself
  · intro b hb
    obtain ⟨n', p', nl', us, R', g1, g2, rfl⟩ := (hx u _).mp hb
    obtain ⟨s', us0, h0', rfl, wus, rfl, rfl, hn, hs, _, hK⟩ := hu1 _ _ _ _ g1
    have KB := tuple_sample_find h0' g2
    refine TLe_tuple_of_K hn ?_
    intro j
    exact KLe_seen hs1
      ((keyT_lub (s' := s') (LK j) (TsWF_get wts j) (TsWF_get wus j) hs (hK j) (KA j)).2.2.1 _ (KB j)).1
  · intro hau
    obtain ⟨nl'', B, rfl, hn, hK'⟩ := K_of_TLe_tuple hau
    have hdu : depthOk (.tuple n p nl'' B) := (depthOk_path (a := .tuple n p nl R) rfl).mpr (hd _)
    have g1 := ensure_tuple_same items.length hdu
    obtain ⟨s', us0, h0', e2, wus, _, _, _, hs, hcu, hK⟩ := hu1 _ _ _ _ g1
    rcases hcu with ⟨hu', _⟩ | ⟨e3, rfl⟩
    · simp [Tracer.is_unknown_or_null] at hu'
    · cases e3
      have key : ∀ j, ∃ r', keyT o p 1 (B.get? j) (toString j) (optList (SVals.get? items j)) = .ok r' ∧
          KLe o p (1 + 1) (toString j) r' (B.get? j) := fun j =>
        (keyT_lub (s' := 1) (LK j) (TsWF_get wts j) (TsWF_get wus j) hs (hK j) (KA j)).2.2.2 (KLe_seen hs1.symm (hK' j))
      obtain ⟨R', g2⟩ := tuple_sample_mk h0' (fun j => let ⟨r', h1, _⟩ := key j; ⟨r', h1⟩)
      have KB := tuple_sample_find h0' g2
      refine ⟨.tuple n p nl'' R', (hx _ _).mpr ⟨n, p, nl'', _, R', g1, ?_, rfl⟩, ?_⟩
      · simpa [tupleEns] using g2
      · refine TLe_tuple_of_K id ?_
        intro j
        obtain ⟨r', h1, h2⟩ := key j
        have := KB j
        rw [h1] at this
        rw [← Except.ok.inj this]
        exact KLe_seen (by constructor <;> intro h <;> omega) h2

end SaModel.Lemmas.C07
