import SaModel.Lemmas.C07LTuple
/-
C07, least-upper-bound argument — the union family (the four enum variant kinds): variant lists by position.
-/
namespace SaModel.Lemmas.C07
open SaModel SaModel.Trace SaModel.Props.C07

theorem vget_lt {vs : Variants} {j : Nat} {x : String × Tracer} (h : vget vs j = some x) : j < vs.length := by
  apply Nat.lt_of_not_le
  intro hle
  simp [vget, Vs.get?_none.mpr hle] at h

theorem vget_upd (vs : Variants) (i : Nat) (a : String) (t : Tracer) (j : Nat) :
    vget (upd vs i a t) j = if j = i then some (a, t) else vget vs j := by
  unfold vget
  rw [upd_get]
  by_cases h : j = i
  · simp [h]
  · simp only [h, if_false]
    unfold padGet
    by_cases h1 : j < vs.length
    · simp [h1]
    · rw [Vs.get?_none.mpr (Nat.le_of_not_lt h1)]
      simp only [h1, if_false]
      by_cases h2 : j < i + 1 <;> simp [h2]

theorem slot_vget (p : String) (vs : Variants) (i : Nat) (a : String) :
    slot p vs i a = match vget vs i with
      | some (prev, t) => if prev = a then some t else none
      | none => some (Tracer.new a (p ++ "." ++ a)) := by
  unfold slot padGet vget
  by_cases h1 : i < vs.length
  · simp only [h1, if_true]
    cases hg : vs.get? i with
    | none => have := Vs.get?_none.mp hg; omega
    | some x => cases x <;> rfl
  · rw [Vs.get?_none.mpr (Nat.le_of_not_lt h1)]
    have : i < i + 1 := by omega
    simp [h1, this]

/-- the three pointwise conditions of the order on variant lists -/
def VK (o : Options) (p : String) (A B : Variants) : Prop :=
  (∀ j a x, vget A j = some (a, x) → ∃ y, vget B j = some (a, y)) ∧
  (∀ j a x b y, vget A j = some (a, x) → vget B j = some (b, y) → TLe o x y) ∧
  (∀ j b y, vget A j = none → vget B j = some (b, y) → ULe b (p ++ "." ++ b) false y ∧ Canon y)

theorem vget_nil (j : Nat) : vget .nil j = none := by simp [vget, Variants.get?]

theorem VK_upd {o : Options} {p : String} {A B : Variants} (h : VK o p A B) (i : Nat) (vn : String) {x' y' : Tracer}
    (hxy : TLe o x' y') : VK o p (upd A i vn x') (upd B i vn y') := by
  obtain ⟨hp, hf, hx⟩ := h
  refine ⟨?_, ?_, ?_⟩
  · intro j a x h1
    rw [vget_upd] at h1 ⊢
    by_cases hj : j = i
    · simp only [hj, if_true, Option.some.injEq, Prod.mk.injEq] at h1 ⊢
      exact ⟨y', h1.1, rfl⟩
    · simp only [hj, if_false] at h1 ⊢
      exact hp j a x h1
  · intro j a x b y h1 h2
    rw [vget_upd] at h1 h2
    by_cases hj : j = i
    · simp only [hj, if_true, Option.some.injEq, Prod.mk.injEq] at h1 h2
      rw [← h1.2, ← h2.2]; exact hxy
    · simp only [hj, if_false] at h1 h2
      exact hf j a x b y h1 h2
  · intro j b y h1 h2
    rw [vget_upd] at h1 h2
    by_cases hj : j = i
    · simp [hj] at h1
    · simp only [hj, if_false] at h1 h2
      exact hx j b y h1 h2

theorem new_le_inv {o : Options} {n p : String} {b : Tracer} (h : TLe o (Tracer.new n p) b) : ULe n p false b ∧ Canon b := by
  unfold Tracer.new at h
  cases h with
  | unk hu hc => exact ⟨hu, hc⟩

theorem VK_self_upd {o : Options} {p : String} {A : Variants} (wA : VWF o A) {i : Nat} {vn : String} {st x' : Tracer}
    (hs : slot p A i vn = some st) (hle : TLe o st x') : VK o p A (upd A i vn x') := by
  rw [slot_vget] at hs
  refine ⟨?_, ?_, ?_⟩
  · intro j a x h1
    rw [vget_upd]
    by_cases hj : j = i
    · subst hj
      rw [h1] at hs
      simp only at hs
      by_cases ha : a = vn
      · simp [ha]
      · simp [ha] at hs
    · simp only [hj, if_false]; exact ⟨x, h1⟩
  · intro j a x b y h1 h2
    rw [vget_upd] at h2
    by_cases hj : j = i
    · subst hj
      rw [h1] at hs
      simp only [if_true, Option.some.injEq, Prod.mk.injEq] at hs h2
      by_cases ha : a = vn
      · simp only [ha, if_true, Option.some.injEq] at hs
        rw [hs, ← h2.2]; exact hle
      · simp [ha] at hs
    · simp only [hj, if_false] at h2
      rw [h1] at h2
      simp only [Option.some.injEq, Prod.mk.injEq] at h2
      rw [← h2.2]
      exact TLe_refl o x (vget_wf wA h1)
  · intro j b y h1 h2
    rw [vget_upd] at h2
    by_cases hj : j = i
    · subst hj
      rw [h1] at hs
      simp only [if_true, Option.some.injEq, Prod.mk.injEq] at hs h2
      rw [← hs] at hle
      rw [← h2.1, ← h2.2]
      exact new_le_inv hle
    · simp only [hj, if_false] at h2
      rw [h1] at h2; cases h2

theorem VK_upd_self {o : Options} {p : String} {B : Variants} (wB : VWF o B) {i : Nat} {vn : String} {y y' : Tracer}
    (hb : vget B i = some (vn, y)) (hle : TLe o y' y) : VK o p (upd B i vn y') B := by
  refine ⟨?_, ?_, ?_⟩
  · intro j a x h1
    rw [vget_upd] at h1
    by_cases hj : j = i
    · simp only [hj, if_true, Option.some.injEq, Prod.mk.injEq] at h1
      rw [hj, ← h1.1]; exact ⟨y, hb⟩
    · simp only [hj, if_false] at h1; exact ⟨x, h1⟩
  · intro j a x b z h1 h2
    rw [vget_upd] at h1
    by_cases hj : j = i
    · simp only [hj, if_true, Option.some.injEq, Prod.mk.injEq] at h1
      rw [hj, hb] at h2
      simp only [Option.some.injEq, Prod.mk.injEq] at h2
      rw [← h1.2, ← h2.2]; exact hle
    · simp only [hj, if_false] at h1
      rw [h1] at h2
      simp only [Option.some.injEq, Prod.mk.injEq] at h2
      rw [← h2.2]
      exact TLe_refl o x (vget_wf wB h1)
  · intro j b z h1 h2
    rw [vget_upd] at h1
    by_cases hj : j = i
    · simp [hj] at h1
    · simp only [hj, if_false] at h1
      rw [h1] at h2; cases h2

theorem slot_le {o : Options} {p : String} {A B : Variants} (h : VK o p A B) {i : Nat} {vn : String} {st su : Tracer}
    (hs : slot p A i vn = some st) (hs' : slot p B i vn = some su) : TLe o st su := by
  obtain ⟨hp, hf, hx⟩ := h
  rw [slot_vget] at hs hs'
  cases va : vget A i with
  | none =>
    rw [va] at hs
    simp only [Option.some.injEq] at hs
    cases vb : vget B i with
    | none =>
      rw [vb] at hs'
      simp only [Option.some.injEq] at hs'
      rw [← hs, ← hs']
      exact .unk ⟨rfl, rfl, nofun⟩ .unknown
    | some by' =>
      obtain ⟨b, y⟩ := by'
      rw [vb] at hs'
      simp only at hs'
      by_cases hb : b = vn
      · simp only [hb, if_true, Option.some.injEq] at hs'
        obtain ⟨u1, u2⟩ := hx i b y va vb
        rw [← hs, ← hs', ← hb]
        exact .unk u1 u2
      · simp [hb] at hs'
  | some ax =>
    obtain ⟨a, x⟩ := ax
    rw [va] at hs
    simp only at hs
    by_cases ha : a = vn
    · simp only [ha, if_true, Option.some.injEq] at hs
      obtain ⟨y, vb⟩ := hp i a x va
      rw [vb] at hs'
      simp only [ha, if_true, Option.some.injEq] at hs'
      rw [← hs, ← hs']
      exact hf i a x a y va vb
    · simp [ha] at hs

theorem lub_union {o : Options} {x : SVal} {idx : Nat} {vn : String} {payload : SVal}
    (hx : UnionLike o x idx vn payload) (hp : Lub o payload) : Lub o x := by
  intro t u a wt wu htu h
  rw [hx t] at h
  rw [hx u]
  obtain ⟨n, p, nl, A, st, vt', e1, hl, hs, ha, rfl⟩ := variantDo_ok.mp h
  obtain ⟨wA, hd, hcase⟩ := ensure_union_facts wt e1
  have wst := slot_wf wA hs
  have wvt' := absorb_wf o wst ha
  have L0 := (hp st st vt' wst wst (TLe_refl o _ wst) ha).1
  have hu1 : ∀ n' p' nl' B, u.ensure_union [] = .ok (.union n' p' nl' B) →
      n' = n ∧ p' = p ∧ (nl = true → nl' = true) ∧ VWF o B ∧ A.length ≤ B.length ∧ VK o p A B := by
    intro n' p' nl' B e
    obtain ⟨wB, _, _⟩ := ensure_union_facts wu e
    obtain ⟨hdu, hcu⟩ := ensure_union_inv e
    obtain ⟨_, hct⟩ := ensure_union_inv e1
    rcases hct with ⟨hu, e2⟩ | ⟨n0, p0, nl0, A0, rfl, e2⟩
    · cases e2
      obtain ⟨ule, hcan⟩ := unknownish_le hu htu
      have vk0 : ∀ (B : Variants), (∀ j b y, vget B j = some (b, y) → ULe b (t.path ++ "." ++ b) false y ∧ Canon y) →
          VK o t.path .nil B := by
        intro B hB
        refine ⟨?_, ?_, ?_⟩
        · intro j a x h1; rw [vget_nil] at h1; cases h1
        · intro j a x b y h1; rw [vget_nil] at h1; cases h1
        · intro j b y _ h2; exact hB j b y h2
      rcases hcu with ⟨_, e3⟩ | ⟨n1, p1, nl1, B0, rfl, e3⟩
      · cases e3
        exact ⟨ule.1, ule.2.1, ule.2.2, wB, Nat.le_refl _, vk0 _ (fun j b y h => by rw [vget_nil] at h; cases h)⟩
      · cases e3
        simp only [ULe, Tracer.name, Tracer.path, Tracer.nullable] at ule
        obtain ⟨rfl, rfl, hn⟩ := ule
        cases hcan with
        | union hu' hc' =>
          exact ⟨rfl, rfl, hn, wB, Nat.zero_le _, vk0 _ (fun j b y h => ⟨hu' j b y h, hc' j b y h⟩)⟩
    · cases e2
      cases htu with
      | union hn hlen h1 h2 h3 =>
        rw [ensure_union_same hdu] at e
        cases e
        exact ⟨rfl, rfl, hn, wB, hlen, h1, h2, h3⟩
  refine ⟨?_, ?_, ?_⟩
  · obtain ⟨_, hct⟩ := ensure_union_inv e1
    rcases hct with ⟨hu, e2⟩ | ⟨n0, p0, nl0, A0, rfl, e2⟩
    · cases e2
      have hst : st = Tracer.new vn (t.path ++ "." ++ vn) := by
        rw [slot_vget, vget_nil] at hs
        simp only [Option.some.injEq] at hs
        exact hs.symm
      rw [hst] at L0
      obtain ⟨u1, u2⟩ := new_le_inv L0
      refine unknownish_le_mk wt hu rfl ⟨rfl, rfl, id⟩ (.union ?_ ?_)
      · intro j a b hb
        rw [vget_upd, vget_nil] at hb
        by_cases hj : j = idx
        · simp only [hj, if_true, Option.some.injEq, Prod.mk.injEq] at hb
          rw [← hb.1, ← hb.2]; exact u1
        · simp [hj] at hb
      · intro j a b hb
        rw [vget_upd, vget_nil] at hb
        by_cases hj : j = idx
        · simp only [hj, if_true, Option.some.injEq, Prod.mk.injEq] at hb
          rw [← hb.2]; exact u2
        · simp [hj] at hb
    · cases e2
      obtain ⟨h1, h2, h3⟩ := VK_self_upd (p := p) wA hs L0
      exact .union id (by rw [upd_length]; omega) h1 h2 h3
  · intro b hb
    obtain ⟨n', p', nl', B, su, vu', g1, _, gs, ga, rfl⟩ := variantDo_ok.mp hb
    obtain ⟨rfl, rfl, hn, wB, hlen, vk⟩ := hu1 _ _ _ _ g1
    have hsu := slot_le vk hs gs
    have L := (hp st su vt' wst (slot_wf wB gs) hsu ha).2.1 vu' ga
    obtain ⟨h1, h2, h3⟩ := VK_upd vk idx vn L
    exact .union hn (by rw [upd_length, upd_length]; omega) h1 h2 h3
  · intro hau
    cases hau with
    | @union _ _ _ nl'' _ B hn hlen h1 h2 h3 =>
      have hdu : depthOk (.union n p nl'' B) := (depthOk_path (a := .union n p nl A) rfl).mpr (hd _)
      have g1 := ensure_union_same hdu
      obtain ⟨_, _, _, wB, _, vk⟩ := hu1 _ _ _ _ g1
      have hv : vget (upd A idx vn vt') idx = some (vn, vt') := by rw [vget_upd]; simp
      obtain ⟨y, hy⟩ := h1 idx vn vt' hv
      have hvy := h2 idx vn vt' vn y hv hy
      have gs : slot p B idx vn = some y := by rw [slot_vget, hy]; simp
      have hsy := slot_le vk hs gs
      have wy := vget_wf wB hy
      obtain ⟨vu', ga, gle⟩ := (hp st y vt' wst wy hsy ha).2.2 hvy
      refine ⟨_, variantDo_ok.mpr ⟨n, p, nl'', B, y, vu', g1, hl, gs, ga, rfl⟩, ?_⟩
      obtain ⟨k1, k2, k3⟩ := VK_upd_self (p := p) wB hy gle
      have := vget_lt hy
      exact .union id (by rw [upd_length]; omega) k1 k2 k3

end SaModel.Lemmas.C07
