import SaModel.Lemmas.C07Gen
/-
C07, translation obligation, symbolic form.  Neither the interpreter of the generated arms nor the hand-written model
looks INSIDE the two data types: patterns see the constructors, guards see whether the types are equal, whether the
strategies are equal and whether the time zones differ, results copy `prev_ty` / `curr_ty` or name a constant.  So both
factor through the finite observation `Abs`, and agreement on all observations (a finite table) is agreement on ALL
inputs.
-/
namespace SaModel.Lemmas.C07Gen
open SaModel SaModel.Trace SaModel.Trace.CoerceTable

/-- what patterns and guards can observe of `(prev, curr)` -/
structure Abs where
  cp : Ctor
  cc : Ctor
  tyEq : Bool
  stEq : Bool
  tzNe : Bool
deriving Repr, DecidableEq

def abs (p : Prev) (c : Curr) : Abs :=
  { cp := p.1.ctorOf, cc := c.1.ctorOf, tyEq := decide (p.1 = c.1), stEq := decide (p.2.2 = c.2), tzNe := tzOf p.1 != tzOf c.1 }

def patMatches : TyPat → Ctor → Bool
  | .any, _ => true
  | .ctors cs, k => Ctor.elem k cs

def atomHolds (o : Options) (a : Abs) : GuardAtom → Bool
  | .opt f => f.get o
  | .tyEq => a.tyEq
  | .stEq => a.stEq
  | .tzNe => a.tzNe

/-- the result descriptor of the first arm that fires on an observation (the guard is looked at first: it is the
cheaper test, and the conjunction of total Boolean tests does not depend on their order) -/
def selectArm : List Arm → Options → Abs → Option Res
  | [], _, _ => none
  | x :: rest, o, a =>
    if x.guard.all (atomHolds o a) && (patMatches x.prev a.cp && patMatches x.curr a.cc) then some x.res
    else selectArm rest o a

theorem evalArms_select (o : Options) (p : Prev) (c : Curr) :
    (as : List Arm) → evalArms as o p c =
      match selectArm as o (abs p c) with
      | some r => r.eval o p c
      | none => SaModel.panic "coerce table: no arm matches"
  | [] => rfl
  | x :: rest => by
    have hg : x.guard.all (·.holds o p c) = x.guard.all (atomHolds o (abs p c)) := by
      first | rfl | (congr 1; funext g; cases g <;> rfl)
    have hf : x.fires o p c = (x.guard.all (atomHolds o (abs p c)) && (patMatches x.prev (abs p c).cp && patMatches x.curr (abs p c).cc)) := by
      unfold Arm.fires; rw [hg, Bool.and_comm]
      cases x.prev <;> cases x.curr <;> rfl
    simp only [evalArms, selectArm, ← hf]
    split
    · rfl
    · exact evalArms_select o p c rest

/-! ### the hand-written model on observations -/

/-! the classes of constructors the model distinguishes, as ranges of `Ctor.toNat` (see `Ctor.toNat` for why not as
`match` with a wild card) -/
def cUnsigned (k : Ctor) : Bool := Nat.ble 6 k.toNat && Nat.ble k.toNat 9
def cSigned (k : Ctor) : Bool := Nat.ble 2 k.toNat && Nat.ble k.toNat 5
def cFloat (k : Ctor) : Bool := Nat.ble 11 k.toNat && Nat.ble k.toNat 12
def cInt (k : Ctor) : Bool := cSigned k || cUnsigned k
def cToStr (k : Ctor) : Bool := Ctor.beq k .Boolean || cInt k || cFloat k

/-- `Trace.coerce_primitive_type`, condition for condition, on an observation (proved equal to it below) -/
def coerceSym (o : Options) (a : Abs) : Res :=
  if a.tyEq && a.stEq then .ok .curr .prev .curr
  else if Ctor.beq a.cp .Null then .ok .curr (.const true) .curr
  else if Ctor.beq a.cc .Null then .ok .prev (.const true) .prev
  else if cUnsigned a.cp && cUnsigned a.cc && o.coerce_numbers then .ok (.ctor .UInt64) .prev .none
  else if cSigned a.cp && cSigned a.cc && o.coerce_numbers then .ok (.ctor .Int64) .prev .none
  else if cSigned a.cp && cUnsigned a.cc && o.coerce_numbers then .ok (.ctor .Int64) .prev .none
  else if cUnsigned a.cp && cSigned a.cc && o.coerce_numbers then .ok (.ctor .Int64) .prev .none
  else if cFloat a.cp && cFloat a.cc && o.coerce_numbers then .ok (.ctor .Float64) .prev .none
  else if cInt a.cp && cFloat a.cc && o.coerce_numbers then .ok (.ctor .Float64) .prev .none
  else if cFloat a.cp && cInt a.cc && o.coerce_numbers then .ok (.ctor .Float64) .prev .none
  else if Ctor.beq a.cp .LargeUtf8 && cToStr a.cc && o.allow_to_string then .ok (.ctor .LargeUtf8) .prev .none
  else if cToStr a.cp && Ctor.beq a.cc .LargeUtf8 && o.allow_to_string then .ok (.ctor .LargeUtf8) .prev .none
  else if Ctor.beq a.cp .Utf8 && cToStr a.cc && o.allow_to_string then .ok (.ctor .Utf8) .prev .none
  else if cToStr a.cp && Ctor.beq a.cc .Utf8 && o.allow_to_string then .ok (.ctor .Utf8) .prev .none
  else if Ctor.beq a.cp .Timestamp && Ctor.beq a.cc .LargeUtf8 then .ok (.ctor .LargeUtf8) .prev .none
  else if Ctor.beq a.cp .LargeUtf8 && Ctor.beq a.cc .Timestamp then .ok (.ctor .LargeUtf8) .prev .none
  else if Ctor.beq a.cp .Timestamp && Ctor.beq a.cc .Utf8 then .ok (.ctor .Utf8) .prev .none
  else if Ctor.beq a.cp .Utf8 && Ctor.beq a.cc .Timestamp then .ok (.ctor .Utf8) .prev .none
  else if Ctor.beq a.cp .Timestamp && Ctor.beq a.cc .Timestamp && a.tzNe then .ok .stringType .prev .none
  else .fail

theorem isUnsigned_c (d : DataType) : isUnsigned d = cUnsigned d.ctorOf := by cases d <;> rfl
theorem isSigned_c (d : DataType) : isSigned d = cSigned d.ctorOf := by cases d <;> rfl
theorem isFloat_c (d : DataType) : isFloat3264 d = cFloat d.ctorOf := by cases d <;> rfl
theorem isInt_c (d : DataType) : isInt d = cInt d.ctorOf := by cases d <;> rfl
theorem isToStr_c (d : DataType) : isToStringSource d = cToStr d.ctorOf := by cases d <;> rfl
theorem isLargeUtf8_c (d : DataType) : isLargeUtf8 d = Ctor.beq d.ctorOf .LargeUtf8 := by cases d <;> rfl
theorem isUtf8_c (d : DataType) : isUtf8 d = Ctor.beq d.ctorOf .Utf8 := by cases d <;> rfl
theorem isTimestamp_c (d : DataType) : isTimestamp d = Ctor.beq d.ctorOf .Timestamp := by cases d <;> rfl
theorem eq_null_c (d : DataType) : (d = .null) = (Ctor.beq d.ctorOf .Null = true) := by cases d <;> simp [DataType.ctorOf, Ctor.beq, Ctor.toNat]

/-- **the model factors through the observation**, for all inputs -/
theorem coerce_eq_sym (o : Options) (p : DataType) (nl : Bool) (ps : Option Strategy) (c : DataType) (cs : Option Strategy) :
    coerce_primitive_type o p nl ps c cs = (coerceSym o (abs (p, nl, ps) (c, cs))).eval o (p, nl, ps) (c, cs) := by
  unfold coerce_primitive_type coerceSym abs
  simp only [isUnsigned_c, isSigned_c, isFloat_c, isInt_c, isToStr_c, isLargeUtf8_c, isUtf8_c, isTimestamp_c, eq_null_c,
    apply_ite (Res.eval o (p, nl, ps) (c, cs)), Bool.and_eq_true, decide_eq_true_eq]
  simp only [Res.eval, Ctor.unit?]
  rfl

/-! ### the finite table over all observations -/

/-- equality of result descriptors, fast in the kernel (`Ctor.beq`) -/
def resEq : Res → Res → Bool
  | .fail, .fail => true
  | .ok t1 n1 s1, .ok t2 n2 s2 =>
    (match t1, t2 with
      | .prev, .prev => true
      | .curr, .curr => true
      | .stringType, .stringType => true
      | .ctor a, .ctor b => Ctor.beq a b
      | _, _ => false) &&
    (match n1, n2 with
      | .prev, .prev => true
      | .const a, .const b => a == b
      | _, _ => false) &&
    (match s1, s2 with
      | .prev, .prev => true
      | .curr, .curr => true
      | .none, .none => true
      | _, _ => false)
  | _, _ => false

theorem resEq_sound {a b : Res} (h : resEq a b = true) : a = b := by
  cases a with
  | fail => cases b <;> simp [resEq] at h ⊢
  | ok t1 n1 s1 =>
    cases b with
    | fail => simp [resEq] at h
    | ok t2 n2 s2 =>
      simp only [resEq, Bool.and_eq_true] at h
      obtain ⟨⟨ht, hn⟩, hs⟩ := h
      have e1 : t1 = t2 := by
        cases t1 <;> cases t2 <;> simp at ht ⊢
        exact Ctor.beq_iff.mp ht
      have e2 : n1 = n2 := by
        cases n1 <;> cases n2 <;> simp at hn ⊢
        exact hn
      have e3 : s1 = s2 := by
        cases s1 <;> cases s2 <;> simp at hs ⊢
      rw [e1, e2, e3]

/-- the observations of the two guard atoms about the data types that can occur together with a pair of constructors:
equal types have equal constructors and equal time zones; `tzOf` is `none` off `Timestamp` -/
def tyObs (cp cc : Ctor) : List (Bool × Bool) :=
  if Ctor.beq cp cc then (if Ctor.beq cp .Timestamp then [(true, false), (false, false), (false, true)] else [(true, false), (false, false)])
  else (if Ctor.beq cp .Timestamp || Ctor.beq cc .Timestamp then [(false, false), (false, true)] else [(false, false)])

/-- every observation that `abs` can return (`abs_mem`) -/
def allAbs : List Abs :=
  Ctor.all.flatMap fun cp => Ctor.all.flatMap fun cc => [false, true].flatMap fun s =>
    (tyObs cp cc).map fun tz => { cp := cp, cc := cc, tyEq := tz.1, stEq := s, tzNe := tz.2 }

theorem tzOf_none {d : DataType} (h : Ctor.beq d.ctorOf .Timestamp = false) : tzOf d = none := by
  cases d <;> first | rfl | (simp [DataType.ctorOf, Ctor.beq, Ctor.toNat] at h)

theorem abs_mem (p : Prev) (c : Curr) : abs p c ∈ allAbs := by
  simp only [allAbs, List.mem_flatMap, List.mem_map]
  refine ⟨p.1.ctorOf, Ctor.mem_all _, c.1.ctorOf, Ctor.mem_all _, decide (p.2.2 = c.2), by cases decide (p.2.2 = c.2) <;> simp,
    (decide (p.1 = c.1), tzOf p.1 != tzOf c.1), ?_, rfl⟩
  unfold tyObs
  by_cases he : p.1 = c.1
  · have h1 : Ctor.beq p.1.ctorOf c.1.ctorOf = true := Ctor.beq_iff.mpr (by rw [he])
    have h2 : (tzOf p.1 != tzOf c.1) = false := by rw [he]; simp
    rw [h1, h2, decide_eq_true he]
    cases Ctor.beq p.1.ctorOf .Timestamp <;> simp
  · rw [decide_eq_false he]
    cases h1 : Ctor.beq p.1.ctorOf c.1.ctorOf
    · cases hp : Ctor.beq p.1.ctorOf .Timestamp <;> cases hc : Ctor.beq c.1.ctorOf .Timestamp
      · rw [tzOf_none hp, tzOf_none hc]; simp
      all_goals (cases (tzOf p.1 != tzOf c.1) <;> simp)
    · cases hp : Ctor.beq p.1.ctorOf .Timestamp
      · have hc : Ctor.beq c.1.ctorOf .Timestamp = false := by rw [← Ctor.beq_iff.mp h1]; exact hp
        rw [tzOf_none hp, tzOf_none hc]; simp
      · cases (tzOf p.1 != tzOf c.1) <;> simp

/-- one row: on this observation the first arm of the generated list that fires carries the result descriptor of the
model's branch -/
def symRow (as : List Arm) (o : Options) (a : Abs) : Bool :=
  match selectArm as o a with
  | some r => resEq r (coerceSym o a)
  | none => false

theorem symRow_spec {as : List Arm} {o : Options} {a : Abs} (h : symRow as o a = true) :
    selectArm as o a = some (coerceSym o a) := by
  unfold symRow at h
  split at h
  · rename_i r hr; rw [hr, resEq_sound h]
  · cases h

def symTable (as : List Arm) (o : Options) : Bool := allAbs.all (symRow as o)

/-- the 2^3 settings of the options `coerce_primitive_type` reads, by number -/
def optionAt (cn ts lu : Bool) : Options := { coerce_numbers := cn, allow_to_string := ts, string_as_large_utf8 := lu }

theorem coerceView_eq_optionAt (o : Options) :
    o.coerceView = optionAt o.coerce_numbers o.allow_to_string o.string_as_large_utf8 := rfl

end SaModel.Lemmas.C07Gen
