import SaModel.Lemmas.C07Sym
/- kernel evaluation of the symbolic table for one option setting (one file per setting so that every file builds quickly) -/
namespace SaModel.Lemmas.C07Gen
open SaModel SaModel.Trace SaModel.Generated.CoerceArms
set_option maxRecDepth 1000000

/-- 36 × 36 constructors × the observations of the guards that can occur with them (`allAbs`): 2 806 rows -/
theorem symTable_1 : symTable arms (optionAt false false true) = true := by decide +kernel

end SaModel.Lemmas.C07Gen
