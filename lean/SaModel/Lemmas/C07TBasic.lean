import SaModel.Lemmas.C07TDefs
/-
C07, tree level — basic facts: `TEq` is reflexive on well-formed tracers and transitive, `mark_nullable` respects
`TEq` / `WF` and commutes with `absorb` (every constructor), leaf-state closure facts.
-/
namespace SaModel.Lemmas.C07
open SaModel SaModel.Trace SaModel.Props.C07

/-! ### `FSub` through lookups -/

theorem find_mem {fs : TFields} {k : String} {l : Nat} {t : Tracer} (h : fs.find k = some (l, t)) :
    (k, l, t) ∈ fs.toList := by
  match fs with
  | .nil => simp [TFields.find] at h
  | .cons n l0 t0 r =>
    simp only [TFields.find] at h
    simp only [TFields.toList, List.mem_cons]
    by_cases hn : n = k
    · simp only [hn, if_true, Option.some.injEq, Prod.mk.injEq] at h
      obtain ⟨rfl, rfl⟩ := h
      exact .inl (by rw [hn])
    · simp only [hn, if_false] at h
      exact .inr (find_mem h)

theorem FSub_mem : ∀ {a b : TFields}, FSub a b → ∀ {k l t}, (k, l, t) ∈ a.toList →
    ∃ l' t', b.find k = some (l', t') ∧ TEq t t'
  | .nil, _, _, _, _, _, h => by simp [TFields.toList] at h
  | .cons n l0 t0 r, b, hs, k, l, t, h => by
    rw [FSub] at hs
    simp only [TFields.toList, List.mem_cons, Prod.mk.injEq] at h
    rcases h with ⟨rfl, rfl, rfl⟩ | h
    · exact hs.1
    · exact FSub_mem hs.2 h

theorem FSub_find {a b : TFields} (hs : FSub a b) {k l t} (h : a.find k = some (l, t)) :
    ∃ l' t', b.find k = some (l', t') ∧ TEq t t' := FSub_mem hs (find_mem h)

theorem FSub_of_mem : ∀ {a b : TFields}, (∀ k l t, (k, l, t) ∈ a.toList → ∃ l' t', b.find k = some (l', t') ∧ TEq t t') →
    FSub a b
  | .nil, _, _ => by rw [FSub]; trivial
  | .cons n l0 t0 r, b, h => by
    rw [FSub]
    refine ⟨h n l0 t0 (by simp [TFields.toList]), FSub_of_mem ?_⟩
    intro k l t hm
    exact h k l t (by simp [TFields.toList, hm])

/-- entries of a field list with distinct names are found by `find` -/
theorem mem_find : ∀ {o : Options} {s : Nat} {fs : TFields}, FWF o s fs → ∀ {k l t}, (k, l, t) ∈ fs.toList →
    fs.find k = some (l, t) ∧ l < s ∧ WF o t ∧ t.name = k
  | _, _, .nil, _, _, _, _, h => by simp [TFields.toList] at h
  | o, s, .cons n l0 t0 r, hw, k, l, t, h => by
    rw [FWF] at hw
    simp only [TFields.toList, List.mem_cons, Prod.mk.injEq] at h
    rcases h with ⟨rfl, rfl, rfl⟩ | h
    · exact ⟨by simp [TFields.find], hw.1, hw.2.2.2.1, hw.2.2.1⟩
    · have ih := mem_find hw.2.2.2.2 h
      refine ⟨?_, ih.2⟩
      simp only [TFields.find]
      by_cases hn : n = k
      · subst hn; rw [hw.2.1] at ih; cases ih.1
      · simp only [hn, if_false]; exact ih.1

theorem find_wf {o : Options} {s : Nat} {fs : TFields} (hw : FWF o s fs) {k l t} (h : fs.find k = some (l, t)) :
    l < s ∧ WF o t := ⟨(mem_find hw (find_mem h)).2.1, (mem_find hw (find_mem h)).2.2.1⟩

theorem find_name {o : Options} {s : Nat} {fs : TFields} (hw : FWF o s fs) {k l t} (h : fs.find k = some (l, t)) :
    t.name = k := (mem_find hw (find_mem h)).2.2.2

/-- with distinct names `FSub` is pointwise on lookups -/
theorem FSub_of_find {o : Options} {s : Nat} {a b : TFields} (hw : FWF o s a)
    (h : ∀ k l t, a.find k = some (l, t) → ∃ l' t', b.find k = some (l', t') ∧ TEq t t') : FSub a b :=
  FSub_of_mem fun k l t hm => h k l t (mem_find hw hm).1

/-- `FWF` from lookups: distinct names + every found entry is fine -/
theorem FWF_of : ∀ {o : Options} {s : Nat} {fs : TFields}, fs.names.Nodup →
    (∀ k l t, (k, l, t) ∈ fs.toList → l < s ∧ WF o t ∧ t.name = k) → FWF o s fs
  | _, _, .nil, _, _ => by rw [FWF]; trivial
  | o, s, .cons n l0 t0 r, hd, h => by
    rw [FWF]
    simp only [TFields.names, List.nodup_cons] at hd
    have h0 := h n l0 t0 (by simp [TFields.toList])
    refine ⟨h0.1, find_names.mpr hd.1, h0.2.2, h0.2.1, FWF_of hd.2 ?_⟩
    intro k l t hm
    exact h k l t (by simp [TFields.toList, hm])

theorem FWF_nodup : ∀ {o : Options} {s : Nat} {fs : TFields}, FWF o s fs → fs.names.Nodup
  | _, _, .nil, _ => by simp [TFields.names]
  | o, s, .cons n l0 t0 r, hw => by
    rw [FWF] at hw
    simp only [TFields.names, List.nodup_cons]
    exact ⟨find_names.mp hw.2.1, FWF_nodup hw.2.2.2.2⟩

/-! ### reflexivity, transitivity -/

mutual
theorem TEq_refl (o : Options) : ∀ t, WF o t → TEq t t
  | .unknown _ _ _, _ => by rw [TEq]
  | .primitive _ _ _ _ _, _ => by rw [TEq]
  | .list _ _ _ i, h => by rw [TEq]; rw [WF] at h; exact ⟨i, rfl, TEq_refl o i h⟩
  | .map _ _ _ k v, h => by rw [TEq]; rw [WF] at h; exact ⟨k, v, rfl, TEq_refl o k h.1, TEq_refl o v h.2⟩
  | .struct _ _ _ fs _ s, h => by
    rw [TEq]; rw [WF] at h
    exact ⟨fs, s, rfl, Iff.rfl, fun _ => rfl, FSub_refl o s fs fs (fun _ _ _ hm => ⟨(mem_find h hm).2.1, (mem_find h hm).2.2.1⟩) (fun _ _ _ hm => (mem_find h hm).1)⟩
  | .tuple _ _ _ ts, h => by rw [TEq]; rw [WF] at h; exact ⟨ts, rfl, TsEq_refl o ts h⟩
  | .union _ _ _ vs, h => by rw [TEq]; rw [WF] at h; exact ⟨vs, rfl, VEq_refl o vs h⟩
theorem TsEq_refl (o : Options) : ∀ ts, TsWF o ts → TsEq ts ts
  | .nil, _ => by rw [TsEq]
  | .cons t r, h => by rw [TsEq]; rw [TsWF] at h; exact ⟨t, r, rfl, TEq_refl o t h.1, TsEq_refl o r h.2⟩
theorem FSub_refl (o : Options) (s : Nat) : ∀ (fs big : TFields), (∀ k l t, (k, l, t) ∈ fs.toList → l < s ∧ WF o t) →
    (∀ k l t, (k, l, t) ∈ fs.toList → big.find k = some (l, t)) → FSub fs big
  | .nil, _, _, _ => by rw [FSub]; trivial
  | .cons n l t r, big, hw, h => by
    rw [FSub]
    have hm : (n, l, t) ∈ (TFields.cons n l t r).toList := by simp [TFields.toList]
    refine ⟨⟨l, t, h n l t hm, TEq_refl o t (hw n l t hm).2⟩, FSub_refl o s r big ?_ ?_⟩
    · intro k l' t' hm'; exact hw k l' t' (by simp [TFields.toList, hm'])
    · intro k l' t' hm'; exact h k l' t' (by simp [TFields.toList, hm'])
theorem VEq_refl (o : Options) : ∀ vs, VWF o vs → VEq vs vs
  | .nil, _ => by rw [VEq]
  | .absent r, h => by rw [VEq]; rw [VWF] at h; exact ⟨r, rfl, VEq_refl o r h⟩
  | .present n t r, h => by rw [VEq]; rw [VWF] at h; exact ⟨t, r, rfl, TEq_refl o t h.1, VEq_refl o r h.2⟩
end

mutual
theorem TEq_trans : ∀ (a b c : Tracer), TEq a b → TEq b c → TEq a c
  | .unknown _ _ _, b, c, h1, h2 => by rw [TEq] at h1; subst h1; rw [TEq] at h2; rw [TEq]; exact h2
  | .primitive _ _ _ _ _, b, c, h1, h2 => by rw [TEq] at h1; subst h1; rw [TEq] at h2; rw [TEq]; exact h2
  | .list _ _ _ i, b, c, h1, h2 => by
    rw [TEq] at h1; obtain ⟨i', rfl, h1⟩ := h1
    rw [TEq] at h2; obtain ⟨i'', rfl, h2⟩ := h2
    rw [TEq]; exact ⟨i'', rfl, TEq_trans i i' i'' h1 h2⟩
  | .map _ _ _ k v, b, c, h1, h2 => by
    rw [TEq] at h1; obtain ⟨k', v', rfl, h1, h1'⟩ := h1
    rw [TEq] at h2; obtain ⟨k'', v'', rfl, h2, h2'⟩ := h2
    rw [TEq]; exact ⟨k'', v'', rfl, TEq_trans k k' k'' h1 h2, TEq_trans v v' v'' h1' h2'⟩
  | .struct _ _ _ fs _ s, b, c, h1, h2 => by
    rw [TEq] at h1; obtain ⟨fs', s', rfl, hs1, hk1, h1⟩ := h1
    rw [TEq] at h2; obtain ⟨fs'', s'', rfl, hs2, hk2, h2⟩ := h2
    rw [TEq]
    exact ⟨fs'', s'', rfl, hs1.trans hs2, fun k => (hk1 k).trans (hk2 k), FSub_trans fs fs' fs'' h1 h2⟩
  | .tuple _ _ _ ts, b, c, h1, h2 => by
    rw [TEq] at h1; obtain ⟨ts', rfl, h1⟩ := h1
    rw [TEq] at h2; obtain ⟨ts'', rfl, h2⟩ := h2
    rw [TEq]; exact ⟨ts'', rfl, TsEq_trans ts ts' ts'' h1 h2⟩
  | .union _ _ _ vs, b, c, h1, h2 => by
    rw [TEq] at h1; obtain ⟨vs', rfl, h1⟩ := h1
    rw [TEq] at h2; obtain ⟨vs'', rfl, h2⟩ := h2
    rw [TEq]; exact ⟨vs'', rfl, VEq_trans vs vs' vs'' h1 h2⟩
theorem TsEq_trans : ∀ (a b c : Tracers), TsEq a b → TsEq b c → TsEq a c
  | .nil, b, c, h1, h2 => by rw [TsEq] at h1; subst h1; rw [TsEq] at h2; rw [TsEq]; exact h2
  | .cons t r, b, c, h1, h2 => by
    rw [TsEq] at h1; obtain ⟨t', r', rfl, h1, h1'⟩ := h1
    rw [TsEq] at h2; obtain ⟨t'', r'', rfl, h2, h2'⟩ := h2
    rw [TsEq]; exact ⟨t'', r'', rfl, TEq_trans t t' t'' h1 h2, TsEq_trans r r' r'' h1' h2'⟩
theorem FSub_trans : ∀ (a b c : TFields), FSub a b → FSub b c → FSub a c
  | .nil, _, _, _, _ => by rw [FSub]; trivial
  | .cons n l t r, b, c, h1, h2 => by
    rw [FSub] at h1
    obtain ⟨⟨l', t', hf, he⟩, h1'⟩ := h1
    obtain ⟨l'', t'', hf', he'⟩ := FSub_find h2 hf
    rw [FSub]
    exact ⟨⟨l'', t'', hf', TEq_trans t t' t'' he he'⟩, FSub_trans r b c h1' h2⟩
theorem VEq_trans : ∀ (a b c : Variants), VEq a b → VEq b c → VEq a c
  | .nil, b, c, h1, h2 => by rw [VEq] at h1; subst h1; rw [VEq] at h2; rw [VEq]; exact h2
  | .absent r, b, c, h1, h2 => by
    rw [VEq] at h1; obtain ⟨r', rfl, h1⟩ := h1
    rw [VEq] at h2; obtain ⟨r'', rfl, h2⟩ := h2
    rw [VEq]; exact ⟨r'', rfl, VEq_trans r r' r'' h1 h2⟩
  | .present n t r, b, c, h1, h2 => by
    rw [VEq] at h1; obtain ⟨t', r', rfl, h1, h1'⟩ := h1
    rw [VEq] at h2; obtain ⟨t'', r'', rfl, h2, h2'⟩ := h2
    rw [VEq]; exact ⟨t'', r'', rfl, TEq_trans t t' t'' h1 h2, VEq_trans r r' r'' h1' h2'⟩
end

theorem Eqv.refl {o : Options} {t : Tracer} (h : WF o t) : Eqv t t := ⟨TEq_refl o t h, TEq_refl o t h⟩
theorem Eqv.symm {a b : Tracer} (h : Eqv a b) : Eqv b a := ⟨h.2, h.1⟩
theorem Eqv.trans {a b c : Tracer} (h1 : Eqv a b) (h2 : Eqv b c) : Eqv a c :=
  ⟨TEq_trans _ _ _ h1.1 h2.1, TEq_trans _ _ _ h2.2 h1.2⟩

/-! ### what `TEq` fixes at the top of the node -/

theorem TEq_top {a b : Tracer} (h : TEq a b) :
    b.name = a.name ∧ b.path = a.path ∧ b.nullable = a.nullable ∧ b.is_unknown_or_null = a.is_unknown_or_null := by
  cases a <;> rw [TEq] at h
  case unknown => subst h; exact ⟨rfl, rfl, rfl, rfl⟩
  case primitive => subst h; exact ⟨rfl, rfl, rfl, rfl⟩
  case list => obtain ⟨_, rfl, _⟩ := h; exact ⟨rfl, rfl, rfl, rfl⟩
  case map => obtain ⟨_, _, rfl, _⟩ := h; exact ⟨rfl, rfl, rfl, rfl⟩
  case struct => obtain ⟨_, _, rfl, _⟩ := h; exact ⟨rfl, rfl, rfl, rfl⟩
  case tuple => obtain ⟨_, rfl, _⟩ := h; exact ⟨rfl, rfl, rfl, rfl⟩
  case union => obtain ⟨_, rfl, _⟩ := h; exact ⟨rfl, rfl, rfl, rfl⟩

theorem is_unknown_or_null_prim (n p : String) (nl : Bool) (ty : DataType) (st : Option Strategy) :
    (Tracer.primitive n p nl ty st).is_unknown_or_null = isNull ty := by
  cases ty <;> rfl

theorem isNull_iff {ty : DataType} : isNull ty = true ↔ ty = .null := by
  cases ty <;> simp [isNull]

/-- a node that is `Unknown` or `Primitive(Null)` is only equivalent to itself -/
theorem TEq_unknownish {a b : Tracer} (h : TEq a b) (hu : a.is_unknown_or_null = true) : b = a := by
  cases a <;> rw [TEq] at h <;> first | exact h | (simp [Tracer.is_unknown_or_null] at hu)

/-! ### `mark_nullable` -/

theorem mark_mark (t : Tracer) : t.mark_nullable.mark_nullable = t.mark_nullable := by
  cases t <;> rfl

theorem TEq_mark {a b : Tracer} (h : TEq a b) : TEq a.mark_nullable b.mark_nullable := by
  cases a <;> rw [TEq] at h <;> simp only [Tracer.mark_nullable, Tracer.set_nullable]
  case unknown => subst h; rw [TEq]
  case primitive => subst h; rw [TEq]
  case list => obtain ⟨i', rfl, h⟩ := h; rw [TEq]; exact ⟨i', rfl, h⟩
  case map => obtain ⟨k', v', rfl, h⟩ := h; rw [TEq]; exact ⟨k', v', rfl, h⟩
  case struct => obtain ⟨fs', s', rfl, h⟩ := h; rw [TEq]; exact ⟨fs', s', rfl, h⟩
  case tuple => obtain ⟨ts', rfl, h⟩ := h; rw [TEq]; exact ⟨ts', rfl, h⟩
  case union => obtain ⟨vs', rfl, h⟩ := h; rw [TEq]; exact ⟨vs', rfl, h⟩

theorem null_not_mem_tail (o : Options) : DataType.null ∉ (leafTypes o).drop 1 := by
  unfold leafTypes Options.string_type
  cases o.string_as_large_utf8 <;> simp

theorem leafTypes_eq (o : Options) : leafTypes o = .null :: (leafTypes o).drop 1 := rfl

theorem mem_leafStates {o : Options} {ty : DataType} {nl : Bool} :
    (some ty, nl) ∈ leafStates o ↔ ty ∈ leafTypes o ∧ (ty = .null → nl = true) := by
  have hn := null_not_mem_tail o
  rw [leafTypes_eq o, List.mem_cons]
  unfold leafStates
  simp only [List.mem_append, List.mem_cons, Prod.mk.injEq, reduceCtorEq, false_and, false_or, Option.some.injEq,
    List.mem_flatMap, List.not_mem_nil, or_false]
  constructor
  · rintro (⟨rfl, rfl⟩ | ⟨a, ha, h⟩)
    · exact ⟨.inl rfl, fun _ => rfl⟩
    · have e : ty = a := by rcases h with h | h <;> exact h.1
      subst e
      exact ⟨.inr ha, fun e => absurd (e ▸ ha) hn⟩
  · rintro ⟨h | h, h2⟩
    · exact .inl ⟨h, h2 h⟩
    · exact .inr ⟨ty, h, by cases nl <;> simp⟩

theorem WF_mark {o : Options} {t : Tracer} (h : WF o t) : WF o t.mark_nullable := by
  cases t <;> simp only [Tracer.mark_nullable, Tracer.set_nullable] <;> rw [WF] at h ⊢
  case primitive =>
    refine ⟨h.1, ?_⟩
    have := mem_leafStates.mp h.2
    exact mem_leafStates.mpr ⟨this.1, fun _ => rfl⟩
  all_goals exact h

end SaModel.Lemmas.C07
