import SaModel.Props.C07
/-
C07, tree level — definitions: the schema equivalence on tracers (`TEq`: struct fields as a finite map by name,
`last_seen_in_sample` ignored, `seen_samples` compared only as zero / non-zero), the reachability invariant `WF`,
sample sizes, and the finite-map lemmas about `TFields`.
-/
namespace SaModel.Trace
open SaModel

/-- lookup of a struct field by name (first match): `(last_seen_in_sample, tracer)` -/
def TFields.find : TFields → String → Option (Nat × Tracer)
  | .nil, _ => none
  | .cons n l t r, k => if n = k then some (l, t) else r.find k

/-- replace the entry called `k` (first match) -/
def TFields.put : TFields → String → Nat → Tracer → TFields
  | .nil, _, _, _ => .nil
  | .cons n l t r, k, l', t' => if n = k then .cons n l' t' r else .cons n l t (r.put k l' t')

def TFields.names : TFields → List String
  | .nil => []
  | .cons n _ _ r => n :: r.names

end SaModel.Trace

namespace SaModel.Lemmas.C07
open SaModel SaModel.Trace SaModel.Props.C07

/-! ### the equivalence -/

mutual
/-- one direction of the equivalence (a simulation); `Eqv` is both directions -/
def TEq : Tracer → Tracer → Prop
  | .unknown n p nl, t' => t' = .unknown n p nl
  | .primitive n p nl ty st, t' => t' = .primitive n p nl ty st
  | .list n p nl i, t' => ∃ i', t' = .list n p nl i' ∧ TEq i i'
  | .map n p nl k v, t' => ∃ k' v', t' = .map n p nl k' v' ∧ TEq k k' ∧ TEq v v'
  | .struct n p nl fs m s, t' => ∃ fs' s', t' = .struct n p nl fs' m s' ∧ (s = 0 ↔ s' = 0) ∧
      (∀ k, (fs.find k).isSome = (fs'.find k).isSome) ∧ FSub fs fs'
  | .tuple n p nl ts, t' => ∃ ts', t' = .tuple n p nl ts' ∧ TsEq ts ts'
  | .union n p nl vs, t' => ∃ vs', t' = .union n p nl vs' ∧ VEq vs vs'
def TsEq : Tracers → Tracers → Prop
  | .nil, ts' => ts' = .nil
  | .cons t r, ts' => ∃ t' r', ts' = .cons t' r' ∧ TEq t t' ∧ TsEq r r'
def FSub : TFields → TFields → Prop
  | .nil, _ => True
  | .cons n _ t r, fs' => (∃ l' t', fs'.find n = some (l', t') ∧ TEq t t') ∧ FSub r fs'
def VEq : Variants → Variants → Prop
  | .nil, vs' => vs' = .nil
  | .absent r, vs' => ∃ r', vs' = .absent r' ∧ VEq r r'
  | .present n t r, vs' => ∃ t' r', vs' = .present n t' r' ∧ TEq t t' ∧ VEq r r'
end

/-- the schema equivalence on tracers the property allows -/
def Eqv (a b : Tracer) : Prop := TEq a b ∧ TEq b a

/-! ### the reachability invariant -/

mutual
/-- what every tracer `from_samples` can reach satisfies: primitive nodes hold a reachable leaf state (type of the
alphabet, no strategy, `Null` only with the nullable flag), struct fields have distinct names, the tracer of a field is
named after the field, and `last_seen_in_sample < seen_samples` between two samples -/
def WF (o : Options) : Tracer → Prop
  | .unknown _ _ _ => True
  | .primitive _ _ nl ty st => st = none ∧ (some ty, nl) ∈ leafStates o
  | .list _ _ _ i => WF o i
  | .map _ _ _ k v => WF o k ∧ WF o v
  | .struct _ _ _ fs _ s => FWF o s fs
  | .tuple _ _ _ ts => TsWF o ts
  | .union _ _ _ vs => VWF o vs
def TsWF (o : Options) : Tracers → Prop
  | .nil => True
  | .cons t r => WF o t ∧ TsWF o r
def FWF (o : Options) (s : Nat) : TFields → Prop
  | .nil => True
  | .cons n l t r => l < s ∧ r.find n = none ∧ t.name = n ∧ WF o t ∧ FWF o s r
def VWF (o : Options) : Variants → Prop
  | .nil => True
  | .absent r => VWF o r
  | .present _ t r => WF o t ∧ VWF o r
end

/-! ### sizes -/

mutual
def sz : SVal → Nat
  | .some v => sz v + 1
  | .seq items => szs items + 1
  | .tuple items => szs items + 1
  | .tupleStruct _ items => szs items + 1
  | .newtypeStruct _ v => sz v + 1
  | .record _ fields => szf fields + 1
  | .map es => sze es + 1
  | .mapRaw ops => szo ops + 1
  | .unitVariant _ _ _ => 2
  | .newtypeVariant _ _ _ v => sz v + 2
  | .tupleVariant _ _ _ items => szs items + 3
  | .structVariant _ _ _ fields => szf fields + 3
  | _ => 1
def szs : SVals → Nat
  | .nil => 0
  | .cons v r => sz v + szs r + 1
def szf : SFields → Nat
  | .nil => 0
  | .cons _ _ v r => sz v + szf r + 1
def sze : SEntries → Nat
  | .nil => 0
  | .cons k v r => sz k + sz v + sze r + 1
def szo : SMapOps → Nat
  | .nil => 0
  | .key k r => sz k + szo r + 1
  | .value v r => sz v + szo r + 1
end

theorem sz_pos : ∀ x : SVal, 0 < sz x := by
  intro x; cases x <;> simp [sz]

theorem szs_mem : ∀ (l : SVals) (v : SVal), v ∈ l.toList → sz v < szs l + 1
  | .nil, v, h => by simp [SVals.toList] at h
  | .cons a r, v, h => by
    simp only [SVals.toList, List.mem_cons] at h
    simp only [szs]
    rcases h with rfl | h
    · omega
    · have := szs_mem r v h; omega

/-! ### finite-map lemmas -/

theorem find_names {fs : TFields} {k : String} : fs.find k = none ↔ k ∉ fs.names := by
  match fs with
  | .nil => simp [TFields.find, TFields.names]
  | .cons n l t r =>
    simp only [TFields.find, TFields.names, List.mem_cons, not_or]
    by_cases h : n = k
    · simp [h]
    · have := @find_names r k
      simp only [h, if_false, this]
      constructor
      · intro h2; exact ⟨fun e => h e.symm, h2⟩
      · intro h2; exact h2.2

theorem indexOf_find {fs : TFields} {k : String} : (fs.indexOf k).isSome = (fs.find k).isSome := by
  match fs with
  | .nil => rfl
  | .cons n l t r =>
    simp only [TFields.indexOf, TFields.find]
    by_cases h : n = k
    · simp [h]
    · simp only [h, if_false, Option.isSome_map]; exact indexOf_find

theorem indexOf_none {fs : TFields} {k : String} (h : fs.find k = none) : fs.indexOf k = none := by
  have := @indexOf_find fs k
  rw [h] at this
  cases h2 : fs.indexOf k with
  | none => rfl
  | some _ => rw [h2] at this; cases this

/-- `ensure_field` + `get` + `set` on an existing key is `put` -/
theorem indexOf_some {fs : TFields} {k : String} {l : Nat} {t : Tracer} (h : fs.find k = some (l, t)) :
    ∃ idx, fs.indexOf k = some idx ∧ ∀ s, (fs.setLastSeen idx s).get? idx = some t ∧
      ∀ t', (fs.setLastSeen idx s).set idx t' = fs.put k s t' := by
  match fs with
  | .nil => simp [TFields.find] at h
  | .cons n l0 t0 r =>
    simp only [TFields.find] at h
    by_cases hn : n = k
    · simp only [hn, if_true, Option.some.injEq, Prod.mk.injEq] at h
      obtain ⟨rfl, rfl⟩ := h
      refine ⟨0, by simp [TFields.indexOf, hn], ?_⟩
      intro s
      simp [TFields.setLastSeen, TFields.get?, TFields.set, TFields.put, hn]
    · simp only [hn, if_false] at h
      obtain ⟨idx, h1, h2⟩ := indexOf_some h
      refine ⟨idx + 1, by simp [TFields.indexOf, hn, h1], ?_⟩
      intro s
      obtain ⟨h3, h4⟩ := h2 s
      refine ⟨by simpa [TFields.setLastSeen, TFields.get?] using h3, ?_⟩
      intro t'
      simp [TFields.setLastSeen, TFields.set, TFields.put, hn, h4 t']

theorem push_get (fs : TFields) (k : String) (l : Nat) (t : Tracer) :
    (fs.push k l t).get? fs.length = some t ∧ ∀ t', (fs.push k l t).set fs.length t' = fs.push k l t' := by
  match fs with
  | .nil => simp [TFields.push, TFields.get?, TFields.length, TFields.set]
  | .cons n l0 t0 r =>
    have := push_get r k l t
    simp [TFields.push, TFields.get?, TFields.length, TFields.set, this.1, this.2]

theorem find_put (fs : TFields) (k : String) (l : Nat) (t : Tracer) (k' : String) :
    (fs.put k l t).find k' = if k = k' then (fs.find k').map (fun _ => (l, t)) else fs.find k' := by
  match fs with
  | .nil => simp [TFields.put, TFields.find]
  | .cons n l0 t0 r =>
    simp only [TFields.put]
    by_cases hn : n = k
    · subst hn
      by_cases hk : n = k' <;> simp [TFields.find, hk]
    · simp only [hn, if_false, TFields.find]
      by_cases hk : n = k'
      · subst hk; simp [Ne.symm hn]
      · simp only [hk, if_false]; exact find_put r k l t k'

theorem find_push (fs : TFields) (k : String) (l : Nat) (t : Tracer) (k' : String) :
    (fs.push k l t).find k' = match fs.find k' with
      | some x => some x
      | none => if k = k' then some (l, t) else none := by
  match fs with
  | .nil => simp [TFields.push, TFields.find]
  | .cons n l0 t0 r =>
    simp only [TFields.push, TFields.find]
    by_cases hk : n = k'
    · simp [hk]
    · simp only [hk, if_false]; exact find_push r k l t k'

theorem names_put (fs : TFields) (k : String) (l : Nat) (t : Tracer) : (fs.put k l t).names = fs.names := by
  match fs with
  | .nil => rfl
  | .cons n l0 t0 r =>
    simp only [TFields.put]
    by_cases hn : n = k
    · simp [hn, TFields.names]
    · simp [hn, TFields.names, names_put r k l t]

theorem names_push (fs : TFields) (k : String) (l : Nat) (t : Tracer) : (fs.push k l t).names = fs.names ++ [k] := by
  match fs with
  | .nil => rfl
  | .cons n l0 t0 r => simp [TFields.push, TFields.names, names_push r k l t]

theorem find_end (s : Nat) (fs : TFields) (k : String) :
    (fs.end_ s).find k = (fs.find k).map fun lt => (lt.1, if lt.1 != s then lt.2.mark_nullable else lt.2) := by
  match fs with
  | .nil => rfl
  | .cons n l t r =>
    simp only [TFields.end_, TFields.find]
    by_cases hn : n = k
    · simp [hn]
    · simp only [hn, if_false]; exact find_end s r k

theorem names_end (s : Nat) (fs : TFields) : (fs.end_ s).names = fs.names := by
  match fs with
  | .nil => rfl
  | .cons n l t r => simp [TFields.end_, TFields.names, names_end s r]

end SaModel.Lemmas.C07
