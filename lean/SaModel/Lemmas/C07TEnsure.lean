import SaModel.Lemmas.C07TBasic
/-
C07, tree level — the `ensure_*` methods case by case (fresh node / same kind / mismatch), and `mark_nullable`
commutes with `absorb` for every sample.
-/
namespace SaModel.Lemmas.C07
open SaModel SaModel.Trace SaModel.Props.C07

def depthOk (t : Tracer) : Prop := t.get_depth < MAX_TYPE_DEPTH

theorem enforce_ok {t : Tracer} (h : depthOk t) : t.enforce_depth_limit = .ok () := by
  unfold Tracer.enforce_depth_limit depthOk at *
  split <;> first | rfl | omega

theorem enforce_fail {t : Tracer} (h : ¬ depthOk t) : ∃ e, t.enforce_depth_limit = .error e := by
  unfold Tracer.enforce_depth_limit depthOk at *
  split
  · exact ⟨_, rfl⟩
  · omega

theorem depthOk_path {a b : Tracer} (h : b.path = a.path) : depthOk b ↔ depthOk a := by
  unfold depthOk Tracer.get_depth; rw [h]

/-- `mode` of a struct node after a sample of mode `mode` (fix #26) -/
def joinMode (m mode : StructMode) : StructMode := if mode == .map then .map else m

/-! ### `ensure_list` -/

theorem ensure_list_fresh {t : Tracer} (hd : depthOk t) (hu : t.is_unknown_or_null = true) :
    t.ensure_list = .ok (.list t.name t.path t.nullable (Tracer.new "element" (t.path ++ ".element"))) := by
  unfold Tracer.ensure_list
  rw [enforce_ok hd]
  simp [bind, Except.bind, hu]

theorem ensure_list_same {n p nl i} (hd : depthOk (.list n p nl i)) :
    (Tracer.list n p nl i).ensure_list = .ok (.list n p nl i) := by
  unfold Tracer.ensure_list
  rw [enforce_ok hd]
  simp [bind, Except.bind, Tracer.is_unknown_or_null]

theorem ensure_list_inv {t t1 : Tracer} (h : t.ensure_list = .ok t1) : depthOk t ∧
    ((t.is_unknown_or_null = true ∧ t1 = .list t.name t.path t.nullable (Tracer.new "element" (t.path ++ ".element"))) ∨
     (∃ n p nl i, t = .list n p nl i ∧ t1 = t)) := by
  by_cases hd : depthOk t
  · refine ⟨hd, ?_⟩
    unfold Tracer.ensure_list at h
    rw [enforce_ok hd] at h
    by_cases hu : t.is_unknown_or_null = true
    · left; simp [bind, Except.bind, hu] at h; exact ⟨hu, h.symm⟩
    · right
      cases t <;> simp [bind, Except.bind, hu, fail] at h
      exact ⟨_, _, _, _, rfl, h.symm⟩
  · obtain ⟨e, he⟩ := enforce_fail hd
    unfold Tracer.ensure_list at h
    rw [he] at h
    simp [bind, Except.bind] at h

/-! ### `ensure_map` -/

theorem ensure_map_fresh {t : Tracer} (hd : depthOk t) (hu : t.is_unknown_or_null = true) :
    t.ensure_map = .ok (.map t.name t.path t.nullable (Tracer.new "key" (t.path ++ ".key"))
      (Tracer.new "value" (t.path ++ ".value"))) := by
  unfold Tracer.ensure_map
  rw [enforce_ok hd]
  simp [bind, Except.bind, hu]

theorem ensure_map_same {n p nl k v} (hd : depthOk (.map n p nl k v)) :
    (Tracer.map n p nl k v).ensure_map = .ok (.map n p nl k v) := by
  unfold Tracer.ensure_map
  rw [enforce_ok hd]
  simp [bind, Except.bind, Tracer.is_unknown_or_null]

theorem ensure_map_inv {t t1 : Tracer} (h : t.ensure_map = .ok t1) : depthOk t ∧
    ((t.is_unknown_or_null = true ∧ t1 = .map t.name t.path t.nullable (Tracer.new "key" (t.path ++ ".key"))
      (Tracer.new "value" (t.path ++ ".value"))) ∨
     (∃ n p nl k v, t = .map n p nl k v ∧ t1 = t)) := by
  by_cases hd : depthOk t
  · refine ⟨hd, ?_⟩
    unfold Tracer.ensure_map at h
    rw [enforce_ok hd] at h
    by_cases hu : t.is_unknown_or_null = true
    · left; simp [bind, Except.bind, hu] at h; exact ⟨hu, h.symm⟩
    · right
      cases t <;> simp [bind, Except.bind, hu, fail] at h
      exact ⟨_, _, _, _, _, rfl, h.symm⟩
  · obtain ⟨e, he⟩ := enforce_fail hd
    unfold Tracer.ensure_map at h
    rw [he] at h
    simp [bind, Except.bind] at h

/-! ### `ensure_struct` (repaired code, `fields = []` as on every call from `TracerSerializer`) -/

theorem ensure_struct_fresh {t : Tracer} (mode : StructMode) (hd : depthOk t) (hu : t.is_unknown_or_null = true) :
    t.ensure_struct .fixed [] mode = .ok (.struct t.name t.path t.nullable .nil mode 0) := by
  unfold Tracer.ensure_struct
  rw [enforce_ok hd]
  simp [bind, Except.bind, hu, mkStructFields]

theorem ensure_struct_same {n p nl fs m s} (mode : StructMode) (hd : depthOk (.struct n p nl fs m s)) :
    (Tracer.struct n p nl fs m s).ensure_struct .fixed [] mode = .ok (.struct n p nl fs (joinMode m mode) s) := by
  unfold Tracer.ensure_struct
  rw [enforce_ok hd]
  cases mode <;> cases m <;> simp [bind, Except.bind, Tracer.is_unknown_or_null, joinMode, Code.fixed] <;> rfl

theorem ensure_struct_inv {t t1 : Tracer} {mode : StructMode} (h : t.ensure_struct .fixed [] mode = .ok t1) : depthOk t ∧
    ((t.is_unknown_or_null = true ∧ t1 = .struct t.name t.path t.nullable .nil mode 0) ∨
     (∃ n p nl fs m s, t = .struct n p nl fs m s ∧ t1 = .struct n p nl fs (joinMode m mode) s)) := by
  by_cases hd : depthOk t
  · refine ⟨hd, ?_⟩
    by_cases hu : t.is_unknown_or_null = true
    · left; rw [ensure_struct_fresh mode hd hu] at h; cases h; exact ⟨hu, rfl⟩
    · right
      cases t
      case struct n p nl fs m s => rw [ensure_struct_same mode hd] at h; cases h; exact ⟨_, _, _, _, _, _, rfl, rfl⟩
      all_goals
        unfold Tracer.ensure_struct at h
        rw [enforce_ok hd] at h
        simp [bind, Except.bind, hu, fail] at h
  · obtain ⟨e, he⟩ := enforce_fail hd
    unfold Tracer.ensure_struct at h
    rw [he] at h
    simp [bind, Except.bind] at h

/-! ### `ensure_tuple` (repaired code) -/

theorem ensure_tuple_fresh {t : Tracer} (k : Nat) (hd : depthOk t) (hu : t.is_unknown_or_null = true) :
    t.ensure_tuple .fixed k = .ok (.tuple t.name t.path t.nullable (mkTupleFields t.path k k)) := by
  unfold Tracer.ensure_tuple
  rw [enforce_ok hd]
  simp [bind, Except.bind, hu]

theorem ensure_tuple_same {n p nl ts} (k : Nat) (hd : depthOk (.tuple n p nl ts)) :
    (Tracer.tuple n p nl ts).ensure_tuple .fixed k = .ok (.tuple n p nl (tupleGrowNullable p k (ts.markFrom k))) := by
  unfold Tracer.ensure_tuple
  rw [enforce_ok hd]
  simp [bind, Except.bind, Tracer.is_unknown_or_null, Code.fixed]

theorem ensure_tuple_inv {t t1 : Tracer} {k : Nat} (h : t.ensure_tuple .fixed k = .ok t1) : depthOk t ∧
    ((t.is_unknown_or_null = true ∧ t1 = .tuple t.name t.path t.nullable (mkTupleFields t.path k k)) ∨
     (∃ n p nl ts, t = .tuple n p nl ts ∧ t1 = .tuple n p nl (tupleGrowNullable p k (ts.markFrom k)))) := by
  by_cases hd : depthOk t
  · refine ⟨hd, ?_⟩
    by_cases hu : t.is_unknown_or_null = true
    · left; rw [ensure_tuple_fresh k hd hu] at h; cases h; exact ⟨hu, rfl⟩
    · right
      cases t
      case tuple n p nl ts => rw [ensure_tuple_same k hd] at h; cases h; exact ⟨_, _, _, _, rfl, rfl⟩
      all_goals
        unfold Tracer.ensure_tuple at h
        rw [enforce_ok hd] at h
        simp [bind, Except.bind, hu, fail] at h
  · obtain ⟨e, he⟩ := enforce_fail hd
    unfold Tracer.ensure_tuple at h
    rw [he] at h
    simp [bind, Except.bind] at h

/-! ### `ensure_union` -/

theorem ensure_union_fresh {t : Tracer} (hd : depthOk t) (hu : t.is_unknown_or_null = true) :
    t.ensure_union [] = .ok (.union t.name t.path t.nullable .nil) := by
  unfold Tracer.ensure_union
  rw [enforce_ok hd]
  simp [bind, Except.bind, hu, mkVariants]

theorem ensure_union_same {n p nl vs} (hd : depthOk (.union n p nl vs)) :
    (Tracer.union n p nl vs).ensure_union [] = .ok (.union n p nl vs) := by
  unfold Tracer.ensure_union
  rw [enforce_ok hd]
  simp [bind, Except.bind, Tracer.is_unknown_or_null]

theorem ensure_union_inv {t t1 : Tracer} (h : t.ensure_union [] = .ok t1) : depthOk t ∧
    ((t.is_unknown_or_null = true ∧ t1 = .union t.name t.path t.nullable .nil) ∨
     (∃ n p nl vs, t = .union n p nl vs ∧ t1 = t)) := by
  by_cases hd : depthOk t
  · refine ⟨hd, ?_⟩
    by_cases hu : t.is_unknown_or_null = true
    · left; rw [ensure_union_fresh hd hu] at h; cases h; exact ⟨hu, rfl⟩
    · right
      cases t
      case union n p nl vs => rw [ensure_union_same hd] at h; cases h; exact ⟨_, _, _, _, rfl, rfl⟩
      all_goals
        unfold Tracer.ensure_union at h
        rw [enforce_ok hd] at h
        simp [bind, Except.bind, hu, fail] at h
  · obtain ⟨e, he⟩ := enforce_fail hd
    unfold Tracer.ensure_union at h
    rw [he] at h
    simp [bind, Except.bind] at h

/-! ### `mark_nullable` commutes with everything -/

theorem coerce_nullable (o : Options) (p c : DataType) (nl : Bool) (ps cs : Option Strategy) :
    coerce_primitive_type o p true ps c cs =
      (coerce_primitive_type o p nl ps c cs).map (fun r => (r.1, true, r.2.2)) := by
  simp only [coerce_primitive_type, apply_ite (Except.map (fun r : DataType × Bool × Option Strategy => (r.1, true, r.2.2)))]
  rfl

theorem depth_mark (t : Tracer) : t.mark_nullable.enforce_depth_limit = t.enforce_depth_limit := by
  cases t <;> rfl

theorem unknownish_mark (t : Tracer) : t.mark_nullable.is_unknown_or_null = t.is_unknown_or_null := by
  cases t <;> simp only [Tracer.mark_nullable, Tracer.set_nullable, is_unknown_or_null_prim] <;> rfl

theorem ensure_list_mark (t : Tracer) : t.mark_nullable.ensure_list = (t.ensure_list).map Tracer.mark_nullable := by
  unfold Tracer.ensure_list
  rw [depth_mark, unknownish_mark]
  cases t.enforce_depth_limit with
  | error e => rfl
  | ok u =>
    simp only [bind, Except.bind]
    split
    · cases t <;> rfl
    · cases t <;> rfl

theorem ensure_map_mark (t : Tracer) : t.mark_nullable.ensure_map = (t.ensure_map).map Tracer.mark_nullable := by
  unfold Tracer.ensure_map
  rw [depth_mark, unknownish_mark]
  cases t.enforce_depth_limit with
  | error e => rfl
  | ok u =>
    simp only [bind, Except.bind]
    split
    · cases t <;> rfl
    · cases t <;> rfl

theorem ensure_union_mark (t : Tracer) (vs : List String) :
    t.mark_nullable.ensure_union vs = (t.ensure_union vs).map Tracer.mark_nullable := by
  unfold Tracer.ensure_union
  rw [depth_mark, unknownish_mark]
  cases t.enforce_depth_limit with
  | error e => rfl
  | ok u =>
    simp only [bind, Except.bind]
    split
    · cases t <;> rfl
    · cases t <;> rfl

theorem ensure_struct_mark (c : Code) (t : Tracer) (fs : List String) (mode : StructMode) :
    t.mark_nullable.ensure_struct c fs mode = (t.ensure_struct c fs mode).map Tracer.mark_nullable := by
  unfold Tracer.ensure_struct
  rw [depth_mark, unknownish_mark]
  cases t.enforce_depth_limit with
  | error e => rfl
  | ok u =>
    simp only [bind, Except.bind]
    split
    · cases t <;> rfl
    · cases t <;> try rfl
      simp only [Tracer.mark_nullable, Tracer.set_nullable]
      split <;> rfl

theorem ensure_tuple_mark (c : Code) (t : Tracer) (k : Nat) :
    t.mark_nullable.ensure_tuple c k = (t.ensure_tuple c k).map Tracer.mark_nullable := by
  unfold Tracer.ensure_tuple
  rw [depth_mark, unknownish_mark]
  cases t.enforce_depth_limit with
  | error e => rfl
  | ok u =>
    simp only [bind, Except.bind]
    split
    · cases t <;> rfl
    · cases t <;> try rfl
      simp only [Tracer.mark_nullable, Tracer.set_nullable]
      split <;> rfl

theorem ensure_prim_mark (o : Options) (t : Tracer) (ty : DataType) (st : Option Strategy) :
    t.mark_nullable.ensure_primitive_with_strategy o ty st =
      (t.ensure_primitive_with_strategy o ty st).map Tracer.mark_nullable := by
  cases t <;> simp only [Tracer.mark_nullable, Tracer.set_nullable, Tracer.ensure_primitive_with_strategy]
  case unknown => simp [Except.map, Tracer.mark_nullable, Tracer.set_nullable]
  case primitive n p nl pty pst =>
    rw [coerce_nullable o pty ty nl pst st]
    cases coerce_primitive_type o pty nl pst ty st <;> rfl
  all_goals (split <;> rfl)

theorem ensure_union_variant_mark (t : Tracer) (vn : String) (idx : Nat) :
    ensure_union_variant t.mark_nullable vn idx =
      (ensure_union_variant t vn idx).map (fun r => (r.1, r.2.1, true, r.2.2.2)) := by
  unfold ensure_union_variant
  rw [ensure_union_mark]
  cases h : t.ensure_union [] with
  | error e => rfl
  | ok t1 =>
    simp only [Except.map, bind, Except.bind]
    cases t1 <;> simp only [Tracer.mark_nullable, Tracer.set_nullable]
    case union n p nl vs =>
      cases ensure_variant p vs vn idx with
      | error e => rfl
      | ok vs' =>
        simp only
        split <;> rfl
    all_goals rfl

theorem absorb_mark (c : Code) (o : Options) : ∀ (x : SVal) (t : Tracer),
    absorb c o t.mark_nullable x = (absorb c o t x).map Tracer.mark_nullable
  | .bool _, t => by simp only [absorb, Tracer.ensure_primitive, ensure_prim_mark]
  | .int _ _, t => by simp only [absorb, Tracer.ensure_number, Tracer.ensure_primitive, ensure_prim_mark]
  | .f32 _, t => by simp only [absorb, Tracer.ensure_number, Tracer.ensure_primitive, ensure_prim_mark]
  | .f64 _, t => by simp only [absorb, Tracer.ensure_number, Tracer.ensure_primitive, ensure_prim_mark]
  | .char _, t => by simp only [absorb, Tracer.ensure_primitive, ensure_prim_mark]
  | .unit, t => by simp only [absorb, Tracer.ensure_primitive, ensure_prim_mark]
  | .str _, t => by simp only [absorb, ensure_prim_mark]
  | .bytes _, t => by simp only [absorb, Tracer.ensure_primitive, ensure_prim_mark]
  | .unitStruct _, t => by simp only [absorb, Tracer.ensure_primitive, ensure_prim_mark]
  | .none, t => by simp only [absorb, mark_mark, Except.map]
  | .some v, t => by
    simp only [absorb, mark_mark]
    have := absorb_mark c o v t.mark_nullable
    rw [mark_mark] at this
    exact this
  | .newtypeStruct _ v, t => by simp only [absorb]; exact absorb_mark c o v t
  | .seq items, t => by
    simp only [absorb, ensure_list_mark]
    cases t.ensure_list with
    | error e => rfl
    | ok t1 =>
      simp only [Except.map, bind, Except.bind]
      cases t1 <;> try rfl
      simp only [Tracer.mark_nullable, Tracer.set_nullable]
      split <;> rfl
  | .tuple items, t => by
    simp only [absorb, ensure_tuple_mark]
    cases t.ensure_tuple c items.length with
    | error e => rfl
    | ok t1 =>
      simp only [Except.map, bind, Except.bind]
      cases t1 <;> try rfl
      simp only [Tracer.mark_nullable, Tracer.set_nullable]
      split <;> rfl
  | .tupleStruct _ items, t => by
    simp only [absorb, ensure_tuple_mark]
    cases t.ensure_tuple c items.length with
    | error e => rfl
    | ok t1 =>
      simp only [Except.map, bind, Except.bind]
      cases t1 <;> try rfl
      simp only [Tracer.mark_nullable, Tracer.set_nullable]
      split <;> rfl
  | .record _ fields, t => by
    simp only [absorb, ensure_struct_mark]
    cases t.ensure_struct c [] .struct with
    | error e => rfl
    | ok t1 =>
      simp only [Except.map, bind, Except.bind]
      cases t1 <;> try rfl
      simp only [Tracer.mark_nullable, Tracer.set_nullable]
      split <;> rfl
  | .map es, t => by
    simp only [absorb]
    split
    · simp only [ensure_struct_mark]
      cases t.ensure_struct c [] .map with
      | error e => rfl
      | ok t1 =>
        simp only [Except.map, bind, Except.bind]
        cases t1 <;> try rfl
        simp only [Tracer.mark_nullable, Tracer.set_nullable]
        split <;> rfl
    · simp only [ensure_map_mark]
      cases t.ensure_map with
      | error e => rfl
      | ok t1 =>
        simp only [Except.map, bind, Except.bind]
        cases t1 <;> try rfl
        simp only [Tracer.mark_nullable, Tracer.set_nullable]
        split <;> rfl
  | .mapRaw ops, t => by
    simp only [absorb]
    split
    · simp only [ensure_struct_mark]
      cases t.ensure_struct c [] .map with
      | error e => rfl
      | ok t1 =>
        simp only [Except.map, bind, Except.bind]
        cases t1 <;> try rfl
        simp only [Tracer.mark_nullable, Tracer.set_nullable]
        split <;> rfl
    · simp only [ensure_map_mark]
      cases t.ensure_map with
      | error e => rfl
      | ok t1 =>
        simp only [Except.map, bind, Except.bind]
        cases t1 <;> try rfl
        simp only [Tracer.mark_nullable, Tracer.set_nullable]
        split <;> rfl
  | .unitVariant _ idx vn, t => by
    simp only [absorb, ensure_union_variant_mark]
    cases ensure_union_variant t vn idx with
    | error e => rfl
    | ok r =>
      obtain ⟨n, p, nl, vs, vt⟩ := r
      simp only [Except.map, bind, Except.bind]
      cases Tracer.ensure_primitive o vt .null <;> rfl
  | .newtypeVariant _ idx vn v, t => by
    simp only [absorb, ensure_union_variant_mark]
    cases ensure_union_variant t vn idx with
    | error e => rfl
    | ok r =>
      obtain ⟨n, p, nl, vs, vt⟩ := r
      simp only [Except.map, bind, Except.bind]
      cases absorb c o vt v <;> rfl
  | .tupleVariant _ idx vn items, t => by
    simp only [absorb, ensure_union_variant_mark]
    cases ensure_union_variant t vn idx with
    | error e => rfl
    | ok r =>
      obtain ⟨n, p, nl, vs, vt⟩ := r
      simp only [Except.map, bind, Except.bind]
      cases vt.ensure_tuple c items.length with
      | error e => rfl
      | ok vt1 =>
        cases vt1 <;> try rfl
        simp only
        split <;> rfl
  | .structVariant _ idx vn fields, t => by
    simp only [absorb, ensure_union_variant_mark]
    cases ensure_union_variant t vn idx with
    | error e => rfl
    | ok r =>
      obtain ⟨n, p, nl, vs, vt⟩ := r
      simp only [Except.map, bind, Except.bind]
      cases vt.ensure_struct c [] .struct with
      | error e => rfl
      | ok vt1 =>
        cases vt1 <;> try rfl
        simp only
        split <;> rfl

end SaModel.Lemmas.C07
