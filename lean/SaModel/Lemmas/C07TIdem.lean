import SaModel.Lemmas.C07TSchema2
/-
C07, tree level — repetition: a sample that has been absorbed is absorbed again without changing the tracer (up to the
equivalence), it stays absorbed whatever else is absorbed later (`stays`, from the swap law), hence tracing a
collection twice is tracing it once.
-/
namespace SaModel.Lemmas.C07
open SaModel SaModel.Trace SaModel.Props.C07

/-- absorbing `x` into `t` succeeds and changes nothing (up to the equivalence) -/
def Absorbed (o : Options) (t : Tracer) (x : SVal) : Prop := ∃ b, absorb .fixed o t x = .ok b ∧ Eqv b t

/-- `x` is absorbed by every tracer it has been absorbed into -/
def Idem (o : Options) (x : SVal) : Prop := ∀ t t', WF o t → absorb .fixed o t x = .ok t' → Absorbed o t' x

theorem absorbed_eqv {o : Options} {t t' : Tracer} {x : SVal} (hw : WF o t) (hw' : WF o t') (he : Eqv t t')
    (h : Absorbed o t x) : Absorbed o t' x := by
  obtain ⟨b, hb, heb⟩ := h
  rcases cong_out o hw hw' he x with ⟨a, b', h1, h2, he', _, _⟩ | ⟨h1, _⟩
  · rw [hb] at h1; cases h1
    exact ⟨b', h2, (he'.symm.trans heb).trans he⟩
  · rw [hb] at h1; cases h1

/-- what has been absorbed stays absorbed -/
theorem stays {o : Options} (hno : o.allow_to_string = false) {t t2 : Tracer} {x y : SVal} (hw : WF o t)
    (hx : Absorbed o t x) (hy : absorb .fixed o t y = .ok t2) : Absorbed o t2 x := by
  obtain ⟨b, hb, heb⟩ := hx
  have hwb := (cong_any o x).wf hw hb
  rcases cong_out o hwb hw heb y with ⟨b2, t2', h1, h2, he2, _, _⟩ | ⟨_, h2⟩
  · rw [hy] at h2; cases h2
    rcases swap_out hno hw x y with ⟨c1, c2, h3, h4, he3, _, _⟩ | ⟨h3, _⟩
    · rw [absorb2_mk hb h1] at h3; cases h3
      obtain ⟨m, h5, h6⟩ := absorb2_ok h4
      rw [hy] at h5; cases h5
      exact ⟨c2, h6, he3.symm.trans he2⟩
    · rw [absorb2_mk hb h1] at h3; cases h3
  · rw [hy] at h2; cases h2

theorem stays_all {o : Options} (hno : o.allow_to_string = false) {x : SVal} : ∀ {ys : List SVal} {t t2 : Tracer},
    WF o t → Absorbed o t x → absorbAll .fixed o t ys = .ok t2 → Absorbed o t2 x
  | [], t, t2, _, hx, h => by cases h; exact hx
  | y :: ys, t, t2, hw, hx, h => by
    obtain ⟨m, h1, h2⟩ := absorbAll_cons_ok h
    exact stays_all hno ((cong_any o y).wf hw h1) (stays hno hw hx h1) h2

/-- a list of absorbed samples is absorbed -/
theorem absorbed_list {o : Options} : ∀ {xs : List SVal} {t : Tracer}, WF o t → (∀ x ∈ xs, Absorbed o t x) →
    ∃ b, absorbAll .fixed o t xs = .ok b ∧ Eqv b t
  | [], t, hw, _ => ⟨t, rfl, Eqv.refl hw⟩
  | x :: xs, t, hw, h => by
    obtain ⟨b1, hb1, he1⟩ := h x (by simp)
    have hw1 := (cong_any o x).wf hw hb1
    obtain ⟨b, hb, he⟩ := absorbed_list (xs := xs) hw1 fun x' hx' =>
      absorbed_eqv hw hw1 he1.symm (h x' (by simp [hx']))
    exact ⟨b, absorbAll_cons_mk hb1 hb, he.trans he1⟩

/-- after a list has been absorbed, each of its elements is absorbed -/
theorem idem_elems {o : Options} (hno : o.allow_to_string = false) : ∀ {xs : List SVal} {t t' : Tracer},
    (∀ x ∈ xs, Idem o x) → WF o t → absorbAll .fixed o t xs = .ok t' → ∀ x ∈ xs, Absorbed o t' x
  | [], _, _, _, _, _ => by simp
  | y :: ys, t, t', hi, hw, h => by
    obtain ⟨m, h1, h2⟩ := absorbAll_cons_ok h
    have hwm := (cong_any o y).wf hw h1
    intro x hx
    rcases List.mem_cons.mp hx with rfl | hx
    · exact stays_all hno hwm (hi x (by simp) t m hw h1) h2
    · exact idem_elems hno (fun z hz => hi z (by simp [hz])) hwm h2 x hx

/-- repetition for lists: absorbing the list again changes nothing -/
theorem idem_list {o : Options} (hno : o.allow_to_string = false) {xs : List SVal} {t t' : Tracer}
    (hi : ∀ x ∈ xs, Idem o x) (hw : WF o t) (h : absorbAll .fixed o t xs = .ok t') :
    ∃ b, absorbAll .fixed o t' xs = .ok b ∧ Eqv b t' :=
  absorbed_list (absorbAll_wf o hw h) (idem_elems hno hi hw h)

/-! ### families -/

theorem idem_leaf {o : Options} {x : SVal} {ty : DataType} (hx : leafTypeOf o x = some ty) : Idem o x := by
  intro t t' hw h
  have hw' := (cong_any o x).wf hw h
  refine ⟨t', ?_, Eqv.refl hw'⟩
  rw [absorb_prim .fixed o t hx] at h
  rw [absorb_prim .fixed o t' hx]
  cases hl : Tracer.isLeaf t with
  | true =>
    obtain ⟨s, hs, e⟩ := WF_leaf_embed hw hl
    rw [e, ensure_primitive_embed] at h
    cases h1 : act o s ty with
    | error e' => rw [h1] at h; cases h
    | ok s' =>
      rw [h1] at h; cases h
      rw [ensure_primitive_embed, coerce_idem o hs (leafTypeOf_mem o hx) h1]
  | false =>
    rw [Tracer.ensure_primitive, ensure_prim_container o hl] at h
    by_cases hn : isNull ty = true
    · simp only [hn, if_true] at h; cases h
      have hl' : Tracer.isLeaf t.mark_nullable = false := by
        cases t <;> simp_all [Tracer.isLeaf, Tracer.mark_nullable, Tracer.set_nullable]
      rw [Tracer.ensure_primitive, ensure_prim_container o hl']
      simp only [hn, if_true, mark_mark]
    · simp only [hn] at h; cases h

theorem idem_none (o : Options) : Idem o .none := by
  intro t t' hw h
  simp only [absorb] at h; cases h
  exact ⟨_, by simp only [absorb, mark_mark], Eqv.refl (WF_mark hw)⟩

theorem marked_result {o : Options} {t t' : Tracer} {v : SVal} (h : absorb .fixed o t.mark_nullable v = .ok t') :
    t'.mark_nullable = t' := by
  have := absorb_mark .fixed o v t.mark_nullable
  rw [mark_mark, h] at this
  simp only [Except.map] at this
  exact (Except.ok.inj this).symm

theorem idem_some {o : Options} {v : SVal} (hv : Idem o v) : Idem o (.some v) := by
  intro t t' hw h
  simp only [absorb] at h
  obtain ⟨b, hb, heb⟩ := hv _ t' (WF_mark hw) h
  refine ⟨b, ?_, heb⟩
  simp only [absorb]
  rw [marked_result h]; exact hb

theorem idem_newtype {o : Options} {n : String} {v : SVal} (hv : Idem o v) : Idem o (.newtypeStruct n v) := by
  intro t t' hw h
  simp only [absorb] at h
  obtain ⟨b, hb, heb⟩ := hv t t' hw h
  exact ⟨b, by simp only [absorb]; exact hb, heb⟩

theorem Eqv_list {n p : String} {nl : Bool} {i i' : Tracer} (h : Eqv i i') : Eqv (.list n p nl i) (.list n p nl i') := by
  constructor <;> rw [TEq]
  · exact ⟨i', rfl, h.1⟩
  · exact ⟨i, rfl, h.2⟩

theorem Eqv_map {n p : String} {nl : Bool} {k k' v v' : Tracer} (hk : Eqv k k') (hv : Eqv v v') :
    Eqv (.map n p nl k v) (.map n p nl k' v') := by
  constructor <;> rw [TEq]
  · exact ⟨k', v', rfl, hk.1, hv.1⟩
  · exact ⟨k, v, rfl, hk.2, hv.2⟩

theorem idem_seq {o : Options} (hno : o.allow_to_string = false) {items : SVals} (hi : ∀ v ∈ items.toList, Idem o v) :
    Idem o (.seq items) := by
  intro t t' hw h
  obtain ⟨n, p, nl, i, i', h1, h2, rfl⟩ := absorb_seq_ok h
  obtain ⟨hwi, hd, _⟩ := ensure_list_facts hw h1
  obtain ⟨b, hb, heb⟩ := idem_list hno hi hwi h2
  exact ⟨.list n p nl b, absorb_seq_mk (ensure_list_same (hd i')) hb, Eqv_list heb⟩

theorem idem_map {o : Options} (hno : o.allow_to_string = false) {x : SVal} {ks vs : List SVal} (hx : MapLike o x ks vs)
    (hik : ∀ v ∈ ks, Idem o v) (hiv : ∀ v ∈ vs, Idem o v) : Idem o x := by
  intro t t' hw h
  obtain ⟨n, p, nl, k, v, k', v', h1, h2, h3, rfl⟩ := (hx t t').mp h
  obtain ⟨hwk, hwv, hd, _⟩ := ensure_map_facts hw h1
  obtain ⟨bk, hbk, hek⟩ := idem_list hno hik hwk h2
  obtain ⟨bv, hbv, hev⟩ := idem_list hno hiv hwv h3
  exact ⟨.map n p nl bk bv, (hx _ _).mpr ⟨n, p, nl, k', v', bk, bv, ensure_map_same (hd k' v'), hbk, hbv, rfl⟩,
    Eqv_map hek hev⟩

/-- per key: a second pass of the same sample -/
theorem keyT_idem {o : Options} (hno : o.allow_to_string = false) {p : String} {s : Nat} {k : String} {vs : List SVal}
    {cur c1 : Option Tracer} (hi : ∀ v ∈ vs, Idem o v) (hw : OWF o cur) (h : keyT o p s cur k vs = .ok c1) :
    ∃ c2, keyT o p (s + 1) c1 k vs = .ok c2 ∧ ORel c2 c1 ∧ ORel c1 c2 := by
  unfold keyT at h ⊢
  cases vs with
  | nil =>
    simp only at h ⊢; cases h
    refine ⟨_, rfl, ?_⟩
    have hw1 : OWF o (cur.map Tracer.mark_nullable) := by
      intro t ht
      cases cur with
      | none => cases ht
      | some t0 => cases ht; exact WF_mark (hw t0 rfl)
    cases cur with
    | none => exact ⟨trivial, trivial⟩
    | some t0 =>
      simp only [Option.map, mark_mark]
      exact ⟨ORel_refl hw1, ORel_refl hw1⟩
  | cons w ws =>
    simp only at h ⊢
    cases hb : absorbAll .fixed o (curT p s k cur) (w :: ws) with
    | error e => rw [hb] at h; cases h
    | ok t1 =>
      rw [hb] at h; cases h
      obtain ⟨b, hb2, heb⟩ := idem_list hno hi (curT_wf hw) hb
      simp only [curT, hb2]
      exact ⟨_, rfl, heb.1, heb.2⟩

theorem joinMode_idem (m mode : StructMode) : joinMode (joinMode m mode) mode = joinMode m mode := by
  cases m <;> cases mode <;> rfl
theorem joinMode_self (mode : StructMode) : joinMode mode mode = mode := by cases mode <;> rfl

theorem idem_struct {o : Options} (hno : o.allow_to_string = false) {x : SVal} {mode : StructMode}
    {ps : List (String × SVal)} (hx : StructLike o x mode ps) (hi : ∀ kv ∈ ps, Idem o kv.2) : Idem o x := by
  intro t t' hw h
  have hc : ∀ kv ∈ ps, Cong o kv.2 := fun kv _ => cong_any o kv.2
  obtain ⟨n, p, nl, fs, m, s, f1, e1, r1, rfl⟩ := (hx t t').mp h
  obtain ⟨hwf, hd, hcase⟩ := ensure_struct_facts hw e1
  have hm : joinMode m mode = m := by
    rcases hcase with ⟨_, _, _, rfl, _⟩ | ⟨m0, _, rfl⟩
    · exact joinMode_self _
    · exact joinMode_idem _ _
  have hwf1 := sample_wf hwf hc r1
  obtain ⟨K1, _, _⟩ := sample_find (fun k l t hf => (find_wf hwf hf).1) (FWF_nodup hwf) r1
  have hkey : ∀ k, ∃ c2, keyT o p (s + 1) (tr ((f1.end_ s).find k)) k (keyVals k ps) = .ok c2 ∧
      ORel c2 (tr ((f1.end_ s).find k)) ∧ ORel (tr ((f1.end_ s).find k)) c2 := fun k =>
    keyT_idem hno (fun v hv => hi (k, v) (keyVals_mem hv)) (OWF_find hwf k) (K1 k)
  obtain ⟨g, q⟩ := sample_mk (fun k => let ⟨c2, a, _⟩ := hkey k; ⟨c2, a⟩)
  have hwg := sample_wf hwf1 hc q
  obtain ⟨G, _, _⟩ := sample_find (fun k l t hf => (find_wf hwf1 hf).1) (FWF_nodup hwf1) q
  have hrel : ∀ k, ORel (tr ((g.end_ (s + 1)).find k)) (tr ((f1.end_ s).find k)) ∧
      ORel (tr ((f1.end_ s).find k)) (tr ((g.end_ (s + 1)).find k)) := by
    intro k
    obtain ⟨c2, a1, a2, a3⟩ := hkey k
    have := G k
    rw [a1] at this
    rw [← Except.ok.inj this]; exact ⟨a2, a3⟩
  refine ⟨.struct n p nl (g.end_ (s + 1)) m (s + 1 + 1), ?_, ?_, ?_⟩
  · refine (hx _ _).mpr ⟨n, p, nl, f1.end_ s, m, s + 1, g, ?_, q, rfl⟩
    rw [ensure_struct_same mode (hd _ _ _), hm]
  · exact TEq_struct_of hwg (by omega) fun k => (hrel k).1
  · exact TEq_struct_of hwf1 (by omega) fun k => (hrel k).2

theorem idem_tuple {o : Options} (hno : o.allow_to_string = false) {x : SVal} {items : SVals} (hx : TupleLike o x items)
    (hi : ∀ v ∈ items.toList, Idem o v) : Idem o x := by
  intro t t' hw h
  have hc : ∀ v ∈ items.toList, Cong o v := fun v _ => cong_any o v
  obtain ⟨n, p, nl, ts, R1, e1, r1, rfl⟩ := (hx t t').mp h
  obtain ⟨s, ts0, h0, rfl, hwts, hd, _⟩ := ensure_tuple_facts hw e1
  have hwR1 := tuple_sample_wf h0 hwts hc r1
  have K1 := tuple_sample_find h0 r1
  have h1' : (1 : Nat) = 0 → R1 = .nil := fun h => by cases h
  have hs1 : (s + 1 = 0 ↔ (1 : Nat) = 0) := by constructor <;> intro h <;> omega
  have hkey : ∀ j, ∃ c2, keyT o p 1 (R1.get? j) (toString j) (optList (SVals.get? items j)) = .ok c2 ∧
      ORel c2 (R1.get? j) ∧ ORel (R1.get? j) c2 := by
    intro j
    obtain ⟨c2, a1, a2, a3⟩ := keyT_idem hno (fun v hv => hi v (optList_mem hv)) (TsWF_get hwts j) (K1 j)
    rw [keyT_seen hs1] at a1
    exact ⟨c2, a1, a2, a3⟩
  obtain ⟨G, q⟩ := tuple_sample_mk h1' (fun j => let ⟨c2, a, _⟩ := hkey j; ⟨c2, a⟩)
  have Q := tuple_sample_find h1' q
  have hrel : ∀ j, ORel (G.get? j) (R1.get? j) ∧ ORel (R1.get? j) (G.get? j) := by
    intro j
    obtain ⟨c2, a1, a2, a3⟩ := hkey j
    have := Q j
    rw [a1] at this
    rw [← Except.ok.inj this]; exact ⟨a2, a3⟩
  refine ⟨.tuple n p nl G, ?_, ?_, ?_⟩
  · refine (hx _ _).mpr ⟨n, p, nl, _, G, ensure_tuple_same items.length (hd _), ?_, rfl⟩
    simpa [tupleEns] using q
  · rw [TEq]; exact ⟨R1, rfl, TsEq_of_get fun j => (hrel j).1⟩
  · rw [TEq]; exact ⟨G, rfl, TsEq_of_get fun j => (hrel j).2⟩

theorem idem_union {o : Options} {x : SVal} {idx : Nat} {vn : String} {payload : SVal}
    (hx : UnionLike o x idx vn payload) (hi : Idem o payload) : Idem o x := by
  intro t t' hw h
  rw [hx t] at h
  obtain ⟨n, p, nl, vs, st, t1, e1, hl, hs, ha, rfl⟩ := variantDo_ok.mp h
  obtain ⟨hwv, hd, _⟩ := ensure_union_facts hw e1
  have hwst := slot_wf hwv hs
  obtain ⟨b, hb, heb⟩ := hi st t1 hwst ha
  refine ⟨.union n p nl (upd (upd vs idx vn t1) idx vn b), ?_, ?_⟩
  · rw [hx _]
    exact variantDo_ok.mpr ⟨n, p, nl, _, t1, b, ensure_union_same (hd _), hl, by rw [slot_upd_eq]; simp, hb, rfl⟩
  · rw [upd_upd_eq]
    have hv := VEq_refl o vs hwv
    constructor <;> rw [TEq]
    · exact ⟨_, rfl, VEq_upd idx vn hv heb.1⟩
    · exact ⟨_, rfl, VEq_upd idx vn hv heb.2⟩

/-! ### every sample -/

theorem idem_all {o : Options} (hno : o.allow_to_string = false) : ∀ (n : Nat) (x : SVal), sz x ≤ n → Idem o x := by
  intro n
  induction n with
  | zero => intro x h; have := sz_pos x; omega
  | succ n ih =>
    intro x hx
    rcases classify o x with rfl | ⟨v, rfl⟩ | ⟨nm, v, rfl⟩ | ⟨ty, hl⟩ | hn | ⟨S, hf⟩
    · exact idem_none o
    · exact idem_some (ih v (by simp only [sz] at hx; omega))
    · exact idem_newtype (ih v (by simp only [sz] at hx; omega))
    · exact idem_leaf hl
    · intro t t' _ h; exact absurd h (hn t t')
    · cases S
      case list =>
        obtain ⟨items, rfl⟩ := hf
        exact idem_seq hno fun v hv => ih v (by have := szs_mem items v hv; simp only [sz] at hx; omega)
      case struct =>
        obtain ⟨mode, ps, hl, hs⟩ := hf
        exact idem_struct hno hl fun kv hkv => ih kv.2 (by have := hs kv hkv; omega)
      case map =>
        obtain ⟨ks, vs, hl, hk, hv⟩ := hf
        exact idem_map hno hl (fun v h => ih v (by have := hk v h; omega)) (fun v h => ih v (by have := hv v h; omega))
      case tuple =>
        obtain ⟨items, hl, hs⟩ := hf
        exact idem_tuple hno hl fun v hv => ih v (by have := hs v hv; omega)
      case union =>
        obtain ⟨idx, vn, payload, hl, hs⟩ := hf
        exact idem_union hl (ih payload (by omega))

theorem idem_any {o : Options} (hno : o.allow_to_string = false) (x : SVal) : Idem o x :=
  idem_all hno (sz x) x (Nat.le_refl _)

end SaModel.Lemmas.C07
