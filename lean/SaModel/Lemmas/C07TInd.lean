import SaModel.Lemmas.C07TUnion2
/-
C07, tree level — classification of samples into families, and the two inductions over nested samples:
`cong_all` (every sample respects the equivalence and the invariant) and `swap_all` (any two samples commute).
-/
namespace SaModel.Lemmas.C07
open SaModel SaModel.Trace SaModel.Props.C07

/-! ### sizes of the parts -/

theorem pairsF_sz : ∀ {flds : SFields} {kv : String × SVal}, kv ∈ pairsF flds → sz kv.2 < szf flds + 1
  | .nil, _, h => by simp [pairsF] at h
  | .cons k a v r, kv, h => by
    simp only [pairsF, List.mem_cons] at h
    simp only [szf]
    rcases h with rfl | h
    · simp only; omega
    · have := pairsF_sz h; omega

theorem pairsE_sz : ∀ {es : SEntries} {ps : List (String × SVal)} {kv : String × SVal}, pairsE es = some ps → kv ∈ ps →
    sz kv.2 < sze es + 1
  | .nil, ps, kv, h, hm => by rw [pairsE] at h; cases h; cases hm
  | .cons k v r, ps, kv, h, hm => by
    cases k with
    | str s =>
      simp only [pairsE] at h
      cases hp : pairsE r with
      | none => rw [hp] at h; simp at h
      | some ps' =>
        rw [hp] at h
        simp only [Option.some.injEq] at h
        subst h
        simp only [sze]
        rcases List.mem_cons.mp hm with rfl | hm
        · simp only; omega
        · have := pairsE_sz hp hm; omega
    | _ => simp [pairsE] at h

theorem pairsO_sz : ∀ {ops : SMapOps} {nk : Option String} {ps : List (String × SVal)} {kv : String × SVal},
    pairsO nk ops = some ps → kv ∈ ps → sz kv.2 < szo ops + 1
  | .nil, nk, ps, kv, h, hm => by rw [pairsO] at h; cases h; cases hm
  | .key k r, nk, ps, kv, h, hm => by
    cases k with
    | str s =>
      simp only [pairsO] at h
      have := pairsO_sz h hm
      simp only [szo]; omega
    | _ => simp [pairsO] at h
  | .value v r, nk, ps, kv, h, hm => by
    simp only [pairsO] at h
    cases nk with
    | none => simp at h
    | some key =>
      cases hp : pairsO none r with
      | none => rw [hp] at h; simp at h
      | some ps' =>
        rw [hp] at h
        simp only [Option.some.injEq] at h
        subst h
        simp only [szo]
        rcases List.mem_cons.mp hm with rfl | hm
        · simp only; omega
        · have := pairsO_sz hp hm; omega

theorem keysE_sz : ∀ {es : SEntries} {v : SVal}, v ∈ keysE es → sz v < sze es + 1
  | .nil, _, h => by simp [keysE] at h
  | .cons k w r, v, h => by
    simp only [keysE, List.mem_cons] at h
    simp only [sze]
    rcases h with rfl | h
    · omega
    · have := keysE_sz h; omega

theorem valsE_sz : ∀ {es : SEntries} {v : SVal}, v ∈ valsE es → sz v < sze es + 1
  | .nil, _, h => by simp [valsE] at h
  | .cons k w r, v, h => by
    simp only [valsE, List.mem_cons] at h
    simp only [sze]
    rcases h with rfl | h
    · omega
    · have := valsE_sz h; omega

theorem keysO_sz : ∀ {ops : SMapOps} {v : SVal}, v ∈ keysO ops → sz v < szo ops + 1
  | .nil, _, h => by simp [keysO] at h
  | .key k r, v, h => by
    simp only [keysO, List.mem_cons] at h
    simp only [szo]
    rcases h with rfl | h
    · omega
    · have := keysO_sz h; omega
  | .value w r, v, h => by
    simp only [keysO] at h
    simp only [szo]
    have := keysO_sz h; omega

theorem valsO_sz : ∀ {ops : SMapOps} {v : SVal}, v ∈ valsO ops → sz v < szo ops + 1
  | .nil, _, h => by simp [valsO] at h
  | .key k r, v, h => by
    simp only [valsO] at h
    simp only [szo]
    have := valsO_sz h; omega
  | .value w r, v, h => by
    simp only [valsO, List.mem_cons] at h
    simp only [szo]
    rcases h with rfl | h
    · omega
    · have := valsO_sz h; omega

/-! ### families -/

/-- `x` belongs to the container family of shape `S`; the parts are smaller than `x` -/
def Fam (o : Options) (x : SVal) : Shape → Prop
  | .list => ∃ items, x = .seq items
  | .struct => ∃ mode ps, StructLike o x mode ps ∧ ∀ kv ∈ ps, sz kv.2 < sz x
  | .map => ∃ ks vs, MapLike o x ks vs ∧ (∀ v ∈ ks, sz v < sz x) ∧ (∀ v ∈ vs, sz v < sz x)
  | .tuple => ∃ items, TupleLike o x items ∧ ∀ v ∈ items.toList, sz v < sz x
  | .union => ∃ idx vn payload, UnionLike o x idx vn payload ∧ sz payload < sz x

/-- every sample is a transparent wrapper, a leaf, never accepted, or belongs to a container family -/
theorem classify (o : Options) (x : SVal) :
    x = .none ∨ (∃ v, x = .some v) ∨ (∃ n v, x = .newtypeStruct n v) ∨ (∃ ty, leafTypeOf o x = some ty) ∨
      Never o x ∨ ∃ S, Fam o x S := by
  cases x
  case none => exact .inl rfl
  case some v => exact .inr (.inl ⟨v, rfl⟩)
  case newtypeStruct n v => exact .inr (.inr (.inl ⟨n, v, rfl⟩))
  case unit => exact .inr (.inr (.inr (.inl ⟨_, rfl⟩)))
  case bool => exact .inr (.inr (.inr (.inl ⟨_, rfl⟩)))
  case int => exact .inr (.inr (.inr (.inl ⟨_, rfl⟩)))
  case f32 => exact .inr (.inr (.inr (.inl ⟨_, rfl⟩)))
  case f64 => exact .inr (.inr (.inr (.inl ⟨_, rfl⟩)))
  case char => exact .inr (.inr (.inr (.inl ⟨_, rfl⟩)))
  case str => exact .inr (.inr (.inr (.inl ⟨_, rfl⟩)))
  case bytes => exact .inr (.inr (.inr (.inl ⟨_, rfl⟩)))
  case unitStruct => exact .inr (.inr (.inr (.inl ⟨_, rfl⟩)))
  case seq items => exact .inr (.inr (.inr (.inr (.inr ⟨.list, items, rfl⟩))))
  case tuple items =>
    exact .inr (.inr (.inr (.inr (.inr ⟨.tuple, items, tupleLike_tuple o items, fun v hv => by
      have := szs_mem items v hv; simp only [sz]; omega⟩))))
  case tupleStruct nm items =>
    exact .inr (.inr (.inr (.inr (.inr ⟨.tuple, items, tupleLike_tupleStruct o nm items, fun v hv => by
      have := szs_mem items v hv; simp only [sz]; omega⟩))))
  case record nm flds =>
    exact .inr (.inr (.inr (.inr (.inr ⟨.struct, .struct, pairsF flds, structLike_record o nm flds, fun kv hkv => by
      have := pairsF_sz hkv; simp only [sz]; omega⟩))))
  case map es =>
    cases hm : o.map_as_struct with
    | true =>
      rcases map_as_struct_cases hm es with ⟨ps, hp, hl⟩ | hn
      · exact .inr (.inr (.inr (.inr (.inr ⟨.struct, .map, ps, hl, fun kv hkv => by
          have := pairsE_sz hp hkv; simp only [sz]; omega⟩))))
      · exact .inr (.inr (.inr (.inr (.inl hn))))
    | false =>
      exact .inr (.inr (.inr (.inr (.inr ⟨.map, keysE es, valsE es, mapLike_map hm es,
        fun v hv => by have := keysE_sz hv; simp only [sz]; omega,
        fun v hv => by have := valsE_sz hv; simp only [sz]; omega⟩))))
  case mapRaw ops =>
    cases hm : o.map_as_struct with
    | true =>
      rcases mapRaw_as_struct_cases hm ops with ⟨ps, hp, hl⟩ | hn
      · exact .inr (.inr (.inr (.inr (.inr ⟨.struct, .map, ps, hl, fun kv hkv => by
          have := pairsO_sz hp hkv; simp only [sz]; omega⟩))))
      · exact .inr (.inr (.inr (.inr (.inl hn))))
    | false =>
      exact .inr (.inr (.inr (.inr (.inr ⟨.map, keysO ops, valsO ops, mapLike_mapRaw hm ops,
        fun v hv => by have := keysO_sz hv; simp only [sz]; omega,
        fun v hv => by have := valsO_sz hv; simp only [sz]; omega⟩))))
  case unitVariant nm idx vn =>
    exact .inr (.inr (.inr (.inr (.inr ⟨.union, idx, vn, .unit, unionLike_unit o nm idx vn, by simp [sz]⟩))))
  case newtypeVariant nm idx vn v =>
    exact .inr (.inr (.inr (.inr (.inr ⟨.union, idx, vn, v, unionLike_newtype o nm idx vn v, by simp [sz]⟩))))
  case tupleVariant nm idx vn items =>
    exact .inr (.inr (.inr (.inr (.inr ⟨.union, idx, vn, .tuple items, unionLike_tuple o nm idx vn items, by simp [sz]⟩))))
  case structVariant nm idx vn flds =>
    exact .inr (.inr (.inr (.inr (.inr ⟨.union, idx, vn, .record nm flds, unionLike_struct o nm idx vn flds, by simp [sz]⟩))))

theorem fam_shape {o : Options} {x : SVal} {S : Shape} (h : Fam o x S) : NeedsShape o x S := by
  intro t a ha
  cases S
  case list => obtain ⟨items, rfl⟩ := h; exact shape_seq ha
  case struct => obtain ⟨_, _, hl, _⟩ := h; exact shape_struct hl ha
  case map => obtain ⟨_, _, hl, _⟩ := h; exact shape_map hl ha
  case tuple => obtain ⟨_, hl, _⟩ := h; exact shape_tuple hl ha
  case union => obtain ⟨_, _, _, hl, _⟩ := h; exact shape_union hl ha

theorem fam_unk {o : Options} {x : SVal} {S : Shape} (h : Fam o x S) : UnkIff o x := by
  intro n p nl a
  have hu1 : (Tracer.primitive n p nl .null none).is_unknown_or_null = true := rfl
  have hu2 : (Tracer.unknown n p nl).is_unknown_or_null = true := rfl
  cases S
  case list =>
    obtain ⟨items, rfl⟩ := h
    simp only [absorb, ensure_list_unk hu1 hu2 rfl rfl rfl]
  case struct =>
    obtain ⟨mode, ps, hl, _⟩ := h
    rw [hl _ a, hl _ a, ensure_struct_unk hu1 hu2 rfl rfl rfl]
  case map =>
    obtain ⟨ks, vs, hl, _⟩ := h
    rw [hl _ a, hl _ a, ensure_map_unk hu1 hu2 rfl rfl rfl]
  case tuple =>
    obtain ⟨items, hl, _⟩ := h
    rw [hl _ a, hl _ a, ensure_tuple_unk hu1 hu2 rfl rfl rfl]
  case union =>
    obtain ⟨idx, vn, payload, hl, _⟩ := h
    rw [hl _, hl _, variantDo_ok, variantDo_ok, ensure_union_unk hu1 hu2 rfl rfl rfl]

/-! ### every sample respects the equivalence -/

theorem cong_all (o : Options) : ∀ (n : Nat) (x : SVal), sz x ≤ n → Cong o x := by
  intro n
  induction n with
  | zero => intro x h; have := sz_pos x; omega
  | succ n ih =>
    intro x hx
    rcases classify o x with rfl | ⟨v, rfl⟩ | ⟨nm, v, rfl⟩ | ⟨ty, hl⟩ | hn | ⟨S, hf⟩
    · exact cong_none o
    · exact cong_some (ih v (by simp only [sz] at hx; omega))
    · exact cong_newtype (ih v (by simp only [sz] at hx; omega))
    · exact cong_leaf hl
    · exact hn.cong
    · cases S
      case list =>
        obtain ⟨items, rfl⟩ := hf
        exact cong_seq fun v hv => ih v (by have := szs_mem items v hv; simp only [sz] at hx; omega)
      case struct =>
        obtain ⟨mode, ps, hl, hs⟩ := hf
        exact cong_struct hl fun kv hkv => ih kv.2 (by have := hs kv hkv; omega)
      case map =>
        obtain ⟨ks, vs, hl, hk, hv⟩ := hf
        exact cong_map hl (fun v h => ih v (by have := hk v h; omega)) (fun v h => ih v (by have := hv v h; omega))
      case tuple =>
        obtain ⟨items, hl, hs⟩ := hf
        exact cong_tuple hl fun v hv => ih v (by have := hs v hv; omega)
      case union =>
        obtain ⟨idx, vn, payload, hl, hs⟩ := hf
        exact cong_union hl (ih payload (by omega))

theorem cong_any (o : Options) (x : SVal) : Cong o x := cong_all o (sz x) x (Nat.le_refl _)

/-! ### any two samples commute -/

theorem fam_swap {o : Options} {x y : SVal} {S : Shape} (hx : Fam o x S) (hy : Fam o y S)
    (ih : ∀ u v, (sz u < sz x ∨ sz u < sz y) → (sz v < sz x ∨ sz v < sz y) → Swap o u v) : Swap o x y := by
  cases S
  case list =>
    obtain ⟨xs, rfl⟩ := hx
    obtain ⟨ys, rfl⟩ := hy
    have hb : ∀ v ∈ xs.toList ++ ys.toList, sz v < sz (.seq xs) ∨ sz v < sz (.seq ys) := by
      intro v hv
      rcases List.mem_append.mp hv with h | h
      · exact .inl (by have := szs_mem xs v h; simp only [sz]; omega)
      · exact .inr (by have := szs_mem ys v h; simp only [sz]; omega)
    exact swap_seq (fun v _ => cong_any o v) fun u hu v hv => ih u v (hb u hu) (hb v hv)
  case struct =>
    obtain ⟨mx, px, hlx, hsx⟩ := hx
    obtain ⟨my, py, hly, hsy⟩ := hy
    have hb : ∀ kv ∈ px ++ py, sz kv.2 < sz x ∨ sz kv.2 < sz y := by
      intro kv hkv
      rcases List.mem_append.mp hkv with h | h
      · exact .inl (hsx kv h)
      · exact .inr (hsy kv h)
    exact swap_struct hlx hly (fun kv _ => cong_any o kv.2) fun u hu v hv => ih u.2 v.2 (hb u hu) (hb v hv)
  case map =>
    obtain ⟨kx, vx, hlx, hkx, hvx⟩ := hx
    obtain ⟨ky, vy, hly, hky, hvy⟩ := hy
    have hbk : ∀ v ∈ kx ++ ky, sz v < sz x ∨ sz v < sz y := by
      intro v hv
      rcases List.mem_append.mp hv with h | h
      · exact .inl (hkx v h)
      · exact .inr (hky v h)
    have hbv : ∀ v ∈ vx ++ vy, sz v < sz x ∨ sz v < sz y := by
      intro v hv
      rcases List.mem_append.mp hv with h | h
      · exact .inl (hvx v h)
      · exact .inr (hvy v h)
    exact swap_map hlx hly (fun v _ => cong_any o v) (fun u hu v hv => ih u v (hbk u hu) (hbk v hv))
      (fun v _ => cong_any o v) (fun u hu v hv => ih u v (hbv u hu) (hbv v hv))
  case tuple =>
    obtain ⟨ix, hlx, hsx⟩ := hx
    obtain ⟨iy, hly, hsy⟩ := hy
    have hb : ∀ v ∈ ix.toList ++ iy.toList, sz v < sz x ∨ sz v < sz y := by
      intro v hv
      rcases List.mem_append.mp hv with h | h
      · exact .inl (hsx v h)
      · exact .inr (hsy v h)
    exact swap_tuple hlx hly (fun v _ => cong_any o v) fun u hu v hv => ih u v (hb u hu) (hb v hv)
  case union =>
    obtain ⟨i, a, u, hlx, hsx⟩ := hx
    obtain ⟨j, b, w, hly, hsy⟩ := hy
    exact swap_union hlx hly (cong_any o u) (cong_any o w) (ih u w (.inl hsx) (.inr hsy))

/-- one level: given the law for all strictly smaller samples, the law for samples of size `≤ M` -/
theorem swap_le {o : Options} (hno : o.allow_to_string = false) (M : Nat)
    (outer : ∀ u v, sz u < M → sz v < M → Swap o u v) :
    ∀ (s : Nat) (x y : SVal), sz x ≤ M → sz y ≤ M → sz x + sz y ≤ s → Swap o x y := by
  intro s
  induction s with
  | zero => intro x y _ _ h; have := sz_pos x; omega
  | succ s ih =>
    intro x y hxM hyM hs
    rcases classify o x with rfl | ⟨v, rfl⟩ | ⟨nm, v, rfl⟩ | hxc
    · exact swap_none_l (cong_any o y)
    · exact swap_some_l (ih v y (by simp only [sz] at hxM; omega) hyM (by simp only [sz] at hs; omega))
    · exact swap_newtype_l (ih v y (by simp only [sz] at hxM; omega) hyM (by simp only [sz] at hs; omega))
    · rcases classify o y with rfl | ⟨v, rfl⟩ | ⟨nm, v, rfl⟩ | hyc
      · exact swap_none_r (cong_any o x)
      · exact swap_some_r (ih x v hxM (by simp only [sz] at hyM; omega) (by simp only [sz] at hs; omega))
      · exact swap_newtype_r (ih x v hxM (by simp only [sz] at hyM; omega) (by simp only [sz] at hs; omega))
      · rcases hxc with ⟨tx, hlx⟩ | hnx | ⟨Sx, hfx⟩
        · rcases hyc with ⟨ty, hly⟩ | hny | ⟨Sy, hfy⟩
          · exact swap_leaf_leaf hno hlx hly
          · exact hny.swap_r x
          · exact (swap_leaf_cont hlx (fam_shape hfy) (cong_any o y) (fam_unk hfy)).1
        · exact hnx.swap_l y
        · rcases hyc with ⟨ty, hly⟩ | hny | ⟨Sy, hfy⟩
          · exact (swap_leaf_cont hly (fam_shape hfx) (cong_any o x) (fam_unk hfx)).2
          · exact hny.swap_r x
          · by_cases hS : Sx = Sy
            · subst hS
              exact fam_swap hfx hfy fun u v hu hv => outer u v (by omega) (by omega)
            · exact swap_mismatch (fam_shape hfx) (fam_shape hfy) hS

theorem swap_all {o : Options} (hno : o.allow_to_string = false) : ∀ (M : Nat) (x y : SVal), sz x ≤ M → sz y ≤ M →
    Swap o x y := by
  intro M
  induction M with
  | zero => intro x y h _; have := sz_pos x; omega
  | succ M ih =>
    intro x y hx hy
    exact swap_le hno (M + 1) (fun u v hu hv => ih u v (by omega) (by omega)) _ x y hx hy (Nat.le_refl _)

theorem swap_any {o : Options} (hno : o.allow_to_string = false) (x y : SVal) : Swap o x y :=
  swap_all hno (max (sz x) (sz y)) x y (by omega) (by omega)

end SaModel.Lemmas.C07
