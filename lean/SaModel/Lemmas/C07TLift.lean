import SaModel.Lemmas.C07TInd
/-
C07, tree level — the laws in two-sided form (`Eqv`, `OutEqv`), lifted to sample lists and to `from_samples` up to
`check` (the overwrite check only reads the set of paths).
-/
namespace SaModel.Lemmas.C07
open SaModel SaModel.Trace SaModel.Props.C07

/-- outcomes agree: both succeed with equivalent, well-formed tracers, or both fail -/
def OutEqv (o : Options) (r r' : R Tracer) : Prop :=
  (∃ a b, r = .ok a ∧ r' = .ok b ∧ Eqv a b ∧ WF o a ∧ WF o b) ∨ (r.isOk = false ∧ r'.isOk = false)

theorem OutEqv.symm {o : Options} {r r' : R Tracer} (h : OutEqv o r r') : OutEqv o r' r := by
  rcases h with ⟨a, b, h1, h2, he, hwa, hwb⟩ | ⟨h1, h2⟩
  · exact .inl ⟨b, a, h2, h1, he.symm, hwb, hwa⟩
  · exact .inr ⟨h2, h1⟩

theorem OutEqv.trans {o : Options} {r1 r2 r3 : R Tracer} (h : OutEqv o r1 r2) (h' : OutEqv o r2 r3) : OutEqv o r1 r3 := by
  rcases h with ⟨a, b, h1, h2, he, hwa, hwb⟩ | ⟨h1, h2⟩ <;> rcases h' with ⟨b', c, h3, h4, he', hwb', hwc⟩ | ⟨h3, h4⟩
  · rw [h2] at h3; cases h3; exact .inl ⟨a, c, h1, h4, he.trans he', hwa, hwc⟩
  · rw [h2] at h3; cases h3
  · rw [h3] at h2; cases h2
  · exact .inr ⟨h1, h4⟩

/-- build `OutEqv` from the two one-sided statements -/
theorem OutEqv.of_sides {o : Options} {r r' : R Tracer}
    (h1 : ∀ a, r = .ok a → ∃ b, r' = .ok b ∧ TEq a b ∧ WF o a ∧ WF o b)
    (h2 : ∀ b, r' = .ok b → ∃ a, r = .ok a ∧ TEq b a) : OutEqv o r r' := by
  cases hr : r with
  | ok a =>
    obtain ⟨b, hb, he, hwa, hwb⟩ := h1 a hr
    obtain ⟨a', ha', he'⟩ := h2 b hb
    rw [hr] at ha'; cases ha'
    exact .inl ⟨a, b, rfl, hb, ⟨he, he'⟩, hwa, hwb⟩
  | error e =>
    cases hr' : r' with
    | ok b =>
      obtain ⟨a, ha, _⟩ := h2 b hr'
      rw [hr] at ha; cases ha
    | error e' => exact .inr ⟨rfl, rfl⟩

theorem cong_out (o : Options) {t t' : Tracer} (hw : WF o t) (hw' : WF o t') (he : Eqv t t') (x : SVal) :
    OutEqv o (absorb .fixed o t x) (absorb .fixed o t' x) := by
  apply OutEqv.of_sides
  · intro a ha
    obtain ⟨b, hb, heb, hwa⟩ := cong_any o x t t' a hw hw' he.1 ha
    exact ⟨b, hb, heb, hwa, (cong_any o x).wf hw' hb⟩
  · intro b hb
    obtain ⟨a, ha, hea, _⟩ := cong_any o x t' t b hw' hw he.2 hb
    exact ⟨a, ha, hea⟩

theorem absorb2_wf (o : Options) {t a : Tracer} {x y : SVal} (hw : WF o t) (h : absorb2 .fixed o t x y = .ok a) :
    WF o a := by
  obtain ⟨m, h1, h2⟩ := absorb2_ok h
  exact (cong_any o y).wf ((cong_any o x).wf hw h1) h2

theorem swap_out {o : Options} (hno : o.allow_to_string = false) {t : Tracer} (hw : WF o t) (x y : SVal) :
    OutEqv o (absorb2 .fixed o t x y) (absorb2 .fixed o t y x) := by
  apply OutEqv.of_sides
  · intro a ha
    obtain ⟨b, hb, heb⟩ := swap_any hno x y t a hw ha
    exact ⟨b, hb, heb, absorb2_wf o hw ha, absorb2_wf o hw hb⟩
  · intro b hb
    exact swap_any hno y x t b hw hb

theorem absorbAll_wf (o : Options) : ∀ {xs : List SVal} {t a : Tracer}, WF o t → absorbAll .fixed o t xs = .ok a → WF o a
  | [], t, a, hw, h => by cases h; exact hw
  | x :: xs, t, a, hw, h => by
    obtain ⟨m, h1, h2⟩ := absorbAll_cons_ok h
    exact absorbAll_wf o ((cong_any o x).wf hw h1) h2

theorem perm_out {o : Options} (hno : o.allow_to_string = false) {xs ys : List SVal} (hp : xs.Perm ys) {t t' : Tracer}
    (hw : WF o t) (hw' : WF o t') (he : Eqv t t') :
    OutEqv o (absorbAll .fixed o t xs) (absorbAll .fixed o t' ys) := by
  apply OutEqv.of_sides
  · intro a ha
    obtain ⟨b, hb, heb, hwa, hwb⟩ := permL hp (fun x _ => cong_any o x) (fun x _ y _ => swap_any hno x y) hw hw' he.1 ha
    exact ⟨b, hb, heb, hwa, hwb⟩
  · intro b hb
    obtain ⟨a, ha, hea, _, _⟩ := permL hp.symm (fun x _ => cong_any o x) (fun x _ y _ => swap_any hno x y) hw' hw he.2 hb
    exact ⟨a, ha, hea⟩

/-! ### `check` only reads the name and the set of paths -/

theorem find_paths : ∀ {fs : TFields} {k l t}, fs.find k = some (l, t) → ∀ p ∈ t.collect_paths, p ∈ fs.collect_paths
  | .nil, _, _, _, h, _, _ => by simp [TFields.find] at h
  | .cons n l0 t0 r, k, l, t, h, p, hp => by
    simp only [TFields.find] at h
    simp only [TFields.collect_paths, List.mem_append]
    by_cases hn : n = k
    · simp only [hn, if_true, Option.some.injEq, Prod.mk.injEq] at h
      rw [h.2]; exact .inl hp
    · simp only [hn, if_false] at h
      exact .inr (find_paths h p hp)

mutual
theorem TEq_paths : ∀ (a b : Tracer), TEq a b → ∀ p ∈ a.collect_paths, p ∈ b.collect_paths
  | .unknown _ _ _, b, h, p, hp => by rw [TEq] at h; subst h; exact hp
  | .primitive _ _ _ _ _, b, h, p, hp => by rw [TEq] at h; subst h; exact hp
  | .list _ _ _ i, b, h, p, hp => by
    rw [TEq] at h; obtain ⟨i', rfl, h⟩ := h
    simp only [Tracer.collect_paths, List.mem_cons] at hp ⊢
    rcases hp with rfl | hp
    · exact .inl rfl
    · exact .inr (TEq_paths i i' h p hp)
  | .map _ _ _ k v, b, h, p, hp => by
    rw [TEq] at h; obtain ⟨k', v', rfl, h1, h2⟩ := h
    simp only [Tracer.collect_paths, List.mem_cons, List.mem_append] at hp ⊢
    rcases hp with rfl | hp | hp
    · exact .inl rfl
    · exact .inr (.inl (TEq_paths k k' h1 p hp))
    · exact .inr (.inr (TEq_paths v v' h2 p hp))
  | .struct _ _ _ fs _ _, b, h, p, hp => by
    rw [TEq] at h; obtain ⟨fs', s', rfl, _, _, h⟩ := h
    simp only [Tracer.collect_paths, List.mem_cons] at hp ⊢
    rcases hp with rfl | hp
    · exact .inl rfl
    · exact .inr (FSub_paths fs fs' h p hp)
  | .tuple _ _ _ ts, b, h, p, hp => by
    rw [TEq] at h; obtain ⟨ts', rfl, h⟩ := h
    simp only [Tracer.collect_paths, List.mem_cons] at hp ⊢
    rcases hp with rfl | hp
    · exact .inl rfl
    · exact .inr (TsEq_paths ts ts' h p hp)
  | .union _ _ _ vs, b, h, p, hp => by
    rw [TEq] at h; obtain ⟨vs', rfl, h⟩ := h
    simp only [Tracer.collect_paths, List.mem_cons] at hp ⊢
    rcases hp with rfl | hp
    · exact .inl rfl
    · exact .inr (VEq_paths vs vs' h p hp)
theorem TsEq_paths : ∀ (a b : Tracers), TsEq a b → ∀ p ∈ a.collect_paths, p ∈ b.collect_paths
  | .nil, b, h, p, hp => by simp [Tracers.collect_paths] at hp
  | .cons t r, b, h, p, hp => by
    rw [TsEq] at h; obtain ⟨t', r', rfl, h1, h2⟩ := h
    simp only [Tracers.collect_paths, List.mem_append] at hp ⊢
    rcases hp with hp | hp
    · exact .inl (TEq_paths t t' h1 p hp)
    · exact .inr (TsEq_paths r r' h2 p hp)
theorem FSub_paths : ∀ (a b : TFields), FSub a b → ∀ p ∈ a.collect_paths, p ∈ b.collect_paths
  | .nil, b, h, p, hp => by simp [TFields.collect_paths] at hp
  | .cons n l t r, b, h, p, hp => by
    rw [FSub] at h
    obtain ⟨⟨l', t', hf, he⟩, h2⟩ := h
    simp only [TFields.collect_paths, List.mem_append] at hp
    rcases hp with hp | hp
    · exact find_paths hf p (TEq_paths t t' he p hp)
    · exact FSub_paths r b h2 p hp
theorem VEq_paths : ∀ (a b : Variants), VEq a b → ∀ p ∈ a.collect_paths, p ∈ b.collect_paths
  | .nil, b, h, p, hp => by simp [Variants.collect_paths] at hp
  | .absent r, b, h, p, hp => by
    rw [VEq] at h; obtain ⟨r', rfl, h⟩ := h
    simp only [Variants.collect_paths] at hp ⊢
    exact VEq_paths r r' h p hp
  | .present _ t r, b, h, p, hp => by
    rw [VEq] at h; obtain ⟨t', r', rfl, h1, h2⟩ := h
    simp only [Variants.collect_paths, List.mem_append] at hp ⊢
    rcases hp with hp | hp
    · exact .inl (TEq_paths t t' h1 p hp)
    · exact .inr (VEq_paths r r' h2 p hp)
end

theorem check_eqv (o : Options) {a b : Tracer} (h : Eqv a b) : a.check o = b.check o := by
  unfold Tracer.check Tracer.check_overwrites
  rw [(TEq_top h.1).1]
  have : (o.overwrites.all fun kv => a.collect_paths.contains kv.1) =
      (o.overwrites.all fun kv => b.collect_paths.contains kv.1) := by
    congr 1
    funext kv
    rw [Bool.eq_iff_iff]
    simp only [List.contains_iff_mem]
    exact ⟨TEq_paths a b h.1 kv.1, TEq_paths b a h.2 kv.1⟩
  simp only [this]

theorem fromSamplesTracer_ok {o : Options} {xs : List SVal} {a : Tracer} :
    fromSamplesTracer .fixed o xs = .ok a ↔
      absorbAll .fixed o (Tracer.new "$" "$") xs = .ok a ∧ a.check o = .ok () := by
  unfold fromSamplesTracer Tracer.finish
  simp only [bind, Except.bind]
  cases absorbAll .fixed o (Tracer.new "$" "$") xs with
  | error e => simp
  | ok t =>
    simp only
    cases h : t.check o with
    | error e => simp; intro e'; subst e'; rw [h]; intro h'; cases h'
    | ok u => simp; intro e'; subst e'; exact h

end SaModel.Lemmas.C07
