import SaModel.Lemmas.C07TName
/-
C07, tree level — the two laws as predicates on samples (`Cong`: `absorb` respects the equivalence and preserves the
invariant; `Swap`: two samples commute up to the equivalence), their lift to sample lists (`absorbAll`, any
permutation), and the leaf / `None` / `Some` / newtype cases.
-/
namespace SaModel.Lemmas.C07
open SaModel SaModel.Trace SaModel.Props.C07

/-- `absorb` (repaired code) respects `TEq` and preserves `WF` -/
def Cong (o : Options) (x : SVal) : Prop :=
  ∀ t t' a, WF o t → WF o t' → TEq t t' → absorb .fixed o t x = .ok a →
    ∃ b, absorb .fixed o t' x = .ok b ∧ TEq a b ∧ WF o a

/-- success of `x` then `y` implies success of `y` then `x` with an equivalent tracer -/
def Swap (o : Options) (x y : SVal) : Prop :=
  ∀ t a, WF o t → absorb2 .fixed o t x y = .ok a → ∃ b, absorb2 .fixed o t y x = .ok b ∧ TEq a b

theorem Cong.wf {o : Options} {x : SVal} (h : Cong o x) {t a : Tracer} (hw : WF o t)
    (ha : absorb .fixed o t x = .ok a) : WF o a := by
  obtain ⟨_, _, _, hwa⟩ := h t t a hw hw (TEq_refl o t hw) ha
  exact hwa

theorem absorb2_ok {c o t x y a} (h : absorb2 c o t x y = .ok a) :
    ∃ m, absorb c o t x = .ok m ∧ absorb c o m y = .ok a := by
  unfold absorb2 at h
  cases h1 : absorb c o t x with
  | ok m => rw [h1] at h; exact ⟨m, rfl, h⟩
  | error e => rw [h1] at h; cases h

theorem absorb2_mk {c o t x y m a} (h1 : absorb c o t x = .ok m) (h2 : absorb c o m y = .ok a) :
    absorb2 c o t x y = .ok a := by
  unfold absorb2; rw [h1]; exact h2

/-! ### sample lists -/

theorem absorbAll_cons_ok {c o t x xs a} (h : absorbAll c o t (x :: xs) = .ok a) :
    ∃ m, absorb c o t x = .ok m ∧ absorbAll c o m xs = .ok a := by
  simp only [absorbAll, bind, Except.bind] at h
  cases h1 : absorb c o t x with
  | ok m => rw [h1] at h; exact ⟨m, rfl, h⟩
  | error e => rw [h1] at h; cases h

theorem absorbAll_cons_mk {c o t x xs m a} (h1 : absorb c o t x = .ok m) (h2 : absorbAll c o m xs = .ok a) :
    absorbAll c o t (x :: xs) = .ok a := by
  simp only [absorbAll, bind, Except.bind, h1]; exact h2

theorem absorbAll_append_ok {c o} : ∀ {xs ys : List SVal} {t a}, absorbAll c o t (xs ++ ys) = .ok a →
    ∃ m, absorbAll c o t xs = .ok m ∧ absorbAll c o m ys = .ok a
  | [], ys, t, a, h => ⟨t, rfl, h⟩
  | x :: xs, ys, t, a, h => by
    obtain ⟨m, h1, h2⟩ := absorbAll_cons_ok (xs := xs ++ ys) h
    obtain ⟨m', h3, h4⟩ := absorbAll_append_ok h2
    exact ⟨m', absorbAll_cons_mk h1 h3, h4⟩

theorem absorbAll_append_mk {c o} : ∀ {xs ys : List SVal} {t m a}, absorbAll c o t xs = .ok m →
    absorbAll c o m ys = .ok a → absorbAll c o t (xs ++ ys) = .ok a
  | [], ys, t, m, a, h1, h2 => by cases h1; exact h2
  | x :: xs, ys, t, m, a, h1, h2 => by
    obtain ⟨m', h3, h4⟩ := absorbAll_cons_ok h1
    exact absorbAll_cons_mk (xs := xs ++ ys) h3 (absorbAll_append_mk h4 h2)

theorem absorbSeq_eq (c : Code) (o : Options) : ∀ (items : SVals) (t : Tracer),
    absorbSeq c o t items = absorbAll c o t items.toList
  | .nil, t => by simp only [absorbSeq, SVals.toList, absorbAll]
  | .cons v r, t => by
    simp only [absorbSeq, SVals.toList, absorbAll, bind, Except.bind]
    cases absorb c o t v with
    | ok m => exact absorbSeq_eq c o r m
    | error e => rfl

/-- congruence for a list of samples -/
theorem congL {o : Options} : ∀ {xs : List SVal}, (∀ x ∈ xs, Cong o x) → ∀ {t t' a}, WF o t → WF o t' → TEq t t' →
    absorbAll .fixed o t xs = .ok a → ∃ b, absorbAll .fixed o t' xs = .ok b ∧ TEq a b ∧ WF o a ∧ WF o b
  | [], _, t, t', a, hw, hw', he, h => by cases h; exact ⟨t', rfl, he, hw, hw'⟩
  | x :: xs, hc, t, t', a, hw, hw', he, h => by
    obtain ⟨m, h1, h2⟩ := absorbAll_cons_ok h
    obtain ⟨m', h3, he', hwm⟩ := hc x (by simp) t t' m hw hw' he h1
    have hwm' := (hc x (by simp)).wf hw' h3
    obtain ⟨b, h4, r⟩ := congL (fun y hy => hc y (by simp [hy])) hwm hwm' he' h2
    exact ⟨b, absorbAll_cons_mk h3 h4, r⟩

/-- any permutation of a sample list whose elements satisfy `Cong` and pairwise `Swap` -/
theorem permL {o : Options} {xs ys : List SVal} (hp : xs.Perm ys) :
    (∀ x ∈ xs, Cong o x) → (∀ x ∈ xs, ∀ y ∈ xs, Swap o x y) → ∀ {t t' a}, WF o t → WF o t' → TEq t t' →
    absorbAll .fixed o t xs = .ok a → ∃ b, absorbAll .fixed o t' ys = .ok b ∧ TEq a b ∧ WF o a ∧ WF o b := by
  induction hp with
  | nil => intro _ _ t t' a hw hw' he h; cases h; exact ⟨t', rfl, he, hw, hw'⟩
  | cons x _ ih =>
    intro hc hs t t' a hw hw' he h
    obtain ⟨m, h1, h2⟩ := absorbAll_cons_ok h
    obtain ⟨m', h3, he', hwm⟩ := hc x (by simp) t t' m hw hw' he h1
    have hwm' := (hc x (by simp)).wf hw' h3
    obtain ⟨b, h4, r⟩ := ih (fun y hy => hc y (by simp [hy])) (fun y hy z hz => hs y (by simp [hy]) z (by simp [hz]))
      hwm hwm' he' h2
    exact ⟨b, absorbAll_cons_mk h3 h4, r⟩
  | swap x y l =>
    intro hc hs t t' a hw hw' he h
    -- xs = y :: x :: l, ys = x :: y :: l
    obtain ⟨m1, h1, h2⟩ := absorbAll_cons_ok h
    obtain ⟨m2, h3, h4⟩ := absorbAll_cons_ok h2
    obtain ⟨n2, h5, he2⟩ := hs y (by simp) x (by simp) t m2 hw (absorb2_mk h1 h3)
    obtain ⟨n1, h6, h7⟩ := absorb2_ok h5
    have hcx := hc x (by simp)
    have hcy := hc y (by simp)
    obtain ⟨n1', h8, he3, hwn1⟩ := hcx t t' n1 hw hw' he h6
    have hwn1' := hcx.wf hw' h8
    obtain ⟨n2', h9, he4, hwn2⟩ := hcy n1 n1' n2 hwn1 hwn1' he3 h7
    have hwn2' := hcy.wf hwn1' h9
    have hwm2 := hcx.wf (hcy.wf hw h1) h3
    obtain ⟨b, h10, r⟩ := congL (fun z hz => hc z (by simp [hz])) hwm2 hwn2' (TEq_trans _ _ _ he2 he4) h4
    exact ⟨b, absorbAll_cons_mk h8 (absorbAll_cons_mk h9 h10), r⟩
  | trans p1 _ ih1 ih2 =>
    intro hc hs t t' a hw hw' he h
    obtain ⟨b1, h1, he1, hwa, _⟩ := ih1 hc hs hw hw (TEq_refl o t hw) h
    obtain ⟨b2, h2, he2, _, hwb⟩ := ih2 (fun y hy => hc y (p1.mem_iff.mpr hy))
      (fun y hy z hz => hs y (p1.mem_iff.mpr hy) z (p1.mem_iff.mpr hz)) hw hw' he h1
    exact ⟨b2, h2, TEq_trans _ _ _ he1 he2, hwa, hwb⟩

/-! ### leaves, `None`, `Some`, newtype -/

def Tracer.isLeaf : Tracer → Bool
  | .unknown _ _ _ | .primitive _ _ _ _ _ => true
  | _ => false

theorem TEq_leaf {a b : Tracer} (h : TEq a b) (hl : Tracer.isLeaf a = true) : b = a := by
  cases a <;> rw [TEq] at h <;> first | exact h | (simp [Tracer.isLeaf] at hl)

theorem TEq_isLeaf {a b : Tracer} (h : TEq a b) : Tracer.isLeaf b = Tracer.isLeaf a := by
  cases a <;> rw [TEq] at h
  case unknown => subst h; rfl
  case primitive => subst h; rfl
  case list => obtain ⟨_, rfl, _⟩ := h; rfl
  case map => obtain ⟨_, _, rfl, _⟩ := h; rfl
  case struct => obtain ⟨_, _, rfl, _⟩ := h; rfl
  case tuple => obtain ⟨_, rfl, _⟩ := h; rfl
  case union => obtain ⟨_, rfl, _⟩ := h; rfl

theorem ensure_prim_container (o : Options) {t : Tracer} (hl : Tracer.isLeaf t = false) (ty : DataType)
    (st : Option Strategy) : t.ensure_primitive_with_strategy o ty st =
      if isNull ty then .ok t.mark_nullable else fail "Cannot merge container with primitive" := by
  cases t <;> first | rfl | (simp [Tracer.isLeaf] at hl)

theorem WF_leaf_embed {o : Options} {t : Tracer} (hw : WF o t) (hl : Tracer.isLeaf t = true) :
    ∃ s, s ∈ (leafStates o) ∧ t = LeafSt.embed t.name t.path s := by
  cases t <;> simp [Tracer.isLeaf] at hl
  case unknown n p nl =>
    refine ⟨(none, nl), ?_, rfl⟩
    unfold leafStates; cases nl <;> simp
  case primitive n p nl ty st =>
    rw [WF] at hw
    obtain ⟨rfl, h⟩ := hw
    exact ⟨(some ty, nl), h, rfl⟩

theorem WF_embed {o : Options} {n p : String} {s : LeafSt} (h : s ∈ leafStates o) : WF o (LeafSt.embed n p s) := by
  obtain ⟨ty, nl⟩ := s
  cases ty with
  | none => simp only [LeafSt.embed]; rw [WF]; trivial
  | some ty => simp only [LeafSt.embed]; rw [WF]; exact ⟨rfl, h⟩

theorem embed_name (n p : String) (s : LeafSt) : (LeafSt.embed n p s).name = n ∧ (LeafSt.embed n p s).path = p := by
  obtain ⟨ty, nl⟩ := s
  cases ty <;> exact ⟨rfl, rfl⟩

/-- `ensure_primitive` with a type of the alphabet respects the equivalence and the invariant -/
theorem ensure_prim_cong {o : Options} {ty : DataType} (hty : ty ∈ leafTypes o) {t t' a : Tracer} (hw : WF o t)
    (he : TEq t t') (h : t.ensure_primitive o ty = .ok a) :
    ∃ b, t'.ensure_primitive o ty = .ok b ∧ TEq a b ∧ WF o a := by
  cases hl : Tracer.isLeaf t with
  | true =>
    have e := TEq_leaf he hl
    rw [e]
    refine ⟨a, h, ?_⟩
    obtain ⟨s, hs, e⟩ := WF_leaf_embed hw hl
    rw [e, ensure_primitive_embed] at h
    cases h1 : act o s ty with
    | ok s' =>
      rw [h1] at h; cases h
      have := WF_embed (n := t.name) (p := t.path) (step_facts o hs hty h1).1
      exact ⟨TEq_refl o _ this, this⟩
    | error e' => rw [h1] at h; cases h
  | false =>
    have hl' : Tracer.isLeaf t' = false := by rw [TEq_isLeaf he, hl]
    unfold Tracer.ensure_primitive at h ⊢
    rw [ensure_prim_container o hl] at h
    rw [ensure_prim_container o hl']
    split at h
    · cases h
      rename_i hn
      simp only [hn, if_true]
      exact ⟨_, rfl, TEq_mark he, WF_mark hw⟩
    · cases h

theorem cong_leaf {o : Options} {x : SVal} {ty : DataType} (hx : leafTypeOf o x = some ty) : Cong o x := by
  intro t t' a hw _ he h
  rw [absorb_prim .fixed o t hx] at h
  rw [absorb_prim .fixed o t' hx]
  exact ensure_prim_cong (leafTypeOf_mem o hx) hw he h

theorem cong_none (o : Options) : Cong o .none := by
  intro t t' a hw _ he h
  simp only [absorb] at h ⊢
  cases h
  exact ⟨_, rfl, TEq_mark he, WF_mark hw⟩

theorem cong_some {o : Options} {v : SVal} (hv : Cong o v) : Cong o (.some v) := by
  intro t t' a hw hw' he h
  simp only [absorb] at h ⊢
  exact hv _ _ a (WF_mark hw) (WF_mark hw') (TEq_mark he) h

theorem cong_newtype {o : Options} {n : String} {v : SVal} (hv : Cong o v) : Cong o (.newtypeStruct n v) := by
  intro t t' a hw hw' he h
  simp only [absorb] at h ⊢
  exact hv _ _ a hw hw' he h

end SaModel.Lemmas.C07
