import SaModel.Lemmas.C07TStruct2
/-
C07, tree level — leaf/leaf, leaf/container and container/container (different shapes) cases of the swap law, the
fragment of samples covered so far (`Frag`) and the two main inductions (`cong_frag`, `swap_frag`).
-/
namespace SaModel.Lemmas.C07
open SaModel SaModel.Trace SaModel.Props.C07

/-- `x` needs (and leaves behind) a container node of shape `S` -/
def NeedsShape (o : Options) (x : SVal) (S : Shape) : Prop :=
  ∀ t a, absorb .fixed o t x = .ok a → Tracer.shape a = some S ∧ (t.is_unknown_or_null = true ∨ Tracer.shape t = some S)

/-! ### container samples only read name, path and the nullable flag of an `Unknown` / `Null` node -/

theorem enforce_path {t1 t2 : Tracer} (hp : t1.path = t2.path) : t1.enforce_depth_limit = t2.enforce_depth_limit := by
  unfold Tracer.enforce_depth_limit Tracer.get_depth; rw [hp]

theorem ensure_list_unk {t1 t2 : Tracer} (h1 : t1.is_unknown_or_null = true) (h2 : t2.is_unknown_or_null = true)
    (hn : t1.name = t2.name) (hp : t1.path = t2.path) (hl : t1.nullable = t2.nullable) :
    t1.ensure_list = t2.ensure_list := by
  unfold Tracer.ensure_list
  rw [enforce_path hp, h1, h2, hn, hp, hl]
  simp

theorem ensure_struct_unk {t1 t2 : Tracer} (h1 : t1.is_unknown_or_null = true) (h2 : t2.is_unknown_or_null = true)
    (hn : t1.name = t2.name) (hp : t1.path = t2.path) (hl : t1.nullable = t2.nullable) (c : Code) (f : List String)
    (m : StructMode) : t1.ensure_struct c f m = t2.ensure_struct c f m := by
  unfold Tracer.ensure_struct
  rw [enforce_path hp, h1, h2, hn, hp, hl]
  simp

theorem ensure_map_unk {t1 t2 : Tracer} (h1 : t1.is_unknown_or_null = true) (h2 : t2.is_unknown_or_null = true)
    (hn : t1.name = t2.name) (hp : t1.path = t2.path) (hl : t1.nullable = t2.nullable) :
    t1.ensure_map = t2.ensure_map := by
  unfold Tracer.ensure_map
  rw [enforce_path hp, h1, h2, hn, hp, hl]
  simp

theorem ensure_tuple_unk {t1 t2 : Tracer} (h1 : t1.is_unknown_or_null = true) (h2 : t2.is_unknown_or_null = true)
    (hn : t1.name = t2.name) (hp : t1.path = t2.path) (hl : t1.nullable = t2.nullable) (c : Code) (k : Nat) :
    t1.ensure_tuple c k = t2.ensure_tuple c k := by
  unfold Tracer.ensure_tuple
  rw [enforce_path hp, h1, h2, hn, hp, hl]
  simp

theorem ensure_union_unk {t1 t2 : Tracer} (h1 : t1.is_unknown_or_null = true) (h2 : t2.is_unknown_or_null = true)
    (hn : t1.name = t2.name) (hp : t1.path = t2.path) (hl : t1.nullable = t2.nullable) (vs : List String) :
    t1.ensure_union vs = t2.ensure_union vs := by
  unfold Tracer.ensure_union
  rw [enforce_path hp, h1, h2, hn, hp, hl]
  simp

/-- the node a null leaf sample leaves behind -/
def nullify : Tracer → Tracer
  | .unknown n p _ => .primitive n p true .null none
  | t => t.mark_nullable

theorem nullify_container {t : Tracer} (h : Tracer.isLeaf t = false) : nullify t = t.mark_nullable := by
  cases t <;> first | rfl | (simp [Tracer.isLeaf] at h)

theorem absorb_null_leaf {o : Options} {x : SVal} (hx : leafTypeOf o x = some .null) {t : Tracer} (hw : WF o t) :
    absorb .fixed o t x = .ok (nullify t) := by
  rw [absorb_prim .fixed o t hx]
  cases t
  case unknown => simp [Tracer.ensure_primitive, Tracer.ensure_primitive_with_strategy, nullify, isNull]
  case primitive n p nl ty st =>
    rw [WF] at hw
    obtain ⟨rfl, hm⟩ := hw
    have hm' := (mem_leafStates.mp hm).2
    simp only [Tracer.ensure_primitive, Tracer.ensure_primitive_with_strategy, coerce_primitive_type, nullify,
      Tracer.mark_nullable, Tracer.set_nullable]
    by_cases h : ty = .null
    · subst h; rw [hm' rfl]; rfl
    · simp [h, bind, Except.bind]
  all_goals rfl

theorem act_null {o : Options} {s s' : LeafSt} {ty : DataType} (hs : s ∈ leafStates o) (hty : ty ∈ leafTypes o)
    (h : act o s ty = .ok s') (hn : s'.1 = some .null) : ty = .null := by
  have hi := coerce_idem o hs hty h
  obtain ⟨t', b⟩ := s'
  simp only at hn
  subst hn
  simp only [act, coerce_primitive_type] at hi
  by_cases h0 : DataType.null = ty
  · exact h0.symm
  · simp [h0] at hi
    exact hi.1

/-! ### leaf × leaf -/

theorem swap_leaf_leaf {o : Options} (hno : o.allow_to_string = false) {x y : SVal} {a b : DataType}
    (hx : leafTypeOf o x = some a) (hy : leafTypeOf o y = some b) : Swap o x y := by
  intro t r hw hr
  cases hl : Tracer.isLeaf t with
  | true =>
    obtain ⟨s, hs, e⟩ := WF_leaf_embed hw hl
    rw [e] at hr ⊢
    rcases absorb_comm_leaf .fixed o hno t.name t.path hs hx hy with ⟨q, h1, h2⟩ | ⟨h1, _⟩
    · rw [h1] at hr; cases hr
      refine ⟨r, h2, TEq_refl o r ?_⟩
      rw [absorb2_leaf .fixed o _ _ s hx hy] at h1
      cases h3 : act2 o s a b with
      | error e' => rw [h3] at h1; cases h1
      | ok s' =>
        rw [h3] at h1; cases h1
        unfold act2 at h3
        cases h4 : act o s a with
        | error e' => rw [h4] at h3; cases h3
        | ok s1 =>
          rw [h4] at h3
          have hs1 := (step_facts o hs (leafTypeOf_mem o hx) h4).1
          exact WF_embed (step_facts o hs1 (leafTypeOf_mem o hy) h3).1
    · rw [hr] at h1; cases h1
  | false =>
    obtain ⟨m, h1, h2⟩ := absorb2_ok hr
    rw [absorb_prim .fixed o _ hx, Tracer.ensure_primitive, ensure_prim_container o hl] at h1
    by_cases ha : isNull a = true
    · simp only [ha, if_true] at h1; cases h1
      have hl' : Tracer.isLeaf t.mark_nullable = false := by cases t <;> simp_all [Tracer.isLeaf, Tracer.mark_nullable, Tracer.set_nullable]
      rw [absorb_prim .fixed o _ hy, Tracer.ensure_primitive, ensure_prim_container o hl'] at h2
      by_cases hb : isNull b = true
      · simp only [hb, if_true] at h2; cases h2
        refine ⟨t.mark_nullable.mark_nullable, ?_, TEq_refl o _ (WF_mark (WF_mark hw))⟩
        unfold absorb2
        rw [absorb_prim .fixed o _ hy, Tracer.ensure_primitive, ensure_prim_container o hl]
        simp only [hb, if_true]
        rw [absorb_prim .fixed o _ hx, Tracer.ensure_primitive, ensure_prim_container o hl']
        simp only [ha, if_true]
      · simp only [hb] at h2; cases h2
    · simp only [ha] at h1; cases h1

/-! ### leaf × container -/

theorem shape_not_leaf {t : Tracer} {S : Shape} (h : Tracer.shape t = some S) : Tracer.isLeaf t = false := by
  cases t <;> simp_all [Tracer.shape, Tracer.isLeaf]

/-- container samples treat `Primitive(Null)` like `Unknown` -/
def UnkIff (o : Options) (y : SVal) : Prop :=
  ∀ n p nl a, absorb .fixed o (.primitive n p nl .null none) y = .ok a ↔ absorb .fixed o (.unknown n p nl) y = .ok a

/-- a null leaf and a container sample commute exactly -/
theorem null_cont_iff {o : Options} {x y : SVal} {S : Shape} (hx : leafTypeOf o x = some .null)
    (hy : NeedsShape o y S) (hyu : UnkIff o y) {t : Tracer} (hw : WF o t) (a : Tracer) :
    absorb2 .fixed o t x y = .ok a ↔ absorb2 .fixed o t y x = .ok a := by
  have e1 : absorb2 .fixed o t x y = absorb .fixed o (nullify t) y := by
    unfold absorb2
    rw [absorb_null_leaf hx hw]
  have e2 : absorb .fixed o (nullify t) y = .ok a ↔ absorb .fixed o t.mark_nullable y = .ok a := by
    cases t <;> first | exact Iff.rfl | skip
    exact hyu _ _ _ a
  have e3 : absorb2 .fixed o t y x = (absorb .fixed o t y).map Tracer.mark_nullable := by
    unfold absorb2
    cases h : absorb .fixed o t y with
    | error e => rfl
    | ok a0 =>
      simp only [Except.map]
      have hl := shape_not_leaf (hy t a0 h).1
      rw [absorb_prim .fixed o _ hx, Tracer.ensure_primitive, ensure_prim_container o hl]
      rfl
  rw [e1, e2, absorb_mark, e3]

theorem swap_leaf_cont {o : Options} {x y : SVal} {ty : DataType} {S : Shape} (hx : leafTypeOf o x = some ty)
    (hy : NeedsShape o y S) (hcy : Cong o y) (hyu : UnkIff o y) :
    Swap o x y ∧ Swap o y x := by
  have hwf : ∀ t a, WF o t → ty = .null → absorb2 .fixed o t y x = .ok a → WF o a := by
    intro t a hw e ha
    subst e
    obtain ⟨m, h1, h2⟩ := absorb2_ok ha
    have hl := shape_not_leaf (hy t m h1).1
    rw [absorb_prim .fixed o _ hx, Tracer.ensure_primitive, ensure_prim_container o hl] at h2
    simp only [isNull, if_true] at h2
    cases h2
    exact WF_mark (hcy.wf hw h1)
  constructor
  · intro t a hw ha
    have hnull : ty = .null := by
      obtain ⟨m, h1, h2⟩ := absorb2_ok ha
      rw [absorb_prim .fixed o _ hx] at h1
      cases hl : Tracer.isLeaf t with
      | false =>
        rw [Tracer.ensure_primitive, ensure_prim_container o hl] at h1
        by_cases hn : isNull ty = true
        · exact isNull_iff.mp hn
        · simp only [hn] at h1; cases h1
      | true =>
        obtain ⟨s, hs, e⟩ := WF_leaf_embed hw hl
        rw [e, ensure_primitive_embed] at h1
        cases h3 : act o s ty with
        | error e' => rw [h3] at h1; cases h1
        | ok s' =>
          rw [h3] at h1; cases h1
          have := (hy _ a h2).2
          obtain ⟨t', b⟩ := s'
          cases t' with
          | none =>
            -- `act` never returns `Unknown`
            obtain ⟨t0, b0⟩ := s
            cases t0 <;> simp [act] at h3
            split at h3 <;> simp at h3
          | some t' =>
            simp only [LeafSt.embed, Tracer.shape, is_unknown_or_null_prim, reduceCtorEq, or_false] at this
            have e' := isNull_iff.mp this
            subst e'
            exact act_null hs (leafTypeOf_mem o hx) h3 rfl
    subst hnull
    have ha' := (null_cont_iff hx hy hyu hw a).mp ha
    exact ⟨a, ha', TEq_refl o a (hwf t a hw rfl ha')⟩
  · intro t a hw ha
    have hnull : ty = .null := by
      obtain ⟨m, h1, h2⟩ := absorb2_ok ha
      have hl := shape_not_leaf (hy t m h1).1
      rw [absorb_prim .fixed o _ hx, Tracer.ensure_primitive, ensure_prim_container o hl] at h2
      by_cases hn : isNull ty = true
      · exact isNull_iff.mp hn
      · simp only [hn] at h2; cases h2
    subst hnull
    exact ⟨a, (null_cont_iff hx hy hyu hw a).mpr ha, TEq_refl o a (hwf t a hw rfl ha)⟩

/-! ### containers of different shapes -/

theorem swap_mismatch {o : Options} {x y : SVal} {S S' : Shape} (hx : NeedsShape o x S) (hy : NeedsShape o y S')
    (hne : S ≠ S') : Swap o x y := by
  intro t a _ ha
  obtain ⟨m, h1, h2⟩ := absorb2_ok ha
  have h3 := (hx t m h1).1
  rcases (hy m a h2).2 with h4 | h4
  · have := unknownish_isLeaf h4
    rw [shape_not_leaf h3] at this; cases this
  · rw [h3] at h4; cases h4; exact absurd rfl hne

end SaModel.Lemmas.C07
