import SaModel.Lemmas.C07TMain
/-
C07, tree level — maps: traced as structs (`map_as_struct`: the entry loop / raw key-value stream is the pair loop of
the struct family, or never succeeds when a key is not a string / the stream is malformed) and traced as maps (key and
value tracer absorb the keys and the values separately).
-/
namespace SaModel.Lemmas.C07
open SaModel SaModel.Trace SaModel.Props.C07

/-- a sample no tracer accepts -/
def Never (o : Options) (x : SVal) : Prop := ∀ t a, absorb .fixed o t x ≠ .ok a

theorem Never.cong {o : Options} {x : SVal} (h : Never o x) : Cong o x := fun t _ a _ _ _ ha => absurd ha (h t a)
theorem Never.swap_l {o : Options} {x : SVal} (h : Never o x) (y : SVal) : Swap o x y := by
  intro t a _ ha
  obtain ⟨m, h1, _⟩ := absorb2_ok ha
  exact absurd h1 (h t m)
theorem Never.swap_r {o : Options} {x : SVal} (h : Never o x) (y : SVal) : Swap o y x := by
  intro t a _ ha
  obtain ⟨m, _, h2⟩ := absorb2_ok ha
  exact absurd h2 (h m a)

/-! ### as struct -/

def pairsE : SEntries → Option (List (String × SVal))
  | .nil => some []
  | .cons k v r =>
    match k, pairsE r with
    | .str s, some ps => some ((s, v) :: ps)
    | _, _ => none

def pairsO : Option String → SMapOps → Option (List (String × SVal))
  | _, .nil => some []
  | _, .key k r =>
    match k with
    | .str s => pairsO (some s) r
    | _ => none
  | nk, .value v r =>
    match nk, pairsO none r with
    | some key, some ps => some ((key, v) :: ps)
    | _, _ => none

theorem sts_str {k : SVal} {s : String} (h : serializeToString k = .ok s) : k = .str s := by
  cases k <;> simp [serializeToString, fail] at h
  rw [h]

theorem ensure_field_get (path : String) (seen : Nat) (fs : TFields) (key : String) :
    (ensure_field path seen fs key).2.get? (ensure_field path seen fs key).1 =
        some (curT path seen key (tr (fs.find key))) ∧
      ∀ ft', (ensure_field path seen fs key).2.set (ensure_field path seen fs key).1 ft' =
        match fs.find key with
        | some _ => fs.put key seen ft'
        | none => fs.push key seen ft' := by
  unfold ensure_field
  cases hf : fs.find key with
  | none =>
    simp only [indexOf_none hf, tr, Option.map, curT, freshField]
    exact ⟨(push_get fs key seen _).1, fun ft' => (push_get fs key seen _).2 ft'⟩
  | some lt =>
    obtain ⟨l, t⟩ := lt
    obtain ⟨idx, h1, h2⟩ := indexOf_some hf
    simp only [h1, tr, Option.map, curT]
    exact ⟨(h2 seen).1, fun ft' => (h2 seen).2 ft'⟩

theorem stepField_eq (o : Options) (path : String) (seen : Nat) (fs : TFields) (key : String) (v : SVal) :
    stepField o path seen fs key v =
      match absorb .fixed o (curT path seen key (tr (fs.find key))) v with
      | .ok ft' => .ok (match fs.find key with
        | some _ => fs.put key seen ft'
        | none => fs.push key seen ft')
      | .error e => .error e := by
  unfold stepField
  cases hf : fs.find key with
  | none => simp only [tr, Option.map, curT]; cases absorb .fixed o (freshField path seen key) v <;> rfl
  | some lt => obtain ⟨l, t⟩ := lt; simp only [tr, Option.map, curT]; cases absorb .fixed o t v <;> rfl

theorem entries_eq (o : Options) (path : String) (seen : Nat) : ∀ (es : SEntries) (fs : TFields),
    match pairsE es with
    | some ps => absorbEntriesAsStruct .fixed o path seen fs es = absorbPairs o path seen fs ps
    | none => ∀ r, absorbEntriesAsStruct .fixed o path seen fs es ≠ .ok r
  | .nil, fs => by simp only [pairsE, absorbEntriesAsStruct, absorbPairs]
  | .cons k v r, fs => by
    cases hk : serializeToString k with
    | error e =>
      have : pairsE (.cons k v r) = none := by
        cases k <;> simp [pairsE] <;> simp [serializeToString] at hk
      rw [this]
      intro r'
      simp [absorbEntriesAsStruct, hk, bind, Except.bind]
    | ok key =>
      have ek := sts_str hk
      subst ek
      simp only [absorbEntriesAsStruct, serializeToString, bind, Except.bind, pairsE]
      rw [(ensure_field_get path seen fs key).1]
      simp only [(ensure_field_get path seen fs key).2]
      have hs := stepField_eq o path seen fs key v
      cases ha : absorb .fixed o (curT path seen key (tr (fs.find key))) v with
      | error e =>
        rw [ha] at hs
        cases pairsE r with
        | none => intro r' h; cases h
        | some ps => simp only [absorbPairs, hs]
      | ok ft' =>
        rw [ha] at hs
        simp only at hs ⊢
        have ih := entries_eq o path seen r (match fs.find key with
          | some _ => fs.put key seen ft'
          | none => fs.push key seen ft')
        cases hp : pairsE r with
        | none => rw [hp] at ih; exact ih
        | some ps => rw [hp] at ih; simp only [absorbPairs, hs]; exact ih

theorem ops_eq (o : Options) (path : String) (seen : Nat) : ∀ (ops : SMapOps) (nk : Option String) (fs : TFields),
    match pairsO nk ops with
    | some ps => absorbOpsAsStruct .fixed o path seen fs nk ops = absorbPairs o path seen fs ps
    | none => ∀ r, absorbOpsAsStruct .fixed o path seen fs nk ops ≠ .ok r
  | .nil, nk, fs => by simp only [pairsO, absorbOpsAsStruct, absorbPairs]
  | .key k r, nk, fs => by
    cases hk : serializeToString k with
    | error e =>
      have : pairsO nk (.key k r) = none := by
        cases k <;> simp [pairsO] <;> simp [serializeToString] at hk
      rw [this]
      intro r'
      simp [absorbOpsAsStruct, hk, bind, Except.bind]
    | ok key =>
      have ek := sts_str hk
      subst ek
      simp only [absorbOpsAsStruct, serializeToString, bind, Except.bind, pairsO]
      exact ops_eq o path seen r (some key) fs
  | .value v r, none, fs => by
    simp only [pairsO]
    intro r'
    simp [absorbOpsAsStruct, fail]
  | .value v r, some key, fs => by
    simp only [absorbOpsAsStruct, bind, Except.bind, pairsO]
    rw [(ensure_field_get path seen fs key).1]
    simp only [(ensure_field_get path seen fs key).2]
    have hs := stepField_eq o path seen fs key v
    cases ha : absorb .fixed o (curT path seen key (tr (fs.find key))) v with
    | error e =>
      rw [ha] at hs
      cases pairsO none r with
      | none => intro r' h; cases h
      | some ps => simp only [absorbPairs, hs]
    | ok ft' =>
      rw [ha] at hs
      simp only at hs ⊢
      have ih := ops_eq o path seen r none (match fs.find key with
        | some _ => fs.put key seen ft'
        | none => fs.push key seen ft')
      cases hp : pairsO none r with
      | none => rw [hp] at ih; exact ih
      | some ps => rw [hp] at ih; simp only [absorbPairs, hs]; exact ih


theorem structLike_of_loop {o : Options} {x : SVal} {mode : StructMode} {ps : List (String × SVal)}
    (loop : String → Nat → TFields → R TFields)
    (hloop : ∀ p s fs, loop p s fs = absorbPairs o p s fs ps)
    (hx : ∀ t, absorb .fixed o t x = (do
      let t ← t.ensure_struct .fixed [] mode
      match t with
      | .struct n p nl fs m seen =>
        let fs ← loop p seen fs
        .ok (.struct n p nl (fs.end_ seen) m (seen + 1))
      | _ => panic "unreachable: ensure_struct")) : StructLike o x mode ps := by
  intro t a
  rw [hx t]
  simp only [bind, Except.bind]
  constructor
  · intro h
    cases h1 : t.ensure_struct .fixed [] mode with
    | error e => rw [h1] at h; cases h
    | ok t1 =>
      rw [h1] at h
      obtain ⟨_, hc⟩ := ensure_struct_inv h1
      have : ∃ n p nl fs m s, t1 = .struct n p nl fs m s := by
        rcases hc with ⟨_, rfl⟩ | ⟨n, p, nl, fs, m, s, rfl, rfl⟩
        · exact ⟨_, _, _, _, _, _, rfl⟩
        · exact ⟨_, _, _, _, _, _, rfl⟩
      obtain ⟨n, p, nl, fs, m, s, rfl⟩ := this
      simp only [hloop] at h
      cases h2 : absorbPairs o p s fs ps with
      | error e => rw [h2] at h; cases h
      | ok fs' => rw [h2] at h; cases h; exact ⟨n, p, nl, fs, m, s, fs', rfl, h2, rfl⟩
  · rintro ⟨n, p, nl, fs, m, s, fs', h1, h2, rfl⟩
    simp only [h1, hloop, h2]

theorem never_of_loop {o : Options} {x : SVal} {mode : StructMode}
    (loop : String → Nat → TFields → R TFields)
    (hloop : ∀ p s fs r, loop p s fs ≠ .ok r)
    (hx : ∀ t, absorb .fixed o t x = (do
      let t ← t.ensure_struct .fixed [] mode
      match t with
      | .struct n p nl fs m seen =>
        let fs ← loop p seen fs
        .ok (.struct n p nl (fs.end_ seen) m (seen + 1))
      | _ => panic "unreachable: ensure_struct")) : Never o x := by
  intro t a h
  rw [hx t] at h
  simp only [bind, Except.bind] at h
  cases h1 : t.ensure_struct .fixed [] mode with
  | error e => rw [h1] at h; cases h
  | ok t1 =>
    rw [h1] at h
    cases t1 <;> try (cases h; done)
    rename_i n p nl fs m s
    simp only at h
    cases h2 : loop p s fs with
    | error e => rw [h2] at h; cases h
    | ok r => exact hloop p s fs r h2

/-- a `map` sample under `map_as_struct`: a struct sample of mode `Map`, or (non-string key) never accepted -/
theorem map_as_struct_cases {o : Options} (hm : o.map_as_struct = true) (es : SEntries) :
    (∃ ps, pairsE es = some ps ∧ StructLike o (.map es) .map ps) ∨ Never o (.map es) := by
  cases hp : pairsE es with
  | some ps =>
    refine .inl ⟨ps, rfl, structLike_of_loop (fun p s fs => absorbEntriesAsStruct .fixed o p s fs es) ?_ ?_⟩
    · intro p s fs
      have := entries_eq o p s es fs
      rw [hp] at this; exact this
    · intro t
      simp only [absorb, hm, if_true, bind, Except.bind]
      cases Tracer.ensure_struct Code.fixed t [] StructMode.map with
      | error e => rfl
      | ok t1 => cases t1 <;> rfl
  | none =>
    refine .inr (never_of_loop (mode := .map) (fun p s fs => absorbEntriesAsStruct .fixed o p s fs es) ?_ ?_)
    · intro p s fs
      have := entries_eq o p s es fs
      rw [hp] at this; exact this
    · intro t
      simp only [absorb, hm, if_true, bind, Except.bind]
      cases Tracer.ensure_struct Code.fixed t [] StructMode.map with
      | error e => rfl
      | ok t1 => cases t1 <;> rfl

theorem mapRaw_as_struct_cases {o : Options} (hm : o.map_as_struct = true) (ops : SMapOps) :
    (∃ ps, pairsO none ops = some ps ∧ StructLike o (.mapRaw ops) .map ps) ∨ Never o (.mapRaw ops) := by
  cases hp : pairsO none ops with
  | some ps =>
    refine .inl ⟨ps, rfl, structLike_of_loop (fun p s fs => absorbOpsAsStruct .fixed o p s fs none ops) ?_ ?_⟩
    · intro p s fs
      have := ops_eq o p s ops none fs
      rw [hp] at this; exact this
    · intro t
      simp only [absorb, hm, if_true, bind, Except.bind]
      cases Tracer.ensure_struct Code.fixed t [] StructMode.map with
      | error e => rfl
      | ok t1 => cases t1 <;> rfl
  | none =>
    refine .inr (never_of_loop (mode := .map) (fun p s fs => absorbOpsAsStruct .fixed o p s fs none ops) ?_ ?_)
    · intro p s fs
      have := ops_eq o p s ops none fs
      rw [hp] at this; exact this
    · intro t
      simp only [absorb, hm, if_true, bind, Except.bind]
      cases Tracer.ensure_struct Code.fixed t [] StructMode.map with
      | error e => rfl
      | ok t1 => cases t1 <;> rfl

/-! ### as map -/

def keysE : SEntries → List SVal
  | .nil => []
  | .cons k _ r => k :: keysE r
def valsE : SEntries → List SVal
  | .nil => []
  | .cons _ v r => v :: valsE r
def keysO : SMapOps → List SVal
  | .nil => []
  | .key k r => k :: keysO r
  | .value _ r => keysO r
def valsO : SMapOps → List SVal
  | .nil => []
  | .key _ r => valsO r
  | .value v r => v :: valsO r

theorem entriesMap_ok (o : Options) : ∀ (es : SEntries) (kt vt k' v' : Tracer),
    absorbEntriesAsMap .fixed o kt vt es = .ok (k', v') ↔
      absorbAll .fixed o kt (keysE es) = .ok k' ∧ absorbAll .fixed o vt (valsE es) = .ok v'
  | .nil, kt, vt, k', v' => by
    simp only [absorbEntriesAsMap, keysE, valsE, absorbAll, Except.ok.injEq, Prod.mk.injEq]
  | .cons k v r, kt, vt, k', v' => by
    simp only [absorbEntriesAsMap, keysE, valsE, absorbAll, bind, Except.bind]
    cases absorb .fixed o kt k with
    | error e => simp
    | ok kt1 =>
      cases absorb .fixed o vt v with
      | error e => simp
      | ok vt1 => exact entriesMap_ok o r kt1 vt1 k' v'

theorem opsMap_ok (o : Options) : ∀ (ops : SMapOps) (kt vt k' v' : Tracer),
    absorbOpsAsMap .fixed o kt vt ops = .ok (k', v') ↔
      absorbAll .fixed o kt (keysO ops) = .ok k' ∧ absorbAll .fixed o vt (valsO ops) = .ok v'
  | .nil, kt, vt, k', v' => by
    simp only [absorbOpsAsMap, keysO, valsO, absorbAll, Except.ok.injEq, Prod.mk.injEq]
  | .key k r, kt, vt, k', v' => by
    simp only [absorbOpsAsMap, keysO, valsO, absorbAll, bind, Except.bind]
    cases absorb .fixed o kt k with
    | error e => simp
    | ok kt1 => exact opsMap_ok o r kt1 vt k' v'
  | .value v r, kt, vt, k', v' => by
    simp only [absorbOpsAsMap, keysO, valsO, absorbAll, bind, Except.bind]
    cases absorb .fixed o vt v with
    | error e => simp
    | ok vt1 => exact opsMap_ok o r kt vt1 k' v'

/-- `x` is absorbed as a map sample with the keys `ks` and the values `vs` -/
def MapLike (o : Options) (x : SVal) (ks vs : List SVal) : Prop :=
  ∀ t a, absorb .fixed o t x = .ok a ↔ ∃ n p nl k v k' v', t.ensure_map = .ok (.map n p nl k v) ∧
    absorbAll .fixed o k ks = .ok k' ∧ absorbAll .fixed o v vs = .ok v' ∧ a = .map n p nl k' v'

theorem mapLike_of_loop {o : Options} {x : SVal} {ks vs : List SVal}
    (loop : Tracer → Tracer → R (Tracer × Tracer))
    (hloop : ∀ kt vt k' v', loop kt vt = .ok (k', v') ↔
      absorbAll .fixed o kt ks = .ok k' ∧ absorbAll .fixed o vt vs = .ok v')
    (hx : ∀ t, absorb .fixed o t x = (do
      let t ← t.ensure_map
      match t with
      | .map n p nl k v =>
        let (k, v) ← loop k v
        .ok (.map n p nl k v)
      | _ => panic "unreachable: ensure_map")) : MapLike o x ks vs := by
  intro t a
  rw [hx t]
  simp only [bind, Except.bind]
  constructor
  · intro h
    cases h1 : t.ensure_map with
    | error e => rw [h1] at h; cases h
    | ok t1 =>
      rw [h1] at h
      obtain ⟨_, hc⟩ := ensure_map_inv h1
      have : ∃ n p nl k v, t1 = .map n p nl k v := by
        rcases hc with ⟨_, rfl⟩ | ⟨n, p, nl, k, v, rfl, rfl⟩
        · exact ⟨_, _, _, _, _, rfl⟩
        · exact ⟨_, _, _, _, _, rfl⟩
      obtain ⟨n, p, nl, k, v, rfl⟩ := this
      simp only at h
      cases h2 : loop k v with
      | error e => rw [h2] at h; cases h
      | ok kv =>
        obtain ⟨k', v'⟩ := kv
        rw [h2] at h; cases h
        obtain ⟨h3, h4⟩ := (hloop k v k' v').mp h2
        exact ⟨n, p, nl, k, v, k', v', rfl, h3, h4, rfl⟩
  · rintro ⟨n, p, nl, k, v, k', v', h1, h2, h3, rfl⟩
    simp only [h1, (hloop k v k' v').mpr ⟨h2, h3⟩]

theorem mapLike_map {o : Options} (hm : o.map_as_struct = false) (es : SEntries) :
    MapLike o (.map es) (keysE es) (valsE es) :=
  mapLike_of_loop (fun kt vt => absorbEntriesAsMap .fixed o kt vt es) (entriesMap_ok o es)
    (by
      intro t
      simp only [absorb, hm, Bool.false_eq_true, if_false, bind, Except.bind]
      cases t.ensure_map with
      | error e => rfl
      | ok t1 => cases t1 <;> rfl)

theorem mapLike_mapRaw {o : Options} (hm : o.map_as_struct = false) (ops : SMapOps) :
    MapLike o (.mapRaw ops) (keysO ops) (valsO ops) :=
  mapLike_of_loop (fun kt vt => absorbOpsAsMap .fixed o kt vt ops) (opsMap_ok o ops)
    (by
      intro t
      simp only [absorb, hm, Bool.false_eq_true, if_false, bind, Except.bind]
      cases t.ensure_map with
      | error e => rfl
      | ok t1 => cases t1 <;> rfl)

theorem ensure_map_facts {o : Options} {t : Tracer} {n p nl k v} (hw : WF o t) (h : t.ensure_map = .ok (.map n p nl k v)) :
    WF o k ∧ WF o v ∧ (∀ k' v', depthOk (.map n p nl k' v')) ∧
      ((t.is_unknown_or_null = true) ∨ t = .map n p nl k v) := by
  obtain ⟨hd, hc⟩ := ensure_map_inv h
  rcases hc with ⟨hu, e⟩ | ⟨n', p', nl', k', v', rfl, e⟩
  · cases e
    refine ⟨by rw [Tracer.new, WF]; trivial, by rw [Tracer.new, WF]; trivial,
      fun _ _ => (depthOk_path (a := t) rfl).mpr hd, .inl hu⟩
  · cases e
    rw [WF] at hw
    exact ⟨hw.1, hw.2, fun _ _ => (depthOk_path (a := .map n p nl k v) rfl).mpr hd, .inr rfl⟩

theorem cong_map {o : Options} {x : SVal} {ks vs : List SVal} (hx : MapLike o x ks vs)
    (hck : ∀ v ∈ ks, Cong o v) (hcv : ∀ v ∈ vs, Cong o v) : Cong o x := by
  intro t t' a hw hw' he h
  obtain ⟨n, p, nl, k, v, k', v', h1, h2, h3, rfl⟩ := (hx t a).mp h
  obtain ⟨hwk, hwv, hd, hcase⟩ := ensure_map_facts hw h1
  rcases hcase with hu | rfl
  · have e := TEq_unknownish he hu
    rw [e]
    obtain ⟨_, _, _, hwk', _⟩ := congL hck hwk hwk (TEq_refl o k hwk) h2
    obtain ⟨_, _, _, hwv', _⟩ := congL hcv hwv hwv (TEq_refl o v hwv) h3
    have hwa : WF o (.map n p nl k' v') := by rw [WF]; exact ⟨hwk', hwv'⟩
    exact ⟨_, h, TEq_refl o _ hwa, hwa⟩
  · rw [TEq] at he
    obtain ⟨j, w, rfl, hej, hew⟩ := he
    rw [WF] at hw'
    obtain ⟨j', h4, he1, hwk', _⟩ := congL hck hwk hw'.1 hej h2
    obtain ⟨w', h5, he2, hwv', _⟩ := congL hcv hwv hw'.2 hew h3
    refine ⟨.map n p nl j' w', (hx _ _).mpr ⟨n, p, nl, j, w, j', w', ensure_map_same (hd j w), h4, h5, rfl⟩, ?_, ?_⟩
    · rw [TEq]; exact ⟨j', w', rfl, he1, he2⟩
    · rw [WF]; exact ⟨hwk', hwv'⟩

theorem swap_map {o : Options} {x y : SVal} {kx vx ky vy : List SVal} (hx : MapLike o x kx vx) (hy : MapLike o y ky vy)
    (hck : ∀ v ∈ kx ++ ky, Cong o v) (hsk : ∀ u ∈ kx ++ ky, ∀ v ∈ kx ++ ky, Swap o u v)
    (hcv : ∀ v ∈ vx ++ vy, Cong o v) (hsv : ∀ u ∈ vx ++ vy, ∀ v ∈ vx ++ vy, Swap o u v) : Swap o x y := by
  intro t a hw ha
  obtain ⟨m, h1, h2⟩ := absorb2_ok ha
  obtain ⟨n, p, nl, k, v, k1, v1, e1, r1, s1, rfl⟩ := (hx t m).mp h1
  obtain ⟨hwk, hwv, hd, _⟩ := ensure_map_facts hw e1
  obtain ⟨n', p', nl', k0, v0, k2, v2, e2, r2, s2, rfl⟩ := (hy _ a).mp h2
  rw [ensure_map_same (hd k1 v1)] at e2
  cases e2
  obtain ⟨bk, hbk, hek, _, _⟩ := permL (List.perm_append_comm) hck hsk hwk hwk (TEq_refl o k hwk) (absorbAll_append_mk r1 r2)
  obtain ⟨bv, hbv, hev, _, _⟩ := permL (List.perm_append_comm) hcv hsv hwv hwv (TEq_refl o v hwv) (absorbAll_append_mk s1 s2)
  obtain ⟨jk, r3, r4⟩ := absorbAll_append_ok hbk
  obtain ⟨jv, s3, s4⟩ := absorbAll_append_ok hbv
  refine ⟨.map n p nl bk bv, absorb2_mk ((hy _ _).mpr ⟨n, p, nl, k, v, jk, jv, e1, r3, s3, rfl⟩)
    ((hx _ _).mpr ⟨n, p, nl, jk, jv, bk, bv, ensure_map_same (hd jk jv), r4, s4, rfl⟩), ?_⟩
  rw [TEq]; exact ⟨bk, bv, rfl, hek, hev⟩

theorem shape_map {o : Options} {x : SVal} {ks vs : List SVal} (hx : MapLike o x ks vs) {t a : Tracer}
    (h : absorb .fixed o t x = .ok a) :
    Tracer.shape a = some .map ∧ (t.is_unknown_or_null = true ∨ Tracer.shape t = some .map) := by
  obtain ⟨n, p, nl, k, v, k', v', e1, _, _, rfl⟩ := (hx t a).mp h
  refine ⟨rfl, ?_⟩
  obtain ⟨_, hc⟩ := ensure_map_inv e1
  rcases hc with ⟨hu, _⟩ | ⟨_, _, _, _, _, rfl, _⟩
  · exact .inl hu
  · exact .inr rfl

end SaModel.Lemmas.C07
