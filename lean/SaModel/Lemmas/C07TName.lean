import SaModel.Lemmas.C07TEnsure
/-
C07, tree level — `absorb` never changes the name of the node it works on (needed for: the tracer of a struct field is
named after its key, hence traced fields of one struct have distinct names).
-/
namespace SaModel.Lemmas.C07
open SaModel SaModel.Trace SaModel.Props.C07

theorem name_mark (t : Tracer) : t.mark_nullable.name = t.name := by cases t <;> rfl

theorem ensure_prim_name {o : Options} {t a : Tracer} {ty : DataType} {st : Option Strategy}
    (h : t.ensure_primitive_with_strategy o ty st = .ok a) : a.name = t.name := by
  cases t <;> simp only [Tracer.ensure_primitive_with_strategy] at h
  case unknown => cases h; rfl
  case primitive n p nl pty pst =>
    simp only [bind, Except.bind] at h
    cases hc : coerce_primitive_type o pty nl pst ty st with
    | error e => rw [hc] at h; cases h
    | ok r => rw [hc] at h; obtain ⟨a1, a2, a3⟩ := r; cases h; rfl
  all_goals (split at h <;> first | (cases h; rfl) | cases h)

theorem ensure_list_name {t t1 : Tracer} (h : t.ensure_list = .ok t1) : t1.name = t.name := by
  rcases (ensure_list_inv h).2 with ⟨_, rfl⟩ | ⟨_, _, _, _, rfl, rfl⟩ <;> rfl
theorem ensure_map_name {t t1 : Tracer} (h : t.ensure_map = .ok t1) : t1.name = t.name := by
  rcases (ensure_map_inv h).2 with ⟨_, rfl⟩ | ⟨_, _, _, _, _, rfl, rfl⟩ <;> rfl
theorem ensure_struct_name {t t1 : Tracer} {m : StructMode} (h : t.ensure_struct .fixed [] m = .ok t1) :
    t1.name = t.name := by
  rcases (ensure_struct_inv h).2 with ⟨_, rfl⟩ | ⟨_, _, _, _, _, _, rfl, rfl⟩ <;> rfl
theorem ensure_tuple_name {t t1 : Tracer} {k : Nat} (h : t.ensure_tuple .fixed k = .ok t1) : t1.name = t.name := by
  rcases (ensure_tuple_inv h).2 with ⟨_, rfl⟩ | ⟨_, _, _, _, rfl, rfl⟩ <;> rfl
theorem ensure_union_name {t t1 : Tracer} (h : t.ensure_union [] = .ok t1) : t1.name = t.name := by
  rcases (ensure_union_inv h).2 with ⟨_, rfl⟩ | ⟨_, _, _, _, rfl, rfl⟩ <;> rfl

theorem euv_name {t : Tracer} {vn : String} {idx : Nat} {r : String × String × Bool × Variants × Tracer}
    (h : ensure_union_variant t vn idx = .ok r) : r.1 = t.name := by
  unfold ensure_union_variant at h
  simp only [bind, Except.bind] at h
  cases h1 : t.ensure_union [] with
  | error e => rw [h1] at h; cases h
  | ok t1 =>
    rw [h1] at h
    have hn := ensure_union_name h1
    cases t1 <;> try (cases h; done)
    rename_i n p nl vs
    simp only at h
    cases h2 : ensure_variant p vs vn idx with
    | error e => rw [h2] at h; cases h
    | ok vs' =>
      rw [h2] at h
      simp only at h
      split at h
      · cases h; exact hn
      · cases h

theorem absorb_name (o : Options) : ∀ (x : SVal) (t a : Tracer), absorb .fixed o t x = .ok a → a.name = t.name
  | .bool _, t, a, h => by simp only [absorb, Tracer.ensure_primitive] at h; exact ensure_prim_name h
  | .int _ _, t, a, h => by simp only [absorb, Tracer.ensure_number, Tracer.ensure_primitive] at h; exact ensure_prim_name h
  | .f32 _, t, a, h => by simp only [absorb, Tracer.ensure_number, Tracer.ensure_primitive] at h; exact ensure_prim_name h
  | .f64 _, t, a, h => by simp only [absorb, Tracer.ensure_number, Tracer.ensure_primitive] at h; exact ensure_prim_name h
  | .char _, t, a, h => by simp only [absorb, Tracer.ensure_primitive] at h; exact ensure_prim_name h
  | .unit, t, a, h => by simp only [absorb, Tracer.ensure_primitive] at h; exact ensure_prim_name h
  | .str _, t, a, h => by simp only [absorb] at h; exact ensure_prim_name h
  | .bytes _, t, a, h => by simp only [absorb, Tracer.ensure_primitive] at h; exact ensure_prim_name h
  | .unitStruct _, t, a, h => by simp only [absorb, Tracer.ensure_primitive] at h; exact ensure_prim_name h
  | .none, t, a, h => by simp only [absorb] at h; cases h; exact name_mark t
  | .some v, t, a, h => by
    simp only [absorb] at h
    rw [absorb_name o v _ a h, name_mark]
  | .newtypeStruct _ v, t, a, h => by simp only [absorb] at h; exact absorb_name o v t a h
  | .seq items, t, a, h => by
    simp only [absorb, bind, Except.bind] at h
    cases h1 : t.ensure_list with
    | error e => rw [h1] at h; cases h
    | ok t1 =>
      rw [h1] at h
      have hn := ensure_list_name h1
      cases t1 <;> try (cases h; done)
      simp only at h
      split at h
      · cases h
      · cases h; exact hn
  | .tuple items, t, a, h => by
    simp only [absorb, bind, Except.bind] at h
    cases h1 : t.ensure_tuple .fixed items.length with
    | error e => rw [h1] at h; cases h
    | ok t1 =>
      rw [h1] at h
      have hn := ensure_tuple_name h1
      cases t1 <;> try (cases h; done)
      simp only at h
      split at h
      · cases h
      · cases h; exact hn
  | .tupleStruct _ items, t, a, h => by
    simp only [absorb, bind, Except.bind] at h
    cases h1 : t.ensure_tuple .fixed items.length with
    | error e => rw [h1] at h; cases h
    | ok t1 =>
      rw [h1] at h
      have hn := ensure_tuple_name h1
      cases t1 <;> try (cases h; done)
      simp only at h
      split at h
      · cases h
      · cases h; exact hn
  | .record _ flds, t, a, h => by
    simp only [absorb, bind, Except.bind] at h
    cases h1 : t.ensure_struct .fixed [] .struct with
    | error e => rw [h1] at h; cases h
    | ok t1 =>
      rw [h1] at h
      have hn := ensure_struct_name h1
      cases t1 <;> try (cases h; done)
      simp only at h
      split at h
      · cases h
      · cases h; exact hn
  | .map es, t, a, h => by
    simp only [absorb] at h
    split at h
    · simp only [bind, Except.bind] at h
      cases h1 : t.ensure_struct .fixed [] .map with
      | error e => rw [h1] at h; cases h
      | ok t1 =>
        rw [h1] at h
        have hn := ensure_struct_name h1
        cases t1 <;> try (cases h; done)
        simp only at h
        split at h
        · cases h
        · cases h; exact hn
    · simp only [bind, Except.bind] at h
      cases h1 : t.ensure_map with
      | error e => rw [h1] at h; cases h
      | ok t1 =>
        rw [h1] at h
        have hn := ensure_map_name h1
        cases t1 <;> try (cases h; done)
        simp only at h
        split at h
        · cases h
        · cases h; exact hn
  | .mapRaw ops, t, a, h => by
    simp only [absorb] at h
    split at h
    · simp only [bind, Except.bind] at h
      cases h1 : t.ensure_struct .fixed [] .map with
      | error e => rw [h1] at h; cases h
      | ok t1 =>
        rw [h1] at h
        have hn := ensure_struct_name h1
        cases t1 <;> try (cases h; done)
        simp only at h
        split at h
        · cases h
        · cases h; exact hn
    · simp only [bind, Except.bind] at h
      cases h1 : t.ensure_map with
      | error e => rw [h1] at h; cases h
      | ok t1 =>
        rw [h1] at h
        have hn := ensure_map_name h1
        cases t1 <;> try (cases h; done)
        simp only at h
        split at h
        · cases h
        · cases h; exact hn
  | .unitVariant _ idx vn, t, a, h => by
    simp only [absorb, bind, Except.bind] at h
    cases h1 : ensure_union_variant t vn idx with
    | error e => rw [h1] at h; cases h
    | ok r =>
      rw [h1] at h
      have hn := euv_name h1
      obtain ⟨n, p, nl, vs, vt⟩ := r
      simp only at h
      split at h
      · cases h
      · cases h; exact hn
  | .newtypeVariant _ idx vn v, t, a, h => by
    simp only [absorb, bind, Except.bind] at h
    cases h1 : ensure_union_variant t vn idx with
    | error e => rw [h1] at h; cases h
    | ok r =>
      rw [h1] at h
      have hn := euv_name h1
      obtain ⟨n, p, nl, vs, vt⟩ := r
      simp only at h
      split at h
      · cases h
      · cases h; exact hn
  | .tupleVariant _ idx vn items, t, a, h => by
    simp only [absorb, bind, Except.bind] at h
    cases h1 : ensure_union_variant t vn idx with
    | error e => rw [h1] at h; cases h
    | ok r =>
      rw [h1] at h
      have hn := euv_name h1
      obtain ⟨n, p, nl, vs, vt⟩ := r
      simp only at h
      split at h
      · cases h
      · split at h
        · split at h
          · cases h
          · cases h; exact hn
        · cases h
  | .structVariant _ idx vn flds, t, a, h => by
    simp only [absorb, bind, Except.bind] at h
    cases h1 : ensure_union_variant t vn idx with
    | error e => rw [h1] at h; cases h
    | ok r =>
      rw [h1] at h
      have hn := euv_name h1
      obtain ⟨n, p, nl, vs, vt⟩ := r
      simp only at h
      split at h
      · cases h
      · split at h
        · split at h
          · cases h
          · cases h; exact hn
        · cases h

theorem absorbAll_name (o : Options) : ∀ (xs : List SVal) (t a : Tracer), absorbAll .fixed o t xs = .ok a → a.name = t.name
  | [], t, a, h => by cases h; rfl
  | x :: xs, t, a, h => by
    simp only [absorbAll, bind, Except.bind] at h
    cases h1 : absorb .fixed o t x with
    | error e => rw [h1] at h; cases h
    | ok m =>
      rw [h1] at h
      rw [absorbAll_name o xs m a h, absorb_name o x t m h1]

end SaModel.Lemmas.C07
