import SaModel.Lemmas.C07TSort
/-
C07, tree level — from tracers to schemas: equivalent well-formed tracers give `to_field` / `to_schema` results that
are equal up to `Spec.normField` / `Spec.schemaEquiv` (children of plain structs as a set; map-mode structs are sorted
by `to_field` itself), and fail together.
-/
namespace SaModel.Lemmas.C07
open SaModel SaModel.Trace SaModel.Props.C07
open SaModel.Trace.Spec (insertField sortFields normField normType normFields normUFields normSchema schemaEquiv)

/-- equal up to the order of the children of plain structs -/
def NEq (f g : Field) : Prop := normField f = normField g

def FRel (r r' : R Field) : Prop :=
  (∀ f, r = .ok f → ∃ g, r' = .ok g ∧ NEq f g) ∧ (∀ g, r' = .ok g → ∃ f, r = .ok f ∧ NEq f g)

theorem FRel.refl (r : R Field) : FRel r r := ⟨fun f h => ⟨f, h, rfl⟩, fun g h => ⟨g, h, rfl⟩⟩
theorem FRel.symm {r r' : R Field} (h : FRel r r') : FRel r' r :=
  ⟨fun g hg => let ⟨f, hf, e⟩ := h.2 g hg; ⟨f, hf, e.symm⟩, fun f hf => let ⟨g, hg, e⟩ := h.1 f hf; ⟨g, hg, e.symm⟩⟩

theorem FRel.withOverwrite {o : Options} {n p : String} {k k' : Unit → R Field} (h : FRel (k ()) (k' ())) :
    FRel (withOverwrite o n p k) (withOverwrite o n p k') := by
  unfold Trace.withOverwrite
  cases o.get_overwrite p with
  | none => exact h
  | some ov => exact FRel.refl _

theorem FRel.bind1 {r r' : R Field} (F : Field → Field) (h : FRel r r') (hF : ∀ f g, NEq f g → NEq (F f) (F g)) :
    FRel (r >>= fun x => .ok (F x)) (r' >>= fun x => .ok (F x)) := by
  constructor
  · intro f hf
    cases hr : r with
    | error e => rw [hr] at hf; cases hf
    | ok x =>
      rw [hr] at hf; cases hf
      obtain ⟨y, hy, e⟩ := h.1 x hr
      exact ⟨F y, by rw [hy]; rfl, hF x y e⟩
  · intro g hg
    cases hr : r' with
    | error e => rw [hr] at hg; cases hg
    | ok y =>
      rw [hr] at hg; cases hg
      obtain ⟨x, hx, e⟩ := h.2 y hr
      exact ⟨F x, by rw [hx]; rfl, hF x y e⟩

theorem FRel.bind2 {r1 r1' r2 r2' : R Field} (F : Field → Field → Field) (h1 : FRel r1 r1') (h2 : FRel r2 r2')
    (hF : ∀ f g f' g', NEq f g → NEq f' g' → NEq (F f f') (F g g')) :
    FRel (r1 >>= fun x => r2 >>= fun y => .ok (F x y)) (r1' >>= fun x => r2' >>= fun y => .ok (F x y)) := by
  constructor
  · intro f hf
    cases hr : r1 with
    | error e => rw [hr] at hf; cases hf
    | ok x =>
      cases hs : r2 with
      | error e => rw [hr, hs] at hf; cases hf
      | ok y =>
        rw [hr, hs] at hf; cases hf
        obtain ⟨x', hx', e⟩ := h1.1 x hr
        obtain ⟨y', hy', e'⟩ := h2.1 y hs
        exact ⟨F x' y', by rw [hx', hy']; rfl, hF _ _ _ _ e e'⟩
  · intro g hg
    cases hr : r1' with
    | error e => rw [hr] at hg; cases hg
    | ok x' =>
      cases hs : r2' with
      | error e => rw [hr, hs] at hg; cases hg
      | ok y' =>
        rw [hr, hs] at hg; cases hg
        obtain ⟨x, hx, e⟩ := h1.2 x' hr
        obtain ⟨y, hy, e'⟩ := h2.2 y' hs
        exact ⟨F x y, by rw [hx, hy]; rfl, hF _ _ _ _ e e'⟩

theorem normField_name (f : Field) : (normField f).name = f.name := by
  cases f; rw [normField]; rfl

theorem normFields_ofList : ∀ (l : List Field), normFields (Fields.ofList l) = l.map normField
  | [] => by simp [Fields.ofList, normFields]
  | f :: r => by simp [Fields.ofList, normFields, normFields_ofList r]

theorem normFields_toList : ∀ (F : Fields), normFields F = F.toList.map normField
  | .nil => by simp [Fields.toList, normFields]
  | .cons f r => by simp [Fields.toList, normFields, normFields_toList r]

theorem normUFields_ofList : ∀ (l : List (Int × Field)),
    normUFields (UFields.ofList l) = UFields.ofList (l.map fun x => (x.1, normField x.2))
  | [] => by simp [UFields.ofList, normUFields]
  | (i, f) :: r => by simp [UFields.ofList, normUFields, normUFields_ofList r]

/-! ### struct children -/

/-- what both struct modes need: the children agree as sorted lists of normalised fields -/
theorem struct_NEq {n : String} {nl : Bool} {F G : List Field}
    (h : sortFields (F.map normField) = sortFields (G.map normField)) :
    NEq (.mk n (.struct (Fields.ofList F)) nl []) (.mk n (.struct (Fields.ofList G)) nl []) ∧
    NEq (.mk n (.struct (Fields.ofList (sortByName F))) nl (strategyMeta .mapAsStruct))
      (.mk n (.struct (Fields.ofList (sortByName G))) nl (strategyMeta .mapAsStruct)) := by
  constructor
  · unfold NEq
    rw [normField, normField]
    simp only [List.isEmpty, normType, normFields_ofList, if_true, h]
  · unfold NEq
    rw [normField, normField]
    have e : (strategyMeta Strategy.mapAsStruct).isEmpty = false := rfl
    simp only [e, normType, normFields_ofList, Bool.false_eq_true, if_false, sortByName_eq]
    rw [← sort_map normField normField_name, ← sort_map normField normField_name, h]

/-! ### `to_field` keeps the node's name -/

theorem withOverwrite_name {o : Options} {n p : String} {k : Unit → R Field} {f : Field}
    (hk : ∀ f, k () = .ok f → f.name = n) (h : withOverwrite o n p k = .ok f) : f.name = n := by
  unfold Trace.withOverwrite at h
  cases ho : o.get_overwrite p with
  | none => rw [ho] at h; exact hk f h
  | some ov =>
    rw [ho] at h
    simp only at h
    split at h
    · cases h
    · rename_i hne
      cases h
      simpa using hne

theorem to_field_name {o : Options} {a : Tracer} {f : Field} (h : a.to_field o = .ok f) : f.name = a.name := by
  cases a <;> simp only [Tracer.to_field] at h <;> refine withOverwrite_name ?_ h <;> intro f' h' <;>
    try simp only [bind, Except.bind, default_dictionary_field] at h'
  case unknown => split at h' <;> first | (cases h'; rfl) | cases h'
  case primitive =>
    repeat' (split at h')
    all_goals first | (cases h'; rfl) | cases h'
  case list =>
    repeat' (split at h')
    all_goals first | (cases h'; rfl) | cases h'
  case map =>
    repeat' (split at h')
    all_goals first | (cases h'; rfl) | cases h'
  case struct =>
    repeat' (split at h')
    all_goals first | (cases h'; rfl) | cases h'
  case tuple =>
    repeat' (split at h')
    all_goals first | (cases h'; rfl) | cases h'
  case union =>
    repeat' (split at h')
    all_goals first | (cases h'; rfl) | cases h'

/-! ### the field list of a struct node -/

theorem tfields_spec {o : Options} : ∀ {fs : TFields} {F : List Field}, fs.to_fields o = .ok F →
    (∀ k l t, (k, l, t) ∈ fs.toList → ∃ f, t.to_field o = .ok f ∧ f ∈ F) ∧
    (∀ f ∈ F, ∃ k l t, (k, l, t) ∈ fs.toList ∧ t.to_field o = .ok f) ∧
    F.map Field.name = fs.toList.map (fun e => e.2.2.name)
  | .nil, F, h => by
    simp only [TFields.to_fields] at h; cases h
    simp [TFields.toList]
  | .cons n l t r, F, h => by
    simp only [TFields.to_fields, bind, Except.bind] at h
    cases h1 : t.to_field o with
    | error e => rw [h1] at h; cases h
    | ok f =>
      rw [h1] at h
      simp only at h
      cases h2 : r.to_fields o with
      | error e => rw [h2] at h; cases h
      | ok F' =>
        rw [h2] at h; cases h
        obtain ⟨a1, a2, a3⟩ := tfields_spec h2
        refine ⟨?_, ?_, ?_⟩
        · intro k l' t' hm
          simp only [TFields.toList, List.mem_cons, Prod.mk.injEq] at hm
          rcases hm with ⟨rfl, rfl, rfl⟩ | hm
          · exact ⟨f, h1, by simp⟩
          · obtain ⟨g, hg, hgm⟩ := a1 k l' t' hm
            exact ⟨g, hg, List.mem_cons_of_mem _ hgm⟩
        · intro g hg
          rcases List.mem_cons.mp hg with rfl | hg
          · exact ⟨n, l, t, by simp [TFields.toList], h1⟩
          · obtain ⟨k, l', t', hm, ht⟩ := a2 g hg
            exact ⟨k, l', t', by simp [TFields.toList, hm], ht⟩
        · simp only [List.map_cons, TFields.toList, a3, to_field_name h1]

theorem tfields_mk {o : Options} : ∀ {fs : TFields}, (∀ k l t, (k, l, t) ∈ fs.toList → ∃ f, t.to_field o = .ok f) →
    ∃ F, fs.to_fields o = .ok F
  | .nil, _ => ⟨[], rfl⟩
  | .cons n l t r, h => by
    obtain ⟨f, hf⟩ := h n l t (by simp [TFields.toList])
    obtain ⟨F, hF⟩ := tfields_mk (fs := r) fun k l' t' hm => h k l' t' (by simp [TFields.toList, hm])
    exact ⟨f :: F, by simp only [TFields.to_fields, bind, Except.bind, hf, hF]⟩

theorem names_of_FWF {o : Options} {s : Nat} : ∀ {fs : TFields}, FWF o s fs →
    fs.toList.map (fun e => e.2.2.name) = fs.names
  | .nil, _ => rfl
  | .cons n l t r, h => by
    rw [FWF] at h
    simp only [TFields.toList, List.map_cons, TFields.names, h.2.2.1, names_of_FWF h.2.2.2.2]

/-- entries of `A` have partners in `B` whose `to_field` results agree -/
def FSR (o : Options) (A B : TFields) : Prop :=
  ∀ k l t, (k, l, t) ∈ A.toList → ∃ l' t', B.find k = some (l', t') ∧ FRel (t.to_field o) (t'.to_field o)

theorem struct_side {o : Options} {s s' : Nat} {A B : TFields} (hA : FWF o s A) (hB : FWF o s' B)
    (h1 : FSR o A B) (h2 : FSR o B A) {F : List Field} (hF : A.to_fields o = .ok F) :
    ∃ G, B.to_fields o = .ok G ∧ sortFields (F.map normField) = sortFields (G.map normField) := by
  obtain ⟨a1, a2, a3⟩ := tfields_spec hF
  obtain ⟨G, hG⟩ := tfields_mk (o := o) (fs := B) (by
    intro k l' t' hm
    obtain ⟨l, t, hf, hr⟩ := h2 k l' t' hm
    obtain ⟨f, hf', _⟩ := a1 k l t (find_mem hf)
    obtain ⟨g, hg, _⟩ := hr.2 f hf'
    exact ⟨g, hg⟩)
  obtain ⟨b1, b2, b3⟩ := tfields_spec hG
  refine ⟨G, hG, sort_ext ?_ ?_ ?_⟩
  · rw [List.map_map]
    have : (Field.name ∘ normField) = Field.name := funext normField_name
    rw [this, a3, names_of_FWF hA]; exact FWF_nodup hA
  · rw [List.map_map]
    have : (Field.name ∘ normField) = Field.name := funext normField_name
    rw [this, b3, names_of_FWF hB]; exact FWF_nodup hB
  · intro x
    simp only [List.mem_map]
    constructor
    · rintro ⟨f, hf, rfl⟩
      obtain ⟨k, l, t, hm, ht⟩ := a2 f hf
      obtain ⟨l', t', hfind, hr⟩ := h1 k l t hm
      obtain ⟨g, hg, e⟩ := hr.1 f ht
      obtain ⟨g', hg', hgm⟩ := b1 k l' t' (find_mem hfind)
      rw [hg] at hg'; cases hg'
      exact ⟨g, hgm, e.symm⟩
    · rintro ⟨g, hg, rfl⟩
      obtain ⟨k, l', t', hm, ht⟩ := b2 g hg
      obtain ⟨l, t, hfind, hr⟩ := h2 k l' t' hm
      obtain ⟨f, hf, e⟩ := hr.1 g ht
      obtain ⟨f', hf', hfm⟩ := a1 k l t (find_mem hfind)
      rw [hf] at hf'; cases hf'
      exact ⟨f, hfm, e.symm⟩

/-- the reverse partner relation, from key-set equality and distinct names -/
theorem FSR_rev {o : Options} {s s' : Nat} {A B : TFields} (hA : FWF o s A) (hB : FWF o s' B)
    (hk : ∀ k, (A.find k).isSome = (B.find k).isSome) (h : FSR o A B) : FSR o B A := by
  intro k l' t' hm
  have hb := (mem_find hB hm).1
  have := hk k
  rw [hb] at this
  cases ha : A.find k with
  | none => rw [ha] at this; cases this
  | some lt =>
    obtain ⟨l, t⟩ := lt
    obtain ⟨l'', t'', hb', hr⟩ := h k l t (find_mem ha)
    rw [hb] at hb'; cases hb'
    exact ⟨l, t, rfl, hr.symm⟩

/-! ### lists of fields in order (tuples), variant lists -/

def LRel (r r' : R (List Field)) : Prop :=
  (∀ F, r = .ok F → ∃ G, r' = .ok G ∧ F.map normField = G.map normField) ∧
  (∀ G, r' = .ok G → ∃ F, r = .ok F ∧ F.map normField = G.map normField)

def URel (r r' : R (List (Int × Field))) : Prop :=
  (∀ F, r = .ok F → ∃ G, r' = .ok G ∧ F.map (fun x => (x.1, normField x.2)) = G.map (fun x => (x.1, normField x.2))) ∧
  (∀ G, r' = .ok G → ∃ F, r = .ok F ∧ F.map (fun x => (x.1, normField x.2)) = G.map (fun x => (x.1, normField x.2)))

theorem VEq_without_data : ∀ {A B : Variants}, VEq A B → B.is_without_data = A.is_without_data
  | .nil, B, h => by rw [VEq] at h; subst h; rfl
  | .absent r, B, h => by rw [VEq] at h; obtain ⟨r', rfl, _⟩ := h; rfl
  | .present _ t r, B, h => by
    rw [VEq] at h; obtain ⟨t', r', rfl, h1, h2⟩ := h
    simp only [Variants.is_without_data, is_null_variant, (TEq_top h1).2.2.2, VEq_without_data h2]

mutual
theorem tf_eqv (o : Options) : ∀ (a b : Tracer), TEq a b → TEq b a → WF o a → WF o b →
    FRel (a.to_field o) (b.to_field o)
  | .unknown _ _ _, b, h, _, _, _ => by rw [TEq] at h; subst h; exact FRel.refl _
  | .primitive _ _ _ _ _, b, h, _, _, _ => by rw [TEq] at h; subst h; exact FRel.refl _
  | .list n p nl i, b, h1, h2, hw, hw' => by
    rw [TEq] at h1; obtain ⟨i', rfl, e1⟩ := h1
    rw [TEq] at h2; obtain ⟨i'', e, e2⟩ := h2; cases e
    rw [WF] at hw hw'
    have ih := tf_eqv o i i' e1 e2 hw hw'
    simp only [Tracer.to_field]
    refine FRel.withOverwrite (FRel.bind1
      (fun item => Field.mk n (if o.sequence_as_large_list then .largeList item else .list item) nl []) ih ?_)
    intro f g e
    unfold NEq at e ⊢
    rw [normField, normField]
    split <;> simp only [normType, e]
  | .map n p nl k v, b, h1, h2, hw, hw' => by
    rw [TEq] at h1; obtain ⟨k', v', rfl, e1, e1'⟩ := h1
    rw [TEq] at h2; obtain ⟨k'', v'', e, e2, e2'⟩ := h2; cases e
    rw [WF] at hw hw'
    have ihk := tf_eqv o k k' e1 e2 hw.1 hw'.1
    have ihv := tf_eqv o v v' e1' e2' hw.2 hw'.2
    simp only [Tracer.to_field]
    refine FRel.withOverwrite (FRel.bind2
      (fun kf vf => Field.mk n (.map (Field.mk "entries" (.struct (Fields.ofList [kf, vf])) false []) false) nl [])
      ihk ihv ?_)
    intro f g f' g' e e'
    unfold NEq at e e' ⊢
    rw [normField, normField]
    simp only [normType]
    rw [normField, normField]
    simp only [List.isEmpty, normType, normFields_ofList, if_true, List.map_cons, List.map_nil, e, e']
  | .struct n p nl fs m s, b, h1, h2, hw, hw' => by
    rw [TEq] at h1; obtain ⟨fs', s', rfl, _, hk, hsub⟩ := h1
    rw [TEq] at h2; obtain ⟨fs'', s'', e, _, _, hsub'⟩ := h2; cases e
    rw [WF] at hw hw'
    have hsr : FSR o fs fs' := fs_rel o fs fs' (by
      intro k l t hm
      obtain ⟨l', t', hf', he⟩ := FSub_mem hsub hm
      obtain ⟨l'', t'', hf'', he'⟩ := FSub_find hsub' hf'
      have hfind := (mem_find hw hm).1
      rw [hfind] at hf''; cases hf''
      exact ⟨l', t', hf', he, he', (mem_find hw hm).2.2.1, (find_wf hw' hf').2⟩)
    have hsr' := FSR_rev hw hw' hk hsr
    simp only [Tracer.to_field]
    refine FRel.withOverwrite ?_
    simp only [bind, Except.bind]
    constructor
    · intro f hf
      cases hF : fs.to_fields o with
      | error e => rw [hF] at hf; cases hf
      | ok F =>
        rw [hF] at hf
        obtain ⟨G, hG, hs⟩ := struct_side hw hw' hsr hsr' hF
        rw [hG]
        cases m <;> simp only at hf ⊢ <;> cases hf
        · exact ⟨_, rfl, (struct_NEq hs).1⟩
        · exact ⟨_, rfl, (struct_NEq hs).2⟩
    · intro g hg
      cases hG : fs'.to_fields o with
      | error e => rw [hG] at hg; cases hg
      | ok G =>
        rw [hG] at hg
        obtain ⟨F, hF, hs⟩ := struct_side hw' hw hsr' hsr hG
        rw [hF]
        cases m <;> simp only at hg ⊢ <;> cases hg
        · exact ⟨_, rfl, (struct_NEq hs.symm).1⟩
        · exact ⟨_, rfl, (struct_NEq hs.symm).2⟩
  | .tuple n p nl ts, b, h1, h2, hw, hw' => by
    rw [TEq] at h1; obtain ⟨ts', rfl, e1⟩ := h1
    rw [TEq] at h2; obtain ⟨ts'', e, e2⟩ := h2; cases e
    rw [WF] at hw hw'
    have ih := ts_eqv o ts ts' e1 e2 hw hw'
    simp only [Tracer.to_field]
    refine FRel.withOverwrite ?_
    simp only [bind, Except.bind]
    have key : ∀ F G : List Field, F.map normField = G.map normField →
        NEq (.mk n (.struct (Fields.ofList F)) nl (strategyMeta .tupleAsStruct))
          (.mk n (.struct (Fields.ofList G)) nl (strategyMeta .tupleAsStruct)) := by
      intro F G e
      unfold NEq
      rw [normField, normField]
      have e0 : (strategyMeta Strategy.tupleAsStruct).isEmpty = false := rfl
      simp only [e0, normType, normFields_ofList, Bool.false_eq_true, if_false, e]
    constructor
    · intro f hf
      cases hF : ts.to_fields o with
      | error e => rw [hF] at hf; cases hf
      | ok F =>
        rw [hF] at hf; cases hf
        obtain ⟨G, hG, e⟩ := ih.1 F hF
        rw [hG]
        exact ⟨_, rfl, key F G e⟩
    · intro g hg
      cases hG : ts'.to_fields o with
      | error e => rw [hG] at hg; cases hg
      | ok G =>
        rw [hG] at hg; cases hg
        obtain ⟨F, hF, e⟩ := ih.2 G hG
        rw [hF]
        exact ⟨_, rfl, key F G e⟩
  | .union n p nl vs, b, h1, h2, hw, hw' => by
    rw [TEq] at h1; obtain ⟨vs', rfl, e1⟩ := h1
    rw [TEq] at h2; obtain ⟨vs'', e, e2⟩ := h2; cases e
    rw [WF] at hw hw'
    have ih := vs_eqv o vs vs' 0 e1 e2 hw hw'
    simp only [Tracer.to_field]
    refine FRel.withOverwrite ?_
    rw [VEq_without_data e1]
    split
    · exact FRel.refl _
    · split
      · exact FRel.refl _
      · simp only [bind, Except.bind]
        have key : ∀ F G : List (Int × Field), F.map (fun x => (x.1, normField x.2)) = G.map (fun x => (x.1, normField x.2)) →
            NEq (.mk n (.union (UFields.ofList F) .dense) nl []) (.mk n (.union (UFields.ofList G) .dense) nl []) := by
          intro F G e
          unfold NEq
          rw [normField, normField]
          simp only [normType, normUFields_ofList, e]
        constructor
        · intro f hf
          cases hF : vs.to_fields o 0 with
          | error e => rw [hF] at hf; cases hf
          | ok F =>
            rw [hF] at hf; cases hf
            obtain ⟨G, hG, e⟩ := ih.1 F hF
            rw [hG]
            exact ⟨_, rfl, key F G e⟩
        · intro g hg
          cases hG : vs'.to_fields o 0 with
          | error e => rw [hG] at hg; cases hg
          | ok G =>
            rw [hG] at hg; cases hg
            obtain ⟨F, hF, e⟩ := ih.2 G hG
            rw [hF]
            exact ⟨_, rfl, key F G e⟩
theorem fs_rel (o : Options) : ∀ (sub big : TFields),
    (∀ k l t, (k, l, t) ∈ sub.toList → ∃ l' t', big.find k = some (l', t') ∧ TEq t t' ∧ TEq t' t ∧ WF o t ∧ WF o t') →
    FSR o sub big
  | .nil, _, _ => by intro k l t hm; simp [TFields.toList] at hm
  | .cons n l0 t0 r, big, h => by
    intro k l t hm
    simp only [TFields.toList, List.mem_cons, Prod.mk.injEq] at hm
    rcases hm with ⟨rfl, rfl, rfl⟩ | hm
    · obtain ⟨l', t', hf, e1, e2, w1, w2⟩ := h k l t (by simp [TFields.toList])
      exact ⟨l', t', hf, tf_eqv o t t' e1 e2 w1 w2⟩
    · exact fs_rel o r big (fun k l t hm => h k l t (by simp [TFields.toList, hm])) k l t hm
theorem ts_eqv (o : Options) : ∀ (a b : Tracers), TsEq a b → TsEq b a → TsWF o a → TsWF o b →
    LRel (a.to_fields o) (b.to_fields o)
  | .nil, b, h, _, _, _ => by
    rw [TsEq] at h; subst h
    exact ⟨fun F hF => ⟨F, hF, rfl⟩, fun G hG => ⟨G, hG, rfl⟩⟩
  | .cons t r, b, h1, h2, hw, hw' => by
    rw [TsEq] at h1; obtain ⟨t', r', rfl, e1, e1'⟩ := h1
    rw [TsEq] at h2; obtain ⟨t'', r'', e, e2, e2'⟩ := h2; cases e
    rw [TsWF] at hw hw'
    have iht := tf_eqv o t t' e1 e2 hw.1 hw'.1
    have ihr := ts_eqv o r r' e1' e2' hw.2 hw'.2
    simp only [Tracers.to_fields, bind, Except.bind]
    constructor
    · intro F hF
      cases h3 : t.to_field o with
      | error e => rw [h3] at hF; cases hF
      | ok f =>
        rw [h3] at hF
        cases h4 : r.to_fields o with
        | error e => rw [h4] at hF; cases hF
        | ok F' =>
          rw [h4] at hF; cases hF
          obtain ⟨g, hg, e⟩ := iht.1 f h3
          obtain ⟨G', hG', e'⟩ := ihr.1 F' h4
          rw [hg, hG']
          exact ⟨_, rfl, by simp only [List.map_cons, e', show normField f = normField g from e]⟩
    · intro G hG
      cases h3 : t'.to_field o with
      | error e => rw [h3] at hG; cases hG
      | ok g =>
        rw [h3] at hG
        cases h4 : r'.to_fields o with
        | error e => rw [h4] at hG; cases hG
        | ok G' =>
          rw [h4] at hG; cases hG
          obtain ⟨f, hf, e⟩ := iht.2 g h3
          obtain ⟨F', hF', e'⟩ := ihr.2 G' h4
          rw [hf, hF']
          exact ⟨_, rfl, by simp only [List.map_cons, e', show normField f = normField g from e]⟩
theorem vs_eqv (o : Options) : ∀ (a b : Variants) (idx : Nat), VEq a b → VEq b a → VWF o a → VWF o b →
    URel (a.to_fields o idx) (b.to_fields o idx)
  | .nil, b, idx, h, _, _, _ => by
    rw [VEq] at h; subst h
    exact ⟨fun F hF => ⟨F, hF, rfl⟩, fun G hG => ⟨G, hG, rfl⟩⟩
  | .absent r, b, idx, h1, h2, hw, hw' => by
    rw [VEq] at h1; obtain ⟨r', rfl, e1⟩ := h1
    rw [VEq] at h2; obtain ⟨r'', e, e2⟩ := h2; cases e
    rw [VWF] at hw hw'
    have ihr := vs_eqv o r r' (idx + 1) e1 e2 hw hw'
    simp only [Variants.to_fields, bind, Except.bind]
    split
    · constructor
      · intro F hF; simp [fail] at hF
      · intro G hG; simp [fail] at hG
    · try simp only [pure, Except.pure]
      constructor
      · intro F hF
        cases h4 : r.to_fields o (idx + 1) with
        | error e => rw [h4] at hF; cases hF
        | ok F' =>
          rw [h4] at hF; cases hF
          obtain ⟨G', hG', e'⟩ := ihr.1 F' h4
          rw [hG']
          exact ⟨_, rfl, by simp only [List.map_cons, e']⟩
      · intro G hG
        cases h4 : r'.to_fields o (idx + 1) with
        | error e => rw [h4] at hG; cases hG
        | ok G' =>
          rw [h4] at hG; cases hG
          obtain ⟨F', hF', e'⟩ := ihr.2 G' h4
          rw [hF']
          exact ⟨_, rfl, by simp only [List.map_cons, e']⟩
  | .present nm t r, b, idx, h1, h2, hw, hw' => by
    rw [VEq] at h1; obtain ⟨t', r', rfl, e1, e1'⟩ := h1
    rw [VEq] at h2; obtain ⟨t'', r'', e, e2, e2'⟩ := h2; cases e
    rw [VWF] at hw hw'
    have iht := tf_eqv o t t' e1 e2 hw.1 hw'.1
    have ihr := vs_eqv o r r' (idx + 1) e1' e2' hw.2 hw'.2
    simp only [Variants.to_fields, bind, Except.bind]
    split
    · constructor
      · intro F hF; simp [fail] at hF
      · intro G hG; simp [fail] at hG
    · try simp only [pure, Except.pure]
      constructor
      · intro F hF
        cases h3 : t.to_field o with
        | error e => rw [h3] at hF; cases hF
        | ok f =>
          rw [h3] at hF
          cases h4 : r.to_fields o (idx + 1) with
          | error e => rw [h4] at hF; cases hF
          | ok F' =>
            rw [h4] at hF; cases hF
            obtain ⟨g, hg, e⟩ := iht.1 f h3
            obtain ⟨G', hG', e'⟩ := ihr.1 F' h4
            rw [hg, hG']
            exact ⟨_, rfl, by simp only [List.map_cons, e', show normField f = normField g from e]⟩
      · intro G hG
        cases h3 : t'.to_field o with
        | error e => rw [h3] at hG; cases hG
        | ok g =>
          rw [h3] at hG
          cases h4 : r'.to_fields o (idx + 1) with
          | error e => rw [h4] at hG; cases hG
          | ok G' =>
            rw [h4] at hG; cases hG
            obtain ⟨f, hf, e⟩ := iht.2 g h3
            obtain ⟨F', hF', e'⟩ := ihr.2 G' h4
            rw [hf, hF']
            exact ⟨_, rfl, by simp only [List.map_cons, e', show normField f = normField g from e]⟩
end

end SaModel.Lemmas.C07
