import SaModel.Lemmas.C07TSchema
/-
C07, tree level — `to_schema` of equivalent tracers: `Spec.schemaEquiv` schemas, or both fail.
-/
namespace SaModel.Lemmas.C07
open SaModel SaModel.Trace SaModel.Props.C07
open SaModel.Trace.Spec (insertField sortFields normField normType normFields normUFields normSchema schemaEquiv)

/-- outcomes of schema tracing agree: both succeed with `Spec.schemaEquiv` schemas, or both fail -/
def SchemaOutEq (r r' : R (List Field)) : Prop :=
  (∃ s s', r = .ok s ∧ r' = .ok s' ∧ schemaEquiv s s' = true) ∨ (r.isOk = false ∧ r'.isOk = false)

theorem normType_struct {p : Bool} {dt : DataType} {X : Fields} (h : normType p dt = .struct X) : ∃ G, dt = .struct G := by
  cases dt <;> simp [normType] at h
  exact ⟨_, rfl⟩

theorem ofList_inj {l l' : List Field} (h : Fields.ofList l = Fields.ofList l') : l = l' := by
  have := congrArg Fields.toList h
  simpa using this

theorem to_schema_ok {o : Options} {t : Tracer} {s : List Field} : t.to_schema o = .ok s ↔
    ∃ n F md, t.to_field o = .ok (.mk n (.struct F) false md) ∧ s = F.toList := by
  unfold Tracer.to_schema
  simp only [bind, Except.bind]
  cases h : t.to_field o with
  | error e => simp
  | ok root =>
    obtain ⟨n, dt, nl, md⟩ := root
    simp only [Field.nullable, Field.dataType]
    cases nl with
    | true => simp [fail]
    | false =>
      cases dt <;> simp [fail]
      constructor
      · intro e; exact ⟨n, _, ⟨rfl, rfl⟩, e.symm⟩
      · rintro ⟨n', F, ⟨_, rfl⟩, e⟩; exact e.symm

theorem schema_side {o : Options} {a b : Tracer} (h : FRel (a.to_field o) (b.to_field o)) {s : List Field}
    (hs : a.to_schema o = .ok s) : ∃ s', b.to_schema o = .ok s' ∧ schemaEquiv s s' = true := by
  obtain ⟨n, F, md, hf, rfl⟩ := to_schema_ok.mp hs
  obtain ⟨g, hg, e⟩ := h.1 _ hf
  obtain ⟨n', dt', nl', md'⟩ := g
  unfold NEq at e
  rw [normField, normField] at e
  simp only [Field.mk.injEq] at e
  obtain ⟨rfl, e2, rfl, rfl⟩ := e
  have : ∃ G, dt' = .struct G := by
    cases hp : md.isEmpty <;> rw [hp] at e2 <;> simp only [normType] at e2
    · exact normType_struct e2.symm
    · exact normType_struct e2.symm
  obtain ⟨G, rfl⟩ := this
  refine ⟨G.toList, to_schema_ok.mpr ⟨n, G, md, hg, rfl⟩, ?_⟩
  unfold schemaEquiv normSchema
  simp only [decide_eq_true_eq]
  rw [← normFields_toList, ← normFields_toList]
  cases hp : md.isEmpty <;> rw [hp] at e2 <;> simp only [normType, Bool.false_eq_true, if_false, if_true,
    DataType.struct.injEq] at e2
  · rw [ofList_inj e2]
  · exact ofList_inj e2

theorem schema_out {o : Options} {a b : Tracer} (he : Eqv a b) (hw : WF o a) (hw' : WF o b) :
    SchemaOutEq (a.to_schema o) (b.to_schema o) := by
  have h := tf_eqv o a b he.1 he.2 hw hw'
  cases hs : a.to_schema o with
  | ok s =>
    obtain ⟨s', hs', e⟩ := schema_side h hs
    exact .inl ⟨s, s', rfl, hs', e⟩
  | error e =>
    cases hs' : b.to_schema o with
    | ok s' =>
      obtain ⟨s, hs2, _⟩ := schema_side h.symm hs'
      rw [hs] at hs2; cases hs2
    | error e' => exact .inr ⟨rfl, rfl⟩

theorem fromSamples_eq (c : Code) (o : Options) (xs : List SVal) :
    fromSamples c o xs = match fromSamplesTracer c o xs with
      | .ok t => t.to_schema o
      | .error e => .error e := by
  unfold fromSamples
  simp only [bind, Except.bind]
  cases fromSamplesTracer c o xs <;> rfl

/-- from equivalent tracer outcomes to schema outcomes -/
theorem schema_of_tracers {o : Options} {xs ys : List SVal}
    (h : OutEqv o (fromSamplesTracer .fixed o xs) (fromSamplesTracer .fixed o ys)) :
    SchemaOutEq (fromSamples .fixed o xs) (fromSamples .fixed o ys) := by
  rw [fromSamples_eq, fromSamples_eq]
  rcases h with ⟨a, b, h1, h2, he, hwa, hwb⟩ | ⟨h1, h2⟩
  · rw [h1, h2]; exact schema_out he hwa hwb
  · cases h3 : fromSamplesTracer .fixed o xs with
    | ok _ => rw [h3] at h1; cases h1
    | error _ =>
      cases h4 : fromSamplesTracer .fixed o ys with
      | ok _ => rw [h4] at h2; cases h2
      | error _ => exact .inr ⟨rfl, rfl⟩

end SaModel.Lemmas.C07
