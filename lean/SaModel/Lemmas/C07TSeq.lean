import SaModel.Lemmas.C07TList
/-
C07, tree level — shapes (which node kind a sample needs / produces), wrappers (`None`, `Some`, newtype) in the swap
law, and the `seq` family.
-/
namespace SaModel.Lemmas.C07
open SaModel SaModel.Trace SaModel.Props.C07

inductive Shape where
  | list | map | struct | tuple | union
deriving DecidableEq, Repr

def Tracer.shape : Tracer → Option Shape
  | .unknown _ _ _ | .primitive _ _ _ _ _ => none
  | .list _ _ _ _ => some .list
  | .map _ _ _ _ _ => some .map
  | .struct _ _ _ _ _ _ => some .struct
  | .tuple _ _ _ _ => some .tuple
  | .union _ _ _ _ => some .union

/-- the container node a sample needs (none: leaves and the transparent wrappers) -/
def cshape (o : Options) : SVal → Option Shape
  | .seq _ => some .list
  | .tuple _ | .tupleStruct _ _ => some .tuple
  | .record _ _ => some .struct
  | .map _ | .mapRaw _ => if o.map_as_struct then some .struct else some .map
  | .unitVariant _ _ _ | .newtypeVariant _ _ _ _ | .tupleVariant _ _ _ _ | .structVariant _ _ _ _ => some .union
  | _ => none

theorem shape_isLeaf {t : Tracer} : Tracer.shape t = none ↔ Tracer.isLeaf t = true := by
  cases t <;> simp [Tracer.shape, Tracer.isLeaf]

theorem unknownish_isLeaf {t : Tracer} (h : t.is_unknown_or_null = true) : Tracer.isLeaf t = true := by
  cases t <;> first | rfl | (simp [Tracer.is_unknown_or_null] at h)

theorem shape_mark (t : Tracer) : Tracer.shape t.mark_nullable = Tracer.shape t := by cases t <;> rfl

/-! ### the swap law through the transparent wrappers -/

theorem absorb2_some_l (c : Code) (o : Options) (t : Tracer) (v y : SVal) :
    absorb2 c o t (.some v) y = absorb2 c o t.mark_nullable v y := by
  simp only [absorb2, absorb]

theorem absorb2_some_r (c : Code) (o : Options) (t : Tracer) (v y : SVal) :
    absorb2 c o t y (.some v) = absorb2 c o t.mark_nullable y v := by
  simp only [absorb2, absorb, absorb_mark c o y t]
  cases absorb c o t y <;> rfl

theorem swap_some_l {o : Options} {v y : SVal} (h : Swap o v y) : Swap o (.some v) y := by
  intro t a hw ha
  rw [absorb2_some_l] at ha
  rw [absorb2_some_r]
  exact h _ a (WF_mark hw) ha

theorem swap_some_r {o : Options} {x v : SVal} (h : Swap o x v) : Swap o x (.some v) := by
  intro t a hw ha
  rw [absorb2_some_r] at ha
  rw [absorb2_some_l]
  exact h _ a (WF_mark hw) ha

theorem swap_newtype_l {o : Options} {n : String} {v y : SVal} (h : Swap o v y) : Swap o (.newtypeStruct n v) y := by
  intro t a hw ha
  simp only [absorb2, absorb] at ha ⊢
  exact h t a hw ha

theorem swap_newtype_r {o : Options} {n : String} {x v : SVal} (h : Swap o x v) : Swap o x (.newtypeStruct n v) := by
  intro t a hw ha
  simp only [absorb2, absorb] at ha ⊢
  exact h t a hw ha

theorem absorb2_none_l (c : Code) (o : Options) (t : Tracer) (y : SVal) :
    absorb2 c o t .none y = (absorb c o t y).map Tracer.mark_nullable := by
  simp only [absorb2, absorb, absorb_mark c o y t]

theorem absorb2_none_r (c : Code) (o : Options) (t : Tracer) (y : SVal) :
    absorb2 c o t y .none = (absorb c o t y).map Tracer.mark_nullable := by
  simp only [absorb2, absorb]
  cases absorb c o t y <;> rfl

theorem swap_none_l {o : Options} {y : SVal} (hy : Cong o y) : Swap o .none y := by
  intro t a hw ha
  rw [absorb2_none_l] at ha
  rw [absorb2_none_r]
  refine ⟨a, ha, ?_⟩
  cases h1 : absorb .fixed o t y with
  | ok m => rw [h1] at ha; cases ha; exact TEq_refl o _ (WF_mark (hy.wf hw h1))
  | error e => rw [h1] at ha; cases ha

theorem swap_none_r {o : Options} {x : SVal} (hx : Cong o x) : Swap o x .none := by
  intro t a hw ha
  rw [absorb2_none_r] at ha
  rw [absorb2_none_l]
  refine ⟨a, ha, ?_⟩
  cases h1 : absorb .fixed o t x with
  | ok m => rw [h1] at ha; cases ha; exact TEq_refl o _ (WF_mark (hx.wf hw h1))
  | error e => rw [h1] at ha; cases ha

/-! ### `seq` -/

theorem absorb_seq_ok {o : Options} {t a : Tracer} {items : SVals} (h : absorb .fixed o t (.seq items) = .ok a) :
    ∃ n p nl i i', t.ensure_list = .ok (.list n p nl i) ∧ absorbAll .fixed o i items.toList = .ok i' ∧
      a = .list n p nl i' := by
  simp only [absorb, bind, Except.bind] at h
  cases h1 : t.ensure_list with
  | error e => rw [h1] at h; cases h
  | ok t1 =>
    rw [h1] at h
    obtain ⟨_, hc⟩ := ensure_list_inv h1
    have : ∃ n p nl i, t1 = .list n p nl i := by
      rcases hc with ⟨_, rfl⟩ | ⟨n, p, nl, i, rfl, rfl⟩
      · exact ⟨_, _, _, _, rfl⟩
      · exact ⟨_, _, _, _, rfl⟩
    obtain ⟨n, p, nl, i, rfl⟩ := this
    simp only [absorbSeq_eq] at h
    cases h2 : absorbAll .fixed o i items.toList with
    | error e => rw [h2] at h; cases h
    | ok i' => rw [h2] at h; cases h; exact ⟨n, p, nl, i, i', rfl, h2, rfl⟩

theorem absorb_seq_mk {o : Options} {t : Tracer} {items : SVals} {n p nl i i'}
    (h1 : t.ensure_list = .ok (.list n p nl i)) (h2 : absorbAll .fixed o i items.toList = .ok i') :
    absorb .fixed o t (.seq items) = .ok (.list n p nl i') := by
  simp only [absorb, bind, Except.bind, h1, absorbSeq_eq, h2]

/-- what `ensure_list` hands to the element loop -/
theorem ensure_list_facts {o : Options} {t : Tracer} {n p nl i} (hw : WF o t) (h : t.ensure_list = .ok (.list n p nl i)) :
    WF o i ∧ (∀ j, depthOk (.list n p nl j)) ∧
      ((t.is_unknown_or_null = true) ∨ t = .list n p nl i) := by
  obtain ⟨hd, hc⟩ := ensure_list_inv h
  rcases hc with ⟨hu, e⟩ | ⟨n', p', nl', i', rfl, e⟩
  · cases e
    refine ⟨by rw [Tracer.new, WF]; trivial, fun j => (depthOk_path (a := t) rfl).mpr hd, .inl hu⟩
  · cases e
    rw [WF] at hw
    exact ⟨hw, fun j => (depthOk_path (a := .list n p nl i) rfl).mpr hd, .inr rfl⟩

theorem cong_seq {o : Options} {items : SVals} (hc : ∀ v ∈ items.toList, Cong o v) : Cong o (.seq items) := by
  intro t t' a hw hw' he h
  obtain ⟨n, p, nl, i, i', h1, h2, rfl⟩ := absorb_seq_ok h
  obtain ⟨hwi, hd, hcase⟩ := ensure_list_facts hw h1
  rcases hcase with hu | rfl
  · have e := TEq_unknownish he hu
    rw [e]
    obtain ⟨b, h3, _, hwi', _⟩ := congL hc hwi hwi (TEq_refl o i hwi) h2
    have hwa : WF o (.list n p nl i') := by rw [WF]; exact hwi'
    exact ⟨_, h, TEq_refl o _ hwa, hwa⟩
  · rw [TEq] at he
    obtain ⟨j, rfl, hej⟩ := he
    rw [WF] at hw'
    obtain ⟨j', h3, he', hwi', _⟩ := congL hc hwi hw' hej h2
    refine ⟨.list n p nl j', absorb_seq_mk (ensure_list_same (hd j)) h3, ?_, ?_⟩
    · rw [TEq]; exact ⟨j', rfl, he'⟩
    · rw [WF]; exact hwi'

theorem swap_seq {o : Options} {xs ys : SVals} (hc : ∀ v ∈ xs.toList ++ ys.toList, Cong o v)
    (hs : ∀ u ∈ xs.toList ++ ys.toList, ∀ v ∈ xs.toList ++ ys.toList, Swap o u v) : Swap o (.seq xs) (.seq ys) := by
  intro t a hw ha
  obtain ⟨m, h1, h2⟩ := absorb2_ok ha
  obtain ⟨n, p, nl, i, i1, e1, r1, rfl⟩ := absorb_seq_ok h1
  obtain ⟨hwi, hd, _⟩ := ensure_list_facts hw e1
  obtain ⟨n', p', nl', j, i2, e2, r2, rfl⟩ := absorb_seq_ok h2
  rw [ensure_list_same (hd i1)] at e2
  cases e2
  have hall := absorbAll_append_mk r1 r2
  obtain ⟨b, hb, heb, _, _⟩ := permL (List.perm_append_comm) hc hs hwi hwi (TEq_refl o i hwi) hall
  obtain ⟨j1, r3, r4⟩ := absorbAll_append_ok hb
  refine ⟨.list n p nl b, absorb2_mk (absorb_seq_mk e1 r3) (absorb_seq_mk (ensure_list_same (hd j1)) r4), ?_⟩
  rw [TEq]; exact ⟨b, rfl, heb⟩

/-- a `seq` sample needs and produces a list node -/
theorem shape_seq {o : Options} {t a : Tracer} {items : SVals} (h : absorb .fixed o t (.seq items) = .ok a) :
    Tracer.shape a = some .list ∧ (t.is_unknown_or_null = true ∨ Tracer.shape t = some .list) := by
  obtain ⟨n, p, nl, i, i', h1, _, rfl⟩ := absorb_seq_ok h
  refine ⟨rfl, ?_⟩
  obtain ⟨_, hc⟩ := ensure_list_inv h1
  rcases hc with ⟨hu, _⟩ | ⟨_, _, _, _, rfl, _⟩
  · exact .inl hu
  · exact .inr rfl

end SaModel.Lemmas.C07
