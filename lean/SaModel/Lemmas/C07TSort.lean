import SaModel.Lemmas.C07TLift
import SaModel.Trace.Spec
/-
C07, tree level — sorting fields by name (`sort_by(|a, b| a.name.cmp(&b.name))`, modelled as a stable insertion sort):
for lists with distinct names the result depends only on the set of elements.
-/
namespace SaModel.Lemmas.C07
open SaModel SaModel.Trace SaModel.Props.C07
open SaModel.Trace.Spec (insertField sortFields)

theorem insertByName_eq : ∀ (f : Field) (l : List Field), insertByName f l = insertField f l
  | f, [] => rfl
  | f, g :: r => by simp only [insertByName, insertField, insertByName_eq f r]

theorem foldl_insert_eq (l : List Field) : ∀ acc, l.foldl (fun acc f => insertByName f acc) acc =
    l.foldl (fun acc f => insertField f acc) acc := by
  induction l with
  | nil => intro acc; rfl
  | cons f r ih => intro acc; simp only [List.foldl, insertByName_eq, ih]

theorem sortByName_eq (l : List Field) : sortByName l = sortFields l := foldl_insert_eq l []

theorem str_tri {a b : String} (h1 : ¬ a < b) (h2 : a ≠ b) : b < a := by
  apply Classical.byContradiction
  intro h3
  exact h2 (String.le_antisymm (String.not_lt.mp h3) (String.not_lt.mp h1))

theorem mem_insertField {x f : Field} : ∀ {l : List Field}, x ∈ insertField f l ↔ x = f ∨ x ∈ l
  | [] => by simp [insertField]
  | g :: r => by
    simp only [insertField]
    split
    · simp
    · simp only [List.mem_cons, mem_insertField (l := r)]
      constructor
      · rintro (h | h | h)
        · exact .inr (.inl h)
        · exact .inl h
        · exact .inr (.inr h)
      · rintro (h | h | h)
        · exact .inr (.inl h)
        · exact .inl h
        · exact .inr (.inr h)

theorem mem_foldl_insert {x : Field} : ∀ {l acc : List Field},
    x ∈ l.foldl (fun acc f => insertField f acc) acc ↔ x ∈ acc ∨ x ∈ l
  | [], acc => by simp
  | f :: r, acc => by
    simp only [List.foldl, mem_foldl_insert (l := r), mem_insertField, List.mem_cons]
    constructor
    · rintro ((h | h) | h)
      · exact .inr (.inl h)
      · exact .inl h
      · exact .inr (.inr h)
    · rintro (h | h | h)
      · exact .inl (.inr h)
      · exact .inl (.inl h)
      · exact .inr h

theorem mem_sortFields {x : Field} {l : List Field} : x ∈ sortFields l ↔ x ∈ l := by
  unfold sortFields; rw [mem_foldl_insert]; simp

/-- strictly increasing names -/
def SortedN (l : List Field) : Prop := l.Pairwise (fun a b => a.name < b.name)

theorem insert_sorted {f : Field} : ∀ {l : List Field}, SortedN l → (∀ g ∈ l, g.name ≠ f.name) → SortedN (insertField f l)
  | [], _, _ => by simp [insertField, SortedN]
  | g :: r, hs, hn => by
    unfold SortedN at hs ⊢
    rw [List.pairwise_cons] at hs
    simp only [insertField]
    split
    · rename_i hlt
      rw [List.pairwise_cons]
      refine ⟨?_, List.pairwise_cons.mpr hs⟩
      intro x hx
      rcases List.mem_cons.mp hx with rfl | hx
      · exact hlt
      · exact String.lt_trans hlt (hs.1 x hx)
    · rename_i hlt
      rw [List.pairwise_cons]
      refine ⟨?_, insert_sorted (l := r) hs.2 fun x hx => hn x (List.mem_cons_of_mem _ hx)⟩
      intro x hx
      rcases mem_insertField.mp hx with rfl | hx
      · exact str_tri hlt (fun e => hn g (by simp) e.symm)
      · exact hs.1 x hx

theorem foldl_sorted : ∀ {l acc : List Field}, SortedN acc → ((acc ++ l).map Field.name).Nodup →
    SortedN (l.foldl (fun acc f => insertField f acc) acc)
  | [], acc, hs, _ => hs
  | f :: r, acc, hs, hd => by
    simp only [List.foldl]
    have hd' : (acc.map Field.name ++ f.name :: r.map Field.name).Nodup := by simpa using hd
    have h1 := List.nodup_append.mp hd'
    apply foldl_sorted
    · apply insert_sorted hs
      intro g hg e
      exact h1.2.2 g.name (List.mem_map_of_mem hg) f.name (by simp) e
    · rw [List.map_append]
      apply List.nodup_append.mpr
      refine ⟨?_, (List.nodup_cons.mp h1.2.1).2, ?_⟩
      · -- names of `insertField f acc` are a permutation of `f.name :: names acc`
        have hacc := h1.1
        have hf : f.name ∉ acc.map Field.name := fun hm => h1.2.2 f.name hm f.name (by simp) rfl
        clear hd hd' h1 hs
        induction acc with
        | nil => simp [insertField]
        | cons g t ih =>
          simp only [insertField]
          split
          · simp only [List.map_cons, List.nodup_cons]
            simp only [List.map_cons, List.nodup_cons] at hacc
            simp only [List.map_cons, List.mem_cons, not_or] at hf
            exact ⟨by simp [hf.1, hf.2], hacc⟩
          · simp only [List.map_cons, List.nodup_cons] at hacc ⊢
            simp only [List.map_cons, List.mem_cons, not_or] at hf
            refine ⟨?_, ih hacc.2 hf.2⟩
            intro hm
            obtain ⟨x, hx, hxe⟩ := List.mem_map.mp hm
            rcases mem_insertField.mp hx with rfl | hx
            · exact hf.1 hxe
            · exact hacc.1 (hxe ▸ List.mem_map_of_mem hx)
      · intro a ha b hb e
        obtain ⟨x, hx, rfl⟩ := List.mem_map.mp ha
        rcases mem_insertField.mp hx with rfl | hx
        · exact (List.nodup_cons.mp h1.2.1).1 (e ▸ hb)
        · exact h1.2.2 x.name (List.mem_map_of_mem hx) b (List.mem_cons_of_mem _ hb) e

theorem sort_sorted {l : List Field} (hd : (l.map Field.name).Nodup) : SortedN (sortFields l) := by
  unfold sortFields
  exact foldl_sorted (by simp [SortedN]) (by simpa using hd)

theorem sorted_ext : ∀ {l l' : List Field}, SortedN l → SortedN l' → (∀ x, x ∈ l ↔ x ∈ l') → l = l'
  | [], [], _, _, _ => rfl
  | [], b :: r', _, _, h => by have := (h b).mpr (by simp); simp at this
  | a :: r, [], _, _, h => by have := (h a).mp (by simp); simp at this
  | a :: r, b :: r', hs, hs', h => by
    unfold SortedN at hs hs'
    rw [List.pairwise_cons] at hs hs'
    have hab : a = b := by
      have h1 := (h a).mp (by simp)
      have h2 := (h b).mpr (by simp)
      rcases List.mem_cons.mp h1 with e | h1
      · exact e
      · rcases List.mem_cons.mp h2 with e | h2
        · exact e.symm
        · exact absurd (hs'.1 a h1) (String.lt_asymm (hs.1 b h2))
    subst hab
    congr 1
    apply sorted_ext hs.2 hs'.2
    intro x
    constructor
    · intro hx
      rcases List.mem_cons.mp ((h x).mp (List.mem_cons_of_mem _ hx)) with e | hx'
      · subst e; exact absurd (hs.1 x hx) (String.lt_irrefl _)
      · exact hx'
    · intro hx
      rcases List.mem_cons.mp ((h x).mpr (List.mem_cons_of_mem _ hx)) with e | hx'
      · subst e; exact absurd (hs'.1 x hx) (String.lt_irrefl _)
      · exact hx'

/-- lists with distinct names and the same elements sort to the same list -/
theorem sort_ext {l l' : List Field} (hd : (l.map Field.name).Nodup) (hd' : (l'.map Field.name).Nodup)
    (h : ∀ x, x ∈ l ↔ x ∈ l') : sortFields l = sortFields l' :=
  sorted_ext (sort_sorted hd) (sort_sorted hd') fun x => by rw [mem_sortFields, mem_sortFields]; exact h x

theorem insert_map (g : Field → Field) (hg : ∀ f, (g f).name = f.name) (f : Field) : ∀ (l : List Field),
    insertField (g f) (l.map g) = (insertField f l).map g
  | [] => rfl
  | h :: r => by
    simp only [List.map_cons, insertField, hg]
    split
    · rfl
    · simp only [List.map_cons, insert_map g hg f r]

theorem sort_map (g : Field → Field) (hg : ∀ f, (g f).name = f.name) (l : List Field) :
    sortFields (l.map g) = (sortFields l).map g := by
  unfold sortFields
  have : ∀ acc, (l.map g).foldl (fun acc f => insertField f acc) (acc.map g) =
      (l.foldl (fun acc f => insertField f acc) acc).map g := by
    induction l with
    | nil => intro acc; rfl
    | cons f r ih => intro acc; simp only [List.map_cons, List.foldl, insert_map g hg, ih]
  exact this []

end SaModel.Lemmas.C07
