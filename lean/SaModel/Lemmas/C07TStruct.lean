import SaModel.Lemmas.C07TSeq
/-
C07, tree level — struct nodes as finite maps: the field loop of `StructSerializer` / `MapSerializer::AsStruct`
(`absorbFields`, `absorbEntriesAsStruct`, `absorbOpsAsStruct`) as a loop over `(key, value)` pairs, its effect on
every key separately (`stepKey`, `keyT`), and the per-key congruence and swap lemmas.
-/
namespace SaModel.Lemmas.C07
open SaModel SaModel.Trace SaModel.Props.C07

/-- the tracer `ensure_field` creates for a new key -/
def freshField (path : String) (seen : Nat) (key : String) : Tracer :=
  if seen != 0 then (Tracer.new key (path ++ "." ++ key)).mark_nullable else Tracer.new key (path ++ "." ++ key)

theorem WF_fresh (o : Options) (p : String) (s : Nat) (k : String) : WF o (freshField p s k) := by
  unfold freshField
  split <;> (simp only [Tracer.new, Tracer.mark_nullable, Tracer.set_nullable]; rw [WF]; trivial)

theorem freshField_zero (p : String) {s s' : Nat} (h : s = 0 ↔ s' = 0) (k : String) :
    freshField p s k = freshField p s' k := by
  unfold freshField
  by_cases h0 : s = 0
  · have := h.mp h0; subst h0; subst this; rfl
  · have h1 : ¬ s' = 0 := fun e => h0 (h.mpr e)
    simp [h0, h1]

theorem freshField_succ (p : String) (s : Nat) (k : String) :
    freshField p (s + 1) k = (freshField p s k).mark_nullable := by
  unfold freshField
  by_cases h0 : s = 0
  · subst h0; rfl
  · simp [h0, mark_mark]

/-- one `serialize_field`: `ensure_field`, `get_field_tracer_mut`, the value -/
def stepField (o : Options) (path : String) (seen : Nat) (fs : TFields) (key : String) (v : SVal) : R TFields :=
  match fs.find key with
  | some (_, ft) =>
    match absorb .fixed o ft v with
    | .ok ft' => .ok (fs.put key seen ft')
    | .error e => .error e
  | none =>
    match absorb .fixed o (freshField path seen key) v with
    | .ok ft' => .ok (fs.push key seen ft')
    | .error e => .error e

def absorbPairs (o : Options) (path : String) (seen : Nat) : TFields → List (String × SVal) → R TFields
  | fs, [] => .ok fs
  | fs, (k, v) :: r =>
    match stepField o path seen fs k v with
    | .ok fs' => absorbPairs o path seen fs' r
    | .error e => .error e

def pairsF : SFields → List (String × SVal)
  | .nil => []
  | .cons k _ v r => (k, v) :: pairsF r

theorem absorbFields_eq (o : Options) (path : String) (seen : Nat) : ∀ (flds : SFields) (fs : TFields),
    absorbFields .fixed o path seen fs flds = absorbPairs o path seen fs (pairsF flds)
  | .nil, fs => by simp only [absorbFields, pairsF, absorbPairs]
  | .cons key al v r, fs => by
    simp only [absorbFields, pairsF, absorbPairs, stepField, ensure_field]
    cases hf : fs.find key with
    | none =>
      simp only [indexOf_none hf, (push_get fs key seen _).1, bind, Except.bind, freshField]
      cases absorb .fixed o _ v with
      | error e => rfl
      | ok ft' => simp only [(push_get fs key seen _).2]; exact absorbFields_eq o path seen r _
    | some lt =>
      obtain ⟨l, t⟩ := lt
      obtain ⟨idx, h1, h2⟩ := indexOf_some hf
      simp only [h1, (h2 seen).1, bind, Except.bind]
      cases absorb .fixed o t v with
      | error e => rfl
      | ok ft' => simp only [(h2 seen).2]; exact absorbFields_eq o path seen r _

/-! ### per key -/

def keyVals (k : String) : List (String × SVal) → List SVal
  | [] => []
  | (k', v) :: r => if k' = k then v :: keyVals k r else keyVals k r

theorem keyVals_mem {k : String} {v : SVal} : ∀ {ps : List (String × SVal)}, v ∈ keyVals k ps → (k, v) ∈ ps
  | [], h => by simp [keyVals] at h
  | (k', v') :: r, h => by
    simp only [keyVals] at h
    split at h
    · rename_i hk
      subst hk
      rcases List.mem_cons.mp h with rfl | h
      · simp
      · exact List.mem_cons_of_mem _ (keyVals_mem h)
    · exact List.mem_cons_of_mem _ (keyVals_mem h)

def tr (x : Option (Nat × Tracer)) : Option Tracer := x.map (·.2)

def curT (path : String) (seen : Nat) (k : String) : Option Tracer → Tracer
  | some t => t
  | none => freshField path seen k

/-- effect of the field loop (before `end`) on the lookup of one key -/
def stepKey (o : Options) (path : String) (seen : Nat) (cur : Option (Nat × Tracer)) (k : String)
    (vs : List SVal) : R (Option (Nat × Tracer)) :=
  match vs with
  | [] => .ok cur
  | _ :: _ =>
    match absorbAll .fixed o (curT path seen k (tr cur)) vs with
    | .ok t' => .ok (some (seen, t'))
    | .error e => .error e

theorem stepField_find {o : Options} {path : String} {seen : Nat} {fs fs1 : TFields} {k0 : String} {v : SVal}
    (h : stepField o path seen fs k0 v = .ok fs1) :
    ∃ ft', absorb .fixed o (curT path seen k0 (tr (fs.find k0))) v = .ok ft' ∧ fs1.find k0 = some (seen, ft') ∧
      (∀ k, k0 ≠ k → fs1.find k = fs.find k) ∧ (fs.names.Nodup → fs1.names.Nodup) := by
  unfold stepField at h
  cases hf : fs.find k0 with
  | none =>
    rw [hf] at h
    simp only at h
    cases ha : absorb .fixed o (freshField path seen k0) v with
    | error e => rw [ha] at h; cases h
    | ok ft' =>
      rw [ha] at h; cases h
      refine ⟨ft', ha, ?_, ?_, ?_⟩
      · rw [find_push, hf]; simp
      · intro k hk; rw [find_push]; cases fs.find k <;> simp [hk]
      · intro hd
        rw [names_push]
        exact List.nodup_append.mpr ⟨hd, by simp, by
          intro a hmem b hb e
          rw [List.mem_singleton] at hb
          rw [e, hb] at hmem
          exact find_names.mp hf hmem⟩
  | some lt =>
    obtain ⟨l, t⟩ := lt
    rw [hf] at h
    simp only at h
    cases ha : absorb .fixed o t v with
    | error e => rw [ha] at h; cases h
    | ok ft' =>
      rw [ha] at h; cases h
      refine ⟨ft', ha, ?_, ?_, ?_⟩
      · rw [find_put, hf]; simp
      · intro k hk; rw [find_put]; simp [hk]
      · intro hd; rw [names_put]; exact hd

theorem stepField_mk {o : Options} {path : String} {seen : Nat} {fs : TFields} {k0 : String} {v : SVal} {ft' : Tracer}
    (h : absorb .fixed o (curT path seen k0 (tr (fs.find k0))) v = .ok ft') :
    ∃ fs1, stepField o path seen fs k0 v = .ok fs1 := by
  unfold stepField
  cases hf : fs.find k0 with
  | none => rw [hf] at h; simp only [tr, Option.map, curT] at h; simp only [h]; exact ⟨_, rfl⟩
  | some lt =>
    obtain ⟨l, t⟩ := lt
    rw [hf] at h; simp only [tr, Option.map, curT] at h; simp only [h]; exact ⟨_, rfl⟩

theorem keyVals_cons_ne {k0 k : String} (h : k0 ≠ k) (v : SVal) (r : List (String × SVal)) :
    keyVals k ((k0, v) :: r) = keyVals k r := by simp [keyVals, h]

theorem keyVals_cons_eq (k : String) (v : SVal) (r : List (String × SVal)) :
    keyVals k ((k, v) :: r) = v :: keyVals k r := by simp [keyVals]

/-- Lemma A: the loop acts on every key separately -/
theorem pairs_find {o : Options} {path : String} {seen : Nat} : ∀ {ps : List (String × SVal)} {fs fs' : TFields},
    absorbPairs o path seen fs ps = .ok fs' →
    (∀ k, stepKey o path seen (fs.find k) k (keyVals k ps) = .ok (fs'.find k)) ∧ (fs.names.Nodup → fs'.names.Nodup)
  | [], fs, fs', h => by
    simp only [absorbPairs] at h; cases h
    exact ⟨fun k => rfl, id⟩
  | (k0, v) :: r, fs, fs', h => by
    simp only [absorbPairs] at h
    cases h1 : stepField o path seen fs k0 v with
    | error e => rw [h1] at h; cases h
    | ok fs1 =>
      rw [h1] at h
      obtain ⟨ft', ha, hf0, hfk, hnd⟩ := stepField_find h1
      obtain ⟨ih, ihn⟩ := pairs_find h
      refine ⟨?_, fun hd => ihn (hnd hd)⟩
      intro k
      by_cases hk : k0 = k
      · subst hk
        rw [keyVals_cons_eq]
        have ihk := ih k0
        rw [hf0] at ihk
        simp only [stepKey, absorbAll, bind, Except.bind, ha]
        cases hr : keyVals k0 r with
        | nil => rw [hr] at ihk; simp only [stepKey] at ihk; simp only [absorbAll]; rw [← ihk]
        | cons w ws =>
          rw [hr] at ihk
          simp only [stepKey, tr, Option.map, curT] at ihk
          exact ihk
      · rw [keyVals_cons_ne hk, ← hfk k hk]; exact ih k

/-- Lemma B: the loop succeeds when every key does -/
theorem pairs_mk {o : Options} {path : String} {seen : Nat} : ∀ {ps : List (String × SVal)} {fs : TFields},
    (∀ k, ∃ r, stepKey o path seen (fs.find k) k (keyVals k ps) = .ok r) → ∃ fs', absorbPairs o path seen fs ps = .ok fs'
  | [], fs, _ => ⟨fs, rfl⟩
  | (k0, v) :: r, fs, h => by
    obtain ⟨r0, h0⟩ := h k0
    rw [keyVals_cons_eq] at h0
    simp only [stepKey, absorbAll, bind, Except.bind] at h0
    cases ha : absorb .fixed o (curT path seen k0 (tr (fs.find k0))) v with
    | error e => rw [ha] at h0; cases h0
    | ok ft' =>
      rw [ha] at h0
      dsimp only at h0
      obtain ⟨fs1, h1⟩ := stepField_mk ha
      obtain ⟨ft'', ha', hf0, hfk, _⟩ := stepField_find h1
      rw [ha] at ha'; cases ha'
      have : ∀ k, ∃ r', stepKey o path seen (fs1.find k) k (keyVals k r) = .ok r' := by
        intro k
        by_cases hk : k0 = k
        · subst hk
          rw [hf0]
          cases hr : keyVals k0 r with
          | nil => exact ⟨_, rfl⟩
          | cons w ws =>
            rw [hr] at h0
            simp only [stepKey, tr, Option.map, curT]
            cases hb : absorbAll .fixed o ft' (w :: ws) with
            | error e => rw [hb] at h0; cases h0
            | ok t'' => exact ⟨_, rfl⟩
        · obtain ⟨r', hr'⟩ := h k
          rw [keyVals_cons_ne hk] at hr'
          rw [hfk k hk]; exact ⟨r', hr'⟩
      obtain ⟨fs', h2⟩ := pairs_mk this
      exact ⟨fs', by simp only [absorbPairs, h1]; exact h2⟩

/-! ### a whole sample (field loop + `end`) on the tracer of one key -/

/-- the tracer found under `k` after one sample with the values `vs` for `k` -/
def keyT (o : Options) (path : String) (seen : Nat) (cur : Option Tracer) (k : String) (vs : List SVal) :
    R (Option Tracer) :=
  match vs with
  | [] => .ok (cur.map Tracer.mark_nullable)
  | _ :: _ =>
    match absorbAll .fixed o (curT path seen k cur) vs with
    | .ok t' => .ok (some t')
    | .error e => .error e

theorem mem_names : ∀ {fs : TFields} {k l t}, (k, l, t) ∈ fs.toList → k ∈ fs.names
  | .nil, _, _, _, h => by simp [TFields.toList] at h
  | .cons n l0 t0 r, k, l, t, h => by
    simp only [TFields.toList, List.mem_cons, Prod.mk.injEq] at h
    simp only [TFields.names, List.mem_cons]
    rcases h with ⟨rfl, _⟩ | h
    · exact .inl rfl
    · exact .inr (mem_names h)

theorem mem_find_nodup : ∀ {fs : TFields}, fs.names.Nodup → ∀ {k l t}, (k, l, t) ∈ fs.toList → fs.find k = some (l, t)
  | .nil, _, _, _, _, h => by simp [TFields.toList] at h
  | .cons n l0 t0 r, hd, k, l, t, h => by
    simp only [TFields.names, List.nodup_cons] at hd
    simp only [TFields.toList, List.mem_cons, Prod.mk.injEq] at h
    simp only [TFields.find]
    rcases h with ⟨rfl, rfl, rfl⟩ | h
    · simp
    · have hk := mem_names h
      have : n ≠ k := fun e => hd.1 (e ▸ hk)
      simp only [this, if_false]
      exact mem_find_nodup hd.2 h

theorem FWF_of_find {o : Options} {s : Nat} {fs : TFields} (hd : fs.names.Nodup)
    (h : ∀ k l t, fs.find k = some (l, t) → l < s ∧ WF o t ∧ t.name = k) : FWF o s fs :=
  FWF_of hd fun k l t hm => h k l t (mem_find_nodup hd hm)

def ORel (x y : Option Tracer) : Prop :=
  match x, y with
  | none, none => True
  | some a, some b => TEq a b
  | _, _ => False

def OWF (o : Options) (x : Option Tracer) : Prop := ∀ t, x = some t → WF o t

theorem ORel_refl {o : Options} {x : Option Tracer} (h : OWF o x) : ORel x x := by
  cases x with
  | none => trivial
  | some t => exact TEq_refl o t (h t rfl)

theorem TEq_struct_of {o : Options} {n p : String} {nl : Bool} {m : StructMode} {s s' : Nat} {A B : TFields}
    (hw : FWF o s A) (hs : s = 0 ↔ s' = 0) (h : ∀ k, ORel (tr (A.find k)) (tr (B.find k))) :
    TEq (.struct n p nl A m s) (.struct n p nl B m s') := by
  rw [TEq]
  refine ⟨B, s', rfl, hs, ?_, FSub_of_find hw ?_⟩
  · intro k
    have := h k
    cases ha : A.find k <;> cases hb : B.find k <;> simp [ha, hb, tr, ORel] at this ⊢
  · intro k l t ha
    have := h k
    rw [ha] at this
    cases hb : B.find k with
    | none => simp [hb, tr, ORel] at this
    | some lt => obtain ⟨l', t'⟩ := lt; simp [hb, tr, ORel] at this; exact ⟨l', t', rfl, this⟩

theorem TEq_struct_lookup {n p : String} {nl : Bool} {m : StructMode} {s : Nat} {A : TFields} {t' : Tracer}
    (h : TEq (.struct n p nl A m s) t') :
    ∃ B s', t' = .struct n p nl B m s' ∧ (s = 0 ↔ s' = 0) ∧ ∀ k, ORel (tr (A.find k)) (tr (B.find k)) := by
  rw [TEq] at h
  obtain ⟨B, s', rfl, hs, hk, hsub⟩ := h
  refine ⟨B, s', rfl, hs, ?_⟩
  intro k
  cases ha : A.find k with
  | none =>
    have := hk k; rw [ha] at this
    cases hb : B.find k with
    | none => simp [tr, ORel]
    | some _ => rw [hb] at this; cases this
  | some lt =>
    obtain ⟨l, t⟩ := lt
    obtain ⟨l', t'', hb, he⟩ := FSub_find hsub ha
    simp [hb, tr, ORel, he]

/-- the sample-level effect on lookups: Lemma A followed by `end` -/
theorem sample_find {o : Options} {path : String} {seen : Nat} {ps : List (String × SVal)} {fs fs' : TFields}
    (hl : ∀ k l t, fs.find k = some (l, t) → l < seen) (hd : fs.names.Nodup)
    (h : absorbPairs o path seen fs ps = .ok fs') :
    (∀ k, keyT o path seen (tr (fs.find k)) k (keyVals k ps) = .ok (tr ((fs'.end_ seen).find k))) ∧
      (fs'.end_ seen).names.Nodup ∧ (∀ k l t, (fs'.end_ seen).find k = some (l, t) → l < seen + 1) := by
  obtain ⟨hA, hN⟩ := pairs_find h
  refine ⟨?_, by rw [names_end]; exact hN hd, ?_⟩
  · intro k
    have := hA k
    rw [find_end]
    unfold stepKey at this
    unfold keyT
    cases hv : keyVals k ps with
    | nil =>
      rw [hv] at this; simp only at this
      have e := Except.ok.inj this
      rw [← e]
      cases hf : fs.find k with
      | none => rfl
      | some lt =>
        obtain ⟨l, t⟩ := lt
        have := hl k l t hf
        simp [tr]
        intro e'; omega
    | cons w ws =>
      rw [hv] at this; simp only at this ⊢
      cases hb : absorbAll .fixed o (curT path seen k (tr (fs.find k))) (w :: ws) with
      | error e => rw [hb] at this; cases this
      | ok t' => rw [hb] at this; have e := Except.ok.inj this; rw [← e]; simp [tr]
  · intro k l t hf
    rw [find_end] at hf
    have := hA k
    unfold stepKey at this
    cases hv : keyVals k ps with
    | nil =>
      rw [hv] at this; simp only at this
      have e := Except.ok.inj this
      rw [← e] at hf
      cases hf' : fs.find k with
      | none => rw [hf'] at hf; cases hf
      | some lt =>
        obtain ⟨l', t'⟩ := lt
        rw [hf'] at hf; simp at hf
        have := hl k l' t' hf'
        omega
    | cons w ws =>
      rw [hv] at this; simp only at this
      cases hb : absorbAll .fixed o (curT path seen k (tr (fs.find k))) (w :: ws) with
      | error e => rw [hb] at this; cases this
      | ok t' => rw [hb] at this; have e := Except.ok.inj this; rw [← e] at hf; simp at hf; omega

theorem sample_mk {o : Options} {path : String} {seen : Nat} {ps : List (String × SVal)} {fs : TFields}
    (h : ∀ k, ∃ r, keyT o path seen (tr (fs.find k)) k (keyVals k ps) = .ok r) :
    ∃ fs', absorbPairs o path seen fs ps = .ok fs' := by
  apply pairs_mk
  intro k
  obtain ⟨r, hr⟩ := h k
  unfold keyT at hr
  unfold stepKey
  cases hv : keyVals k ps with
  | nil => exact ⟨_, rfl⟩
  | cons w ws =>
    rw [hv] at hr; simp only at hr ⊢
    cases hb : absorbAll .fixed o (curT path seen k (tr (fs.find k))) (w :: ws) with
    | error e => rw [hb] at hr; cases hr
    | ok t' => exact ⟨_, rfl⟩

theorem absorbAll_mark (c : Code) (o : Options) : ∀ (vs : List SVal) (t : Tracer),
    absorbAll c o t.mark_nullable vs = (absorbAll c o t vs).map Tracer.mark_nullable
  | [], t => rfl
  | v :: vs, t => by
    simp only [absorbAll, bind, Except.bind, absorb_mark c o v t]
    cases absorb c o t v with
    | error e => rfl
    | ok m => simp only [Except.map]; exact absorbAll_mark c o vs m

theorem curT_wf {o : Options} {p : String} {s : Nat} {k : String} {cur : Option Tracer} (h : OWF o cur) :
    WF o (curT p s k cur) := by
  cases cur with
  | none => exact WF_fresh o p s k
  | some t => exact h t rfl

theorem curT_succ (p : String) (s : Nat) (k : String) (cur : Option Tracer) :
    curT p (s + 1) k (cur.map Tracer.mark_nullable) = (curT p s k cur).mark_nullable := by
  cases cur with
  | none => exact freshField_succ p s k
  | some t => rfl

/-- per-key congruence of one sample -/
theorem keyT_cong {o : Options} {p : String} {s s' : Nat} {k : String} {vs : List SVal} {cur cur' r : Option Tracer}
    (hc : ∀ v ∈ vs, Cong o v) (hw : OWF o cur) (hw' : OWF o cur') (he : ORel cur cur') (hs : s = 0 ↔ s' = 0)
    (h : keyT o p s cur k vs = .ok r) : ∃ r', keyT o p s' cur' k vs = .ok r' ∧ ORel r r' ∧ OWF o r := by
  unfold keyT at h ⊢
  cases vs with
  | nil =>
    simp only at h ⊢; cases h
    refine ⟨_, rfl, ?_, ?_⟩
    · cases cur <;> cases cur' <;> simp [ORel] at he ⊢
      exact TEq_mark he
    · intro t ht
      cases cur with
      | none => cases ht
      | some t0 => cases ht; exact WF_mark (hw t0 rfl)
  | cons w ws =>
    simp only at h ⊢
    cases hb : absorbAll .fixed o (curT p s k cur) (w :: ws) with
    | error e => rw [hb] at h; cases h
    | ok t1 =>
      rw [hb] at h; cases h
      have hT : TEq (curT p s k cur) (curT p s' k cur') := by
        cases cur <;> cases cur' <;> simp [ORel] at he
        · simp only [curT]; rw [freshField_zero p hs k]; exact TEq_refl o _ (WF_fresh o p s' k)
        · exact he
      obtain ⟨b, hb', heb, hwa, _⟩ := congL hc (curT_wf hw) (curT_wf hw') hT hb
      rw [hb']
      refine ⟨_, rfl, heb, ?_⟩
      intro t ht; cases ht; exact hwa

/-- per-key swap of two samples -/
theorem keyT_swap {o : Options} {p : String} {s : Nat} {k : String} {vx vy : List SVal} {cur c1 c2 : Option Tracer}
    (hc : ∀ v ∈ vx ++ vy, Cong o v) (hsw : ∀ u ∈ vx ++ vy, ∀ v ∈ vx ++ vy, Swap o u v) (hw : OWF o cur)
    (h1 : keyT o p s cur k vx = .ok c1) (h2 : keyT o p (s + 1) c1 k vy = .ok c2) :
    ∃ d1 d2, keyT o p s cur k vy = .ok d1 ∧ keyT o p (s + 1) d1 k vx = .ok d2 ∧ ORel c2 d2 ∧ OWF o c2 ∧ OWF o d2 := by
  have hcx : ∀ v ∈ vx, Cong o v := fun v hv => hc v (List.mem_append_left _ hv)
  have hcy : ∀ v ∈ vy, Cong o v := fun v hv => hc v (List.mem_append_right _ hv)
  have hT := curT_wf (p := p) (s := s) (k := k) hw
  cases vx with
  | nil =>
    cases vy with
    | nil =>
      simp only [keyT] at h1 h2 ⊢
      cases h1; cases h2
      have hw2 : OWF o ((cur.map Tracer.mark_nullable).map Tracer.mark_nullable) := by
        intro t ht
        cases cur with
        | none => cases ht
        | some t0 => cases ht; exact WF_mark (WF_mark (hw t0 rfl))
      exact ⟨_, _, rfl, rfl, ORel_refl hw2, hw2, hw2⟩
    | cons w ws =>
      simp only [keyT] at h1 h2 ⊢
      cases h1
      rw [curT_succ, absorbAll_mark] at h2
      cases hb : absorbAll .fixed o (curT p s k cur) (w :: ws) with
      | error e => rw [hb] at h2; cases h2
      | ok u =>
        rw [hb] at h2; cases h2
        have hwu : OWF o (some u.mark_nullable) := by
          intro t ht; cases ht
          obtain ⟨_, _, _, hwa, _⟩ := congL hcy hT hT (TEq_refl o _ hT) hb
          exact WF_mark hwa
        exact ⟨some u, some u.mark_nullable, by simp only [hb], rfl, ORel_refl hwu, hwu, hwu⟩
  | cons a as =>
    cases vy with
    | nil =>
      simp only [keyT] at h1 h2 ⊢
      cases hb : absorbAll .fixed o (curT p s k cur) (a :: as) with
      | error e => rw [hb] at h1; cases h1
      | ok t1 =>
        rw [hb] at h1; cases h1; cases h2
        have e : absorbAll .fixed o (curT p (s + 1) k (cur.map Tracer.mark_nullable)) (a :: as) =
            .ok t1.mark_nullable := by rw [curT_succ, absorbAll_mark, hb]; rfl
        have hwu : OWF o (some t1.mark_nullable) := by
          intro t ht; cases ht
          obtain ⟨_, _, _, hwa, _⟩ := congL hcx hT hT (TEq_refl o _ hT) hb
          exact WF_mark hwa
        exact ⟨_, some t1.mark_nullable, rfl, by simp only [e], ORel_refl hwu, hwu, hwu⟩
    | cons w ws =>
      simp only [keyT] at h1 h2 ⊢
      cases hb : absorbAll .fixed o (curT p s k cur) (a :: as) with
      | error e => rw [hb] at h1; cases h1
      | ok t1 =>
        rw [hb] at h1; cases h1
        simp only [curT] at h2
        cases hb2 : absorbAll .fixed o t1 (w :: ws) with
        | error e => rw [hb2] at h2; cases h2
        | ok t2 =>
          rw [hb2] at h2; cases h2
          have hall := absorbAll_append_mk hb hb2
          obtain ⟨b, hb3, heb, hwa, hwb⟩ := permL List.perm_append_comm hc hsw hT hT (TEq_refl o _ hT) hall
          obtain ⟨u, hb4, hb5⟩ := absorbAll_append_ok hb3
          refine ⟨some u, some b, by simp only [hb4], by simp only [curT, hb5], heb, ?_, ?_⟩
          · intro t ht; cases ht; exact hwa
          · intro t ht; cases ht; exact hwb

theorem freshField_name (p : String) (s : Nat) (k : String) : (freshField p s k).name = k := by
  unfold freshField; split <;> rfl

theorem keyT_name {o : Options} {p : String} {s : Nat} {cur : Option Tracer} {k : String} {vs : List SVal} {t : Tracer}
    (hc : ∀ t0, cur = some t0 → t0.name = k) (h : keyT o p s cur k vs = .ok (some t)) : t.name = k := by
  unfold keyT at h
  cases vs with
  | nil =>
    simp only [Except.ok.injEq] at h
    cases cur with
    | none => cases h
    | some t0 => simp only [Option.map, Option.some.injEq] at h; rw [← h, name_mark]; exact hc t0 rfl
  | cons w ws =>
    simp only at h
    cases hb : absorbAll .fixed o (curT p s k cur) (w :: ws) with
    | error e => rw [hb] at h; cases h
    | ok t' =>
      rw [hb] at h
      simp only [Except.ok.injEq, Option.some.injEq] at h
      subst h
      rw [absorbAll_name o _ _ _ hb]
      cases cur with
      | none => exact freshField_name p s k
      | some t0 => exact hc t0 rfl

end SaModel.Lemmas.C07
