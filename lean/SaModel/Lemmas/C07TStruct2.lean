import SaModel.Lemmas.C07TStruct
/-
C07, tree level — the struct family at node level: any sample that is absorbed as "`ensure_struct(mode)`, field loop
over `ps`, `end`" (`StructLike`) satisfies `Cong` and `Swap`; `record` is such a sample.
-/
namespace SaModel.Lemmas.C07
open SaModel SaModel.Trace SaModel.Props.C07

/-- `x` is absorbed as a struct sample of mode `mode` with the `(key, value)` pairs `ps` -/
def StructLike (o : Options) (x : SVal) (mode : StructMode) (ps : List (String × SVal)) : Prop :=
  ∀ t a, absorb .fixed o t x = .ok a ↔ ∃ n p nl fs m s fs', t.ensure_struct .fixed [] mode = .ok (.struct n p nl fs m s) ∧
    absorbPairs o p s fs ps = .ok fs' ∧ a = .struct n p nl (fs'.end_ s) m (s + 1)

theorem structLike_record (o : Options) (name : String) (flds : SFields) :
    StructLike o (.record name flds) .struct (pairsF flds) := by
  intro t a
  simp only [absorb, bind, Except.bind]
  constructor
  · intro h
    cases h1 : t.ensure_struct .fixed [] .struct with
    | error e => rw [h1] at h; cases h
    | ok t1 =>
      rw [h1] at h
      obtain ⟨_, hc⟩ := ensure_struct_inv h1
      have : ∃ n p nl fs m s, t1 = .struct n p nl fs m s := by
        rcases hc with ⟨_, rfl⟩ | ⟨n, p, nl, fs, m, s, rfl, rfl⟩
        · exact ⟨_, _, _, _, _, _, rfl⟩
        · exact ⟨_, _, _, _, _, _, rfl⟩
      obtain ⟨n, p, nl, fs, m, s, rfl⟩ := this
      simp only [absorbFields_eq] at h
      cases h2 : absorbPairs o p s fs (pairsF flds) with
      | error e => rw [h2] at h; cases h
      | ok fs' => rw [h2] at h; cases h; exact ⟨n, p, nl, fs, m, s, fs', rfl, h2, rfl⟩
  · rintro ⟨n, p, nl, fs, m, s, fs', h1, h2, rfl⟩
    simp only [h1, absorbFields_eq, h2]

theorem ensure_struct_facts {o : Options} {t : Tracer} {mode : StructMode} {n p nl fs m s} (hw : WF o t)
    (h : t.ensure_struct .fixed [] mode = .ok (.struct n p nl fs m s)) :
    FWF o s fs ∧ (∀ fs' m' s', depthOk (.struct n p nl fs' m' s')) ∧
      ((t.is_unknown_or_null = true ∧ fs = .nil ∧ s = 0 ∧ m = mode ∧ n = t.name ∧ p = t.path ∧ nl = t.nullable) ∨
       (∃ m0, t = .struct n p nl fs m0 s ∧ m = joinMode m0 mode)) := by
  obtain ⟨hd, hc⟩ := ensure_struct_inv h
  rcases hc with ⟨hu, e⟩ | ⟨n', p', nl', fs', m0, s', rfl, e⟩
  · cases e
    refine ⟨by rw [FWF]; trivial, fun _ _ _ => (depthOk_path (a := t) rfl).mpr hd, .inl ⟨hu, rfl, rfl, rfl, rfl, rfl, rfl⟩⟩
  · cases e
    rw [WF] at hw
    exact ⟨hw, fun _ _ _ => (depthOk_path (a := .struct n p nl fs m0 s) rfl).mpr hd, .inr ⟨m0, rfl, rfl⟩⟩

theorem OWF_find {o : Options} {s : Nat} {fs : TFields} (hw : FWF o s fs) (k : String) : OWF o (tr (fs.find k)) := by
  intro t ht
  cases hf : fs.find k with
  | none => rw [hf] at ht; cases ht
  | some lt =>
    obtain ⟨l, t'⟩ := lt
    rw [hf] at ht; cases ht
    exact (find_wf hw hf).2

theorem keyVals_cong {o : Options} {ps : List (String × SVal)} (hc : ∀ kv ∈ ps, Cong o kv.2) (k : String) :
    ∀ v ∈ keyVals k ps, Cong o v := fun v hv => hc (k, v) (keyVals_mem hv)

/-- one sample keeps the struct node well-formed -/
theorem sample_wf {o : Options} {p : String} {s : Nat} {ps : List (String × SVal)} {fs fs' : TFields}
    (hw : FWF o s fs) (hc : ∀ kv ∈ ps, Cong o kv.2) (h : absorbPairs o p s fs ps = .ok fs') :
    FWF o (s + 1) (fs'.end_ s) := by
  obtain ⟨hK, hN, hL⟩ := sample_find (fun k l t hf => (find_wf hw hf).1) (FWF_nodup hw) h
  refine FWF_of_find hN ?_
  intro k l t hf
  have hk := hK k
  obtain ⟨r', _, _, hwr⟩ := keyT_cong (s' := s) (keyVals_cong hc k) (OWF_find hw k) (OWF_find hw k)
    (ORel_refl (OWF_find hw k)) Iff.rfl hk
  refine ⟨hL k l t hf, hwr t (by rw [hf]; rfl), ?_⟩
  rw [hf] at hk
  refine keyT_name ?_ hk
  intro t0 ht0
  cases hf0 : fs.find k with
  | none => rw [hf0] at ht0; cases ht0
  | some lt =>
    obtain ⟨l0, t1⟩ := lt
    rw [hf0] at ht0; cases ht0
    exact find_name hw hf0

theorem cong_struct {o : Options} {x : SVal} {mode : StructMode} {ps : List (String × SVal)}
    (hx : StructLike o x mode ps) (hc : ∀ kv ∈ ps, Cong o kv.2) : Cong o x := by
  intro t t' a hw hw' he h
  obtain ⟨n, p, nl, fs, m, s, fs', e1, r1, rfl⟩ := (hx t a).mp h
  obtain ⟨hwf, hd, hcase⟩ := ensure_struct_facts hw e1
  have hwa : WF o (.struct n p nl (fs'.end_ s) m (s + 1)) := by rw [WF]; exact sample_wf hwf hc r1
  rcases hcase with ⟨hu, _⟩ | ⟨m0, rfl, rfl⟩
  · have e := TEq_unknownish he hu
    rw [e]
    exact ⟨_, h, TEq_refl o _ hwa, hwa⟩
  · obtain ⟨B, s', rfl, hs, hrel⟩ := TEq_struct_lookup he
    rw [WF] at hw'
    obtain ⟨hK, _, _⟩ := sample_find (fun k l t hf => (find_wf hwf hf).1) (FWF_nodup hwf) r1
    have hB : ∀ k, ∃ r', keyT o p s' (tr (B.find k)) k (keyVals k ps) = .ok r' ∧
        ORel (tr ((fs'.end_ s).find k)) r' := by
      intro k
      obtain ⟨r', h1, h2, _⟩ := keyT_cong (keyVals_cong hc k) (OWF_find hwf k) (OWF_find hw' k) (hrel k) hs (hK k)
      exact ⟨r', h1, h2⟩
    obtain ⟨B', r2⟩ := sample_mk (fun k => let ⟨r', h1, _⟩ := hB k; ⟨r', h1⟩)
    obtain ⟨hK', _, _⟩ := sample_find (fun k l t hf => (find_wf hw' hf).1) (FWF_nodup hw') r2
    refine ⟨.struct n p nl (B'.end_ s') (joinMode m0 mode) (s' + 1), ?_, ?_, hwa⟩
    · exact (hx _ _).mpr ⟨n, p, nl, B, _, s', B', ensure_struct_same mode (hd _ _ _), r2, rfl⟩
    · rw [WF] at hwa
      refine TEq_struct_of hwa (by omega) ?_
      intro k
      obtain ⟨r', h1, h2⟩ := hB k
      have := hK' k
      rw [h1] at this
      rw [← Except.ok.inj this]; exact h2

theorem joinMode_comm (a b : StructMode) : joinMode a b = joinMode b a := by cases a <;> cases b <;> rfl
theorem joinMode_swap (m a b : StructMode) : joinMode (joinMode m a) b = joinMode (joinMode m b) a := by
  cases m <;> cases a <;> cases b <;> rfl

theorem swap_struct {o : Options} {x y : SVal} {mx my : StructMode} {px py : List (String × SVal)}
    (hx : StructLike o x mx px) (hy : StructLike o y my py) (hc : ∀ kv ∈ px ++ py, Cong o kv.2)
    (hsw : ∀ u ∈ px ++ py, ∀ v ∈ px ++ py, Swap o u.2 v.2) : Swap o x y := by
  intro t a hw ha
  have hcx : ∀ kv ∈ px, Cong o kv.2 := fun kv h => hc kv (List.mem_append_left _ h)
  have hcy : ∀ kv ∈ py, Cong o kv.2 := fun kv h => hc kv (List.mem_append_right _ h)
  obtain ⟨m1, h1, h2⟩ := absorb2_ok ha
  obtain ⟨n, p, nl, fs, m, s, f1, e1, r1, rfl⟩ := (hx t m1).mp h1
  obtain ⟨hwf, hd, hcase⟩ := ensure_struct_facts hw e1
  obtain ⟨n', p', nl', fs2, m', s2, f2, e2, r2, rfl⟩ := (hy _ a).mp h2
  rw [ensure_struct_same my (hd _ _ _)] at e2
  cases e2
  have hwf1 := sample_wf hwf hcx r1
  have hwf2 := sample_wf hwf1 hcy r2
  obtain ⟨K1, _, _⟩ := sample_find (fun k l t hf => (find_wf hwf hf).1) (FWF_nodup hwf) r1
  obtain ⟨K2, _, _⟩ := sample_find (fun k l t hf => (find_wf hwf1 hf).1) (FWF_nodup hwf1) r2
  have hkey : ∀ k, ∃ d1 d2, keyT o p s (tr (fs.find k)) k (keyVals k py) = .ok d1 ∧
      keyT o p (s + 1) d1 k (keyVals k px) = .ok d2 ∧ ORel (tr ((f2.end_ (s + 1)).find k)) d2 := by
    intro k
    obtain ⟨d1, d2, a1, a2, a3, _, _⟩ := keyT_swap (k := k) (vx := keyVals k px) (vy := keyVals k py)
      (fun v hv => by
        rcases List.mem_append.mp hv with h | h
        · exact hc (k, v) (List.mem_append_left _ (keyVals_mem h))
        · exact hc (k, v) (List.mem_append_right _ (keyVals_mem h)))
      (fun u hu v hv => by
        have hu' : (k, u) ∈ px ++ py := by
          rcases List.mem_append.mp hu with h | h
          · exact List.mem_append_left _ (keyVals_mem h)
          · exact List.mem_append_right _ (keyVals_mem h)
        have hv' : (k, v) ∈ px ++ py := by
          rcases List.mem_append.mp hv with h | h
          · exact List.mem_append_left _ (keyVals_mem h)
          · exact List.mem_append_right _ (keyVals_mem h)
        exact hsw _ hu' _ hv')
      (OWF_find hwf k) (K1 k) (K2 k)
    exact ⟨d1, d2, a1, a2, a3⟩
  obtain ⟨g1, q1⟩ := sample_mk (fun k => let ⟨d1, _, a1, _⟩ := hkey k; ⟨d1, a1⟩)
  have hwg1 := sample_wf hwf hcy q1
  obtain ⟨G1, _, _⟩ := sample_find (fun k l t hf => (find_wf hwf hf).1) (FWF_nodup hwf) q1
  have hd1 : ∀ k, ∃ d2, keyT o p (s + 1) (tr ((g1.end_ s).find k)) k (keyVals k px) = .ok d2 ∧
      ORel (tr ((f2.end_ (s + 1)).find k)) d2 := by
    intro k
    obtain ⟨d1, d2, a1, a2, a3⟩ := hkey k
    have := G1 k
    rw [a1] at this
    rw [← Except.ok.inj this]
    exact ⟨d2, a2, a3⟩
  obtain ⟨g2, q2⟩ := sample_mk (fun k => let ⟨d2, a2, _⟩ := hd1 k; ⟨d2, a2⟩)
  obtain ⟨G2, _, _⟩ := sample_find (fun k l t hf => (find_wf hwg1 hf).1) (FWF_nodup hwg1) q2
  have hrel : ∀ k, ORel (tr ((f2.end_ (s + 1)).find k)) (tr ((g2.end_ (s + 1)).find k)) := by
    intro k
    obtain ⟨d2, a2, a3⟩ := hd1 k
    have := G2 k
    rw [a2] at this
    rw [← Except.ok.inj this]; exact a3
  -- the other order
  rcases hcase with ⟨hu, rfl, rfl, rfl, rfl, rfl, rfl⟩ | ⟨m0, rfl, rfl⟩
  · have ey := ensure_struct_fresh my (ensure_struct_inv e1).1 hu
    have hy1 : absorb .fixed o t y = .ok (.struct t.name t.path t.nullable (g1.end_ 0) my 1) :=
      (hy _ _).mpr ⟨_, _, _, _, _, _, g1, ey, q1, rfl⟩
    have hx2 : absorb .fixed o (.struct t.name t.path t.nullable (g1.end_ 0) my 1) x =
        .ok (.struct t.name t.path t.nullable (g2.end_ 1) (joinMode my m) 2) :=
      (hx _ _).mpr ⟨_, _, _, _, _, _, g2, ensure_struct_same m (hd _ _ _), q2, rfl⟩
    refine ⟨_, absorb2_mk hy1 hx2, ?_⟩
    rw [joinMode_comm my m]
    exact TEq_struct_of hwf2 Iff.rfl hrel
  · have hy1 : absorb .fixed o (.struct n p nl fs m0 s) y = .ok (.struct n p nl (g1.end_ s) (joinMode m0 my) (s + 1)) :=
      (hy _ _).mpr ⟨_, _, _, _, _, _, g1, ensure_struct_same my (hd _ _ _), q1, rfl⟩
    have hx2 : absorb .fixed o (.struct n p nl (g1.end_ s) (joinMode m0 my) (s + 1)) x =
        .ok (.struct n p nl (g2.end_ (s + 1)) (joinMode (joinMode m0 my) mx) (s + 1 + 1)) :=
      (hx _ _).mpr ⟨_, _, _, _, _, _, g2, ensure_struct_same mx (hd _ _ _), q2, rfl⟩
    refine ⟨_, absorb2_mk hy1 hx2, ?_⟩
    rw [joinMode_swap m0 my mx]
    exact TEq_struct_of hwf2 Iff.rfl hrel

theorem shape_struct {o : Options} {x : SVal} {mode : StructMode} {ps : List (String × SVal)}
    (hx : StructLike o x mode ps) {t a : Tracer} (h : absorb .fixed o t x = .ok a) :
    Tracer.shape a = some .struct ∧ (t.is_unknown_or_null = true ∨ Tracer.shape t = some .struct) := by
  obtain ⟨n, p, nl, fs, m, s, fs', e1, _, rfl⟩ := (hx t a).mp h
  refine ⟨rfl, ?_⟩
  obtain ⟨_, hc⟩ := ensure_struct_inv e1
  rcases hc with ⟨hu, _⟩ | ⟨_, _, _, _, _, _, rfl, _⟩
  · exact .inl hu
  · exact .inr rfl

end SaModel.Lemmas.C07
