import SaModel.Lemmas.C07TMap
/-
C07, tree level — tuples, position by position: `ensure_tuple` (repaired code) and `absorbTuple` through `get?`;
a tuple node behaves like a struct node whose keys are the positions (`keyT` with key `toString j`).
-/
namespace SaModel.Lemmas.C07
open SaModel SaModel.Trace SaModel.Props.C07

def newAt (p : String) (j : Nat) : Tracer := Tracer.new (toString j) (p ++ "." ++ toString j)

/-! ### `Tracers` by position -/

theorem Ts.get?_none : ∀ {ts : Tracers} {j : Nat}, ts.get? j = none ↔ ts.length ≤ j
  | .nil, j => by simp [Tracers.get?, Tracers.length]
  | .cons t r, 0 => by simp [Tracers.get?, Tracers.length]
  | .cons t r, j + 1 => by simp [Tracers.get?, Tracers.length, Ts.get?_none (ts := r) (j := j)]

theorem Ts.get?_some_lt {ts : Tracers} {j : Nat} {t : Tracer} (h : ts.get? j = some t) : j < ts.length := by
  apply Nat.lt_of_not_le
  intro hle
  rw [Ts.get?_none.mpr hle] at h; cases h

theorem Ts.get?_lt {ts : Tracers} {j : Nat} (h : j < ts.length) : ∃ t, ts.get? j = some t := by
  cases hg : ts.get? j with
  | some t => exact ⟨t, rfl⟩
  | none => have := Ts.get?_none.mp hg; omega

theorem Ts.length_set : ∀ (ts : Tracers) (i : Nat) (x : Tracer), (ts.set i x).length = ts.length
  | .nil, _, _ => rfl
  | .cons t r, 0, x => rfl
  | .cons t r, i + 1, x => by simp [Tracers.set, Tracers.length, Ts.length_set r i x]

theorem Ts.get?_set : ∀ (ts : Tracers) (i : Nat) (x : Tracer) (j : Nat),
    (ts.set i x).get? j = if i = j then (ts.get? j).map (fun _ => x) else ts.get? j
  | .nil, _, _, _ => by simp [Tracers.set, Tracers.get?]
  | .cons t r, 0, x, 0 => by simp [Tracers.set, Tracers.get?]
  | .cons t r, 0, x, j + 1 => by simp [Tracers.set, Tracers.get?]
  | .cons t r, i + 1, x, 0 => by simp [Tracers.set, Tracers.get?]
  | .cons t r, i + 1, x, j + 1 => by simp [Tracers.set, Tracers.get?, Ts.get?_set r i x j]

theorem Ts.length_push : ∀ (ts : Tracers) (x : Tracer), (ts.push x).length = ts.length + 1
  | .nil, _ => rfl
  | .cons t r, x => by simp [Tracers.push, Tracers.length, Ts.length_push r x]

theorem Ts.get?_push : ∀ (ts : Tracers) (x : Tracer) (j : Nat),
    (ts.push x).get? j = if j < ts.length then ts.get? j else if j = ts.length then some x else none
  | .nil, x, 0 => by simp [Tracers.push, Tracers.get?, Tracers.length]
  | .nil, x, j + 1 => by simp [Tracers.push, Tracers.get?, Tracers.length]
  | .cons t r, x, 0 => by simp [Tracers.push, Tracers.get?, Tracers.length]
  | .cons t r, x, j + 1 => by simp [Tracers.push, Tracers.get?, Tracers.length, Ts.get?_push r x j]

theorem Ts.length_markFrom : ∀ (ts : Tracers) (k : Nat), (ts.markFrom k).length = ts.length
  | .nil, _ => rfl
  | .cons t r, 0 => by simp [Tracers.markFrom, Tracers.length, Ts.length_markFrom r 0]
  | .cons t r, k + 1 => by simp [Tracers.markFrom, Tracers.length, Ts.length_markFrom r k]

theorem Ts.get?_markFrom : ∀ (ts : Tracers) (k j : Nat),
    (ts.markFrom k).get? j = (ts.get? j).map (fun t => if k ≤ j then t.mark_nullable else t)
  | .nil, _, _ => by simp [Tracers.markFrom, Tracers.get?]
  | .cons t r, 0, 0 => by simp [Tracers.markFrom, Tracers.get?]
  | .cons t r, 0, j + 1 => by simp [Tracers.markFrom, Tracers.get?, Ts.get?_markFrom r 0 j]
  | .cons t r, k + 1, 0 => by simp [Tracers.markFrom, Tracers.get?]
  | .cons t r, k + 1, j + 1 => by simp [Tracers.markFrom, Tracers.get?, Ts.get?_markFrom r k j]

theorem mkTuple_length (p : String) (n : Nat) : ∀ k, (mkTupleFields p n k).length = k
  | 0 => rfl
  | k + 1 => by simp [mkTupleFields, Tracers.length, mkTuple_length p n k]

theorem mkTuple_get (p : String) (n : Nat) : ∀ k j, k ≤ n →
    (mkTupleFields p n k).get? j = if j < k then some (newAt p (n - k + j)) else none
  | 0, j, _ => by simp [mkTupleFields, Tracers.get?]
  | k + 1, 0, _ => by simp [mkTupleFields, Tracers.get?, newAt]
  | k + 1, j + 1, h => by
    simp only [mkTupleFields, Tracers.get?, mkTuple_get p n k j (by omega)]
    have : n - k + j = n - (k + 1) + (j + 1) := by omega
    by_cases hj : j < k
    · simp [hj, this]
    · simp [hj]

/-- `g` iterated `c` times -/
def iter {α} (g : α → α) : Nat → α → α
  | 0, a => a
  | c + 1, a => g (iter g c a)

theorem foldl_range_iter {α} (g : α → α) (a : α) : ∀ c, (List.range c).foldl (fun acc _ => g acc) a = iter g c a
  | 0 => rfl
  | c + 1 => by rw [List.range_succ, List.foldl_append, foldl_range_iter g a c]; rfl

def pushFresh (p : String) (acc : Tracers) : Tracers :=
  acc.push (Tracer.new (toString acc.length) (p ++ "." ++ toString acc.length)).mark_nullable

theorem iter_pushFresh (p : String) (ts : Tracers) : ∀ c, (iter (pushFresh p) c ts).length = ts.length + c ∧
    ∀ j, (iter (pushFresh p) c ts).get? j =
      if j < ts.length then ts.get? j else if j < ts.length + c then some (newAt p j).mark_nullable else none
  | 0 => by
    refine ⟨rfl, fun j => ?_⟩
    simp only [iter]
    by_cases hj : j < ts.length
    · simp [hj]
    · simp [hj, Ts.get?_none.mpr (Nat.le_of_not_lt hj)]
  | c + 1 => by
    obtain ⟨hl, hg⟩ := iter_pushFresh p ts c
    refine ⟨by simp only [iter, pushFresh, Ts.length_push, hl]; omega, fun j => ?_⟩
    simp only [iter, pushFresh, Ts.get?_push, hl, hg j]
    by_cases h1 : j < ts.length
    · have : j < ts.length + c := by omega
      simp [h1, this]
    · by_cases h2 : j < ts.length + c
      · simp [h1, h2]; omega
      · by_cases h3 : j = ts.length + c
        · subst h3
          have : ¬ (ts.length + c < ts.length) := by omega
          have h4 : ts.length + c < ts.length + (c + 1) := by omega
          simp only [this, h2, h4, if_false, newAt, if_true]
        · have : ¬ j < ts.length + (c + 1) := by omega
          simp [h1, h2, h3, this]

theorem growNullable_eq (p : String) (k : Nat) (ts : Tracers) :
    tupleGrowNullable p k ts = iter (pushFresh p) (k - ts.length) ts := by
  unfold tupleGrowNullable
  exact foldl_range_iter (pushFresh p) ts _

theorem field_tracer_grow_id (p : String) (idx : Nat) (ts : Tracers) (h : idx < ts.length) :
    field_tracer_grow p idx ts = ts := by
  unfold field_tracer_grow
  have : idx + 1 - ts.length = 0 := by omega
  rw [this]; rfl

/-! ### the node `ensure_tuple` hands to the element loop, by position -/

/-- `s = 0`: the node was `Unknown` (then `ts = nil`); otherwise an existing tuple node with fields `ts` -/
def tupleEns (s : Nat) (p : String) (k : Nat) (ts : Tracers) : Tracers :=
  if s = 0 then mkTupleFields p k k else tupleGrowNullable p k (ts.markFrom k)

theorem freshField_pos (p : String) {s : Nat} (j : Nat) :
    freshField p s (toString j) = if s = 0 then newAt p j else (newAt p j).mark_nullable := by
  unfold freshField newAt
  by_cases h : s = 0 <;> simp [h]

theorem tupleEns_get {s : Nat} {p : String} {k : Nat} {ts : Tracers} (h0 : s = 0 → ts = .nil) :
    k ≤ (tupleEns s p k ts).length ∧ ∀ j, (tupleEns s p k ts).get? j =
      if j < k then some (curT p s (toString j) (ts.get? j)) else (ts.get? j).map Tracer.mark_nullable := by
  unfold tupleEns
  by_cases hs : s = 0
  · have := h0 hs; subst this; subst hs
    simp only [if_true]
    refine ⟨by rw [mkTuple_length]; exact Nat.le_refl _, fun j => ?_⟩
    rw [mkTuple_get p k k j (Nat.le_refl _)]
    by_cases hj : j < k
    · simp only [hj, if_true, Tracers.get?, curT, freshField_pos, Nat.sub_self, Nat.zero_add]
    · simp [hj, Tracers.get?]
  · simp only [hs, if_false, growNullable_eq, Ts.length_markFrom]
    obtain ⟨hl, hg⟩ := iter_pushFresh p (ts.markFrom k) (k - (ts.markFrom k).length)
    rw [Ts.length_markFrom] at hl hg
    refine ⟨by rw [hl]; omega, fun j => ?_⟩
    rw [hg j, Ts.get?_markFrom]
    by_cases h1 : j < ts.length
    · obtain ⟨t, ht⟩ := Ts.get?_lt h1
      by_cases h2 : j < k
      · have : ¬ k ≤ j := by omega
        simp only [h1, h2, ht, curT, this, if_true, if_false, Option.map]
      · have : k ≤ j := by omega
        simp only [h1, h2, ht, this, if_true, if_false, Option.map]
    · have hn := Ts.get?_none.mpr (Nat.le_of_not_lt h1)
      by_cases h2 : j < k
      · have : j < ts.length + (k - ts.length) := by omega
        simp only [h1, h2, hn, this, curT, freshField_pos, hs, if_true, if_false]
      · have : ¬ j < ts.length + (k - ts.length) := by omega
        simp only [h1, h2, hn, this, if_false, Option.map]

/-! ### the element loop by position -/

def SVals.get? : SVals → Nat → Option SVal
  | .nil, _ => none
  | .cons v _, 0 => some v
  | .cons _ r, i + 1 => SVals.get? r i

theorem SVals.get?_mem : ∀ {l : SVals} {i : Nat} {v : SVal}, SVals.get? l i = some v → v ∈ l.toList
  | .nil, _, _, h => by simp [SVals.get?] at h
  | .cons a r, 0, v, h => by simp [SVals.get?] at h; simp [SVals.toList, h]
  | .cons a r, i + 1, v, h => by
    simp only [SVals.get?] at h
    simp [SVals.toList, SVals.get?_mem h]

theorem SVals.get?_none : ∀ {l : SVals} {i : Nat}, SVals.get? l i = none ↔ l.length ≤ i
  | .nil, i => by simp [SVals.get?, SVals.length]
  | .cons a r, 0 => by simp [SVals.get?, SVals.length]
  | .cons a r, i + 1 => by simp [SVals.get?, SVals.length, SVals.get?_none (l := r) (i := i)]

/-- soundness of the loop by position -/
theorem absorbTuple_get {o : Options} {p : String} : ∀ {items : SVals} {ts R : Tracers} {pos : Nat},
    pos + items.length ≤ ts.length → absorbTuple .fixed o p ts pos items = .ok R →
    (∀ j, (j < pos ∨ pos + items.length ≤ j) → R.get? j = ts.get? j) ∧
    (∀ i v, SVals.get? items i = some v → ∃ t t', ts.get? (pos + i) = some t ∧ absorb .fixed o t v = .ok t' ∧
      R.get? (pos + i) = some t')
  | .nil, ts, R, pos, _, h => by
    simp only [absorbTuple] at h; cases h
    exact ⟨fun _ _ => rfl, fun i v hv => by simp [SVals.get?] at hv⟩
  | .cons v r, ts, R, pos, hl, h => by
    simp only [SVals.length] at hl
    simp only [absorbTuple, bind, Except.bind] at h
    rw [field_tracer_grow_id p pos ts (by omega)] at h
    obtain ⟨ft, hft⟩ := Ts.get?_lt (ts := ts) (j := pos) (by omega)
    rw [hft] at h
    simp only at h
    cases ha : absorb .fixed o ft v with
    | error e => rw [ha] at h; cases h
    | ok ft' =>
      rw [ha] at h
      simp only at h
      obtain ⟨ih1, ih2⟩ := absorbTuple_get (items := r) (ts := ts.set pos ft') (pos := pos + 1)
        (by rw [Ts.length_set]; omega) h
      constructor
      · intro j hj
        rw [ih1 j (by simp only [SVals.length] at hj; omega), Ts.get?_set]
        have : pos ≠ j := by simp only [SVals.length] at hj; omega
        simp [this]
      · intro i w hw
        cases i with
        | zero =>
          simp only [SVals.get?, Option.some.injEq] at hw
          subst hw
          refine ⟨ft, ft', hft, ha, ?_⟩
          rw [ih1 (pos + 0) (by omega), Ts.get?_set]
          simp [hft]
        | succ i =>
          simp only [SVals.get?] at hw
          obtain ⟨t, t', h1, h2, h3⟩ := ih2 i w hw
          rw [Ts.get?_set] at h1
          have : pos ≠ pos + 1 + i := by omega
          simp only [this, if_false] at h1
          have e : pos + (i + 1) = pos + 1 + i := by omega
          exact ⟨t, t', by rw [e]; exact h1, h2, by rw [e]; exact h3⟩

/-- completeness of the loop by position -/
theorem absorbTuple_mk {o : Options} {p : String} : ∀ {items : SVals} {ts : Tracers} {pos : Nat},
    pos + items.length ≤ ts.length →
    (∀ i v, SVals.get? items i = some v → ∃ t t', ts.get? (pos + i) = some t ∧ absorb .fixed o t v = .ok t') →
    ∃ R, absorbTuple .fixed o p ts pos items = .ok R
  | .nil, ts, pos, _, _ => ⟨ts, by simp only [absorbTuple]⟩
  | .cons v r, ts, pos, hl, h => by
    simp only [SVals.length] at hl
    obtain ⟨ft, ft', hft, ha⟩ := h 0 v (by simp [SVals.get?])
    obtain ⟨R, hR⟩ := absorbTuple_mk (o := o) (p := p) (items := r) (ts := ts.set pos ft') (pos := pos + 1)
      (by rw [Ts.length_set]; omega) (by
        intro i w hw
        obtain ⟨t, t', h1, h2⟩ := h (i + 1) w (by simp [SVals.get?, hw])
        have e : pos + (i + 1) = pos + 1 + i := by omega
        refine ⟨t, t', ?_, h2⟩
        rw [Ts.get?_set]
        have : pos ≠ pos + 1 + i := by omega
        simp only [this, if_false]
        rw [← e]; exact h1)
    refine ⟨R, ?_⟩
    simp only [absorbTuple, bind, Except.bind]
    rw [field_tracer_grow_id p pos ts (by omega)]
    simp only [Nat.add_zero] at hft
    rw [hft]
    simp only [ha]
    exact hR

def optList : Option SVal → List SVal
  | none => []
  | some v => [v]

/-- one tuple sample on a node, position by position (Lemma A) -/
theorem tuple_sample_find {o : Options} {p : String} {s : Nat} {items : SVals} {ts R : Tracers}
    (h0 : s = 0 → ts = .nil) (h : absorbTuple .fixed o p (tupleEns s p items.length ts) 0 items = .ok R) :
    ∀ j, keyT o p s (ts.get? j) (toString j) (optList (SVals.get? items j)) = .ok (R.get? j) := by
  obtain ⟨hl, hg⟩ := tupleEns_get (p := p) (k := items.length) h0
  obtain ⟨h1, h2⟩ := absorbTuple_get (by omega) h
  intro j
  cases hv : SVals.get? items j with
  | none =>
    have hj := SVals.get?_none.mp hv
    simp only [optList, keyT]
    rw [h1 j (by omega), hg j]
    have : ¬ j < items.length := by omega
    simp [this]
  | some v =>
    obtain ⟨t, t', a1, a2, a3⟩ := h2 j v hv
    simp only [Nat.zero_add] at a1 a3
    have hj : j < items.length := by
      apply Nat.lt_of_not_le; intro hle
      rw [SVals.get?_none.mpr hle] at hv; cases hv
    rw [hg j] at a1
    simp only [hj, if_true, Option.some.injEq] at a1
    simp only [optList, keyT, absorbAll, bind, Except.bind, a1, a2, a3]

/-- Lemma B -/
theorem tuple_sample_mk {o : Options} {p : String} {s : Nat} {items : SVals} {ts : Tracers}
    (h0 : s = 0 → ts = .nil)
    (h : ∀ j, ∃ r, keyT o p s (ts.get? j) (toString j) (optList (SVals.get? items j)) = .ok r) :
    ∃ R, absorbTuple .fixed o p (tupleEns s p items.length ts) 0 items = .ok R := by
  obtain ⟨hl, hg⟩ := tupleEns_get (p := p) (k := items.length) h0
  apply absorbTuple_mk (by omega)
  intro i v hv
  have hi : i < items.length := by
    apply Nat.lt_of_not_le; intro hle
    rw [SVals.get?_none.mpr hle] at hv; cases hv
  obtain ⟨r, hr⟩ := h i
  rw [hv] at hr
  simp only [optList, keyT, absorbAll, bind, Except.bind] at hr
  simp only [Nat.zero_add, hg i, hi, if_true]
  cases ha : absorb .fixed o (curT p s (toString i) (ts.get? i)) v with
  | error e => rw [ha] at hr; cases hr
  | ok t' => exact ⟨_, t', rfl, ha⟩

/-! ### `TsEq`, `TsWF` by position -/

theorem TsEq_get : ∀ {A B : Tracers}, TsEq A B → ∀ j, ORel (A.get? j) (B.get? j)
  | .nil, B, h, j => by rw [TsEq] at h; subst h; simp [Tracers.get?, ORel]
  | .cons t r, B, h, j => by
    rw [TsEq] at h
    obtain ⟨t', r', rfl, h1, h2⟩ := h
    cases j with
    | zero => simp [Tracers.get?, ORel, h1]
    | succ j => simp only [Tracers.get?]; exact TsEq_get h2 j

theorem TsEq_of_get : ∀ {A B : Tracers}, (∀ j, ORel (A.get? j) (B.get? j)) → TsEq A B
  | .nil, B, h => by
    rw [TsEq]
    cases B with
    | nil => rfl
    | cons t r => have := h 0; simp [Tracers.get?, ORel] at this
  | .cons t r, B, h => by
    rw [TsEq]
    cases B with
    | nil => have := h 0; simp [Tracers.get?, ORel] at this
    | cons t' r' =>
      have h0 := h 0
      simp only [Tracers.get?, ORel] at h0
      exact ⟨t', r', rfl, h0, TsEq_of_get fun j => by have := h (j + 1); simpa [Tracers.get?] using this⟩

theorem TsWF_get {o : Options} : ∀ {A : Tracers}, TsWF o A → ∀ j, OWF o (A.get? j)
  | .nil, _, j => by intro t ht; simp [Tracers.get?] at ht
  | .cons t r, h, j => by
    rw [TsWF] at h
    cases j with
    | zero => intro t' ht; simp only [Tracers.get?, Option.some.injEq] at ht; subst ht; exact h.1
    | succ j => simp only [Tracers.get?]; exact TsWF_get h.2 j

theorem TsWF_of_get {o : Options} : ∀ {A : Tracers}, (∀ j, OWF o (A.get? j)) → TsWF o A
  | .nil, _ => by rw [TsWF]; trivial
  | .cons t r, h => by
    rw [TsWF]
    exact ⟨h 0 t (by simp [Tracers.get?]), TsWF_of_get fun j => by have := h (j + 1); simpa [Tracers.get?] using this⟩

end SaModel.Lemmas.C07
