import SaModel.Lemmas.C07TTuple
/-
C07, tree level — the tuple family at node level (`tuple`, `tuple_struct`; also the payload of tuple variants).
-/
namespace SaModel.Lemmas.C07
open SaModel SaModel.Trace SaModel.Props.C07

/-- `x` is absorbed as a tuple sample with the elements `items` -/
def TupleLike (o : Options) (x : SVal) (items : SVals) : Prop :=
  ∀ t a, absorb .fixed o t x = .ok a ↔ ∃ n p nl ts ts', t.ensure_tuple .fixed items.length = .ok (.tuple n p nl ts) ∧
    absorbTuple .fixed o p ts 0 items = .ok ts' ∧ a = .tuple n p nl ts'

theorem tupleLike_of {o : Options} {x : SVal} {items : SVals}
    (hx : ∀ t, absorb .fixed o t x = (do
      let t ← t.ensure_tuple .fixed items.length
      match t with
      | .tuple n p nl ts =>
        let ts ← absorbTuple .fixed o p ts 0 items
        .ok (.tuple n p nl ts)
      | _ => panic "unreachable: ensure_tuple")) : TupleLike o x items := by
  intro t a
  rw [hx t]
  simp only [bind, Except.bind]
  constructor
  · intro h
    cases h1 : t.ensure_tuple .fixed items.length with
    | error e => rw [h1] at h; cases h
    | ok t1 =>
      rw [h1] at h
      obtain ⟨_, hc⟩ := ensure_tuple_inv h1
      have : ∃ n p nl ts, t1 = .tuple n p nl ts := by
        rcases hc with ⟨_, rfl⟩ | ⟨n, p, nl, ts, rfl, rfl⟩
        · exact ⟨_, _, _, _, rfl⟩
        · exact ⟨_, _, _, _, rfl⟩
      obtain ⟨n, p, nl, ts, rfl⟩ := this
      simp only at h
      cases h2 : absorbTuple .fixed o p ts 0 items with
      | error e => rw [h2] at h; cases h
      | ok ts' => rw [h2] at h; cases h; exact ⟨n, p, nl, ts, ts', rfl, h2, rfl⟩
  · rintro ⟨n, p, nl, ts, ts', h1, h2, rfl⟩
    simp only [h1, h2]

theorem tupleLike_tuple (o : Options) (items : SVals) : TupleLike o (.tuple items) items :=
  tupleLike_of (by
    intro t
    simp only [absorb, bind, Except.bind]
    cases Tracer.ensure_tuple Code.fixed t items.length with
    | error e => rfl
    | ok t1 => cases t1 <;> rfl)

theorem tupleLike_tupleStruct (o : Options) (name : String) (items : SVals) :
    TupleLike o (.tupleStruct name items) items :=
  tupleLike_of (by
    intro t
    simp only [absorb, bind, Except.bind]
    cases Tracer.ensure_tuple Code.fixed t items.length with
    | error e => rfl
    | ok t1 => cases t1 <;> rfl)

theorem ensure_tuple_facts {o : Options} {t : Tracer} {k : Nat} {n p nl ts} (hw : WF o t)
    (h : t.ensure_tuple .fixed k = .ok (.tuple n p nl ts)) :
    ∃ s ts0, (s = 0 → ts0 = .nil) ∧ ts = tupleEns s p k ts0 ∧ TsWF o ts0 ∧ (∀ ts', depthOk (.tuple n p nl ts')) ∧
      ((t.is_unknown_or_null = true ∧ s = 0 ∧ n = t.name ∧ p = t.path ∧ nl = t.nullable) ∨
       (t = .tuple n p nl ts0 ∧ s = 1)) := by
  obtain ⟨hd, hc⟩ := ensure_tuple_inv h
  rcases hc with ⟨hu, e⟩ | ⟨n', p', nl', ts0, rfl, e⟩
  · cases e
    refine ⟨0, .nil, fun _ => rfl, (by simp [tupleEns]), (by rw [TsWF]; trivial),
      fun _ => (depthOk_path (a := t) rfl).mpr hd, .inl ⟨hu, rfl, rfl, rfl, rfl⟩⟩
  · cases e
    rw [WF] at hw
    refine ⟨1, ts0, (fun h => by cases h), (by simp [tupleEns]), hw,
      fun _ => (depthOk_path (a := .tuple n p nl ts0) rfl).mpr hd, .inr ⟨rfl, rfl⟩⟩

theorem keyT_seen {o : Options} {p : String} {s s' : Nat} (hs : s = 0 ↔ s' = 0) (cur : Option Tracer) (k : String)
    (vs : List SVal) : keyT o p s cur k vs = keyT o p s' cur k vs := by
  unfold keyT
  cases vs with
  | nil => rfl
  | cons w ws =>
    cases cur with
    | none => simp only [curT, freshField_zero p hs k]
    | some t => rfl

theorem optList_cong {o : Options} {items : SVals} (hc : ∀ v ∈ items.toList, Cong o v) (j : Nat) :
    ∀ v ∈ optList (SVals.get? items j), Cong o v := by
  intro v hv
  cases hg : SVals.get? items j with
  | none => rw [hg] at hv; simp [optList] at hv
  | some w =>
    rw [hg] at hv
    simp only [optList, List.mem_singleton] at hv
    subst hv
    exact hc _ (SVals.get?_mem hg)

theorem optList_mem {items : SVals} {j : Nat} {v : SVal} (hv : v ∈ optList (SVals.get? items j)) : v ∈ items.toList := by
  cases hg : SVals.get? items j with
  | none => rw [hg] at hv; simp [optList] at hv
  | some w =>
    rw [hg] at hv
    simp only [optList, List.mem_singleton] at hv
    subst hv
    exact SVals.get?_mem hg

theorem tuple_sample_wf {o : Options} {p : String} {s : Nat} {items : SVals} {ts R : Tracers}
    (h0 : s = 0 → ts = .nil) (hw : TsWF o ts) (hc : ∀ v ∈ items.toList, Cong o v)
    (h : absorbTuple .fixed o p (tupleEns s p items.length ts) 0 items = .ok R) : TsWF o R := by
  apply TsWF_of_get
  intro j
  have hk := tuple_sample_find h0 h j
  obtain ⟨_, _, _, hwr⟩ := keyT_cong (s' := s) (optList_cong hc j) (TsWF_get hw j) (TsWF_get hw j)
    (ORel_refl (TsWF_get hw j)) Iff.rfl hk
  exact hwr

theorem cong_tuple {o : Options} {x : SVal} {items : SVals} (hx : TupleLike o x items)
    (hc : ∀ v ∈ items.toList, Cong o v) : Cong o x := by
  intro t t' a hw hw' he h
  obtain ⟨n, p, nl, ts, R, e1, r1, rfl⟩ := (hx t a).mp h
  obtain ⟨s, ts0, h0, rfl, hwts, hd, hcase⟩ := ensure_tuple_facts hw e1
  have hwa : WF o (.tuple n p nl R) := by rw [WF]; exact tuple_sample_wf h0 hwts hc r1
  rcases hcase with ⟨hu, _⟩ | ⟨rfl, rfl⟩
  · have e := TEq_unknownish he hu
    rw [e]
    exact ⟨_, h, TEq_refl o _ hwa, hwa⟩
  · rw [TEq] at he
    obtain ⟨B, rfl, heB⟩ := he
    rw [WF] at hw'
    have hK := tuple_sample_find h0 r1
    have hB : ∀ j, ∃ r', keyT o p 1 (B.get? j) (toString j) (optList (SVals.get? items j)) = .ok r' ∧
        ORel (R.get? j) r' := by
      intro j
      obtain ⟨r', h1, h2, _⟩ := keyT_cong (s' := 1) (optList_cong hc j) (TsWF_get hwts j) (TsWF_get hw' j)
        (TsEq_get heB j) Iff.rfl (hK j)
      exact ⟨r', h1, h2⟩
    have h0' : (1 : Nat) = 0 → B = .nil := fun h => by cases h
    obtain ⟨R', r2⟩ := tuple_sample_mk h0' (fun j => let ⟨r', h1, _⟩ := hB j; ⟨r', h1⟩)
    have hK' := tuple_sample_find h0' r2
    refine ⟨.tuple n p nl R', ?_, ?_, hwa⟩
    · refine (hx _ _).mpr ⟨n, p, nl, _, R', ensure_tuple_same items.length (hd _), ?_, rfl⟩
      simpa [tupleEns] using r2
    · rw [TEq]
      refine ⟨R', rfl, TsEq_of_get ?_⟩
      intro j
      obtain ⟨r', h1, h2⟩ := hB j
      have := hK' j
      rw [h1] at this
      rw [← Except.ok.inj this]; exact h2

theorem swap_tuple {o : Options} {x y : SVal} {ix iy : SVals} (hx : TupleLike o x ix) (hy : TupleLike o y iy)
    (hc : ∀ v ∈ ix.toList ++ iy.toList, Cong o v)
    (hsw : ∀ u ∈ ix.toList ++ iy.toList, ∀ v ∈ ix.toList ++ iy.toList, Swap o u v) : Swap o x y := by
  intro t a hw ha
  have hcx : ∀ v ∈ ix.toList, Cong o v := fun v h => hc v (List.mem_append_left _ h)
  have hcy : ∀ v ∈ iy.toList, Cong o v := fun v h => hc v (List.mem_append_right _ h)
  obtain ⟨m1, h1, h2⟩ := absorb2_ok ha
  obtain ⟨n, p, nl, ts, R1, e1, r1, rfl⟩ := (hx t m1).mp h1
  obtain ⟨s, ts0, h0, rfl, hwts, hd, hcase⟩ := ensure_tuple_facts hw e1
  obtain ⟨n', p', nl', ts2, R2, e2, r2, rfl⟩ := (hy _ a).mp h2
  rw [ensure_tuple_same iy.length (hd _)] at e2
  cases e2
  have h1' : (1 : Nat) = 0 → R1 = .nil := fun h => by cases h
  have r2' : absorbTuple .fixed o p (tupleEns 1 p iy.length R1) 0 iy = .ok R2 := by simpa [tupleEns] using r2
  have hwR1 := tuple_sample_wf h0 hwts hcx r1
  have hwR2 := tuple_sample_wf h1' hwR1 hcy r2'
  have K1 := tuple_sample_find h0 r1
  have K2 := tuple_sample_find h1' r2'
  have hs1 : (s + 1 = 0 ↔ (1 : Nat) = 0) := by constructor <;> intro h <;> omega
  have hkey : ∀ j, ∃ d1 d2, keyT o p s (ts0.get? j) (toString j) (optList (SVals.get? iy j)) = .ok d1 ∧
      keyT o p 1 d1 (toString j) (optList (SVals.get? ix j)) = .ok d2 ∧ ORel (R2.get? j) d2 := by
    intro j
    have k2 := K2 j
    rw [← keyT_seen hs1] at k2
    obtain ⟨d1, d2, a1, a2, a3, _, _⟩ := keyT_swap (k := toString j)
      (fun v hv => by
        rcases List.mem_append.mp hv with h | h
        · exact hc v (List.mem_append_left _ (optList_mem h))
        · exact hc v (List.mem_append_right _ (optList_mem h)))
      (fun u hu v hv => by
        have hu' : u ∈ ix.toList ++ iy.toList := by
          rcases List.mem_append.mp hu with h | h
          · exact List.mem_append_left _ (optList_mem h)
          · exact List.mem_append_right _ (optList_mem h)
        have hv' : v ∈ ix.toList ++ iy.toList := by
          rcases List.mem_append.mp hv with h | h
          · exact List.mem_append_left _ (optList_mem h)
          · exact List.mem_append_right _ (optList_mem h)
        exact hsw _ hu' _ hv')
      (TsWF_get hwts j) (K1 j) k2
    rw [keyT_seen hs1] at a2
    exact ⟨d1, d2, a1, a2, a3⟩
  obtain ⟨G1, q1⟩ := tuple_sample_mk h0 (fun j => let ⟨d1, _, a1, _⟩ := hkey j; ⟨d1, a1⟩)
  have hwG1 := tuple_sample_wf h0 hwts hcy q1
  have Q1 := tuple_sample_find h0 q1
  have h1'' : (1 : Nat) = 0 → G1 = .nil := fun h => by cases h
  have hd1 : ∀ j, ∃ d2, keyT o p 1 (G1.get? j) (toString j) (optList (SVals.get? ix j)) = .ok d2 ∧
      ORel (R2.get? j) d2 := by
    intro j
    obtain ⟨d1, d2, a1, a2, a3⟩ := hkey j
    have := Q1 j
    rw [a1] at this
    rw [← Except.ok.inj this]
    exact ⟨d2, a2, a3⟩
  obtain ⟨G2, q2⟩ := tuple_sample_mk h1'' (fun j => let ⟨d2, a2, _⟩ := hd1 j; ⟨d2, a2⟩)
  have Q2 := tuple_sample_find h1'' q2
  have hrel : ∀ j, ORel (R2.get? j) (G2.get? j) := by
    intro j
    obtain ⟨d2, a2, a3⟩ := hd1 j
    have := Q2 j
    rw [a2] at this
    rw [← Except.ok.inj this]; exact a3
  have hx2 : absorb .fixed o (.tuple n p nl G1) x = .ok (.tuple n p nl G2) := by
    refine (hx _ _).mpr ⟨n, p, nl, _, G2, ensure_tuple_same ix.length (hd _), ?_, rfl⟩
    simpa [tupleEns] using q2
  have hy1 : absorb .fixed o t y = .ok (.tuple n p nl G1) := by
    rcases hcase with ⟨hu, rfl, rfl, rfl, rfl⟩ | ⟨rfl, rfl⟩
    · refine (hy _ _).mpr ⟨_, _, _, _, G1, ensure_tuple_fresh iy.length (ensure_tuple_inv e1).1 hu, ?_, rfl⟩
      simpa [tupleEns] using q1
    · refine (hy _ _).mpr ⟨_, _, _, _, G1, ensure_tuple_same iy.length (hd _), ?_, rfl⟩
      simpa [tupleEns] using q1
  refine ⟨_, absorb2_mk hy1 hx2, ?_⟩
  rw [TEq]
  exact ⟨G2, rfl, TsEq_of_get hrel⟩

theorem shape_tuple {o : Options} {x : SVal} {items : SVals} (hx : TupleLike o x items) {t a : Tracer}
    (h : absorb .fixed o t x = .ok a) :
    Tracer.shape a = some .tuple ∧ (t.is_unknown_or_null = true ∨ Tracer.shape t = some .tuple) := by
  obtain ⟨n, p, nl, ts, ts', e1, _, rfl⟩ := (hx t a).mp h
  refine ⟨rfl, ?_⟩
  obtain ⟨_, hc⟩ := ensure_tuple_inv e1
  rcases hc with ⟨hu, _⟩ | ⟨_, _, _, _, rfl, _⟩
  · exact .inl hu
  · exact .inr rfl

end SaModel.Lemmas.C07
