import SaModel.Lemmas.C07TTuple2
/-
C07, tree level — enum variants: the variant list by position (`padNone`, `set`, `get?`), the slot a variant sample
works on, and the union family (`unit_variant`, `newtype_variant`, `tuple_variant`, `struct_variant` absorb `unit`,
the inner value, a tuple, a struct into the slot's tracer).
-/
namespace SaModel.Lemmas.C07
open SaModel SaModel.Trace SaModel.Props.C07

/-! ### `Variants` by position -/

theorem Vs.get?_none : ∀ {vs : Variants} {j : Nat}, vs.get? j = none ↔ vs.length ≤ j
  | .nil, j => by simp [Variants.get?, Variants.length]
  | .absent r, 0 => by simp [Variants.get?, Variants.length]
  | .present _ _ r, 0 => by simp [Variants.get?, Variants.length]
  | .absent r, j + 1 => by simp [Variants.get?, Variants.length, Vs.get?_none (vs := r) (j := j)]
  | .present _ _ r, j + 1 => by simp [Variants.get?, Variants.length, Vs.get?_none (vs := r) (j := j)]

theorem Vs.ext : ∀ {A B : Variants}, (∀ j, A.get? j = B.get? j) → A = B
  | .nil, .nil, _ => rfl
  | .nil, .absent r, h => by have := h 0; simp [Variants.get?] at this
  | .nil, .present _ _ r, h => by have := h 0; simp [Variants.get?] at this
  | .absent r, .nil, h => by have := h 0; simp [Variants.get?] at this
  | .present _ _ r, .nil, h => by have := h 0; simp [Variants.get?] at this
  | .absent r, .present _ _ r', h => by have := h 0; simp [Variants.get?] at this
  | .present _ _ r, .absent r', h => by have := h 0; simp [Variants.get?] at this
  | .absent r, .absent r', h => by
    rw [Vs.ext (A := r) (B := r') fun j => by have := h (j + 1); simpa [Variants.get?] using this]
  | .present n t r, .present n' t' r', h => by
    have h0 := h 0
    simp only [Variants.get?, Option.some.injEq, Prod.mk.injEq] at h0
    rw [h0.1, h0.2, Vs.ext (A := r) (B := r') fun j => by have := h (j + 1); simpa [Variants.get?] using this]

theorem Vs.length_nones : ∀ k, (Variants.nones k).length = k
  | 0 => rfl
  | k + 1 => by simp [Variants.nones, Variants.length, Vs.length_nones k]

theorem Vs.get?_nones : ∀ k j, (Variants.nones k).get? j = if j < k then some none else none
  | 0, j => by simp [Variants.nones, Variants.get?]
  | k + 1, 0 => by simp [Variants.nones, Variants.get?]
  | k + 1, j + 1 => by simp [Variants.nones, Variants.get?, Vs.get?_nones k j]

theorem Vs.length_padNone : ∀ (vs : Variants) (k : Nat), (vs.padNone k).length = vs.length + k
  | .nil, k => by simp [Variants.padNone, Variants.length, Vs.length_nones]
  | .absent r, k => by simp [Variants.padNone, Variants.length, Vs.length_padNone r k]; omega
  | .present _ _ r, k => by simp [Variants.padNone, Variants.length, Vs.length_padNone r k]; omega

theorem Vs.get?_padNone : ∀ (vs : Variants) (k j : Nat), (vs.padNone k).get? j =
    if j < vs.length then vs.get? j else if j < vs.length + k then some none else none
  | .nil, k, j => by simp [Variants.padNone, Variants.length, Vs.get?_nones]
  | .absent r, k, 0 => by simp [Variants.padNone, Variants.length, Variants.get?]
  | .present _ _ r, k, 0 => by simp [Variants.padNone, Variants.length, Variants.get?]
  | .absent r, k, j + 1 => by
    simp only [Variants.padNone, Variants.length, Variants.get?, Vs.get?_padNone r k j]
    have : (j + 1 < r.length + 1 + k) = (j < r.length + k) := by simp; omega
    simp [this]
  | .present _ _ r, k, j + 1 => by
    simp only [Variants.padNone, Variants.length, Variants.get?, Vs.get?_padNone r k j]
    have : (j + 1 < r.length + 1 + k) = (j < r.length + k) := by simp; omega
    simp [this]

theorem Vs.length_set : ∀ (vs : Variants) (i : Nat) (a : String) (t : Tracer), (vs.set i a t).length = vs.length
  | .nil, _, _, _ => rfl
  | .absent r, 0, _, _ => rfl
  | .present _ _ r, 0, _, _ => rfl
  | .absent r, i + 1, a, t => by simp [Variants.set, Variants.length, Vs.length_set r i a t]
  | .present _ _ r, i + 1, a, t => by simp [Variants.set, Variants.length, Vs.length_set r i a t]

theorem Vs.get?_set : ∀ (vs : Variants) (i : Nat) (a : String) (t : Tracer) (j : Nat),
    (vs.set i a t).get? j = if i = j then (vs.get? j).map (fun _ => some (a, t)) else vs.get? j
  | .nil, _, _, _, _ => by simp [Variants.set, Variants.get?]
  | .absent r, 0, _, _, 0 => by simp [Variants.set, Variants.get?]
  | .present _ _ r, 0, _, _, 0 => by simp [Variants.set, Variants.get?]
  | .absent r, 0, _, _, j + 1 => by simp [Variants.set, Variants.get?]
  | .present _ _ r, 0, _, _, j + 1 => by simp [Variants.set, Variants.get?]
  | .absent r, i + 1, _, _, 0 => by simp [Variants.set, Variants.get?]
  | .present _ _ r, i + 1, _, _, 0 => by simp [Variants.set, Variants.get?]
  | .absent r, i + 1, a, t, j + 1 => by simp [Variants.set, Variants.get?, Vs.get?_set r i a t j]
  | .present _ _ r, i + 1, a, t, j + 1 => by simp [Variants.set, Variants.get?, Vs.get?_set r i a t j]

/-- the variant list after a sample of variant `(i, a)` whose slot tracer became `t` -/
def upd (vs : Variants) (i : Nat) (a : String) (t : Tracer) : Variants :=
  (vs.padNone (i + 1 - vs.length)).set i a t

/-- `get?` of the list padded to length `≥ m` -/
def padGet (vs : Variants) (m k : Nat) : Option (Option (String × Tracer)) :=
  if k < vs.length then vs.get? k else if k < m then some none else none

theorem padGet_eq (vs : Variants) (m k : Nat) : (vs.padNone (m - vs.length)).get? k = padGet vs m k := by
  rw [Vs.get?_padNone]; unfold padGet
  by_cases h1 : k < vs.length
  · simp [h1]
  · have : (k < vs.length + (m - vs.length)) = (k < m) := by simp; omega
    simp [h1, this]

theorem upd_length (vs : Variants) (i : Nat) (a : String) (t : Tracer) :
    (upd vs i a t).length = max vs.length (i + 1) := by
  unfold upd; rw [Vs.length_set, Vs.length_padNone]; omega

theorem upd_get (vs : Variants) (i : Nat) (a : String) (t : Tracer) (k : Nat) :
    (upd vs i a t).get? k = if k = i then some (some (a, t)) else padGet vs (i + 1) k := by
  unfold upd
  rw [Vs.get?_set, padGet_eq]
  by_cases h : i = k
  · subst h
    simp only [if_true]
    unfold padGet
    by_cases h1 : i < vs.length
    · simp only [h1, if_true]
      cases hg : vs.get? i with
      | none => have := Vs.get?_none.mp hg; omega
      | some x => rfl
    · simp [h1]
  · have : ¬ k = i := fun e => h e.symm
    simp [h, this]

theorem padGet_upd (vs : Variants) (i : Nat) (a : String) (t : Tracer) (m k : Nat) (h : k ≠ i) :
    padGet (upd vs i a t) m k = padGet vs (max (i + 1) m) k := by
  unfold padGet
  rw [upd_length, upd_get]
  simp only [h, if_false]
  unfold padGet
  by_cases h1 : k < vs.length
  · have : k < max vs.length (i + 1) := by omega
    simp [h1, this]
  · by_cases h2 : k < i + 1
    · have a1 : k < max vs.length (i + 1) := by omega
      have a2 : k < max (i + 1) m := by omega
      simp [h1, h2, a1, a2]
    · have a1 : ¬ k < max vs.length (i + 1) := by omega
      have a2 : (k < max (i + 1) m) = (k < m) := by simp; omega
      simp [h1, a1, a2]

/-- the tracer a sample of variant `(i, a)` works on: the slot's tracer (names must agree), a fresh tracer for an
unseen slot -/
def slot (p : String) (vs : Variants) (i : Nat) (a : String) : Option Tracer :=
  match padGet vs (i + 1) i with
  | some (some (prev, t)) => if prev = a then some t else none
  | some none => some (Tracer.new a (p ++ "." ++ a))
  | none => none

theorem slot_upd_ne (p : String) (vs : Variants) (i : Nat) (a : String) (t : Tracer) (j : Nat) (b : String)
    (h : j ≠ i) : slot p (upd vs i a t) j b = slot p vs j b := by
  unfold slot
  rw [padGet_upd vs i a t (j + 1) j h]
  have : padGet vs (max (i + 1) (j + 1)) j = padGet vs (j + 1) j := by
    unfold padGet
    by_cases h1 : j < vs.length
    · simp [h1]
    · have a1 : j < max (i + 1) (j + 1) := by omega
      simp only [h1, a1, if_false, if_true]
      simp
  rw [this]

theorem slot_upd_eq (p : String) (vs : Variants) (i : Nat) (a : String) (t : Tracer) (b : String) :
    slot p (upd vs i a t) i b = if a = b then some t else none := by
  unfold slot padGet
  rw [upd_length, upd_get]
  have : i < max vs.length (i + 1) := by omega
  simp [this]

theorem upd_upd_eq (vs : Variants) (i : Nat) (a b : String) (t u : Tracer) :
    upd (upd vs i a t) i b u = upd vs i b u := by
  apply Vs.ext
  intro k
  rw [upd_get, upd_get]
  by_cases h : k = i
  · simp [h]
  · simp only [h, if_false]
    rw [padGet_upd vs i a t (i + 1) k h]
    simp

theorem upd_upd_ne (vs : Variants) (i j : Nat) (a b : String) (t u : Tracer) (h : i ≠ j) :
    upd (upd vs i a t) j b u = upd (upd vs j b u) i a t := by
  apply Vs.ext
  intro k
  rw [upd_get, upd_get]
  by_cases h1 : k = j
  · subst h1
    have : ¬ k = i := fun e => h e.symm
    simp only [this, if_false, if_true]
    unfold padGet
    rw [upd_length, upd_get]
    have h3 : k < max vs.length (k + 1) := by omega
    simp [h3]
  · by_cases h2 : k = i
    · subst h2
      simp only [h1, if_false, if_true]
      unfold padGet
      rw [upd_length, upd_get]
      have : k < max vs.length (k + 1) := by omega
      simp [this]
    · simp only [h1, h2, if_false]
      rw [padGet_upd vs i a t (j + 1) k h2, padGet_upd vs j b u (i + 1) k h1, Nat.max_comm]

/-! ### `VEq`, `VWF` through the operations -/

theorem VEq_length : ∀ {A B : Variants}, VEq A B → B.length = A.length
  | .nil, B, h => by rw [VEq] at h; subst h; rfl
  | .absent r, B, h => by
    rw [VEq] at h; obtain ⟨r', rfl, h⟩ := h
    simp [Variants.length, VEq_length h]
  | .present _ _ r, B, h => by
    rw [VEq] at h; obtain ⟨t', r', rfl, _, h⟩ := h
    simp [Variants.length, VEq_length h]

theorem VEq_padNone : ∀ {A B : Variants} (k : Nat), VEq A B → VEq (A.padNone k) (B.padNone k)
  | .nil, B, k, h => by
    rw [VEq] at h; subst h
    simp only [Variants.padNone]
    induction k with
    | zero => simp only [Variants.nones]; rw [VEq]
    | succ k ih => simp only [Variants.nones]; rw [VEq]; exact ⟨_, rfl, ih⟩
  | .absent r, B, k, h => by
    rw [VEq] at h; obtain ⟨r', rfl, h⟩ := h
    simp only [Variants.padNone]; rw [VEq]; exact ⟨_, rfl, VEq_padNone k h⟩
  | .present _ _ r, B, k, h => by
    rw [VEq] at h; obtain ⟨t', r', rfl, h1, h⟩ := h
    simp only [Variants.padNone]; rw [VEq]; exact ⟨_, _, rfl, h1, VEq_padNone k h⟩

theorem VEq_set : ∀ {A B : Variants} (i : Nat) (a : String) {t t' : Tracer}, VEq A B → TEq t t' →
    VEq (A.set i a t) (B.set i a t')
  | .nil, B, i, a, t, t', h, _ => by rw [VEq] at h; subst h; simp only [Variants.set]; rw [VEq]
  | .absent r, B, 0, a, t, t', h, ht => by
    rw [VEq] at h; obtain ⟨r', rfl, h⟩ := h
    simp only [Variants.set]; rw [VEq]; exact ⟨_, _, rfl, ht, h⟩
  | .present _ _ r, B, 0, a, t, t', h, ht => by
    rw [VEq] at h; obtain ⟨t0, r', rfl, _, h⟩ := h
    simp only [Variants.set]; rw [VEq]; exact ⟨_, _, rfl, ht, h⟩
  | .absent r, B, i + 1, a, t, t', h, ht => by
    rw [VEq] at h; obtain ⟨r', rfl, h⟩ := h
    simp only [Variants.set]; rw [VEq]; exact ⟨_, rfl, VEq_set i a h ht⟩
  | .present _ _ r, B, i + 1, a, t, t', h, ht => by
    rw [VEq] at h; obtain ⟨t0, r', rfl, h1, h⟩ := h
    simp only [Variants.set]; rw [VEq]; exact ⟨_, _, rfl, h1, VEq_set i a h ht⟩

theorem VEq_upd {A B : Variants} (i : Nat) (a : String) {t t' : Tracer} (h : VEq A B) (ht : TEq t t') :
    VEq (upd A i a t) (upd B i a t') := by
  unfold upd
  rw [VEq_length h]
  exact VEq_set i a (VEq_padNone _ h) ht

/-- related slots -/
def SRel : Option (Option (String × Tracer)) → Option (Option (String × Tracer)) → Prop
  | none, none => True
  | some none, some none => True
  | some (some (n, t)), some (some (n', t')) => n = n' ∧ TEq t t'
  | _, _ => False

theorem VEq_get : ∀ {A B : Variants}, VEq A B → ∀ j, SRel (A.get? j) (B.get? j)
  | .nil, B, h, j => by rw [VEq] at h; subst h; simp [Variants.get?, SRel]
  | .absent r, B, h, j => by
    rw [VEq] at h; obtain ⟨r', rfl, h⟩ := h
    cases j with
    | zero => simp [Variants.get?, SRel]
    | succ j => simp only [Variants.get?]; exact VEq_get h j
  | .present _ _ r, B, h, j => by
    rw [VEq] at h; obtain ⟨t', r', rfl, h1, h⟩ := h
    cases j with
    | zero => simp [Variants.get?, SRel, h1]
    | succ j => simp only [Variants.get?]; exact VEq_get h j

theorem VWF_get {o : Options} : ∀ {A : Variants}, VWF o A → ∀ j n t, A.get? j = some (some (n, t)) → WF o t
  | .nil, _, j, n, t, h => by simp [Variants.get?] at h
  | .absent r, hw, j, n, t, h => by
    rw [VWF] at hw
    cases j with
    | zero => simp [Variants.get?] at h
    | succ j => simp only [Variants.get?] at h; exact VWF_get hw j n t h
  | .present _ _ r, hw, j, n, t, h => by
    rw [VWF] at hw
    cases j with
    | zero => simp only [Variants.get?, Option.some.injEq, Prod.mk.injEq] at h; rw [← h.2]; exact hw.1
    | succ j => simp only [Variants.get?] at h; exact VWF_get hw.2 j n t h

theorem VWF_padNone {o : Options} : ∀ {A : Variants} (k : Nat), VWF o A → VWF o (A.padNone k)
  | .nil, k, _ => by
    simp only [Variants.padNone]
    induction k with
    | zero => simp only [Variants.nones]; rw [VWF]; trivial
    | succ k ih => simp only [Variants.nones]; rw [VWF]; exact ih
  | .absent r, k, h => by rw [VWF] at h; simp only [Variants.padNone]; rw [VWF]; exact VWF_padNone k h
  | .present _ _ r, k, h => by
    rw [VWF] at h; simp only [Variants.padNone]; rw [VWF]; exact ⟨h.1, VWF_padNone k h.2⟩

theorem VWF_set {o : Options} : ∀ {A : Variants} (i : Nat) (a : String) {t : Tracer}, VWF o A → WF o t →
    VWF o (A.set i a t)
  | .nil, _, _, _, _, _ => by simp only [Variants.set]; rw [VWF]; trivial
  | .absent r, 0, a, t, h, ht => by rw [VWF] at h; simp only [Variants.set]; rw [VWF]; exact ⟨ht, h⟩
  | .present _ _ r, 0, a, t, h, ht => by rw [VWF] at h; simp only [Variants.set]; rw [VWF]; exact ⟨ht, h.2⟩
  | .absent r, i + 1, a, t, h, ht => by rw [VWF] at h; simp only [Variants.set]; rw [VWF]; exact VWF_set i a h ht
  | .present _ _ r, i + 1, a, t, h, ht => by
    rw [VWF] at h; simp only [Variants.set]; rw [VWF]; exact ⟨h.1, VWF_set i a h.2 ht⟩

theorem VWF_upd {o : Options} {A : Variants} (i : Nat) (a : String) {t : Tracer} (h : VWF o A) (ht : WF o t) :
    VWF o (upd A i a t) := VWF_set i a (VWF_padNone _ h) ht

theorem slot_wf {o : Options} {p : String} {vs : Variants} {i : Nat} {a : String} {st : Tracer} (hw : VWF o vs)
    (h : slot p vs i a = some st) : WF o st := by
  unfold slot at h
  rw [← padGet_eq] at h
  have hw' := VWF_padNone (i + 1 - vs.length) hw
  cases hg : (vs.padNone (i + 1 - vs.length)).get? i with
  | none => rw [hg] at h; cases h
  | some x =>
    rw [hg] at h
    cases x with
    | none => simp only [Option.some.injEq] at h; subst h; rw [Tracer.new, WF]; trivial
    | some nt =>
      obtain ⟨prev, t⟩ := nt
      simp only at h
      split at h
      · cases h; exact VWF_get hw' i prev st hg
      · cases h

theorem slot_cong {p : String} {A B : Variants} {i : Nat} {a : String} {st : Tracer} (he : VEq A B)
    (h : slot p A i a = some st) : ∃ st', slot p B i a = some st' ∧ TEq st st' ∧ (Tracer.isLeaf st = true → st' = st) := by
  unfold slot at h ⊢
  rw [← padGet_eq] at h ⊢
  have hr := VEq_get (VEq_padNone (i + 1 - A.length) he) i
  rw [VEq_length he]
  cases hg : (A.padNone (i + 1 - A.length)).get? i with
  | none => rw [hg] at h; cases h
  | some x =>
    rw [hg] at h hr
    cases x with
    | none =>
      cases hb : (B.padNone (i + 1 - A.length)).get? i with
      | none => rw [hb] at hr; simp [SRel] at hr
      | some y =>
        rw [hb] at hr
        cases y with
        | none =>
          simp only [Option.some.injEq] at h ⊢
          subst h
          refine ⟨_, rfl, ?_, fun _ => rfl⟩
          rw [Tracer.new, TEq]
        | some _ => simp [SRel] at hr
    | some nt =>
      obtain ⟨prev, t⟩ := nt
      cases hb : (B.padNone (i + 1 - A.length)).get? i with
      | none => rw [hb] at hr; simp [SRel] at hr
      | some y =>
        rw [hb] at hr
        cases y with
        | none => simp [SRel] at hr
        | some nt' =>
          obtain ⟨prev', t'⟩ := nt'
          simp only [SRel] at hr
          obtain ⟨rfl, hr⟩ := hr
          simp only at h ⊢
          split at h
          · cases h
            rename_i hp
            simp only [hp, if_true]
            exact ⟨t', rfl, hr, fun hl => TEq_leaf hr hl⟩
          · cases h

end SaModel.Lemmas.C07
