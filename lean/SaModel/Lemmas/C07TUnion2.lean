import SaModel.Lemmas.C07TUnion
/-
C07, tree level — the union family at node level.
-/
namespace SaModel.Lemmas.C07
open SaModel SaModel.Trace SaModel.Props.C07

theorem Vs.set_set : ∀ (vs : Variants) (i : Nat) (a b : String) (t u : Tracer), (vs.set i a t).set i b u = vs.set i b u
  | .nil, _, _, _, _, _ => rfl
  | .absent r, 0, _, _, _, _ => rfl
  | .present _ _ r, 0, _, _, _, _ => rfl
  | .absent r, i + 1, a, b, t, u => by simp [Variants.set, Vs.set_set r i a b t u]
  | .present _ _ r, i + 1, a, b, t, u => by simp [Variants.set, Vs.set_set r i a b t u]

theorem ev_sound {p : String} {vs vs' : Variants} {vn : String} {idx : Nat} (h : ensure_variant p vs vn idx = .ok vs') :
    idx < VARIANT_ALLOC_LIMIT ∧ ∃ st, slot p vs idx vn = some st ∧ vs'.get? idx = some (some (vn, st)) ∧
      ∀ X, vs'.set idx vn X = upd vs idx vn X := by
  unfold ensure_variant at h
  by_cases hl : idx ≥ VARIANT_ALLOC_LIMIT
  · simp [hl, panic] at h
  · simp only [hl, if_false] at h
    refine ⟨by omega, ?_⟩
    unfold slot
    rw [← padGet_eq]
    cases hg : (vs.padNone (idx + 1 - vs.length)).get? idx with
    | none => rw [hg] at h; simp [panic] at h
    | some x =>
      rw [hg] at h
      cases x with
      | none =>
        simp only [Except.ok.injEq] at h
        subst h
        refine ⟨_, rfl, ?_, fun X => by rw [Vs.set_set]; rfl⟩
        rw [Vs.get?_set, hg]; simp
      | some nt =>
        obtain ⟨prev, t⟩ := nt
        simp only at h
        by_cases hp : prev = vn
        · subst hp
          simp only [bne_self_eq_false, Bool.false_eq_true, if_false, Except.ok.injEq] at h
          subst h
          exact ⟨t, by simp, hg, fun X => rfl⟩
        · have : (prev != vn) = true := by simp [hp]
          simp [this, fail] at h

theorem ev_complete {p : String} {vs : Variants} {vn : String} {idx : Nat} {st : Tracer}
    (hl : idx < VARIANT_ALLOC_LIMIT) (h : slot p vs idx vn = some st) : ∃ vs', ensure_variant p vs vn idx = .ok vs' := by
  unfold ensure_variant
  have : ¬ idx ≥ VARIANT_ALLOC_LIMIT := by omega
  simp only [this, if_false]
  unfold slot at h
  rw [← padGet_eq] at h
  cases hg : (vs.padNone (idx + 1 - vs.length)).get? idx with
  | none => rw [hg] at h; cases h
  | some x =>
    rw [hg] at h
    cases x with
    | none => exact ⟨_, rfl⟩
    | some nt =>
      obtain ⟨prev, t⟩ := nt
      simp only at h ⊢
      by_cases hp : prev = vn
      · subst hp; simp
      · simp [hp] at h

/-- a variant sample: find the slot, absorb the payload into its tracer, store the tracer -/
def variantDo (o : Options) (t : Tracer) (vn : String) (idx : Nat) (payload : SVal) : R Tracer := do
  let (n, p, nl, vs, vt) ← ensure_union_variant t vn idx
  let vt ← absorb .fixed o vt payload
  .ok (.union n p nl (vs.set idx vn vt))

theorem variantDo_ok {o : Options} {t a : Tracer} {vn : String} {idx : Nat} {payload : SVal} :
    variantDo o t vn idx payload = .ok a ↔ ∃ n p nl vs st vt', t.ensure_union [] = .ok (.union n p nl vs) ∧
      idx < VARIANT_ALLOC_LIMIT ∧ slot p vs idx vn = some st ∧ absorb .fixed o st payload = .ok vt' ∧
      a = .union n p nl (upd vs idx vn vt') := by
  unfold variantDo ensure_union_variant
  simp only [bind, Except.bind]
  constructor
  · intro h
    cases h1 : t.ensure_union [] with
    | error e => rw [h1] at h; cases h
    | ok t1 =>
      rw [h1] at h
      obtain ⟨_, hc⟩ := ensure_union_inv h1
      have : ∃ n p nl vs, t1 = .union n p nl vs := by
        rcases hc with ⟨_, rfl⟩ | ⟨n, p, nl, vs, rfl, rfl⟩
        · exact ⟨_, _, _, _, rfl⟩
        · exact ⟨_, _, _, _, rfl⟩
      obtain ⟨n, p, nl, vs, rfl⟩ := this
      simp only at h
      cases h2 : ensure_variant p vs vn idx with
      | error e => rw [h2] at h; cases h
      | ok vs' =>
        rw [h2] at h
        obtain ⟨hl, st, hs, hg, hset⟩ := ev_sound h2
        simp only [hg] at h
        cases h3 : absorb .fixed o st payload with
        | error e => rw [h3] at h; cases h
        | ok vt' =>
          rw [h3] at h; cases h
          exact ⟨n, p, nl, vs, st, vt', rfl, hl, hs, h3, by rw [hset]⟩
  · rintro ⟨n, p, nl, vs, st, vt', h1, hl, hs, h3, rfl⟩
    obtain ⟨vs', h2⟩ := ev_complete hl hs
    obtain ⟨_, st', hs', hg, hset⟩ := ev_sound h2
    rw [hs] at hs'; cases hs'
    simp only [h1, h2, hg, h3, hset]

/-- `x` is a sample of variant `(idx, vn)` whose payload is absorbed like `payload` -/
def UnionLike (o : Options) (x : SVal) (idx : Nat) (vn : String) (payload : SVal) : Prop :=
  ∀ t, absorb .fixed o t x = variantDo o t vn idx payload

theorem unionLike_unit (o : Options) (nm : String) (idx : Nat) (vn : String) :
    UnionLike o (.unitVariant nm idx vn) idx vn .unit := by
  intro t
  simp only [absorb, variantDo]

theorem unionLike_newtype (o : Options) (nm : String) (idx : Nat) (vn : String) (v : SVal) :
    UnionLike o (.newtypeVariant nm idx vn v) idx vn v := by
  intro t
  simp only [absorb, variantDo]

theorem unionLike_tuple (o : Options) (nm : String) (idx : Nat) (vn : String) (items : SVals) :
    UnionLike o (.tupleVariant nm idx vn items) idx vn (.tuple items) := by
  intro t
  simp only [absorb, variantDo, bind, Except.bind]
  cases ensure_union_variant t vn idx with
  | error e => rfl
  | ok r =>
    obtain ⟨n, p, nl, vs, vt⟩ := r
    simp only
    cases Tracer.ensure_tuple Code.fixed vt items.length with
    | error e => rfl
    | ok t1 =>
      cases t1 <;> try rfl
      simp only
      cases absorbTuple Code.fixed o _ _ 0 items <;> rfl

theorem unionLike_struct (o : Options) (nm : String) (idx : Nat) (vn : String) (flds : SFields) :
    UnionLike o (.structVariant nm idx vn flds) idx vn (.record nm flds) := by
  intro t
  simp only [absorb, variantDo, bind, Except.bind]
  cases ensure_union_variant t vn idx with
  | error e => rfl
  | ok r =>
    obtain ⟨n, p, nl, vs, vt⟩ := r
    simp only
    cases Tracer.ensure_struct Code.fixed vt [] StructMode.struct with
    | error e => rfl
    | ok t1 =>
      cases t1 <;> try rfl
      simp only
      cases absorbFields Code.fixed o _ _ _ flds <;> rfl

theorem ensure_union_facts {o : Options} {t : Tracer} {n p nl vs} (hw : WF o t)
    (h : t.ensure_union [] = .ok (.union n p nl vs)) :
    VWF o vs ∧ (∀ vs', depthOk (.union n p nl vs')) ∧ (t.is_unknown_or_null = true ∨ t = .union n p nl vs) := by
  obtain ⟨hd, hc⟩ := ensure_union_inv h
  rcases hc with ⟨hu, e⟩ | ⟨n', p', nl', vs', rfl, e⟩
  · cases e
    exact ⟨by rw [VWF]; trivial, fun _ => (depthOk_path (a := t) rfl).mpr hd, .inl hu⟩
  · cases e
    rw [WF] at hw
    exact ⟨hw, fun _ => (depthOk_path (a := .union n p nl vs) rfl).mpr hd, .inr rfl⟩

theorem cong_union {o : Options} {x : SVal} {idx : Nat} {vn : String} {payload : SVal}
    (hx : UnionLike o x idx vn payload) (hc : Cong o payload) : Cong o x := by
  intro t t' a hw hw' he h
  rw [hx t] at h
  rw [hx t']
  obtain ⟨n, p, nl, vs, st, vt', e1, hl, hs, ha, rfl⟩ := variantDo_ok.mp h
  obtain ⟨hwv, hd, hcase⟩ := ensure_union_facts hw e1
  have hwst := slot_wf hwv hs
  have hwa : WF o (.union n p nl (upd vs idx vn vt')) := by rw [WF]; exact VWF_upd idx vn hwv (hc.wf hwst ha)
  rcases hcase with hu | rfl
  · have e := TEq_unknownish he hu
    rw [e]
    exact ⟨_, h, TEq_refl o _ hwa, hwa⟩
  · rw [TEq] at he
    obtain ⟨vs', rfl, hev⟩ := he
    rw [WF] at hw'
    obtain ⟨st', hs', hest, _⟩ := slot_cong hev hs
    obtain ⟨vt'', ha', hevt, _⟩ := hc st st' vt' hwst (slot_wf hw' hs') hest ha
    refine ⟨.union n p nl (upd vs' idx vn vt''), variantDo_ok.mpr ⟨n, p, nl, vs', st', vt'', ensure_union_same (hd _), hl, hs', ha', rfl⟩, ?_, hwa⟩
    rw [TEq]
    exact ⟨_, rfl, VEq_upd idx vn hev hevt⟩

theorem swap_union {o : Options} {x y : SVal} {i j : Nat} {a b : String} {u w : SVal}
    (hx : UnionLike o x i a u) (hy : UnionLike o y j b w) (hcu : Cong o u) (hcw : Cong o w)
    (hsw : Swap o u w) : Swap o x y := by
  intro t r hw hr
  obtain ⟨m1, h1, h2⟩ := absorb2_ok hr
  rw [hx t] at h1
  rw [hy m1] at h2
  obtain ⟨n, p, nl, vs, sx, t1, e1, hlx, hsx, hax, rfl⟩ := variantDo_ok.mp h1
  obtain ⟨hwv, hd, _⟩ := ensure_union_facts hw e1
  obtain ⟨n', p', nl', vs2, sy, t2, e2, hly, hsy, hay, rfl⟩ := variantDo_ok.mp h2
  rw [ensure_union_same (hd _)] at e2
  cases e2
  have hwsx := slot_wf hwv hsx
  have hwt1 := hcu.wf hwsx hax
  by_cases hij : i = j
  · subst hij
    rw [slot_upd_eq] at hsy
    by_cases hab : a = b
    · subst hab
      simp only [if_true, Option.some.injEq] at hsy
      subst hsy
      obtain ⟨t2', hb, het⟩ := hsw sx t2 hwsx (absorb2_mk hax hay)
      obtain ⟨t1', hb1, hb2⟩ := absorb2_ok hb
      have hy1 : absorb .fixed o t y = .ok (.union n p nl (upd vs i a t1')) := by
        rw [hy t]; exact variantDo_ok.mpr ⟨n, p, nl, vs, sx, t1', e1, hly, hsx, hb1, rfl⟩
      have hx2 : absorb .fixed o (.union n p nl (upd vs i a t1')) x = .ok (.union n p nl (upd (upd vs i a t1') i a t2')) := by
        rw [hx _]
        exact variantDo_ok.mpr ⟨n, p, nl, _, t1', t2', ensure_union_same (hd _), hlx, by rw [slot_upd_eq]; simp, hb2, rfl⟩
      refine ⟨_, absorb2_mk hy1 hx2, ?_⟩
      rw [upd_upd_eq, upd_upd_eq, TEq]
      exact ⟨_, rfl, VEq_upd i a (VEq_refl o vs hwv) het⟩
    · simp [hab] at hsy
  · rw [slot_upd_ne p vs i a t1 j b (fun e => hij e.symm)] at hsy
    have hwsy := slot_wf hwv hsy
    have hwt2 := hcw.wf hwsy hay
    have hy1 : absorb .fixed o t y = .ok (.union n p nl (upd vs j b t2)) := by
      rw [hy t]; exact variantDo_ok.mpr ⟨n, p, nl, vs, sy, t2, e1, hly, hsy, hay, rfl⟩
    have hx2 : absorb .fixed o (.union n p nl (upd vs j b t2)) x = .ok (.union n p nl (upd (upd vs j b t2) i a t1)) := by
      rw [hx _]
      exact variantDo_ok.mpr ⟨n, p, nl, _, sx, t1, ensure_union_same (hd _), hlx,
        by rw [slot_upd_ne p vs j b t2 i a hij]; exact hsx, hax, rfl⟩
    refine ⟨_, absorb2_mk hy1 hx2, ?_⟩
    rw [upd_upd_ne vs i j a b t1 t2 hij]
    refine TEq_refl o _ ?_
    rw [WF]
    exact VWF_upd i a (VWF_upd j b hwv hwt2) hwt1

theorem shape_union {o : Options} {x : SVal} {idx : Nat} {vn : String} {payload : SVal}
    (hx : UnionLike o x idx vn payload) {t a : Tracer} (h : absorb .fixed o t x = .ok a) :
    Tracer.shape a = some .union ∧ (t.is_unknown_or_null = true ∨ Tracer.shape t = some .union) := by
  rw [hx t] at h
  obtain ⟨n, p, nl, vs, st, vt', e1, _, _, _, rfl⟩ := variantDo_ok.mp h
  refine ⟨rfl, ?_⟩
  obtain ⟨_, hc⟩ := ensure_union_inv e1
  rcases hc with ⟨hu, _⟩ | ⟨_, _, _, _, rfl, _⟩
  · exact .inl hu
  · exact .inr rfl

end SaModel.Lemmas.C07
