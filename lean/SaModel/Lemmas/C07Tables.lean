import SaModel.Trace.Leaf
/-
Finite tables about the leaf lattice (`SaModel/Trace/Leaf.lean`), each a Bool-valued checker over the complete
alphabet `leafStates o × leafTypes o …` evaluated by the kernel (`decide +kernel`) for every one of the 2^3 settings of
the options `coerce_primitive_type` reads.  `SaModel/Props/C07.lean` lifts them to ∀-statements.
-/
namespace SaModel.Lemmas.C07
open SaModel SaModel.Trace

/-- two steps -/
def act2 (o : Options) (s : LeafSt) (a b : DataType) : R LeafSt :=
  match act o s a with
  | .ok s' => act o s' b
  | .error e => .error e

/-- both orders give the same state, or both fail; a success/failure mismatch only under `allow_to_string` -/
def commRow (o : Options) (s : LeafSt) (a b : DataType) : Bool :=
  match act2 o s a b, act2 o s b a with
  | .ok x, .ok y => decide (x = y)
  | .error _, .error _ => true
  | .ok _, .error _ => o.allow_to_string
  | .error _, .ok _ => o.allow_to_string

def commTable (o : Options) : Bool :=
  (leafStates o).all fun s => (leafTypes o).all fun a => (leafTypes o).all fun b => commRow o s a b

/-- a step stays inside the alphabet; the nullable flag is never lost; absorbing the same type again changes nothing -/
def stepRow (o : Options) (s : LeafSt) (a : DataType) : Bool :=
  match act o s a with
  | .ok s' => (leafStates o).any (fun x => decide (x = s')) && (!s.2 || s'.2) && decide (act o s' a = .ok s')
  | .error (.err _) => true
  | .error (.errCtx _ _) => true
  | .error (.panic _) => false

def stepTable (o : Options) : Bool :=
  (leafStates o).all fun s => (leafTypes o).all fun a => stepRow o s a

/-- `mark_nullable` commutes with a step -/
def markRow (o : Options) (s : LeafSt) (a : DataType) : Bool :=
  match act o s a, act o (mark s) a with
  | .ok s', .ok s'' => decide (s'' = mark s')
  | .error _, .error _ => true
  | _, _ => false

def markTable (o : Options) : Bool :=
  (leafStates o).all fun s => (leafTypes o).all fun a => markRow o s a

/-- a type a state has absorbed stays absorbed after any further step -/
def staysRow (o : Options) (r : LeafSt) (a b : DataType) : Bool :=
  !decide (act o r a = .ok r) ||
    match act o r b with
    | .ok r' => decide (act o r' a = .ok r')
    | .error _ => true

def staysTable (o : Options) : Bool :=
  (leafStates o).all fun r => (leafTypes o).all fun a => (leafTypes o).all fun b => staysRow o r a b

/-- `s ⊑ r`: `r` has absorbed the type of `s` and kept its nullable flag -/
def sle (o : Options) (s r : LeafSt) : Bool :=
  (match s.1 with
   | none => true
   | some ty => decide (act o r ty = .ok r)) && (!s.2 || r.2)

/-- the type of every state of the alphabet is a type of the alphabet -/
def stateTypesTable (o : Options) : Bool :=
  (leafStates o).all fun s => match s.1 with
    | none => true
    | some ty => (leafTypes o).any fun x => decide (x = ty)

/-- a null sample makes the position nullable -/
def nullTable (o : Options) : Bool :=
  (leafStates o).all fun s => match act o s .null with
    | .ok s' => s'.2
    | .error _ => false

/-- a state is above itself -/
def reflTable (o : Options) : Bool := (leafStates o).all fun s => sle o s s

/-- the result of a step is the LEAST state above the old state that has absorbed the new type -/
def leastRow (o : Options) (q r : LeafSt) (a : DataType) : Bool :=
  !(sle o q r && decide (act o r a = .ok r)) ||
    match act o q a with
    | .ok q' => sle o q' r
    | .error _ => true

def leastTable (o : Options) : Bool :=
  (leafStates o).all fun q => (leafStates o).all fun r => (leafTypes o).all fun a => leastRow o q r a

def antisymTable (o : Options) : Bool :=
  (leafStates o).all fun r1 => (leafStates o).all fun r2 => !(sle o r1 r2 && sle o r2 r1) || decide (r1 = r2)

/-- all six orders of a triple from the empty state: the successful ones agree, and unless `allow_to_string` they
succeed or fail together -/
def act3 (o : Options) (a b c : DataType) : Option LeafSt :=
  match act2 o (none, false) a b with
  | .ok s => (match act o s c with | .ok r => some r | .error _ => none)
  | .error _ => none

def tripleRow (o : Options) (a b c : DataType) : Bool :=
  let outs := [act3 o a b c, act3 o a c b, act3 o b a c, act3 o b c a, act3 o c a b, act3 o c b a]
  let succ := outs.filterMap id
  (match succ with
   | [] => true
   | r :: rest => rest.all fun r' => decide (r' = r)) &&
  (o.allow_to_string || succ.length == 6 || succ.length == 0)

def tripleTable (o : Options) : Bool :=
  (leafTypes o).all fun a => (leafTypes o).all fun b => (leafTypes o).all fun c => tripleRow o a b c

end SaModel.Lemmas.C07
