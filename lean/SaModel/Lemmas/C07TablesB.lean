import SaModel.Lemmas.C07Tables
/- kernel evaluation of leaf tables (split so that every file builds quickly) -/
namespace SaModel.Lemmas.C07
open SaModel SaModel.Trace
set_option maxRecDepth 1000000

theorem stepTable_all : coerceOptions.all stepTable = true := by decide +kernel
theorem markTable_all : coerceOptions.all markTable = true := by decide +kernel
theorem stateTypesTable_all : coerceOptions.all stateTypesTable = true := by decide +kernel
theorem nullTable_all : coerceOptions.all nullTable = true := by decide +kernel
theorem reflTable_all : coerceOptions.all reflTable = true := by decide +kernel
theorem antisymTable_all : coerceOptions.all antisymTable = true := by decide +kernel

end SaModel.Lemmas.C07
