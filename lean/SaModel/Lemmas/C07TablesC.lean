import SaModel.Lemmas.C07Tables
/- kernel evaluation of leaf tables (split so that every file builds quickly) -/
namespace SaModel.Lemmas.C07
open SaModel SaModel.Trace
set_option maxRecDepth 1000000

theorem staysTable_all : coerceOptions.all staysTable = true := by decide +kernel

end SaModel.Lemmas.C07
