import SaModel.Lemmas.C07Tables
/- kernel evaluation of leaf tables (split so that every file builds quickly) -/
namespace SaModel.Lemmas.C07
open SaModel SaModel.Trace
set_option maxRecDepth 1000000

theorem leastTable_lo : (coerceOptions.take 4).all leastTable = true := by decide +kernel

end SaModel.Lemmas.C07
