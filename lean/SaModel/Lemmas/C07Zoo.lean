import SaModel.Trace.FromSamples
import SaModel.Trace.Spec
/- a zoo of nested sample shapes on which the swap and repetition laws of `from_samples` are evaluated by the kernel -/
namespace SaModel.Lemmas.C07
open SaModel SaModel.Trace


def zi (v : Int) : SVal := .int .i32 v
def zrec (fs : List (String × SVal)) : SVal := .record "S" (SFields.ofList (fs.map fun (k, v) => (k, 0, v)))
def zmap (fs : List (String × SVal)) : SVal := .map (SEntries.ofList (fs.map fun (k, v) => (.str k, v)))
def zseq (xs : List SVal) : SVal := .seq (SVals.ofList xs)
def ztup (xs : List SVal) : SVal := .tuple (SVals.ofList xs)

/-- nested sample shapes: optional, list, struct with missing fields, map with varying keys, tuples, enum variants -/
def zooVals : List SVal := [
  .none, .some (zi 1), zi 2, .str "x", .unit,
  zseq [], zseq [zi 1], zseq [.none, .str "a"],
  zrec [("a", zi 1)], zrec [("b", .str "s"), ("a", zi 2)], zrec [],
  zmap [("k", zi 1)], zmap [("b", zi 1), ("a", .none)],
  ztup [zi 1, .str "a"], ztup [zi 1],
  .unitVariant "E" 1 "B", .newtypeVariant "E" 0 "A" (zrec [("x", .some (zi 1))]), .newtypeVariant "E" 0 "A" (zrec [("y", zi 1)]),
  zrec [("a", zrec [("p", zseq [zi 1])])], zrec [("a", zrec [("q", .bool true)]), ("c", .none)]
]

def zooOpts : List Options := [
  {}, { allow_null_fields := true }, { allow_null_fields := true, map_as_struct := false },
  { allow_null_fields := true, coerce_numbers := true, allow_to_string := true }
]

def swapOK (o : Options) (x y : SVal) : Bool :=
  match fromSamples .fixed o (itemsOf [x, y]), fromSamples .fixed o (itemsOf [y, x]) with
  | .ok a, .ok b => Spec.schemaEquiv a b
  | .error _, .error _ => true
  | _, _ => o.allow_to_string

def repeatOK (o : Options) (x y : SVal) : Bool :=
  match fromSamples .fixed o (itemsOf [x, y, x, y]), fromSamples .fixed o (itemsOf [x, y]) with
  | .ok a, .ok b => Spec.schemaEquiv a b
  | .error _, .error _ => true
  | _, _ => false


set_option maxRecDepth 1000000 in
theorem zoo_swap_repeat :
    zooOpts.all (fun o => zooVals.all fun x => zooVals.all fun y => swapOK o x y && repeatOK o x y) = true := by
  decide +kernel

end SaModel.Lemmas.C07
