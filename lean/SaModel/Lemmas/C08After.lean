import SaModel.Lemmas.C08Ensure
/-
C08 — the multi-pass exploration: `after k ty` is the tracer after `k` passes of `T::deserialize(TraceAny(..))` over the
type description `ty`, written down from the type.  An enum node explores one variant-pass per pass: with a budget of
`b` passes its first variants are complete, one variant is partially explored, the rest is untouched.
This file: the definition and its static facts (0 passes = fresh node; `passes ty` or more passes = `done`; fewer = not
complete).
-/
namespace SaModel.Lemmas.C08
open SaModel SaModel.Trace SaModel.Trace.Spec

mutual
/-- the tracer at position (`n`, `p`, `nl`) after `k` exploration passes over `ty` -/
def after (o : Options) (n p : String) (nl : Bool) : Nat → Ty → Tracer
  | 0, _ => .unknown n p nl
  | _ + 1, .unit => .primitive n p true .null none
  | _ + 1, .unitStruct _ => .primitive n p true .null none
  | _ + 1, .bool => .primitive n p nl .boolean none
  | _ + 1, .int t => .primitive n p nl (intDataType t) none
  | _ + 1, .f32 => .primitive n p nl .float32 none
  | _ + 1, .f64 => .primitive n p nl .float64 none
  | _ + 1, .char => .primitive n p nl .uint32 none
  | _ + 1, .string => .primitive n p nl o.string_type none
  | _ + 1, .bytes => .primitive n p nl .largeBinary none
  | k + 1, .option t => after o n p true (k + 1) t
  | k + 1, .newtypeStruct _ t => after o n p nl (k + 1) t
  | k + 1, .vec t => .list n p nl (after o "element" (childPath p "element") false (k + 1) t)
  | k + 1, .tuple ts => .tuple n p nl (afterTys o p (k + 1) 0 ts)
  | k + 1, .tupleStruct _ ts => .tuple n p nl (afterTys o p (k + 1) 0 ts)
  | k + 1, .map kt vt =>
    .map n p nl (after o "key" (childPath p "key") false (k + 1) kt) (after o "value" (childPath p "value") false (k + 1) vt)
  | k + 1, .struct _ fs => .struct n p nl (afterFields o p (k + 1) fs) .struct 0
  | k + 1, .enum _ vs => .union n p nl (afterVariants o p (k + 1) vs)
def afterTys (o : Options) (p : String) (k : Nat) : Nat → Tys → Tracers
  | _, .nil => .nil
  | i, .cons t r => .cons (after o (toString i) (childPath p (toString i)) false k t) (afterTys o p k (i + 1) r)
def afterFields (o : Options) (p : String) (k : Nat) : TyFields → TFields
  | .nil => .nil
  | .cons n t r => .cons n 0 (after o n (childPath p n) false k t) (afterFields o p k r)
/-- `b` = passes spent on this enum node so far: the first variant takes what it needs, the rest is handed on -/
def afterVariants (o : Options) (p : String) : Nat → TyVariants → Variants
  | _, .nil => .nil
  | b, .unit n r =>
    .present n (match b with
      | 0 => .unknown n (childPath p n) false
      | _ + 1 => .primitive n (childPath p n) true .null none) (afterVariants o p (b - 1) r)
  | b, .newtype n t r => .present n (after o n (childPath p n) false b t) (afterVariants o p (b - passes t) r)
  | b, .tuple n ts r =>
    .present n (match b with
      | 0 => .unknown n (childPath p n) false
      | b' + 1 => .tuple n (childPath p n) false (afterTys o (childPath p n) (b' + 1) 0 ts))
      (afterVariants o p (b - passesTys ts) r)
  | b, .struct n fs r =>
    .present n (match b with
      | 0 => .unknown n (childPath p n) false
      | b' + 1 => .struct n (childPath p n) false (afterFields o (childPath p n) (b' + 1) fs) .struct 0)
      (afterVariants o p (b - passesFields fs) r)
end

theorem after_zero (o : Options) (n p : String) (nl : Bool) (ty : Ty) : after o n p nl 0 ty = .unknown n p nl := by
  cases ty <;> simp only [after]

/-! ### how many passes a type needs is at least one (when it can be walked) -/

theorem passesTys_pos : ∀ ts : Tys, 1 ≤ passesTys ts
  | .nil => by simp only [passesTys]; omega
  | .cons t r => by simp only [passesTys]; have := passesTys_pos r; omega

theorem passesFields_pos : ∀ fs : TyFields, 1 ≤ passesFields fs
  | .nil => by simp only [passesFields]; omega
  | .cons _ t r => by simp only [passesFields]; have := passesFields_pos r; omega

mutual
theorem passes_pos (o : Options) : ∀ (ty : Ty) (p : String), walkable o p ty = true → 1 ≤ passes ty
  | .unit, _, _ | .unitStruct _, _, _ | .bool, _, _ | .int _, _, _ | .f32, _, _ | .f64, _, _ | .char, _, _
  | .string, _, _ | .bytes, _, _ => by simp only [passes]; omega
  | .option t, p, h | .newtypeStruct _ t, p, h => by
    simp only [walkable] at h; simp only [passes]; exact passes_pos o t p h
  | .vec t, p, h => by
    simp only [walkable, Bool.and_eq_true] at h; simp only [passes]; exact passes_pos o t _ h.2
  | .tuple ts, _, _ | .tupleStruct _ ts, _, _ => by simp only [passes]; exact passesTys_pos ts
  | .struct _ fs, _, _ => by simp only [passes]; exact passesFields_pos fs
  | .map k v, p, h => by
    simp only [walkable, Bool.and_eq_true] at h; simp only [passes]
    have := passes_pos o k _ h.1.2; omega
  | .enum _ vs, p, h => by
    simp only [walkable, Bool.and_eq_true, bne_iff_ne, ne_eq] at h; simp only [passes]
    exact passesVariants_pos o vs p h.2 h.1.2
theorem passesVariants_pos (o : Options) : ∀ (vs : TyVariants) (p : String), walkableVariants o p vs = true →
    vs.length ≠ 0 → 1 ≤ passesVariants vs
  | .nil, _, _, h => by simp only [TyVariants.length] at h; exact absurd rfl h
  | .unit _ r, _, _, _ => by simp only [passesVariants]; omega
  | .newtype n t r, p, h, _ => by
    simp only [walkableVariants, Bool.and_eq_true] at h; simp only [passesVariants]
    have := passes_pos o t _ h.1; omega
  | .tuple _ ts r, _, _, _ => by simp only [passesVariants]; have := passesTys_pos ts; omega
  | .struct _ fs r, _, _, _ => by simp only [passesVariants]; have := passesFields_pos fs; omega
end

/-! ### `passes ty` or more passes: the complete tracer -/

mutual
theorem after_done (o : Options) : ∀ (ty : Ty) (n p : String) (nl : Bool) (k : Nat), walkable o p ty = true →
    passes ty ≤ k + 1 → after o n p nl (k + 1) ty = done o n p nl ty
  | .unit, _, _, _, _, _, _ | .unitStruct _, _, _, _, _, _, _ | .bool, _, _, _, _, _, _ | .int _, _, _, _, _, _, _
  | .f32, _, _, _, _, _, _ | .f64, _, _, _, _, _, _ | .char, _, _, _, _, _, _ | .string, _, _, _, _, _, _
  | .bytes, _, _, _, _, _, _ => by simp only [after, done]
  | .option t, n, p, _, k, hw, hk => by
    simp only [walkable] at hw; simp only [passes] at hk; simp only [after, done]; exact after_done o t n p true k hw hk
  | .newtypeStruct _ t, n, p, nl, k, hw, hk => by
    simp only [walkable] at hw; simp only [passes] at hk; simp only [after, done]; exact after_done o t n p nl k hw hk
  | .vec t, n, p, nl, k, hw, hk => by
    simp only [walkable, Bool.and_eq_true] at hw; simp only [passes] at hk
    simp only [after, done, after_done o t _ _ _ k hw.2 hk]
  | .tuple ts, n, p, nl, k, hw, hk | .tupleStruct _ ts, n, p, nl, k, hw, hk => by
    simp only [walkable, Bool.and_eq_true] at hw; simp only [passes] at hk
    simp only [after, done, afterTys_done o ts p 0 k hw.2 hk]
  | .map kt vt, n, p, nl, k, hw, hk => by
    simp only [walkable, Bool.and_eq_true] at hw; simp only [passes] at hk
    simp only [after, done, after_done o kt _ _ _ k hw.1.2 (by omega), after_done o vt _ _ _ k hw.2 (by omega)]
  | .struct _ fs, n, p, nl, k, hw, hk => by
    simp only [walkable, Bool.and_eq_true] at hw; simp only [passes] at hk
    simp only [after, done, afterFields_done o fs p k hw.2 hk]
  | .enum _ vs, n, p, nl, k, hw, hk => by
    simp only [walkable, Bool.and_eq_true] at hw; simp only [passes] at hk
    simp only [after, done, afterVariants_done o vs p (k + 1) hw.2 hk]
theorem afterTys_done (o : Options) : ∀ (ts : Tys) (p : String) (i k : Nat), walkableTys o p i ts = true →
    passesTys ts ≤ k + 1 → afterTys o p (k + 1) i ts = doneTys o p i ts
  | .nil, _, _, _, _, _ => by simp only [afterTys, doneTys]
  | .cons t r, p, i, k, hw, hk => by
    simp only [walkableTys, Bool.and_eq_true] at hw; simp only [passesTys] at hk
    simp only [afterTys, doneTys, after_done o t _ _ _ k hw.1 (by omega), afterTys_done o r p (i + 1) k hw.2 (by omega)]
theorem afterFields_done (o : Options) : ∀ (fs : TyFields) (p : String) (k : Nat), walkableFields o p fs = true →
    passesFields fs ≤ k + 1 → afterFields o p (k + 1) fs = doneFields o p fs
  | .nil, _, _, _, _ => by simp only [afterFields, doneFields]
  | .cons _ t r, p, k, hw, hk => by
    simp only [walkableFields, Bool.and_eq_true] at hw; simp only [passesFields] at hk
    simp only [afterFields, doneFields, after_done o t _ _ _ k hw.1 (by omega), afterFields_done o r p k hw.2 (by omega)]
theorem afterVariants_done (o : Options) : ∀ (vs : TyVariants) (p : String) (b : Nat), walkableVariants o p vs = true →
    passesVariants vs ≤ b → afterVariants o p b vs = doneVariants o p vs
  | .nil, _, _, _, _ => by simp only [afterVariants, doneVariants]
  | .unit n r, p, b, hw, hb => by
    simp only [walkableVariants] at hw; simp only [passesVariants] at hb
    obtain ⟨b', rfl⟩ : ∃ b', b = b' + 1 := ⟨b - 1, by omega⟩
    simp only [afterVariants, doneVariants, afterVariants_done o r p _ hw (by omega : passesVariants r ≤ b' + 1 - 1)]
  | .newtype n t r, p, b, hw, hb => by
    simp only [walkableVariants, Bool.and_eq_true] at hw; simp only [passesVariants] at hb
    have hp := passes_pos o t _ hw.1
    obtain ⟨b', rfl⟩ : ∃ b', b = b' + 1 := ⟨b - 1, by omega⟩
    simp only [afterVariants, doneVariants, after_done o t _ _ _ b' hw.1 (by omega),
      afterVariants_done o r p _ hw.2 (by omega : passesVariants r ≤ b' + 1 - passes t)]
  | .tuple n ts r, p, b, hw, hb => by
    simp only [walkableVariants, Bool.and_eq_true] at hw; simp only [passesVariants] at hb
    have hp := passesTys_pos ts
    obtain ⟨b', rfl⟩ : ∃ b', b = b' + 1 := ⟨b - 1, by omega⟩
    simp only [afterVariants, doneVariants, afterTys_done o ts _ 0 b' hw.1.2 (by omega),
      afterVariants_done o r p _ hw.2 (by omega : passesVariants r ≤ b' + 1 - passesTys ts)]
  | .struct n fs r, p, b, hw, hb => by
    simp only [walkableVariants, Bool.and_eq_true] at hw; simp only [passesVariants] at hb
    have hp := passesFields_pos fs
    obtain ⟨b', rfl⟩ : ∃ b', b = b' + 1 := ⟨b - 1, by omega⟩
    simp only [afterVariants, doneVariants, afterFields_done o fs _ b' hw.1.2 (by omega),
      afterVariants_done o r p _ hw.2 (by omega : passesVariants r ≤ b' + 1 - passesFields fs)]
end

/-! ### fewer passes: not complete -/

mutual
theorem after_incomplete (o : Options) : ∀ (ty : Ty) (n p : String) (nl : Bool) (k : Nat),
    k < passes ty → (after o n p nl k ty).is_complete = false
  | ty, n, p, nl, 0, _ => by rw [after_zero]; rfl
  | .unit, _, _, _, k + 1, h | .unitStruct _, _, _, _, k + 1, h | .bool, _, _, _, k + 1, h | .int _, _, _, _, k + 1, h
  | .f32, _, _, _, k + 1, h | .f64, _, _, _, k + 1, h | .char, _, _, _, k + 1, h | .string, _, _, _, k + 1, h
  | .bytes, _, _, _, k + 1, h => by simp only [passes] at h; omega
  | .option t, n, p, _, k + 1, h => by
    simp only [passes] at h; simp only [after]; exact after_incomplete o t n p true (k + 1) h
  | .newtypeStruct _ t, n, p, nl, k + 1, h => by
    simp only [passes] at h; simp only [after]; exact after_incomplete o t n p nl (k + 1) h
  | .vec t, n, p, nl, k + 1, h => by
    simp only [passes] at h; simp only [after, Tracer.is_complete]; exact after_incomplete o t _ _ _ (k + 1) h
  | .tuple ts, n, p, nl, k + 1, h | .tupleStruct _ ts, n, p, nl, k + 1, h => by
    simp only [passes] at h; simp only [after, Tracer.is_complete]; exact afterTys_incomplete o ts p 0 k h
  | .map kt vt, n, p, nl, k + 1, h => by
    simp only [passes] at h; simp only [after, Tracer.is_complete]
    by_cases h1 : k + 1 < passes kt
    · rw [after_incomplete o kt _ _ _ (k + 1) h1]; rfl
    · rw [after_incomplete o vt _ _ _ (k + 1) (by omega)]; exact Bool.and_false _
  | .struct _ fs, n, p, nl, k + 1, h => by
    simp only [passes] at h; simp only [after, Tracer.is_complete]; exact afterFields_incomplete o fs p k h
  | .enum _ vs, n, p, nl, k + 1, h => by
    simp only [passes] at h; simp only [after, Tracer.is_complete]; exact afterVariants_incomplete o vs p (k + 1) h
theorem afterTys_incomplete (o : Options) : ∀ (ts : Tys) (p : String) (i k : Nat),
    k + 1 < passesTys ts → (afterTys o p (k + 1) i ts).all_complete = false
  | .nil, _, _, _, h => by simp only [passesTys] at h; omega
  | .cons t r, p, i, k, h => by
    simp only [passesTys] at h; simp only [afterTys, Tracers.all_complete]
    by_cases h1 : k + 1 < passes t
    · rw [after_incomplete o t _ _ _ (k + 1) h1]; rfl
    · rw [afterTys_incomplete o r p (i + 1) k (by omega)]; exact Bool.and_false _
theorem afterFields_incomplete (o : Options) : ∀ (fs : TyFields) (p : String) (k : Nat),
    k + 1 < passesFields fs → (afterFields o p (k + 1) fs).all_complete = false
  | .nil, _, _, h => by simp only [passesFields] at h; omega
  | .cons _ t r, p, k, h => by
    simp only [passesFields] at h; simp only [afterFields, TFields.all_complete]
    by_cases h1 : k + 1 < passes t
    · rw [after_incomplete o t _ _ _ (k + 1) h1]; rfl
    · rw [afterFields_incomplete o r p k (by omega)]; exact Bool.and_false _
theorem afterVariants_incomplete (o : Options) : ∀ (vs : TyVariants) (p : String) (b : Nat),
    b < passesVariants vs → (afterVariants o p b vs).all_complete = false
  | .nil, _, _, h => by simp only [passesVariants] at h; omega
  | .unit n r, p, b, h => by
    simp only [passesVariants] at h; simp only [afterVariants, Variants.all_complete]
    cases b with
    | zero => rfl
    | succ b' => rw [afterVariants_incomplete o r p _ (by omega : b' + 1 - 1 < passesVariants r)]; exact Bool.and_false _
  | .newtype n t r, p, b, h => by
    simp only [passesVariants] at h; simp only [afterVariants, Variants.all_complete]
    by_cases h1 : b < passes t
    · rw [after_incomplete o t _ _ _ b h1]; rfl
    · rw [afterVariants_incomplete o r p _ (by omega : b - passes t < passesVariants r)]; exact Bool.and_false _
  | .tuple n ts r, p, b, h => by
    simp only [passesVariants] at h; simp only [afterVariants, Variants.all_complete]
    cases b with
    | zero => rfl
    | succ b' =>
      by_cases h1 : b' + 1 < passesTys ts
      · simp only [Tracer.is_complete, afterTys_incomplete o ts _ 0 b' h1]; rfl
      · rw [afterVariants_incomplete o r p _ (by omega : b' + 1 - passesTys ts < passesVariants r)]
        exact Bool.and_false _
  | .struct n fs r, p, b, h => by
    simp only [passesVariants] at h; simp only [afterVariants, Variants.all_complete]
    cases b with
    | zero => rfl
    | succ b' =>
      by_cases h1 : b' + 1 < passesFields fs
      · simp only [Tracer.is_complete, afterFields_incomplete o fs _ b' h1]; rfl
      · rw [afterVariants_incomplete o r p _ (by omega : b' + 1 - passesFields fs < passesVariants r)]
        exact Bool.and_false _
end

end SaModel.Lemmas.C08
