import SaModel.Lemmas.C08Samples
/-
C08 — `from_samples` on the covering samples of an enum-free type = `from_type` (same fields, or the same error).
-/
namespace SaModel.Lemmas.C08
open SaModel SaModel.Trace SaModel.Trace.Spec

mutual
theorem enumFree_width : ∀ (ty : Ty), enumFree ty = true → width ty = 1
  | .unit, _ | .unitStruct _, _ | .bool, _ | .int _, _ | .f32, _ | .f64, _ | .char, _ | .string, _ | .bytes, _ => by
    simp only [width]
  | .option t, h | .vec t, h | .newtypeStruct _ t, h => by
    simp only [enumFree] at h; simp only [width]; exact enumFree_width t h
  | .tuple ts, h | .tupleStruct _ ts, h => by
    simp only [enumFree] at h; simp only [width]; exact enumFreeTys_width ts h
  | .map k v, h => by
    simp only [enumFree, Bool.and_eq_true] at h
    simp only [width, enumFree_width k h.1, enumFree_width v h.2, Nat.max_self]
  | .struct _ fs, h => by simp only [enumFree] at h; simp only [width]; exact enumFreeFields_width fs h
  | .enum _ _, h => by simp only [enumFree] at h; cases h
theorem enumFreeTys_width : ∀ (ts : Tys), enumFreeTys ts = true → widthTys ts = 1
  | .nil, _ => by simp only [widthTys]
  | .cons t r, h => by
    simp only [enumFreeTys, Bool.and_eq_true] at h
    simp only [widthTys, enumFree_width t h.1, enumFreeTys_width r h.2, Nat.max_self]
theorem enumFreeFields_width : ∀ (fs : TyFields), enumFreeFields fs = true → widthFields fs = 1
  | .nil, _ => by simp only [widthFields]
  | .cons _ t r, h => by
    simp only [enumFreeFields, Bool.and_eq_true] at h
    simp only [widthFields, enumFree_width t h.1, enumFreeFields_width r h.2, Nat.max_self]
end

mutual
theorem enumFree_passes : ∀ (ty : Ty), enumFree ty = true → passes ty = 1
  | .unit, _ | .unitStruct _, _ | .bool, _ | .int _, _ | .f32, _ | .f64, _ | .char, _ | .string, _ | .bytes, _ => by
    simp only [passes]
  | .option t, h | .vec t, h | .newtypeStruct _ t, h => by
    simp only [enumFree] at h; simp only [passes]; exact enumFree_passes t h
  | .tuple ts, h | .tupleStruct _ ts, h => by
    simp only [enumFree] at h; simp only [passes]; exact enumFreeTys_passes ts h
  | .map k v, h => by
    simp only [enumFree, Bool.and_eq_true] at h
    simp only [passes, enumFree_passes k h.1, enumFree_passes v h.2, Nat.max_self]
  | .struct _ fs, h => by simp only [enumFree] at h; simp only [passes]; exact enumFreeFields_passes fs h
  | .enum _ _, h => by simp only [enumFree] at h; cases h
theorem enumFreeTys_passes : ∀ (ts : Tys), enumFreeTys ts = true → passesTys ts = 1
  | .nil, _ => by simp only [passesTys]
  | .cons t r, h => by
    simp only [enumFreeTys, Bool.and_eq_true] at h
    simp only [passesTys, enumFree_passes t h.1, enumFreeTys_passes r h.2, Nat.max_self]
theorem enumFreeFields_passes : ∀ (fs : TyFields), enumFreeFields fs = true → passesFields fs = 1
  | .nil, _ => by simp only [passesFields]
  | .cons _ t r, h => by
    simp only [enumFreeFields, Bool.and_eq_true] at h
    simp only [passesFields, enumFree_passes t h.1, enumFreeFields_passes r h.2, Nat.max_self]
end

theorem to_schema_sdone (o : Options) (ty : Ty) (n p : String) (nl : Bool) :
    (sdone o n p nl ty).to_schema o = (done o n p nl ty).to_schema o := by
  unfold Tracer.to_schema; rw [sdone_to_field]

/-- `from_samples` on the covering samples of a walkable enum-free type with unique field names -/
theorem fromSamples_enumFree (c : Code) (o : Options) (ty : Ty) (hf : enumFree ty = true) (hu : uniqueNames ty = true)
    (hw : walkable o "$" ty = true) :
    fromSamples c o (covering ty) =
      if (o.overwrites.all fun kv => (tyPaths "$" ty).contains kv.1) = true then (done o "$" "$" false ty).to_schema o
      else fail "Overwritten fields could not be found" := by
  unfold fromSamples fromSamplesTracer covering
  rw [enumFree_width ty hf]
  simp only [List.range_one, List.map_cons, List.map_nil, absorbAll, Tracer.new, absorb_sdone c o 0 ty "$" "$" false hf hu hw,
    bind, Except.bind, Tracer.finish, Tracer.check, sdone_name, bne_self_eq_false, Bool.false_eq_true, if_false,
    Tracer.check_overwrites, sdone_paths, done_paths]
  cases (o.overwrites.all fun kv => (tyPaths "$" ty).contains kv.1)
  · rfl
  · simp only [if_true]; exact to_schema_sdone o ty "$" "$" false

theorem agree_enumFree (c : Code) (o : Options) (ty : Ty) (hf : enumFree ty = true) (hu : uniqueNames ty = true)
    (hw : walkable o "$" ty = true) (hb : 1 ≤ o.from_type_budget) :
    fromSamples c o (covering ty) = fromType c o ty := by
  rw [fromSamples_enumFree c o ty hf hu hw]
  unfold fromType
  rw [fromTypeTracer_walkable c o ty hw, enumFree_passes ty hf]
  simp only [hb, if_true]
  cases (o.overwrites.all fun kv => (tyPaths "$" ty).contains kv.1) <;> rfl

end SaModel.Lemmas.C08
