import SaModel.Lemmas.C08Loop
/-
C08 — agreement INCLUDING the error class.  `SameClass m s`: the table that pairs the error message `m` of the model of
the crate (the model's literals; no obligation ties them to the source: the driver's `documentedError`, end of this file,
classifies the crate's real message of every run by its fixed beginning, and `./check --wording`, SaModel/Wording/Trace.lean,
compares the literals with the source texts as a NOTE) with
the error `s` of the documented result `Spec.fromTypeSpec` / `Spec.mapping`.  `AgreeC a b`: both succeed with the same
value, or both fail with a Rust error of the same class; a panic never agrees.
Proved here: `done_to_field_c` (the field of the complete tracer agrees with the documented mapping including the error
class: null-only field, wrong overwrite name, enum without data, more than 128 variants) and `fromType_walkable_c`
(`from_type` of a type that can be walked agrees with `Spec.fromTypeSpec` including the class: budget, unknown overwrite
path, the four `to_field` errors, nullable root, root not a struct).
-/
namespace SaModel.Lemmas.C08
open SaModel SaModel.Trace SaModel.Trace.Spec

/-- message of the crate (left) — documented error (right) -/
inductive SameClass : String → String → Prop
  | budget : SameClass "Could not determine schema from the type after {budget} iterations" "budget"
  | unknownOverwrite : SameClass "Overwritten fields could not be found" "unknown overwrite path"
  | overwriteName : SameClass "Invalid name for overwritten field" "overwrite with a different name"
  | nullField : SameClass "Encountered null only field" "null field"
  | enumWithoutData : SameClass "Encountered enums without data" "enum without data"
  | tooManyVariants : SameClass "out of range integral type conversion attempted" "more than 128 variants"
  | rootNullable : SameClass "The root type cannot be nullable" "the root cannot be nullable"
  | rootNull : SameClass "No records found to determine schema" "the root must be a struct"
  | rootNotStruct : SameClass "Schema tracing is not directly supported for the root data type" "the root must be a struct"
  | depth : SameClass "Too deeply nested type detected" "not traceable from the type"
  | mapAsStruct : SameClass "Cannot trace maps as structs with `from_type`" "not traceable from the type"
  | emptyEnum : SameClass "Invalid variant index" "not traceable from the type"

/-- both succeed with the same value, or both fail with a (Rust) error of the same class; a panic never agrees -/
def AgreeC {α} (a b : R α) : Prop :=
  match a, b with
  | .ok x, .ok y => x = y
  | .error (.err m), .error (.err m') => SameClass m m'
  | _, _ => False

theorem AgreeC.ok {α} (x : α) : AgreeC (.ok x : R α) (.ok x) := rfl

theorem AgreeC.fail {α} {m m' : String} (h : SameClass m m') : AgreeC (fail m : R α) (fail m') := h

theorem AgreeC.agree {α} {a b : R α} (h : AgreeC a b) : Agree a b := by
  match a, b, h with
  | .ok x, .ok y, h => exact h
  | .error (.err _), .error (.err _), _ => trivial

theorem AgreeC.bind {α β} {a b : R α} {f g : α → R β} (h : AgreeC a b) (hf : ∀ x, AgreeC (f x) (g x)) :
    AgreeC (a >>= f) (b >>= g) := by
  match a, b, h with
  | .ok x, .ok y, h => cases h; exact hf x
  | .error (.err _), .error (.err _), h => exact h

/-- the overwrite lookup of the tracer and of the documented mapping are the same rule, with the same error -/
theorem AgreeC.overwrite (o : Options) (n p : String) {k k' : Unit → R Field} (h : AgreeC (k ()) (k' ())) :
    AgreeC (withOverwrite o n p k) (overwritten o n p k') := by
  unfold withOverwrite overwritten
  rw [get_overwrite_eq]
  cases hf : o.overwrites.find? (fun kv => kv.1 = p) with
  | none => exact h
  | some kv =>
    obtain ⟨key, f⟩ := kv
    simp only [Option.map]
    by_cases hn : f.name = n
    · simp [hn, AgreeC]
    · simp only [bne_iff_ne, ne_eq, hn, not_false_eq_true, if_true, if_false]
      exact AgreeC.fail .overwriteName

/-- a `Null` primitive against the documented null field -/
theorem agree_null_c (o : Options) (n : String) :
    AgreeC (if (!o.allow_null_fields && isNull .null) = true then fail "Encountered null only field"
      else if isNull .null = true then .ok (Field.mk n .null true [])
      else if (isLargeUtf8 .null || isUtf8 .null) = true then
        if (!o.string_dictionary_encoding) = true then .ok (.mk n .null true [])
        else .ok (default_dictionary_field n true o.string_type)
      else .ok (.mk n .null true [])) (nullField o n) := by
  unfold nullField
  cases o.allow_null_fields
  · simp only [Bool.not_false, isNull, Bool.and_self, if_true, Bool.false_eq_true, if_false]
    exact AgreeC.fail .nullField
  · simp [isNull, AgreeC]

/-- a non-null, non-string primitive -/
theorem agree_prim_c (o : Options) (n : String) (nl : Bool) (dt : DataType) (h1 : isNull dt = false)
    (h2 : isLargeUtf8 dt = false) (h3 : isUtf8 dt = false) :
    AgreeC (if (!o.allow_null_fields && isNull dt) = true then fail "Encountered null only field"
      else if isNull dt = true then .ok (Field.mk n .null true [])
      else if (isLargeUtf8 dt || isUtf8 dt) = true then
        if (!o.string_dictionary_encoding) = true then .ok (.mk n dt nl [])
        else .ok (default_dictionary_field n nl o.string_type)
      else .ok (.mk n dt nl (match (none : Option Strategy) with | some s => strategyMeta s | none => [])))
      (.ok (.mk n dt nl [])) := by
  simp [h1, h2, h3, AgreeC]

theorem agree_string_c (o : Options) (n : String) (nl : Bool) :
    AgreeC (if (!o.allow_null_fields && isNull o.string_type) = true then fail "Encountered null only field"
      else if isNull o.string_type = true then .ok (Field.mk n .null true [])
      else if (isLargeUtf8 o.string_type || isUtf8 o.string_type) = true then
        if (!o.string_dictionary_encoding) = true then .ok (.mk n o.string_type nl [])
        else .ok (default_dictionary_field n nl o.string_type)
      else .ok (.mk n o.string_type nl (match (none : Option Strategy) with | some s => strategyMeta s | none => [])))
      (.ok (stringField o n nl)) := by
  unfold stringField Options.string_type default_dictionary_field
  cases o.string_as_large_utf8 <;> cases o.string_dictionary_encoding <;> simp [isNull, isLargeUtf8, isUtf8, AgreeC]

mutual
theorem done_to_field_c (o : Options) : ∀ (ty : Ty) (n p : String) (nl : Bool),
    AgreeC ((done o n p nl ty).to_field o) (mapping o n p nl ty)
  | .unit, n, p, _ | .unitStruct _, n, p, _ => by
    simp only [done, Tracer.to_field, mapping]
    exact AgreeC.overwrite o n p (agree_null_c o n)
  | .bool, n, p, nl | .f32, n, p, nl | .f64, n, p, nl | .char, n, p, nl | .bytes, n, p, nl => by
    simp only [done, Tracer.to_field, mapping]
    exact AgreeC.overwrite o n p (agree_prim_c o n nl _ rfl rfl rfl)
  | .int t, n, p, nl => by
    simp only [done, Tracer.to_field, mapping]
    exact AgreeC.overwrite o n p (agree_prim_c o n nl _ (by cases t <;> rfl) (by cases t <;> rfl) (by cases t <;> rfl))
  | .string, n, p, nl => by
    simp only [done, Tracer.to_field, mapping]
    exact AgreeC.overwrite o n p (agree_string_c o n nl)
  | .option t, n, p, _ => by simp only [done, mapping]; exact done_to_field_c o t n p true
  | .newtypeStruct _ t, n, p, nl => by simp only [done, mapping]; exact done_to_field_c o t n p nl
  | .vec t, n, p, nl => by
    simp only [done, Tracer.to_field, mapping]
    exact AgreeC.overwrite o n p (AgreeC.bind (done_to_field_c o t _ _ _) fun _ => AgreeC.ok _)
  | .tuple ts, n, p, nl | .tupleStruct _ ts, n, p, nl => by
    simp only [done, Tracer.to_field, mapping, tupleMeta_eq]
    exact AgreeC.overwrite o n p (AgreeC.bind (doneTys_to_fields_c o ts p 0) fun _ => AgreeC.ok _)
  | .map k v, n, p, nl => by
    simp only [done, Tracer.to_field, mapping]
    exact AgreeC.overwrite o n p (AgreeC.bind (done_to_field_c o k _ _ _) fun _ =>
      AgreeC.bind (done_to_field_c o v _ _ _) fun _ => AgreeC.ok _)
  | .struct _ fs, n, p, nl => by
    simp only [done, Tracer.to_field, mapping]
    exact AgreeC.overwrite o n p (AgreeC.bind (doneFields_to_fields_c o fs p) fun _ => AgreeC.ok _)
  | .enum _ vs, n, p, nl => by
    simp only [done, Tracer.to_field, mapping, doneVariants_without_data]
    refine AgreeC.overwrite o n p ?_
    split
    · exact AgreeC.ok _
    · split
      · exact AgreeC.fail .enumWithoutData
      · exact AgreeC.bind (doneVariants_to_fields_c o vs p 0) fun _ => AgreeC.ok _
theorem doneTys_to_fields_c (o : Options) : ∀ (ts : Tys) (p : String) (i : Nat),
    AgreeC ((doneTys o p i ts).to_fields o) (mappingTys o p i ts)
  | .nil, _, _ => by simp only [doneTys, Tracers.to_fields, mappingTys]; exact AgreeC.ok _
  | .cons t r, p, i => by
    simp only [doneTys, Tracers.to_fields, mappingTys]
    exact AgreeC.bind (done_to_field_c o t _ _ _) fun _ => AgreeC.bind (doneTys_to_fields_c o r p (i + 1)) fun _ => AgreeC.ok _
theorem doneFields_to_fields_c (o : Options) : ∀ (fs : TyFields) (p : String),
    AgreeC ((doneFields o p fs).to_fields o) (mappingFields o p fs)
  | .nil, _ => by simp only [doneFields, TFields.to_fields, mappingFields]; exact AgreeC.ok _
  | .cons n t r, p => by
    simp only [doneFields, TFields.to_fields, mappingFields]
    exact AgreeC.bind (done_to_field_c o t _ _ _) fun _ => AgreeC.bind (doneFields_to_fields_c o r p) fun _ => AgreeC.ok _
theorem doneVariants_to_fields_c (o : Options) : ∀ (vs : TyVariants) (p : String) (i : Nat),
    AgreeC ((doneVariants o p vs).to_fields o i) (mappingVariants o p i vs)
  | .nil, _, _ => by simp only [doneVariants, Variants.to_fields, mappingVariants]; exact AgreeC.ok _
  | .unit n r, p, i => by
    simp only [doneVariants, Variants.to_fields, mappingVariants, Tracer.to_field]
    split
    · exact AgreeC.fail .tooManyVariants
    · exact AgreeC.bind (AgreeC.overwrite o n _ (agree_null_c o n)) fun _ =>
        AgreeC.bind (doneVariants_to_fields_c o r p (i + 1)) fun _ => AgreeC.ok _
  | .newtype n t r, p, i => by
    simp only [doneVariants, Variants.to_fields, mappingVariants]
    split
    · exact AgreeC.fail .tooManyVariants
    · exact AgreeC.bind (done_to_field_c o t _ _ _) fun _ =>
        AgreeC.bind (doneVariants_to_fields_c o r p (i + 1)) fun _ => AgreeC.ok _
  | .tuple n ts r, p, i => by
    simp only [doneVariants, Variants.to_fields, mappingVariants, Tracer.to_field, tupleMeta_eq]
    split
    · exact AgreeC.fail .tooManyVariants
    · exact AgreeC.bind (AgreeC.overwrite o n _ (AgreeC.bind (doneTys_to_fields_c o ts _ 0) fun _ => AgreeC.ok _)) fun _ =>
        AgreeC.bind (doneVariants_to_fields_c o r p (i + 1)) fun _ => AgreeC.ok _
  | .struct n fs r, p, i => by
    simp only [doneVariants, Variants.to_fields, mappingVariants, Tracer.to_field]
    split
    · exact AgreeC.fail .tooManyVariants
    · exact AgreeC.bind (AgreeC.overwrite o n _ (AgreeC.bind (doneFields_to_fields_c o fs _) fun _ => AgreeC.ok _)) fun _ =>
        AgreeC.bind (doneVariants_to_fields_c o r p (i + 1)) fun _ => AgreeC.ok _
end


/-- the tails of `to_schema` and of `Spec.fromTypeSpec` agree, with the same error class -/
theorem to_schema_tail_c (root : Field) :
    AgreeC (if root.nullable = true then fail "The root type cannot be nullable"
      else match root.dataType with
        | .struct children => .ok children.toList
        | .null => fail "No records found to determine schema"
        | _ => fail "Schema tracing is not directly supported for the root data type")
      (if root.nullable = true then fail "the root cannot be nullable"
      else match root.dataType with
        | .struct children => .ok children.toList
        | _ => fail "the root must be a struct" : R (List Field)) := by
  cases root.nullable
  · simp only [Bool.false_eq_true, if_false]
    cases root.dataType <;> first | exact AgreeC.ok _ | exact AgreeC.fail .rootNull | exact AgreeC.fail .rootNotStruct
  · exact AgreeC.fail .rootNullable

/-- `SerdeArrowSchema::from_type` of a type that can be walked is the documented result, error class included -/
theorem fromType_walkable_c (c : Code) (o : Options) (ty : Ty) (hw : walkable o "$" ty = true) :
    AgreeC (fromType c o ty) (fromTypeSpec o ty) := by
  unfold fromType fromTypeSpec
  rw [fromTypeTracer_walkable c o ty hw]
  simp only [hw, Bool.not_true, Bool.false_eq_true, if_false]
  by_cases hb : passes ty ≤ o.from_type_budget
  · have hb' : ¬ passes ty > o.from_type_budget := by omega
    simp only [hb, hb', if_true, if_false]
    cases ho : (o.overwrites.all fun kv => (tyPaths "$" ty).contains kv.1)
    · exact AgreeC.fail .unknownOverwrite
    · simp only [if_true, Bool.not_true, Bool.false_eq_true, if_false, bind, Except.bind, Tracer.to_schema]
      exact AgreeC.bind (done_to_field_c o ty "$" "$" false) to_schema_tail_c
  · have hb' : passes ty > o.from_type_budget := by omega
    simp only [hb, hb', if_true, if_false]
    exact AgreeC.fail .budget

/-- the documented error (the right column of `SameClass`) a message of the crate belongs to, by its fixed beginning —
executable, for the correspondence driver (string operations do not reduce in the kernel, so the theorems use the table
`SameClass` and the driver checks on every failing case that this function sends the model's message to the error of
`Spec.fromTypeSpec`) -/
def documentedError (m : String) : String :=
  if m.startsWith "Could not determine schema from the type after" then "budget"
  else if m.startsWith "Overwritten fields could not be found" then "unknown overwrite path"
  else if m.startsWith "Invalid name for overwritten field" then "overwrite with a different name"
  else if m.startsWith "Encountered null only field" then "null field"
  else if m.startsWith "Encountered enums without data" then "enum without data"
  else if m.startsWith "out of range integral type conversion attempted" then "more than 128 variants"
  else if m.startsWith "TryFromIntError: out of range integral type conversion attempted" then "more than 128 variants"
  else if m.startsWith "The root type cannot be nullable" then "the root cannot be nullable"
  else if m.startsWith "No records found to determine schema" then "the root must be a struct"
  else if m.startsWith "Schema tracing is not directly supported for the root data type" then "the root must be a struct"
  else if m.startsWith "Too deeply nested type detected" then "not traceable from the type"
  else if m.startsWith "Cannot trace maps as structs with `from_type`" then "not traceable from the type"
  else if m.startsWith "Invalid variant index" then "not traceable from the type"
  else "other"

end SaModel.Lemmas.C08
