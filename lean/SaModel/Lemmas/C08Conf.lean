import SaModel.Lemmas.C08StepBase
/-
C08 — types that cannot be walked (a container beyond the depth limit — what a recursive type unrolls to —, a map
under `map_as_struct`, an enum without variants): `from_type` never succeeds and never panics.
`Conf o p ty t`: the tracer `t` conforms to the type description `ty` at path `p` — an invariant of the exploration
passes (`explore_conf`) that holds of a fresh node and under which a COMPLETE tracer witnesses that the type can be
walked (`conf_complete_walkable`).
-/
namespace SaModel.Lemmas.C08
open SaModel SaModel.Trace SaModel.Trace.Spec

/-- a fresh node at path `p` -/
def IsFresh (p : String) (t : Tracer) : Prop := ∃ n nl, t = .unknown n p nl

mutual
def Conf (o : Options) (p : String) : Ty → Tracer → Prop
  | .option t, tr => Conf o p t tr
  | .newtypeStruct _ t, tr => Conf o p t tr
  | .vec t, tr => IsFresh p tr ∨
    ∃ n nl i, tr = .list n p nl i ∧ tooDeep p = false ∧ Conf o (childPath p "element") t i
  | .tuple ts, tr => IsFresh p tr ∨ ∃ n nl fts, tr = .tuple n p nl fts ∧ tooDeep p = false ∧ ConfTys o p 0 ts fts
  | .tupleStruct _ ts, tr => IsFresh p tr ∨ ∃ n nl fts, tr = .tuple n p nl fts ∧ tooDeep p = false ∧ ConfTys o p 0 ts fts
  | .map k v, tr => IsFresh p tr ∨
    ∃ n nl kt vt, tr = .map n p nl kt vt ∧ o.map_as_struct = false ∧ tooDeep p = false ∧
      Conf o (childPath p "key") k kt ∧ Conf o (childPath p "value") v vt
  | .struct _ fs, tr => IsFresh p tr ∨
    ∃ n nl tfs s, tr = .struct n p nl tfs .struct s ∧ tooDeep p = false ∧ ConfFields o p fs tfs
  | .enum _ vs, tr => IsFresh p tr ∨
    ∃ n nl V, tr = .union n p nl V ∧ tooDeep p = false ∧ vs.length ≠ 0 ∧ ConfVariants o p vs V
  | _, _ => True
def ConfTys (o : Options) (p : String) : Nat → Tys → Tracers → Prop
  | _, .nil, trs => trs = .nil
  | i, .cons t r, trs => ∃ tr rest, trs = .cons tr rest ∧ Conf o (childPath p (toString i)) t tr ∧ ConfTys o p (i + 1) r rest
def ConfFields (o : Options) (p : String) : TyFields → TFields → Prop
  | .nil, tfs => tfs = .nil
  | .cons fname t r, tfs => ∃ n l tr rest, tfs = .cons n l tr rest ∧ Conf o (childPath p fname) t tr ∧ ConfFields o p r rest
def ConfVariants (o : Options) (p : String) : TyVariants → Variants → Prop
  | .nil, V => V = .nil
  | .unit _ r, V => ∃ vn vt R, V = .present vn vt R ∧ ConfVariants o p r R
  | .newtype n t r, V => ∃ vn vt R, V = .present vn vt R ∧ Conf o (childPath p n) t vt ∧ ConfVariants o p r R
  | .tuple n ts r, V => ∃ vn vt R, V = .present vn vt R ∧
    (IsFresh (childPath p n) vt ∨ ∃ n' nl fts, vt = .tuple n' (childPath p n) nl fts ∧ tooDeep (childPath p n) = false ∧
      ConfTys o (childPath p n) 0 ts fts) ∧ ConfVariants o p r R
  | .struct n fs r, V => ∃ vn vt R, V = .present vn vt R ∧
    (IsFresh (childPath p n) vt ∨ ∃ n' nl tfs s, vt = .struct n' (childPath p n) nl tfs .struct s ∧
      tooDeep (childPath p n) = false ∧ ConfFields o (childPath p n) fs tfs) ∧ ConfVariants o p r R
end

/-- outcome of a pass that preserves `P`: a value satisfying `P`, or a Rust error — never a panic -/
def Pres {α} (r : R α) (P : α → Prop) : Prop :=
  match r with
  | .ok x => P x
  | .error (.err _) => True
  | _ => False

theorem Pres.ok {α} {P : α → Prop} {x : α} (h : P x) : Pres (.ok x : R α) P := h

theorem Pres.fail {α} {P : α → Prop} (m : String) : Pres (fail m : R α) P := trivial

theorem Pres.bind {α β} {a : R α} {f : α → R β} {P : α → Prop} {Q : β → Prop} (h : Pres a P)
    (hf : ∀ x, P x → Pres (f x) Q) : Pres (a >>= f) Q := by
  match a, h with
  | .ok x, h => exact hf x h
  | .error (.err _), _ => trivial

theorem Pres.map {α β} {a : R α} {f : α → β} {P : α → Prop} {Q : β → Prop} (h : Pres a P)
    (hf : ∀ x, P x → Q (f x)) : Pres (a.map f) Q := by
  match a, h with
  | .ok x, h => exact hf x h
  | .error (.err _), _ => trivial

/-! ### a fresh node conforms to every type -/

theorem conf_fresh (o : Options) : ∀ (ty : Ty) (n p : String) (nl : Bool), Conf o p ty (.unknown n p nl)
  | .unit, _, _, _ | .unitStruct _, _, _, _ | .bool, _, _, _ | .int _, _, _, _ | .f32, _, _, _ | .f64, _, _, _
  | .char, _, _, _ | .string, _, _, _ | .bytes, _, _, _ => by simp only [Conf]
  | .option t, n, p, nl | .newtypeStruct _ t, n, p, nl => by simp only [Conf]; exact conf_fresh o t n p nl
  | .vec _, n, p, nl | .tuple _, n, p, nl | .tupleStruct _ _, n, p, nl | .map _ _, n, p, nl | .struct _ _, n, p, nl
  | .enum _ _, n, p, nl => by simp only [Conf]; exact Or.inl ⟨n, nl, rfl⟩

theorem confTys_fresh (o : Options) (p : String) : ∀ (ts : Tys) (i : Nat), ConfTys o p i ts (afterTys o p 0 i ts)
  | .nil, _ => by simp only [afterTys, ConfTys]
  | .cons t r, i => by
    simp only [afterTys, ConfTys, after_zero]
    exact ⟨_, _, rfl, conf_fresh o t _ _ _, confTys_fresh o p r (i + 1)⟩

theorem confFields_fresh (o : Options) (p : String) : ∀ (fs : TyFields), ConfFields o p fs (afterFields o p 0 fs)
  | .nil => by simp only [afterFields, ConfFields]
  | .cons n t r => by
    simp only [afterFields, ConfFields, after_zero]
    exact ⟨_, _, _, _, rfl, conf_fresh o t _ _ _, confFields_fresh o p r⟩

theorem confVariants_fresh (o : Options) (p : String) : ∀ (vs : TyVariants), ConfVariants o p vs (afterVariants o p 0 vs)
  | .nil => by simp only [afterVariants, ConfVariants]
  | .unit n r => by
    simp only [afterVariants, ConfVariants]; exact ⟨_, _, _, rfl, confVariants_fresh o p r⟩
  | .newtype n t r => by
    simp only [afterVariants, ConfVariants, after_zero, Nat.zero_sub]
    exact ⟨_, _, _, rfl, conf_fresh o t _ _ _, confVariants_fresh o p r⟩
  | .tuple n ts r => by
    simp only [afterVariants, ConfVariants, Nat.zero_sub]
    exact ⟨_, _, _, rfl, Or.inl ⟨_, _, rfl⟩, confVariants_fresh o p r⟩
  | .struct n fs r => by
    simp only [afterVariants, ConfVariants, Nat.zero_sub]
    exact ⟨_, _, _, rfl, Or.inl ⟨_, _, rfl⟩, confVariants_fresh o p r⟩

/-- `mark_nullable` (an `Option` in the type) keeps conformance -/
theorem conf_set_nullable (o : Options) (b : Bool) : ∀ (ty : Ty) (p : String) (t : Tracer),
    Conf o p ty t → Conf o p ty (t.set_nullable b)
  | .unit, _, _, _ | .unitStruct _, _, _, _ | .bool, _, _, _ | .int _, _, _, _ | .f32, _, _, _ | .f64, _, _, _
  | .char, _, _, _ | .string, _, _, _ | .bytes, _, _, _ => by simp only [Conf]
  | .option t, p, tr, h | .newtypeStruct _ t, p, tr, h => by
    simp only [Conf] at h ⊢; exact conf_set_nullable o b t p tr h
  | .vec _, p, tr, h => by
    simp only [Conf] at h ⊢
    rcases h with ⟨n, nl, rfl⟩ | ⟨n, nl, i, rfl, h⟩
    · exact Or.inl ⟨n, b, rfl⟩
    · exact Or.inr ⟨n, b, i, rfl, h⟩
  | .tuple _, p, tr, h | .tupleStruct _ _, p, tr, h => by
    simp only [Conf] at h ⊢
    rcases h with ⟨n, nl, rfl⟩ | ⟨n, nl, i, rfl, h⟩
    · exact Or.inl ⟨n, b, rfl⟩
    · exact Or.inr ⟨n, b, i, rfl, h⟩
  | .map _ _, p, tr, h => by
    simp only [Conf] at h ⊢
    rcases h with ⟨n, nl, rfl⟩ | ⟨n, nl, k, v, rfl, h⟩
    · exact Or.inl ⟨n, b, rfl⟩
    · exact Or.inr ⟨n, b, k, v, rfl, h⟩
  | .struct _ _, p, tr, h => by
    simp only [Conf] at h ⊢
    rcases h with ⟨n, nl, rfl⟩ | ⟨n, nl, tfs, s, rfl, h⟩
    · exact Or.inl ⟨n, b, rfl⟩
    · exact Or.inr ⟨n, b, tfs, s, rfl, h⟩
  | .enum _ _, p, tr, h => by
    simp only [Conf] at h ⊢
    rcases h with ⟨n, nl, rfl⟩ | ⟨n, nl, V, rfl, h⟩
    · exact Or.inl ⟨n, b, rfl⟩
    · exact Or.inr ⟨n, b, V, rfl, h⟩

theorem confTys_length (o : Options) (p : String) : ∀ (ts : Tys) (i : Nat) (fts : Tracers),
    ConfTys o p i ts fts → fts.length = ts.length
  | .nil, _, _, h => by simp only [ConfTys] at h; subst h; rfl
  | .cons t r, i, _, h => by
    simp only [ConfTys] at h
    obtain ⟨tr, rest, rfl, _, h2⟩ := h
    simp only [Tracers.length, Tys.length, confTys_length o p r (i + 1) rest h2]

/-! ### a complete conforming tracer witnesses that the type can be walked -/

mutual
theorem conf_complete_walkable (o : Options) : ∀ (ty : Ty) (p : String) (t : Tracer),
    Conf o p ty t → t.is_complete = true → walkable o p ty = true
  | .unit, _, _, _, _ | .unitStruct _, _, _, _, _ | .bool, _, _, _, _ | .int _, _, _, _, _ | .f32, _, _, _, _
  | .f64, _, _, _, _ | .char, _, _, _, _ | .string, _, _, _, _ | .bytes, _, _, _, _ => by simp only [walkable]
  | .option t, p, tr, h, hc | .newtypeStruct _ t, p, tr, h, hc => by
    simp only [Conf] at h; simp only [walkable]; exact conf_complete_walkable o t p tr h hc
  | .vec t, p, tr, h, hc => by
    simp only [Conf] at h
    rcases h with ⟨n, nl, rfl⟩ | ⟨n, nl, i, rfl, hd, h⟩
    · simp only [Tracer.is_complete] at hc; cases hc
    · simp only [Tracer.is_complete] at hc
      simp only [walkable, hd, conf_complete_walkable o t _ i h hc, Bool.not_false, Bool.and_self]
  | .tuple ts, p, tr, h, hc | .tupleStruct _ ts, p, tr, h, hc => by
    simp only [Conf] at h
    rcases h with ⟨n, nl, rfl⟩ | ⟨n, nl, fts, rfl, hd, h⟩
    · simp only [Tracer.is_complete] at hc; cases hc
    · simp only [Tracer.is_complete] at hc
      simp only [walkable, hd, confTys_complete_walkable o ts p 0 fts h hc, Bool.not_false, Bool.and_self]
  | .map k v, p, tr, h, hc => by
    simp only [Conf] at h
    rcases h with ⟨n, nl, rfl⟩ | ⟨n, nl, kt, vt, rfl, hm, hd, hk, hv⟩
    · simp only [Tracer.is_complete] at hc; cases hc
    · simp only [Tracer.is_complete, Bool.and_eq_true] at hc
      simp only [walkable, hd, hm, conf_complete_walkable o k _ kt hk hc.1, conf_complete_walkable o v _ vt hv hc.2,
        Bool.not_false, Bool.and_self]
  | .struct _ fs, p, tr, h, hc => by
    simp only [Conf] at h
    rcases h with ⟨n, nl, rfl⟩ | ⟨n, nl, tfs, s, rfl, hd, h⟩
    · simp only [Tracer.is_complete] at hc; cases hc
    · simp only [Tracer.is_complete] at hc
      simp only [walkable, hd, confFields_complete_walkable o fs p tfs h hc, Bool.not_false, Bool.and_self]
  | .enum _ vs, p, tr, h, hc => by
    simp only [Conf] at h
    rcases h with ⟨n, nl, rfl⟩ | ⟨n, nl, V, rfl, hd, hne, h⟩
    · simp only [Tracer.is_complete] at hc; cases hc
    · simp only [Tracer.is_complete] at hc
      have : (vs.length != 0) = true := by simp only [bne_iff_ne, ne_eq]; exact hne
      simp only [walkable, hd, this, confVariants_complete_walkable o vs p V h hc, Bool.not_false, Bool.and_self]
theorem confTys_complete_walkable (o : Options) : ∀ (ts : Tys) (p : String) (i : Nat) (fts : Tracers),
    ConfTys o p i ts fts → fts.all_complete = true → walkableTys o p i ts = true
  | .nil, _, _, _, _, _ => by simp only [walkableTys]
  | .cons t r, p, i, _, h, hc => by
    simp only [ConfTys] at h
    obtain ⟨tr, rest, rfl, h1, h2⟩ := h
    simp only [Tracers.all_complete, Bool.and_eq_true] at hc
    simp only [walkableTys, conf_complete_walkable o t _ tr h1 hc.1, confTys_complete_walkable o r p (i + 1) rest h2 hc.2,
      Bool.and_self]
theorem confFields_complete_walkable (o : Options) : ∀ (fs : TyFields) (p : String) (tfs : TFields),
    ConfFields o p fs tfs → tfs.all_complete = true → walkableFields o p fs = true
  | .nil, _, _, _, _ => by simp only [walkableFields]
  | .cons fname t r, p, _, h, hc => by
    simp only [ConfFields] at h
    obtain ⟨n, l, tr, rest, rfl, h1, h2⟩ := h
    simp only [TFields.all_complete, Bool.and_eq_true] at hc
    simp only [walkableFields, conf_complete_walkable o t _ tr h1 hc.1, confFields_complete_walkable o r p rest h2 hc.2,
      Bool.and_self]
theorem confVariants_complete_walkable (o : Options) : ∀ (vs : TyVariants) (p : String) (V : Variants),
    ConfVariants o p vs V → V.all_complete = true → walkableVariants o p vs = true
  | .nil, _, _, _, _ => by simp only [walkableVariants]
  | .unit _ r, p, _, h, hc => by
    simp only [ConfVariants] at h
    obtain ⟨vn, vt, R, rfl, h2⟩ := h
    simp only [Variants.all_complete, Bool.and_eq_true] at hc
    simp only [walkableVariants, confVariants_complete_walkable o r p R h2 hc.2]
  | .newtype n t r, p, _, h, hc => by
    simp only [ConfVariants] at h
    obtain ⟨vn, vt, R, rfl, h1, h2⟩ := h
    simp only [Variants.all_complete, Bool.and_eq_true] at hc
    simp only [walkableVariants, conf_complete_walkable o t _ vt h1 hc.1, confVariants_complete_walkable o r p R h2 hc.2,
      Bool.and_self]
  | .tuple n ts r, p, _, h, hc => by
    simp only [ConfVariants] at h
    obtain ⟨vn, vt, R, rfl, h1, h2⟩ := h
    simp only [Variants.all_complete, Bool.and_eq_true] at hc
    rcases h1 with ⟨n', nl, rfl⟩ | ⟨n', nl, fts, rfl, hd, h1⟩
    · have := hc.1; simp only [Tracer.is_complete] at this; cases this
    · have h3 := hc.1; simp only [Tracer.is_complete] at h3
      simp only [walkableVariants, hd, confTys_complete_walkable o ts _ 0 fts h1 h3,
        confVariants_complete_walkable o r p R h2 hc.2, Bool.not_false, Bool.and_self]
  | .struct n fs r, p, _, h, hc => by
    simp only [ConfVariants] at h
    obtain ⟨vn, vt, R, rfl, h1, h2⟩ := h
    simp only [Variants.all_complete, Bool.and_eq_true] at hc
    rcases h1 with ⟨n', nl, rfl⟩ | ⟨n', nl, tfs, s, rfl, hd, h1⟩
    · have := hc.1; simp only [Tracer.is_complete] at this; cases this
    · have h3 := hc.1; simp only [Tracer.is_complete] at h3
      simp only [walkableVariants, hd, confFields_complete_walkable o fs _ tfs h1 h3,
        confVariants_complete_walkable o r p R h2 hc.2, Bool.not_false, Bool.and_self]
end

end SaModel.Lemmas.C08
