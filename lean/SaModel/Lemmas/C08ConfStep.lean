import SaModel.Lemmas.C08Conf
/-
C08 — `explore_conf`: an exploration pass over a tracer that conforms to the type ends in a tracer that conforms to the
type, or in a Rust error; it never panics.  Consequence (`loop_not_walkable`): for a type that cannot be walked the loop
of `from_type` ends in an error.
-/
namespace SaModel.Lemmas.C08
open SaModel SaModel.Trace SaModel.Trace.Spec

theorem Pres.mono {α} {r : R α} {P Q : α → Prop} (h : Pres r P) (hpq : ∀ x, P x → Q x) : Pres r Q := by
  match r, h with
  | .ok x, h => exact hpq x h
  | .error (.err _), _ => trivial

theorem Pres.ite {α} {P : α → Prop} {c : Prop} [Decidable c] {a b : R α} (ha : Pres a P) (hb : Pres b P) :
    Pres (if c then a else b) P := by
  split <;> assumption

theorem coerce_pres (o : Options) (a : DataType) (nl : Bool) (s : Option Strategy) (b : DataType) (s' : Option Strategy) :
    Pres (coerce_primitive_type o a nl s b s') (fun _ => True) := by
  unfold coerce_primitive_type
  repeat (first | exact Pres.ok trivial | exact Pres.fail _ | apply Pres.ite)

theorem ensure_primitive_pres (o : Options) (t : Tracer) (dt : DataType) (st : Option Strategy) :
    Pres (t.ensure_primitive_with_strategy o dt st) (fun _ => True) := by
  cases t with
  | unknown n p nl => trivial
  | primitive n p nl ty s =>
    simp only [Tracer.ensure_primitive_with_strategy]
    exact Pres.bind (coerce_pres o ty nl s dt st) fun _ _ => trivial
  | list n p nl i => simp only [Tracer.ensure_primitive_with_strategy]; split <;> trivial
  | map n p nl k v => simp only [Tracer.ensure_primitive_with_strategy]; split <;> trivial
  | struct n p nl fs m s => simp only [Tracer.ensure_primitive_with_strategy]; split <;> trivial
  | tuple n p nl ts => simp only [Tracer.ensure_primitive_with_strategy]; split <;> trivial
  | union n p nl vs => simp only [Tracer.ensure_primitive_with_strategy]; split <;> trivial

/-! ### container nodes: the pass is the pass over the children -/

theorem explore_vec_node (c : Code) (o : Options) (n p : String) (nl : Bool) (i : Tracer) (t : Ty)
    (hd : tooDeep p = false) :
    explore c o (.list n p nl i) (.vec t) = (explore c o i t >>= fun i' => .ok (.list n p nl i')) := by
  simp only [explore, ensure_list_list n p nl _ hd, bind, Except.bind]

theorem explore_map_node (c : Code) (o : Options) (n p : String) (nl : Bool) (kt vt : Tracer) (k v : Ty)
    (hm : o.map_as_struct = false) (hd : tooDeep p = false) :
    explore c o (.map n p nl kt vt) (.map k v) =
      (explore c o kt k >>= fun kt' => explore c o vt v >>= fun vt' => .ok (.map n p nl kt' vt')) := by
  simp only [explore, hm, ensure_map_map n p nl _ _ hd, bind, Except.bind, Bool.false_eq_true, if_false]

theorem explore_map_fail (c : Code) (o : Options) (t : Tracer) (k v : Ty) (hm : o.map_as_struct = true) :
    explore c o t (.map k v) = fail "Cannot trace maps as structs with `from_type`" := by
  simp only [explore, hm, if_true]

theorem explore_tuple_node (c : Code) (o : Options) (n p : String) (nl : Bool) (fts : Tracers) (ts : Tys)
    (hd : tooDeep p = false) (hl : fts.length = ts.length) :
    explore c o (.tuple n p nl fts) (.tuple ts) = (exploreTys c o fts 0 ts >>= fun f => .ok (.tuple n p nl f)) := by
  have h2 := ensure_tuple_tuple c n p nl fts hd
  rw [hl] at h2
  simp only [explore, h2, bind, Except.bind]

theorem explore_struct_node (c : Code) (o : Options) (n p : String) (nl : Bool) (tfs : TFields) (s : Nat) (sn : String)
    (fs : TyFields) (hd : tooDeep p = false) :
    explore c o (.struct n p nl tfs .struct s) (.struct sn fs) =
      (exploreFields c o tfs 0 fs >>= fun f => .ok (.struct n p nl f .struct s)) := by
  simp only [explore, ensure_struct_struct c n p nl _ _ _ hd, bind, Except.bind]

theorem explore_deep_vec (c : Code) (o : Options) (n p : String) (nl : Bool) (t : Ty) (hd : tooDeep p = true) :
    explore c o (.unknown n p nl) (.vec t) = fail "Too deeply nested type detected" := by
  simp only [explore, ensure_list_deep (.unknown n p nl) hd]; rfl

theorem explore_deep_map (c : Code) (o : Options) (n p : String) (nl : Bool) (k v : Ty) (hm : o.map_as_struct = false)
    (hd : tooDeep p = true) :
    explore c o (.unknown n p nl) (.map k v) = fail "Too deeply nested type detected" := by
  simp only [explore, hm, ensure_map_deep (.unknown n p nl) hd, Bool.false_eq_true, if_false]; rfl

theorem explore_deep_tuple (c : Code) (o : Options) (n p : String) (nl : Bool) (ts : Tys) (hd : tooDeep p = true) :
    explore c o (.unknown n p nl) (.tuple ts) = fail "Too deeply nested type detected" := by
  simp only [explore, ensure_tuple_deep c (.unknown n p nl) _ hd]; rfl

theorem explore_deep_struct (c : Code) (o : Options) (n p : String) (nl : Bool) (sn : String) (fs : TyFields)
    (hd : tooDeep p = true) :
    explore c o (.unknown n p nl) (.struct sn fs) = fail "Too deeply nested type detected" := by
  simp only [explore, ensure_struct_deep c (.unknown n p nl) _ _ hd]; rfl

theorem explore_deep_enum (c : Code) (o : Options) (n p : String) (nl : Bool) (en : String) (vs : TyVariants)
    (hd : tooDeep p = true) :
    explore c o (.unknown n p nl) (.enum en vs) = fail "Too deeply nested type detected" := by
  simp only [explore, ensure_union_deep (.unknown n p nl) _ hd]; rfl

/-! ### the generic container steps, given the step over the children -/

theorem tuple_conf_of (c : Code) (o : Options) (ts : Tys) (p : String) (t : Tracer)
    (hT : ∀ fts, ConfTys o p 0 ts fts → Pres (exploreTys c o fts 0 ts) (ConfTys o p 0 ts))
    (h : IsFresh p t ∨ ∃ n nl fts, t = .tuple n p nl fts ∧ tooDeep p = false ∧ ConfTys o p 0 ts fts) :
    Pres (explore c o t (.tuple ts))
      (fun t' => IsFresh p t' ∨ ∃ n nl fts, t' = .tuple n p nl fts ∧ tooDeep p = false ∧ ConfTys o p 0 ts fts) := by
  have node : ∀ n nl fts, tooDeep p = false → ConfTys o p 0 ts fts → Pres (explore c o (.tuple n p nl fts) (.tuple ts))
      (fun t' => IsFresh p t' ∨ ∃ n nl fts, t' = .tuple n p nl fts ∧ tooDeep p = false ∧ ConfTys o p 0 ts fts) := by
    intro n nl fts hd hc
    rw [explore_tuple_node c o n p nl fts ts hd (confTys_length o p ts 0 fts hc)]
    exact Pres.bind (hT fts hc) fun f hf => Pres.ok (Or.inr ⟨n, nl, f, rfl, hd, hf⟩)
  rcases h with ⟨n, nl, rfl⟩ | ⟨n, nl, fts, rfl, hd, hc⟩
  · rcases Bool.eq_false_or_eq_true (tooDeep p) with hd | hd
    · rw [explore_deep_tuple c o n p nl ts hd]; exact Pres.fail _
    · rw [explore_tuple_unknown c o n p nl ts hd]; exact node n nl _ hd (confTys_fresh o p ts 0)
  · exact node n nl fts hd hc

theorem struct_conf_of (c : Code) (o : Options) (sn : String) (fs : TyFields) (p : String) (t : Tracer)
    (hT : ∀ tfs, ConfFields o p fs tfs → Pres (exploreFields c o tfs 0 fs) (ConfFields o p fs))
    (h : IsFresh p t ∨ ∃ n nl tfs s, t = .struct n p nl tfs .struct s ∧ tooDeep p = false ∧ ConfFields o p fs tfs) :
    Pres (explore c o t (.struct sn fs))
      (fun t' => IsFresh p t' ∨
        ∃ n nl tfs s, t' = .struct n p nl tfs .struct s ∧ tooDeep p = false ∧ ConfFields o p fs tfs) := by
  have node : ∀ n nl tfs s, tooDeep p = false → ConfFields o p fs tfs →
      Pres (explore c o (.struct n p nl tfs .struct s) (.struct sn fs))
      (fun t' => IsFresh p t' ∨
        ∃ n nl tfs s, t' = .struct n p nl tfs .struct s ∧ tooDeep p = false ∧ ConfFields o p fs tfs) := by
    intro n nl tfs s hd hc
    rw [explore_struct_node c o n p nl tfs s sn fs hd]
    exact Pres.bind (hT tfs hc) fun f hf => Pres.ok (Or.inr ⟨n, nl, f, s, rfl, hd, hf⟩)
  rcases h with ⟨n, nl, rfl⟩ | ⟨n, nl, tfs, s, rfl, hd, hc⟩
  · rcases Bool.eq_false_or_eq_true (tooDeep p) with hd | hd
    · rw [explore_deep_struct c o n p nl sn fs hd]; exact Pres.fail _
    · rw [explore_struct_unknown c o n p nl sn fs hd]; exact node n nl _ 0 hd (confFields_fresh o p fs)
  · exact node n nl tfs s hd hc

theorem confVariants_firstIncomplete (o : Options) (p : String) : ∀ (vs : TyVariants) (V : Variants) (i0 : Nat),
    ConfVariants o p vs V → ∃ r, V.firstIncomplete i0 = .ok r
  | .nil, _, _, h => by simp only [ConfVariants] at h; subst h; exact ⟨none, rfl⟩
  | .unit _ r, _, i0, h => by
    simp only [ConfVariants] at h
    obtain ⟨vn, vt, R, rfl, h2⟩ := h
    simp only [Variants.firstIncomplete]
    split
    · exact ⟨_, rfl⟩
    · exact confVariants_firstIncomplete o p r R (i0 + 1) h2
  | .newtype _ _ r, _, i0, h => by
    simp only [ConfVariants] at h
    obtain ⟨vn, vt, R, rfl, _, h2⟩ := h
    simp only [Variants.firstIncomplete]
    split
    · exact ⟨_, rfl⟩
    · exact confVariants_firstIncomplete o p r R (i0 + 1) h2
  | .tuple _ _ r, _, i0, h => by
    simp only [ConfVariants] at h
    obtain ⟨vn, vt, R, rfl, _, h2⟩ := h
    simp only [Variants.firstIncomplete]
    split
    · exact ⟨_, rfl⟩
    · exact confVariants_firstIncomplete o p r R (i0 + 1) h2
  | .struct _ _ r, _, i0, h => by
    simp only [ConfVariants] at h
    obtain ⟨vn, vt, R, rfl, _, h2⟩ := h
    simp only [Variants.firstIncomplete]
    split
    · exact ⟨_, rfl⟩
    · exact confVariants_firstIncomplete o p r R (i0 + 1) h2

theorem union_conf_of (c : Code) (o : Options) (en : String) (vs : TyVariants) (n p : String) (nl : Bool) (V : Variants)
    (hd : tooDeep p = false) (hV : ConfVariants o p vs V)
    (hEV : ∀ idx vn vt, V.get? idx = some (some (vn, vt)) →
      Pres (exploreVariant c o vt idx vs) (fun vt' => ConfVariants o p vs (V.set idx vn vt'))) :
    Pres (explore c o (.union n p nl V) (.enum en vs)) (Conf o p (.enum en vs)) := by
  obtain ⟨r, hr⟩ := confVariants_firstIncomplete o p vs V 0 hV
  simp only [explore, ensure_union_union n p nl _ _ hd, bind, Except.bind, hr]
  by_cases hidx : r.getD 0 ≥ V.length
  · simp only [hidx, if_true]; exact Pres.fail _
  · simp only [hidx, if_false]
    cases hg : V.get? (r.getD 0) with
    | none => exact Pres.fail _
    | some x =>
      cases x with
      | none => exact Pres.fail _
      | some pr =>
        obtain ⟨vn, vt⟩ := pr
        have hne : vs.length ≠ 0 := by
          cases vs with
          | nil => simp only [ConfVariants] at hV; subst hV; simp only [Variants.get?] at hg; cases hg
          | unit _ _ | newtype _ _ _ | tuple _ _ _ | struct _ _ _ => simp only [TyVariants.length]; omega
        have := hEV _ _ _ hg
        simp only
        cases he : exploreVariant c o vt (r.getD 0) vs with
        | ok vt' =>
          rw [he] at this
          simp only [Conf]
          exact Or.inr ⟨n, nl, _, rfl, hd, hne, this⟩
        | error e =>
          rw [he] at this
          cases e with
          | err m => trivial
          | panic s => exact this.elim
          | errCtx m a => exact this.elim

mutual
theorem explore_conf (c : Code) (o : Options) : ∀ (ty : Ty) (p : String) (t : Tracer),
    Conf o p ty t → Pres (explore c o t ty) (Conf o p ty)
  | .unit, p, t, _ | .unitStruct _, p, t, _ | .bool, p, t, _ | .int _, p, t, _ | .f32, p, t, _ | .f64, p, t, _
  | .char, p, t, _ | .string, p, t, _ | .bytes, p, t, _ => by
    simp only [explore]
    exact Pres.mono (ensure_primitive_pres o t _ none) fun _ _ => by simp only [Conf]
  | .option ty, p, t, h => by
    simp only [Conf] at h
    simp only [explore]
    exact Pres.mono (explore_conf c o ty p _ (conf_set_nullable o true ty p t h)) fun _ hx => by simpa only [Conf] using hx
  | .newtypeStruct _ ty, p, t, h => by
    simp only [Conf] at h
    simp only [explore]
    exact Pres.mono (explore_conf c o ty p t h) fun _ hx => by simpa only [Conf] using hx
  | .vec ty, p, t, h => by
    simp only [Conf] at h
    have node : ∀ n nl i, tooDeep p = false → Conf o (childPath p "element") ty i →
        Pres (explore c o (.list n p nl i) (.vec ty)) (Conf o p (.vec ty)) := by
      intro n nl i hd hc
      rw [explore_vec_node c o n p nl i ty hd]
      refine Pres.bind (explore_conf c o ty _ i hc) fun i' hi' => Pres.ok ?_
      simp only [Conf]; exact Or.inr ⟨n, nl, i', rfl, hd, hi'⟩
    rcases h with ⟨n, nl, rfl⟩ | ⟨n, nl, i, rfl, hd, hc⟩
    · cases hd : tooDeep p with
      | true => rw [explore_deep_vec c o n p nl ty hd]; exact Pres.fail _
      | false => rw [explore_vec_unknown c o n p nl ty hd]; exact node n nl _ hd (conf_fresh o ty _ _ _)
    · exact node n nl i hd hc
  | .map k v, p, t, h => by
    simp only [Conf] at h
    cases hm : o.map_as_struct with
    | true => rw [explore_map_fail c o t k v hm]; exact Pres.fail _
    | false =>
      have node : ∀ n nl kt vt, tooDeep p = false → Conf o (childPath p "key") k kt →
          Conf o (childPath p "value") v vt → Pres (explore c o (.map n p nl kt vt) (.map k v)) (Conf o p (.map k v)) := by
        intro n nl kt vt hd hk hv
        rw [explore_map_node c o n p nl kt vt k v hm hd]
        refine Pres.bind (explore_conf c o k _ kt hk) fun kt' hk' =>
          Pres.bind (explore_conf c o v _ vt hv) fun vt' hv' => Pres.ok ?_
        simp only [Conf]; exact Or.inr ⟨n, nl, kt', vt', rfl, hm, hd, hk', hv'⟩
      rcases h with ⟨n, nl, rfl⟩ | ⟨n, nl, kt, vt, rfl, _, hd, hk, hv⟩
      · cases hd : tooDeep p with
        | true => rw [explore_deep_map c o n p nl k v hm hd]; exact Pres.fail _
        | false =>
          rw [explore_map_unknown c o n p nl k v hd]
          exact node n nl _ _ hd (conf_fresh o k _ _ _) (conf_fresh o v _ _ _)
      · exact node n nl kt vt hd hk hv
  | .tuple ts, p, t, h => by
    simp only [Conf] at h
    exact Pres.mono (tuple_conf_of c o ts p t (fun fts hf => exploreTys_conf c o ts p 0 fts hf) h)
      fun _ hx => by simpa only [Conf] using hx
  | .tupleStruct sn ts, p, t, h => by
    simp only [Conf] at h
    rw [explore_tupleStruct_eq]
    exact Pres.mono (tuple_conf_of c o ts p t (fun fts hf => exploreTys_conf c o ts p 0 fts hf) h)
      fun _ hx => by simpa only [Conf] using hx
  | .struct sn fs, p, t, h => by
    simp only [Conf] at h
    exact Pres.mono (struct_conf_of c o sn fs p t (fun tfs hf => exploreFields_conf c o fs p tfs hf) h)
      fun _ hx => by simpa only [Conf] using hx
  | .enum en vs, p, t, h => by
    simp only [Conf] at h
    rcases h with ⟨n, nl, rfl⟩ | ⟨n, nl, V, rfl, hd, _, hV⟩
    · cases hd : tooDeep p with
      | true => rw [explore_deep_enum c o n p nl en vs hd]; exact Pres.fail _
      | false =>
        rw [explore_enum_unknown c o n p nl en vs hd]
        exact union_conf_of c o en vs n p nl _ hd (confVariants_fresh o p vs)
          (fun idx vn vt hg => exploreVariant_conf c o vs p _ (confVariants_fresh o p vs) idx vn vt hg)
    · exact union_conf_of c o en vs n p nl V hd hV (fun idx vn vt hg => exploreVariant_conf c o vs p V hV idx vn vt hg)
theorem exploreTys_conf (c : Code) (o : Options) : ∀ (ts : Tys) (p : String) (i : Nat) (fts : Tracers),
    ConfTys o p i ts fts → Pres (exploreTys c o fts 0 ts) (ConfTys o p i ts)
  | .nil, _, _, _, h => by simp only [exploreTys]; exact Pres.ok h
  | .cons t r, p, i, _, h => by
    simp only [ConfTys] at h
    obtain ⟨tr, rest, rfl, h1, h2⟩ := h
    simp only [exploreTys, Tracers.get?]
    refine Pres.bind (explore_conf c o t _ tr h1) fun tr' h1' => ?_
    simp only [Tracers.set, exploreTys_shift]
    refine Pres.map (exploreTys_conf c o r p (i + 1) rest h2) fun rest' h2' => ?_
    simp only [ConfTys]; exact ⟨tr', rest', rfl, h1', h2'⟩
theorem exploreFields_conf (c : Code) (o : Options) : ∀ (fs : TyFields) (p : String) (tfs : TFields),
    ConfFields o p fs tfs → Pres (exploreFields c o tfs 0 fs) (ConfFields o p fs)
  | .nil, _, _, h => by simp only [exploreFields]; exact Pres.ok h
  | .cons fname t r, p, _, h => by
    simp only [ConfFields] at h
    obtain ⟨n, l, tr, rest, rfl, h1, h2⟩ := h
    simp only [exploreFields, TFields.get?]
    refine Pres.bind (explore_conf c o t _ tr h1) fun tr' h1' => ?_
    simp only [TFields.set, exploreFields_shift]
    refine Pres.map (exploreFields_conf c o r p rest h2) fun rest' h2' => ?_
    simp only [ConfFields]; exact ⟨n, l, tr', rest', rfl, h1', h2'⟩
theorem exploreVariant_conf (c : Code) (o : Options) : ∀ (vs : TyVariants) (p : String) (V : Variants),
    ConfVariants o p vs V → ∀ (idx : Nat) (vn : String) (vt : Tracer), V.get? idx = some (some (vn, vt)) →
    Pres (exploreVariant c o vt idx vs) (fun vt' => ConfVariants o p vs (V.set idx vn vt'))
  | .nil, _, _, h, idx, vn, vt, hg => by
    simp only [ConfVariants] at h; subst h; simp only [Variants.get?] at hg; cases hg
  | .unit n r, p, _, h, idx, vn, vt, hg => by
    simp only [ConfVariants] at h
    obtain ⟨hn, ht, R, rfl, h2⟩ := h
    cases idx with
    | zero =>
      simp only [exploreVariant, Variants.set]
      exact Pres.mono (ensure_primitive_pres o vt _ none) fun vt' _ => by
        simp only [ConfVariants]; exact ⟨_, _, _, rfl, h2⟩
    | succ idx =>
      simp only [Variants.get?] at hg
      simp only [exploreVariant, Variants.set]
      exact Pres.mono (exploreVariant_conf c o r p R h2 idx vn vt hg) fun vt' hx => by
        simp only [ConfVariants]; exact ⟨_, _, _, rfl, hx⟩
  | .newtype n t r, p, _, h, idx, vn, vt, hg => by
    simp only [ConfVariants] at h
    obtain ⟨hn, ht, R, rfl, h1, h2⟩ := h
    cases idx with
    | zero =>
      simp only [Variants.get?, Option.some.injEq, Prod.mk.injEq] at hg
      obtain ⟨rfl, rfl⟩ := hg
      simp only [exploreVariant, Variants.set]
      exact Pres.mono (explore_conf c o t _ ht h1) fun vt' hx => by
        simp only [ConfVariants]; exact ⟨_, _, _, rfl, hx, h2⟩
    | succ idx =>
      simp only [Variants.get?] at hg
      simp only [exploreVariant, Variants.set]
      exact Pres.mono (exploreVariant_conf c o r p R h2 idx vn vt hg) fun vt' hx => by
        simp only [ConfVariants]; exact ⟨_, _, _, rfl, h1, hx⟩
  | .tuple n ts r, p, _, h, idx, vn, vt, hg => by
    simp only [ConfVariants] at h
    obtain ⟨hn, ht, R, rfl, h1, h2⟩ := h
    cases idx with
    | zero =>
      simp only [Variants.get?, Option.some.injEq, Prod.mk.injEq] at hg
      obtain ⟨rfl, rfl⟩ := hg
      have e : exploreVariant c o ht 0 (.tuple n ts r) = explore c o ht (.tuple ts) := by
        simp only [exploreVariant, explore]
      rw [e]
      simp only [Variants.set]
      exact Pres.mono (tuple_conf_of c o ts _ ht (fun fts hf => exploreTys_conf c o ts _ 0 fts hf) h1) fun vt' hx => by
        simp only [ConfVariants]; exact ⟨_, _, _, rfl, hx, h2⟩
    | succ idx =>
      simp only [Variants.get?] at hg
      simp only [exploreVariant, Variants.set]
      exact Pres.mono (exploreVariant_conf c o r p R h2 idx vn vt hg) fun vt' hx => by
        simp only [ConfVariants]; exact ⟨_, _, _, rfl, h1, hx⟩
  | .struct n fs r, p, _, h, idx, vn, vt, hg => by
    simp only [ConfVariants] at h
    obtain ⟨hn, ht, R, rfl, h1, h2⟩ := h
    cases idx with
    | zero =>
      simp only [Variants.get?, Option.some.injEq, Prod.mk.injEq] at hg
      obtain ⟨rfl, rfl⟩ := hg
      have e : exploreVariant c o ht 0 (.struct n fs r) = explore c o ht (.struct n fs) := by
        simp only [exploreVariant, explore]
      rw [e]
      simp only [Variants.set]
      exact Pres.mono (struct_conf_of c o n fs _ ht (fun tfs hf => exploreFields_conf c o fs _ tfs hf) h1) fun vt' hx => by
        simp only [ConfVariants]; exact ⟨_, _, _, rfl, hx, h2⟩
    | succ idx =>
      simp only [Variants.get?] at hg
      simp only [exploreVariant, Variants.set]
      exact Pres.mono (exploreVariant_conf c o r p R h2 idx vn vt hg) fun vt' hx => by
        simp only [ConfVariants]; exact ⟨_, _, _, rfl, h1, hx⟩
end

end SaModel.Lemmas.C08
