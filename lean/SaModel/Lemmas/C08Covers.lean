import SaModel.Trace.Mapping
/-
C08 — what a COVERING sample collection of a type is.

* `hasTy o x ty`: the serde value `x` is a value of the type description `ty` (what `#[derive(Serialize)]` emits for a
  value of the Rust type: the calls of `ty`'s constructors, struct fields in declaration order, variant index and name
  of the declaration, any `None` / `Some`, sequences and maps of any length).  A string must be traced as a string:
  under `guess_dates` a string that looks like a date / time is traced as a date and is therefore not a sample of
  `String` for this purpose (`from_type` cannot guess).
* `covers ty xs`: the samples `xs`, read as values of `ty`, show the tracer the whole type.  Recursive over `ty`, on the
  values found at each position (the projections `somes`, `elems`, `payloadsAt`, …):
    leaf: at least one value · `Option<T>`: the payloads of the `Some`s cover `T` · `Vec<T>`: all elements of all
    sequences together cover `T` · map: all keys cover `K`, all values cover `V` · tuple / struct: at least one value and
    every position / field is covered by the values found there · enum: EVERY variant occurs, and the payloads found
    for each variant cover the variant's payload type.
  Extra samples (`None`, empty collections, repeated variants, any order) never hurt.
* `Covers o ty xs`: every sample is a value of the type and together they cover it.
-/
namespace SaModel.Lemmas.C08
open SaModel SaModel.Trace SaModel.Trace.Spec

/-! ### the values found at the positions of a type -/

def unSome : SVal → Option SVal
  | .some v => some v
  | _ => none

/-- the payloads of the `Some`s -/
def somes (xs : List SVal) : List SVal := xs.filterMap unSome

def unNewtype : SVal → Option SVal
  | .newtypeStruct _ v => some v
  | _ => none

def seqItems : SVal → List SVal
  | .seq items => items.toList
  | _ => []

/-- all elements of all sequences -/
def elems (xs : List SVal) : List SVal := xs.flatMap seqItems

def tupleItems : SVal → Option SVals
  | .tuple items => some items
  | .tupleStruct _ items => some items
  | _ => none

def recFields : SVal → Option SFields
  | .record _ fs => some fs
  | _ => none

def entryKeys : SEntries → List SVal
  | .nil => []
  | .cons k _ r => k :: entryKeys r

def entryVals : SEntries → List SVal
  | .nil => []
  | .cons _ v r => v :: entryVals r

def mapKeys : SVal → List SVal
  | .map es => entryKeys es
  | _ => []

def mapVals : SVal → List SVal
  | .map es => entryVals es
  | _ => []

def headV : SVals → Option SVal
  | .cons v _ => some v
  | .nil => none

def tailV : SVals → Option SVals
  | .cons _ r => some r
  | .nil => none

def headF : SFields → Option SVal
  | .cons _ _ v _ => some v
  | .nil => none

def tailF : SFields → Option SFields
  | .cons _ _ _ r => some r
  | .nil => none

/-- the payload of a sample of variant `k`, as a value of the variant's payload type: `()` for a unit variant, the inner
value of a newtype variant, the tuple / struct of a tuple / struct variant -/
def payAt (k : Nat) : SVal → Option SVal
  | .unitVariant _ idx _ => if idx = k then some .unit else none
  | .newtypeVariant _ idx _ v => if idx = k then some v else none
  | .tupleVariant _ idx _ items => if idx = k then some (.tuple items) else none
  | .structVariant _ idx vn fs => if idx = k then some (.record vn fs) else none
  | _ => none

/-- the payloads of the samples of variant `k` -/
def payloadsAt (k : Nat) (xs : List SVal) : List SVal := xs.filterMap (payAt k)

/-! ### values of a type -/

inductive VKind where
  | unit
  | newtype (t : Ty)
  | tuple (ts : Tys)
  | struct (fs : TyFields)

/-- variant `i` of the declaration: name and kind -/
def variantAt : TyVariants → Nat → Option (String × VKind)
  | .nil, _ => none
  | .unit n _, 0 => some (n, .unit)
  | .newtype n t _, 0 => some (n, .newtype t)
  | .tuple n ts _, 0 => some (n, .tuple ts)
  | .struct n fs _, 0 => some (n, .struct fs)
  | .unit _ r, i + 1 | .newtype _ _ r, i + 1 | .tuple _ _ r, i + 1 | .struct _ _ r, i + 1 => variantAt r i

mutual
/-- `x` is a value of the type `ty` -/
def hasTy (o : Options) : SVal → Ty → Bool
  | .unit, ty => match ty with | .unit => true | _ => false
  | .unitStruct _, ty => match ty with | .unitStruct _ => true | _ => false
  | .bool _, ty => match ty with | .bool => true | _ => false
  | .int t _, ty => match ty with | .int t' => decide (t = t') | _ => false
  | .f32 _, ty => match ty with | .f32 => true | _ => false
  | .f64 _, ty => match ty with | .f64 => true | _ => false
  | .char _, ty => match ty with | .char => true | _ => false
  | .bytes _, ty => match ty with | .bytes => true | _ => false
  | .str s, ty => match ty with | .string => decide (strType o s = o.string_type) | _ => false
  | .none, ty => match ty with | .option _ => true | _ => false
  | .some v, ty => match ty with | .option t => hasTy o v t | _ => false
  | .newtypeStruct _ v, ty => match ty with | .newtypeStruct _ t => hasTy o v t | _ => false
  | .seq items, ty => match ty with | .vec t => hasTyAll o items t | _ => false
  | .tuple items, ty => match ty with | .tuple ts => hasTys o items ts | _ => false
  | .tupleStruct _ items, ty => match ty with | .tupleStruct _ ts => hasTys o items ts | _ => false
  | .map es, ty => match ty with | .map k v => hasEntries o es k v | _ => false
  | .mapRaw _, _ => false
  | .record _ sf, ty => match ty with | .struct _ fs => hasFields o sf fs | _ => false
  | .unitVariant _ idx vn, ty =>
    match ty with
    | .enum _ vs => match variantAt vs idx with | some (vn', .unit) => decide (vn = vn') | _ => false
    | _ => false
  | .newtypeVariant _ idx vn v, ty =>
    match ty with
    | .enum _ vs => match variantAt vs idx with | some (vn', .newtype t) => decide (vn = vn') && hasTy o v t | _ => false
    | _ => false
  | .tupleVariant _ idx vn items, ty =>
    match ty with
    | .enum _ vs => match variantAt vs idx with | some (vn', .tuple ts) => decide (vn = vn') && hasTys o items ts | _ => false
    | _ => false
  | .structVariant _ idx vn sf, ty =>
    match ty with
    | .enum _ vs => match variantAt vs idx with | some (vn', .struct fs) => decide (vn = vn') && hasFields o sf fs | _ => false
    | _ => false
/-- every element is a value of `t` -/
def hasTyAll (o : Options) : SVals → Ty → Bool
  | .nil, _ => true
  | .cons v r, t => hasTy o v t && hasTyAll o r t
/-- position by position -/
def hasTys (o : Options) : SVals → Tys → Bool
  | .nil, ts => match ts with | .nil => true | _ => false
  | .cons v r, ts => match ts with | .cons t tr => hasTy o v t && hasTys o r tr | _ => false
/-- the declared fields, in declaration order -/
def hasFields (o : Options) : SFields → TyFields → Bool
  | .nil, fs => match fs with | .nil => true | _ => false
  | .cons k _ v r, fs => match fs with | .cons n t fr => decide (k = n) && hasTy o v t && hasFields o r fr | _ => false
def hasEntries (o : Options) : SEntries → Ty → Ty → Bool
  | .nil, _, _ => true
  | .cons k v r, kt, vt => hasTy o k kt && hasTy o v vt && hasEntries o r kt vt
end

/-! ### covering -/

mutual
def covers : Ty → List SVal → Bool
  | .option t, xs => covers t (somes xs)
  | .newtypeStruct _ t, xs => covers t (xs.filterMap unNewtype)
  | .vec t, xs => covers t (elems xs)
  | .tuple ts, xs => !xs.isEmpty && coversTys ts (xs.filterMap tupleItems)
  | .tupleStruct _ ts, xs => !xs.isEmpty && coversTys ts (xs.filterMap tupleItems)
  | .map k v, xs => covers k (xs.flatMap mapKeys) && covers v (xs.flatMap mapVals)
  | .struct _ fs, xs => !xs.isEmpty && coversFields fs (xs.filterMap recFields)
  | .enum _ vs, xs => !xs.isEmpty && coversVariants 0 vs xs
  | .unit, xs | .unitStruct _, xs | .bool, xs | .int _, xs | .f32, xs | .f64, xs | .char, xs | .string, xs
  | .bytes, xs => !xs.isEmpty
def coversTys : Tys → List SVals → Bool
  | .nil, _ => true
  | .cons t r, xss => covers t (xss.filterMap headV) && coversTys r (xss.filterMap tailV)
def coversFields : TyFields → List SFields → Bool
  | .nil, _ => true
  | .cons _ t r, xss => covers t (xss.filterMap headF) && coversFields r (xss.filterMap tailF)
/-- every variant from declaration index `i` on occurs and its payloads cover its payload type -/
def coversVariants : Nat → TyVariants → List SVal → Bool
  | _, .nil, _ => true
  | i, .unit _ r, xs => !(payloadsAt i xs).isEmpty && coversVariants (i + 1) r xs
  | i, .newtype _ t r, xs => covers t (payloadsAt i xs) && coversVariants (i + 1) r xs
  | i, .tuple _ ts r, xs =>
    !(payloadsAt i xs).isEmpty && coversTys ts ((payloadsAt i xs).filterMap tupleItems) && coversVariants (i + 1) r xs
  | i, .struct _ fs r, xs =>
    !(payloadsAt i xs).isEmpty && coversFields fs ((payloadsAt i xs).filterMap recFields) && coversVariants (i + 1) r xs
end

/-- a covering sample collection for `ty`: values of the type (in any order, with any repetitions, with any extra
values of the type) that together exercise every variant of every enum, a `Some` of every `Option`, an element of every
sequence / entry of every map, down to every leaf -/
def Covers (o : Options) (ty : Ty) (xs : List SVal) : Prop :=
  (∀ x ∈ xs, hasTy o x ty = true) ∧ covers ty xs = true

instance (o : Options) (ty : Ty) (xs : List SVal) : Decidable (Covers o ty xs) := by
  unfold Covers; exact inferInstance

end SaModel.Lemmas.C08
