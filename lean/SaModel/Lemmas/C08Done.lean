import SaModel.Trace.Mapping
/-
C08 — the COMPLETE tracer of a type description (`done`): the tree the exploration of `from_type` ends with, written
down directly from the type.  Proved here, for every type (enums included): it is complete (`done_complete`), its
`to_field` is the documented mapping (`done_to_field`), its paths are the documented paths (`done_paths`).
-/
namespace SaModel.Lemmas.C08
open SaModel SaModel.Trace SaModel.Trace.Spec

/-- both succeed with the same value, or both fail with a (Rust) error; messages are not compared, a panic never agrees -/
def Agree {α} (a b : R α) : Prop :=
  match a, b with
  | .ok x, .ok y => x = y
  | .error (.err _), .error (.err _) => True
  | _, _ => False

theorem Agree.ok {α} (x : α) : Agree (.ok x : R α) (.ok x) := rfl

theorem Agree.fail {α} (m m' : String) : Agree (fail m : R α) (fail m') := trivial

theorem Agree.bind {α β} {a b : R α} {f g : α → R β} (h : Agree a b) (hf : ∀ x, Agree (f x) (g x)) :
    Agree (a >>= f) (b >>= g) := by
  match a, b, h with
  | .ok x, .ok y, h => cases h; exact hf x
  | .error (.err _), .error (.err _), _ => trivial

theorem Agree.of_eq {α} {a b : R α} (x : α) (ha : a = .ok x) (hb : b = .ok x) : Agree a b := by
  rw [ha, hb]; rfl

theorem childPath_element (p : String) : p ++ ".element" = childPath p "element" := by
  simp [childPath, String.append_assoc]

theorem childPath_key (p : String) : p ++ ".key" = childPath p "key" := by
  simp [childPath, String.append_assoc]

theorem childPath_value (p : String) : p ++ ".value" = childPath p "value" := by
  simp [childPath, String.append_assoc]

theorem get_overwrite_eq (o : Options) (p : String) :
    o.get_overwrite p = (o.overwrites.find? (fun kv => kv.1 = p)).map (·.2) := by
  unfold Options.get_overwrite
  have : (fun kv : String × Field => kv.1 == p) = (fun kv => decide (kv.1 = p)) := by
    funext kv; rfl
  rw [this]
  cases o.overwrites.find? (fun kv => decide (kv.1 = p)) <;> rfl

/-- the overwrite lookup of the tracer and of the documented mapping are the same rule -/
theorem Agree.overwrite (o : Options) (n p : String) {k k' : Unit → R Field} (h : Agree (k ()) (k' ())) :
    Agree (withOverwrite o n p k) (overwritten o n p k') := by
  unfold withOverwrite overwritten
  rw [get_overwrite_eq]
  cases hf : o.overwrites.find? (fun kv => kv.1 = p) with
  | none => exact h
  | some kv =>
    obtain ⟨key, f⟩ := kv
    simp only [Option.map]
    by_cases hn : f.name = n
    · simp [hn, Agree]
    · simp [hn, Agree, SaModel.fail]

mutual
/-- the complete tracer of `ty` at position (name `n`, path `p`, nullable `nl`) -/
def done (o : Options) (n p : String) (nl : Bool) : Ty → Tracer
  | .unit => .primitive n p true .null none
  | .unitStruct _ => .primitive n p true .null none
  | .bool => .primitive n p nl .boolean none
  | .int t => .primitive n p nl (intDataType t) none
  | .f32 => .primitive n p nl .float32 none
  | .f64 => .primitive n p nl .float64 none
  | .char => .primitive n p nl .uint32 none
  | .string => .primitive n p nl o.string_type none
  | .bytes => .primitive n p nl .largeBinary none
  | .option t => done o n p true t
  | .newtypeStruct _ t => done o n p nl t
  | .vec t => .list n p nl (done o "element" (childPath p "element") false t)
  | .tuple ts => .tuple n p nl (doneTys o p 0 ts)
  | .tupleStruct _ ts => .tuple n p nl (doneTys o p 0 ts)
  | .map k v => .map n p nl (done o "key" (childPath p "key") false k) (done o "value" (childPath p "value") false v)
  | .struct _ fs => .struct n p nl (doneFields o p fs) .struct 0
  | .enum _ vs => .union n p nl (doneVariants o p vs)
def doneTys (o : Options) (p : String) : Nat → Tys → Tracers
  | _, .nil => .nil
  | i, .cons t r => .cons (done o (toString i) (childPath p (toString i)) false t) (doneTys o p (i + 1) r)
def doneFields (o : Options) (p : String) : TyFields → TFields
  | .nil => .nil
  | .cons n t r => .cons n 0 (done o n (childPath p n) false t) (doneFields o p r)
def doneVariants (o : Options) (p : String) : TyVariants → Variants
  | .nil => .nil
  | .unit n r => .present n (.primitive n (childPath p n) true .null none) (doneVariants o p r)
  | .newtype n t r => .present n (done o n (childPath p n) false t) (doneVariants o p r)
  | .tuple n ts r =>
    .present n (.tuple n (childPath p n) false (doneTys o (childPath p n) 0 ts)) (doneVariants o p r)
  | .struct n fs r =>
    .present n (.struct n (childPath p n) false (doneFields o (childPath p n) fs) .struct 0) (doneVariants o p r)
end

/-! ### complete -/

mutual
theorem done_complete (o : Options) : ∀ (ty : Ty) (n p : String) (nl : Bool), (done o n p nl ty).is_complete = true
  | .unit, _, _, _ | .unitStruct _, _, _, _ | .bool, _, _, _ | .int _, _, _, _ | .f32, _, _, _ | .f64, _, _, _
  | .char, _, _, _ | .string, _, _, _ | .bytes, _, _, _ => by simp only [done, Tracer.is_complete]
  | .option t, n, p, _ => by simp only [done]; exact done_complete o t n p true
  | .newtypeStruct _ t, n, p, nl => by simp only [done]; exact done_complete o t n p nl
  | .vec t, _, _, _ => by simp only [done, Tracer.is_complete]; exact done_complete o t _ _ _
  | .tuple ts, _, p, _ => by simp only [done, Tracer.is_complete]; exact doneTys_complete o ts p 0
  | .tupleStruct _ ts, _, p, _ => by simp only [done, Tracer.is_complete]; exact doneTys_complete o ts p 0
  | .map k v, _, _, _ => by
    simp only [done, Tracer.is_complete, done_complete o k, done_complete o v, Bool.and_self]
  | .struct _ fs, _, p, _ => by simp only [done, Tracer.is_complete]; exact doneFields_complete o fs p
  | .enum _ vs, _, p, _ => by simp only [done, Tracer.is_complete]; exact doneVariants_complete o vs p
theorem doneTys_complete (o : Options) : ∀ (ts : Tys) (p : String) (i : Nat), (doneTys o p i ts).all_complete = true
  | .nil, _, _ => by simp only [doneTys, Tracers.all_complete]
  | .cons t r, p, i => by
    simp only [doneTys, Tracers.all_complete, done_complete o t, doneTys_complete o r, Bool.and_self]
theorem doneFields_complete (o : Options) : ∀ (fs : TyFields) (p : String), (doneFields o p fs).all_complete = true
  | .nil, _ => by simp only [doneFields, TFields.all_complete]
  | .cons _ t r, p => by
    simp only [doneFields, TFields.all_complete, done_complete o t, doneFields_complete o r, Bool.and_self]
theorem doneVariants_complete (o : Options) : ∀ (vs : TyVariants) (p : String),
    (doneVariants o p vs).all_complete = true
  | .nil, _ => by simp only [doneVariants, Variants.all_complete]
  | .unit _ r, p => by
    simp only [doneVariants, Variants.all_complete, Tracer.is_complete, doneVariants_complete o r, Bool.and_self]
  | .newtype _ t r, p => by
    simp only [doneVariants, Variants.all_complete, done_complete o t, doneVariants_complete o r, Bool.and_self]
  | .tuple _ ts r, p => by
    simp only [doneVariants, Variants.all_complete, Tracer.is_complete, doneTys_complete o ts,
      doneVariants_complete o r, Bool.and_self]
  | .struct _ fs r, p => by
    simp only [doneVariants, Variants.all_complete, Tracer.is_complete, doneFields_complete o fs,
      doneVariants_complete o r, Bool.and_self]
end

/-! ### paths -/

mutual
theorem done_paths (o : Options) : ∀ (ty : Ty) (n p : String) (nl : Bool),
    (done o n p nl ty).collect_paths = tyPaths p ty
  | .unit, _, _, _ | .unitStruct _, _, _, _ | .bool, _, _, _ | .int _, _, _, _ | .f32, _, _, _ | .f64, _, _, _
  | .char, _, _, _ | .string, _, _, _ | .bytes, _, _, _ => by simp only [done, Tracer.collect_paths, tyPaths]
  | .option t, n, p, _ => by simp only [done, tyPaths]; exact done_paths o t n p true
  | .newtypeStruct _ t, n, p, nl => by simp only [done, tyPaths]; exact done_paths o t n p nl
  | .vec t, _, _, _ => by simp only [done, Tracer.collect_paths, tyPaths, done_paths o t]
  | .tuple ts, _, p, _ => by simp only [done, Tracer.collect_paths, tyPaths, doneTys_paths o ts]
  | .tupleStruct _ ts, _, p, _ => by simp only [done, Tracer.collect_paths, tyPaths, doneTys_paths o ts]
  | .map k v, _, _, _ => by simp only [done, Tracer.collect_paths, tyPaths, done_paths o k, done_paths o v]
  | .struct _ fs, _, p, _ => by simp only [done, Tracer.collect_paths, tyPaths, doneFields_paths o fs]
  | .enum _ vs, _, p, _ => by simp only [done, Tracer.collect_paths, tyPaths, doneVariants_paths o vs]
theorem doneTys_paths (o : Options) : ∀ (ts : Tys) (p : String) (i : Nat),
    (doneTys o p i ts).collect_paths = tyPathsTys p i ts
  | .nil, _, _ => by simp only [doneTys, Tracers.collect_paths, tyPathsTys]
  | .cons t r, p, i => by
    simp only [doneTys, Tracers.collect_paths, tyPathsTys, done_paths o t, doneTys_paths o r]
theorem doneFields_paths (o : Options) : ∀ (fs : TyFields) (p : String),
    (doneFields o p fs).collect_paths = tyPathsFields p fs
  | .nil, _ => by simp only [doneFields, TFields.collect_paths, tyPathsFields]
  | .cons _ t r, p => by
    simp only [doneFields, TFields.collect_paths, tyPathsFields, done_paths o t, doneFields_paths o r]
theorem doneVariants_paths (o : Options) : ∀ (vs : TyVariants) (p : String),
    (doneVariants o p vs).collect_paths = tyPathsVariants p vs
  | .nil, _ => by simp only [doneVariants, Variants.collect_paths, tyPathsVariants]
  | .unit _ r, p => by
    simp only [doneVariants, Variants.collect_paths, Tracer.collect_paths, tyPathsVariants,
      doneVariants_paths o r, List.cons_append, List.nil_append]
  | .newtype _ t r, p => by
    simp only [doneVariants, Variants.collect_paths, tyPathsVariants, done_paths o t, doneVariants_paths o r]
  | .tuple _ ts r, p => by
    simp only [doneVariants, Variants.collect_paths, Tracer.collect_paths, tyPathsVariants, doneTys_paths o ts,
      doneVariants_paths o r]
  | .struct _ fs r, p => by
    simp only [doneVariants, Variants.collect_paths, Tracer.collect_paths, tyPathsVariants, doneFields_paths o fs,
      doneVariants_paths o r]
end

end SaModel.Lemmas.C08
