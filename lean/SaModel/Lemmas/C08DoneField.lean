import SaModel.Lemmas.C08Done
/-
C08 — `done_to_field`: the field of the complete tracer of a type is the documented mapping of that type, at every
position and under every option record (overwrites included), for every type description (enums included).
-/
namespace SaModel.Lemmas.C08
open SaModel SaModel.Trace SaModel.Trace.Spec

/-- the complete tracer is a `Null` primitive exactly for the data-less types -/
theorem done_is_null (o : Options) : ∀ (ty : Ty) (n p : String) (nl : Bool),
    (done o n p nl ty).is_unknown_or_null = isNullTy ty
  | .unit, _, _, _ | .unitStruct _, _, _, _ | .bool, _, _, _ | .f32, _, _, _ | .f64, _, _, _
  | .char, _, _, _ | .bytes, _, _, _ | .vec _, _, _, _ | .tuple _, _, _, _ | .tupleStruct _ _, _, _, _
  | .map _ _, _, _, _ | .struct _ _, _, _, _ | .enum _ _, _, _, _ => by
    simp only [done, Tracer.is_unknown_or_null, isNullTy]
  | .int t, _, _, _ => by cases t <;> simp only [done, Tracer.is_unknown_or_null, isNullTy, intDataType]
  | .string, _, _, _ => by
    simp only [done, isNullTy, Options.string_type]
    split <;> simp only [Tracer.is_unknown_or_null]
  | .option t, n, p, _ => by simp only [done, isNullTy]; exact done_is_null o t n p true
  | .newtypeStruct _ t, n, p, nl => by simp only [done, isNullTy]; exact done_is_null o t n p nl

theorem doneVariants_without_data (o : Options) : ∀ (vs : TyVariants) (p : String),
    (doneVariants o p vs).is_without_data = withoutData vs
  | .nil, _ => by simp only [doneVariants, Variants.is_without_data, withoutData]
  | .unit _ r, p => by
    simp only [doneVariants, Variants.is_without_data, withoutData, is_null_variant, Tracer.is_unknown_or_null,
      doneVariants_without_data o r, Bool.true_and]
  | .newtype _ t r, p => by
    simp only [doneVariants, Variants.is_without_data, withoutData, is_null_variant, done_is_null,
      doneVariants_without_data o r]
  | .tuple _ _ r, p => by
    simp only [doneVariants, Variants.is_without_data, withoutData, is_null_variant, Tracer.is_unknown_or_null,
      Bool.false_and]
  | .struct _ _ r, p => by
    simp only [doneVariants, Variants.is_without_data, withoutData, is_null_variant, Tracer.is_unknown_or_null,
      Bool.false_and]

theorem tupleMeta_eq : strategyMeta .tupleAsStruct = tupleMeta := rfl

/-- a `Null` primitive against the documented null field -/
theorem agree_null (o : Options) (n : String) :
    Agree (if (!o.allow_null_fields && isNull .null) = true then fail "Encountered null only field"
      else if isNull .null = true then .ok (Field.mk n .null true [])
      else if (isLargeUtf8 .null || isUtf8 .null) = true then
        if (!o.string_dictionary_encoding) = true then .ok (.mk n .null true [])
        else .ok (default_dictionary_field n true o.string_type)
      else .ok (.mk n .null true [])) (nullField o n) := by
  unfold nullField
  cases o.allow_null_fields <;> simp [isNull, Agree, SaModel.fail]

/-- a non-null, non-string primitive -/
theorem agree_prim (o : Options) (n : String) (nl : Bool) (dt : DataType) (h1 : isNull dt = false)
    (h2 : isLargeUtf8 dt = false) (h3 : isUtf8 dt = false) :
    Agree (if (!o.allow_null_fields && isNull dt) = true then fail "Encountered null only field"
      else if isNull dt = true then .ok (Field.mk n .null true [])
      else if (isLargeUtf8 dt || isUtf8 dt) = true then
        if (!o.string_dictionary_encoding) = true then .ok (.mk n dt nl [])
        else .ok (default_dictionary_field n nl o.string_type)
      else .ok (.mk n dt nl (match (none : Option Strategy) with | some s => strategyMeta s | none => [])))
      (.ok (.mk n dt nl [])) := by
  simp [h1, h2, h3, Agree]

theorem agree_string (o : Options) (n : String) (nl : Bool) :
    Agree (if (!o.allow_null_fields && isNull o.string_type) = true then fail "Encountered null only field"
      else if isNull o.string_type = true then .ok (Field.mk n .null true [])
      else if (isLargeUtf8 o.string_type || isUtf8 o.string_type) = true then
        if (!o.string_dictionary_encoding) = true then .ok (.mk n o.string_type nl [])
        else .ok (default_dictionary_field n nl o.string_type)
      else .ok (.mk n o.string_type nl (match (none : Option Strategy) with | some s => strategyMeta s | none => [])))
      (.ok (stringField o n nl)) := by
  unfold stringField Options.string_type default_dictionary_field
  cases o.string_as_large_utf8 <;> cases o.string_dictionary_encoding <;> simp [isNull, isLargeUtf8, isUtf8, Agree]

mutual
theorem done_to_field (o : Options) : ∀ (ty : Ty) (n p : String) (nl : Bool),
    Agree ((done o n p nl ty).to_field o) (mapping o n p nl ty)
  | .unit, n, p, _ | .unitStruct _, n, p, _ => by
    simp only [done, Tracer.to_field, mapping]
    exact Agree.overwrite o n p (agree_null o n)
  | .bool, n, p, nl | .f32, n, p, nl | .f64, n, p, nl | .char, n, p, nl | .bytes, n, p, nl => by
    simp only [done, Tracer.to_field, mapping]
    exact Agree.overwrite o n p (agree_prim o n nl _ rfl rfl rfl)
  | .int t, n, p, nl => by
    simp only [done, Tracer.to_field, mapping]
    exact Agree.overwrite o n p (agree_prim o n nl _ (by cases t <;> rfl) (by cases t <;> rfl) (by cases t <;> rfl))
  | .string, n, p, nl => by
    simp only [done, Tracer.to_field, mapping]
    exact Agree.overwrite o n p (agree_string o n nl)
  | .option t, n, p, _ => by simp only [done, mapping]; exact done_to_field o t n p true
  | .newtypeStruct _ t, n, p, nl => by simp only [done, mapping]; exact done_to_field o t n p nl
  | .vec t, n, p, nl => by
    simp only [done, Tracer.to_field, mapping]
    exact Agree.overwrite o n p (Agree.bind (done_to_field o t _ _ _) fun _ => Agree.ok _)
  | .tuple ts, n, p, nl | .tupleStruct _ ts, n, p, nl => by
    simp only [done, Tracer.to_field, mapping, tupleMeta_eq]
    exact Agree.overwrite o n p (Agree.bind (doneTys_to_fields o ts p 0) fun _ => Agree.ok _)
  | .map k v, n, p, nl => by
    simp only [done, Tracer.to_field, mapping]
    exact Agree.overwrite o n p (Agree.bind (done_to_field o k _ _ _) fun _ =>
      Agree.bind (done_to_field o v _ _ _) fun _ => Agree.ok _)
  | .struct _ fs, n, p, nl => by
    simp only [done, Tracer.to_field, mapping]
    exact Agree.overwrite o n p (Agree.bind (doneFields_to_fields o fs p) fun _ => Agree.ok _)
  | .enum _ vs, n, p, nl => by
    simp only [done, Tracer.to_field, mapping, doneVariants_without_data]
    refine Agree.overwrite o n p ?_
    split
    · exact Agree.ok _
    · split
      · exact Agree.fail _ _
      · exact Agree.bind (doneVariants_to_fields o vs p 0) fun _ => Agree.ok _
theorem doneTys_to_fields (o : Options) : ∀ (ts : Tys) (p : String) (i : Nat),
    Agree ((doneTys o p i ts).to_fields o) (mappingTys o p i ts)
  | .nil, _, _ => by simp only [doneTys, Tracers.to_fields, mappingTys]; exact Agree.ok _
  | .cons t r, p, i => by
    simp only [doneTys, Tracers.to_fields, mappingTys]
    exact Agree.bind (done_to_field o t _ _ _) fun _ => Agree.bind (doneTys_to_fields o r p (i + 1)) fun _ => Agree.ok _
theorem doneFields_to_fields (o : Options) : ∀ (fs : TyFields) (p : String),
    Agree ((doneFields o p fs).to_fields o) (mappingFields o p fs)
  | .nil, _ => by simp only [doneFields, TFields.to_fields, mappingFields]; exact Agree.ok _
  | .cons n t r, p => by
    simp only [doneFields, TFields.to_fields, mappingFields]
    exact Agree.bind (done_to_field o t _ _ _) fun _ => Agree.bind (doneFields_to_fields o r p) fun _ => Agree.ok _
theorem doneVariants_to_fields (o : Options) : ∀ (vs : TyVariants) (p : String) (i : Nat),
    Agree ((doneVariants o p vs).to_fields o i) (mappingVariants o p i vs)
  | .nil, _, _ => by simp only [doneVariants, Variants.to_fields, mappingVariants]; exact Agree.ok _
  | .unit n r, p, i => by
    simp only [doneVariants, Variants.to_fields, mappingVariants, Tracer.to_field]
    split
    · exact Agree.fail _ _
    · exact Agree.bind (Agree.overwrite o n _ (agree_null o n)) fun _ =>
        Agree.bind (doneVariants_to_fields o r p (i + 1)) fun _ => Agree.ok _
  | .newtype n t r, p, i => by
    simp only [doneVariants, Variants.to_fields, mappingVariants]
    split
    · exact Agree.fail _ _
    · exact Agree.bind (done_to_field o t _ _ _) fun _ =>
        Agree.bind (doneVariants_to_fields o r p (i + 1)) fun _ => Agree.ok _
  | .tuple n ts r, p, i => by
    simp only [doneVariants, Variants.to_fields, mappingVariants, Tracer.to_field, tupleMeta_eq]
    split
    · exact Agree.fail _ _
    · exact Agree.bind (Agree.overwrite o n _ (Agree.bind (doneTys_to_fields o ts _ 0) fun _ => Agree.ok _)) fun _ =>
        Agree.bind (doneVariants_to_fields o r p (i + 1)) fun _ => Agree.ok _
  | .struct n fs r, p, i => by
    simp only [doneVariants, Variants.to_fields, mappingVariants, Tracer.to_field]
    split
    · exact Agree.fail _ _
    · exact Agree.bind (Agree.overwrite o n _ (Agree.bind (doneFields_to_fields o fs _) fun _ => Agree.ok _)) fun _ =>
        Agree.bind (doneVariants_to_fields o r p (i + 1)) fun _ => Agree.ok _
end

end SaModel.Lemmas.C08
