import SaModel.Lemmas.C08DoneField
/-
C08 — the `ensure_*` calls of one exploration pass on a fresh (`unknown`) node and on a node of the right kind; the
position-shift lemmas of the element / field loops of `TraceTupleStruct` and `TraceStruct`.
-/
namespace SaModel.Lemmas.C08
open SaModel SaModel.Trace SaModel.Trace.Spec

theorem depth_ok (t : Tracer) (h : tooDeep t.path = false) : t.enforce_depth_limit = .ok () := by
  unfold Tracer.enforce_depth_limit Tracer.get_depth
  unfold tooDeep at h
  simp at h
  simp; intro h2; omega

theorem depth_err (t : Tracer) (h : tooDeep t.path = true) :
    t.enforce_depth_limit = fail "Too deeply nested type detected" := by
  unfold Tracer.enforce_depth_limit Tracer.get_depth
  unfold tooDeep at h
  simp at h
  simp [h]

/-! ### beyond the depth limit every container `ensure_*` is the documented error -/

theorem ensure_list_deep (t : Tracer) (h : tooDeep t.path = true) :
    t.ensure_list = fail "Too deeply nested type detected" := by
  unfold Tracer.ensure_list; rw [depth_err t h]; rfl

theorem ensure_map_deep (t : Tracer) (h : tooDeep t.path = true) :
    t.ensure_map = fail "Too deeply nested type detected" := by
  unfold Tracer.ensure_map; rw [depth_err t h]; rfl

theorem ensure_tuple_deep (c : Code) (t : Tracer) (k : Nat) (h : tooDeep t.path = true) :
    t.ensure_tuple c k = fail "Too deeply nested type detected" := by
  unfold Tracer.ensure_tuple; rw [depth_err t h]; rfl

theorem ensure_struct_deep (c : Code) (t : Tracer) (fs : List String) (m : StructMode) (h : tooDeep t.path = true) :
    t.ensure_struct c fs m = fail "Too deeply nested type detected" := by
  unfold Tracer.ensure_struct; rw [depth_err t h]; rfl

theorem ensure_union_deep (t : Tracer) (vs : List String) (h : tooDeep t.path = true) :
    t.ensure_union vs = fail "Too deeply nested type detected" := by
  unfold Tracer.ensure_union; rw [depth_err t h]; rfl

/-! ### on a fresh node -/

theorem ensure_list_unknown (n p : String) (nl : Bool) (h : tooDeep p = false) :
    (Tracer.unknown n p nl).ensure_list = .ok (.list n p nl (.unknown "element" (childPath p "element") false)) := by
  rw [← childPath_element]
  unfold Tracer.ensure_list
  rw [depth_ok (.unknown n p nl) h]
  rfl

theorem ensure_map_unknown (n p : String) (nl : Bool) (h : tooDeep p = false) :
    (Tracer.unknown n p nl).ensure_map =
      .ok (.map n p nl (.unknown "key" (childPath p "key") false) (.unknown "value" (childPath p "value") false)) := by
  rw [← childPath_key, ← childPath_value]
  unfold Tracer.ensure_map
  rw [depth_ok (.unknown n p nl) h]
  rfl

theorem ensure_tuple_unknown (c : Code) (n p : String) (nl : Bool) (k : Nat) (h : tooDeep p = false) :
    (Tracer.unknown n p nl).ensure_tuple c k = .ok (.tuple n p nl (mkTupleFields p k k)) := by
  unfold Tracer.ensure_tuple
  rw [depth_ok (.unknown n p nl) h]
  rfl

theorem ensure_struct_unknown (c : Code) (n p : String) (nl : Bool) (fs : List String) (m : StructMode)
    (h : tooDeep p = false) :
    (Tracer.unknown n p nl).ensure_struct c fs m = .ok (.struct n p nl (mkStructFields p fs) m 0) := by
  unfold Tracer.ensure_struct
  rw [depth_ok (.unknown n p nl) h]
  rfl

theorem ensure_union_unknown (n p : String) (nl : Bool) (vs : List String) (h : tooDeep p = false) :
    (Tracer.unknown n p nl).ensure_union vs = .ok (.union n p nl (mkVariants p vs)) := by
  unfold Tracer.ensure_union
  rw [depth_ok (.unknown n p nl) h]
  rfl

/-! ### on a node of the right kind (second and later passes) -/

theorem ensure_list_list (n p : String) (nl : Bool) (i : Tracer) (h : tooDeep p = false) :
    (Tracer.list n p nl i).ensure_list = .ok (.list n p nl i) := by
  unfold Tracer.ensure_list
  rw [depth_ok (.list n p nl i) h]
  rfl

theorem ensure_map_map (n p : String) (nl : Bool) (k v : Tracer) (h : tooDeep p = false) :
    (Tracer.map n p nl k v).ensure_map = .ok (.map n p nl k v) := by
  unfold Tracer.ensure_map
  rw [depth_ok (.map n p nl k v) h]
  rfl

theorem ensure_struct_struct (c : Code) (n p : String) (nl : Bool) (fs : TFields) (s : Nat) (names : List String)
    (h : tooDeep p = false) :
    (Tracer.struct n p nl fs .struct s).ensure_struct c names .struct = .ok (.struct n p nl fs .struct s) := by
  unfold Tracer.ensure_struct
  rw [depth_ok (.struct n p nl fs .struct s) h]
  cases c.struct_mode_join <;> rfl

theorem ensure_union_union (n p : String) (nl : Bool) (vs : Variants) (names : List String) (h : tooDeep p = false) :
    (Tracer.union n p nl vs).ensure_union names = .ok (.union n p nl vs) := by
  unfold Tracer.ensure_union
  rw [depth_ok (.union n p nl vs) h]
  rfl

theorem markFrom_length : ∀ (ts : Tracers), ts.markFrom ts.length = ts
  | .nil => rfl
  | .cons t r => by simp only [Tracers.length, Tracers.markFrom, markFrom_length r]

theorem ensure_tuple_tuple (c : Code) (n p : String) (nl : Bool) (ts : Tracers) (h : tooDeep p = false) :
    (Tracer.tuple n p nl ts).ensure_tuple c ts.length = .ok (.tuple n p nl ts) := by
  unfold Tracer.ensure_tuple
  rw [depth_ok (.tuple n p nl ts) h]
  cases c.tuple_arity_nullable
  · rfl
  · simp only [bind, Except.bind, Tracer.is_unknown_or_null, markFrom_length, tupleGrowNullable, Nat.sub_self,
      List.range_zero, List.foldl_nil]
    rfl

/-! ### the element / field loops: a prefix that is not visited stays -/

theorem exploreTys_shift (c : Code) (o : Options) (t : Tracer) : ∀ (ts : Tys) (fts : Tracers) (pos : Nat),
    exploreTys c o (.cons t fts) (pos + 1) ts = (exploreTys c o fts pos ts).map (Tracers.cons t)
  | .nil, _, _ => by simp only [exploreTys]; rfl
  | .cons ty r, fts, pos => by
    simp only [exploreTys, Tracers.get?]
    cases fts.get? pos with
    | none => rfl
    | some ft =>
      simp only
      cases explore c o ft ty with
      | error e => rfl
      | ok ft' =>
        simp only [bind, Except.bind, Tracers.set]
        exact exploreTys_shift c o t r (fts.set pos ft') (pos + 1)

theorem exploreFields_shift (c : Code) (o : Options) (n : String) (l : Nat) (t : Tracer) :
    ∀ (fields : TyFields) (fs : TFields) (pos : Nat),
    exploreFields c o (.cons n l t fs) (pos + 1) fields = (exploreFields c o fs pos fields).map (TFields.cons n l t)
  | .nil, _, _ => by simp only [exploreFields]; rfl
  | .cons _ ty r, fs, pos => by
    simp only [exploreFields, TFields.get?]
    cases fs.get? pos with
    | none => rfl
    | some ft =>
      simp only
      cases explore c o ft ty with
      | error e => rfl
      | ok ft' =>
        simp only [bind, Except.bind, TFields.set]
        exact exploreFields_shift c o n l t r (fs.set pos ft') (pos + 1)

end SaModel.Lemmas.C08
