import SaModel.Lemmas.C08Ensure
/-
C08 — one exploration pass over an enum-free type description, started on a fresh node, ends in the complete tracer
`done` of the type (when the type can be walked: depth limit, `map_as_struct`), and is the documented error otherwise.
-/
namespace SaModel.Lemmas.C08
open SaModel SaModel.Trace SaModel.Trace.Spec

mutual
/-- no enum anywhere in the type -/
def enumFree : Ty → Bool
  | .option t | .vec t | .newtypeStruct _ t => enumFree t
  | .tuple ts | .tupleStruct _ ts => enumFreeTys ts
  | .map k v => enumFree k && enumFree v
  | .struct _ fs => enumFreeFields fs
  | .enum _ _ => false
  | _ => true
def enumFreeTys : Tys → Bool
  | .nil => true
  | .cons t r => enumFree t && enumFreeTys r
def enumFreeFields : TyFields → Bool
  | .nil => true
  | .cons _ t r => enumFree t && enumFreeFields r
end

/-- outcome of a pass: the tracer `d` when the type is walkable (`w`), a Rust error otherwise -/
def PassTo {α} (r : R α) (w : Bool) (d : α) : Prop :=
  (w = true → r = .ok d) ∧ (w = false → ∃ m, r = .error (.err m))

theorem PassTo.ok {α} (d : α) : PassTo (.ok d : R α) true d := ⟨fun _ => rfl, fun h => Bool.noConfusion h⟩

theorem PassTo.fail {α} (m : String) (d : α) : PassTo (fail m : R α) false d := ⟨fun h => Bool.noConfusion h, fun _ => ⟨m, rfl⟩⟩

theorem ensure_primitive_unknown (o : Options) (n p : String) (nl : Bool) (dt : DataType) :
    (Tracer.unknown n p nl).ensure_primitive o dt = .ok (.primitive n p (nl || isNull dt) dt none) := rfl

mutual
theorem explore_done (c : Code) (o : Options) : ∀ (ty : Ty) (n p : String) (nl : Bool), enumFree ty = true →
    PassTo (explore c o (.unknown n p nl) ty) (walkable o p ty) (done o n p nl ty)
  | .unit, n, p, nl, _ | .unitStruct _, n, p, nl, _ => by
    simp only [explore, ensure_primitive_unknown, isNull, Bool.or_true, walkable, done]; exact PassTo.ok _
  | .bool, n, p, nl, _ | .f32, n, p, nl, _ | .f64, n, p, nl, _ | .char, n, p, nl, _ | .bytes, n, p, nl, _ => by
    simp only [explore, ensure_primitive_unknown, isNull, Bool.or_false, walkable, done]; exact PassTo.ok _
  | .int t, n, p, nl, _ => by
    simp only [explore, ensure_primitive_unknown, walkable, done]
    cases t <;> simp only [intDataType, isNull, Bool.or_false] <;> exact PassTo.ok _
  | .string, n, p, nl, _ => by
    simp only [explore, walkable, done]
    show PassTo (.ok (Tracer.primitive n p (nl || isNull o.string_type) o.string_type none)) true _
    have : isNull o.string_type = false := by unfold Options.string_type; split <;> rfl
    rw [this, Bool.or_false]; exact PassTo.ok _
  | .option t, n, p, nl, h => by
    simp only [explore, walkable, done, Tracer.mark_nullable, Tracer.set_nullable]
    exact explore_done c o t n p true (by simpa only [enumFree] using h)
  | .newtypeStruct _ t, n, p, nl, h => by
    simp only [explore, walkable, done]
    exact explore_done c o t n p nl (by simpa only [enumFree] using h)
  | .vec t, n, p, nl, h => by
    simp only [explore, walkable, done]
    cases hd : tooDeep p with
    | true => rw [ensure_list_deep (.unknown n p nl) hd]; exact PassTo.fail _ _
    | false =>
      rw [ensure_list_unknown n p nl hd]
      have ih := explore_done c o t "element" (childPath p "element") false (by simpa only [enumFree] using h)
      simp only [bind, Except.bind, Bool.not_false, Bool.true_and]
      cases hw : walkable o (childPath p "element") t with
      | true => rw [hw] at ih; rw [ih.1 rfl]; exact PassTo.ok _
      | false => rw [hw] at ih; obtain ⟨m, hm⟩ := ih.2 rfl; rw [hm]; exact PassTo.fail m _
  | .map k v, n, p, nl, h => by
    simp only [explore, walkable, done]
    simp only [enumFree, Bool.and_eq_true] at h
    cases hm : o.map_as_struct with
    | true => simp only [if_true, Bool.not_true, Bool.false_and]; exact PassTo.fail _ _
    | false =>
      simp only [Bool.false_eq_true, if_false, Bool.not_false, Bool.true_and]
      cases hd : tooDeep p with
      | true => rw [ensure_map_deep (.unknown n p nl) hd]; exact PassTo.fail _ _
      | false =>
        rw [ensure_map_unknown n p nl hd]
        have ihk := explore_done c o k "key" (childPath p "key") false h.1
        have ihv := explore_done c o v "value" (childPath p "value") false h.2
        simp only [bind, Except.bind, Bool.not_false, Bool.true_and]
        cases hwk : walkable o (childPath p "key") k with
        | false => rw [hwk] at ihk; obtain ⟨m, hm⟩ := ihk.2 rfl; rw [hm]; exact PassTo.fail m _
        | true =>
          rw [hwk] at ihk; rw [ihk.1 rfl]
          cases hwv : walkable o (childPath p "value") v with
          | true => rw [hwv] at ihv; rw [ihv.1 rfl]; exact PassTo.ok _
          | false => rw [hwv] at ihv; obtain ⟨m, hm⟩ := ihv.2 rfl; rw [hm]; exact PassTo.fail m _
  | .tuple ts, n, p, nl, h | .tupleStruct _ ts, n, p, nl, h => by
    simp only [explore, walkable, done]
    cases hd : tooDeep p with
    | true => rw [ensure_tuple_deep c (.unknown n p nl) _ hd]; exact PassTo.fail _ _
    | false =>
      rw [ensure_tuple_unknown c n p nl _ hd]
      have ih := exploreTys_done c o ts p ts.length (by simpa only [enumFree] using h) (Nat.le_refl _)
      rw [Nat.sub_self] at ih
      simp only [bind, Except.bind, Bool.not_false, Bool.true_and]
      cases hw : walkableTys o p 0 ts with
      | true => rw [hw] at ih; rw [ih.1 rfl]; exact PassTo.ok _
      | false => rw [hw] at ih; obtain ⟨m, hm⟩ := ih.2 rfl; rw [hm]; exact PassTo.fail m _
  | .struct _ fs, n, p, nl, h => by
    simp only [explore, walkable, done]
    cases hd : tooDeep p with
    | true => rw [ensure_struct_deep c (.unknown n p nl) _ _ hd]; exact PassTo.fail _ _
    | false =>
      rw [ensure_struct_unknown c n p nl _ _ hd]
      have ih := exploreFields_done c o fs p (by simpa only [enumFree] using h)
      simp only [bind, Except.bind, Bool.not_false, Bool.true_and]
      cases hw : walkableFields o p fs with
      | true => rw [hw] at ih; rw [ih.1 rfl]; exact PassTo.ok _
      | false => rw [hw] at ih; obtain ⟨m, hm⟩ := ih.2 rfl; rw [hm]; exact PassTo.fail m _
theorem exploreTys_done (c : Code) (o : Options) : ∀ (ts : Tys) (p : String) (N : Nat), enumFreeTys ts = true →
    ts.length ≤ N →
    PassTo (exploreTys c o (mkTupleFields p N ts.length) 0 ts) (walkableTys o p (N - ts.length) ts)
      (doneTys o p (N - ts.length) ts)
  | .nil, p, N, _, _ => by
    simp only [exploreTys, walkableTys, doneTys, Tys.length, mkTupleFields]; exact PassTo.ok _
  | .cons t r, p, N, h, hl => by
    simp only [enumFreeTys, Bool.and_eq_true] at h
    simp only [Tys.length] at hl ⊢
    simp only [exploreTys, walkableTys, doneTys, mkTupleFields, Tracers.get?, Tracer.new]
    have e : N - (r.length + 1) + 1 = N - r.length := by omega
    have ih := explore_done c o t (toString (N - (r.length + 1))) (childPath p (toString (N - (r.length + 1)))) false h.1
    have ihr := exploreTys_done c o r p N h.2 (by omega)
    rw [e]
    cases hw : walkable o (childPath p (toString (N - (r.length + 1)))) t with
    | false =>
      rw [hw] at ih; obtain ⟨m, hm⟩ := ih.2 rfl
      simp only [childPath] at hm
      simp only [hm, bind, Except.bind, Bool.false_and]; exact PassTo.fail m _
    | true =>
      rw [hw] at ih
      have h1 := ih.1 rfl
      simp only [childPath] at h1
      simp only [h1, bind, Except.bind, Bool.true_and, Tracers.set, exploreTys_shift]
      cases hwr : walkableTys o p (N - r.length) r with
      | true => rw [hwr] at ihr; rw [ihr.1 rfl]; exact PassTo.ok _
      | false => rw [hwr] at ihr; obtain ⟨m, hm⟩ := ihr.2 rfl; rw [hm]; exact PassTo.fail m _
theorem exploreFields_done (c : Code) (o : Options) : ∀ (fs : TyFields) (p : String), enumFreeFields fs = true →
    PassTo (exploreFields c o (mkStructFields p fs.names) 0 fs) (walkableFields o p fs) (doneFields o p fs)
  | .nil, p, _ => by
    simp only [exploreFields, walkableFields, doneFields]; exact PassTo.ok _
  | .cons fname t r, p, h => by
    simp only [enumFreeFields, Bool.and_eq_true] at h
    simp only [exploreFields, walkableFields, doneFields, TyFields.names, mkStructFields, TFields.get?, Tracer.new]
    have ih := explore_done c o t fname (childPath p fname) false h.1
    have ihr := exploreFields_done c o r p h.2
    cases hw : walkable o (childPath p fname) t with
    | false =>
      rw [hw] at ih; obtain ⟨m, hm⟩ := ih.2 rfl
      simp only [childPath] at hm
      simp only [hm, bind, Except.bind, Bool.false_and]; exact PassTo.fail m _
    | true =>
      rw [hw] at ih
      have h1 := ih.1 rfl
      simp only [childPath] at h1
      simp only [h1, bind, Except.bind, Bool.true_and, TFields.set, exploreFields_shift]
      cases hwr : walkableFields o p r with
      | true => rw [hwr] at ihr; rw [ihr.1 rfl]; exact PassTo.ok _
      | false => rw [hwr] at ihr; obtain ⟨m, hm⟩ := ihr.2 rfl; rw [hm]; exact PassTo.fail m _
end

end SaModel.Lemmas.C08
