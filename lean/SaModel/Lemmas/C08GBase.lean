import SaModel.Lemmas.C08GVariants
/-
C08 — building blocks of the general sample invariant `absorb (sstate ty xs) x = sstate ty (xs ++ [x])`: what a value of
a type looks like (`hasTy` inverted per type constructor), the `ensure_*` call on a node that has seen `xs`, a sample of
an enum as a sample of its variant's payload type.
-/
namespace SaModel.Lemmas.C08
open SaModel SaModel.Trace SaModel.Trace.Spec

theorem isEmpty_snoc {α} (xs : List α) (x : α) : (xs ++ [x]).isEmpty = false := by cases xs <;> rfl

theorem seen_cases (xs : List SVal) (n p : String) (nl : Bool) (t : Tracer) :
    seen xs n p nl t = .unknown n p nl ∨ seen xs n p nl t = t := by
  cases xs
  · left; rfl
  · right; rfl

/-! ### `hasTy`, inverted -/

theorem hasTy_unit {o : Options} {x : SVal} (h : hasTy o x .unit = true) : x = .unit := by
  cases x <;> simp [hasTy] at h ⊢

theorem hasTy_unitStruct {o : Options} {x : SVal} {sn : String} (h : hasTy o x (.unitStruct sn) = true) :
    ∃ m, x = .unitStruct m := by
  cases x <;> simp [hasTy] at h ⊢

theorem hasTy_bool {o : Options} {x : SVal} (h : hasTy o x .bool = true) : ∃ b, x = .bool b := by
  cases x <;> simp [hasTy] at h ⊢

theorem hasTy_int {o : Options} {x : SVal} {t : IntTy} (h : hasTy o x (.int t) = true) : ∃ v, x = .int t v := by
  cases x <;> simp [hasTy] at h ⊢
  exact h

theorem hasTy_f32 {o : Options} {x : SVal} (h : hasTy o x .f32 = true) : ∃ b, x = .f32 b := by
  cases x <;> simp [hasTy] at h ⊢

theorem hasTy_f64 {o : Options} {x : SVal} (h : hasTy o x .f64 = true) : ∃ b, x = .f64 b := by
  cases x <;> simp [hasTy] at h ⊢

theorem hasTy_char {o : Options} {x : SVal} (h : hasTy o x .char = true) : ∃ b, x = .char b := by
  cases x <;> simp [hasTy] at h ⊢

theorem hasTy_bytes {o : Options} {x : SVal} (h : hasTy o x .bytes = true) : ∃ b, x = .bytes b := by
  cases x <;> simp [hasTy] at h ⊢

theorem hasTy_string {o : Options} {x : SVal} (h : hasTy o x .string = true) :
    ∃ s, x = .str s ∧ strType o s = o.string_type := by
  cases x <;> simp [hasTy] at h ⊢
  exact h

theorem hasTy_option {o : Options} {x : SVal} {t : Ty} (h : hasTy o x (.option t) = true) :
    x = .none ∨ ∃ v, x = .some v ∧ hasTy o v t = true := by
  cases x <;> simp [hasTy] at h ⊢
  exact h

theorem hasTy_newtypeStruct {o : Options} {x : SVal} {sn : String} {t : Ty} (h : hasTy o x (.newtypeStruct sn t) = true) :
    ∃ m v, x = .newtypeStruct m v ∧ hasTy o v t = true := by
  cases x <;> simp [hasTy] at h ⊢
  exact ⟨_, _, ⟨rfl, rfl⟩, h⟩

theorem hasTy_vec {o : Options} {x : SVal} {t : Ty} (h : hasTy o x (.vec t) = true) :
    ∃ items, x = .seq items ∧ hasTyAll o items t = true := by
  cases x <;> simp [hasTy] at h ⊢
  exact h

theorem hasTy_tuple {o : Options} {x : SVal} {ts : Tys} (h : hasTy o x (.tuple ts) = true) :
    ∃ items, x = .tuple items ∧ hasTys o items ts = true := by
  cases x <;> simp [hasTy] at h ⊢
  exact h

theorem hasTy_tupleStruct {o : Options} {x : SVal} {sn : String} {ts : Tys} (h : hasTy o x (.tupleStruct sn ts) = true) :
    ∃ m items, x = .tupleStruct m items ∧ hasTys o items ts = true := by
  cases x <;> simp [hasTy] at h ⊢
  exact ⟨_, _, ⟨rfl, rfl⟩, h⟩

theorem hasTy_map {o : Options} {x : SVal} {k v : Ty} (h : hasTy o x (.map k v) = true) :
    ∃ es, x = .map es ∧ hasEntries o es k v = true := by
  cases x <;> simp [hasTy] at h ⊢
  exact h

theorem hasTy_struct {o : Options} {x : SVal} {sn : String} {fs : TyFields} (h : hasTy o x (.struct sn fs) = true) :
    ∃ m sf, x = .record m sf ∧ hasFields o sf fs = true := by
  cases x <;> simp [hasTy] at h ⊢
  exact ⟨_, _, ⟨rfl, rfl⟩, h⟩

theorem hasTys_nil {o : Options} {items : SVals} (h : hasTys o items .nil = true) : items = .nil := by
  cases items <;> simp [hasTys] at h ⊢

theorem hasTys_cons {o : Options} {items : SVals} {t : Ty} {r : Tys} (h : hasTys o items (.cons t r) = true) :
    ∃ v ir, items = .cons v ir ∧ hasTy o v t = true ∧ hasTys o ir r = true := by
  cases items <;> simp [hasTys] at h ⊢
  exact ⟨_, _, ⟨rfl, rfl⟩, h⟩

theorem hasTys_length {o : Options} : ∀ {ts : Tys} {items : SVals}, hasTys o items ts = true → items.length = ts.length
  | .nil, items, h => by rw [hasTys_nil h]; rfl
  | .cons t r, items, h => by
    obtain ⟨v, ir, rfl, _, h2⟩ := hasTys_cons h
    simp only [SVals.length, Tys.length, hasTys_length h2]

theorem hasFields_nil {o : Options} {sf : SFields} (h : hasFields o sf .nil = true) : sf = .nil := by
  cases sf <;> simp [hasFields] at h ⊢

theorem hasFields_cons {o : Options} {sf : SFields} {n : String} {t : Ty} {r : TyFields}
    (h : hasFields o sf (.cons n t r) = true) :
    ∃ a v sr, sf = .cons n a v sr ∧ hasTy o v t = true ∧ hasFields o sr r = true := by
  cases sf with
  | nil => simp [hasFields] at h
  | cons k a v sr =>
    simp only [hasFields, Bool.and_eq_true, decide_eq_true_eq] at h
    obtain ⟨⟨rfl, h2⟩, h3⟩ := h
    exact ⟨a, v, sr, rfl, h2, h3⟩

/-! ### variants -/

def VKind.toTy (vn : String) : VKind → Ty
  | .unit => .unit
  | .newtype t => t
  | .tuple ts => .tuple ts
  | .struct fs => .struct vn fs

theorem variantAt_vList : ∀ (vs : TyVariants) (idx : Nat) (vn : String) (k : VKind),
    variantAt vs idx = some (vn, k) → (vList vs)[idx]? = some (vn, k.toTy vn)
  | .nil, _, _, _, h => by simp [variantAt] at h
  | .unit n r, 0, vn, k, h | .newtype n t r, 0, vn, k, h | .tuple n ts r, 0, vn, k, h | .struct n fs r, 0, vn, k, h => by
    simp only [variantAt, Option.some.injEq, Prod.mk.injEq] at h
    obtain ⟨rfl, rfl⟩ := h
    simp only [vList, List.getElem?_cons_zero, VKind.toTy]
  | .unit n r, i + 1, vn, k, h | .newtype n t r, i + 1, vn, k, h | .tuple n ts r, i + 1, vn, k, h
  | .struct n fs r, i + 1, vn, k, h => by
    simp only [variantAt] at h
    simp only [vList, List.getElem?_cons_succ]
    exact variantAt_vList r i vn k h

/-- a value of an enum is a sample of one variant `idx` with a payload `y` that is a value of the variant's payload type;
absorbing it is `ensure_union_variant`, absorbing `y` into the variant's tracer, and putting the result back -/
theorem variant_absorb (c : Code) (o : Options) (en : String) (vs : TyVariants) (x : SVal)
    (h : hasTy o x (.enum en vs) = true) :
    ∃ idx vn T y, (vList vs)[idx]? = some (vn, T) ∧ payAt idx x = some y ∧ (∀ k, k ≠ idx → payAt k x = none) ∧
      hasTy o y T = true ∧
      ∀ (t : Tracer) (n p : String) (nl : Bool) (V : Variants) (vt vt' : Tracer),
        ensure_union_variant t vn idx = .ok (n, p, nl, V, vt) → absorb c o vt y = .ok vt' →
        absorb c o t x = .ok (.union n p nl (V.set idx vn vt')) := by
  cases x with
  | unitVariant nm idx vn =>
    simp only [hasTy] at h
    cases hv : variantAt vs idx with
    | none => simp [hv] at h
    | some pr =>
      obtain ⟨vn', k⟩ := pr
      cases k with
      | newtype _ | tuple _ | struct _ => simp [hv] at h
      | unit =>
      simp only [hv, decide_eq_true_eq] at h
      subst h
      refine ⟨idx, vn, .unit, .unit, variantAt_vList vs idx vn _ hv, by simp [payAt], ?_, by simp [hasTy], ?_⟩
      · intro k hk; simp only [payAt]; rw [if_neg (fun e => hk e.symm)]
      · intro t n p nl V vt vt' h1 h2
        simp only [absorb] at h2
        simp only [absorb, h1, bind, Except.bind, h2]
  | newtypeVariant nm idx vn v =>
    simp only [hasTy] at h
    cases hv : variantAt vs idx with
    | none => simp [hv] at h
    | some pr =>
      obtain ⟨vn', k⟩ := pr
      cases k with
      | unit | tuple _ | struct _ => simp [hv] at h
      | newtype _ =>
      simp only [hv, decide_eq_true_eq, Bool.and_eq_true] at h
      obtain ⟨rfl, h2⟩ := h
      refine ⟨idx, vn, _, v, variantAt_vList vs idx vn _ hv, by simp [payAt], ?_, h2, ?_⟩
      · intro k hk; simp only [payAt]; rw [if_neg (fun e => hk e.symm)]
      · intro t n p nl V vt vt' h1 h2
        simp only [absorb, h1, bind, Except.bind, h2]
  | tupleVariant nm idx vn items =>
    simp only [hasTy] at h
    cases hv : variantAt vs idx with
    | none => simp [hv] at h
    | some pr =>
      obtain ⟨vn', k⟩ := pr
      cases k with
      | unit | newtype _ | struct _ => simp [hv] at h
      | tuple _ =>
      simp only [hv, decide_eq_true_eq, Bool.and_eq_true] at h
      obtain ⟨rfl, h2⟩ := h
      refine ⟨idx, vn, _, .tuple items, variantAt_vList vs idx vn _ hv, by simp [payAt], ?_, by simpa [hasTy, VKind.toTy] using h2, ?_⟩
      · intro k hk; simp only [payAt]; rw [if_neg (fun e => hk e.symm)]
      · intro t n p nl V vt vt' h1 h2
        simp only [absorb, bind, Except.bind] at h2
        simp only [absorb, h1, bind, Except.bind]
        cases he : vt.ensure_tuple c items.length with
        | error e => rw [he] at h2; cases h2
        | ok vt1 =>
          rw [he] at h2
          cases vt1 with
          | tuple n' p' nl' fts =>
            simp only at h2 ⊢
            cases ha : absorbTuple c o p' fts 0 items with
            | error e => rw [ha] at h2; cases h2
            | ok fts' => rw [ha] at h2; simp only [Except.ok.injEq] at h2; subst h2; rfl
          | unknown _ _ _ | primitive _ _ _ _ _ | list _ _ _ _ | map _ _ _ _ _ | struct _ _ _ _ _ _ | union _ _ _ _ =>
            simp only at h2; cases h2
  | structVariant nm idx vn sf =>
    simp only [hasTy] at h
    cases hv : variantAt vs idx with
    | none => simp [hv] at h
    | some pr =>
      obtain ⟨vn', k⟩ := pr
      cases k with
      | unit | newtype _ | tuple _ => simp [hv] at h
      | struct _ =>
      simp only [hv, decide_eq_true_eq, Bool.and_eq_true] at h
      obtain ⟨rfl, h2⟩ := h
      refine ⟨idx, vn, _, .record vn sf, variantAt_vList vs idx vn _ hv, by simp [payAt], ?_, by simpa [hasTy, VKind.toTy] using h2, ?_⟩
      · intro k hk; simp only [payAt]; rw [if_neg (fun e => hk e.symm)]
      · intro t n p nl V vt vt' h1 h2
        simp only [absorb, bind, Except.bind] at h2
        simp only [absorb, h1, bind, Except.bind]
        cases he : vt.ensure_struct c [] .struct with
        | error e => rw [he] at h2; cases h2
        | ok vt1 =>
          rw [he] at h2
          cases vt1 with
          | struct n' p' nl' tfs md sn =>
            simp only at h2 ⊢
            cases ha : absorbFields c o p' sn tfs sf with
            | error e => rw [ha] at h2; cases h2
            | ok tfs' => rw [ha] at h2; simp only [Except.ok.injEq] at h2; subst h2; rfl
          | unknown _ _ _ | primitive _ _ _ _ _ | list _ _ _ _ | map _ _ _ _ _ | tuple _ _ _ _ | union _ _ _ _ =>
            simp only at h2; cases h2
  | none | unit | some _ | bool _ | int _ _ | f32 _ | f64 _ | char _ | str _ | bytes _ | seq _ | tuple _
  | tupleStruct _ _ | newtypeStruct _ _ | unitStruct _ | record _ _ | map _ | mapRaw _ => simp [hasTy] at h

theorem payloadsAt_snoc_same (xs : List SVal) (x y : SVal) (k : Nat) (h : payAt k x = some y) :
    payloadsAt k (xs ++ [x]) = payloadsAt k xs ++ [y] := by
  simp only [payloadsAt, List.filterMap_append, List.filterMap_cons, h, List.filterMap_nil]

theorem payloadsAt_snoc_other (xs : List SVal) (x : SVal) (k : Nat) (h : payAt k x = none) :
    payloadsAt k (xs ++ [x]) = payloadsAt k xs := by
  simp only [payloadsAt, List.filterMap_append, List.filterMap_cons, h, List.filterMap_nil, List.append_nil]

theorem anyFrom_nil : ∀ (len i : Nat), anyFrom len i [] = false
  | 0, _ => rfl
  | len + 1, i => by simp only [anyFrom, payloadsAt, List.filterMap_nil, List.isEmpty_nil, Bool.not_true, Bool.false_or,
      anyFrom_nil len (i + 1)]

/-! ### leaves -/

theorem leaf_gen (o : Options) (n p : String) (nl : Bool) (dt : DataType) (hnn : isNull dt = false) (xs : List SVal)
    (x : SVal) :
    (seen xs n p nl (.primitive n p nl dt none)).ensure_primitive_with_strategy o dt none =
      .ok (seen (xs ++ [x]) n p nl (.primitive n p nl dt none)) := by
  rw [seen_append]; exact prim_step o n p nl dt hnn _ (seen_cases xs n p nl _)

theorem null_gen (o : Options) (n p : String) (nl : Bool) (xs : List SVal) (x : SVal) :
    (seen xs n p nl (.primitive n p true .null none)).ensure_primitive_with_strategy o .null none =
      .ok (seen (xs ++ [x]) n p nl (.primitive n p true .null none)) := by
  rw [seen_append]; exact null_step o n p nl _ (seen_cases xs n p nl _)

/-! ### `ensure_*` on a node that has seen `xs` -/

theorem ensure_list_seen (xs : List SVal) (n p : String) (nl : Bool) (E : List SVal → Tracer)
    (hE : E [] = .unknown "element" (childPath p "element") false) (hd : tooDeep p = false) (f : List SVal → List SVal)
    (hf : f [] = []) :
    (seen xs n p nl (.list n p nl (E (f xs)))).ensure_list = .ok (.list n p nl (E (f xs))) := by
  cases xs with
  | nil => simp only [seen_nil, ensure_list_unknown n p nl hd, hf, hE]
  | cons y r => rw [seen_ne (by simp)]; exact ensure_list_list n p nl _ hd

theorem mkTupleFields_sstate (o : Options) (p : String) (N : Nat) : ∀ (ts : Tys), ts.length ≤ N →
    mkTupleFields p N ts.length = sstateTys o p (N - ts.length) ts []
  | .nil, _ => by simp only [Tys.length, mkTupleFields, sstateTys]
  | .cons t r, h => by
    simp only [Tys.length] at h ⊢
    have e : N - (r.length + 1) + 1 = N - r.length := by omega
    simp only [mkTupleFields, sstateTys, List.filterMap_nil, sstate_nil, Tracer.new, e,
      mkTupleFields_sstate o p N r (by omega)]
    rfl

theorem ensure_tuple_seen (c : Code) (o : Options) (xs : List SVal) (n p : String) (nl : Bool) (ts : Tys)
    (hd : tooDeep p = false) (f : List SVal → List SVals) (hf : f [] = []) :
    (seen xs n p nl (.tuple n p nl (sstateTys o p 0 ts (f xs)))).ensure_tuple c ts.length =
      .ok (.tuple n p nl (sstateTys o p 0 ts (f xs))) := by
  cases xs with
  | nil =>
    have h1 := mkTupleFields_sstate o p ts.length ts (Nat.le_refl _)
    rw [Nat.sub_self] at h1
    simp only [seen_nil, ensure_tuple_unknown c n p nl _ hd, h1, hf]
  | cons y r =>
    rw [seen_ne (by simp)]
    have h2 := ensure_tuple_tuple c n p nl (sstateTys o p 0 ts (f (y :: r))) hd
    rw [sstateTys_length] at h2
    exact h2

theorem ensure_map_seen (xs : List SVal) (n p : String) (nl : Bool) (K V : Tracer)
    (hK : xs = [] → K = .unknown "key" (childPath p "key") false)
    (hV : xs = [] → V = .unknown "value" (childPath p "value") false) (hd : tooDeep p = false) :
    (seen xs n p nl (.map n p nl K V)).ensure_map = .ok (.map n p nl K V) := by
  cases xs with
  | nil => simp only [seen_nil, ensure_map_unknown n p nl hd, hK rfl, hV rfl]
  | cons y r => rw [seen_ne (by simp)]; exact ensure_map_map n p nl _ _ hd

end SaModel.Lemmas.C08
