import SaModel.Lemmas.C08GDone
/-
C08 — `covers` is exactly what the tracer needs: the tracer of the values `xs` is (up to the sample counters) the complete
tracer `done` of the type IF AND ONLY IF `covers ty xs` (`covers_iff_done`); the covering samples of `sampleAt` are values
of the type (`hasTy_sampleAt`) and hence the canonical list `covering ty` is a covering collection (`covering_Covers`).
-/
namespace SaModel.Lemmas.C08
open SaModel SaModel.Trace SaModel.Trace.Spec

theorem seen_erase_inv {xs : List SVal} {n p : String} {nl : Bool} {t u : Tracer} (h : erase (seen xs n p nl t) = u)
    (hu : ∀ nl', u ≠ .unknown n p nl') : (!xs.isEmpty) = true ∧ erase t = u := by
  cases xs with
  | nil => exact absurd h.symm (hu nl)
  | cons y r => exact ⟨rfl, h⟩

theorem slot_inv {ys : List SVal} {n : String} {t : Tracer} {R : Variants} {n' : String} {t' : Tracer} {R' : Variants}
    (h : eraseVariants (slot ys n t R) = .present n' t' R') :
    (!ys.isEmpty) = true ∧ erase t = t' ∧ eraseVariants R = R' := by
  cases ys with
  | nil => simp only [slot, List.isEmpty_nil, if_true, eraseVariants] at h; cases h
  | cons y r =>
    simp only [slot, List.isEmpty_cons, Bool.false_eq_true, if_false, eraseVariants, Variants.present.injEq] at h
    exact ⟨rfl, h.2.1, h.2.2⟩

mutual
/-- the tracer of `xs` is complete only if `xs` covers the type -/
theorem covers_of_erase (o : Options) : ∀ (ty : Ty) (n p : String) (nl nl' : Bool) (xs : List SVal),
    erase (sstate o n p nl ty xs) = done o n p nl' ty → covers ty xs = true
  | .unit, n, p, nl, nl', xs, h | .unitStruct _, n, p, nl, nl', xs, h | .bool, n, p, nl, nl', xs, h
  | .int _, n, p, nl, nl', xs, h | .f32, n, p, nl, nl', xs, h | .f64, n, p, nl, nl', xs, h | .char, n, p, nl, nl', xs, h
  | .string, n, p, nl, nl', xs, h | .bytes, n, p, nl, nl', xs, h => by
    simp only [sstate, done] at h
    simp only [covers]
    exact (seen_erase_inv h (fun _ e => by cases e)).1
  | .option t, n, p, nl, nl', xs, h => by
    simp only [sstate, done] at h
    simp only [covers]; exact covers_of_erase o t n p _ true _ h
  | .newtypeStruct _ t, n, p, nl, nl', xs, h => by
    simp only [sstate, done] at h
    simp only [covers]; exact covers_of_erase o t n p _ nl' _ h
  | .vec t, n, p, nl, nl', xs, h => by
    simp only [sstate, done] at h
    obtain ⟨_, h2⟩ := seen_erase_inv h (fun _ e => by cases e)
    simp only [erase, Tracer.list.injEq] at h2
    simp only [covers]; exact covers_of_erase o t _ _ _ false _ h2.2.2.2
  | .tuple ts, n, p, nl, nl', xs, h | .tupleStruct _ ts, n, p, nl, nl', xs, h => by
    simp only [sstate, done] at h
    obtain ⟨h1, h2⟩ := seen_erase_inv h (fun _ e => by cases e)
    simp only [erase, Tracer.tuple.injEq] at h2
    simp only [covers, h1, Bool.true_and]; exact coversTys_of_erase o ts p 0 _ h2.2.2.2
  | .map kt vt, n, p, nl, nl', xs, h => by
    simp only [sstate, done] at h
    obtain ⟨_, h2⟩ := seen_erase_inv h (fun _ e => by cases e)
    simp only [erase, Tracer.map.injEq] at h2
    simp only [covers, covers_of_erase o kt _ _ _ false _ h2.2.2.2.1, covers_of_erase o vt _ _ _ false _ h2.2.2.2.2,
      Bool.and_self]
  | .struct _ fs, n, p, nl, nl', xs, h => by
    simp only [sstate, done] at h
    obtain ⟨h1, h2⟩ := seen_erase_inv h (fun _ e => by cases e)
    simp only [erase, Tracer.struct.injEq] at h2
    simp only [covers, h1, Bool.true_and]; exact coversFields_of_erase o fs p _ _ h2.2.2.2.1
  | .enum _ vs, n, p, nl, nl', xs, h => by
    simp only [sstate, done] at h
    obtain ⟨h1, h2⟩ := seen_erase_inv h (fun _ e => by cases e)
    simp only [erase, Tracer.union.injEq] at h2
    simp only [covers, h1, Bool.true_and]; exact coversVariants_of_erase o vs p 0 xs h2.2.2.2
theorem coversTys_of_erase (o : Options) : ∀ (ts : Tys) (p : String) (i : Nat) (XS : List SVals),
    eraseTracers (sstateTys o p i ts XS) = doneTys o p i ts → coversTys ts XS = true
  | .nil, _, _, _, _ => rfl
  | .cons t r, p, i, XS, h => by
    simp only [sstateTys, eraseTracers, doneTys, Tracers.cons.injEq] at h
    simp only [coversTys, covers_of_erase o t _ _ _ false _ h.1, coversTys_of_erase o r p (i + 1) _ h.2, Bool.and_self]
theorem coversFields_of_erase (o : Options) : ∀ (fs : TyFields) (p : String) (m : Nat) (XS : List SFields),
    eraseFields (sstateFields o p m fs XS) = doneFields o p fs → coversFields fs XS = true
  | .nil, _, _, _, _ => rfl
  | .cons _ t r, p, m, XS, h => by
    simp only [sstateFields, eraseFields, doneFields, TFields.cons.injEq] at h
    simp only [coversFields, covers_of_erase o t _ _ _ false _ h.2.2.1, coversFields_of_erase o r p m _ h.2.2.2,
      Bool.and_self]
theorem coversVariants_of_erase (o : Options) : ∀ (vs : TyVariants) (p : String) (i : Nat) (xs : List SVal),
    eraseVariants (sstateVariants o p i vs xs) = doneVariants o p vs → coversVariants i vs xs = true
  | .nil, _, _, _, _ => rfl
  | .unit n rest, p, i, xs, h => by
    simp only [sstateVariants, doneVariants] at h
    split at h
    · obtain ⟨h1, _, h3⟩ := slot_inv h
      simp only [coversVariants, h1, coversVariants_of_erase o rest p (i + 1) xs h3, Bool.and_self]
    · simp only [eraseVariants] at h; cases h
  | .newtype n t rest, p, i, xs, h => by
    simp only [sstateVariants, doneVariants] at h
    split at h
    · obtain ⟨_, h2, h3⟩ := slot_inv h
      simp only [coversVariants, covers_of_erase o t _ _ _ false _ h2, coversVariants_of_erase o rest p (i + 1) xs h3,
        Bool.and_self]
    · simp only [eraseVariants] at h; cases h
  | .tuple n ts rest, p, i, xs, h => by
    simp only [sstateVariants, doneVariants] at h
    split at h
    · obtain ⟨h1, h2, h3⟩ := slot_inv h
      simp only [erase, Tracer.tuple.injEq] at h2
      simp only [coversVariants, h1, coversTys_of_erase o ts _ 0 _ h2.2.2.2,
        coversVariants_of_erase o rest p (i + 1) xs h3, Bool.and_self]
    · simp only [eraseVariants] at h; cases h
  | .struct n fs rest, p, i, xs, h => by
    simp only [sstateVariants, doneVariants] at h
    split at h
    · obtain ⟨h1, h2, h3⟩ := slot_inv h
      simp only [erase, Tracer.struct.injEq] at h2
      simp only [coversVariants, h1, coversFields_of_erase o fs _ _ _ h2.2.2.2.1,
        coversVariants_of_erase o rest p (i + 1) xs h3, Bool.and_self]
    · simp only [eraseVariants] at h; cases h
end

/-- `covers` is exactly the condition under which the tracer of the values `xs` is the complete tracer of the type -/
theorem covers_iff_done (o : Options) (ty : Ty) (n p : String) (nl : Bool) (xs : List SVal) :
    covers ty xs = true ↔ erase (sstate o n p nl ty xs) = done o n p nl ty :=
  ⟨erase_sstate o ty n p nl xs, covers_of_erase o ty n p nl nl xs⟩

/-! ### the canonical covering samples are values of the type -/

/-- the sample of variant `i` of `vs` (absolute index `idx`) is a value of any enum whose variant `idx` is that variant -/
theorem sampleVariant_kind (en : String) : ∀ (vs : TyVariants) (idx i q : Nat), i < vs.length →
    ∃ vn k, variantAt vs i = some (vn, k) ∧
      sampleVariant en vs idx i q = (match k with
        | .unit => .unitVariant en idx vn
        | .newtype t => .newtypeVariant en idx vn (sampleAt t q)
        | .tuple ts => .tupleVariant en idx vn (samplesTys ts q)
        | .struct fs => .structVariant en idx vn (samplesFields fs q))
  | .nil, _, _, _, h => by simp [TyVariants.length] at h
  | .unit n r, idx, 0, q, _ => ⟨n, .unit, rfl, rfl⟩
  | .newtype n t r, idx, 0, q, _ => ⟨n, .newtype t, rfl, rfl⟩
  | .tuple n ts r, idx, 0, q, _ => ⟨n, .tuple ts, rfl, rfl⟩
  | .struct n fs r, idx, 0, q, _ => ⟨n, .struct fs, rfl, rfl⟩
  | .unit _ r, idx, i + 1, q, h | .newtype _ _ r, idx, i + 1, q, h | .tuple _ _ r, idx, i + 1, q, h
  | .struct _ _ r, idx, i + 1, q, h => by
    simp only [TyVariants.length] at h
    simp only [variantAt, sampleVariant]
    exact sampleVariant_kind en r idx i q (by omega)

mutual
/-- the covering samples of a type that can be walked are values of the type (`walkable` is used for: no empty enum) -/
theorem hasTy_sampleAt (o : Options) : ∀ (ty : Ty) (p : String) (k : Nat), walkable o p ty = true →
    hasTy o (sampleAt ty k) ty = true
  | .unit, _, _, _ | .unitStruct _, _, _, _ | .bool, _, _, _ | .f32, _, _, _ | .f64, _, _, _ | .char, _, _, _
  | .bytes, _, _, _ => by simp only [sampleAt, hasTy]
  | .int t, _, _, _ => by simp only [sampleAt, hasTy, decide_true]
  | .string, _, _, _ => by simp only [sampleAt, hasTy, strType_s, decide_true]
  | .option t, p, k, hw => by simp only [walkable] at hw; simp only [sampleAt, hasTy]; exact hasTy_sampleAt o t p k hw
  | .newtypeStruct _ t, p, k, hw => by
    simp only [walkable] at hw; simp only [sampleAt, hasTy]; exact hasTy_sampleAt o t p k hw
  | .vec t, p, k, hw => by
    simp only [walkable, Bool.and_eq_true] at hw
    simp only [sampleAt, hasTy, hasTyAll, hasTy_sampleAt o t _ k hw.2, Bool.and_self]
  | .tuple ts, p, k, hw => by
    simp only [walkable, Bool.and_eq_true] at hw
    simp only [sampleAt, hasTy]; exact hasTys_samples o ts p 0 k hw.2
  | .tupleStruct _ ts, p, k, hw => by
    simp only [walkable, Bool.and_eq_true] at hw
    simp only [sampleAt, hasTy]; exact hasTys_samples o ts p 0 k hw.2
  | .map kt vt, p, k, hw => by
    simp only [walkable, Bool.and_eq_true] at hw
    simp only [sampleAt, hasTy, hasEntries, hasTy_sampleAt o kt _ k hw.1.2, hasTy_sampleAt o vt _ k hw.2, Bool.and_self]
  | .struct _ fs, p, k, hw => by
    simp only [walkable, Bool.and_eq_true] at hw
    simp only [sampleAt, hasTy]; exact hasFields_samples o fs p k hw.2
  | .enum en vs, p, k, hw => by
    simp only [walkable, Bool.and_eq_true, bne_iff_ne, ne_eq] at hw
    have hL : 0 < vs.length := by omega
    have hr : k % vs.length < vs.length := Nat.mod_lt _ hL
    obtain ⟨vn, kd, hv, hsv⟩ := sampleVariant_kind en vs (k % vs.length) (k % vs.length) (k / vs.length) hr
    have hpay := hasVariant_samples o vs p (k % vs.length) (k / vs.length) vn kd hw.2 hv
    simp only [sampleAt, hw.1.2, if_false, hsv]
    cases kd <;> simp only [hasTy, hv, decide_true, Bool.true_and] <;> exact hpay
theorem hasTys_samples (o : Options) : ∀ (ts : Tys) (p : String) (i k : Nat), walkableTys o p i ts = true →
    hasTys o (samplesTys ts k) ts = true
  | .nil, _, _, _, _ => by simp only [samplesTys, hasTys]
  | .cons t r, p, i, k, hw => by
    simp only [walkableTys, Bool.and_eq_true] at hw
    simp only [samplesTys, hasTys, hasTy_sampleAt o t _ k hw.1, hasTys_samples o r p (i + 1) k hw.2, Bool.and_self]
theorem hasFields_samples (o : Options) : ∀ (fs : TyFields) (p : String) (k : Nat), walkableFields o p fs = true →
    hasFields o (samplesFields fs k) fs = true
  | .nil, _, _, _ => by simp only [samplesFields, hasFields]
  | .cons n t r, p, k, hw => by
    simp only [walkableFields, Bool.and_eq_true] at hw
    simp only [samplesFields, hasFields, decide_true, hasTy_sampleAt o t _ k hw.1, hasFields_samples o r p k hw.2,
      Bool.and_self]
/-- the payload samples of variant `i` are values of its payload -/
theorem hasVariant_samples (o : Options) : ∀ (vs : TyVariants) (p : String) (i q : Nat) (vn : String) (kd : VKind),
    walkableVariants o p vs = true → variantAt vs i = some (vn, kd) →
    (match kd with
      | .unit => True
      | .newtype t => hasTy o (sampleAt t q) t = true
      | .tuple ts => hasTys o (samplesTys ts q) ts = true
      | .struct fs => hasFields o (samplesFields fs q) fs = true)
  | .nil, _, _, _, _, _, _, h => by simp [variantAt] at h
  | .unit n r, p, 0, q, vn, kd, hw, h => by
    simp only [variantAt, Option.some.injEq, Prod.mk.injEq] at h; obtain ⟨_, rfl⟩ := h; trivial
  | .newtype n t r, p, 0, q, vn, kd, hw, h => by
    simp only [variantAt, Option.some.injEq, Prod.mk.injEq] at h; obtain ⟨_, rfl⟩ := h
    simp only [walkableVariants, Bool.and_eq_true] at hw
    exact hasTy_sampleAt o t _ q hw.1
  | .tuple n ts r, p, 0, q, vn, kd, hw, h => by
    simp only [variantAt, Option.some.injEq, Prod.mk.injEq] at h; obtain ⟨_, rfl⟩ := h
    simp only [walkableVariants, Bool.and_eq_true] at hw
    exact hasTys_samples o ts _ 0 q hw.1.2
  | .struct n fs r, p, 0, q, vn, kd, hw, h => by
    simp only [variantAt, Option.some.injEq, Prod.mk.injEq] at h; obtain ⟨_, rfl⟩ := h
    simp only [walkableVariants, Bool.and_eq_true] at hw
    exact hasFields_samples o fs _ q hw.1.2
  | .unit n r, p, i + 1, q, vn, kd, hw, h => by
    simp only [variantAt] at h; simp only [walkableVariants] at hw
    exact hasVariant_samples o r p i q vn kd hw h
  | .newtype n t r, p, i + 1, q, vn, kd, hw, h | .tuple n ts r, p, i + 1, q, vn, kd, hw, h
  | .struct n fs r, p, i + 1, q, vn, kd, hw, h => by
    simp only [variantAt] at h; simp only [walkableVariants, Bool.and_eq_true] at hw
    exact hasVariant_samples o r p i q vn kd hw.2 h
end

/-- the canonical list `covering ty` is a covering collection -/
theorem covering_Covers (c : Code) (o : Options) (ty : Ty) (hw : walkable o "$" ty = true) (hu : uniqueNames ty = true)
    (hs : smallEnums ty = true) : Covers o ty (covering ty) := by
  have hall : ∀ x ∈ covering ty, hasTy o x ty = true := by
    intro x hx
    simp only [covering, List.mem_map] at hx
    obtain ⟨k, _, rfl⟩ := hx
    exact hasTy_sampleAt o ty "$" k hw
  refine ⟨hall, ?_⟩
  have h1 := absorbAll_gen c o ty "$" "$" false hw hu hs (covering ty) [] hall
  rw [sstate_nil, List.nil_append] at h1
  have h2 := absorbAll_covering c o ty "$" "$" false hw hu hs (width ty) 0
  rw [safter_zero, Nat.zero_add, ← List.range_eq_range'] at h2
  have heq : sstate o "$" "$" false ty (covering ty) = safter o "$" "$" false (width ty) ty := by
    have : covering ty = (List.range (width ty)).map (sampleAt ty) := rfl
    rw [this] at h1
    rw [h1] at h2
    exact Except.ok.inj h2
  have hpos := width_pos ty
  obtain ⟨w, hwd⟩ : ∃ w, width ty = w + 1 := ⟨width ty - 1, by omega⟩
  have he := erase_safter o ty "$" "$" false w hw (by omega)
  rw [← hwd, ← heq] at he
  exact covers_of_erase o ty "$" "$" false false _ he

end SaModel.Lemmas.C08
