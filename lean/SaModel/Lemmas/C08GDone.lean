import SaModel.Lemmas.C08GStep
/-
C08 — a covering collection of values shows the tracer the whole type: once `covers ty xs`, the tracer `sstate … ty xs`
is, up to the sample counters, the complete tracer `done` of `from_type` (`erase_sstate`); hence `from_samples` on ANY
covering collection = `from_type` (`agree_covers`).
-/
namespace SaModel.Lemmas.C08
open SaModel SaModel.Trace SaModel.Trace.Spec

theorem ne_nil_of_isEmpty {α} {xs : List α} (h : (!xs.isEmpty) = true) : xs ≠ [] := by
  cases xs with
  | nil => cases h
  | cons _ _ => simp

theorem filterMap_ne_nil {α β} {f : α → Option β} {xs : List α} (h : xs.filterMap f ≠ []) : xs ≠ [] := by
  intro e; rw [e] at h; exact h rfl

theorem flatMap_ne_nil {α β} {f : α → List β} {xs : List α} (h : xs.flatMap f ≠ []) : xs ≠ [] := by
  intro e; rw [e] at h; exact h rfl

/-- a covering collection is not empty -/
theorem covers_ne : ∀ (ty : Ty) (xs : List SVal), covers ty xs = true → xs ≠ []
  | .unit, _, h | .unitStruct _, _, h | .bool, _, h | .int _, _, h | .f32, _, h | .f64, _, h | .char, _, h
  | .string, _, h | .bytes, _, h => by simp only [covers] at h; exact ne_nil_of_isEmpty h
  | .option t, xs, h => by simp only [covers] at h; exact filterMap_ne_nil (covers_ne t _ h)
  | .newtypeStruct _ t, xs, h => by simp only [covers] at h; exact filterMap_ne_nil (covers_ne t _ h)
  | .vec t, xs, h => by simp only [covers] at h; exact flatMap_ne_nil (covers_ne t _ h)
  | .map k v, xs, h => by
    simp only [covers, Bool.and_eq_true] at h; exact flatMap_ne_nil (covers_ne k _ h.1)
  | .tuple _, _, h | .tupleStruct _ _, _, h | .struct _ _, _, h | .enum _ _, _, h => by
    simp only [covers, Bool.and_eq_true] at h; exact ne_nil_of_isEmpty h.1

theorem isEmpty_of_ne {α} {xs : List α} (h : xs ≠ []) : xs.isEmpty = false := by
  cases xs with
  | nil => exact absurd rfl h
  | cons _ _ => rfl

theorem anyFrom_head (len i : Nat) (xs : List SVal) (h : payloadsAt i xs ≠ []) : anyFrom (len + 1) i xs = true := by
  simp only [anyFrom, isEmpty_of_ne h, Bool.not_false, Bool.true_or]

theorem slot_ne {ys : List SVal} (h : ys ≠ []) (n : String) (t : Tracer) (rest : Variants) :
    slot ys n t rest = .present n t rest := by
  simp only [slot, isEmpty_of_ne h, Bool.false_eq_true, if_false]

mutual
theorem erase_sstate (o : Options) : ∀ (ty : Ty) (n p : String) (nl : Bool) (xs : List SVal), covers ty xs = true →
    erase (sstate o n p nl ty xs) = done o n p nl ty
  | .unit, n, p, nl, xs, h | .unitStruct _, n, p, nl, xs, h | .bool, n, p, nl, xs, h | .int _, n, p, nl, xs, h
  | .f32, n, p, nl, xs, h | .f64, n, p, nl, xs, h | .char, n, p, nl, xs, h | .string, n, p, nl, xs, h
  | .bytes, n, p, nl, xs, h => by
    simp only [covers] at h
    simp only [sstate, seen_ne (ne_nil_of_isEmpty h), erase, done]
  | .option t, n, p, nl, xs, h => by
    have hne := covers_ne _ _ h
    simp only [covers] at h
    simp only [sstate, done, isEmpty_of_ne hne, Bool.not_false, Bool.or_true]
    exact erase_sstate o t n p true _ h
  | .newtypeStruct _ t, n, p, nl, xs, h => by
    simp only [covers] at h
    simp only [sstate, done]; exact erase_sstate o t n p nl _ h
  | .vec t, n, p, nl, xs, h => by
    have hne := covers_ne _ _ h
    simp only [covers] at h
    simp only [sstate, seen_ne hne, erase, done, erase_sstate o t _ _ _ _ h]
  | .tuple ts, n, p, nl, xs, h | .tupleStruct _ ts, n, p, nl, xs, h => by
    have hne := covers_ne _ _ h
    simp only [covers, Bool.and_eq_true] at h
    simp only [sstate, seen_ne hne, erase, done, eraseTracers_sstate o ts p 0 _ h.2]
  | .map kt vt, n, p, nl, xs, h => by
    have hne := covers_ne _ _ h
    simp only [covers, Bool.and_eq_true] at h
    simp only [sstate, seen_ne hne, erase, done, erase_sstate o kt _ _ _ _ h.1, erase_sstate o vt _ _ _ _ h.2]
  | .struct _ fs, n, p, nl, xs, h => by
    have hne := covers_ne _ _ h
    simp only [covers, Bool.and_eq_true] at h
    simp only [sstate, seen_ne hne, erase, done, eraseFields_sstate o fs p _ _ h.2]
  | .enum _ vs, n, p, nl, xs, h => by
    have hne := covers_ne _ _ h
    simp only [covers, Bool.and_eq_true] at h
    simp only [sstate, seen_ne hne, erase, done, eraseVariants_sstate o vs p 0 xs h.2]
theorem eraseTracers_sstate (o : Options) : ∀ (ts : Tys) (p : String) (i : Nat) (XS : List SVals),
    coversTys ts XS = true → eraseTracers (sstateTys o p i ts XS) = doneTys o p i ts
  | .nil, _, _, _, _ => by simp only [sstateTys, eraseTracers, doneTys]
  | .cons t r, p, i, XS, h => by
    simp only [coversTys, Bool.and_eq_true] at h
    simp only [sstateTys, eraseTracers, doneTys, erase_sstate o t _ _ _ _ h.1, eraseTracers_sstate o r p (i + 1) _ h.2]
theorem eraseFields_sstate (o : Options) : ∀ (fs : TyFields) (p : String) (m : Nat) (XS : List SFields),
    coversFields fs XS = true → eraseFields (sstateFields o p m fs XS) = doneFields o p fs
  | .nil, _, _, _, _ => by simp only [sstateFields, eraseFields, doneFields]
  | .cons _ t r, p, m, XS, h => by
    simp only [coversFields, Bool.and_eq_true] at h
    simp only [sstateFields, eraseFields, doneFields, erase_sstate o t _ _ _ _ h.1, eraseFields_sstate o r p m _ h.2]
theorem eraseVariants_sstate (o : Options) : ∀ (vs : TyVariants) (p : String) (i : Nat) (xs : List SVal),
    coversVariants i vs xs = true → eraseVariants (sstateVariants o p i vs xs) = doneVariants o p vs
  | .nil, _, _, _, _ => by simp only [sstateVariants, eraseVariants, doneVariants]
  | .unit n rest, p, i, xs, h => by
    simp only [coversVariants, Bool.and_eq_true] at h
    have hne := ne_nil_of_isEmpty h.1
    simp only [sstateVariants, anyFrom_head _ i xs hne, if_true, slot_ne hne, eraseVariants, erase, doneVariants,
      eraseVariants_sstate o rest p (i + 1) xs h.2]
  | .newtype n t rest, p, i, xs, h => by
    simp only [coversVariants, Bool.and_eq_true] at h
    have hne := covers_ne _ _ h.1
    simp only [sstateVariants, anyFrom_head _ i xs hne, if_true, slot_ne hne, eraseVariants, doneVariants,
      erase_sstate o t _ _ _ _ h.1, eraseVariants_sstate o rest p (i + 1) xs h.2]
  | .tuple n ts rest, p, i, xs, h => by
    simp only [coversVariants, Bool.and_eq_true] at h
    have hne := ne_nil_of_isEmpty h.1.1
    simp only [sstateVariants, anyFrom_head _ i xs hne, if_true, slot_ne hne, eraseVariants, erase, doneVariants,
      eraseTracers_sstate o ts _ 0 _ h.1.2, eraseVariants_sstate o rest p (i + 1) xs h.2]
  | .struct n fs rest, p, i, xs, h => by
    simp only [coversVariants, Bool.and_eq_true] at h
    have hne := ne_nil_of_isEmpty h.1.1
    simp only [sstateVariants, anyFrom_head _ i xs hne, if_true, slot_ne hne, eraseVariants, erase, doneVariants,
      eraseFields_sstate o fs _ _ _ h.1.2, eraseVariants_sstate o rest p (i + 1) xs h.2]
end

/-- the element loop of `from_samples` over values of the type -/
theorem absorbAll_gen (c : Code) (o : Options) (ty : Ty) (n p : String) (nl : Bool)
    (hw : walkable o p ty = true) (hu : uniqueNames ty = true) (hs : smallEnums ty = true) :
    ∀ (xs pre : List SVal), (∀ x ∈ xs, hasTy o x ty = true) →
    absorbAll c o (sstate o n p nl ty pre) xs = .ok (sstate o n p nl ty (pre ++ xs)) := by
  intro xs
  induction xs with
  | nil => intro pre _; simp only [absorbAll, List.append_nil]
  | cons x r ih =>
    intro pre h
    have hx := h x List.mem_cons_self
    have hr : ∀ y ∈ r, hasTy o y ty = true := fun y hy => h y (List.mem_cons_of_mem _ hy)
    simp only [absorbAll, absorb_gen c o ty n p nl pre x hw hu hs hx, bind, Except.bind, ih (pre ++ [x]) hr,
      List.append_assoc, List.singleton_append]

/-- the schema `from_samples` gives on a covering collection -/
theorem fromSamples_covers (c : Code) (o : Options) (ty : Ty) (xs : List SVal) (hw : walkable o "$" ty = true)
    (hu : uniqueNames ty = true) (hs : smallEnums ty = true) (hc : Covers o ty xs) :
    fromSamples c o xs =
      if (o.overwrites.all fun kv => (tyPaths "$" ty).contains kv.1) = true then (done o "$" "$" false ty).to_schema o
      else fail "Overwritten fields could not be found" := by
  have hall := absorbAll_gen c o ty "$" "$" false hw hu hs xs [] hc.1
  rw [sstate_nil, List.nil_append] at hall
  have he := erase_sstate o ty "$" "$" false xs hc.2
  have hname : (sstate o "$" "$" false ty xs).name = "$" := by rw [← erase_name, he, done_name]
  have hpaths : (sstate o "$" "$" false ty xs).collect_paths = tyPaths "$" ty := by rw [← erase_paths, he, done_paths]
  have hfield : (sstate o "$" "$" false ty xs).to_schema o = (done o "$" "$" false ty).to_schema o := by
    unfold Tracer.to_schema; rw [← erase_to_field, he]
  unfold fromSamples fromSamplesTracer
  simp only [Tracer.new, hall, bind, Except.bind, Tracer.finish, Tracer.check, hname, bne_self_eq_false,
    Bool.false_eq_true, if_false, Tracer.check_overwrites, hpaths]
  cases (o.overwrites.all fun kv => (tyPaths "$" ty).contains kv.1)
  · rfl
  · simp only [if_true]; exact hfield

theorem agree_covers (c : Code) (o : Options) (ty : Ty) (xs : List SVal) (hw : walkable o "$" ty = true)
    (hu : uniqueNames ty = true) (hs : smallEnums ty = true) (hb : passes ty ≤ o.from_type_budget)
    (hc : Covers o ty xs) : fromSamples c o xs = fromType c o ty := by
  rw [fromSamples_covers c o ty xs hw hu hs hc]
  unfold fromType
  rw [fromTypeTracer_walkable c o ty hw]
  simp only [hb, if_true]
  cases (o.overwrites.all fun kv => (tyPaths "$" ty).contains kv.1) <;> rfl

/-! ### the canonical covering list is one of them -/

end SaModel.Lemmas.C08
