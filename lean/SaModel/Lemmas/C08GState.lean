import SaModel.Lemmas.C08Covers
import SaModel.Lemmas.C08SAgree
/-
C08 — `from_samples` over ARBITRARY values of a type: `sstate o n p nl ty xs` is the tracer at position (name `n`, path
`p`, nullable `nl`) after absorbing the values `xs` of type `ty`, in this order, written down from the type and the values
found at each position (the projections of SaModel/Lemmas/C08Covers.lean).  A node that has seen no value is `unknown`;
an `Option` position is nullable as soon as it has seen any value; a struct node counts its samples; a union node has a
slot for every variant up to the last one that occurred, `absent` for the variants that have not occurred yet.
-/
namespace SaModel.Lemmas.C08
open SaModel SaModel.Trace SaModel.Trace.Spec

/-- a node that has seen the values `xs`: fresh when there are none -/
def seen (xs : List SVal) (n p : String) (nl : Bool) (t : Tracer) : Tracer :=
  if xs.isEmpty then .unknown n p nl else t

/-- does any of the `len` variants from index `i` on occur -/
def anyFrom : Nat → Nat → List SVal → Bool
  | 0, _, _ => false
  | len + 1, i, xs => !(payloadsAt i xs).isEmpty || anyFrom len (i + 1) xs

/-- one slot of the variant vector -/
def slot (ys : List SVal) (n : String) (t : Tracer) (rest : Variants) : Variants :=
  if ys.isEmpty then .absent rest else .present n t rest

mutual
def sstate (o : Options) (n p : String) (nl : Bool) : Ty → List SVal → Tracer
  | .unit, xs => seen xs n p nl (.primitive n p true .null none)
  | .unitStruct _, xs => seen xs n p nl (.primitive n p true .null none)
  | .bool, xs => seen xs n p nl (.primitive n p nl .boolean none)
  | .int t, xs => seen xs n p nl (.primitive n p nl (intDataType t) none)
  | .f32, xs => seen xs n p nl (.primitive n p nl .float32 none)
  | .f64, xs => seen xs n p nl (.primitive n p nl .float64 none)
  | .char, xs => seen xs n p nl (.primitive n p nl .uint32 none)
  | .string, xs => seen xs n p nl (.primitive n p nl o.string_type none)
  | .bytes, xs => seen xs n p nl (.primitive n p nl .largeBinary none)
  | .option t, xs => sstate o n p (nl || !xs.isEmpty) t (somes xs)
  | .newtypeStruct _ t, xs => sstate o n p nl t (xs.filterMap unNewtype)
  | .vec t, xs => seen xs n p nl (.list n p nl (sstate o "element" (childPath p "element") false t (elems xs)))
  | .tuple ts, xs => seen xs n p nl (.tuple n p nl (sstateTys o p 0 ts (xs.filterMap tupleItems)))
  | .tupleStruct _ ts, xs => seen xs n p nl (.tuple n p nl (sstateTys o p 0 ts (xs.filterMap tupleItems)))
  | .map kt vt, xs =>
    seen xs n p nl (.map n p nl (sstate o "key" (childPath p "key") false kt (xs.flatMap mapKeys))
      (sstate o "value" (childPath p "value") false vt (xs.flatMap mapVals)))
  | .struct _ fs, xs =>
    seen xs n p nl (.struct n p nl (sstateFields o p xs.length fs (xs.filterMap recFields)) .struct xs.length)
  | .enum _ vs, xs => seen xs n p nl (.union n p nl (sstateVariants o p 0 vs xs))
def sstateTys (o : Options) (p : String) : Nat → Tys → List SVals → Tracers
  | _, .nil, _ => .nil
  | i, .cons t r, xss =>
    .cons (sstate o (toString i) (childPath p (toString i)) false t (xss.filterMap headV))
      (sstateTys o p (i + 1) r (xss.filterMap tailV))
/-- `m` = number of samples the struct node has seen -/
def sstateFields (o : Options) (p : String) (m : Nat) : TyFields → List SFields → TFields
  | .nil, _ => .nil
  | .cons n t r, xss =>
    .cons n (m - 1) (sstate o n (childPath p n) false t (xss.filterMap headF)) (sstateFields o p m r (xss.filterMap tailF))
def sstateVariants (o : Options) (p : String) : Nat → TyVariants → List SVal → Variants
  | _, .nil, _ => .nil
  | i, .unit n rest, xs =>
    if anyFrom (rest.length + 1) i xs then
      slot (payloadsAt i xs) n (.primitive n (childPath p n) true .null none) (sstateVariants o p (i + 1) rest xs)
    else .nil
  | i, .newtype n t rest, xs =>
    if anyFrom (rest.length + 1) i xs then
      slot (payloadsAt i xs) n (sstate o n (childPath p n) false t (payloadsAt i xs)) (sstateVariants o p (i + 1) rest xs)
    else .nil
  | i, .tuple n ts rest, xs =>
    if anyFrom (rest.length + 1) i xs then
      slot (payloadsAt i xs) n
        (.tuple n (childPath p n) false (sstateTys o (childPath p n) 0 ts ((payloadsAt i xs).filterMap tupleItems)))
        (sstateVariants o p (i + 1) rest xs)
    else .nil
  | i, .struct n fs rest, xs =>
    if anyFrom (rest.length + 1) i xs then
      slot (payloadsAt i xs) n
        (.struct n (childPath p n) false
          (sstateFields o (childPath p n) (payloadsAt i xs).length fs ((payloadsAt i xs).filterMap recFields)) .struct
          (payloadsAt i xs).length)
        (sstateVariants o p (i + 1) rest xs)
    else .nil
end

theorem seen_nil (n p : String) (nl : Bool) (t : Tracer) : seen [] n p nl t = .unknown n p nl := rfl

theorem seen_ne {xs : List SVal} (h : xs ≠ []) (n p : String) (nl : Bool) (t : Tracer) : seen xs n p nl t = t := by
  cases xs with
  | nil => exact absurd rfl h
  | cons _ _ => rfl

theorem seen_append (xs : List SVal) (x : SVal) (n p : String) (nl : Bool) (t : Tracer) :
    seen (xs ++ [x]) n p nl t = t := seen_ne (by simp) n p nl t

/-- no value seen: the fresh node -/
theorem sstate_nil (o : Options) : ∀ (ty : Ty) (n p : String) (nl : Bool), sstate o n p nl ty [] = .unknown n p nl
  | .unit, _, _, _ | .unitStruct _, _, _, _ | .bool, _, _, _ | .int _, _, _, _ | .f32, _, _, _ | .f64, _, _, _
  | .char, _, _, _ | .string, _, _, _ | .bytes, _, _, _ | .vec _, _, _, _ | .tuple _, _, _, _ | .tupleStruct _ _, _, _, _
  | .map _ _, _, _, _ | .struct _ _, _, _, _ | .enum _ _, _, _, _ => by simp only [sstate, seen_nil]
  | .option t, n, p, nl => by
    simp only [sstate, somes, List.filterMap_nil, List.isEmpty_nil, Bool.not_true, Bool.or_false]
    exact sstate_nil o t n p nl
  | .newtypeStruct _ t, n, p, nl => by simp only [sstate, List.filterMap_nil]; exact sstate_nil o t n p nl

/-- marking a position nullable = having been created nullable -/
theorem sstate_mark_nullable (o : Options) : ∀ (ty : Ty) (n p : String) (nl : Bool) (xs : List SVal),
    (sstate o n p nl ty xs).mark_nullable = sstate o n p true ty xs
  | .unit, _, _, _, xs | .unitStruct _, _, _, _, xs | .bool, _, _, _, xs | .int _, _, _, _, xs | .f32, _, _, _, xs
  | .f64, _, _, _, xs | .char, _, _, _, xs | .string, _, _, _, xs | .bytes, _, _, _, xs | .vec _, _, _, _, xs
  | .tuple _, _, _, _, xs | .tupleStruct _ _, _, _, _, xs | .map _ _, _, _, _, xs | .struct _ _, _, _, _, xs
  | .enum _ _, _, _, _, xs => by
    cases xs <;> simp only [sstate, seen, List.isEmpty_nil, List.isEmpty_cons, if_true, Bool.false_eq_true, if_false,
      Tracer.mark_nullable, Tracer.set_nullable]
  | .option t, n, p, nl, xs => by
    simp only [sstate, Bool.true_or]
    rw [sstate_mark_nullable o t n p _ (somes xs)]
  | .newtypeStruct _ t, n, p, nl, xs => by simp only [sstate]; exact sstate_mark_nullable o t n p nl _

theorem sstateTys_length (o : Options) (p : String) : ∀ (ts : Tys) (i : Nat) (xss : List SVals),
    (sstateTys o p i ts xss).length = ts.length
  | .nil, _, _ => rfl
  | .cons t r, i, xss => by simp only [sstateTys, Tracers.length, Tys.length, sstateTys_length o p r]

/-! ### the variants as (name, payload type) -/

/-- the variant vector over the plain list of (name, type the payload is a value of) -/
def sVg (o : Options) (p : String) : Nat → List (String × Ty) → List SVal → Variants
  | _, [], _ => .nil
  | i, (n, T) :: rest, xs =>
    if anyFrom (rest.length + 1) i xs then
      slot (payloadsAt i xs) n (sstate o n (childPath p n) false T (payloadsAt i xs)) (sVg o p (i + 1) rest xs)
    else .nil

theorem slot_congr (ys : List SVal) (n : String) (t t' : Tracer) (rest : Variants) (h : ys ≠ [] → t = t') :
    slot ys n t rest = slot ys n t' rest := by
  cases ys with
  | nil => rfl
  | cons y r => simp only [slot, List.isEmpty_cons, Bool.false_eq_true, if_false]; rw [h (by simp)]

theorem sstateVariants_eq (o : Options) (p : String) : ∀ (vs : TyVariants) (i : Nat) (xs : List SVal),
    sstateVariants o p i vs xs = sVg o p i (vList vs) xs
  | .nil, _, _ => rfl
  | .unit n rest, i, xs => by
    simp only [sstateVariants, vList, sVg, vList_length, sstateVariants_eq o p rest]
    split
    · exact slot_congr _ _ _ _ _ (fun h => by simp only [sstate, seen_ne h])
    · rfl
  | .newtype n t rest, i, xs => by
    simp only [sstateVariants, vList, sVg, vList_length, sstateVariants_eq o p rest]
  | .tuple n ts rest, i, xs => by
    simp only [sstateVariants, vList, sVg, vList_length, sstateVariants_eq o p rest]
    split
    · exact slot_congr _ _ _ _ _ (fun h => by simp only [sstate, seen_ne h])
    · rfl
  | .struct n fs rest, i, xs => by
    simp only [sstateVariants, vList, sVg, vList_length, sstateVariants_eq o p rest]
    split
    · exact slot_congr _ _ _ _ _ (fun h => by simp only [sstate, seen_ne h])
    · rfl

end SaModel.Lemmas.C08
