import SaModel.Lemmas.C08GBase
/-
C08 — the general sample invariant of `from_samples`: absorbing ANY value `x` of the type `ty` into the tracer of the
values `xs` gives the tracer of `xs ++ [x]` (`absorb_gen`), for every walkable type description with unique field names.
-/
namespace SaModel.Lemmas.C08
open SaModel SaModel.Trace SaModel.Trace.Spec

/-! ### the loops, given the step at the children -/

theorem absorbSeq_gen (c : Code) (o : Options) (t : Ty) (S : List SVal → Tracer)
    (hS : ∀ E v, hasTy o v t = true → absorb c o (S E) v = .ok (S (E ++ [v]))) :
    ∀ (items : SVals) (E : List SVal), hasTyAll o items t = true →
      absorbSeq c o (S E) items = .ok (S (E ++ items.toList))
  | .nil, E, _ => by simp only [absorbSeq, SVals.toList, List.append_nil]
  | .cons v r, E, h => by
    simp only [hasTyAll, Bool.and_eq_true] at h
    simp only [absorbSeq, hS E v h.1, bind, Except.bind, absorbSeq_gen c o t S hS r (E ++ [v]) h.2, SVals.toList,
      List.append_assoc, List.singleton_append]

theorem absorbEntries_gen (c : Code) (o : Options) (kt vt : Ty) (SK SV : List SVal → Tracer)
    (hK : ∀ E v, hasTy o v kt = true → absorb c o (SK E) v = .ok (SK (E ++ [v])))
    (hV : ∀ E v, hasTy o v vt = true → absorb c o (SV E) v = .ok (SV (E ++ [v]))) :
    ∀ (es : SEntries) (K V : List SVal), hasEntries o es kt vt = true →
      absorbEntriesAsMap c o (SK K) (SV V) es = .ok (SK (K ++ entryKeys es), SV (V ++ entryVals es))
  | .nil, K, V, _ => by simp only [absorbEntriesAsMap, entryKeys, entryVals, List.append_nil]
  | .cons k v r, K, V, h => by
    simp only [hasEntries, Bool.and_eq_true] at h
    simp only [absorbEntriesAsMap, hK K k h.1.1, hV V v h.1.2, bind, Except.bind,
      absorbEntries_gen c o kt vt SK SV hK hV r (K ++ [k]) (V ++ [v]) h.2, entryKeys, entryVals,
      List.append_assoc, List.singleton_append]

/-! ### the field loop of a struct: a first field that is not named stays -/

theorem absorbFields_shift_gen (c : Code) (o : Options) (path : String) (sn : Nat) (n0 : String) (l0 : Nat) (t0 : Tracer) :
    ∀ (fs : TyFields) (sf : SFields) (rest : TFields), hasFields o sf fs = true → ¬ n0 ∈ fs.names →
    absorbFields c o path sn (.cons n0 l0 t0 rest) sf = (absorbFields c o path sn rest sf).map (TFields.cons n0 l0 t0)
  | .nil, sf, _, hf, _ => by rw [hasFields_nil hf]; simp only [absorbFields]; rfl
  | .cons key t r, sf, rest, hf, h => by
    obtain ⟨a, v, sr, rfl, _, h3⟩ := hasFields_cons hf
    simp only [TyFields.names, List.mem_cons, not_or] at h
    simp only [absorbFields, ensure_field_cons path sn n0 l0 t0 rest key h.1, TFields.get?]
    cases (ensure_field path sn rest key).2.get? (ensure_field path sn rest key).1 with
    | none => rfl
    | some ft =>
      simp only
      cases absorb c o ft v with
      | error e => rfl
      | ok ft' =>
        simp only [bind, Except.bind, TFields.set]
        exact absorbFields_shift_gen c o path sn n0 l0 t0 r sr _ h3 h.2

theorem sstateFields_end (o : Options) (p : String) (m : Nat) : ∀ (fs : TyFields) (XS : List SFields),
    (sstateFields o p (m + 1) fs XS).end_ m = sstateFields o p (m + 1) fs XS
  | .nil, _ => rfl
  | .cons n t r, XS => by
    simp only [sstateFields, TFields.end_, Nat.add_sub_cancel, bne_self_eq_false, Bool.false_eq_true, if_false,
      sstateFields_end o p m r]

/-! ### the container cases, given the loops over the children -/

theorem tuple_gen_of (c : Code) (o : Options) (ts : Tys) (n p : String) (nl : Bool) (hd : tooDeep p = false)
    (hT : ∀ XS items, hasTys o items ts = true →
      absorbTuple c o p (sstateTys o p 0 ts XS) 0 items = .ok (sstateTys o p 0 ts (XS ++ [items])))
    (xs : List SVal) (x : SVal) (hx : hasTy o x (.tuple ts) = true) :
    absorb c o (sstate o n p nl (.tuple ts) xs) x = .ok (sstate o n p nl (.tuple ts) (xs ++ [x])) := by
  obtain ⟨items, rfl, hi⟩ := hasTy_tuple hx
  have he := ensure_tuple_seen c o xs n p nl ts hd (fun xs => xs.filterMap tupleItems) rfl
  simp only [sstate, absorb, hasTys_length hi, he, bind, Except.bind, hT _ items hi, seen_append,
    List.filterMap_append, List.filterMap_cons, tupleItems, List.filterMap_nil]

theorem struct_gen_of (c : Code) (o : Options) (sn : String) (fs : TyFields) (n p : String) (nl : Bool)
    (hd : tooDeep p = false)
    (hF0 : ∀ sf, hasFields o sf fs = true → absorbFields c o p 0 .nil sf = .ok (sstateFields o p 1 fs [sf]))
    (hF : ∀ m XS sf, hasFields o sf fs = true →
      absorbFields c o p m (sstateFields o p m fs XS) sf = .ok (sstateFields o p (m + 1) fs (XS ++ [sf])))
    (xs : List SVal) (x : SVal) (hx : hasTy o x (.struct sn fs) = true) :
    absorb c o (sstate o n p nl (.struct sn fs) xs) x = .ok (sstate o n p nl (.struct sn fs) (xs ++ [x])) := by
  obtain ⟨m, sf, rfl, hsf⟩ := hasTy_struct hx
  cases xs with
  | nil =>
    simp only [sstate, seen_nil, absorb, ensure_struct_unknown c n p nl _ _ hd, mkStructFields, bind, Except.bind,
      hF0 sf hsf, sstateFields_end o p 0 fs, List.nil_append, seen_ne (List.cons_ne_nil _ _), List.filterMap_cons,
      recFields, List.filterMap_nil, List.length_cons, List.length_nil]
  | cons y r =>
    simp only [sstate, seen_ne (List.cons_ne_nil y r), absorb, ensure_struct_struct c n p nl _ _ _ hd, bind,
      Except.bind, hF _ _ sf hsf, seen_append, List.filterMap_append, List.filterMap_cons, recFields,
      List.filterMap_nil, List.length_append, List.length_cons, List.length_nil]
    rw [sstateFields_end o p (r.length + 1) fs]

theorem enum_gen_of (c : Code) (o : Options) (en : String) (vs : TyVariants) (n p : String) (nl : Bool)
    (hd : tooDeep p = false) (hlim : vs.length ≤ VARIANT_ALLOC_LIMIT)
    (hpay : ∀ (j : Nat) vn T, (vList vs)[j]? = some (vn, T) → ∀ ys y, hasTy o y T = true →
      absorb c o (sstate o vn (childPath p vn) false T ys) y = .ok (sstate o vn (childPath p vn) false T (ys ++ [y])))
    (xs : List SVal) (x : SVal) (hx : hasTy o x (.enum en vs) = true) :
    absorb c o (sstate o n p nl (.enum en vs) xs) x = .ok (sstate o n p nl (.enum en vs) (xs ++ [x])) := by
  obtain ⟨idx, vn, T, y, hget, hpa, hpo, hy, habs⟩ := variant_absorb c o en vs x hx
  have hidx : idx < vs.length := by
    rw [← vList_length]
    exact (List.getElem?_eq_some_iff.mp hget).1
  have hs := payloadsAt_snoc_same xs x y idx hpa
  have ho : ∀ k, k ≠ 0 + idx → payloadsAt k (xs ++ [x]) = payloadsAt k xs :=
    fun k hk => payloadsAt_snoc_other xs x k (hpo k (by omega))
  obtain ⟨V', h1, h2, h3⟩ := sVg_ensure o p xs (xs ++ [x]) y (vList vs) 0 idx vn T hget
    (by rw [Nat.zero_add]; exact hs) ho
  simp only [Nat.zero_add] at h1 h2 h3
  rw [← ensure_variant_eq p _ vn _ (by omega)] at h1
  have ht : (sstate o n p nl (.enum en vs) xs = .unknown n p nl ∧ sVg o p 0 (vList vs) xs = .nil) ∨
      sstate o n p nl (.enum en vs) xs = .union n p nl (sVg o p 0 (vList vs) xs) := by
    cases xs with
    | nil =>
      left
      exact ⟨sstate_nil o _ n p nl, sVg_nil_of_anyFrom o p [] _ 0 (anyFrom_nil _ _)⟩
    | cons y0 r => right; simp only [sstate, seen_ne (List.cons_ne_nil y0 r), sstateVariants_eq]
  have heuv := euv_of _ n p nl _ V' vn _ _ ht hd h1 h2
  rw [habs _ n p nl V' _ _ heuv (hpay idx vn T hget _ y hy), h3]
  simp only [sstate, seen_append, sstateVariants_eq]

/-! ### the invariant -/

mutual
theorem absorb_gen (c : Code) (o : Options) : ∀ (ty : Ty) (n p : String) (nl : Bool) (xs : List SVal) (x : SVal),
    walkable o p ty = true → uniqueNames ty = true → smallEnums ty = true → hasTy o x ty = true →
    absorb c o (sstate o n p nl ty xs) x = .ok (sstate o n p nl ty (xs ++ [x]))
  | .unit, n, p, nl, xs, x, _, _, _, hx => by
    rw [hasTy_unit hx]; simp only [sstate, absorb]; exact null_gen o n p nl xs _
  | .unitStruct _, n, p, nl, xs, x, _, _, _, hx => by
    obtain ⟨m, rfl⟩ := hasTy_unitStruct hx; simp only [sstate, absorb]; exact null_gen o n p nl xs _
  | .bool, n, p, nl, xs, x, _, _, _, hx => by
    obtain ⟨b, rfl⟩ := hasTy_bool hx; simp only [sstate, absorb]; exact leaf_gen o n p nl _ rfl xs _
  | .char, n, p, nl, xs, x, _, _, _, hx => by
    obtain ⟨b, rfl⟩ := hasTy_char hx; simp only [sstate, absorb]; exact leaf_gen o n p nl _ rfl xs _
  | .bytes, n, p, nl, xs, x, _, _, _, hx => by
    obtain ⟨b, rfl⟩ := hasTy_bytes hx; simp only [sstate, absorb]; exact leaf_gen o n p nl _ rfl xs _
  | .f32, n, p, nl, xs, x, _, _, _, hx => by
    obtain ⟨b, rfl⟩ := hasTy_f32 hx
    simp only [sstate, absorb, Tracer.ensure_number]; exact leaf_gen o n p nl _ rfl xs _
  | .f64, n, p, nl, xs, x, _, _, _, hx => by
    obtain ⟨b, rfl⟩ := hasTy_f64 hx
    simp only [sstate, absorb, Tracer.ensure_number]; exact leaf_gen o n p nl _ rfl xs _
  | .int t, n, p, nl, xs, x, _, _, _, hx => by
    obtain ⟨b, rfl⟩ := hasTy_int hx
    simp only [sstate, absorb, Tracer.ensure_number]; exact leaf_gen o n p nl _ (by cases t <;> rfl) xs _
  | .string, n, p, nl, xs, x, _, _, _, hx => by
    obtain ⟨s, rfl, hs⟩ := hasTy_string hx
    have : isNull o.string_type = false := by unfold Options.string_type; split <;> rfl
    simp only [sstate, absorb, hs]; exact leaf_gen o n p nl _ this xs _
  | .option t, n, p, nl, xs, x, hw, hu, hs, hx => by
    simp only [walkable] at hw; simp only [uniqueNames] at hu; simp only [smallEnums] at hs
    rcases hasTy_option hx with rfl | ⟨v, rfl, hv⟩
    · simp only [sstate, absorb, sstate_mark_nullable, isEmpty_snoc, Bool.not_false, Bool.or_true, somes,
        List.filterMap_append, List.filterMap_cons, unSome, List.filterMap_nil, List.append_nil]
    · simp only [sstate, absorb, sstate_mark_nullable, isEmpty_snoc, Bool.not_false, Bool.or_true, somes,
        List.filterMap_append, List.filterMap_cons, unSome, List.filterMap_nil]
      exact absorb_gen c o t n p true _ v hw hu hs hv
  | .newtypeStruct _ t, n, p, nl, xs, x, hw, hu, hs, hx => by
    simp only [walkable] at hw; simp only [uniqueNames] at hu; simp only [smallEnums] at hs
    obtain ⟨m, v, rfl, hv⟩ := hasTy_newtypeStruct hx
    simp only [sstate, absorb, List.filterMap_append, List.filterMap_cons, unNewtype, List.filterMap_nil]
    exact absorb_gen c o t n p nl _ v hw hu hs hv
  | .vec t, n, p, nl, xs, x, hw, hu, hs, hx => by
    simp only [walkable, Bool.and_eq_true, Bool.not_eq_true'] at hw
    simp only [uniqueNames] at hu; simp only [smallEnums] at hs
    obtain ⟨items, rfl, hi⟩ := hasTy_vec hx
    have he := ensure_list_seen xs n p nl (sstate o "element" (childPath p "element") false t) (sstate_nil o t _ _ _)
      hw.1 elems rfl
    have hl := absorbSeq_gen c o t (sstate o "element" (childPath p "element") false t)
      (fun E v hv => absorb_gen c o t _ _ _ E v hw.2 hu hs hv) items (elems xs) hi
    have hel : elems (xs ++ [SVal.seq items]) = elems xs ++ items.toList := by
      simp only [elems, List.flatMap_append, List.flatMap_cons, seqItems, List.flatMap_nil, List.append_nil]
    simp only [sstate, absorb, he, bind, Except.bind, hl, seen_append, hel]
  | .map kt vt, n, p, nl, xs, x, hw, hu, hs, hx => by
    simp only [walkable, Bool.and_eq_true, Bool.not_eq_true'] at hw
    simp only [uniqueNames, Bool.and_eq_true] at hu; simp only [smallEnums, Bool.and_eq_true] at hs
    obtain ⟨es, rfl, he⟩ := hasTy_map hx
    have hm := ensure_map_seen xs n p nl (sstate o "key" (childPath p "key") false kt (xs.flatMap mapKeys))
      (sstate o "value" (childPath p "value") false vt (xs.flatMap mapVals))
      (fun e => by rw [e]; exact sstate_nil o kt _ _ _) (fun e => by rw [e]; exact sstate_nil o vt _ _ _) hw.1.1.2
    have hl := absorbEntries_gen c o kt vt (sstate o "key" (childPath p "key") false kt)
      (sstate o "value" (childPath p "value") false vt)
      (fun E v hv => absorb_gen c o kt _ _ _ E v hw.1.2 hu.1 hs.1 hv)
      (fun E v hv => absorb_gen c o vt _ _ _ E v hw.2 hu.2 hs.2 hv) es (xs.flatMap mapKeys) (xs.flatMap mapVals) he
    simp only [sstate, absorb, hw.1.1.1, Bool.false_eq_true, if_false, hm, bind, Except.bind, hl, seen_append,
      List.flatMap_append, List.flatMap_cons, mapKeys, mapVals, List.flatMap_nil, List.append_nil]
  | .tuple ts, n, p, nl, xs, x, hw, hu, hs, hx => by
    simp only [walkable, Bool.and_eq_true, Bool.not_eq_true'] at hw
    simp only [uniqueNames] at hu; simp only [smallEnums] at hs
    exact tuple_gen_of c o ts n p nl hw.1 (fun XS items hi => absorbTuple_gen c o ts p 0 XS items hw.2 hu hs hi) xs x hx
  | .tupleStruct sn ts, n, p, nl, xs, x, hw, hu, hs, hx => by
    simp only [walkable, Bool.and_eq_true, Bool.not_eq_true'] at hw
    simp only [uniqueNames] at hu; simp only [smallEnums] at hs
    obtain ⟨m, items, rfl, hi⟩ := hasTy_tupleStruct hx
    have := tuple_gen_of c o ts n p nl hw.1 (fun XS items hi => absorbTuple_gen c o ts p 0 XS items hw.2 hu hs hi) xs
      (.tuple items) (by simpa [hasTy] using hi)
    simpa only [sstate, absorb, List.filterMap_append, List.filterMap_cons, tupleItems, List.filterMap_nil,
      seen_append] using this
  | .struct sn fs, n, p, nl, xs, x, hw, hu, hs, hx => by
    simp only [walkable, Bool.and_eq_true, Bool.not_eq_true'] at hw
    simp only [uniqueNames] at hu; simp only [smallEnums] at hs
    refine struct_gen_of c o sn fs n p nl hw.1 (fun sf hsf => ?_)
      (fun m XS sf hsf => absorbFields_next_gen c o fs p m XS sf hw.2 hu hs hsf) xs x hx
    have h0 := absorbFields_first_gen c o fs p .nil sf hw.2 hu hs hsf (fun _ _ => rfl)
    simpa only [TFields.append] using h0
  | .enum en vs, n, p, nl, xs, x, hw, hu, hs, hx => by
    simp only [walkable, Bool.and_eq_true, Bool.not_eq_true', bne_iff_ne, ne_eq] at hw
    simp only [uniqueNames] at hu
    simp only [smallEnums, Bool.and_eq_true, decide_eq_true_eq] at hs
    exact enum_gen_of c o en vs n p nl hw.1.1 hs.1 (payload_gen c o vs p hw.2 hu hs.2) xs x hx
theorem absorbTuple_gen (c : Code) (o : Options) : ∀ (ts : Tys) (p : String) (i : Nat) (XS : List SVals) (items : SVals),
    walkableTys o p i ts = true → uniqueNamesTys ts = true → smallEnumsTys ts = true → hasTys o items ts = true →
    absorbTuple c o p (sstateTys o p i ts XS) 0 items = .ok (sstateTys o p i ts (XS ++ [items]))
  | .nil, _, _, _, items, _, _, _, hi => by rw [hasTys_nil hi]; simp only [sstateTys, absorbTuple]
  | .cons t r, p, i, XS, items, hw, hu, hs, hi => by
    obtain ⟨v, ir, rfl, hv, hir⟩ := hasTys_cons hi
    simp only [walkableTys, Bool.and_eq_true] at hw
    simp only [uniqueNamesTys, Bool.and_eq_true] at hu; simp only [smallEnumsTys, Bool.and_eq_true] at hs
    have h0 : 0 < (Tracers.cons (sstate o (toString i) (childPath p (toString i)) false t (XS.filterMap headV))
        (sstateTys o p (i + 1) r (XS.filterMap tailV))).length := by simp only [Tracers.length]; omega
    have hshift := absorbTuple_shift c o p (sstate o (toString i) (childPath p (toString i)) false t (XS.filterMap headV ++ [v]))
      ir (sstateTys o p (i + 1) r (XS.filterMap tailV)) 0 (by rw [hasTys_length hir, sstateTys_length]; omega)
    simp only [sstateTys, absorbTuple, field_tracer_grow_id p 0 _ h0, Tracers.get?,
      absorb_gen c o t _ _ _ _ v hw.1 hu.1 hs.1 hv, bind, Except.bind, Tracers.set, hshift,
      absorbTuple_gen c o r p (i + 1) _ ir hw.2 hu.2 hs.2 hir, List.filterMap_append, List.filterMap_cons, headV, tailV,
      List.filterMap_nil]
    rfl
theorem absorbFields_first_gen (c : Code) (o : Options) : ∀ (fs : TyFields) (p : String) (acc : TFields) (sf : SFields),
    walkableFields o p fs = true → uniqueNamesFields fs = true → smallEnumsFields fs = true → hasFields o sf fs = true →
    (∀ m, m ∈ fs.names → acc.indexOf m = none) →
    absorbFields c o p 0 acc sf = .ok (TFields.append acc (sstateFields o p 1 fs [sf]))
  | .nil, _, acc, sf, _, _, _, hsf, _ => by
    rw [hasFields_nil hsf]; simp only [absorbFields, sstateFields, TFields.append_nil]
  | .cons fname t r, p, acc, sf, hw, hu, hs, hsf, hacc => by
    obtain ⟨a, v, sr, rfl, hv, hsr⟩ := hasFields_cons hsf
    simp only [walkableFields, Bool.and_eq_true] at hw
    simp only [uniqueNamesFields, Bool.and_eq_true, Bool.not_eq_true'] at hu
    simp only [smallEnumsFields, Bool.and_eq_true] at hs
    have hnone : acc.indexOf fname = none := hacc fname (by simp only [TyFields.names]; exact List.mem_cons_self)
    have ih := absorb_gen c o t fname (childPath p fname) false [] v hw.1 hu.1.2 hs.1 hv
    rw [sstate_nil] at ih
    simp only [childPath, List.nil_append] at ih
    have hacc' : ∀ m, m ∈ r.names →
        (acc.push fname 0 (sstate o fname (p ++ "." ++ fname) false t [v])).indexOf m = none := by
      intro m hm
      refine TFields.indexOf_push_none acc fname 0 _ m
        (hacc m (by simp only [TyFields.names]; exact List.mem_cons_of_mem _ hm)) ?_
      intro heq
      subst heq
      have := hu.1.1
      simp only [List.contains_eq_mem, decide_eq_false_iff_not] at this
      exact this hm
    have ihr := absorbFields_first_gen c o r p _ sr hw.2 hu.2 hs.2 hsr hacc'
    simp only [absorbFields, ensure_field, hnone, Tracer.new, bne_self_eq_false, Bool.false_eq_true,
      if_false, TFields.get?_push, ih, bind, Except.bind, TFields.set_push, ihr, TFields.push_append, sstateFields,
      Nat.sub_self, List.filterMap_cons, headF, tailF, List.filterMap_nil]
    rfl
theorem absorbFields_next_gen (c : Code) (o : Options) : ∀ (fs : TyFields) (p : String) (m : Nat) (XS : List SFields)
    (sf : SFields),
    walkableFields o p fs = true → uniqueNamesFields fs = true → smallEnumsFields fs = true → hasFields o sf fs = true →
    absorbFields c o p m (sstateFields o p m fs XS) sf = .ok (sstateFields o p (m + 1) fs (XS ++ [sf]))
  | .nil, _, _, _, sf, _, _, _, hsf => by rw [hasFields_nil hsf]; simp only [sstateFields, absorbFields]
  | .cons fname t r, p, m, XS, sf, hw, hu, hs, hsf => by
    obtain ⟨a, v, sr, rfl, hv, hsr⟩ := hasFields_cons hsf
    simp only [walkableFields, Bool.and_eq_true] at hw
    simp only [uniqueNamesFields, Bool.and_eq_true, Bool.not_eq_true'] at hu
    simp only [smallEnumsFields, Bool.and_eq_true] at hs
    have hnot : ¬ fname ∈ r.names := by
      have := hu.1.1
      simpa only [List.contains_eq_mem, decide_eq_false_iff_not] using this
    have hshift := absorbFields_shift_gen c o p m fname m
      (sstate o fname (childPath p fname) false t (XS.filterMap headF ++ [v])) r sr
      (sstateFields o p m r (XS.filterMap tailF)) hsr hnot
    simp only [sstateFields, absorbFields, ensure_field, TFields.indexOf, if_true, TFields.setLastSeen,
      TFields.get?, absorb_gen c o t _ _ _ _ v hw.1 hu.1.2 hs.1 hv, bind, Except.bind, TFields.set, hshift,
      absorbFields_next_gen c o r p m _ sr hw.2 hu.2 hs.2 hsr, Nat.add_sub_cancel, List.filterMap_append,
      List.filterMap_cons, headF, tailF, List.filterMap_nil]
    rfl
theorem payload_gen (c : Code) (o : Options) : ∀ (vs : TyVariants) (p : String), walkableVariants o p vs = true →
    uniqueNamesVariants vs = true → smallEnumsVariants vs = true →
    ∀ (j : Nat) vn T, (vList vs)[j]? = some (vn, T) → ∀ ys y, hasTy o y T = true →
      absorb c o (sstate o vn (childPath p vn) false T ys) y = .ok (sstate o vn (childPath p vn) false T (ys ++ [y]))
  | .nil, _, _, _, _, j, _, _, h, _, _, _ => by simp [vList] at h
  | .unit n r, p, hw, hu, hs, 0, vn, T, h, ys, y, hy => by
    simp only [vList, List.getElem?_cons_zero, Option.some.injEq, Prod.mk.injEq] at h
    obtain ⟨rfl, rfl⟩ := h
    rw [hasTy_unit hy]; simp only [sstate, absorb]; exact null_gen o _ _ false ys _
  | .newtype n t r, p, hw, hu, hs, 0, vn, T, h, ys, y, hy => by
    simp only [vList, List.getElem?_cons_zero, Option.some.injEq, Prod.mk.injEq] at h
    obtain ⟨rfl, rfl⟩ := h
    simp only [walkableVariants, Bool.and_eq_true] at hw
    simp only [uniqueNamesVariants, Bool.and_eq_true] at hu; simp only [smallEnumsVariants, Bool.and_eq_true] at hs
    exact absorb_gen c o t n _ false ys y hw.1 hu.1.2 hs.1 hy
  | .tuple n ts r, p, hw, hu, hs, 0, vn, T, h, ys, y, hy => by
    simp only [vList, List.getElem?_cons_zero, Option.some.injEq, Prod.mk.injEq] at h
    obtain ⟨rfl, rfl⟩ := h
    simp only [walkableVariants, Bool.and_eq_true, Bool.not_eq_true'] at hw
    simp only [uniqueNamesVariants, Bool.and_eq_true] at hu; simp only [smallEnumsVariants, Bool.and_eq_true] at hs
    exact tuple_gen_of c o ts n _ false hw.1.1
      (fun XS items hi => absorbTuple_gen c o ts _ 0 XS items hw.1.2 hu.1.2 hs.1 hi) ys y hy
  | .struct n fs r, p, hw, hu, hs, 0, vn, T, h, ys, y, hy => by
    simp only [vList, List.getElem?_cons_zero, Option.some.injEq, Prod.mk.injEq] at h
    obtain ⟨rfl, rfl⟩ := h
    simp only [walkableVariants, Bool.and_eq_true, Bool.not_eq_true'] at hw
    simp only [uniqueNamesVariants, Bool.and_eq_true] at hu; simp only [smallEnumsVariants, Bool.and_eq_true] at hs
    refine struct_gen_of c o n fs n _ false hw.1.1 (fun sf hsf => ?_)
      (fun m XS sf hsf => absorbFields_next_gen c o fs _ m XS sf hw.1.2 hu.1.2 hs.1 hsf) ys y hy
    have h0 := absorbFields_first_gen c o fs _ .nil sf hw.1.2 hu.1.2 hs.1 hsf (fun _ _ => rfl)
    simpa only [TFields.append] using h0
  | .unit n r, p, hw, hu, hs, j + 1, vn, T, h, ys, y, hy => by
    simp only [vList, List.getElem?_cons_succ] at h
    simp only [walkableVariants] at hw
    simp only [uniqueNamesVariants, Bool.and_eq_true] at hu; simp only [smallEnumsVariants] at hs
    exact payload_gen c o r p hw hu.2 hs j vn T h ys y hy
  | .newtype n t r, p, hw, hu, hs, j + 1, vn, T, h, ys, y, hy => by
    simp only [vList, List.getElem?_cons_succ] at h
    simp only [walkableVariants, Bool.and_eq_true] at hw
    simp only [uniqueNamesVariants, Bool.and_eq_true] at hu; simp only [smallEnumsVariants, Bool.and_eq_true] at hs
    exact payload_gen c o r p hw.2 hu.2 hs.2 j vn T h ys y hy
  | .tuple n ts r, p, hw, hu, hs, j + 1, vn, T, h, ys, y, hy => by
    simp only [vList, List.getElem?_cons_succ] at h
    simp only [walkableVariants, Bool.and_eq_true] at hw
    simp only [uniqueNamesVariants, Bool.and_eq_true] at hu; simp only [smallEnumsVariants, Bool.and_eq_true] at hs
    exact payload_gen c o r p hw.2 hu.2 hs.2 j vn T h ys y hy
  | .struct n fs r, p, hw, hu, hs, j + 1, vn, T, h, ys, y, hy => by
    simp only [vList, List.getElem?_cons_succ] at h
    simp only [walkableVariants, Bool.and_eq_true] at hw
    simp only [uniqueNamesVariants, Bool.and_eq_true] at hu; simp only [smallEnumsVariants, Bool.and_eq_true] at hs
    exact payload_gen c o r p hw.2 hu.2 hs.2 j vn T h ys y hy
end

end SaModel.Lemmas.C08
