import SaModel.Lemmas.C08GState
/-
C08 — the variant vector of a union node under `from_samples` over arbitrary values of an enum: `ensure_variant` on the
state `sVg … xs` for a sample of variant `a`, and what putting the variant's new tracer there gives (`sVg_ensure`).
-/
namespace SaModel.Lemmas.C08
open SaModel SaModel.Trace SaModel.Trace.Spec

theorem ensureV_absent_zero (path vn : String) (R : Variants) :
    ensureV path (.absent R) vn 0 = .ok (.present vn (.unknown vn (childPath path vn) false) R) := by
  unfold ensureV
  have e : 0 + 1 - (Variants.absent R).length = 0 := by simp only [Variants.length]; omega
  simp only [e, padNone_zero, Variants.get?, Variants.set]
  rfl

theorem ensureV_absent_succ (path : String) (R : Variants) (vn : String) (j : Nat) :
    ensureV path (.absent R) vn (j + 1) = (ensureV path R vn j).map Variants.absent := by
  unfold ensureV
  have e : j + 1 + 1 - (Variants.absent R).length = j + 1 - R.length := by simp only [Variants.length]; omega
  simp only [e, Variants.padNone, Variants.get?]
  cases (R.padNone (j + 1 - R.length)).get? j with
  | none => rfl
  | some x =>
    cases x with
    | none => rfl
    | some pr =>
      obtain ⟨prev, _⟩ := pr
      simp only
      split <;> rfl

theorem ensureV_nil_succ (path : String) (vn : String) (j : Nat) :
    ensureV path .nil vn (j + 1) = (ensureV path .nil vn j).map Variants.absent := by
  unfold ensureV
  simp only [Variants.length, Nat.sub_zero, Variants.padNone, Variants.nones, Variants.get?]
  generalize (Variants.absent (Variants.nones j)).get? j = g
  cases g with
  | none => rfl
  | some x =>
    cases x with
    | none => rfl
    | some pr =>
      obtain ⟨prev, _⟩ := pr
      simp only
      split <;> rfl

theorem anyFrom_congr (xs zs : List SVal) : ∀ (len i : Nat), (∀ k, i ≤ k → payloadsAt k zs = payloadsAt k xs) →
    anyFrom len i zs = anyFrom len i xs
  | 0, _, _ => rfl
  | len + 1, i, h => by
    simp only [anyFrom, h i (Nat.le_refl _), anyFrom_congr xs zs len (i + 1) (fun k hk => h k (by omega))]

theorem sVg_congr (o : Options) (p : String) (xs zs : List SVal) : ∀ (vl : List (String × Ty)) (i : Nat),
    (∀ k, i ≤ k → payloadsAt k zs = payloadsAt k xs) → sVg o p i vl zs = sVg o p i vl xs
  | [], _, _ => rfl
  | (n, T) :: rest, i, h => by
    simp only [sVg, anyFrom_congr xs zs _ i h, h i (Nat.le_refl _),
      sVg_congr o p xs zs rest (i + 1) (fun k hk => h k (by omega))]

theorem sVg_nil_of_anyFrom (o : Options) (p : String) (xs : List SVal) (vl : List (String × Ty)) (i : Nat)
    (h : anyFrom vl.length i xs = false) : sVg o p i vl xs = .nil := by
  cases vl with
  | nil => rfl
  | cons x rest => obtain ⟨n, T⟩ := x; simp only [List.length_cons] at h; simp only [sVg, h, Bool.false_eq_true, if_false]

theorem anyFrom_of_get (zs : List SVal) : ∀ (vl : List (String × Ty)) (i j : Nat) x, vl[j]? = some x →
    payloadsAt (i + j) zs ≠ [] → anyFrom vl.length i zs = true
  | [], _, _, _, h, _ => by simp at h
  | _ :: rest, i, 0, _, _, hne => by
    simp only [List.length_cons, anyFrom, Nat.add_zero] at hne ⊢
    cases h : payloadsAt i zs with
    | nil => exact absurd h hne
    | cons _ _ => rfl
  | _ :: rest, i, j + 1, x, h, hne => by
    simp only [List.getElem?_cons_succ] at h
    have e : i + (j + 1) = i + 1 + j := by omega
    rw [e] at hne
    simp only [List.length_cons, anyFrom, anyFrom_of_get zs rest (i + 1) j x h hne, Bool.or_true]

/-- a sample of variant `a = i + j` (relative position `j` in `vl`) with payload `y`; `zs` = the samples `xs` and then this
one: the variant exists after `ensure_variant`, holds the tracer of the payloads seen so far, and putting the tracer of
the payloads with `y` there is the state for `zs` -/
theorem sVg_ensure (o : Options) (p : String) (xs zs : List SVal) (y : SVal) :
    ∀ (vl : List (String × Ty)) (i j : Nat) (vn : String) (T : Ty), vl[j]? = some (vn, T) →
    payloadsAt (i + j) zs = payloadsAt (i + j) xs ++ [y] → (∀ k, k ≠ i + j → payloadsAt k zs = payloadsAt k xs) →
    ∃ V', ensureV p (sVg o p i vl xs) vn j = .ok V' ∧
      V'.get? j = some (some (vn, sstate o vn (childPath p vn) false T (payloadsAt (i + j) xs))) ∧
      V'.set j vn (sstate o vn (childPath p vn) false T (payloadsAt (i + j) xs ++ [y])) = sVg o p i vl zs
  | [], _, _, _, _, h, _, _ => by simp at h
  | (n, T') :: rest, i, 0, vn, T, h, hs, ho => by
    simp only [List.getElem?_cons_zero, Option.some.injEq, Prod.mk.injEq] at h
    obtain ⟨rfl, rfl⟩ := h
    simp only [Nat.add_zero] at hs ho ⊢
    have hrest : sVg o p (i + 1) rest zs = sVg o p (i + 1) rest xs :=
      sVg_congr o p xs zs rest (i + 1) (fun k hk => ho k (by omega))
    have hany : anyFrom (rest.length + 1) i zs = true := by
      simp only [anyFrom, hs]; simp
    have hz : sVg o p i ((n, T') :: rest) zs =
        .present n (sstate o n (childPath p n) false T' (payloadsAt i xs ++ [y])) (sVg o p (i + 1) rest xs) := by
      simp only [sVg, hany, if_true, hs, hrest, slot]; simp
    rw [hz]
    by_cases ha : anyFrom (rest.length + 1) i xs = true
    · cases hy : payloadsAt i xs with
      | nil =>
        simp only [sVg, ha, if_true, hy, slot, List.isEmpty_nil]
        refine ⟨_, ensureV_absent_zero p n _, ?_, ?_⟩
        · simp only [Variants.get?, sstate_nil]
        · simp only [Variants.set]
      | cons y0 yr =>
        simp only [sVg, ha, if_true, hy, slot, List.isEmpty_cons, Bool.false_eq_true, if_false]
        refine ⟨_, ensureV_present_zero p n _ _, ?_, ?_⟩
        · simp only [Variants.get?]
        · simp only [Variants.set]
    · have ha' : anyFrom (rest.length + 1) i xs = false := by simpa using ha
      have ha2 := ha'
      simp only [anyFrom, Bool.or_eq_false_iff, Bool.not_eq_false'] at ha2
      have hy : payloadsAt i xs = [] := List.isEmpty_iff.mp ha2.1
      have hr : sVg o p (i + 1) rest xs = .nil := sVg_nil_of_anyFrom o p xs rest (i + 1) ha2.2
      simp only [sVg, ha', Bool.false_eq_true, if_false, hy, hr]
      refine ⟨_, ensureV_nil_zero p n, ?_, ?_⟩
      · simp only [Variants.get?, sstate_nil]
      · simp only [Variants.set]
  | (n, T') :: rest, i, j + 1, vn, T, h, hs, ho => by
    simp only [List.getElem?_cons_succ] at h
    have e : i + (j + 1) = i + 1 + j := by omega
    rw [e] at hs ho ⊢
    obtain ⟨V'', h1, h2, h3⟩ := sVg_ensure o p xs zs y rest (i + 1) j vn T h hs ho
    have hi : payloadsAt i zs = payloadsAt i xs := ho i (by omega)
    have hany : anyFrom (rest.length + 1) i zs = true := by
      have := anyFrom_of_get zs rest (i + 1) j _ h (by rw [hs]; simp)
      simp only [anyFrom, this, Bool.or_true]
    have hz : sVg o p i ((n, T') :: rest) zs =
        slot (payloadsAt i xs) n (sstate o n (childPath p n) false T' (payloadsAt i xs)) (sVg o p (i + 1) rest zs) := by
      simp only [sVg, hany, if_true, hi]
    rw [hz, ← h3]
    by_cases ha : anyFrom (rest.length + 1) i xs = true
    · cases hy : payloadsAt i xs with
      | nil =>
        simp only [sVg, ha, if_true, hy, slot, List.isEmpty_nil, ensureV_absent_succ, h1]
        refine ⟨_, rfl, ?_, ?_⟩
        · simp only [Variants.get?, h2]
        · simp only [Variants.set]
      | cons y0 yr =>
        simp only [sVg, ha, if_true, hy, slot, List.isEmpty_cons, Bool.false_eq_true, if_false, ensureV_cons, h1]
        refine ⟨_, rfl, ?_, ?_⟩
        · simp only [Variants.get?, h2]
        · simp only [Variants.set]
    · have ha' : anyFrom (rest.length + 1) i xs = false := by simpa using ha
      have ha2 := ha'
      simp only [anyFrom, Bool.or_eq_false_iff, Bool.not_eq_false'] at ha2
      have hy : payloadsAt i xs = [] := List.isEmpty_iff.mp ha2.1
      have hr : sVg o p (i + 1) rest xs = .nil := sVg_nil_of_anyFrom o p xs rest (i + 1) ha2.2
      rw [hr] at h1
      simp only [sVg, ha', Bool.false_eq_true, if_false, hy, slot, List.isEmpty_nil, if_true, ensureV_nil_succ, h1]
      refine ⟨_, rfl, ?_, ?_⟩
      · simp only [Variants.get?, h2]
      · simp only [Variants.set]

end SaModel.Lemmas.C08
