import SaModel.Trace.Mapping
/-
C08 — an overwrite is LOCAL: the documented mapping of a type consults the overwrite table only at the paths of the traced
tree of that type (`mapping_lookups`), so registering an overwrite at a path that is not a path of a subtree leaves the
field of that subtree unchanged (`mapping_overwrite_foreign`), while at the node with that path the field is the
overwrite (`Props.C08.C08_mapping_overwrite`).  Together: an overwrite replaces EXACTLY the field at its path.
-/
namespace SaModel.Lemmas.C08
open SaModel SaModel.Trace SaModel.Trace.Spec

theorem overwritten_congr (o : Options) (ows' : List (String × Field)) (name path : String) (k k' : Unit → R Field)
    (h : ows'.find? (fun kv => kv.1 = path) = o.overwrites.find? (fun kv => kv.1 = path)) (hk : k () = k' ()) :
    overwritten { o with overwrites := ows' } name path k = overwritten o name path k' := by
  unfold overwritten
  simp only [h]
  split
  · rfl
  · exact hk

mutual
/-- the mapping of a type reads the overwrite table only at the paths of its tree -/
theorem mapping_lookups (o : Options) (ows' : List (String × Field)) : ∀ (ty : Ty) (name path : String) (nl : Bool),
    (∀ q ∈ tyPaths path ty, ows'.find? (fun kv => kv.1 = q) = o.overwrites.find? (fun kv => kv.1 = q)) →
    mapping { o with overwrites := ows' } name path nl ty = mapping o name path nl ty
  | .option t, name, path, _, h => by
    simp only [tyPaths] at h; simp only [mapping]; exact mapping_lookups o ows' t name path true h
  | .newtypeStruct _ t, name, path, nl, h => by
    simp only [tyPaths] at h; simp only [mapping]; exact mapping_lookups o ows' t name path nl h
  | .unit, name, path, _, h | .unitStruct _, name, path, _, h | .bool, name, path, _, h | .int _, name, path, _, h
  | .f32, name, path, _, h | .f64, name, path, _, h | .char, name, path, _, h | .string, name, path, _, h
  | .bytes, name, path, _, h => by
    simp only [mapping]
    exact overwritten_congr o ows' name path _ _ (h path (by simp only [tyPaths]; exact List.mem_cons_self)) rfl
  | .vec t, name, path, nl, h => by
    simp only [tyPaths] at h
    simp only [mapping]
    refine overwritten_congr o ows' name path _ _ (h path List.mem_cons_self) ?_
    simp only [mapping_lookups o ows' t "element" _ false (fun q hq => h q (List.mem_cons_of_mem _ hq))]
  | .tuple ts, name, path, nl, h | .tupleStruct _ ts, name, path, nl, h => by
    simp only [tyPaths] at h
    simp only [mapping]
    refine overwritten_congr o ows' name path _ _ (h path List.mem_cons_self) ?_
    simp only [mappingTys_lookups o ows' ts path 0 (fun q hq => h q (List.mem_cons_of_mem _ hq))]
  | .map k v, name, path, nl, h => by
    simp only [tyPaths] at h
    simp only [mapping]
    refine overwritten_congr o ows' name path _ _ (h path List.mem_cons_self) ?_
    simp only [mapping_lookups o ows' k "key" _ false
        (fun q hq => h q (List.mem_cons_of_mem _ (List.mem_append_left _ hq))),
      mapping_lookups o ows' v "value" _ false
        (fun q hq => h q (List.mem_cons_of_mem _ (List.mem_append_right _ hq)))]
  | .struct _ fs, name, path, nl, h => by
    simp only [tyPaths] at h
    simp only [mapping]
    refine overwritten_congr o ows' name path _ _ (h path List.mem_cons_self) ?_
    simp only [mappingFields_lookups o ows' fs path (fun q hq => h q (List.mem_cons_of_mem _ hq))]
  | .enum _ vs, name, path, nl, h => by
    simp only [tyPaths] at h
    simp only [mapping]
    refine overwritten_congr o ows' name path _ _ (h path List.mem_cons_self) ?_
    simp only [mappingVariants_lookups o ows' vs path 0 (fun q hq => h q (List.mem_cons_of_mem _ hq))]
    rfl
theorem mappingTys_lookups (o : Options) (ows' : List (String × Field)) : ∀ (ts : Tys) (path : String) (i : Nat),
    (∀ q ∈ tyPathsTys path i ts, ows'.find? (fun kv => kv.1 = q) = o.overwrites.find? (fun kv => kv.1 = q)) →
    mappingTys { o with overwrites := ows' } path i ts = mappingTys o path i ts
  | .nil, _, _, _ => by simp only [mappingTys]
  | .cons t r, path, i, h => by
    simp only [tyPathsTys] at h
    simp only [mappingTys, mapping_lookups o ows' t _ _ false (fun q hq => h q (List.mem_append_left _ hq)),
      mappingTys_lookups o ows' r path (i + 1) (fun q hq => h q (List.mem_append_right _ hq))]
theorem mappingFields_lookups (o : Options) (ows' : List (String × Field)) : ∀ (fs : TyFields) (path : String),
    (∀ q ∈ tyPathsFields path fs, ows'.find? (fun kv => kv.1 = q) = o.overwrites.find? (fun kv => kv.1 = q)) →
    mappingFields { o with overwrites := ows' } path fs = mappingFields o path fs
  | .nil, _, _ => by simp only [mappingFields]
  | .cons n t r, path, h => by
    simp only [tyPathsFields] at h
    simp only [mappingFields, mapping_lookups o ows' t n _ false (fun q hq => h q (List.mem_append_left _ hq)),
      mappingFields_lookups o ows' r path (fun q hq => h q (List.mem_append_right _ hq))]
theorem mappingVariants_lookups (o : Options) (ows' : List (String × Field)) : ∀ (vs : TyVariants) (path : String) (i : Nat),
    (∀ q ∈ tyPathsVariants path vs, ows'.find? (fun kv => kv.1 = q) = o.overwrites.find? (fun kv => kv.1 = q)) →
    mappingVariants { o with overwrites := ows' } path i vs = mappingVariants o path i vs
  | .nil, _, _, _ => by simp only [mappingVariants]
  | .unit n r, path, i, h => by
    simp only [tyPathsVariants] at h
    have h1 := overwritten_congr o ows' n (childPath path n) (fun _ => nullField { o with overwrites := ows' } n)
      (fun _ => nullField o n) (h _ List.mem_cons_self) rfl
    simp only [mappingVariants, h1,
      mappingVariants_lookups o ows' r path (i + 1) (fun q hq => h q (List.mem_cons_of_mem _ hq))]
  | .newtype n t r, path, i, h => by
    simp only [tyPathsVariants] at h
    simp only [mappingVariants, mapping_lookups o ows' t n _ false (fun q hq => h q (List.mem_append_left _ hq)),
      mappingVariants_lookups o ows' r path (i + 1) (fun q hq => h q (List.mem_append_right _ hq))]
  | .tuple n ts r, path, i, h => by
    simp only [tyPathsVariants] at h
    have h1 := overwritten_congr o ows' n (childPath path n)
      (fun _ => do
        let cs ← mappingTys { o with overwrites := ows' } (childPath path n) 0 ts
        .ok (.mk n (.struct (Fields.ofList cs)) false tupleMeta))
      (fun _ => do
        let cs ← mappingTys o (childPath path n) 0 ts
        .ok (.mk n (.struct (Fields.ofList cs)) false tupleMeta))
      (h _ (List.mem_append_left _ List.mem_cons_self))
      (by simp only [mappingTys_lookups o ows' ts (childPath path n) 0
            (fun q hq => h q (List.mem_append_left _ (List.mem_cons_of_mem _ hq)))])
    simp only [mappingVariants, h1,
      mappingVariants_lookups o ows' r path (i + 1) (fun q hq => h q (List.mem_append_right _ hq))]
  | .struct n fs r, path, i, h => by
    simp only [tyPathsVariants] at h
    have h1 := overwritten_congr o ows' n (childPath path n)
      (fun _ => do
        let cs ← mappingFields { o with overwrites := ows' } (childPath path n) fs
        .ok (.mk n (.struct (Fields.ofList cs)) false []))
      (fun _ => do
        let cs ← mappingFields o (childPath path n) fs
        .ok (.mk n (.struct (Fields.ofList cs)) false []))
      (h _ (List.mem_append_left _ List.mem_cons_self))
      (by simp only [mappingFields_lookups o ows' fs (childPath path n)
            (fun q hq => h q (List.mem_append_left _ (List.mem_cons_of_mem _ hq)))])
    simp only [mappingVariants, h1,
      mappingVariants_lookups o ows' r path (i + 1) (fun q hq => h q (List.mem_append_right _ hq))]
end

/-! ### `TracingOptions::overwrite` -/

theorem find_filter_ne (key q : String) (h : q ≠ key) : ∀ (ows : List (String × Field)),
    (ows.filter (fun kv => kv.1 != key)).find? (fun kv => kv.1 = q) = ows.find? (fun kv => kv.1 = q)
  | [] => rfl
  | kv :: r => by
    by_cases hk : kv.1 = key
    · have hq : ¬ key = q := fun e => h e.symm
      simp only [List.filter_cons, hk, bne_self_eq_false, Bool.false_eq_true, if_false, List.find?_cons, hq,
        decide_false, find_filter_ne key q h r]
    · have : (kv.1 != key) = true := by simp [hk]
      simp only [List.filter_cons, this, if_true, List.find?_cons, find_filter_ne key q h r]

theorem find_filter_self (key : String) : ∀ (ows : List (String × Field)),
    (ows.filter (fun kv => kv.1 != key)).find? (fun kv => kv.1 = key) = none
  | [] => rfl
  | kv :: r => by
    by_cases hk : kv.1 = key
    · simp only [List.filter_cons, hk, bne_self_eq_false, Bool.false_eq_true, if_false, find_filter_self key r]
    · have : (kv.1 != key) = true := by simp [hk]
      simp only [List.filter_cons, this, if_true, List.find?_cons, hk, decide_false, find_filter_self key r]

/-- the lookups of `o.overwrite pth f`: the new field under its key, everything else as before -/
theorem overwrite_find (o : Options) (pth : String) (f : Field) (q : String) :
    (o.overwrite pth f).overwrites.find? (fun kv => kv.1 = q) =
      if q = "$." ++ pth then some ("$." ++ pth, f) else o.overwrites.find? (fun kv => kv.1 = q) := by
  unfold Options.overwrite
  simp only [List.find?_append]
  by_cases hq : q = "$." ++ pth
  · subst hq
    simp only [find_filter_self, if_true, List.find?_cons, decide_true, Option.none_or]
  · have hq' : ¬ "$." ++ pth = q := fun e => hq e.symm
    simp only [find_filter_ne _ q hq, hq, if_false, List.find?_cons, hq', decide_false, List.find?_nil, Option.or_none]

/-- an overwrite registered at a path that is not a path of the tree of `ty` (at `path`) does not change its field -/
theorem mapping_overwrite_foreign (o : Options) (pth : String) (f : Field) (ty : Ty) (name path : String) (nl : Bool)
    (hk : "$." ++ pth ∉ tyPaths path ty) :
    mapping (o.overwrite pth f) name path nl ty = mapping o name path nl ty := by
  have h := mapping_lookups o (o.overwrite pth f).overwrites ty name path nl (fun q hq => by
    rw [overwrite_find]
    have : q ≠ "$." ++ pth := fun e => hk (e ▸ hq)
    simp only [this, if_false])
  exact h

end SaModel.Lemmas.C08
