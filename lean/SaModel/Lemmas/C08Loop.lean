import SaModel.Lemmas.C08Step
/-
C08 — the `while !tracer.is_complete()` loop of `Tracer::from_type` with its budget, and the tail of `from_type`
(`finish`, `check`, `to_schema`) against `Spec.fromTypeSpec`.
-/
namespace SaModel.Lemmas.C08
open SaModel SaModel.Trace SaModel.Trace.Spec

/-- after `k` passes the tracer is complete iff `k` reaches the number of passes the type needs -/
theorem after_complete_iff (o : Options) (ty : Ty) (n p : String) (nl : Bool) (k : Nat) (hw : walkable o p ty = true) :
    (after o n p nl k ty).is_complete = decide (passes ty ≤ k) := by
  have hpos := passes_pos o ty p hw
  by_cases h : passes ty ≤ k
  · obtain ⟨k', rfl⟩ : ∃ k', k = k' + 1 := ⟨k - 1, by omega⟩
    rw [after_done o ty n p nl k' hw h, done_complete]; simp [h]
  · rw [after_incomplete o ty n p nl k (by omega)]; simp [h]

/-- the loop: `b` passes left, `k` passes done -/
theorem loop_after (c : Code) (o : Options) (ty : Ty) (n p : String) (nl : Bool) (hw : walkable o p ty = true) :
    ∀ (b k : Nat), fromTypeLoop c o ty b (after o n p nl k ty) =
      if passes ty ≤ k + b then .ok (done o n p nl ty)
      else fail "Could not determine schema from the type after {budget} iterations"
  | 0, k => by
    unfold fromTypeLoop
    rw [after_complete_iff o ty n p nl k hw]
    have hpos := passes_pos o ty p hw
    by_cases h : passes ty ≤ k
    · obtain ⟨k', rfl⟩ : ∃ k', k = k' + 1 := ⟨k - 1, by omega⟩
      simp only [h, decide_true, if_true, Nat.add_zero, after_done o ty n p nl k' hw h]
    · simp only [h, decide_false, Bool.false_eq_true, if_false, Nat.add_zero]
  | b + 1, k => by
    unfold fromTypeLoop
    rw [after_complete_iff o ty n p nl k hw]
    have hpos := passes_pos o ty p hw
    by_cases h : passes ty ≤ k
    · obtain ⟨k', rfl⟩ : ∃ k', k = k' + 1 := ⟨k - 1, by omega⟩
      have h2 : passes ty ≤ k' + 1 + (b + 1) := by omega
      simp only [h, h2, decide_true, if_true, after_done o ty n p nl k' hw h]
    · simp only [h, decide_false, Bool.false_eq_true, if_false, explore_step c o ty n p nl k hw, bind, Except.bind,
        loop_after c o ty n p nl hw b (k + 1)]
      have : k + 1 + b = k + (b + 1) := by omega
      rw [this]

theorem done_name (o : Options) : ∀ (ty : Ty) (n p : String) (nl : Bool), (done o n p nl ty).name = n
  | .unit, _, _, _ | .unitStruct _, _, _, _ | .bool, _, _, _ | .int _, _, _, _ | .f32, _, _, _ | .f64, _, _, _
  | .char, _, _, _ | .string, _, _, _ | .bytes, _, _, _ | .vec _, _, _, _ | .tuple _, _, _, _
  | .tupleStruct _ _, _, _, _ | .map _ _, _, _, _ | .struct _ _, _, _, _ | .enum _ _, _, _, _ => by
    simp only [done, Tracer.name]
  | .option t, n, p, _ => by simp only [done]; exact done_name o t n p true
  | .newtypeStruct _ t, n, p, nl => by simp only [done]; exact done_name o t n p nl

/-- `Tracer::from_type`: the complete tracer, or the budget error, or the unknown-overwrite error -/
theorem fromTypeTracer_walkable (c : Code) (o : Options) (ty : Ty) (hw : walkable o "$" ty = true) :
    fromTypeTracer c o ty =
      if passes ty ≤ o.from_type_budget then
        (if (o.overwrites.all fun kv => (tyPaths "$" ty).contains kv.1) = true then .ok (done o "$" "$" false ty)
         else fail "Overwritten fields could not be found")
      else fail "Could not determine schema from the type after {budget} iterations" := by
  unfold fromTypeTracer
  have h := loop_after c o ty "$" "$" false hw o.from_type_budget 0
  rw [after_zero, Nat.zero_add] at h
  rw [Tracer.new, h]
  by_cases hb : passes ty ≤ o.from_type_budget
  · simp only [hb, if_true, bind, Except.bind, Tracer.finish, Tracer.check, done_name, bne_self_eq_false,
      Bool.false_eq_true, if_false, Tracer.check_overwrites, done_paths]
    cases (o.overwrites.all fun kv => (tyPaths "$" ty).contains kv.1) <;> rfl
  · simp only [hb, if_false]; rfl

/-- the tails of `to_schema` and of `Spec.fromTypeSpec` agree -/
theorem to_schema_tail (root : Field) :
    Agree (if root.nullable = true then fail "The root type cannot be nullable"
      else match root.dataType with
        | .struct children => .ok children.toList
        | .null => fail "No records found to determine schema"
        | _ => fail "Schema tracing is not directly supported for the root data type")
      (if root.nullable = true then fail "the root cannot be nullable"
      else match root.dataType with
        | .struct children => .ok children.toList
        | _ => fail "the root must be a struct" : R (List Field)) := by
  cases root.nullable
  · simp only [Bool.false_eq_true, if_false]
    cases root.dataType <;> first | exact Agree.ok _ | exact Agree.fail _ _
  · exact Agree.fail _ _

/-- `SerdeArrowSchema::from_type` of a type that can be walked is the documented result -/
theorem fromType_walkable (c : Code) (o : Options) (ty : Ty) (hw : walkable o "$" ty = true) :
    Agree (fromType c o ty) (fromTypeSpec o ty) := by
  unfold fromType fromTypeSpec
  rw [fromTypeTracer_walkable c o ty hw]
  simp only [hw, Bool.not_true, Bool.false_eq_true, if_false]
  by_cases hb : passes ty ≤ o.from_type_budget
  · have hb' : ¬ passes ty > o.from_type_budget := by omega
    simp only [hb, hb', if_true, if_false]
    cases ho : (o.overwrites.all fun kv => (tyPaths "$" ty).contains kv.1)
    · exact Agree.fail _ _
    · simp only [if_true, Bool.not_true, Bool.false_eq_true, if_false, bind, Except.bind, Tracer.to_schema]
      exact Agree.bind (done_to_field o ty "$" "$" false) to_schema_tail
  · have hb' : passes ty > o.from_type_budget := by omega
    simp only [hb, hb', if_true, if_false]
    exact Agree.fail _ _

end SaModel.Lemmas.C08
