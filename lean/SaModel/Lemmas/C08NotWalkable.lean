import SaModel.Lemmas.C08ConfStep
import SaModel.Lemmas.C08Loop
/-
C08 — types that cannot be walked: `from_type` is a Rust error (never a success, never a panic), hence
`fromType c o ty` agrees with `Spec.fromTypeSpec o ty` for EVERY type description.  Recursive types: every unrolling of
a type constructor that descends one path level per unrolling is beyond the depth limit from 21 unrollings on.
-/
namespace SaModel.Lemmas.C08
open SaModel SaModel.Trace SaModel.Trace.Spec

/-- the loop keeps conformance; when it succeeds the tracer is complete -/
theorem loop_conf (c : Code) (o : Options) (ty : Ty) (p : String) : ∀ (b : Nat) (t : Tracer), Conf o p ty t →
    Pres (fromTypeLoop c o ty b t) (fun t' => Conf o p ty t' ∧ t'.is_complete = true)
  | 0, t, h => by
    unfold fromTypeLoop
    cases hc : t.is_complete with
    | true => exact Pres.ok ⟨h, hc⟩
    | false => exact Pres.fail _
  | b + 1, t, h => by
    unfold fromTypeLoop
    cases hc : t.is_complete with
    | true => exact Pres.ok ⟨h, hc⟩
    | false => exact Pres.bind (explore_conf c o ty p t h) fun t' h' => loop_conf c o ty p b t' h'

/-- `from_type` of a type that cannot be walked is a Rust error -/
theorem fromType_not_walkable (c : Code) (o : Options) (ty : Ty) (hw : walkable o "$" ty = false) :
    ∃ m, fromType c o ty = .error (.err m) := by
  have h := loop_conf c o ty "$" o.from_type_budget (Tracer.new "$" "$") (conf_fresh o ty "$" "$" false)
  unfold fromType fromTypeTracer
  cases hl : fromTypeLoop c o ty o.from_type_budget (Tracer.new "$" "$") with
  | ok t' =>
    rw [hl] at h
    have := conf_complete_walkable o ty "$" t' h.1 h.2
    rw [hw] at this; cases this
  | error e =>
    rw [hl] at h
    cases e with
    | err m => exact ⟨m, rfl⟩
    | panic s => exact h.elim
    | errCtx m a => exact h.elim

/-- `from_type` is the documented result, for every type description and every option record -/
theorem fromType_spec (c : Code) (o : Options) (ty : Ty) : Agree (fromType c o ty) (fromTypeSpec o ty) := by
  cases hw : walkable o "$" ty with
  | true => exact fromType_walkable c o ty hw
  | false =>
    obtain ⟨m, hm⟩ := fromType_not_walkable c o ty hw
    rw [hm]
    unfold fromTypeSpec
    simp only [hw, Bool.not_false, if_true]
    exact Agree.fail m _

/-! ### recursive types -/

theorem countDots_child (p n : String) : countDots (childPath p n) = countDots p + 1 + countDots n := by
  simp [countDots, childPath, List.filter_append]
  omega

/-- `n`-fold unrolling of a recursive type definition `T = F T`, cut off with `base` -/
def unroll (F : Ty → Ty) : Nat → Ty → Ty
  | 0, base => base
  | n + 1, base => F (unroll F n base)

/-- `F` puts its argument below a container, at least one path level down -/
def Descends (o : Options) (F : Ty → Ty) : Prop :=
  ∀ (t : Ty) (p : String), walkable o p (F t) = true →
    tooDeep p = false ∧ ∃ q, countDots p + 1 ≤ countDots q ∧ walkable o q t = true

theorem unroll_depth (o : Options) (F : Ty → Ty) (hF : Descends o F) (base : Ty) : ∀ (n : Nat) (p : String),
    walkable o p (unroll F (n + 1) base) = true → countDots p + n < MAX_TYPE_DEPTH
  | 0, p, h => by
    have := (hF _ p h).1
    unfold tooDeep at this
    simp at this
    omega
  | n + 1, p, h => by
    obtain ⟨_, q, hq, hwq⟩ := hF _ p h
    have := unroll_depth o F hF base n q hwq
    omega

/-- a recursive type, unrolled beyond the depth limit, cannot be walked -/
theorem unroll_not_walkable (o : Options) (F : Ty → Ty) (hF : Descends o F) (base : Ty) (n : Nat)
    (hn : MAX_TYPE_DEPTH < n) : walkable o "$" (unroll F n base) = false := by
  obtain ⟨k, rfl⟩ : ∃ k, n = k + 1 := ⟨n - 1, by unfold MAX_TYPE_DEPTH at hn; omega⟩
  cases hw : walkable o "$" (unroll F (k + 1) base) with
  | false => rfl
  | true =>
    have := unroll_depth o F hF base k "$" hw
    omega

end SaModel.Lemmas.C08
