import SaModel.Lemmas.C08Samples
/-
C08 — `from_samples` over the covering samples of a type WITH enums: `safter m ty` is the tracer after absorbing the
covering samples `0 … m-1` (`sampleAt ty k`), written down from the type.  Sample `k` of an enum with `L` variants
exercises variant `k % L` with payload sample `k / L`; after `m = q·L + r` samples the variants `< r` have absorbed
`q + 1` payload samples and the others `q` (variants that have absorbed none do not exist yet).
This file: the definitions, and `erase (safter m ty) = done ty` once `m` reaches `width ty` (`erase` forgets the sample
counters of struct nodes, which `to_field`, `collect_paths` and `name` do not read).
-/
namespace SaModel.Lemmas.C08
open SaModel SaModel.Trace SaModel.Trace.Spec

/-- payload samples absorbed by variant `i` after `q·L + r` samples -/
def cnt (q r i : Nat) : Nat := if i < r then q + 1 else q

mutual
def safter (o : Options) (n p : String) (nl : Bool) : Nat → Ty → Tracer
  | 0, _ => .unknown n p nl
  | _ + 1, .unit => .primitive n p true .null none
  | _ + 1, .unitStruct _ => .primitive n p true .null none
  | _ + 1, .bool => .primitive n p nl .boolean none
  | _ + 1, .int t => .primitive n p nl (intDataType t) none
  | _ + 1, .f32 => .primitive n p nl .float32 none
  | _ + 1, .f64 => .primitive n p nl .float64 none
  | _ + 1, .char => .primitive n p nl .uint32 none
  | _ + 1, .string => .primitive n p nl o.string_type none
  | _ + 1, .bytes => .primitive n p nl .largeBinary none
  | m + 1, .option t => safter o n p true (m + 1) t
  | m + 1, .newtypeStruct _ t => safter o n p nl (m + 1) t
  | m + 1, .vec t => .list n p nl (safter o "element" (childPath p "element") false (m + 1) t)
  | m + 1, .tuple ts => .tuple n p nl (safterTys o p (m + 1) 0 ts)
  | m + 1, .tupleStruct _ ts => .tuple n p nl (safterTys o p (m + 1) 0 ts)
  | m + 1, .map kt vt =>
    .map n p nl (safter o "key" (childPath p "key") false (m + 1) kt)
      (safter o "value" (childPath p "value") false (m + 1) vt)
  | m + 1, .struct _ fs => .struct n p nl (safterFields o p (m + 1) fs) .struct (m + 1)
  | m + 1, .enum _ vs => .union n p nl (safterVariants o p ((m + 1) / vs.length) ((m + 1) % vs.length) 0 vs)
def safterTys (o : Options) (p : String) (m : Nat) : Nat → Tys → Tracers
  | _, .nil => .nil
  | i, .cons t r => .cons (safter o (toString i) (childPath p (toString i)) false m t) (safterTys o p m (i + 1) r)
def safterFields (o : Options) (p : String) (m : Nat) : TyFields → TFields
  | .nil => .nil
  | .cons n t r => .cons n (m - 1) (safter o n (childPath p n) false m t) (safterFields o p m r)
def safterVariants (o : Options) (p : String) (q r : Nat) : Nat → TyVariants → Variants
  | _, .nil => .nil
  | i, .unit n rest =>
    match cnt q r i with
    | 0 => .nil
    | _ + 1 => .present n (.primitive n (childPath p n) true .null none) (safterVariants o p q r (i + 1) rest)
  | i, .newtype n t rest =>
    match cnt q r i with
    | 0 => .nil
    | c + 1 => .present n (safter o n (childPath p n) false (c + 1) t) (safterVariants o p q r (i + 1) rest)
  | i, .tuple n ts rest =>
    match cnt q r i with
    | 0 => .nil
    | c + 1 =>
      .present n (.tuple n (childPath p n) false (safterTys o (childPath p n) (c + 1) 0 ts))
        (safterVariants o p q r (i + 1) rest)
  | i, .struct n fs rest =>
    match cnt q r i with
    | 0 => .nil
    | c + 1 =>
      .present n (.struct n (childPath p n) false (safterFields o (childPath p n) (c + 1) fs) .struct (c + 1))
        (safterVariants o p q r (i + 1) rest)
end

theorem safter_zero (o : Options) (n p : String) (nl : Bool) (ty : Ty) : safter o n p nl 0 ty = .unknown n p nl := by
  cases ty <;> simp only [safter]

/-- the variants as (name, type the payload is explored as) -/
def vList : TyVariants → List (String × Ty)
  | .nil => []
  | .unit n r => (n, .unit) :: vList r
  | .newtype n t r => (n, t) :: vList r
  | .tuple n ts r => (n, .tuple ts) :: vList r
  | .struct n fs r => (n, .struct n fs) :: vList r

theorem vList_length : ∀ vs : TyVariants, (vList vs).length = vs.length
  | .nil => rfl
  | .unit _ r | .newtype _ _ r | .tuple _ _ r | .struct _ _ r => by
    simp only [vList, List.length_cons, TyVariants.length, vList_length r]

/-- `safterVariants` over the plain list -/
def sV (o : Options) (p : String) (q r : Nat) : Nat → List (String × Ty) → Variants
  | _, [] => .nil
  | i, (n, T) :: rest =>
    match cnt q r i with
    | 0 => .nil
    | c + 1 => .present n (safter o n (childPath p n) false (c + 1) T) (sV o p q r (i + 1) rest)

theorem safterVariants_eq (o : Options) (p : String) (q r : Nat) : ∀ (vs : TyVariants) (i : Nat),
    safterVariants o p q r i vs = sV o p q r i (vList vs)
  | .nil, _ => rfl
  | .unit n rest, i => by
    simp only [safterVariants, vList, sV, safterVariants_eq o p q r rest]
    cases cnt q r i <;> simp only [safter]
  | .newtype n t rest, i => by
    simp only [safterVariants, vList, sV, safterVariants_eq o p q r rest]
  | .tuple n ts rest, i => by
    simp only [safterVariants, vList, sV, safterVariants_eq o p q r rest]
    cases cnt q r i <;> simp only [safter]
  | .struct n fs rest, i => by
    simp only [safterVariants, vList, sV, safterVariants_eq o p q r rest]
    cases cnt q r i <;> simp only [safter]

/-! ### forgetting the sample counters -/

mutual
def erase : Tracer → Tracer
  | .unknown n p nl => .unknown n p nl
  | .primitive n p nl ty st => .primitive n p nl ty st
  | .list n p nl i => .list n p nl (erase i)
  | .map n p nl k v => .map n p nl (erase k) (erase v)
  | .struct n p nl fs m _ => .struct n p nl (eraseFields fs) m 0
  | .tuple n p nl ts => .tuple n p nl (eraseTracers ts)
  | .union n p nl vs => .union n p nl (eraseVariants vs)
def eraseTracers : Tracers → Tracers
  | .nil => .nil
  | .cons t r => .cons (erase t) (eraseTracers r)
def eraseFields : TFields → TFields
  | .nil => .nil
  | .cons n _ t r => .cons n 0 (erase t) (eraseFields r)
def eraseVariants : Variants → Variants
  | .nil => .nil
  | .absent r => .absent (eraseVariants r)
  | .present n t r => .present n (erase t) (eraseVariants r)
end

theorem erase_is_null (t : Tracer) : (erase t).is_unknown_or_null = t.is_unknown_or_null := by
  cases t <;> simp only [erase, Tracer.is_unknown_or_null]

theorem eraseVariants_without_data : ∀ V : Variants, (eraseVariants V).is_without_data = V.is_without_data
  | .nil => rfl
  | .absent _ => rfl
  | .present _ t r => by
    simp only [eraseVariants, Variants.is_without_data, is_null_variant, erase_is_null, eraseVariants_without_data r]

mutual
theorem erase_to_field (o : Options) : ∀ t : Tracer, (erase t).to_field o = t.to_field o
  | .unknown _ _ _ | .primitive _ _ _ _ _ => by simp only [erase]
  | .list _ _ _ i => by simp only [erase, Tracer.to_field, erase_to_field o i]
  | .map _ _ _ k v => by simp only [erase, Tracer.to_field, erase_to_field o k, erase_to_field o v]
  | .struct _ _ _ fs _ _ => by simp only [erase, Tracer.to_field, eraseFields_to_fields o fs]
  | .tuple _ _ _ ts => by simp only [erase, Tracer.to_field, eraseTracers_to_fields o ts]
  | .union _ _ _ vs => by
    simp only [erase, Tracer.to_field, eraseVariants_without_data, eraseVariants_to_fields o vs]
theorem eraseTracers_to_fields (o : Options) : ∀ ts : Tracers, (eraseTracers ts).to_fields o = ts.to_fields o
  | .nil => rfl
  | .cons t r => by simp only [eraseTracers, Tracers.to_fields, erase_to_field o t, eraseTracers_to_fields o r]
theorem eraseFields_to_fields (o : Options) : ∀ fs : TFields, (eraseFields fs).to_fields o = fs.to_fields o
  | .nil => rfl
  | .cons _ _ t r => by simp only [eraseFields, TFields.to_fields, erase_to_field o t, eraseFields_to_fields o r]
theorem eraseVariants_to_fields (o : Options) : ∀ (vs : Variants) (i : Nat),
    (eraseVariants vs).to_fields o i = vs.to_fields o i
  | .nil, _ => rfl
  | .absent r, i => by simp only [eraseVariants, Variants.to_fields, eraseVariants_to_fields o r]
  | .present _ t r, i => by
    simp only [eraseVariants, Variants.to_fields, erase_to_field o t, eraseVariants_to_fields o r]
end

mutual
theorem erase_paths : ∀ t : Tracer, (erase t).collect_paths = t.collect_paths
  | .unknown _ _ _ | .primitive _ _ _ _ _ => by simp only [erase]
  | .list _ _ _ i => by simp only [erase, Tracer.collect_paths, erase_paths i]
  | .map _ _ _ k v => by simp only [erase, Tracer.collect_paths, erase_paths k, erase_paths v]
  | .struct _ _ _ fs _ _ => by simp only [erase, Tracer.collect_paths, eraseFields_paths fs]
  | .tuple _ _ _ ts => by simp only [erase, Tracer.collect_paths, eraseTracers_paths ts]
  | .union _ _ _ vs => by simp only [erase, Tracer.collect_paths, eraseVariants_paths vs]
theorem eraseTracers_paths : ∀ ts : Tracers, (eraseTracers ts).collect_paths = ts.collect_paths
  | .nil => rfl
  | .cons t r => by simp only [eraseTracers, Tracers.collect_paths, erase_paths t, eraseTracers_paths r]
theorem eraseFields_paths : ∀ fs : TFields, (eraseFields fs).collect_paths = fs.collect_paths
  | .nil => rfl
  | .cons _ _ t r => by simp only [eraseFields, TFields.collect_paths, erase_paths t, eraseFields_paths r]
theorem eraseVariants_paths : ∀ vs : Variants, (eraseVariants vs).collect_paths = vs.collect_paths
  | .nil => rfl
  | .absent r => by simp only [eraseVariants, Variants.collect_paths, eraseVariants_paths r]
  | .present _ t r => by simp only [eraseVariants, Variants.collect_paths, erase_paths t, eraseVariants_paths r]
end

theorem erase_name (t : Tracer) : (erase t).name = t.name := by
  cases t <;> simp only [erase, Tracer.name]

end SaModel.Lemmas.C08
