import SaModel.Lemmas.C08SStep
/-
C08 — `from_samples` on the covering samples of a type = `from_type`, enums included.
-/
namespace SaModel.Lemmas.C08
open SaModel SaModel.Trace SaModel.Trace.Spec

theorem absorbAll_covering (c : Code) (o : Options) (ty : Ty) (n p : String) (nl : Bool)
    (hw : walkable o p ty = true) (hu : uniqueNames ty = true) (hs : smallEnums ty = true) : ∀ (len k : Nat),
    absorbAll c o (safter o n p nl k ty) ((List.range' k len).map (sampleAt ty)) = .ok (safter o n p nl (k + len) ty)
  | 0, k => rfl
  | len + 1, k => by
    simp only [List.range', List.map_cons, absorbAll, absorb_step c o ty n p nl k hw hu hs, bind, Except.bind,
      absorbAll_covering c o ty n p nl hw hu hs len (k + 1)]
    have : k + 1 + len = k + (len + 1) := by omega
    rw [this]

/-- the tracer `from_samples` ends with, up to the sample counters -/
theorem fromSamples_covering (c : Code) (o : Options) (ty : Ty) (hw : walkable o "$" ty = true)
    (hu : uniqueNames ty = true) (hs : smallEnums ty = true) :
    fromSamples c o (covering ty) =
      if (o.overwrites.all fun kv => (tyPaths "$" ty).contains kv.1) = true then (done o "$" "$" false ty).to_schema o
      else fail "Overwritten fields could not be found" := by
  have hpos := width_pos ty
  obtain ⟨w, hwd⟩ : ∃ w, width ty = w + 1 := ⟨width ty - 1, by omega⟩
  have hall := absorbAll_covering c o ty "$" "$" false hw hu hs (width ty) 0
  rw [safter_zero, Nat.zero_add, ← List.range_eq_range'] at hall
  have he := erase_safter o ty "$" "$" false w hw (by omega)
  rw [← hwd] at he
  have hname : (safter o "$" "$" false (width ty) ty).name = "$" := by
    rw [← erase_name, he, done_name]
  have hpaths : (safter o "$" "$" false (width ty) ty).collect_paths = tyPaths "$" ty := by
    rw [← erase_paths, he, done_paths]
  have hfield : (safter o "$" "$" false (width ty) ty).to_schema o = (done o "$" "$" false ty).to_schema o := by
    unfold Tracer.to_schema; rw [← erase_to_field, he]
  unfold fromSamples fromSamplesTracer covering
  simp only [Tracer.new, hall, bind, Except.bind, Tracer.finish, Tracer.check, hname, bne_self_eq_false,
    Bool.false_eq_true, if_false, Tracer.check_overwrites, hpaths]
  cases (o.overwrites.all fun kv => (tyPaths "$" ty).contains kv.1)
  · rfl
  · simp only [if_true]; exact hfield

theorem agree_all (c : Code) (o : Options) (ty : Ty) (hw : walkable o "$" ty = true) (hu : uniqueNames ty = true)
    (hs : smallEnums ty = true) (hb : passes ty ≤ o.from_type_budget) :
    fromSamples c o (covering ty) = fromType c o ty := by
  rw [fromSamples_covering c o ty hw hu hs]
  unfold fromType
  rw [fromTypeTracer_walkable c o ty hw]
  simp only [hb, if_true]
  cases (o.overwrites.all fun kv => (tyPaths "$" ty).contains kv.1) <;> rfl

end SaModel.Lemmas.C08
