import SaModel.Lemmas.C08SAfter
/-
C08 — once every covering sample has been absorbed (`width ty ≤ m`), the tracer of `from_samples` is, up to the sample
counters, the complete tracer `done` of `from_type`.
-/
namespace SaModel.Lemmas.C08
open SaModel SaModel.Trace SaModel.Trace.Spec

theorem widthTys_pos : ∀ ts : Tys, 1 ≤ widthTys ts
  | .nil => by simp only [widthTys]; omega
  | .cons t r => by simp only [widthTys]; have := widthTys_pos r; omega

theorem widthFields_pos : ∀ fs : TyFields, 1 ≤ widthFields fs
  | .nil => by simp only [widthFields]; omega
  | .cons _ t r => by simp only [widthFields]; have := widthFields_pos r; omega

theorem widthVariants_pos : ∀ vs : TyVariants, 1 ≤ widthVariants vs
  | .nil => by simp only [widthVariants]; omega
  | .unit _ r => by simp only [widthVariants]; exact widthVariants_pos r
  | .newtype _ t r => by simp only [widthVariants]; have := widthVariants_pos r; omega
  | .tuple _ ts r => by simp only [widthVariants]; have := widthVariants_pos r; omega
  | .struct _ fs r => by simp only [widthVariants]; have := widthVariants_pos r; omega

theorem width_pos : ∀ ty : Ty, 1 ≤ width ty
  | .unit | .unitStruct _ | .bool | .int _ | .f32 | .f64 | .char | .string | .bytes => by simp only [width]; omega
  | .option t | .vec t | .newtypeStruct _ t => by simp only [width]; exact width_pos t
  | .tuple ts | .tupleStruct _ ts => by simp only [width]; exact widthTys_pos ts
  | .map k v => by simp only [width]; have := width_pos k; omega
  | .struct _ fs => by simp only [width]; exact widthFields_pos fs
  | .enum _ vs => by simp only [width]; omega

theorem le_cnt (q r i : Nat) : q ≤ cnt q r i := by unfold cnt; split <;> omega

mutual
theorem erase_safter (o : Options) : ∀ (ty : Ty) (n p : String) (nl : Bool) (m : Nat), walkable o p ty = true →
    width ty ≤ m + 1 → erase (safter o n p nl (m + 1) ty) = done o n p nl ty
  | .unit, _, _, _, _, _, _ | .unitStruct _, _, _, _, _, _, _ | .bool, _, _, _, _, _, _ | .int _, _, _, _, _, _, _
  | .f32, _, _, _, _, _, _ | .f64, _, _, _, _, _, _ | .char, _, _, _, _, _, _ | .string, _, _, _, _, _, _
  | .bytes, _, _, _, _, _, _ => by simp only [safter, erase, done]
  | .option t, n, p, _, m, hw, hm => by
    simp only [walkable] at hw; simp only [width] at hm; simp only [safter, done]; exact erase_safter o t n p true m hw hm
  | .newtypeStruct _ t, n, p, nl, m, hw, hm => by
    simp only [walkable] at hw; simp only [width] at hm; simp only [safter, done]; exact erase_safter o t n p nl m hw hm
  | .vec t, n, p, nl, m, hw, hm => by
    simp only [walkable, Bool.and_eq_true] at hw; simp only [width] at hm
    simp only [safter, erase, done, erase_safter o t _ _ _ m hw.2 hm]
  | .tuple ts, n, p, nl, m, hw, hm | .tupleStruct _ ts, n, p, nl, m, hw, hm => by
    simp only [walkable, Bool.and_eq_true] at hw; simp only [width] at hm
    simp only [safter, erase, done, eraseTracers_safter o ts p 0 m hw.2 hm]
  | .map kt vt, n, p, nl, m, hw, hm => by
    simp only [walkable, Bool.and_eq_true] at hw; simp only [width] at hm
    simp only [safter, erase, done, erase_safter o kt _ _ _ m hw.1.2 (by omega), erase_safter o vt _ _ _ m hw.2 (by omega)]
  | .struct _ fs, n, p, nl, m, hw, hm => by
    simp only [walkable, Bool.and_eq_true] at hw; simp only [width] at hm
    simp only [safter, erase, done, eraseFields_safter o fs p m hw.2 hm]
  | .enum _ vs, n, p, nl, m, hw, hm => by
    simp only [walkable, Bool.and_eq_true, bne_iff_ne, ne_eq] at hw; simp only [width] at hm
    have hL : 0 < vs.length := by omega
    have hwv := widthVariants_pos vs
    have hq : widthVariants vs ≤ (m + 1) / vs.length := by
      rw [Nat.le_div_iff_mul_le hL, Nat.mul_comm]; omega
    simp only [safter, erase, done, eraseVariants_safter o vs p _ _ 0 hw.2 hq (by omega)]
theorem eraseTracers_safter (o : Options) : ∀ (ts : Tys) (p : String) (i m : Nat), walkableTys o p i ts = true →
    widthTys ts ≤ m + 1 → eraseTracers (safterTys o p (m + 1) i ts) = doneTys o p i ts
  | .nil, _, _, _, _, _ => by simp only [safterTys, eraseTracers, doneTys]
  | .cons t r, p, i, m, hw, hm => by
    simp only [walkableTys, Bool.and_eq_true] at hw; simp only [widthTys] at hm
    simp only [safterTys, eraseTracers, doneTys, erase_safter o t _ _ _ m hw.1 (by omega),
      eraseTracers_safter o r p (i + 1) m hw.2 (by omega)]
theorem eraseFields_safter (o : Options) : ∀ (fs : TyFields) (p : String) (m : Nat), walkableFields o p fs = true →
    widthFields fs ≤ m + 1 → eraseFields (safterFields o p (m + 1) fs) = doneFields o p fs
  | .nil, _, _, _, _ => by simp only [safterFields, eraseFields, doneFields]
  | .cons _ t r, p, m, hw, hm => by
    simp only [walkableFields, Bool.and_eq_true] at hw; simp only [widthFields] at hm
    simp only [safterFields, eraseFields, doneFields, erase_safter o t _ _ _ m hw.1 (by omega),
      eraseFields_safter o r p m hw.2 (by omega)]
theorem eraseVariants_safter (o : Options) : ∀ (vs : TyVariants) (p : String) (q r i : Nat),
    walkableVariants o p vs = true → widthVariants vs ≤ q → 1 ≤ q →
    eraseVariants (safterVariants o p q r i vs) = doneVariants o p vs
  | .nil, _, _, _, _, _, _, _ => by simp only [safterVariants, eraseVariants, doneVariants]
  | .unit n rest, p, q, r, i, hw, hq, h1 => by
    simp only [walkableVariants] at hw; simp only [widthVariants] at hq
    obtain ⟨c, hc⟩ : ∃ c, cnt q r i = c + 1 := ⟨cnt q r i - 1, by have := le_cnt q r i; omega⟩
    simp only [safterVariants, hc, eraseVariants, erase, doneVariants, eraseVariants_safter o rest p q r (i + 1) hw hq h1]
  | .newtype n t rest, p, q, r, i, hw, hq, h1 => by
    simp only [walkableVariants, Bool.and_eq_true] at hw; simp only [widthVariants] at hq
    obtain ⟨c, hc⟩ : ∃ c, cnt q r i = c + 1 := ⟨cnt q r i - 1, by have := le_cnt q r i; omega⟩
    have hcq : q ≤ c + 1 := by have := le_cnt q r i; omega
    simp only [safterVariants, hc, eraseVariants, doneVariants, erase_safter o t _ _ _ c hw.1 (by omega),
      eraseVariants_safter o rest p q r (i + 1) hw.2 (by omega) h1]
  | .tuple n ts rest, p, q, r, i, hw, hq, h1 => by
    simp only [walkableVariants, Bool.and_eq_true] at hw; simp only [widthVariants] at hq
    obtain ⟨c, hc⟩ : ∃ c, cnt q r i = c + 1 := ⟨cnt q r i - 1, by have := le_cnt q r i; omega⟩
    have hcq : q ≤ c + 1 := by have := le_cnt q r i; omega
    simp only [safterVariants, hc, eraseVariants, erase, doneVariants, eraseTracers_safter o ts _ 0 c hw.1.2 (by omega),
      eraseVariants_safter o rest p q r (i + 1) hw.2 (by omega) h1]
  | .struct n fs rest, p, q, r, i, hw, hq, h1 => by
    simp only [walkableVariants, Bool.and_eq_true] at hw; simp only [widthVariants] at hq
    obtain ⟨c, hc⟩ : ∃ c, cnt q r i = c + 1 := ⟨cnt q r i - 1, by have := le_cnt q r i; omega⟩
    have hcq : q ≤ c + 1 := by have := le_cnt q r i; omega
    simp only [safterVariants, hc, eraseVariants, erase, doneVariants, eraseFields_safter o fs _ c hw.1.2 (by omega),
      eraseVariants_safter o rest p q r (i + 1) hw.2 (by omega) h1]
end

end SaModel.Lemmas.C08
