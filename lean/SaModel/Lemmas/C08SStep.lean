import SaModel.Lemmas.C08SStepBase
/-
C08 — the sample invariant of `from_samples` on covering samples: absorbing covering sample `m` into the tracer of the
samples `0 … m-1` gives the tracer of the samples `0 … m` (`absorb_step`), for every walkable type description with
unique field names (enums with all four variant kinds, nested enums included).
-/
namespace SaModel.Lemmas.C08
open SaModel SaModel.Trace SaModel.Trace.Spec

/-! ### the container cases, given the loops over the children -/

theorem tuple_sstep_of (c : Code) (o : Options) (ts : Tys) (n p : String) (nl : Bool) (hd : tooDeep p = false)
    (hT : ∀ m, absorbTuple c o p (safterTys o p m 0 ts) 0 (samplesTys ts m) = .ok (safterTys o p (m + 1) 0 ts))
    (m : Nat) :
    absorb c o (safter o n p nl m (.tuple ts)) (sampleAt (.tuple ts) m) = .ok (safter o n p nl (m + 1) (.tuple ts)) := by
  cases m with
  | zero =>
    have h1 := mkTupleFields_safter o p ts.length ts (Nat.le_refl _)
    rw [Nat.sub_self] at h1
    simp only [sampleAt, absorb, samplesTys_length, ensure_tuple_unknown c n p nl _ hd, h1, bind,
      Except.bind, hT 0, safter]
  | succ m =>
    have h2 := ensure_tuple_tuple c n p nl (safterTys o p (m + 1) 0 ts) hd
    rw [safterTys_length] at h2
    simp only [safter, sampleAt, absorb, samplesTys_length, h2, bind, Except.bind, hT (m + 1)]

theorem struct_sstep_of (c : Code) (o : Options) (sn : String) (fs : TyFields) (n p : String) (nl : Bool)
    (hd : tooDeep p = false)
    (hF0 : absorbFields c o p 0 .nil (samplesFields fs 0) = .ok (safterFields o p 1 fs))
    (hF : ∀ m, absorbFields c o p (m + 1) (safterFields o p (m + 1) fs) (samplesFields fs (m + 1)) =
      .ok (safterFields o p (m + 2) fs)) (m : Nat) :
    absorb c o (safter o n p nl m (.struct sn fs)) (sampleAt (.struct sn fs) m) =
      .ok (safter o n p nl (m + 1) (.struct sn fs)) := by
  cases m with
  | zero =>
    simp only [sampleAt, absorb, ensure_struct_unknown c n p nl _ _ hd, mkStructFields, bind, Except.bind,
      hF0, safterFields_end o p 0 fs, safter]
  | succ m =>
    simp only [safter, sampleAt, absorb, ensure_struct_struct c n p nl _ _ _ hd, bind, Except.bind, hF m,
      safterFields_end o p (m + 1) fs]

theorem enum_sstep_of (c : Code) (o : Options) (en : String) (vs : TyVariants) (n p : String) (nl : Bool)
    (hd : tooDeep p = false) (hL : vs.length ≠ 0) (hlim : vs.length ≤ VARIANT_ALLOC_LIMIT)
    (hpay : ∀ (j : Nat) vn T, (vList vs)[j]? = some (vn, T) → ∀ q,
      absorb c o (safter o vn (childPath p vn) false q T) (sampleAt T q) =
        .ok (safter o vn (childPath p vn) false (q + 1) T)) (m : Nat) :
    absorb c o (safter o n p nl m (.enum en vs)) (sampleAt (.enum en vs) m) =
      .ok (safter o n p nl (m + 1) (.enum en vs)) := by
  have hLpos : 0 < vs.length := by omega
  have hr : m % vs.length < vs.length := Nat.mod_lt _ hLpos
  have hxs : m % vs.length < (vList vs).length := by rw [vList_length]; exact hr
  obtain ⟨⟨vn, T⟩, hx⟩ : ∃ x, (vList vs)[m % vs.length]? = some x := ⟨_, List.getElem?_eq_getElem hxs⟩
  obtain ⟨V', h1, h2, h3⟩ := sV_ensure o p (m / vs.length) (vList vs) 0 (m % vs.length) vn T hx
  simp only [Nat.zero_add] at h1 h3
  rw [← ensure_variant_eq p _ vn _ (by omega)] at h1
  -- the node before the sample
  have ht : (safter o n p nl m (.enum en vs) = .unknown n p nl ∧
        sV o p (m / vs.length) (m % vs.length) 0 (vList vs) = .nil) ∨
      safter o n p nl m (.enum en vs) = .union n p nl (sV o p (m / vs.length) (m % vs.length) 0 (vList vs)) := by
    cases m with
    | zero =>
      left
      refine ⟨safter_zero o n p nl _, ?_⟩
      simp only [Nat.zero_div, Nat.zero_mod]
      exact sV_nil_of_cnt o p 0 0 0 _ (cnt_self 0 0)
    | succ m => right; simp only [safter, safterVariants_eq]
  have heuv := euv_of _ n p nl _ V' vn _ _ ht hd h1 h2
  have hs := sampleVariant_absorb c o en vs (m % vs.length) (m % vs.length) (m / vs.length) _ vn T n p nl V' _ _ hx heuv
    (hpay _ vn T hx (m / vs.length))
  have hsample : sampleAt (.enum en vs) m = sampleVariant en vs (m % vs.length) (m % vs.length) (m / vs.length) := by
    simp only [sampleAt, hL, if_false]
  rw [hsample, hs, h3]
  simp only [safter, safterVariants_eq]
  have hdm := succ_div_mod m vs.length hLpos
  by_cases hlt : m % vs.length + 1 < vs.length
  · rw [(hdm.1 hlt).1, (hdm.1 hlt).2]
  · have heq : m % vs.length + 1 = vs.length := by omega
    rw [(hdm.2 heq).1, (hdm.2 heq).2, heq]
    congr 2
    refine sV_congr o p _ _ _ _ (vList vs) 0 (fun k _ hk => ?_)
    rw [vList_length] at hk
    rw [cnt_lt _ _ k (by omega), cnt_ge _ 0 k (by omega)]

theorem sunit_step (c : Code) (o : Options) (n p : String) (nl : Bool) (m : Nat) :
    absorb c o (safter o n p nl m .unit) (sampleAt .unit m) = .ok (safter o n p nl (m + 1) .unit) := by
  cases m <;> simp only [safter, sampleAt, absorb] <;> exact null_step o n p nl _ (by simp)

mutual
theorem absorb_step (c : Code) (o : Options) : ∀ (ty : Ty) (n p : String) (nl : Bool) (m : Nat),
    walkable o p ty = true → uniqueNames ty = true → smallEnums ty = true →
    absorb c o (safter o n p nl m ty) (sampleAt ty m) = .ok (safter o n p nl (m + 1) ty)
  | .unit, n, p, nl, m, _, _, _ => sunit_step c o n p nl m
  | .unitStruct _, n, p, nl, m, _, _, _ => by
    cases m <;> simp only [safter, sampleAt, absorb] <;> exact null_step o n p nl _ (by simp)
  | .bool, n, p, nl, m, _, _, _ | .char, n, p, nl, m, _, _, _ | .bytes, n, p, nl, m, _, _, _ => by
    cases m <;> simp only [safter, sampleAt, absorb] <;> exact prim_step o n p nl _ rfl _ (by simp)
  | .f32, n, p, nl, m, _, _, _ | .f64, n, p, nl, m, _, _, _ => by
    cases m <;> simp only [safter, sampleAt, absorb, Tracer.ensure_number] <;>
      exact prim_step o n p nl _ rfl _ (by simp)
  | .int t, n, p, nl, m, _, _, _ => by
    cases m <;> simp only [safter, sampleAt, absorb, Tracer.ensure_number] <;>
      exact prim_step o n p nl _ (by cases t <;> rfl) _ (by simp)
  | .string, n, p, nl, m, _, _, _ => by
    have : isNull o.string_type = false := by unfold Options.string_type; split <;> rfl
    cases m <;> simp only [safter, sampleAt, absorb, strType_s] <;> exact prim_step o n p nl _ this _ (by simp)
  | .option t, n, p, nl, m, hw, hu, hs => by
    simp only [walkable] at hw; simp only [uniqueNames] at hu; simp only [smallEnums] at hs
    have ih := absorb_step c o t n p true m hw hu hs
    cases m with
    | zero =>
      rw [safter_zero] at ih ⊢
      simp only [sampleAt, absorb, Tracer.mark_nullable, Tracer.set_nullable, safter]; exact ih
    | succ m => simp only [sampleAt, absorb, safter, safter_mark_nullable]; exact ih
  | .newtypeStruct _ t, n, p, nl, m, hw, hu, hs => by
    simp only [walkable] at hw; simp only [uniqueNames] at hu; simp only [smallEnums] at hs
    have ih := absorb_step c o t n p nl m hw hu hs
    cases m with
    | zero => rw [safter_zero] at ih ⊢; simp only [sampleAt, absorb, safter]; exact ih
    | succ m => simp only [sampleAt, absorb, safter]; exact ih
  | .vec t, n, p, nl, m, hw, hu, hs => by
    simp only [walkable, Bool.and_eq_true, Bool.not_eq_true'] at hw
    simp only [uniqueNames] at hu; simp only [smallEnums] at hs
    have ih := absorb_step c o t "element" (childPath p "element") false m hw.2 hu hs
    cases m with
    | zero =>
      rw [safter_zero] at ih
      simp only [sampleAt, absorb, ensure_list_unknown n p nl hw.1, absorbSeq, bind, Except.bind, ih, safter]
    | succ m =>
      simp only [safter, sampleAt, absorb, ensure_list_list n p nl _ hw.1, absorbSeq, bind, Except.bind, ih]
  | .map kt vt, n, p, nl, m, hw, hu, hs => by
    simp only [walkable, Bool.and_eq_true, Bool.not_eq_true'] at hw
    simp only [uniqueNames, Bool.and_eq_true] at hu; simp only [smallEnums, Bool.and_eq_true] at hs
    have ihk := absorb_step c o kt "key" (childPath p "key") false m hw.1.2 hu.1 hs.1
    have ihv := absorb_step c o vt "value" (childPath p "value") false m hw.2 hu.2 hs.2
    cases m with
    | zero =>
      rw [safter_zero] at ihk ihv
      simp only [sampleAt, absorb, hw.1.1.1, ensure_map_unknown n p nl hw.1.1.2, absorbEntriesAsMap, bind,
        Except.bind, ihk, ihv, safter, Bool.false_eq_true, if_false]
    | succ m =>
      simp only [safter, sampleAt, absorb, hw.1.1.1, ensure_map_map n p nl _ _ hw.1.1.2, absorbEntriesAsMap, bind,
        Except.bind, ihk, ihv, Bool.false_eq_true, if_false]
  | .tuple ts, n, p, nl, m, hw, hu, hs => by
    simp only [walkable, Bool.and_eq_true, Bool.not_eq_true'] at hw
    simp only [uniqueNames] at hu; simp only [smallEnums] at hs
    exact tuple_sstep_of c o ts n p nl hw.1 (fun m => absorbTuple_step c o ts p m 0 hw.2 hu hs) m
  | .tupleStruct sn ts, n, p, nl, m, hw, hu, hs => by
    simp only [walkable, Bool.and_eq_true, Bool.not_eq_true'] at hw
    simp only [uniqueNames] at hu; simp only [smallEnums] at hs
    have := tuple_sstep_of c o ts n p nl hw.1 (fun m => absorbTuple_step c o ts p m 0 hw.2 hu hs) m
    cases m <;> simpa only [safter, sampleAt, absorb] using this
  | .struct sn fs, n, p, nl, m, hw, hu, hs => by
    simp only [walkable, Bool.and_eq_true, Bool.not_eq_true'] at hw
    simp only [uniqueNames] at hu; simp only [smallEnums] at hs
    have h0 := absorbFields_first c o fs p .nil hw.2 hu hs (fun _ _ => rfl)
    simp only [TFields.append] at h0
    exact struct_sstep_of c o sn fs n p nl hw.1 h0 (fun m => absorbFields_next c o fs p m hw.2 hu hs) m
  | .enum en vs, n, p, nl, m, hw, hu, hs => by
    simp only [walkable, Bool.and_eq_true, Bool.not_eq_true', bne_iff_ne, ne_eq] at hw
    simp only [uniqueNames] at hu
    simp only [smallEnums, Bool.and_eq_true, decide_eq_true_eq] at hs
    exact enum_sstep_of c o en vs n p nl hw.1.1 hw.1.2 hs.1 (payload_step c o vs p hw.2 hu hs.2) m
theorem absorbTuple_step (c : Code) (o : Options) : ∀ (ts : Tys) (p : String) (m i : Nat),
    walkableTys o p i ts = true → uniqueNamesTys ts = true → smallEnumsTys ts = true →
    absorbTuple c o p (safterTys o p m i ts) 0 (samplesTys ts m) = .ok (safterTys o p (m + 1) i ts)
  | .nil, _, _, _, _, _, _ => by simp only [safterTys, samplesTys, absorbTuple]
  | .cons t r, p, m, i, hw, hu, hs => by
    simp only [walkableTys, Bool.and_eq_true] at hw
    simp only [uniqueNamesTys, Bool.and_eq_true] at hu; simp only [smallEnumsTys, Bool.and_eq_true] at hs
    have h0 : 0 < (Tracers.cons (safter o (toString i) (childPath p (toString i)) false m t)
        (safterTys o p m (i + 1) r)).length := by simp only [Tracers.length]; omega
    have hshift := absorbTuple_shift c o p (safter o (toString i) (childPath p (toString i)) false (m + 1) t)
      (samplesTys r m) (safterTys o p m (i + 1) r) 0 (by rw [samplesTys_length, safterTys_length]; omega)
    simp only [safterTys, samplesTys, absorbTuple, field_tracer_grow_id p 0 _ h0, Tracers.get?,
      absorb_step c o t _ _ _ m hw.1 hu.1 hs.1, bind, Except.bind, Tracers.set, hshift,
      absorbTuple_step c o r p m (i + 1) hw.2 hu.2 hs.2]
    rfl
theorem absorbFields_first (c : Code) (o : Options) : ∀ (fs : TyFields) (p : String) (acc : TFields),
    walkableFields o p fs = true → uniqueNamesFields fs = true → smallEnumsFields fs = true →
    (∀ m, m ∈ fs.names → acc.indexOf m = none) →
    absorbFields c o p 0 acc (samplesFields fs 0) = .ok (TFields.append acc (safterFields o p 1 fs))
  | .nil, _, acc, _, _, _, _ => by simp only [samplesFields, absorbFields, safterFields, TFields.append_nil]
  | .cons fname t r, p, acc, hw, hu, hs, hacc => by
    simp only [walkableFields, Bool.and_eq_true] at hw
    simp only [uniqueNamesFields, Bool.and_eq_true, Bool.not_eq_true'] at hu
    simp only [smallEnumsFields, Bool.and_eq_true] at hs
    have hnone : acc.indexOf fname = none := hacc fname (by simp only [TyFields.names]; exact List.mem_cons_self)
    have ih := absorb_step c o t fname (childPath p fname) false 0 hw.1 hu.1.2 hs.1
    rw [safter_zero] at ih
    simp only [childPath] at ih
    have hacc' : ∀ m, m ∈ r.names →
        (acc.push fname 0 (safter o fname (p ++ "." ++ fname) false (0 + 1) t)).indexOf m = none := by
      intro m hm
      refine TFields.indexOf_push_none acc fname 0 _ m
        (hacc m (by simp only [TyFields.names]; exact List.mem_cons_of_mem _ hm)) ?_
      intro heq
      subst heq
      have := hu.1.1
      simp only [List.contains_eq_mem, decide_eq_false_iff_not] at this
      exact this hm
    have ihr := absorbFields_first c o r p _ hw.2 hu.2 hs.2 hacc'
    simp only [samplesFields, absorbFields, ensure_field, hnone, Tracer.new, bne_self_eq_false, Bool.false_eq_true,
      if_false, TFields.get?_push, ih, bind, Except.bind, TFields.set_push, ihr, TFields.push_append, safterFields,
      Nat.sub_self]
    rfl
theorem absorbFields_next (c : Code) (o : Options) : ∀ (fs : TyFields) (p : String) (m : Nat),
    walkableFields o p fs = true → uniqueNamesFields fs = true → smallEnumsFields fs = true →
    absorbFields c o p (m + 1) (safterFields o p (m + 1) fs) (samplesFields fs (m + 1)) =
      .ok (safterFields o p (m + 2) fs)
  | .nil, _, _, _, _, _ => by simp only [safterFields, samplesFields, absorbFields]
  | .cons fname t r, p, m, hw, hu, hs => by
    simp only [walkableFields, Bool.and_eq_true] at hw
    simp only [uniqueNamesFields, Bool.and_eq_true, Bool.not_eq_true'] at hu
    simp only [smallEnumsFields, Bool.and_eq_true] at hs
    have hnot : ¬ fname ∈ r.names := by
      have := hu.1.1
      simpa only [List.contains_eq_mem, decide_eq_false_iff_not] using this
    have hshift := absorbFields_shift c o p (m + 1) fname (m + 1)
      (safter o fname (childPath p fname) false (m + 1 + 1) t) (m + 1) r (safterFields o p (m + 1) r) hnot
    simp only [safterFields, samplesFields, absorbFields, ensure_field, TFields.indexOf, if_true, TFields.setLastSeen,
      TFields.get?, absorb_step c o t _ _ _ (m + 1) hw.1 hu.1.2 hs.1, bind, Except.bind, TFields.set, hshift,
      absorbFields_next c o r p m hw.2 hu.2 hs.2, Nat.add_sub_cancel]
    rfl
theorem payload_step (c : Code) (o : Options) : ∀ (vs : TyVariants) (p : String), walkableVariants o p vs = true →
    uniqueNamesVariants vs = true → smallEnumsVariants vs = true →
    ∀ (j : Nat) vn T, (vList vs)[j]? = some (vn, T) → ∀ q,
      absorb c o (safter o vn (childPath p vn) false q T) (sampleAt T q) =
        .ok (safter o vn (childPath p vn) false (q + 1) T)
  | .nil, _, _, _, _, j, _, _, h, _ => by simp [vList] at h
  | .unit n r, p, hw, hu, hs, 0, vn, T, h, q => by
    simp only [vList, List.getElem?_cons_zero, Option.some.injEq, Prod.mk.injEq] at h
    obtain ⟨rfl, rfl⟩ := h
    exact sunit_step c o n _ false q
  | .newtype n t r, p, hw, hu, hs, 0, vn, T, h, q => by
    simp only [vList, List.getElem?_cons_zero, Option.some.injEq, Prod.mk.injEq] at h
    obtain ⟨rfl, rfl⟩ := h
    simp only [walkableVariants, Bool.and_eq_true] at hw
    simp only [uniqueNamesVariants, Bool.and_eq_true] at hu; simp only [smallEnumsVariants, Bool.and_eq_true] at hs
    exact absorb_step c o t n _ false q hw.1 hu.1.2 hs.1
  | .tuple n ts r, p, hw, hu, hs, 0, vn, T, h, q => by
    simp only [vList, List.getElem?_cons_zero, Option.some.injEq, Prod.mk.injEq] at h
    obtain ⟨rfl, rfl⟩ := h
    simp only [walkableVariants, Bool.and_eq_true, Bool.not_eq_true'] at hw
    simp only [uniqueNamesVariants, Bool.and_eq_true] at hu; simp only [smallEnumsVariants, Bool.and_eq_true] at hs
    exact tuple_sstep_of c o ts n _ false hw.1.1 (fun m => absorbTuple_step c o ts _ m 0 hw.1.2 hu.1.2 hs.1) q
  | .struct n fs r, p, hw, hu, hs, 0, vn, T, h, q => by
    simp only [vList, List.getElem?_cons_zero, Option.some.injEq, Prod.mk.injEq] at h
    obtain ⟨rfl, rfl⟩ := h
    simp only [walkableVariants, Bool.and_eq_true, Bool.not_eq_true'] at hw
    simp only [uniqueNamesVariants, Bool.and_eq_true] at hu; simp only [smallEnumsVariants, Bool.and_eq_true] at hs
    have h0 := absorbFields_first c o fs _ .nil hw.1.2 hu.1.2 hs.1 (fun _ _ => rfl)
    simp only [TFields.append] at h0
    exact struct_sstep_of c o n fs n _ false hw.1.1 h0 (fun m => absorbFields_next c o fs _ m hw.1.2 hu.1.2 hs.1) q
  | .unit n r, p, hw, hu, hs, j + 1, vn, T, h, q => by
    simp only [vList, List.getElem?_cons_succ] at h
    simp only [walkableVariants] at hw
    simp only [uniqueNamesVariants, Bool.and_eq_true] at hu; simp only [smallEnumsVariants] at hs
    exact payload_step c o r p hw hu.2 hs j vn T h q
  | .newtype n t r, p, hw, hu, hs, j + 1, vn, T, h, q => by
    simp only [vList, List.getElem?_cons_succ] at h
    simp only [walkableVariants, Bool.and_eq_true] at hw
    simp only [uniqueNamesVariants, Bool.and_eq_true] at hu; simp only [smallEnumsVariants, Bool.and_eq_true] at hs
    exact payload_step c o r p hw.2 hu.2 hs.2 j vn T h q
  | .tuple n ts r, p, hw, hu, hs, j + 1, vn, T, h, q => by
    simp only [vList, List.getElem?_cons_succ] at h
    simp only [walkableVariants, Bool.and_eq_true] at hw
    simp only [uniqueNamesVariants, Bool.and_eq_true] at hu; simp only [smallEnumsVariants, Bool.and_eq_true] at hs
    exact payload_step c o r p hw.2 hu.2 hs.2 j vn T h q
  | .struct n fs r, p, hw, hu, hs, j + 1, vn, T, h, q => by
    simp only [vList, List.getElem?_cons_succ] at h
    simp only [walkableVariants, Bool.and_eq_true] at hw
    simp only [uniqueNamesVariants, Bool.and_eq_true] at hu; simp only [smallEnumsVariants, Bool.and_eq_true] at hs
    exact payload_step c o r p hw.2 hu.2 hs.2 j vn T h q
end

end SaModel.Lemmas.C08
