import SaModel.Lemmas.C08SVariants
import SaModel.Lemmas.C08Step
/-
C08 — building blocks of the sample invariant `absorb (safter m ty) (sampleAt ty m) = safter (m+1) ty`.
-/
namespace SaModel.Lemmas.C08
open SaModel SaModel.Trace SaModel.Trace.Spec

mutual
/-- every enum has at most `VARIANT_ALLOC_LIMIT` = 2^20 variants (the executable model of `ensure_variant` refuses
larger variant indices, finding #29; Arrow type ids allow 128) -/
def smallEnums : Ty → Bool
  | .option t | .vec t | .newtypeStruct _ t => smallEnums t
  | .tuple ts | .tupleStruct _ ts => smallEnumsTys ts
  | .map k v => smallEnums k && smallEnums v
  | .struct _ fs => smallEnumsFields fs
  | .enum _ vs => decide (vs.length ≤ VARIANT_ALLOC_LIMIT) && smallEnumsVariants vs
  | _ => true
def smallEnumsTys : Tys → Bool
  | .nil => true
  | .cons t r => smallEnums t && smallEnumsTys r
def smallEnumsFields : TyFields → Bool
  | .nil => true
  | .cons _ t r => smallEnums t && smallEnumsFields r
def smallEnumsVariants : TyVariants → Bool
  | .nil => true
  | .unit _ r => smallEnumsVariants r
  | .newtype _ t r => smallEnums t && smallEnumsVariants r
  | .tuple _ ts r => smallEnumsTys ts && smallEnumsVariants r
  | .struct _ fs r => smallEnumsFields fs && smallEnumsVariants r
end

theorem safter_mark_nullable (o : Options) : ∀ (ty : Ty) (n p : String) (k : Nat),
    (safter o n p true k ty).mark_nullable = safter o n p true k ty
  | ty, n, p, 0 => by rw [safter_zero]; rfl
  | .unit, _, _, k + 1 | .unitStruct _, _, _, k + 1 | .bool, _, _, k + 1 | .int _, _, _, k + 1 | .f32, _, _, k + 1
  | .f64, _, _, k + 1 | .char, _, _, k + 1 | .string, _, _, k + 1 | .bytes, _, _, k + 1 | .vec _, _, _, k + 1
  | .tuple _, _, _, k + 1 | .tupleStruct _ _, _, _, k + 1 | .map _ _, _, _, k + 1 | .struct _ _, _, _, k + 1
  | .enum _ _, _, _, k + 1 => by simp only [safter, Tracer.mark_nullable, Tracer.set_nullable]
  | .option t, n, p, k + 1 => by simp only [safter]; exact safter_mark_nullable o t n p (k + 1)
  | .newtypeStruct _ t, n, p, k + 1 => by simp only [safter]; exact safter_mark_nullable o t n p (k + 1)

theorem safterTys_length (o : Options) (p : String) (m : Nat) : ∀ (ts : Tys) (i : Nat),
    (safterTys o p m i ts).length = ts.length
  | .nil, _ => rfl
  | .cons t r, i => by simp only [safterTys, Tracers.length, Tys.length, safterTys_length o p m r]

theorem mkTupleFields_safter (o : Options) (p : String) (N : Nat) : ∀ (ts : Tys), ts.length ≤ N →
    mkTupleFields p N ts.length = safterTys o p 0 (N - ts.length) ts
  | .nil, _ => by simp only [Tys.length, mkTupleFields, safterTys]
  | .cons t r, h => by
    simp only [Tys.length] at h ⊢
    have e : N - (r.length + 1) + 1 = N - r.length := by omega
    simp only [mkTupleFields, safterTys, safter_zero, Tracer.new, e, mkTupleFields_safter o p N r (by omega)]
    rfl

theorem safterFields_end (o : Options) (p : String) (m : Nat) : ∀ (fs : TyFields),
    (safterFields o p (m + 1) fs).end_ m = safterFields o p (m + 1) fs
  | .nil => rfl
  | .cons n t r => by
    simp only [safterFields, TFields.end_, Nat.add_sub_cancel, bne_self_eq_false, Bool.false_eq_true, if_false,
      safterFields_end o p m r]

/-! ### the field loop of a struct: a first field that is not named stays -/

theorem ensure_field_cons (path : String) (seen : Nat) (n0 : String) (l0 : Nat) (t0 : Tracer) (rest : TFields)
    (key : String) (h : n0 ≠ key) :
    ensure_field path seen (.cons n0 l0 t0 rest) key =
      ((ensure_field path seen rest key).1 + 1, .cons n0 l0 t0 (ensure_field path seen rest key).2) := by
  unfold ensure_field
  simp only [TFields.indexOf, h, if_false]
  cases rest.indexOf key with
  | none => simp only [Option.map, TFields.length, TFields.push]
  | some i => simp only [Option.map, TFields.setLastSeen]

theorem absorbFields_shift (c : Code) (o : Options) (path : String) (seen : Nat) (n0 : String) (l0 : Nat) (t0 : Tracer)
    (k : Nat) : ∀ (fs : TyFields) (rest : TFields), ¬ n0 ∈ fs.names →
    absorbFields c o path seen (.cons n0 l0 t0 rest) (samplesFields fs k) =
      (absorbFields c o path seen rest (samplesFields fs k)).map (TFields.cons n0 l0 t0)
  | .nil, _, _ => by simp only [samplesFields, absorbFields]; rfl
  | .cons key t r, rest, h => by
    simp only [TyFields.names, List.mem_cons, not_or] at h
    simp only [samplesFields, absorbFields, ensure_field_cons path seen n0 l0 t0 rest key h.1, TFields.get?]
    cases (ensure_field path seen rest key).2.get? (ensure_field path seen rest key).1 with
    | none => rfl
    | some ft =>
      simp only
      cases absorb c o ft (sampleAt t k) with
      | error e => rfl
      | ok ft' =>
        simp only [bind, Except.bind, TFields.set]
        exact absorbFields_shift c o path seen n0 l0 t0 k r _ h.2

/-! ### samples of an enum -/

theorem sampleVariant_absorb (c : Code) (o : Options) (en : String) : ∀ (vs : TyVariants) (j idx k : Nat) (t : Tracer)
    (vn : String) (T : Ty) (n p : String) (nl : Bool) (V : Variants) (vt vt' : Tracer),
    (vList vs)[j]? = some (vn, T) → ensure_union_variant t vn idx = .ok (n, p, nl, V, vt) →
    absorb c o vt (sampleAt T k) = .ok vt' →
    absorb c o t (sampleVariant en vs idx j k) = .ok (.union n p nl (V.set idx vn vt'))
  | .nil, j, _, _, _, _, _, _, _, _, _, _, _, h, _, _ => by simp [vList] at h
  | .unit vn' r, 0, idx, k, t, vn, T, n, p, nl, V, vt, vt', h, h1, h2 => by
    simp only [vList, List.getElem?_cons_zero, Option.some.injEq, Prod.mk.injEq] at h
    obtain ⟨rfl, rfl⟩ := h
    simp only [sampleAt, absorb] at h2
    simp only [sampleVariant, absorb, h1, bind, Except.bind, h2]
  | .newtype vn' ty r, 0, idx, k, t, vn, T, n, p, nl, V, vt, vt', h, h1, h2 => by
    simp only [vList, List.getElem?_cons_zero, Option.some.injEq, Prod.mk.injEq] at h
    obtain ⟨rfl, rfl⟩ := h
    simp only [sampleVariant, absorb, h1, bind, Except.bind, h2]
  | .tuple vn' ts r, 0, idx, k, t, vn, T, n, p, nl, V, vt, vt', h, h1, h2 => by
    simp only [vList, List.getElem?_cons_zero, Option.some.injEq, Prod.mk.injEq] at h
    obtain ⟨rfl, rfl⟩ := h
    simp only [sampleAt, absorb, bind, Except.bind] at h2
    simp only [sampleVariant, absorb, h1, bind, Except.bind]
    cases he : vt.ensure_tuple c (samplesTys ts k).length with
    | error e => rw [he] at h2; cases h2
    | ok vt1 =>
      rw [he] at h2
      cases vt1 with
      | tuple n' p' nl' fts =>
        simp only at h2 ⊢
        cases ha : absorbTuple c o p' fts 0 (samplesTys ts k) with
        | error e => rw [ha] at h2; cases h2
        | ok fts' => rw [ha] at h2; simp only [Except.ok.injEq] at h2; subst h2; rfl
      | unknown _ _ _ | primitive _ _ _ _ _ | list _ _ _ _ | map _ _ _ _ _ | struct _ _ _ _ _ _ | union _ _ _ _ =>
        simp only at h2; cases h2
  | .struct vn' fs r, 0, idx, k, t, vn, T, n, p, nl, V, vt, vt', h, h1, h2 => by
    simp only [vList, List.getElem?_cons_zero, Option.some.injEq, Prod.mk.injEq] at h
    obtain ⟨rfl, rfl⟩ := h
    simp only [sampleAt, absorb, bind, Except.bind] at h2
    simp only [sampleVariant, absorb, h1, bind, Except.bind]
    cases he : vt.ensure_struct c [] .struct with
    | error e => rw [he] at h2; cases h2
    | ok vt1 =>
      rw [he] at h2
      cases vt1 with
      | struct n' p' nl' tfs md seen =>
        simp only at h2 ⊢
        cases ha : absorbFields c o p' seen tfs (samplesFields fs k) with
        | error e => rw [ha] at h2; cases h2
        | ok tfs' => rw [ha] at h2; simp only [Except.ok.injEq] at h2; subst h2; rfl
      | unknown _ _ _ | primitive _ _ _ _ _ | list _ _ _ _ | map _ _ _ _ _ | tuple _ _ _ _ | union _ _ _ _ =>
        simp only at h2; cases h2
  | .unit _ r, j + 1, idx, k, t, vn, T, n, p, nl, V, vt, vt', h, h1, h2
  | .newtype _ _ r, j + 1, idx, k, t, vn, T, n, p, nl, V, vt, vt', h, h1, h2
  | .tuple _ _ r, j + 1, idx, k, t, vn, T, n, p, nl, V, vt, vt', h, h1, h2
  | .struct _ _ r, j + 1, idx, k, t, vn, T, n, p, nl, V, vt, vt', h, h1, h2 => by
    simp only [vList, List.getElem?_cons_succ] at h
    simp only [sampleVariant]
    exact sampleVariant_absorb c o en r j idx k t vn T n p nl V vt vt' h h1 h2

theorem euv_of (t0 : Tracer) (n p : String) (nl : Bool) (V0 V' : Variants) (vn : String) (idx : Nat) (vt : Tracer)
    (ht : (t0 = .unknown n p nl ∧ V0 = .nil) ∨ t0 = .union n p nl V0) (hd : tooDeep p = false)
    (hE : ensure_variant p V0 vn idx = .ok V') (hg : V'.get? idx = some (some (vn, vt))) :
    ensure_union_variant t0 vn idx = .ok (n, p, nl, V', vt) := by
  rcases ht with ⟨rfl, rfl⟩ | rfl
  · simp only [ensure_union_variant, ensure_union_unknown n p nl _ hd, mkVariants, bind, Except.bind, hE, hg]
  · simp only [ensure_union_variant, ensure_union_union n p nl _ _ hd, bind, Except.bind, hE, hg]

end SaModel.Lemmas.C08
