import SaModel.Lemmas.C08SDone
/-
C08 — the variant vector of a union node under `from_samples`: `ensure_variant` on the state `sV q r`, and what the
sample that exercises variant `r` does to it.
-/
namespace SaModel.Lemmas.C08
open SaModel SaModel.Trace SaModel.Trace.Spec

/-- `ensure_variant` below the allocation limit of the model -/
def ensureV (path : String) (vs : Variants) (variant : String) (idx : Nat) : R Variants :=
  let vs := vs.padNone (idx + 1 - vs.length)
  match vs.get? idx with
  | some (some (prev, _)) => if prev != variant then fail "Incompatible names for variant" else .ok vs
  | some none => .ok (vs.set idx variant (Tracer.new variant (path ++ "." ++ variant)))
  | none => panic "unreachable: variants[idx]"

theorem ensure_variant_eq (path : String) (vs : Variants) (variant : String) (idx : Nat) (h : idx < VARIANT_ALLOC_LIMIT) :
    ensure_variant path vs variant idx = ensureV path vs variant idx := by
  unfold ensure_variant
  have : ¬ idx ≥ VARIANT_ALLOC_LIMIT := by omega
  rw [if_neg this]; rfl

theorem padNone_zero : ∀ V : Variants, V.padNone 0 = V
  | .nil => rfl
  | .absent r => by simp only [Variants.padNone, padNone_zero r]
  | .present _ _ r => by simp only [Variants.padNone, padNone_zero r]

theorem ensureV_cons (path : String) (n : String) (t : Tracer) (R : Variants) (vn : String) (j : Nat) :
    ensureV path (.present n t R) vn (j + 1) = (ensureV path R vn j).map (Variants.present n t) := by
  unfold ensureV
  have e : j + 1 + 1 - (Variants.present n t R).length = j + 1 - R.length := by simp only [Variants.length]; omega
  simp only [e, Variants.padNone, Variants.get?]
  cases (R.padNone (j + 1 - R.length)).get? j with
  | none => rfl
  | some x =>
    cases x with
    | none => rfl
    | some pr =>
      obtain ⟨prev, _⟩ := pr
      simp only
      split <;> rfl

theorem ensureV_nil_zero (path vn : String) :
    ensureV path .nil vn 0 = .ok (.present vn (.unknown vn (childPath path vn) false) .nil) := rfl

theorem ensureV_present_zero (path vn : String) (t : Tracer) (R : Variants) :
    ensureV path (.present vn t R) vn 0 = .ok (.present vn t R) := by
  unfold ensureV
  have e : 0 + 1 - (Variants.present vn t R).length = 0 := by simp only [Variants.length]; omega
  simp only [e, padNone_zero, Variants.get?, bne_self_eq_false, Bool.false_eq_true, if_false]

theorem cnt_self (q r : Nat) : cnt q r r = q := by unfold cnt; simp

theorem cnt_lt (q r i : Nat) (h : i < r) : cnt q r i = q + 1 := by unfold cnt; simp [h]

theorem cnt_ge (q r i : Nat) (h : r ≤ i) : cnt q r i = q := by
  unfold cnt; have : ¬ i < r := by omega
  simp [this]

theorem sV_congr (o : Options) (p : String) (q r q' r' : Nat) : ∀ (xs : List (String × Ty)) (i : Nat),
    (∀ k, i ≤ k → k < i + xs.length → cnt q r k = cnt q' r' k) → sV o p q r i xs = sV o p q' r' i xs
  | [], _, _ => rfl
  | (n, T) :: rest, i, h => by
    simp only [sV]
    rw [h i (Nat.le_refl _) (by simp only [List.length_cons]; omega)]
    rw [sV_congr o p q r q' r' rest (i + 1) (fun k h1 h2 => h k (by omega) (by simp only [List.length_cons]; omega))]

theorem sV_nil_of_cnt (o : Options) (p : String) (q r i : Nat) (xs : List (String × Ty)) (h : cnt q r i = 0) :
    sV o p q r i xs = .nil := by
  cases xs with
  | nil => rfl
  | cons x rest => obtain ⟨n, T⟩ := x; simp only [sV, h]

/-- the sample that exercises variant `r = i + j` (relative position `j` in `xs`): the variant exists afterwards, holds
the tracer of `q` payload samples, and putting the tracer of `q + 1` payload samples there is the state `sV q (r+1)` -/
theorem sV_ensure (o : Options) (p : String) (q : Nat) : ∀ (xs : List (String × Ty)) (i j : Nat) (vn : String) (T : Ty),
    xs[j]? = some (vn, T) →
    ∃ V', ensureV p (sV o p q (i + j) i xs) vn j = .ok V' ∧
      V'.get? j = some (some (vn, safter o vn (childPath p vn) false q T)) ∧
      V'.set j vn (safter o vn (childPath p vn) false (q + 1) T) = sV o p q (i + j + 1) i xs
  | [], _, _, _, _, h => by simp at h
  | (n, T') :: rest, i, 0, vn, T, h => by
    simp only [List.getElem?_cons_zero, Option.some.injEq, Prod.mk.injEq] at h
    obtain ⟨rfl, rfl⟩ := h
    simp only [Nat.add_zero, sV, cnt_self, cnt_lt q (i + 1) i (by omega)]
    have hrest : sV o p q i (i + 1) rest = sV o p q (i + 1) (i + 1) rest :=
      sV_congr o p q i q (i + 1) rest (i + 1) (fun k h1 _ => by rw [cnt_ge q i k (by omega), cnt_ge q (i + 1) k h1])
    cases q with
    | zero =>
      refine ⟨_, ensureV_nil_zero p n, ?_, ?_⟩
      · simp only [Variants.get?, safter_zero]
      · simp only [Variants.set, sV_nil_of_cnt o p 0 (i + 1) (i + 1) rest (cnt_self 0 (i + 1))]
    | succ c =>
      refine ⟨_, ensureV_present_zero p n _ _, ?_, ?_⟩
      · simp only [Variants.get?]
      · simp only [Variants.set, hrest]
  | (n, T') :: rest, i, j + 1, vn, T, h => by
    simp only [List.getElem?_cons_succ] at h
    obtain ⟨V'', h1, h2, h3⟩ := sV_ensure o p q rest (i + 1) j vn T h
    have e1 : i + (j + 1) = i + 1 + j := by omega
    have c1 : cnt q (i + 1 + j) i = q + 1 := cnt_lt q _ i (by omega)
    have c2 : cnt q (i + 1 + j + 1) i = q + 1 := cnt_lt q _ i (by omega)
    rw [e1]
    simp only [sV, c1, c2, ensureV_cons, h1]
    refine ⟨_, rfl, ?_, ?_⟩
    · simp only [Variants.get?, h2]
    · simp only [Variants.set, h3]

/-! ### the samples of an enum -/

theorem succ_div_mod (m L : Nat) (hL : 0 < L) :
    (m % L + 1 < L → (m + 1) / L = m / L ∧ (m + 1) % L = m % L + 1) ∧
    (m % L + 1 = L → (m + 1) / L = m / L + 1 ∧ (m + 1) % L = 0) := by
  have hm : L * (m / L) + m % L = m := Nat.div_add_mod m L
  have e : m + 1 = L * (m / L) + (m % L + 1) := by omega
  constructor
  · intro h
    rw [e, Nat.mul_add_div hL, Nat.mul_add_mod, Nat.div_eq_of_lt h, Nat.mod_eq_of_lt h]
    exact ⟨rfl, rfl⟩
  · intro h
    rw [e, Nat.mul_add_div hL, Nat.mul_add_mod, h, Nat.div_self hL, Nat.mod_self]
    exact ⟨rfl, rfl⟩

end SaModel.Lemmas.C08
