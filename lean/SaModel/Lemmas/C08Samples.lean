import SaModel.Lemmas.C08Loop
import SaModel.Lemmas.C08Explore
/-
C08 — `from_samples` on the covering sample of an enum-free type ends in the same complete tracer as `from_type`, up to
the sample counter of the struct nodes (`sdone`: `seen_samples = 1`), which `to_field` does not read.
Field names must be unique within a struct (`from_samples` finds a field by name, a derive by position).
-/
namespace SaModel.Lemmas.C08
open SaModel SaModel.Trace SaModel.Trace.Spec

mutual
/-- the complete tracer `from_samples` builds from one covering sample: `done` with `seen_samples = 1` -/
def sdone (o : Options) (n p : String) (nl : Bool) : Ty → Tracer
  | .unit => .primitive n p true .null none
  | .unitStruct _ => .primitive n p true .null none
  | .bool => .primitive n p nl .boolean none
  | .int t => .primitive n p nl (intDataType t) none
  | .f32 => .primitive n p nl .float32 none
  | .f64 => .primitive n p nl .float64 none
  | .char => .primitive n p nl .uint32 none
  | .string => .primitive n p nl o.string_type none
  | .bytes => .primitive n p nl .largeBinary none
  | .option t => sdone o n p true t
  | .newtypeStruct _ t => sdone o n p nl t
  | .vec t => .list n p nl (sdone o "element" (childPath p "element") false t)
  | .tuple ts => .tuple n p nl (sdoneTys o p 0 ts)
  | .tupleStruct _ ts => .tuple n p nl (sdoneTys o p 0 ts)
  | .map k v => .map n p nl (sdone o "key" (childPath p "key") false k) (sdone o "value" (childPath p "value") false v)
  | .struct _ fs => .struct n p nl (sdoneFields o p fs) .struct 1
  | .enum en vs => done o n p nl (.enum en vs)
def sdoneTys (o : Options) (p : String) : Nat → Tys → Tracers
  | _, .nil => .nil
  | i, .cons t r => .cons (sdone o (toString i) (childPath p (toString i)) false t) (sdoneTys o p (i + 1) r)
def sdoneFields (o : Options) (p : String) : TyFields → TFields
  | .nil => .nil
  | .cons n t r => .cons n 0 (sdone o n (childPath p n) false t) (sdoneFields o p r)
end

/-! ### `to_field`, paths and name do not see the sample counter -/

mutual
theorem sdone_to_field (o : Options) : ∀ (ty : Ty) (n p : String) (nl : Bool),
    (sdone o n p nl ty).to_field o = (done o n p nl ty).to_field o
  | .unit, _, _, _ | .unitStruct _, _, _, _ | .bool, _, _, _ | .int _, _, _, _ | .f32, _, _, _ | .f64, _, _, _
  | .char, _, _, _ | .string, _, _, _ | .bytes, _, _, _ | .enum _ _, _, _, _ => by simp only [sdone, done]
  | .option t, n, p, _ => by simp only [sdone, done]; exact sdone_to_field o t n p true
  | .newtypeStruct _ t, n, p, nl => by simp only [sdone, done]; exact sdone_to_field o t n p nl
  | .vec t, _, _, _ => by simp only [sdone, done, Tracer.to_field, sdone_to_field o t]
  | .tuple ts, _, p, _ | .tupleStruct _ ts, _, p, _ => by
    simp only [sdone, done, Tracer.to_field, sdoneTys_to_fields o ts]
  | .map k v, _, _, _ => by simp only [sdone, done, Tracer.to_field, sdone_to_field o k, sdone_to_field o v]
  | .struct _ fs, _, p, _ => by simp only [sdone, done, Tracer.to_field, sdoneFields_to_fields o fs]
theorem sdoneTys_to_fields (o : Options) : ∀ (ts : Tys) (p : String) (i : Nat),
    (sdoneTys o p i ts).to_fields o = (doneTys o p i ts).to_fields o
  | .nil, _, _ => by simp only [sdoneTys, doneTys]
  | .cons t r, p, i => by
    simp only [sdoneTys, doneTys, Tracers.to_fields, sdone_to_field o t, sdoneTys_to_fields o r]
theorem sdoneFields_to_fields (o : Options) : ∀ (fs : TyFields) (p : String),
    (sdoneFields o p fs).to_fields o = (doneFields o p fs).to_fields o
  | .nil, _ => by simp only [sdoneFields, doneFields]
  | .cons _ t r, p => by
    simp only [sdoneFields, doneFields, TFields.to_fields, sdone_to_field o t, sdoneFields_to_fields o r]
end

mutual
theorem sdone_paths (o : Options) : ∀ (ty : Ty) (n p : String) (nl : Bool),
    (sdone o n p nl ty).collect_paths = (done o n p nl ty).collect_paths
  | .unit, _, _, _ | .unitStruct _, _, _, _ | .bool, _, _, _ | .int _, _, _, _ | .f32, _, _, _ | .f64, _, _, _
  | .char, _, _, _ | .string, _, _, _ | .bytes, _, _, _ | .enum _ _, _, _, _ => by simp only [sdone, done]
  | .option t, n, p, _ => by simp only [sdone, done]; exact sdone_paths o t n p true
  | .newtypeStruct _ t, n, p, nl => by simp only [sdone, done]; exact sdone_paths o t n p nl
  | .vec t, _, _, _ => by simp only [sdone, done, Tracer.collect_paths, sdone_paths o t]
  | .tuple ts, _, p, _ | .tupleStruct _ ts, _, p, _ => by
    simp only [sdone, done, Tracer.collect_paths, sdoneTys_paths o ts]
  | .map k v, _, _, _ => by simp only [sdone, done, Tracer.collect_paths, sdone_paths o k, sdone_paths o v]
  | .struct _ fs, _, p, _ => by simp only [sdone, done, Tracer.collect_paths, sdoneFields_paths o fs]
theorem sdoneTys_paths (o : Options) : ∀ (ts : Tys) (p : String) (i : Nat),
    (sdoneTys o p i ts).collect_paths = (doneTys o p i ts).collect_paths
  | .nil, _, _ => by simp only [sdoneTys, doneTys]
  | .cons t r, p, i => by
    simp only [sdoneTys, doneTys, Tracers.collect_paths, sdone_paths o t, sdoneTys_paths o r]
theorem sdoneFields_paths (o : Options) : ∀ (fs : TyFields) (p : String),
    (sdoneFields o p fs).collect_paths = (doneFields o p fs).collect_paths
  | .nil, _ => by simp only [sdoneFields, doneFields]
  | .cons _ t r, p => by
    simp only [sdoneFields, doneFields, TFields.collect_paths, sdone_paths o t, sdoneFields_paths o r]
end

theorem sdone_name (o : Options) : ∀ (ty : Ty) (n p : String) (nl : Bool), (sdone o n p nl ty).name = n
  | .unit, _, _, _ | .unitStruct _, _, _, _ | .bool, _, _, _ | .int _, _, _, _ | .f32, _, _, _ | .f64, _, _, _
  | .char, _, _, _ | .string, _, _, _ | .bytes, _, _, _ | .vec _, _, _, _ | .tuple _, _, _, _
  | .tupleStruct _ _, _, _, _ | .map _ _, _, _, _ | .struct _ _, _, _, _ => by simp only [sdone, Tracer.name]
  | .enum _ _, _, _, _ => by simp only [sdone, done, Tracer.name]
  | .option t, n, p, _ => by simp only [sdone]; exact sdone_name o t n p true
  | .newtypeStruct _ t, n, p, nl => by simp only [sdone]; exact sdone_name o t n p nl

/-! ### unique field names -/

mutual
/-- field names are unique within every struct of the type -/
def uniqueNames : Ty → Bool
  | .option t | .vec t | .newtypeStruct _ t => uniqueNames t
  | .tuple ts | .tupleStruct _ ts => uniqueNamesTys ts
  | .map k v => uniqueNames k && uniqueNames v
  | .struct _ fs => uniqueNamesFields fs
  | .enum _ vs => uniqueNamesVariants vs
  | _ => true
def uniqueNamesTys : Tys → Bool
  | .nil => true
  | .cons t r => uniqueNames t && uniqueNamesTys r
def uniqueNamesFields : TyFields → Bool
  | .nil => true
  | .cons n t r => !(r.names.contains n) && uniqueNames t && uniqueNamesFields r
def uniqueNamesVariants : TyVariants → Bool
  | .nil => true
  | .unit n r => !(r.names.contains n) && uniqueNamesVariants r
  | .newtype n t r => !(r.names.contains n) && uniqueNames t && uniqueNamesVariants r
  | .tuple n ts r => !(r.names.contains n) && uniqueNamesTys ts && uniqueNamesVariants r
  | .struct n fs r => !(r.names.contains n) && uniqueNamesFields fs && uniqueNamesVariants r
end

/-! ### the field vector of a struct node -/

def TFields.append : TFields → TFields → TFields
  | .nil, b => b
  | .cons n l t r, b => .cons n l t (TFields.append r b)

theorem TFields.push_append : ∀ (a : TFields) (n : String) (l : Nat) (t : Tracer) (b : TFields),
    TFields.append (a.push n l t) b = TFields.append a (.cons n l t b)
  | .nil, _, _, _, _ => rfl
  | .cons n' l' t' r, n, l, t, b => by simp only [TFields.push, TFields.append, TFields.push_append r]

theorem TFields.append_nil : ∀ (a : TFields), TFields.append a .nil = a
  | .nil => rfl
  | .cons n l t r => by simp only [TFields.append, TFields.append_nil r]

theorem TFields.get?_push : ∀ (a : TFields) (n : String) (l : Nat) (t : Tracer), (a.push n l t).get? a.length = some t
  | .nil, _, _, _ => rfl
  | .cons _ _ _ r, n, l, t => by simp only [TFields.push, TFields.length, TFields.get?, TFields.get?_push r]

theorem TFields.set_push : ∀ (a : TFields) (n : String) (l : Nat) (t x : Tracer),
    (a.push n l t).set a.length x = a.push n l x
  | .nil, _, _, _, _ => rfl
  | .cons _ _ _ r, n, l, t, x => by simp only [TFields.push, TFields.length, TFields.set, TFields.set_push r]

theorem TFields.indexOf_push_none : ∀ (a : TFields) (n : String) (l : Nat) (t : Tracer) (m : String),
    a.indexOf m = none → n ≠ m → (a.push n l t).indexOf m = none
  | .nil, n, _, _, m, _, hne => by simp only [TFields.push, TFields.indexOf, hne, if_false]; rfl
  | .cons n' l' t' r, n, l, t, m, h, hne => by
    simp only [TFields.indexOf] at h
    simp only [TFields.push, TFields.indexOf]
    by_cases hn : n' = m
    · simp only [hn, if_true] at h; cases h
    · simp only [hn, if_false] at h ⊢
      cases hr : r.indexOf m with
      | none => simp only [TFields.indexOf_push_none r n l t m hr hne]; rfl
      | some i => rw [hr] at h; cases h

theorem sdoneFields_end (o : Options) (p : String) : ∀ (fs : TyFields),
    (sdoneFields o p fs).end_ 0 = sdoneFields o p fs
  | .nil => rfl
  | .cons n t r => by
    simp only [sdoneFields, TFields.end_, sdoneFields_end o p r]
    rfl

/-! ### the element loop of a tuple: a prefix that is not visited stays -/

theorem Tracers.set_length : ∀ (ts : Tracers) (i : Nat) (x : Tracer), (ts.set i x).length = ts.length
  | .nil, _, _ => rfl
  | .cons _ _, 0, _ => rfl
  | .cons _ r, i + 1, x => by simp only [Tracers.set, Tracers.length, Tracers.set_length r]

theorem field_tracer_grow_id (path : String) (idx : Nat) (ts : Tracers) (h : idx < ts.length) :
    field_tracer_grow path idx ts = ts := by
  unfold field_tracer_grow
  have : idx + 1 - ts.length = 0 := by omega
  rw [this]; rfl

theorem absorbTuple_shift (c : Code) (o : Options) (path : String) (t : Tracer) : ∀ (items : SVals) (fts : Tracers)
    (pos : Nat), pos + items.length ≤ fts.length →
    absorbTuple c o path (.cons t fts) (pos + 1) items = (absorbTuple c o path fts pos items).map (Tracers.cons t)
  | .nil, _, _, _ => by simp only [absorbTuple]; rfl
  | .cons v r, fts, pos, h => by
    simp only [SVals.length] at h
    have h1 : pos < fts.length := by omega
    have h2 : pos + 1 < (Tracers.cons t fts).length := by simp only [Tracers.length]; omega
    simp only [absorbTuple, field_tracer_grow_id path _ _ h1, field_tracer_grow_id path _ _ h2, Tracers.get?]
    cases fts.get? pos with
    | none => rfl
    | some ft =>
      simp only
      cases absorb c o ft v with
      | error e => rfl
      | ok ft' =>
        simp only [bind, Except.bind, Tracers.set]
        exact absorbTuple_shift c o path t r (fts.set pos ft') (pos + 1)
          (by rw [Tracers.set_length]; omega)

theorem samplesTys_length : ∀ (ts : Tys) (k : Nat), (samplesTys ts k).length = ts.length
  | .nil, _ => rfl
  | .cons t r, k => by simp only [samplesTys, SVals.length, Tys.length, samplesTys_length r]

theorem mkTupleFields_length (p : String) (N : Nat) : ∀ k, (mkTupleFields p N k).length = k
  | 0 => rfl
  | k + 1 => by simp only [mkTupleFields, Tracers.length, mkTupleFields_length p N k]

/-- the covering string sample is not a date -/
theorem strType_s (o : Options) : strType o "s" = o.string_type := by
  unfold strType
  cases o.guess_dates
  · rfl
  · have h1 : Matchers.matches_naive_datetime "s" = false := by decide
    have h2 : Matchers.matches_utc_datetime "s" = false := by decide
    have h3 : Matchers.matches_naive_time "s" = false := by decide
    have h4 : Matchers.matches_naive_date "s" = false := by decide
    simp [h1, h2, h3, h4]

mutual
/-- absorbing the covering sample of an enum-free type into a fresh node -/
theorem absorb_sdone (c : Code) (o : Options) (k : Nat) : ∀ (ty : Ty) (n p : String) (nl : Bool), enumFree ty = true →
    uniqueNames ty = true → walkable o p ty = true →
    absorb c o (.unknown n p nl) (sampleAt ty k) = .ok (sdone o n p nl ty)
  | .unit, n, p, nl, _, _, _ | .unitStruct _, n, p, nl, _, _, _ => by
    simp only [sampleAt, absorb, ensure_primitive_unknown, isNull, Bool.or_true, sdone]
  | .bool, n, p, nl, _, _, _ | .char, n, p, nl, _, _, _ | .bytes, n, p, nl, _, _, _ => by
    simp only [sampleAt, absorb, ensure_primitive_unknown, isNull, Bool.or_false, sdone]
  | .f32, n, p, nl, _, _, _ | .f64, n, p, nl, _, _, _ => by
    simp only [sampleAt, absorb, Tracer.ensure_number, ensure_primitive_unknown, isNull, Bool.or_false, sdone]
  | .int t, n, p, nl, _, _, _ => by
    simp only [sampleAt, absorb, Tracer.ensure_number, ensure_primitive_unknown, sdone]
    cases t <;> simp only [intDataType, isNull, Bool.or_false]
  | .string, n, p, nl, _, _, _ => by
    simp only [sampleAt, absorb, strType_s, sdone]
    have : isNull o.string_type = false := by unfold Options.string_type; split <;> rfl
    simp only [Tracer.ensure_primitive_with_strategy, this, Bool.or_false]
  | .option t, n, p, nl, hf, hu, hw => by
    simp only [enumFree] at hf; simp only [uniqueNames] at hu; simp only [walkable] at hw
    simp only [sampleAt, absorb, Tracer.mark_nullable, Tracer.set_nullable, sdone]
    exact absorb_sdone c o k t n p true hf hu hw
  | .newtypeStruct _ t, n, p, nl, hf, hu, hw => by
    simp only [enumFree] at hf; simp only [uniqueNames] at hu; simp only [walkable] at hw
    simp only [sampleAt, absorb, sdone]
    exact absorb_sdone c o k t n p nl hf hu hw
  | .vec t, n, p, nl, hf, hu, hw => by
    simp only [enumFree] at hf; simp only [uniqueNames] at hu
    simp only [walkable, Bool.and_eq_true, Bool.not_eq_true'] at hw
    simp only [sampleAt, absorb, ensure_list_unknown n p nl hw.1, absorbSeq, bind, Except.bind,
      absorb_sdone c o k t _ _ _ hf hu hw.2, sdone]
  | .map kt vt, n, p, nl, hf, hu, hw => by
    simp only [enumFree, Bool.and_eq_true] at hf; simp only [uniqueNames, Bool.and_eq_true] at hu
    simp only [walkable, Bool.and_eq_true, Bool.not_eq_true'] at hw
    simp only [sampleAt, absorb, hw.1.1.1, ensure_map_unknown n p nl hw.1.1.2, absorbEntriesAsMap, bind, Except.bind,
      absorb_sdone c o k kt _ _ _ hf.1 hu.1 hw.1.2, absorb_sdone c o k vt _ _ _ hf.2 hu.2 hw.2, sdone,
      Bool.false_eq_true, if_false]
  | .tuple ts, n, p, nl, hf, hu, hw | .tupleStruct _ ts, n, p, nl, hf, hu, hw => by
    simp only [enumFree] at hf; simp only [uniqueNames] at hu
    simp only [walkable, Bool.and_eq_true, Bool.not_eq_true'] at hw
    have ih := absorbTuple_sdone c o k ts p ts.length hf hu (Nat.le_refl _) (by rw [Nat.sub_self]; exact hw.2)
    rw [Nat.sub_self] at ih
    simp only [sampleAt, absorb, samplesTys_length, ensure_tuple_unknown c n p nl _ hw.1, bind, Except.bind, ih, sdone]
  | .struct _ fs, n, p, nl, hf, hu, hw => by
    simp only [enumFree] at hf; simp only [uniqueNames] at hu
    simp only [walkable, Bool.and_eq_true, Bool.not_eq_true'] at hw
    have ih := absorbFields_sdone c o k fs p .nil hf hu hw.2 (fun m _ => rfl)
    simp only [TFields.append] at ih
    simp only [sampleAt, absorb, ensure_struct_unknown c n p nl _ _ hw.1, mkStructFields, bind, Except.bind, ih,
      sdoneFields_end, sdone]
  | .enum _ _, _, _, _, hf, _, _ => by simp only [enumFree] at hf; cases hf
theorem absorbTuple_sdone (c : Code) (o : Options) (k : Nat) : ∀ (ts : Tys) (p : String) (N : Nat),
    enumFreeTys ts = true → uniqueNamesTys ts = true → ts.length ≤ N → walkableTys o p (N - ts.length) ts = true →
    absorbTuple c o p (mkTupleFields p N ts.length) 0 (samplesTys ts k) = .ok (sdoneTys o p (N - ts.length) ts)
  | .nil, _, _, _, _, _, _ => by simp only [samplesTys, absorbTuple, Tys.length, mkTupleFields, sdoneTys]
  | .cons t r, p, N, hf, hu, hl, hw => by
    simp only [enumFreeTys, Bool.and_eq_true] at hf; simp only [uniqueNamesTys, Bool.and_eq_true] at hu
    simp only [Tys.length] at hl hw ⊢
    have e : N - (r.length + 1) + 1 = N - r.length := by omega
    simp only [walkableTys, Bool.and_eq_true, e] at hw
    have h0 : 0 < (mkTupleFields p N (r.length + 1)).length := by rw [mkTupleFields_length]; omega
    have ih := absorb_sdone c o k t (toString (N - (r.length + 1))) (childPath p (toString (N - (r.length + 1)))) false
      hf.1 hu.1 hw.1
    simp only [childPath] at ih
    have ihr := absorbTuple_sdone c o k r p N hf.2 hu.2 (by omega) hw.2
    have hs := absorbTuple_shift c o p (sdone o (toString (N - (r.length + 1)))
      (p ++ "." ++ toString (N - (r.length + 1))) false t) (samplesTys r k) (mkTupleFields p N r.length) 0
      (by rw [samplesTys_length, mkTupleFields_length]; omega)
    simp only [samplesTys, absorbTuple, field_tracer_grow_id p 0 _ h0]
    simp only [mkTupleFields, Tracers.get?, Tracer.new, ih, bind, Except.bind, Tracers.set, hs, ihr, sdoneTys, e]
    rfl
theorem absorbFields_sdone (c : Code) (o : Options) (k : Nat) : ∀ (fs : TyFields) (p : String) (acc : TFields),
    enumFreeFields fs = true → uniqueNamesFields fs = true → walkableFields o p fs = true →
    (∀ m, m ∈ fs.names → acc.indexOf m = none) →
    absorbFields c o p 0 acc (samplesFields fs k) = .ok (TFields.append acc (sdoneFields o p fs))
  | .nil, _, acc, _, _, _, _ => by simp only [samplesFields, absorbFields, sdoneFields, TFields.append_nil]
  | .cons fname t r, p, acc, hf, hu, hw, hacc => by
    simp only [enumFreeFields, Bool.and_eq_true] at hf
    simp only [uniqueNamesFields, Bool.and_eq_true, Bool.not_eq_true'] at hu
    simp only [walkableFields, Bool.and_eq_true] at hw
    have hnone : acc.indexOf fname = none := hacc fname (by simp only [TyFields.names]; exact List.mem_cons_self)
    have ih := absorb_sdone c o k t fname (childPath p fname) false hf.1 hu.1.2 hw.1
    simp only [childPath] at ih
    have hacc' : ∀ m, m ∈ r.names → (acc.push fname 0 (sdone o fname (p ++ "." ++ fname) false t)).indexOf m = none := by
      intro m hm
      refine TFields.indexOf_push_none acc fname 0 _ m (hacc m (by simp only [TyFields.names]; exact List.mem_cons_of_mem _ hm)) ?_
      intro heq
      subst heq
      have := hu.1.1
      simp only [List.contains_eq_mem, decide_eq_false_iff_not] at this
      exact this hm
    have ihr := absorbFields_sdone c o k r p _ hf.2 hu.2 hw.2 hacc'
    simp only [samplesFields, absorbFields, ensure_field, hnone, Tracer.new, bne_self_eq_false, Bool.false_eq_true,
      if_false, TFields.get?_push, ih, bind, Except.bind, TFields.set_push, ihr, TFields.push_append, sdoneFields]
    rfl
end

end SaModel.Lemmas.C08
