import SaModel.Lemmas.C08Loop
/-
C08 — `from_samples` on covering samples: unique names (`from_samples` finds a field by name, a derive by position),
the field vector of a struct node, the element loop of a tuple, the covering string sample.
-/
namespace SaModel.Lemmas.C08
open SaModel SaModel.Trace SaModel.Trace.Spec

/-! ### unique field names -/

mutual
/-- field names are unique within every struct of the type -/
def uniqueNames : Ty → Bool
  | .option t | .vec t | .newtypeStruct _ t => uniqueNames t
  | .tuple ts | .tupleStruct _ ts => uniqueNamesTys ts
  | .map k v => uniqueNames k && uniqueNames v
  | .struct _ fs => uniqueNamesFields fs
  | .enum _ vs => uniqueNamesVariants vs
  | _ => true
def uniqueNamesTys : Tys → Bool
  | .nil => true
  | .cons t r => uniqueNames t && uniqueNamesTys r
def uniqueNamesFields : TyFields → Bool
  | .nil => true
  | .cons n t r => !(r.names.contains n) && uniqueNames t && uniqueNamesFields r
def uniqueNamesVariants : TyVariants → Bool
  | .nil => true
  | .unit n r => !(r.names.contains n) && uniqueNamesVariants r
  | .newtype n t r => !(r.names.contains n) && uniqueNames t && uniqueNamesVariants r
  | .tuple n ts r => !(r.names.contains n) && uniqueNamesTys ts && uniqueNamesVariants r
  | .struct n fs r => !(r.names.contains n) && uniqueNamesFields fs && uniqueNamesVariants r
end

/-! ### the field vector of a struct node -/

def TFields.append : TFields → TFields → TFields
  | .nil, b => b
  | .cons n l t r, b => .cons n l t (TFields.append r b)

theorem TFields.push_append : ∀ (a : TFields) (n : String) (l : Nat) (t : Tracer) (b : TFields),
    TFields.append (a.push n l t) b = TFields.append a (.cons n l t b)
  | .nil, _, _, _, _ => rfl
  | .cons n' l' t' r, n, l, t, b => by simp only [TFields.push, TFields.append, TFields.push_append r]

theorem TFields.append_nil : ∀ (a : TFields), TFields.append a .nil = a
  | .nil => rfl
  | .cons n l t r => by simp only [TFields.append, TFields.append_nil r]

theorem TFields.get?_push : ∀ (a : TFields) (n : String) (l : Nat) (t : Tracer), (a.push n l t).get? a.length = some t
  | .nil, _, _, _ => rfl
  | .cons _ _ _ r, n, l, t => by simp only [TFields.push, TFields.length, TFields.get?, TFields.get?_push r]

theorem TFields.set_push : ∀ (a : TFields) (n : String) (l : Nat) (t x : Tracer),
    (a.push n l t).set a.length x = a.push n l x
  | .nil, _, _, _, _ => rfl
  | .cons _ _ _ r, n, l, t, x => by simp only [TFields.push, TFields.length, TFields.set, TFields.set_push r]

theorem TFields.indexOf_push_none : ∀ (a : TFields) (n : String) (l : Nat) (t : Tracer) (m : String),
    a.indexOf m = none → n ≠ m → (a.push n l t).indexOf m = none
  | .nil, n, _, _, m, _, hne => by simp only [TFields.push, TFields.indexOf, hne, if_false]; rfl
  | .cons n' l' t' r, n, l, t, m, h, hne => by
    simp only [TFields.indexOf] at h
    simp only [TFields.push, TFields.indexOf]
    by_cases hn : n' = m
    · simp only [hn, if_true] at h; cases h
    · simp only [hn, if_false] at h ⊢
      cases hr : r.indexOf m with
      | none => simp only [TFields.indexOf_push_none r n l t m hr hne]; rfl
      | some i => rw [hr] at h; cases h

/-! ### the element loop of a tuple: a prefix that is not visited stays -/

theorem Tracers.set_length : ∀ (ts : Tracers) (i : Nat) (x : Tracer), (ts.set i x).length = ts.length
  | .nil, _, _ => rfl
  | .cons _ _, 0, _ => rfl
  | .cons _ r, i + 1, x => by simp only [Tracers.set, Tracers.length, Tracers.set_length r]

theorem field_tracer_grow_id (path : String) (idx : Nat) (ts : Tracers) (h : idx < ts.length) :
    field_tracer_grow path idx ts = ts := by
  unfold field_tracer_grow
  have : idx + 1 - ts.length = 0 := by omega
  rw [this]; rfl

theorem absorbTuple_shift (c : Code) (o : Options) (path : String) (t : Tracer) : ∀ (items : SVals) (fts : Tracers)
    (pos : Nat), pos + items.length ≤ fts.length →
    absorbTuple c o path (.cons t fts) (pos + 1) items = (absorbTuple c o path fts pos items).map (Tracers.cons t)
  | .nil, _, _, _ => by simp only [absorbTuple]; rfl
  | .cons v r, fts, pos, h => by
    simp only [SVals.length] at h
    have h1 : pos < fts.length := by omega
    have h2 : pos + 1 < (Tracers.cons t fts).length := by simp only [Tracers.length]; omega
    simp only [absorbTuple, field_tracer_grow_id path _ _ h1, field_tracer_grow_id path _ _ h2, Tracers.get?]
    cases fts.get? pos with
    | none => rfl
    | some ft =>
      simp only
      cases absorb c o ft v with
      | error e => rfl
      | ok ft' =>
        simp only [bind, Except.bind, Tracers.set]
        exact absorbTuple_shift c o path t r (fts.set pos ft') (pos + 1)
          (by rw [Tracers.set_length]; omega)

theorem samplesTys_length : ∀ (ts : Tys) (k : Nat), (samplesTys ts k).length = ts.length
  | .nil, _ => rfl
  | .cons t r, k => by simp only [samplesTys, SVals.length, Tys.length, samplesTys_length r]

theorem mkTupleFields_length (p : String) (N : Nat) : ∀ k, (mkTupleFields p N k).length = k
  | 0 => rfl
  | k + 1 => by simp only [mkTupleFields, Tracers.length, mkTupleFields_length p N k]

/-- the covering string sample is not a date -/
theorem strType_s (o : Options) : strType o "s" = o.string_type := by
  unfold strType
  cases o.guess_dates
  · rfl
  · have h1 : Matchers.matches_naive_datetime "s" = false := by decide
    have h2 : Matchers.matches_utc_datetime "s" = false := by decide
    have h3 : Matchers.matches_naive_time "s" = false := by decide
    have h4 : Matchers.matches_naive_date "s" = false := by decide
    simp [h1, h2, h3, h4]

end SaModel.Lemmas.C08
