import SaModel.Lemmas.C08StepBase
/-
C08 — the pass invariant of `from_type`: for every type description that can be walked, a pass over the tracer reached
after `k` passes gives the tracer of `k + 1` passes (`explore_step`).  For an enum node: with `b` passes spent, the pass
explores the first incomplete variant (`StepV`), or variant 0 again when every variant is complete (`RedoV`).
-/
namespace SaModel.Lemmas.C08
open SaModel SaModel.Trace SaModel.Trace.Spec

/-- a pass over an enum node that still has an incomplete variant: the loop invariant of the variant list.
`i0` = index of the head of `vs` in the enum -/
def StepV (c : Code) (o : Options) (p : String) (vs : TyVariants) (b i0 : Nat) : Prop :=
  ∃ i vn vt vt', (afterVariants o p b vs).firstIncomplete i0 = .ok (some (i0 + i)) ∧
    (afterVariants o p b vs).get? i = some (some (vn, vt)) ∧
    exploreVariant c o vt i vs = .ok vt' ∧
    (afterVariants o p b vs).set i vn vt' = afterVariants o p (b + 1) vs

/-- a pass over an enum node whose variants are all complete: variant 0 is explored again and nothing changes -/
def RedoV (c : Code) (o : Options) (p : String) (vs : TyVariants) (b : Nat) : Prop :=
  ∃ vn vt vt', (afterVariants o p b vs).get? 0 = some (some (vn, vt)) ∧
    exploreVariant c o vt 0 vs = .ok vt' ∧
    (afterVariants o p b vs).set 0 vn vt' = afterVariants o p (b + 1) vs

/-- the variant list `vs` = a head variant called `n` whose payload explores like the type `T`, then `r` -/
theorem variants_cons (c : Code) (o : Options) (p : String) (vs r : TyVariants) (n : String) (T : Ty)
    (hA : ∀ b, afterVariants o p b vs =
      .present n (after o n (childPath p n) false b T) (afterVariants o p (b - passes T) r))
    (hE0 : ∀ vt, exploreVariant c o vt 0 vs = explore c o vt T)
    (hES : ∀ vt i, exploreVariant c o vt (i + 1) vs = exploreVariant c o vt i r)
    (hP : passesVariants vs = passes T + passesVariants r)
    (hwT : walkable o (childPath p n) T = true)
    (hwr : walkableVariants o p r = true)
    (hstep : ∀ k, explore c o (after o n (childPath p n) false k T) T = .ok (after o n (childPath p n) false (k + 1) T))
    (ihr : ∀ b i0, b < passesVariants r → StepV c o p r b i0) :
    (∀ b i0, b < passesVariants vs → StepV c o p vs b i0) ∧ (∀ b, passesVariants vs ≤ b → RedoV c o p vs b) := by
  have hpos := passes_pos o T _ hwT
  constructor
  · intro b i0 hb
    by_cases h : b < passes T
    · refine ⟨0, n, after o n (childPath p n) false b T, after o n (childPath p n) false (b + 1) T, ?_, ?_, ?_, ?_⟩
      · rw [hA b]
        simp only [Variants.firstIncomplete, after_incomplete o T _ _ _ b h, Bool.not_false, if_true, Nat.add_zero]
      · rw [hA b]; rfl
      · rw [hE0]; exact hstep b
      · rw [hA b, hA (b + 1)]
        have : b - passes T = b + 1 - passes T := by omega
        simp only [Variants.set, this]
    · obtain ⟨b', rfl⟩ : ∃ b', b = b' + 1 := ⟨b - 1, by omega⟩
      have hd := after_done o T n (childPath p n) false b' hwT (by omega)
      have hd2 := after_done o T n (childPath p n) false (b' + 1) hwT (by omega)
      obtain ⟨i, vn, vt, vt', h1, h2, h3, h4⟩ := ihr (b' + 1 - passes T) (i0 + 1) (by omega)
      refine ⟨i + 1, vn, vt, vt', ?_, ?_, ?_, ?_⟩
      · rw [hA]
        simp only [Variants.firstIncomplete, hd, done_complete, Bool.not_true, Bool.false_eq_true, if_false]
        rw [h1]
        have : i0 + 1 + i = i0 + (i + 1) := by omega
        rw [this]
      · rw [hA]; simp only [Variants.get?]; exact h2
      · rw [hES]; exact h3
      · rw [hA, hA (b' + 1 + 1)]
        have : b' + 1 - passes T + 1 = b' + 1 + 1 - passes T := by omega
        simp only [Variants.set, h4, hd, hd2, this]
  · intro b hb
    refine ⟨n, after o n (childPath p n) false b T, after o n (childPath p n) false (b + 1) T, ?_, ?_, ?_⟩
    · rw [hA b]; rfl
    · rw [hE0]; exact hstep b
    · rw [hA b, hA (b + 1)]
      simp only [Variants.set, afterVariants_done o r p (b - passes T) hwr (by omega),
        afterVariants_done o r p (b + 1 - passes T) hwr (by omega)]

/-! ### the container cases, given the pass over the children -/

theorem tuple_step_of (c : Code) (o : Options) (ts : Tys) (n p : String) (nl : Bool) (hd : tooDeep p = false)
    (hT : ∀ k, exploreTys c o (afterTys o p k 0 ts) 0 ts = .ok (afterTys o p (k + 1) 0 ts)) (k : Nat) :
    explore c o (after o n p nl k (.tuple ts)) (.tuple ts) = .ok (after o n p nl (k + 1) (.tuple ts)) := by
  cases k with
  | zero =>
    rw [after_zero, explore_tuple_unknown c o n p nl ts hd]
    simp only [after]
    exact explore_tuple_tuple c o n p nl ts 0 0 _ hd (hT 0)
  | succ k =>
    simp only [after]
    exact explore_tuple_tuple c o n p nl ts (k + 1) 0 _ hd (hT (k + 1))

theorem struct_step_of (c : Code) (o : Options) (sn : String) (fs : TyFields) (n p : String) (nl : Bool)
    (hd : tooDeep p = false)
    (hT : ∀ k, exploreFields c o (afterFields o p k fs) 0 fs = .ok (afterFields o p (k + 1) fs)) (k : Nat) :
    explore c o (after o n p nl k (.struct sn fs)) (.struct sn fs) = .ok (after o n p nl (k + 1) (.struct sn fs)) := by
  cases k with
  | zero =>
    rw [after_zero, explore_struct_unknown c o n p nl sn fs hd]
    simp only [after]
    exact explore_struct_struct c o n p nl sn fs _ _ hd (hT 0)
  | succ k =>
    simp only [after]
    exact explore_struct_struct c o n p nl sn fs _ _ hd (hT (k + 1))

theorem prim_step (o : Options) (n p : String) (nl : Bool) (dt : DataType) (hnn : isNull dt = false) (t : Tracer)
    (ht : t = .unknown n p nl ∨ t = .primitive n p nl dt none) :
    t.ensure_primitive_with_strategy o dt none = .ok (.primitive n p nl dt none) := by
  rcases ht with rfl | rfl
  · simp only [Tracer.ensure_primitive_with_strategy, hnn, Bool.or_false]
  · exact ensure_primitive_same o n p nl dt none

theorem null_step (o : Options) (n p : String) (nl : Bool) (t : Tracer)
    (ht : t = .unknown n p nl ∨ t = .primitive n p true .null none) :
    t.ensure_primitive_with_strategy o .null none = .ok (.primitive n p true .null none) := by
  rcases ht with rfl | rfl
  · simp only [Tracer.ensure_primitive_with_strategy, isNull, Bool.or_true]
  · exact ensure_primitive_same o n p true .null none

theorem unit_step (c : Code) (o : Options) (n p : String) (nl : Bool) (k : Nat) :
    explore c o (after o n p nl k .unit) .unit = .ok (after o n p nl (k + 1) .unit) := by
  cases k <;> simp only [after, explore] <;> exact null_step o n p nl _ (by simp)

mutual
theorem explore_step (c : Code) (o : Options) : ∀ (ty : Ty) (n p : String) (nl : Bool) (k : Nat),
    walkable o p ty = true → explore c o (after o n p nl k ty) ty = .ok (after o n p nl (k + 1) ty)
  | .unit, n, p, nl, k, _ => unit_step c o n p nl k
  | .unitStruct _, n, p, nl, k, _ => by
    cases k <;> simp only [after, explore] <;> exact null_step o n p nl _ (by simp)
  | .bool, n, p, nl, k, _ | .f32, n, p, nl, k, _ | .f64, n, p, nl, k, _ | .char, n, p, nl, k, _
  | .bytes, n, p, nl, k, _ => by
    cases k <;> simp only [after, explore] <;> exact prim_step o n p nl _ rfl _ (by simp)
  | .int t, n, p, nl, k, _ => by
    cases k <;> simp only [after, explore] <;> exact prim_step o n p nl _ (by cases t <;> rfl) _ (by simp)
  | .string, n, p, nl, k, _ => by
    have : isNull o.string_type = false := by unfold Options.string_type; split <;> rfl
    cases k <;> simp only [after, explore] <;> exact prim_step o n p nl _ this _ (by simp)
  | .option t, n, p, nl, k, hw => by
    simp only [walkable] at hw
    have ih := explore_step c o t n p true k hw
    cases k with
    | zero =>
      rw [after_zero] at ih ⊢
      simp only [explore, Tracer.mark_nullable, Tracer.set_nullable, after]; exact ih
    | succ k => simp only [explore, after, after_mark_nullable]; exact ih
  | .newtypeStruct _ t, n, p, nl, k, hw => by
    simp only [walkable] at hw
    have ih := explore_step c o t n p nl k hw
    cases k with
    | zero => rw [after_zero] at ih ⊢; simp only [explore, after]; exact ih
    | succ k => simp only [explore, after]; exact ih
  | .vec t, n, p, nl, k, hw => by
    simp only [walkable, Bool.and_eq_true, Bool.not_eq_true'] at hw
    have ih := explore_step c o t "element" (childPath p "element") false k hw.2
    cases k with
    | zero =>
      rw [after_zero] at ih
      rw [after_zero, explore_vec_unknown c o n p nl t hw.1]
      simp only [after]; exact explore_vec_list c o n p nl _ _ t hw.1 ih
    | succ k => simp only [after]; exact explore_vec_list c o n p nl _ _ t hw.1 ih
  | .map kt vt, n, p, nl, k, hw => by
    simp only [walkable, Bool.and_eq_true, Bool.not_eq_true'] at hw
    have ihk := explore_step c o kt "key" (childPath p "key") false k hw.1.2
    have ihv := explore_step c o vt "value" (childPath p "value") false k hw.2
    cases k with
    | zero =>
      rw [after_zero] at ihk ihv
      rw [after_zero, explore_map_unknown c o n p nl kt vt hw.1.1.2]
      simp only [after]; exact explore_map_map c o n p nl _ _ _ _ kt vt hw.1.1.1 hw.1.1.2 ihk ihv
    | succ k => simp only [after]; exact explore_map_map c o n p nl _ _ _ _ kt vt hw.1.1.1 hw.1.1.2 ihk ihv
  | .tuple ts, n, p, nl, k, hw => by
    simp only [walkable, Bool.and_eq_true, Bool.not_eq_true'] at hw
    exact tuple_step_of c o ts n p nl hw.1 (fun k => exploreTys_step c o ts p k 0 hw.2) k
  | .tupleStruct sn ts, n, p, nl, k, hw => by
    simp only [walkable, Bool.and_eq_true, Bool.not_eq_true'] at hw
    have := tuple_step_of c o ts n p nl hw.1 (fun k => exploreTys_step c o ts p k 0 hw.2) k
    rw [explore_tupleStruct_eq]
    cases k <;> simpa only [after] using this
  | .struct sn fs, n, p, nl, k, hw => by
    simp only [walkable, Bool.and_eq_true, Bool.not_eq_true'] at hw
    exact struct_step_of c o sn fs n p nl hw.1 (fun k => exploreFields_step c o fs p k hw.2) k
  | .enum en vs, n, p, nl, k, hw => by
    simp only [walkable, Bool.and_eq_true, Bool.not_eq_true', bne_iff_ne, ne_eq] at hw
    obtain ⟨⟨hd, hne⟩, hwv⟩ := hw
    have hv := variants_step c o vs p hwv
    have key : explore c o (.union n p nl (afterVariants o p k vs)) (.enum en vs) =
        .ok (.union n p nl (afterVariants o p (k + 1) vs)) := by
      by_cases hb : k < passesVariants vs
      · obtain ⟨i, vn, vt, vt', h1, h2, h3, h4⟩ := hv.1 k 0 hb
        rw [Nat.zero_add] at h1
        have := explore_union c o n p nl _ en vs hd (some i) h1 vn vt vt' h2 h3
        simp only [Option.getD] at this
        rw [this, h4]
      · obtain ⟨vn, vt, vt', h2, h3, h4⟩ := hv.2 hne k (by omega)
        have h1 : (afterVariants o p k vs).firstIncomplete 0 = .ok none := by
          rw [afterVariants_done o vs p k hwv (by omega)]; exact doneVariants_firstIncomplete o vs p 0
        have := explore_union c o n p nl _ en vs hd none h1 vn vt vt' h2 h3
        simp only [Option.getD] at this
        rw [this, h4]
    cases k with
    | zero => rw [after_zero, explore_enum_unknown c o n p nl en vs hd]; simp only [after]; exact key
    | succ k => simp only [after]; exact key
theorem exploreTys_step (c : Code) (o : Options) : ∀ (ts : Tys) (p : String) (k i : Nat),
    walkableTys o p i ts = true → exploreTys c o (afterTys o p k i ts) 0 ts = .ok (afterTys o p (k + 1) i ts)
  | .nil, _, _, _, _ => by simp only [afterTys, exploreTys]
  | .cons t r, p, k, i, hw => by
    simp only [walkableTys, Bool.and_eq_true] at hw
    simp only [afterTys, exploreTys, Tracers.get?, explore_step c o t _ _ _ k hw.1, bind, Except.bind, Tracers.set,
      exploreTys_shift, exploreTys_step c o r p k (i + 1) hw.2]
    rfl
theorem exploreFields_step (c : Code) (o : Options) : ∀ (fs : TyFields) (p : String) (k : Nat),
    walkableFields o p fs = true → exploreFields c o (afterFields o p k fs) 0 fs = .ok (afterFields o p (k + 1) fs)
  | .nil, _, _, _ => by simp only [afterFields, exploreFields]
  | .cons fname t r, p, k, hw => by
    simp only [walkableFields, Bool.and_eq_true] at hw
    simp only [afterFields, exploreFields, TFields.get?, explore_step c o t _ _ _ k hw.1, bind, Except.bind, TFields.set,
      exploreFields_shift, exploreFields_step c o r p k hw.2]
    rfl
theorem variants_step (c : Code) (o : Options) : ∀ (vs : TyVariants) (p : String), walkableVariants o p vs = true →
    (∀ b i0, b < passesVariants vs → StepV c o p vs b i0) ∧
    (vs.length ≠ 0 → ∀ b, passesVariants vs ≤ b → RedoV c o p vs b)
  | .nil, _, _ => ⟨fun b i0 h => by simp only [passesVariants] at h; omega, fun h => absurd rfl h⟩
  | .unit n r, p, hw => by
    simp only [walkableVariants] at hw
    have := variants_cons c o p (.unit n r) r n .unit
      (fun b => by cases b <;> simp only [afterVariants, after, passes])
      (fun vt => by simp only [exploreVariant, explore])
      (fun vt i => by simp only [exploreVariant])
      (by simp only [passesVariants, passes])
      (by simp only [walkable]) hw (fun k => unit_step c o n _ false k) (variants_step c o r p hw).1
    exact ⟨this.1, fun _ => this.2⟩
  | .newtype n t r, p, hw => by
    simp only [walkableVariants, Bool.and_eq_true] at hw
    have := variants_cons c o p (.newtype n t r) r n t
      (fun b => by simp only [afterVariants])
      (fun vt => by simp only [exploreVariant])
      (fun vt i => by simp only [exploreVariant])
      (by simp only [passesVariants])
      hw.1 hw.2 (fun k => explore_step c o t n _ false k hw.1) (variants_step c o r p hw.2).1
    exact ⟨this.1, fun _ => this.2⟩
  | .tuple n ts r, p, hw => by
    simp only [walkableVariants, Bool.and_eq_true, Bool.not_eq_true'] at hw
    have := variants_cons c o p (.tuple n ts r) r n (.tuple ts)
      (fun b => by cases b <;> simp only [afterVariants, after, passes])
      (fun vt => by simp only [exploreVariant, explore])
      (fun vt i => by simp only [exploreVariant])
      (by simp only [passesVariants, passes])
      (by simp only [walkable, hw.1.1, hw.1.2, Bool.not_false, Bool.and_self]) hw.2
      (fun k => tuple_step_of c o ts n _ false hw.1.1 (fun k => exploreTys_step c o ts _ k 0 hw.1.2) k)
      (variants_step c o r p hw.2).1
    exact ⟨this.1, fun _ => this.2⟩
  | .struct n fs r, p, hw => by
    simp only [walkableVariants, Bool.and_eq_true, Bool.not_eq_true'] at hw
    have := variants_cons c o p (.struct n fs r) r n (.struct n fs)
      (fun b => by cases b <;> simp only [afterVariants, after, passes])
      (fun vt => by simp only [exploreVariant, explore])
      (fun vt i => by simp only [exploreVariant])
      (by simp only [passesVariants, passes])
      (by simp only [walkable, hw.1.1, hw.1.2, Bool.not_false, Bool.and_self]) hw.2
      (fun k => struct_step_of c o n fs n _ false hw.1.1 (fun k => exploreFields_step c o fs _ k hw.1.2) k)
      (variants_step c o r p hw.2).1
    exact ⟨this.1, fun _ => this.2⟩
end

end SaModel.Lemmas.C08
