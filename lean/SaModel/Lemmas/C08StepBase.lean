import SaModel.Lemmas.C08After
/-
C08 — building blocks of the pass invariant `explore (after k ty) = after (k+1) ty`: a pass over a fresh node is a pass
over the freshly created container node; a pass over a container node is a pass over its children; one pass over an
enum node (first incomplete variant, else variant 0).
-/
namespace SaModel.Lemmas.C08
open SaModel SaModel.Trace SaModel.Trace.Spec

/-! ### `after` at 0 passes is what the `ensure_*` calls create -/

theorem mkTupleFields_after (o : Options) (p : String) (N : Nat) : ∀ (ts : Tys), ts.length ≤ N →
    mkTupleFields p N ts.length = afterTys o p 0 (N - ts.length) ts
  | .nil, _ => by simp only [Tys.length, mkTupleFields, afterTys]
  | .cons t r, h => by
    simp only [Tys.length] at h ⊢
    have e : N - (r.length + 1) + 1 = N - r.length := by omega
    simp only [mkTupleFields, afterTys, after_zero, Tracer.new, e, mkTupleFields_after o p N r (by omega)]
    rfl

theorem mkStructFields_after (o : Options) (p : String) : ∀ (fs : TyFields),
    mkStructFields p fs.names = afterFields o p 0 fs
  | .nil => by simp only [TyFields.names, mkStructFields, afterFields]
  | .cons n t r => by
    simp only [TyFields.names, mkStructFields, afterFields, after_zero, Tracer.new, mkStructFields_after o p r]
    rfl

theorem mkVariants_after (o : Options) (p : String) : ∀ (vs : TyVariants),
    mkVariants p vs.names = afterVariants o p 0 vs
  | .nil => by simp only [TyVariants.names, mkVariants, afterVariants]
  | .unit n r | .newtype n t r | .tuple n ts r | .struct n fs r => by
    simp only [TyVariants.names, mkVariants, afterVariants, after_zero, Tracer.new, Nat.zero_sub,
      mkVariants_after o p r]
    rfl

theorem afterTys_length (o : Options) (p : String) (k : Nat) : ∀ (ts : Tys) (i : Nat),
    (afterTys o p k i ts).length = ts.length
  | .nil, _ => rfl
  | .cons t r, i => by simp only [afterTys, Tracers.length, Tys.length, afterTys_length o p k r]

/-- `Option`: marking a node nullable that was explored as nullable changes nothing -/
theorem after_mark_nullable (o : Options) : ∀ (ty : Ty) (n p : String) (k : Nat),
    (after o n p true k ty).mark_nullable = after o n p true k ty
  | ty, n, p, 0 => by rw [after_zero]; rfl
  | .unit, _, _, k + 1 | .unitStruct _, _, _, k + 1 | .bool, _, _, k + 1 | .int _, _, _, k + 1 | .f32, _, _, k + 1
  | .f64, _, _, k + 1 | .char, _, _, k + 1 | .string, _, _, k + 1 | .bytes, _, _, k + 1 | .vec _, _, _, k + 1
  | .tuple _, _, _, k + 1 | .tupleStruct _ _, _, _, k + 1 | .map _ _, _, _, k + 1 | .struct _ _, _, _, k + 1
  | .enum _ _, _, _, k + 1 => by simp only [after, Tracer.mark_nullable, Tracer.set_nullable]
  | .option t, n, p, k + 1 => by simp only [after]; exact after_mark_nullable o t n p (k + 1)
  | .newtypeStruct _ t, n, p, k + 1 => by simp only [after]; exact after_mark_nullable o t n p (k + 1)

/-! ### leaves -/

theorem ensure_primitive_same (o : Options) (n p : String) (nl : Bool) (dt : DataType) (st : Option Strategy) :
    (Tracer.primitive n p nl dt st).ensure_primitive_with_strategy o dt st = .ok (.primitive n p nl dt st) := by
  simp only [Tracer.ensure_primitive_with_strategy, coerce_primitive_type, and_self, if_true, bind, Except.bind]

/-! ### containers: fresh node = freshly created container; container = its children -/

theorem explore_vec_unknown (c : Code) (o : Options) (n p : String) (nl : Bool) (t : Ty) (hd : tooDeep p = false) :
    explore c o (.unknown n p nl) (.vec t) =
      explore c o (.list n p nl (.unknown "element" (childPath p "element") false)) (.vec t) := by
  simp only [explore, ensure_list_unknown n p nl hd, ensure_list_list n p nl _ hd]

theorem explore_vec_list (c : Code) (o : Options) (n p : String) (nl : Bool) (i i' : Tracer) (t : Ty)
    (hd : tooDeep p = false) (h : explore c o i t = .ok i') :
    explore c o (.list n p nl i) (.vec t) = .ok (.list n p nl i') := by
  simp only [explore, ensure_list_list n p nl _ hd, bind, Except.bind, h]

theorem explore_map_unknown (c : Code) (o : Options) (n p : String) (nl : Bool) (k v : Ty) (hd : tooDeep p = false) :
    explore c o (.unknown n p nl) (.map k v) =
      explore c o (.map n p nl (.unknown "key" (childPath p "key") false)
        (.unknown "value" (childPath p "value") false)) (.map k v) := by
  simp only [explore, ensure_map_unknown n p nl hd, ensure_map_map n p nl _ _ hd]

theorem explore_map_map (c : Code) (o : Options) (n p : String) (nl : Bool) (kt kt' vt vt' : Tracer) (k v : Ty)
    (hm : o.map_as_struct = false) (hd : tooDeep p = false) (hk : explore c o kt k = .ok kt')
    (hv : explore c o vt v = .ok vt') :
    explore c o (.map n p nl kt vt) (.map k v) = .ok (.map n p nl kt' vt') := by
  simp only [explore, hm, ensure_map_map n p nl _ _ hd, bind, Except.bind, hk, hv, Bool.false_eq_true, if_false]

theorem explore_tuple_unknown (c : Code) (o : Options) (n p : String) (nl : Bool) (ts : Tys) (hd : tooDeep p = false) :
    explore c o (.unknown n p nl) (.tuple ts) = explore c o (.tuple n p nl (afterTys o p 0 0 ts)) (.tuple ts) := by
  have h1 := mkTupleFields_after o p ts.length ts (Nat.le_refl _)
  rw [Nat.sub_self] at h1
  have h2 := ensure_tuple_tuple c n p nl (afterTys o p 0 0 ts) hd
  rw [afterTys_length] at h2
  simp only [explore, ensure_tuple_unknown c n p nl _ hd, h1, h2]

theorem explore_tuple_tuple (c : Code) (o : Options) (n p : String) (nl : Bool) (ts : Tys) (k i : Nat) (fts' : Tracers)
    (hd : tooDeep p = false) (h : exploreTys c o (afterTys o p k i ts) 0 ts = .ok fts') :
    explore c o (.tuple n p nl (afterTys o p k i ts)) (.tuple ts) = .ok (.tuple n p nl fts') := by
  have h2 := ensure_tuple_tuple c n p nl (afterTys o p k i ts) hd
  rw [afterTys_length] at h2
  simp only [explore, h2, bind, Except.bind, h]

theorem explore_tupleStruct_eq (c : Code) (o : Options) (t : Tracer) (sn : String) (ts : Tys) :
    explore c o t (.tupleStruct sn ts) = explore c o t (.tuple ts) := by
  simp only [explore]

theorem explore_struct_unknown (c : Code) (o : Options) (n p : String) (nl : Bool) (sn : String) (fs : TyFields)
    (hd : tooDeep p = false) :
    explore c o (.unknown n p nl) (.struct sn fs) =
      explore c o (.struct n p nl (afterFields o p 0 fs) .struct 0) (.struct sn fs) := by
  simp only [explore, ensure_struct_unknown c n p nl _ _ hd, mkStructFields_after o p fs,
    ensure_struct_struct c n p nl _ _ _ hd]

theorem explore_struct_struct (c : Code) (o : Options) (n p : String) (nl : Bool) (sn : String) (fs : TyFields)
    (tfs tfs' : TFields) (hd : tooDeep p = false) (h : exploreFields c o tfs 0 fs = .ok tfs') :
    explore c o (.struct n p nl tfs .struct 0) (.struct sn fs) = .ok (.struct n p nl tfs' .struct 0) := by
  simp only [explore, ensure_struct_struct c n p nl _ _ _ hd, bind, Except.bind, h]

/-! ### one pass over an enum node -/

theorem explore_enum_unknown (c : Code) (o : Options) (n p : String) (nl : Bool) (en : String) (vs : TyVariants)
    (hd : tooDeep p = false) :
    explore c o (.unknown n p nl) (.enum en vs) =
      explore c o (.union n p nl (afterVariants o p 0 vs)) (.enum en vs) := by
  simp only [explore, ensure_union_unknown n p nl _ hd, mkVariants_after o p vs, ensure_union_union n p nl _ _ hd]

theorem Variants.get?_lt : ∀ (V : Variants) (i : Nat) x, V.get? i = some x → i < V.length
  | .nil, _, _, h => by simp only [Variants.get?] at h; cases h
  | .absent r, 0, _, _ | .present _ _ r, 0, _, _ => by simp only [Variants.length]; omega
  | .absent r, i + 1, x, h | .present _ _ r, i + 1, x, h => by
    simp only [Variants.get?] at h; simp only [Variants.length]; have := Variants.get?_lt r i x h; omega

theorem explore_union (c : Code) (o : Options) (n p : String) (nl : Bool) (V : Variants) (en : String)
    (vs : TyVariants) (hd : tooDeep p = false) (r : Option Nat) (h1 : V.firstIncomplete 0 = .ok r)
    (vn : String) (vt vt' : Tracer) (hg : V.get? (r.getD 0) = some (some (vn, vt)))
    (he : exploreVariant c o vt (r.getD 0) vs = .ok vt') :
    explore c o (.union n p nl V) (.enum en vs) = .ok (.union n p nl (V.set (r.getD 0) vn vt')) := by
  have hlt := Variants.get?_lt V _ _ hg
  have : ¬ (r.getD 0 ≥ V.length) := by omega
  simp only [explore, ensure_union_union n p nl _ _ hd, bind, Except.bind, h1, this, if_false, hg, he]

/-- a complete union: no incomplete variant -/
theorem doneVariants_firstIncomplete (o : Options) : ∀ (vs : TyVariants) (p : String) (i0 : Nat),
    (doneVariants o p vs).firstIncomplete i0 = .ok none
  | .nil, _, _ => rfl
  | .unit n r, p, i0 => by
    simp only [doneVariants, Variants.firstIncomplete, Tracer.is_complete, Bool.not_true, Bool.false_eq_true, if_false]
    exact doneVariants_firstIncomplete o r p (i0 + 1)
  | .newtype n t r, p, i0 => by
    simp only [doneVariants, Variants.firstIncomplete, done_complete, Bool.not_true, Bool.false_eq_true, if_false]
    exact doneVariants_firstIncomplete o r p (i0 + 1)
  | .tuple n ts r, p, i0 => by
    simp only [doneVariants, Variants.firstIncomplete, Tracer.is_complete, doneTys_complete, Bool.not_true,
      Bool.false_eq_true, if_false]
    exact doneVariants_firstIncomplete o r p (i0 + 1)
  | .struct n fs r, p, i0 => by
    simp only [doneVariants, Variants.firstIncomplete, Tracer.is_complete, doneFields_complete, Bool.not_true,
      Bool.false_eq_true, if_false]
    exact doneVariants_firstIncomplete o r p (i0 + 1)

end SaModel.Lemmas.C08
