import SaModel.Trace.Mapping
/-
A zoo of type descriptions (the Lean twins of the derived types compiled into the harness, plus boundary shapes) and
option settings, on which the C08 statements are evaluated by the kernel.
-/
namespace SaModel.Lemmas.C08
open SaModel SaModel.Trace

def tys : List Ty → Tys
  | [] => .nil
  | t :: r => .cons t (tys r)

def flds : List (String × Ty) → TyFields
  | [] => .nil
  | (n, t) :: r => .cons n t (flds r)

def tInner : Ty := .struct "Inner" (flds [("x", .option (.int .i32)), ("y", .vec .string)])
def tPlain : Ty := .enum "Plain" (.unit "A" (.unit "B" (.unit "C" .nil)))
def tData : Ty := .enum "Data"
  (.unit "U" (.newtype "N" (.int .i32) (.tuple "T" (tys [.int .u8, .string])
    (.struct "S" (flds [("p", .bool), ("q", .option .f32)]) (.tuple "T0" .nil (.newtype "N2" tInner .nil))))))
def tDeep : Ty := .enum "Deep" (.newtype "X" tData (.newtype "Y" tPlain (.unit "Z" .nil)))

def zooTypes : List Ty := [
  .struct "Prims" (flds [("a", .bool), ("b", .int .i8), ("c", .int .i16), ("d", .int .i32), ("e", .int .i64), ("f", .int .u8),
    ("g", .int .u16), ("h", .int .u32), ("i", .int .u64), ("j", .f32), ("k", .f64), ("l", .char), ("m", .string)]),
  .struct "WithBytes" (flds [("x", .bytes), ("u", .unit)]),
  .struct "Nested" (flds [("inner", tInner), ("list", .vec tInner), ("opt", .option tInner), ("oo", .option (.option (.int .u8)))]),
  .struct "Tuples" (flds [("t", .tuple (tys [.int .u8, .bool])), ("ts", .tupleStruct "Tup" (tys [.int .i32, .string])),
    ("n", .newtypeStruct "New" .f64), ("u", .unitStruct "Unit"), ("e", .struct "Empty" .nil),
    ("arr", .tuple (tys [.int .i16, .int .i16, .int .i16])), ("t0", .unit)]),
  .struct "Enums" (flds [("p", tPlain), ("d", tData), ("od", .option tData), ("vd", .vec tData), ("deep", tDeep)]),
  .struct "Maps" (flds [("m", .map .string (.int .i32)), ("bm", .map (.int .i64) (.vec .bool))]),
  .struct "TwoEnums" (flds [("a", tPlain), ("b", tData)]),
  .struct "Item" (flds [("item", tPlain)]),
  .struct "Item" (flds [("item", .vec (.option (.int .i64)))]),
  .tupleStruct "Tup" (tys [.int .i32, .string]),
  .int .i32,
  .option (.struct "S" (flds [("a", .bool)])),
  .struct "S" (flds [("e", .enum "E" .nil)]),
  .struct "S" (flds [("a.b", .vec (.vec .bool))]),
  .struct "S" (flds [("e", .enum "E" (.newtype "A" (.option .unit) (.unit "B" .nil)))]),
  .newtypeStruct "N" (.struct "S" (flds [("a", .option (.newtypeStruct "M" (.vec .char)))]))
]

def zooOptions : List Options := [
  {}, { allow_null_fields := true }, { allow_null_fields := true, map_as_struct := false },
  { map_as_struct := false, sequence_as_large_list := false, string_as_large_utf8 := false, string_dictionary_encoding := true },
  { enums_without_data_as_strings := true, allow_null_fields := true, map_as_struct := false, coerce_numbers := true },
  { allow_null_fields := true, map_as_struct := false, from_type_budget := 3 },
  { allow_null_fields := true, map_as_struct := false, from_type_budget := 10, allow_to_string := true, guess_dates := true },
  { allow_null_fields := true, map_as_struct := false, overwrites := [("$.a", .mk "a" .int64 true [])] },
  { allow_null_fields := true, map_as_struct := false, overwrites := [("$.d", .mk "dd" .int64 true [])] },
  { allow_null_fields := true, map_as_struct := false, overwrites := [("$.inner.y.element", .mk "element" .utf8 false [])] }
]

/-- equal up to the error message -/
def sameR (a b : R (List Field)) : Bool :=
  match a, b with
  | .ok x, .ok y => decide (x = y)
  | .error (.err _), .error (.err _) => true
  | _, _ => false

/-- `from_type` is the documented mapping; `from_samples` on covering samples gives the same schema -/
def zooCheck (o : Options) (ty : Ty) : Bool :=
  sameR (fromType .fixed o ty) (Spec.fromTypeSpec o ty) &&
  (match fromType .fixed o ty with
   | .ok fs => sameR (fromSamples .fixed o (covering ty)) (.ok fs)
   | .error _ => true)

end SaModel.Lemmas.C08
