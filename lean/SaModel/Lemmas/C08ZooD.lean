import SaModel.Lemmas.C08Zoo
/- kernel evaluation of the C08 zoo, option settings 6 and 7 -/
namespace SaModel.Lemmas.C08
open SaModel SaModel.Trace
set_option maxRecDepth 1000000

theorem zoo_3 : ((zooOptions.drop 6).take 2).all (fun o => zooTypes.all fun ty => zooCheck o ty) = true := by
  decide +kernel

end SaModel.Lemmas.C08
