import SaModel.Lemmas.C09Type
import SaModel.Spec.SchemaOK
/-
C09: `build_data_type` maps the term of a printed data type and the printed children back to the type
(`dsl_roundtrip`), and `validate_field` accepts every valid field.
-/
namespace SaModel.SchemaJson
open SaModel SaModel.Dsl

theorem Fields.ofList_toList : (fs : Fields) → Fields.ofList fs.toList = fs
  | .nil => rfl
  | .cons f r => by rw [Fields.toList, Fields.ofList, Fields.ofList_toList r]

theorem unionChildren_idsFrom : (us : UFields) → (idx : Nat) → idsFrom idx us = true →
    unionChildren idx (us.toList.map (·.2)) = .ok us
  | .nil, _, _ => rfl
  | .cons i f r, idx, h => by
    simp only [idsFrom, Bool.and_eq_true, decide_eq_true_eq] at h
    obtain ⟨⟨hi, hle⟩, hr⟩ := h
    have := unionChildren_idsFrom r (idx + 1) hr
    have hn : ¬ idx > 127 := by omega
    simp only [UFields.toList, List.map_cons, unionChildren, hn, ↓reduceIte, this, hi, bind, Except.bind, pure, Except.pure]

theorem parseUnit_showUnit (u : TimeUnit) : parseUnit (showUnit u) = .ok u := by
  cases u <;> rfl

theorem parseU8_showInt (p : Nat) (h : p ≤ 255) : parseU8 (showInt (Int.ofNat p)) = .ok p := by
  have := parseIntLit_showInt false 0 255 (Int.ofNat p) (by constructor <;> simp <;> omega) (by intro h; simp at h; omega)
  simp only [parseU8, this, bind, Except.bind, pure, Except.pure]
  simp

/-- `build_data_type` on the term the printer wrote and the children the printer wrote -/
theorem buildDataTypeOfTerm_typeTerm (dt : DataType) (h : typeOK dt = true) :
    buildDataTypeOfTerm (typeTerm dt) (childList dt) = .ok dt := by
  cases dt with
  | fixedSizeBinary n =>
    simp only [typeOK, Bool.and_eq_true, decide_eq_true_eq] at h
    have h : -2147483648 ≤ n ∧ n ≤ 2147483647 := ⟨h.1, h.2⟩
    have e : buildDataTypeOfTerm (typeTerm (.fixedSizeBinary n)) (childList (.fixedSizeBinary n)) =
        (do pure (.fixedSizeBinary (← parseI32 (showInt n)))) := rfl
    rw [e, parseI32, parseIntLit_showInt true (-2147483648) 2147483647 n h (fun _ => rfl)]; rfl
  | fixedSizeList f n =>
    simp only [typeOK, Bool.and_eq_true, decide_eq_true_eq] at h
    have h : -2147483648 ≤ n ∧ n ≤ 2147483647 := ⟨h.1, h.2⟩
    have e : buildDataTypeOfTerm (typeTerm (.fixedSizeList f n)) (childList (.fixedSizeList f n)) =
        (do pure (.fixedSizeList f (← parseI32 (showInt n)))) := rfl
    rw [e, parseI32, parseIntLit_showInt true (-2147483648) 2147483647 n h (fun _ => rfl)]; rfl
  | decimal128 p s =>
    simp only [typeOK, Bool.and_eq_true, decide_eq_true_eq] at h
    have hp := parseU8_showInt p h.1.1
    have hs := parseIntLit_showInt true (-128) 127 s ⟨h.1.2, h.2⟩ (fun _ => rfl)
    have e : buildDataTypeOfTerm (typeTerm (.decimal128 p s)) (childList (.decimal128 p s)) =
        (do let p ← parseU8 (showInt (Int.ofNat p)); let s ← parseI8 (showInt s); pure (.decimal128 p s)) := rfl
    rw [e, hp, parseI8, hs]; rfl
  | timestamp u tz =>
    cases tz with
    | none =>
      have e : buildDataTypeOfTerm (typeTerm (.timestamp u none)) (childList (.timestamp u none)) =
          (do let unit ← parseUnit (showUnit u); pure (.timestamp unit none)) := rfl
      rw [e, parseUnit_showUnit]; rfl
    | some tz =>
      have e : buildDataTypeOfTerm (typeTerm (.timestamp u (some tz))) (childList (.timestamp u (some tz))) =
          (do let unit ← parseUnit (showUnit u); pure (.timestamp unit (some (String.ofList tz.toList)))) := rfl
      rw [e, parseUnit_showUnit, String.ofList_toList]; rfl
  | time32 u =>
    have e : buildDataTypeOfTerm (typeTerm (.time32 u)) (childList (.time32 u)) =
        (do pure (.time32 (← parseUnit (showUnit u)))) := rfl
    rw [e, parseUnit_showUnit]; rfl
  | time64 u =>
    have e : buildDataTypeOfTerm (typeTerm (.time64 u)) (childList (.time64 u)) =
        (do pure (.time64 (← parseUnit (showUnit u)))) := rfl
    rw [e, parseUnit_showUnit]; rfl
  | duration u =>
    have e : buildDataTypeOfTerm (typeTerm (.duration u)) (childList (.duration u)) =
        (do pure (.duration (← parseUnit (showUnit u)))) := rfl
    rw [e, parseUnit_showUnit]; rfl
  | struct fs =>
    have e : buildDataTypeOfTerm (typeTerm (.struct fs)) (childList (.struct fs)) =
        .ok (.struct (Fields.ofList fs.toList)) := rfl
    rw [e, Fields.ofList_toList]
  | map e sorted =>
    simp only [typeOK, Bool.not_eq_true'] at h
    subst h
    rfl
  | union us mode =>
    simp only [typeOK, Bool.and_eq_true, decide_eq_true_eq] at h
    obtain ⟨hm, hids⟩ := h
    subst hm
    have e : buildDataTypeOfTerm (typeTerm (.union us .dense)) (childList (.union us .dense)) =
        (do pure (.union (← unionChildren 0 (us.toList.map (·.2))) .dense)) := rfl
    rw [e, unionChildren_idsFrom us 0 hids]; rfl
  | interval _ => simp [typeOK] at h
  | runEndEncoded _ _ => simp [typeOK] at h
  | _ => rfl

theorem typeOK_printable (dt : DataType) (h : typeOK dt = true) : printable dt = true := by
  cases dt <;> first | rfl | simp [typeOK] at h

/-- the data-type mini language: what the printer writes, `build_data_type` reads back -/
theorem buildDataType_showType (esc : Char → Bool) (dt : DataType) (h : typeOK dt = true) :
    buildDataType (showType esc dt) (childList dt) = .ok dt := by
  have := fromStr_showType esc dt (typeOK_printable dt h)
  simp only [Term.fromStr] at this
  simp only [buildDataType, buildDataTypeWith, this, bind, Except.bind]
  exact buildDataTypeOfTerm_typeTerm dt h

end SaModel.SchemaJson
