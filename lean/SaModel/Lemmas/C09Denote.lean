import SaModel.Spec.SchemaDenote
import SaModel.Lemmas.C09SoundField
/-
C09: the reader computes exactly the denotation of `Spec/SchemaDenote.lean`:
`(parseSchema j).toOption = denoteSchema j` for every JSON value.
-/
namespace SaModel.SchemaJson
open SaModel SaModel.Dsl

theorem toOption_bind {α β} (x : R α) (f : α → R β) :
    (x >>= f).toOption = x.toOption.bind fun a => (f a).toOption := by
  cases x <;> rfl

theorem getName_toOption (a : Option JVal) : (getName a).toOption = strOf a := by
  rcases a with _ | (_|_|_|_|_|_) <;> rfl

theorem getDataType_toOption (a : Option JVal) : (getDataType a).toOption = (strOf a).map (·.toList) := by
  rcases a with _ | (_|_|_|_|_|_) <;> rfl

theorem getNullable_toOption (a : Option JVal) : (getNullable a).toOption = nullableDenotes a := by
  rcases a with _ | (_|_|_|_|_|_) <;> rfl

theorem parseStrategyOpt_toOption (a : Option JVal) : (parseStrategyOpt a).toOption = strategyDenotes a := by
  rcases a with _ | (_|_|_|s|_|_) <;> try rfl
  simp only [parseStrategyOpt, strategyDenotes, Strategy.parse]
  repeat' split
  all_goals rfl

theorem metaOfObj_toOption : (o : JObj) → (metaOfObj o).toOption = (objStrings o).map canonMeta
  | .nil => rfl
  | .cons k (.str v) r => by
    have ih := metaOfObj_toOption r
    unfold metaOfObj objStrings
    cases hm : metaOfObj r with
    | error e =>
      simp only [hm, Except.toOption] at ih
      cases ho : objStrings r with
      | none => rfl
      | some l => simp [ho] at ih
    | ok m =>
      simp only [hm, Except.toOption] at ih
      cases ho : objStrings r with
      | none => simp [ho] at ih
      | some l =>
        simp only [ho, Option.map_some, Option.some.injEq] at ih
        subst ih
        rfl
  | .cons _ .null _ | .cons _ (.bool _) _ | .cons _ (.num _) _ | .cons _ (.arr _) _ | .cons _ (.obj _) _ => rfl

theorem getMetadata_toOption (a : Option JVal) : (getMetadata a).toOption = metadataDenotes a := by
  rcases a with _ | (_|_|_|_|_|m) <;> try rfl
  exact metaOfObj_toOption m

theorem metadataDenotes_sorted {a : Option JVal} {md : Metadata} (h : metadataDenotes a = some md) :
    sortedMeta md = true := by
  rw [← getMetadata_toOption] at h
  cases hg : getMetadata a with
  | error e => simp [hg, Except.toOption] at h
  | ok m =>
    simp only [hg, Except.toOption, Option.some.injEq] at h
    subst h
    unfold getMetadata at hg
    split at hg
    · cases hg; rfl
    · exact metaOfObj_sorted _ _ hg
    · cases hg

theorem merge_eq (md : Metadata) (strat : Option Strategy) :
    mergeStrategyWithMetadata md strat =
      if hasKey md STRATEGY_KEY && strat.isSome then
        fail "Duplicate strategy: metadata map contains SERDE_ARROW:strategy and strategy given"
      else .ok (withStrategy md strat) := by
  unfold mergeStrategyWithMetadata
  split
  · rfl
  · cases strat <;> rfl

/-- `into_field` against the specification, for children in `SchemaOK` and HashMap metadata -/
theorem intoField_denote (name ty : String) (nl : Bool) (strat : Option Strategy) (cs : List Field) (md : Metadata)
    (hc : ∀ c ∈ cs, SchemaOK c) :
    (intoField false name ty.toList nl strat cs md).toOption = fieldDenotes name ty nl strat md cs := by
  unfold intoField fieldDenotes readType buildDataType
  rw [merge_eq]
  cases hb : buildDataTypeWith false ty.toList cs with
  | error e =>
    simp only [bind, Except.bind, Except.toOption]
    split <;> rfl
  | ok dt =>
    by_cases hd : (hasKey md STRATEGY_KEY && strat.isSome) = true
    · simp only [hd, if_true, bind, Except.bind, fail, Except.toOption]
    · simp only [hd, if_false, bind, Except.bind, Bool.false_eq_true]
      unfold buildDataTypeWith at hb
      obtain ⟨t, _, hdt⟩ := bind_ok_inv hb
      have hbuilt := buildDataTypeOfTerm_built t cs dt hdt
      obtain ⟨h1, _⟩ := side_repr_of_built hbuilt hc nl
      have hiff := validate_iff_valid (.mk name dt (normNullable dt nl) (withStrategy md strat))
        (by simpa [rangeField] using h1)
      cases hv : validateField (.mk name dt (normNullable dt nl) (withStrategy md strat)) with
      | ok u =>
        have := hiff.mp hv
        simp [this, Except.toOption, pure, Except.pure]
      | error e =>
        have : validField (.mk name dt (normNullable dt nl) (withStrategy md strat)) = false := by
          cases hvf : validField (.mk name dt (normNullable dt nl) (withStrategy md strat)) with
          | false => rfl
          | true => rw [hiff.mpr hvf] at hv; cases hv
        simp [this, Except.toOption]

theorem ok_of_toOption {α} {x : R α} {a : α} (h : x.toOption = some a) : x = .ok a := by
  cases x with
  | error e => cases h
  | ok b => cases h; rfl

mutual
theorem parseField_denote : (j : JVal) → (parseFieldWith false j).toOption = denoteField j
  | .obj o => by
    have ihc := parseChildren_denote o
    rw [parseFieldWith_obj]
    unfold denoteField dupKeys
    by_cases hd : (knownKeys.any fun k => decide (o.count k > 1)) = true
    · rw [if_pos hd, if_pos hd]; rfl
    · rw [if_neg hd, if_neg hd]
      rw [toOption_bind, getName_toOption]
      cases strOf (o.get? "name") with
      | none => rfl
      | some name =>
        simp only [Option.bind_some]
        rw [toOption_bind, getDataType_toOption]
        cases strOf (o.get? "data_type") with
        | none => rfl
        | some ty =>
          simp only [Option.map_some, Option.bind_some]
          rw [toOption_bind, getNullable_toOption]
          cases nullableDenotes (o.get? "nullable") with
          | none => rfl
          | some nl =>
            simp only [Option.bind_some]
            rw [toOption_bind, parseStrategyOpt_toOption]
            cases strategyDenotes (o.get? "strategy") with
            | none => rfl
            | some strat =>
              simp only [Option.bind_some]
              rw [toOption_bind, getMetadata_toOption]
              cases metadataDenotes (o.get? "metadata") with
              | none => rfl
              | some md =>
                simp only [Option.bind_some]
                rw [toOption_bind, ihc]
                cases hch : denoteChildren o with
                | none => rfl
                | some cs =>
                  simp only [Option.bind_some]
                  rw [hch] at ihc
                  have hc := parseChildren_sound false o cs (ok_of_toOption ihc)
                  exact intoField_denote name ty nl strat cs md hc
  | .null | .bool _ | .num _ | .str _ | .arr _ => rfl
theorem parseChildren_denote : (o : JObj) → (parseChildrenWith false o).toOption = denoteChildren o
  | .nil => rfl
  | .cons k v r => by
    unfold parseChildrenWith denoteChildren
    split
    · match v with
      | .arr vs => exact parseFieldList_denote vs
      | .null | .bool _ | .num _ | .str _ | .obj _ => rfl
    · exact parseChildren_denote r
theorem parseFieldList_denote : (vs : JVals) → (parseFieldListWith false vs).toOption = denoteList vs
  | .nil => rfl
  | .cons v r => by
    unfold parseFieldListWith denoteList
    rw [toOption_bind, parseField_denote v]
    cases denoteField v with
    | none => rfl
    | some f =>
      simp only [Option.bind_some]
      rw [toOption_bind, parseFieldList_denote r]
      cases denoteList r <;> rfl
end

theorem parseFieldsKey_denote : (o : JObj) → (parseFieldsKeyWith false o).toOption = denoteFieldsKey o
  | .nil => rfl
  | .cons k v r => by
    unfold parseFieldsKeyWith denoteFieldsKey
    split
    · match v with
      | .arr vs =>
        show ((parseFieldListWith false vs >>= fun fs => parseFieldsKeyWith false r >>= fun later =>
          pure (some (later.getD fs))) : R _).toOption =
          (denoteList vs).bind fun fs => (denoteFieldsKey r).bind fun later => some (some (later.getD fs))
        rw [toOption_bind, parseFieldList_denote vs]
        cases denoteList vs with
        | none => rfl
        | some fs =>
          simp only [Option.bind_some]
          rw [toOption_bind, parseFieldsKey_denote r]
          cases denoteFieldsKey r <;> rfl
      | .null | .bool _ | .num _ | .str _ | .obj _ => rfl
    · exact parseFieldsKey_denote r

/-- the reader computes the denotation -/
theorem parseSchema_denote (j : JVal) : (parseSchemaWith false j).toOption = denoteSchema j := by
  cases j with
  | arr vs => exact parseFieldList_denote vs
  | obj o =>
    show ((parseFieldsKeyWith false o >>= fun r => match r with
      | some fs => pure fs
      | none => fail "missing field `fields`") : R (List Field)).toOption = (denoteFieldsKey o).bind id
    rw [toOption_bind, parseFieldsKey_denote o]
    cases denoteFieldsKey o with
    | none => rfl
    | some r => cases r <;> rfl
  | null => rfl
  | bool _ => rfl
  | num _ => rfl
  | str _ => rfl

end SaModel.SchemaJson
