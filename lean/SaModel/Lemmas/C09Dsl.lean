import SaModel.Codec.Dsl
/-
Helper lemmas for C09 about the term language: the scanner undoes `{:?}`, integers read back, and
`parseTerm (showTerm t ++ rest) = (t, rest)` for every well-formed term.
-/
namespace SaModel.Dsl

/-! ## characters -/

theorem trimStart_cons_of_not_ws {c : Char} {r : Text} (h : isWhitespace c = false) :
    trimStart (c :: r) = c :: r := by
  simp [trimStart, h]

theorem char_eq_of_toNat {c : Char} {n : Nat} (h : c.toNat = n) : c = Char.ofNat n := by
  rw [← h, Char.ofNat_toNat]

theorem isAlphanum_false_of_ge {c : Char} (hge : c.toNat ≥ 128) : c.isAlphanum = false := by
  have h1 : c.val.toNat ≥ 128 := hge
  simp only [Char.isAlphanum, Char.isAlpha, Char.isUpper, Char.isLower, Char.isDigit, Bool.or_eq_false_iff,
    Bool.and_eq_false_iff, decide_eq_false_iff_not, UInt32.le_iff_toNat_le]
  simp
  omega

theorem identChar_not_ws {c : Char} (h : isIdentChar c = true) : isWhitespace c = false := by
  cases hw : isWhitespace c with
  | false => rfl
  | true =>
    exfalso
    have hlt : c.toNat < 128 ∨ c.toNat ≥ 128 := by omega
    rcases hlt with hlt | hge
    · -- ASCII white space: 9..13, 32
      have hc : c.toNat = 9 ∨ c.toNat = 10 ∨ c.toNat = 11 ∨ c.toNat = 12 ∨ c.toNat = 13 ∨ c.toNat = 32 := by
        simp only [isWhitespace, Bool.or_eq_true, Bool.and_eq_true, decide_eq_true_eq, beq_iff_eq] at hw
        omega
      rcases hc with h' | h' | h' | h' | h' | h' <;> (have := char_eq_of_toNat h'; subst this; revert h; decide)
    · have hna := isAlphanum_false_of_ge hge
      have h1 : c ≠ '-' := by intro h; subst h; revert hge; decide
      have h2 : c ≠ '+' := by intro h; subst h; revert hge; decide
      simp [isIdentChar, isAlphanumeric, hna, hw, h1, h2] at h

theorem spanIdent_append (a rest : Text) (ha : ∀ c ∈ a, isIdentChar c = true)
    (hr : ∀ c r, rest = c :: r → isIdentChar c = false) : spanIdent (a ++ rest) = (a, rest) := by
  induction a with
  | nil =>
    cases rest with
    | nil => rfl
    | cons c r => simp [spanIdent, hr c r rfl]
  | cons c a ih =>
    have hc := ha c (by simp)
    have := ih (fun x hx => ha x (by simp [hx]))
    simp [spanIdent, hc, this]

/-! ## hexadecimal escapes -/

def hexFold (code : Nat) (ds : Text) : Nat := ds.foldl (fun a c => a * 16 + (hexVal c).getD 0) code

def IsHexDigit (c : Char) : Prop := ∃ m, m < 16 ∧ c = Nat.digitChar m

theorem hexVal_digitChar {m : Nat} (h : m < 16) : hexVal (Nat.digitChar m) = some m := by
  have : m = 0 ∨ m = 1 ∨ m = 2 ∨ m = 3 ∨ m = 4 ∨ m = 5 ∨ m = 6 ∨ m = 7 ∨ m = 8 ∨ m = 9 ∨ m = 10 ∨ m = 11 ∨
      m = 12 ∨ m = 13 ∨ m = 14 ∨ m = 15 := by omega
  rcases this with h | h | h | h | h | h | h | h | h | h | h | h | h | h | h | h <;> subst h <;> decide

theorem digitChar_ne_brace {m : Nat} (h : m < 16) : Nat.digitChar m ≠ '}' := by
  have : m = 0 ∨ m = 1 ∨ m = 2 ∨ m = 3 ∨ m = 4 ∨ m = 5 ∨ m = 6 ∨ m = 7 ∨ m = 8 ∨ m = 9 ∨ m = 10 ∨ m = 11 ∨
      m = 12 ∨ m = 13 ∨ m = 14 ∨ m = 15 := by omega
  rcases this with h | h | h | h | h | h | h | h | h | h | h | h | h | h | h | h <;> subst h <;> decide

theorem hexDigits_spec (n : Nat) : (∀ c ∈ hexDigits n, IsHexDigit c) ∧ hexFold 0 (hexDigits n) = n := by
  induction n using Nat.strongRecOn with
  | _ n ih =>
    unfold hexDigits
    rw [Nat.toDigits_eq_if (by decide)]
    split
    · rename_i h
      refine ⟨?_, ?_⟩
      · intro c hc
        simp at hc
        exact ⟨n, h, hc⟩
      · simp [hexFold, hexVal_digitChar h]
    · rename_i h
      have hlt : n / 16 < n := Nat.div_lt_self (by omega) (by decide)
      obtain ⟨ih1, ih2⟩ := ih (n / 16) hlt
      refine ⟨?_, ?_⟩
      · intro c hc
        simp only [List.mem_append, List.mem_singleton] at hc
        rcases hc with hc | hc
        · exact ih1 c hc
        · exact ⟨n % 16, Nat.mod_lt _ (by decide), hc⟩
      · have h2 : hexFold 0 (Nat.toDigits 16 (n / 16)) = n / 16 := ih2
        simp only [hexFold, List.foldl_append, List.foldl_cons, List.foldl_nil] at h2 ⊢
        rw [h2, hexVal_digitChar (Nat.mod_lt _ (by decide))]
        simp only [Option.getD_some]
        omega

theorem hexDigits_length (n : Nat) (h : n < 16 ^ 6) : 0 < (hexDigits n).length ∧ (hexDigits n).length ≤ 6 := by
  refine ⟨Nat.length_toDigits_pos, ?_⟩
  exact (Nat.length_toDigits_le_iff (by decide) (by decide)).2 h

theorem charOfNat?_toNat (c : Char) : charOfNat? c.toNat = some c := by
  have h : c.toNat.isValidChar := c.valid
  simp [charOfNat?, h, Char.ofNat_toNat]

theorem char_toNat_lt (c : Char) : c.toNat < 16 ^ 6 := by
  have h : c.toNat.isValidChar := c.valid
  simp only [Nat.isValidChar] at h
  omega

theorem scanQuoted_hex (ds : Text) : ∀ (code d : Nat) (r : Text), (∀ c ∈ ds, IsHexDigit c) → d + ds.length ≤ 6 →
    0 < d + ds.length →
    scanQuoted (.uHex code d) (ds ++ '}' :: r) =
      finishUnicode (hexFold code ds) (scanQuoted .normal r) := by
  induction ds with
  | nil =>
    intro code d r _ _ hpos
    have : 0 < d := by simpa using hpos
    simp [scanQuoted, this, hexFold]
  | cons c cs ih =>
    intro code d r hhex hlen hpos
    obtain ⟨m, hm, rfl⟩ := hhex c (by simp)
    have hne := digitChar_ne_brace hm
    have hd : d < 6 := by simp at hlen; omega
    have := ih (code * 16 + m) (d + 1) r (fun x hx => hhex x (by simp [hx])) (by simp at hlen ⊢; omega) (by omega)
    simp only [List.cons_append, scanQuoted, hne, false_and, ↓reduceIte, hd, hexVal_digitChar hm, this]
    simp [hexFold, hexVal_digitChar hm]

/-! ## the scanner undoes `{:?}` -/

theorem scanQuoted_escapeStr (esc : Char → Bool) (s rest : Text) :
    scanQuoted .normal (escapeStr esc s ++ '"' :: rest) = .ok (s, rest) := by
  induction s with
  | nil => simp [escapeStr, scanQuoted]; rfl
  | cons c s ih =>
    simp only [escapeStr, escapeChar]
    split
    · subst_vars; simp [scanQuoted, ih]; rfl
    split
    · subst_vars; simp [scanQuoted, ih]; rfl
    split
    · subst_vars; simp [scanQuoted, ih]; rfl
    split
    · subst_vars; simp [scanQuoted, ih]; rfl
    split
    · subst_vars; simp [scanQuoted, ih]; rfl
    split
    · subst_vars; simp [scanQuoted, ih]; rfl
    split
    · -- unicode escape
      have hs := hexDigits_spec c.toNat
      have hl := hexDigits_length c.toNat (char_toNat_lt c)
      have := scanQuoted_hex (hexDigits c.toNat) 0 0 (escapeStr esc s ++ '"' :: rest) hs.1 (by omega) (by omega)
      simp only [List.cons_append, List.append_assoc, List.nil_append, scanQuoted] at this ⊢
      simp only [↓reduceIte, Char.reduceEq]
      rw [this, hs.2, ih]
      simp [finishUnicode, charOfNat?_toNat, pushChar]
    · rename_i h1 h2 h3 h4 h5 h6 h7
      simp [scanQuoted, h5, h6, ih]
      rfl

/-! ## integers -/

theorem toDigits_all_isDigit (n : Nat) : (Nat.toDigits 10 n).all Char.isDigit = true := by
  simp only [List.all_eq_true]
  intro c hc
  exact Nat.isDigit_of_mem_toDigits (by decide) (by decide) hc

theorem parseDigits_toDigits (n : Nat) : parseDigits (Nat.toDigits 10 n) = .ok n := by
  simp [parseDigits, Nat.toDigits_ne_nil, toDigits_all_isDigit]
  rfl

theorem toDigits_head_isDigit (n : Nat) : ∃ c r, Nat.toDigits 10 n = c :: r ∧ c.isDigit = true := by
  cases h : Nat.toDigits 10 n with
  | nil => exact absurd h Nat.toDigits_ne_nil
  | cons c r =>
    refine ⟨c, r, rfl, ?_⟩
    exact Nat.isDigit_of_mem_toDigits (b := 10) (n := n) (by decide) (by decide) (by simp [h])

theorem parseIntLit_showInt (signed : Bool) (lo hi n : Int) (h : lo ≤ n ∧ n ≤ hi) (hs : n < 0 → signed = true) :
    parseIntLit signed lo hi (showInt n) = .ok n := by
  unfold showInt
  split
  · rename_i hn
    have hsg := hs hn
    have hp : startsWith '+' ('-' :: Nat.toDigits 10 n.natAbs) = false := by simp [startsWith]
    have hm : startsWith '-' ('-' :: Nat.toDigits 10 n.natAbs) = true := by simp [startsWith]
    have hv : -(Int.ofNat n.natAbs) = n := by simp; omega
    simp only [parseIntLit, hp, hm, hsg, List.tail_cons, parseDigits_toDigits, ↓reduceIte, Bool.false_eq_true,
      bind, Except.bind, pure, Except.pure, hv, h, and_self]
  · rename_i hn
    obtain ⟨c, r, hcr, hd⟩ := toDigits_head_isDigit n.toNat
    have hp : startsWith '+' (Nat.toDigits 10 n.toNat) = false := by
      rw [hcr]; simp only [startsWith, decide_eq_false_iff_not]; intro hc; subst hc; revert hd; decide
    have hm : startsWith '-' (Nat.toDigits 10 n.toNat) = false := by
      rw [hcr]; simp only [startsWith, decide_eq_false_iff_not]; intro hc; subst hc; revert hd; decide
    have hv : Int.ofNat n.toNat = n := by simp; omega
    simp only [parseIntLit, hp, hm, parseDigits_toDigits, ↓reduceIte, Bool.false_eq_true,
      bind, Except.bind, pure, Except.pure, hv, h, and_self]

theorem showInt_ident (n : Int) : showInt n ≠ [] ∧ ∀ c ∈ showInt n, isIdentChar c = true := by
  have hdig : ∀ m, ∀ c ∈ Nat.toDigits 10 m, isIdentChar c = true := by
    intro m c hc
    have : c.isDigit = true := Nat.isDigit_of_mem_toDigits (by decide) (by decide) hc
    simp [isIdentChar, isAlphanumeric, Char.isAlphanum, this]
  unfold showInt
  split
  · refine ⟨by simp, ?_⟩
    intro c hc
    simp only [List.mem_cons] at hc
    rcases hc with rfl | hc
    · decide
    · exact hdig _ c hc
  · exact ⟨Nat.toDigits_ne_nil, hdig _⟩

end SaModel.Dsl
