import SaModel.Lemmas.C09Valid
/-
C09: `validate_field` (after `fix: validate_map_field validates the entries field itself`) accepts a field only if the
entries struct of every map inside it, at any depth, carries a strategy a struct admits or none (`entriesField`,
`Spec/SchemaSide.lean`).  No side condition: nothing here depends on the range of the numeric parameters.
-/
namespace SaModel.SchemaJson
open SaModel SaModel.Dsl

/-- what `validate_struct_field` asks of the field itself, and that it goes on to the children -/
theorem struct_of_validate {m : Metadata} {fs : Fields} (h : validateDataType m (.struct fs) = .ok ()) :
    structStrat m = true ∧ validateFields fs = .ok () := by
  simp only [validateDataType] at h
  cases hg : getStrategyFromMetadata m with
  | error e => simp [hg, bind, Except.bind] at h
  | ok o =>
    have hc := getStrategy_ok hg
    cases o with
    | none =>
      simp only [hg, bind, Except.bind] at h
      exact ⟨by simp [structStrat, hc], h⟩
    | some st =>
      cases st <;> simp only [hg, bind, Except.bind, fail] at h <;>
        first
          | (cases h; done)
          | exact ⟨by simp [structStrat, hc], h⟩

mutual
theorem entriesField_of_validate : (f : Field) → validateField f = .ok () → entriesField f = true
  | .mk _ dt _ m, h => by
    simp only [validateField] at h
    simp only [entriesField]
    exact entriesType_of_validate m dt h
theorem entriesType_of_validate (m : Metadata) : (dt : DataType) → validateDataType m dt = .ok () → entriesType dt = true
  | .struct fs, h => by
    simp only [entriesType]
    exact entriesFields_of_validate fs (struct_of_validate h).2
  | .list f, h => by
    simp only [validateDataType] at h
    simp only [entriesType]
    exact entriesField_of_validate f (bind_unit_ok h).2
  | .largeList f, h => by
    simp only [validateDataType] at h
    simp only [entriesType]
    exact entriesField_of_validate f (bind_unit_ok h).2
  | .fixedSizeList f n, h => by
    simp only [validateDataType] at h
    simp only [entriesType]
    split at h
    · cases h
    · exact entriesField_of_validate f (bind_unit_ok h).2
  | .map e sorted, h => by
    simp only [validateDataType] at h
    have h2 := (bind_unit_ok h).2
    simp only [entriesType, Bool.and_eq_true]
    split at h2
    · rename_i en kf vf enl em
      refine ⟨?_, entriesField_of_validate _ h2⟩
      simp only [validateField] at h2
      simpa [entryStrat] using (struct_of_validate h2).1
    · cases h2
  | .union us mode, h => by
    simp only [validateDataType] at h
    simp only [entriesType]
    exact entriesUFields_of_validate us (bind_unit_ok h).2
  | .null, _ | .boolean, _ | .int8, _ | .int16, _ | .int32, _ | .int64, _ | .uint8, _ | .uint16, _ | .uint32, _
  | .uint64, _ | .float16, _ | .float32, _ | .float64, _ | .utf8, _ | .largeUtf8, _ | .utf8View, _ | .binary, _
  | .largeBinary, _ | .binaryView, _ | .fixedSizeBinary _, _ | .date32, _ | .date64, _ | .timestamp _ _, _
  | .time32 _, _ | .time64 _, _ | .duration _, _ | .interval _, _ | .decimal128 _ _, _ | .dictionary _ _, _
  | .runEndEncoded _ _, _ => rfl
theorem entriesFields_of_validate : (fs : Fields) → validateFields fs = .ok () → entriesFields fs = true
  | .nil, _ => rfl
  | .cons f r, h => by
    simp only [validateFields] at h
    obtain ⟨h1, h2⟩ := bind_unit_ok h
    simp [entriesFields, entriesField_of_validate f h1, entriesFields_of_validate r h2]
theorem entriesUFields_of_validate : (us : UFields) → validateUFields us = .ok () → entriesUFields us = true
  | .nil, _ => rfl
  | .cons _ f r, h => by
    simp only [validateUFields] at h
    obtain ⟨h1, h2⟩ := bind_unit_ok h
    simp [entriesUFields, entriesField_of_validate f h1, entriesUFields_of_validate r h2]
end

/-! ## the repair changes nothing else: on fields whose map entries are annotated like structs the pinned and the
repaired `validate_field` are the same function (same outcome, same error) -/

theorem bind_pure_unit (y : R Unit) : (y >>= fun _ => (pure () : R Unit)) = y := by
  cases y <;> rfl

/-- the strategy test of `validate_struct_field` passes on a strategy a struct admits -/
theorem structCheck_of_structStrat {m : Metadata} (h : structStrat m = true) :
    ∃ o, getStrategyFromMetadata m = .ok o ∧ (o = none ∨ o = some .mapAsStruct ∨ o = some .tupleAsStruct) := by
  simp only [structStrat, Bool.or_eq_true, decide_eq_true_eq] at h
  rcases h with (h | h) | h
  · exact ⟨_, getStrategy_absent h, Or.inl rfl⟩
  · exact ⟨_, getStrategy_known h, Or.inr (Or.inl rfl)⟩
  · exact ⟨_, getStrategy_known h, Or.inr (Or.inr rfl)⟩

/-- the `Map` arm: given that the entries field carries a struct's strategy or none, validating the key and the value
field (pinned) is validating the entries field as a struct field (repaired) -/
theorem validateMapPinned_eq (m : Metadata) (e : Field) (sorted : Bool) (hs : entryStrat e = true)
    (ih : validateFieldPinned e = validateField e) :
    validateDataTypePinned m (.map e sorted) = validateDataType m (.map e sorted) := by
  obtain ⟨en, edt, enl, em⟩ := e
  cases edt with
  | struct fs =>
    cases fs with
    | nil => simp only [validateDataTypePinned, validateDataType]
    | cons kf r =>
      cases r with
      | nil => simp only [validateDataTypePinned, validateDataType]
      | cons vf r2 =>
        cases r2 with
        | cons _ _ => simp only [validateDataTypePinned, validateDataType]
        | nil =>
          simp only [entryStrat] at hs
          obtain ⟨o, ho, hc⟩ := structCheck_of_structStrat hs
          rw [validateDataTypePinned.eq_def, validateDataType.eq_def]
          simp only []
          rw [← ih]
          simp only [validateFieldPinned, validateDataTypePinned, validateFieldsPinned, ho]
          rcases hc with rfl | rfl | rfl <;>
            simp only [bind, Except.bind] <;>
            (congr 1; funext _; congr 1; funext _; exact (bind_pure_unit _).symm)
  | _ => simp only [validateDataTypePinned, validateDataType]

mutual
theorem validateFieldPinned_eq : (f : Field) → entriesField f = true → validateFieldPinned f = validateField f
  | .mk _ dt _ m, he => by
    simp only [entriesField] at he
    simp only [validateFieldPinned, validateField]
    exact validateDataTypePinned_eq m dt he
theorem validateDataTypePinned_eq (m : Metadata) : (dt : DataType) → entriesType dt = true →
    validateDataTypePinned m dt = validateDataType m dt
  | .struct fs, he => by
    simp only [entriesType] at he
    simp only [validateDataTypePinned, validateDataType, validateFieldsPinned_eq fs he]
  | .list f, he => by
    simp only [entriesType] at he
    simp only [validateDataTypePinned, validateDataType, validateFieldPinned_eq f he]
  | .largeList f, he => by
    simp only [entriesType] at he
    simp only [validateDataTypePinned, validateDataType, validateFieldPinned_eq f he]
  | .fixedSizeList f n, he => by
    simp only [entriesType] at he
    simp only [validateDataTypePinned, validateDataType, validateFieldPinned_eq f he]
  | .union us mode, he => by
    simp only [entriesType] at he
    simp only [validateDataTypePinned, validateDataType, validateUFieldsPinned_eq us he]
  | .map e sorted, he => by
    simp only [entriesType, Bool.and_eq_true] at he
    exact validateMapPinned_eq m e sorted he.1 (validateFieldPinned_eq e he.2)
  | .null, _ | .boolean, _ | .int8, _ | .int16, _ | .int32, _ | .int64, _ | .uint8, _ | .uint16, _ | .uint32, _
  | .uint64, _ | .float16, _ | .float32, _ | .float64, _ | .utf8, _ | .largeUtf8, _ | .utf8View, _ | .binary, _
  | .largeBinary, _ | .binaryView, _ | .fixedSizeBinary _, _ | .date32, _ | .date64, _ | .timestamp _ _, _
  | .time32 _, _ | .time64 _, _ | .duration _, _ | .interval _, _ | .decimal128 _ _, _ | .dictionary _ _, _
  | .runEndEncoded _ _, _ => by simp only [validateDataTypePinned, validateDataType]
theorem validateFieldsPinned_eq : (fs : Fields) → entriesFields fs = true → validateFieldsPinned fs = validateFields fs
  | .nil, _ => rfl
  | .cons f r, he => by
    simp only [entriesFields, Bool.and_eq_true] at he
    simp only [validateFieldsPinned, validateFields, validateFieldPinned_eq f he.1, validateFieldsPinned_eq r he.2]
theorem validateUFieldsPinned_eq : (us : UFields) → entriesUFields us = true →
    validateUFieldsPinned us = validateUFields us
  | .nil, _ => rfl
  | .cons _ f r, he => by
    simp only [entriesUFields, Bool.and_eq_true] at he
    simp only [validateUFieldsPinned, validateUFields, validateFieldPinned_eq f he.1, validateUFieldsPinned_eq r he.2]
end

end SaModel.SchemaJson
