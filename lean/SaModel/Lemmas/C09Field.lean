import SaModel.Lemmas.C09Json
/-
C09, field level: the printed field object read back, given that the children read back.
-/
namespace SaModel.SchemaJson
open SaModel SaModel.Dsl

/-! ## metadata -/

theorem get?_insertMeta (k v : String) : (m : Metadata) → (k' : String) →
    Metadata.get? (insertMeta k v m) k' = if k = k' then some v else Metadata.get? m k'
  | [], k' => by simp [insertMeta, Metadata.get?]
  | (k0, v0) :: r, k' => by
    simp only [insertMeta]
    split
    · simp [Metadata.get?]
    split
    · rename_i h1 h2
      subst h2
      by_cases hk : k = k' <;> simp [Metadata.get?, hk]
    · rename_i h1 h2
      have ih := get?_insertMeta k v r k'
      by_cases hk : k = k'
      · subst hk
        have : ¬ k0 = k := fun h => h2 h.symm
        simp [Metadata.get?, ih, this]
      · simp [Metadata.get?, ih, hk]

theorem get?_canonMeta_none (k : String) : (l : Metadata) → (∀ kv ∈ l, kv.1 ≠ k) → Metadata.get? (canonMeta l) k = none
  | [], _ => rfl
  | (k0, v0) :: r, h => by
    have ih := get?_canonMeta_none k r (fun kv hkv => h kv (by simp [hkv]))
    have h0 : k0 ≠ k := h (k0, v0) (by simp)
    simp only [canonMeta]
    split
    · exact ih
    · simp [get?_insertMeta, h0, ih]

theorem metaOfObj_metaObj : (l : Metadata) → metaOfObj (metaObj l) = .ok (canonMeta l)
  | [] => rfl
  | (k, v) :: r => by
    simp [metaObj, metaOfObj, metaOfObj_metaObj r, canonMeta, bind, Except.bind, pure, Except.pure]

theorem nonStrategy_no_key (m : Metadata) : ∀ kv ∈ nonStrategy m, kv.1 ≠ STRATEGY_KEY := by
  intro kv h
  simp only [nonStrategy, List.mem_filter, decide_eq_true_eq] at h
  exact h.2

/-- splitting the strategy out of the metadata and merging it back in -/
theorem merge_split (m : Metadata) (hm : metaOK m = true) (hs : stratClass m ≠ .junk) :
    ∃ strategy : Option Strategy,
      parseStrategyOpt ((Metadata.get? m STRATEGY_KEY).map .str) = .ok strategy ∧
      mergeStrategyWithMetadata (canonMeta (nonStrategy m)) strategy = .ok m := by
  have hno : hasKey (canonMeta (nonStrategy m)) STRATEGY_KEY = false := by
    simp [hasKey, get?_canonMeta_none STRATEGY_KEY (nonStrategy m) (nonStrategy_no_key m)]
  have hm := of_decide_eq_true hm
  simp only [metaRT] at hm
  cases hc : stratClass m with
  | junk => exact absurd hc hs
  | absent =>
    have hg := get_of_stratClass_absent hc
    simp only [hg] at hm ⊢
    exact ⟨none, rfl, by simp [mergeStrategyWithMetadata, hm]; rfl⟩
  | known st =>
    obtain ⟨s, hg, hp, hts⟩ := parse_of_stratClass_known hc
    simp only [hg] at hm ⊢
    refine ⟨some st, by simp [parseStrategyOpt, hp, bind, Except.bind]; rfl, ?_⟩
    simp [mergeStrategyWithMetadata, hno, hts, hm]; rfl

/-! ## the printed field object -/

theorem parseField_fieldObj (name : String) (dts : Text) (nullable : Bool) (nsm : Metadata) (strat : Option String)
    (children : Option JVals) :
    parseFieldWith false (.obj (fieldObj name dts nullable nsm strat children)) =
      (do let strategy ← parseStrategyOpt (strat.map .str)
          let metadata ← metaOfObj (metaObj nsm)
          let children ← parseChildrenOpt children
          intoField false name dts nullable strategy children metadata) := by
  cases nullable <;> cases nsm <;> cases strat <;> cases children <;>
    simp [fieldObj, consIf, consOpt, parseFieldWith, parseChildrenWith, JObj.get?, JObj.count, knownKeys, metaObj, metaOfObj,
      parseChildrenOpt, bind, Except.bind, pure, Except.pure] <;>
    first
      | rfl
      | (rename_i s; cases parseStrategyOpt (some (.str s)) <;> rfl)
      | (rename_i s cs; cases parseStrategyOpt (some (.str s)) <;> rfl)

theorem typeOK_of_valid_repr (m : Metadata) (nl : Bool) (dt : DataType) (hv : validType m dt = true)
    (hr : reprType nl dt = true) : typeOK dt = true := by
  cases dt <;> simp_all [validType, reprType, typeOK, i32Max] <;> omega

theorem null_norm (dt : DataType) (nullable : Bool) (h : reprType nullable dt = true) :
    normNullable dt nullable = nullable := by
  cases dt <;> first | rfl | (simp only [reprType] at h; simp [h, normNullable])

/-- one field, given that its printed children read back as `childList` -/
theorem field_core (esc : Char → Bool) (name : String) (dt : DataType) (nullable : Bool) (m : Metadata)
    (hv : validField (.mk name dt nullable m) = true) (hr : reprField (.mk name dt nullable m) = true)
    (hch : parseChildrenOpt (printChildren esc dt) = .ok (childList dt)) :
    parseField (printField esc (.mk name dt nullable m)) = .ok (.mk name dt nullable m) := by
  have hval := validateField_of_valid _ hv
  simp only [validField] at hv
  simp only [reprField, Bool.and_eq_true] at hr
  obtain ⟨hm, hrt⟩ := hr
  have hbuild := buildDataType_showType esc dt (typeOK_of_valid_repr m nullable dt hv hrt)
  obtain ⟨strategy, hstr, hmerge⟩ := merge_split m hm (valid_strat_not_junk m dt hv)
  have hnull := null_norm dt nullable hrt
  unfold buildDataType at hbuild
  rw [parseField, printField, parseField_fieldObj, hstr, metaOfObj_metaObj, hch]
  simp only [bind, Except.bind, intoField, hbuild, hmerge, hnull, hval, pure, Except.pure]

end SaModel.SchemaJson
