import SaModel.Lemmas.C09Build
/-
C09, field level: lemmas about the printed field object, metadata split / merge and `validate_field`.
-/
namespace SaModel.SchemaJson
open SaModel SaModel.Dsl

/-! ## strategies -/

theorem parse_of_stratClass_known {m : Metadata} {st : Strategy} (h : stratClass m = .known st) :
    ∃ s, m.get? STRATEGY_KEY = some s ∧ Strategy.parse s = .ok st ∧ st.toString = s := by
  unfold stratClass at h
  cases hg : m.get? STRATEGY_KEY with
  | none => simp [hg] at h
  | some s =>
    refine ⟨s, rfl, ?_⟩
    simp only [hg] at h
    unfold Strategy.parse
    split at h
    · rename_i h1; cases h; simp [h1, Strategy.toString]; rfl
    split at h
    · rename_i h1 h2; cases h; simp [h2, Strategy.toString]; rfl
    split at h
    · rename_i h1 h2 h3; cases h; simp [h3, Strategy.toString]; rfl
    split at h
    · rename_i h1 h2 h3 h4; cases h; simp [h4, Strategy.toString]; rfl
    · cases h

theorem get_of_stratClass_absent {m : Metadata} (h : stratClass m = .absent) : m.get? STRATEGY_KEY = none := by
  unfold stratClass at h
  cases hg : m.get? STRATEGY_KEY with
  | none => rfl
  | some s =>
    simp only [hg] at h
    repeat (split at h <;> try cases h)

theorem getStrategy_absent {m : Metadata} (h : stratClass m = .absent) : getStrategyFromMetadata m = .ok none := by
  simp [getStrategyFromMetadata, get_of_stratClass_absent h]; rfl

theorem getStrategy_known {m : Metadata} {st : Strategy} (h : stratClass m = .known st) :
    getStrategyFromMetadata m = .ok (some st) := by
  obtain ⟨s, hg, hp, _⟩ := parse_of_stratClass_known h
  simp [getStrategyFromMetadata, hg, hp, bind, Except.bind]; rfl

theorem noStrategy_ok {m : Metadata} (h : noStrat m = true) : noStrategy m = .ok () := by
  simp only [noStrat, decide_eq_true_eq] at h
  simp [noStrategy, getStrategy_absent h, bind, Except.bind]; rfl

/-! ## `validate_field` accepts valid fields -/

mutual
theorem validateField_of_valid : (f : Field) → validField f = true → validateField f = .ok ()
  | .mk _ dt _ m, h => by
    simp only [validField] at h
    simp only [validateField]
    exact validateDataType_of_valid m dt h
theorem validateDataType_of_valid (m : Metadata) : (dt : DataType) → validType m dt = true → validateDataType m dt = .ok ()
  | .null, h => by
    simp only [validType, Bool.or_eq_true, decide_eq_true_eq] at h
    rcases h with (h | h) | h
    · simp [validateDataType, getStrategy_absent h, bind, Except.bind]; rfl
    · simp [validateDataType, getStrategy_known h, bind, Except.bind]; rfl
    · simp [validateDataType, getStrategy_known h, bind, Except.bind]; rfl
  | .struct fs, h => by
    simp only [validType, Bool.and_eq_true, Bool.or_eq_true, decide_eq_true_eq] at h
    have hf := validateFields_of_valid fs h.2
    rcases h.1 with (h | h) | h
    · simp [validateDataType, getStrategy_absent h, bind, Except.bind, hf]
    · simp [validateDataType, getStrategy_known h, bind, Except.bind, hf]
    · simp [validateDataType, getStrategy_known h, bind, Except.bind, hf]
  | .fixedSizeBinary n, h => by
    simp only [validType, Bool.and_eq_true, decide_eq_true_eq] at h
    have : ¬ n < 0 := by omega
    simp [validateDataType, this, noStrategy_ok h.1.1]
  | .time32 u, h => by
    simp only [validType, Bool.and_eq_true, Bool.or_eq_true, decide_eq_true_eq] at h
    rcases h.2 with rfl | rfl <;> simp [validateDataType, noStrategy_ok h.1, bind, Except.bind] <;> rfl
  | .time64 u, h => by
    simp only [validType, Bool.and_eq_true, Bool.or_eq_true, decide_eq_true_eq] at h
    rcases h.2 with rfl | rfl <;> simp [validateDataType, noStrategy_ok h.1, bind, Except.bind] <;> rfl
  | .decimal128 p s, h => by
    simp only [validType, Bool.and_eq_true] at h
    simp [validateDataType, noStrategy_ok h.1.1.1]
  | .list f, h => by
    simp only [validType, Bool.and_eq_true] at h
    simp [validateDataType, noStrategy_ok h.1, validateField_of_valid f h.2, bind, Except.bind]
  | .largeList f, h => by
    simp only [validType, Bool.and_eq_true] at h
    simp [validateDataType, noStrategy_ok h.1, validateField_of_valid f h.2, bind, Except.bind]
  | .fixedSizeList f n, h => by
    simp only [validType, Bool.and_eq_true, decide_eq_true_eq] at h
    have : ¬ n < 0 := by omega
    simp [validateDataType, this, noStrategy_ok h.1.1.1, validateField_of_valid f h.2, bind, Except.bind]
  | .map e sorted, h => by
    simp only [validType, Bool.and_eq_true] at h
    obtain ⟨⟨hs, h2⟩, h3⟩ := h
    match e, h2, h3 with
    | .mk en (.struct (.cons kf (.cons vf .nil))) enl em, _, h3 =>
      have he := validateField_of_valid (.mk en (.struct (.cons kf (.cons vf .nil))) enl em) h3
      simp [validateDataType, noStrategy_ok hs, bind, Except.bind, he]
  | .dictionary k v, h => by
    simp only [validType, Bool.and_eq_true] at h
    simp [validateDataType, noStrategy_ok h.1.1, h.1.2, h.2, bind, Except.bind]; rfl
  | .union us mode, h => by
    simp only [validType, Bool.and_eq_true] at h
    simp [validateDataType, noStrategy_ok h.1, validateUFields_of_valid us h.2, bind, Except.bind]
  | .interval _, h => by simp [validType] at h
  | .runEndEncoded _ _, h => by simp [validType] at h
  | .boolean, h | .int8, h | .int16, h | .int32, h | .int64, h | .uint8, h | .uint16, h | .uint32, h | .uint64, h
  | .float16, h | .float32, h | .float64, h | .utf8, h | .largeUtf8, h | .utf8View, h | .binary, h | .largeBinary, h
  | .binaryView, h | .date32, h | .date64, h | .timestamp _ _, h | .duration _, h => by
    simp only [validType] at h
    simp [validateDataType, noStrategy_ok h]
theorem validateFields_of_valid : (fs : Fields) → validFields fs = true → validateFields fs = .ok ()
  | .nil, _ => rfl
  | .cons f r, h => by
    simp only [validFields, Bool.and_eq_true] at h
    simp [validateFields, validateField_of_valid f h.1, validateFields_of_valid r h.2, bind, Except.bind]
theorem validateUFields_of_valid : (us : UFields) → validUFields us = true → validateUFields us = .ok ()
  | .nil, _ => rfl
  | .cons _ f r, h => by
    simp only [validUFields, Bool.and_eq_true] at h
    simp [validateUFields, validateField_of_valid f h.1, validateUFields_of_valid r h.2, bind, Except.bind]
end

theorem valid_strat_not_junk (m : Metadata) (dt : DataType) (h : validType m dt = true) : stratClass m ≠ .junk := by
  intro hj
  cases dt <;> simp [validType, noStrat, hj] at h

end SaModel.SchemaJson
