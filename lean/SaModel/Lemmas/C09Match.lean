-- written by tools/gen_c09_match.py (arm list of Dsl.buildDataTypeOfTerm); regenerate instead of editing
import SaModel.Codec.Dsl
/-
C09: the 46-way string match of `build_data_type` (model: `Dsl.buildDataTypeOfTerm`) by case analysis on the chain of
equality tests of its matcher.  `modelArity` is that chain as a function (name ↦ number of term arguments of the arm);
`buildDataTypeOfTerm_match_elim` is the induction principle: to prove `P` of the match it is enough to prove it of
every arm under the arm's equations, and of the final `_ => fail!` arm when `modelArity` does not list the pair.
-/
namespace SaModel.Lemmas.C09
open SaModel SaModel.Dsl

/-- the (name, number of term arguments) pairs the match of `buildDataTypeOfTerm` has an arm for -/
def modelArity (x : String) : Option Nat :=
  if x = "Null" then some 0 else
  if x = "Bool" then some 0 else
  if x = "Boolean" then some 0 else
  if x = "Utf8" then some 0 else
  if x = "LargeUtf8" then some 0 else
  if x = "Utf8View" then some 0 else
  if x = "U8" then some 0 else
  if x = "UInt8" then some 0 else
  if x = "U16" then some 0 else
  if x = "UInt16" then some 0 else
  if x = "U32" then some 0 else
  if x = "UInt32" then some 0 else
  if x = "U64" then some 0 else
  if x = "UInt64" then some 0 else
  if x = "I8" then some 0 else
  if x = "Int8" then some 0 else
  if x = "I16" then some 0 else
  if x = "Int16" then some 0 else
  if x = "I32" then some 0 else
  if x = "Int32" then some 0 else
  if x = "I64" then some 0 else
  if x = "Int64" then some 0 else
  if x = "F16" then some 0 else
  if x = "Float16" then some 0 else
  if x = "F32" then some 0 else
  if x = "Float32" then some 0 else
  if x = "F64" then some 0 else
  if x = "Float64" then some 0 else
  if x = "Date32" then some 0 else
  if x = "Date64" then some 0 else
  if x = "Binary" then some 0 else
  if x = "LargeBinary" then some 0 else
  if x = "FixedSizeBinary" then some 1 else
  if x = "BinaryView" then some 0 else
  if x = "Timestamp" then some 2 else
  if x = "Time32" then some 1 else
  if x = "Time64" then some 1 else
  if x = "Duration" then some 1 else
  if x = "Decimal128" then some 2 else
  if x = "Struct" then some 0 else
  if x = "List" then some 0 else
  if x = "LargeList" then some 0 else
  if x = "FixedSizeList" then some 1 else
  if x = "Dictionary" then some 0 else
  if x = "Map" then some 0 else
  if x = "Union" then some 0 else
  none

theorem buildDataTypeOfTerm_match_elim (P : R DataType → Prop) (x : String) (l : List Term)
    (h_1 : Unit → R DataType)
    (h_2 : Unit → R DataType)
    (h_3 : Unit → R DataType)
    (h_4 : Unit → R DataType)
    (h_5 : Unit → R DataType)
    (h_6 : Unit → R DataType)
    (h_7 : Unit → R DataType)
    (h_8 : Unit → R DataType)
    (h_9 : Unit → R DataType)
    (h_10 : Unit → R DataType)
    (h_11 : Unit → R DataType)
    (h_12 : Unit → R DataType)
    (h_13 : Unit → R DataType)
    (h_14 : Unit → R DataType)
    (h_15 : Unit → R DataType)
    (h_16 : Unit → R DataType)
    (h_17 : Unit → R DataType)
    (h_18 : Unit → R DataType)
    (h_19 : Unit → R DataType)
    (h_20 : Unit → R DataType)
    (h_21 : Unit → R DataType)
    (h_22 : Unit → R DataType)
    (h_23 : Unit → R DataType)
    (h_24 : Unit → R DataType)
    (h_25 : Unit → R DataType)
    (h_26 : Unit → R DataType)
    (h_27 : Unit → R DataType)
    (h_28 : Unit → R DataType)
    (h_29 : Unit → R DataType)
    (h_30 : Unit → R DataType)
    (h_31 : Unit → R DataType)
    (h_32 : Unit → R DataType)
    (h_33 : Term → R DataType)
    (h_34 : Unit → R DataType)
    (h_35 : Term → Term → R DataType)
    (h_36 : Term → R DataType)
    (h_37 : Term → R DataType)
    (h_38 : Term → R DataType)
    (h_39 : Term → Term → R DataType)
    (h_40 : Unit → R DataType)
    (h_41 : Unit → R DataType)
    (h_42 : Unit → R DataType)
    (h_43 : Term → R DataType)
    (h_44 : Unit → R DataType)
    (h_45 : Unit → R DataType)
    (h_46 : Unit → R DataType)
    (h_47 : String → List Term → R DataType)
    (H_1 : x = "Null" → l = [] → P (h_1 ()))
    (H_2 : x = "Bool" → l = [] → P (h_2 ()))
    (H_3 : x = "Boolean" → l = [] → P (h_3 ()))
    (H_4 : x = "Utf8" → l = [] → P (h_4 ()))
    (H_5 : x = "LargeUtf8" → l = [] → P (h_5 ()))
    (H_6 : x = "Utf8View" → l = [] → P (h_6 ()))
    (H_7 : x = "U8" → l = [] → P (h_7 ()))
    (H_8 : x = "UInt8" → l = [] → P (h_8 ()))
    (H_9 : x = "U16" → l = [] → P (h_9 ()))
    (H_10 : x = "UInt16" → l = [] → P (h_10 ()))
    (H_11 : x = "U32" → l = [] → P (h_11 ()))
    (H_12 : x = "UInt32" → l = [] → P (h_12 ()))
    (H_13 : x = "U64" → l = [] → P (h_13 ()))
    (H_14 : x = "UInt64" → l = [] → P (h_14 ()))
    (H_15 : x = "I8" → l = [] → P (h_15 ()))
    (H_16 : x = "Int8" → l = [] → P (h_16 ()))
    (H_17 : x = "I16" → l = [] → P (h_17 ()))
    (H_18 : x = "Int16" → l = [] → P (h_18 ()))
    (H_19 : x = "I32" → l = [] → P (h_19 ()))
    (H_20 : x = "Int32" → l = [] → P (h_20 ()))
    (H_21 : x = "I64" → l = [] → P (h_21 ()))
    (H_22 : x = "Int64" → l = [] → P (h_22 ()))
    (H_23 : x = "F16" → l = [] → P (h_23 ()))
    (H_24 : x = "Float16" → l = [] → P (h_24 ()))
    (H_25 : x = "F32" → l = [] → P (h_25 ()))
    (H_26 : x = "Float32" → l = [] → P (h_26 ()))
    (H_27 : x = "F64" → l = [] → P (h_27 ()))
    (H_28 : x = "Float64" → l = [] → P (h_28 ()))
    (H_29 : x = "Date32" → l = [] → P (h_29 ()))
    (H_30 : x = "Date64" → l = [] → P (h_30 ()))
    (H_31 : x = "Binary" → l = [] → P (h_31 ()))
    (H_32 : x = "LargeBinary" → l = [] → P (h_32 ()))
    (H_33 : ∀ a, x = "FixedSizeBinary" → l = [a] → P (h_33 a))
    (H_34 : x = "BinaryView" → l = [] → P (h_34 ()))
    (H_35 : ∀ a b, x = "Timestamp" → l = [a, b] → P (h_35 a b))
    (H_36 : ∀ a, x = "Time32" → l = [a] → P (h_36 a))
    (H_37 : ∀ a, x = "Time64" → l = [a] → P (h_37 a))
    (H_38 : ∀ a, x = "Duration" → l = [a] → P (h_38 a))
    (H_39 : ∀ a b, x = "Decimal128" → l = [a, b] → P (h_39 a b))
    (H_40 : x = "Struct" → l = [] → P (h_40 ()))
    (H_41 : x = "List" → l = [] → P (h_41 ()))
    (H_42 : x = "LargeList" → l = [] → P (h_42 ()))
    (H_43 : ∀ a, x = "FixedSizeList" → l = [a] → P (h_43 a))
    (H_44 : x = "Dictionary" → l = [] → P (h_44 ()))
    (H_45 : x = "Map" → l = [] → P (h_45 ()))
    (H_46 : x = "Union" → l = [] → P (h_46 ()))
    (H_47 : modelArity x ≠ some l.length → P (h_47 x l)) :
    P (buildDataTypeOfTerm.match_8 (fun _ _ => R DataType) x l h_1 h_2 h_3 h_4 h_5 h_6 h_7 h_8 h_9 h_10 h_11 h_12 h_13 h_14 h_15 h_16 h_17 h_18 h_19 h_20 h_21 h_22 h_23 h_24 h_25 h_26 h_27 h_28 h_29 h_30 h_31 h_32 h_33 h_34 h_35 h_36 h_37 h_38 h_39 h_40 h_41 h_42 h_43 h_44 h_45 h_46 h_47) := by
  unfold buildDataTypeOfTerm.match_8
  have hA : modelArity x = modelArity x := rfl
  conv at hA => rhs; unfold modelArity
  by_cases c1 : x = "Null"
  · rw [dif_pos c1]; rw [if_pos c1] at hA; subst c1
    rcases l with _ | ⟨a, _ | ⟨b, _ | ⟨c, l⟩⟩⟩ <;>
      first | exact H_1 rfl rfl | exact H_47 (by rw [hA]; simp)
  rw [dif_neg c1]; rw [if_neg c1] at hA
  by_cases c2 : x = "Bool"
  · rw [dif_pos c2]; rw [if_pos c2] at hA; subst c2
    rcases l with _ | ⟨a, _ | ⟨b, _ | ⟨c, l⟩⟩⟩ <;>
      first | exact H_2 rfl rfl | exact H_47 (by rw [hA]; simp)
  rw [dif_neg c2]; rw [if_neg c2] at hA
  by_cases c3 : x = "Boolean"
  · rw [dif_pos c3]; rw [if_pos c3] at hA; subst c3
    rcases l with _ | ⟨a, _ | ⟨b, _ | ⟨c, l⟩⟩⟩ <;>
      first | exact H_3 rfl rfl | exact H_47 (by rw [hA]; simp)
  rw [dif_neg c3]; rw [if_neg c3] at hA
  by_cases c4 : x = "Utf8"
  · rw [dif_pos c4]; rw [if_pos c4] at hA; subst c4
    rcases l with _ | ⟨a, _ | ⟨b, _ | ⟨c, l⟩⟩⟩ <;>
      first | exact H_4 rfl rfl | exact H_47 (by rw [hA]; simp)
  rw [dif_neg c4]; rw [if_neg c4] at hA
  by_cases c5 : x = "LargeUtf8"
  · rw [dif_pos c5]; rw [if_pos c5] at hA; subst c5
    rcases l with _ | ⟨a, _ | ⟨b, _ | ⟨c, l⟩⟩⟩ <;>
      first | exact H_5 rfl rfl | exact H_47 (by rw [hA]; simp)
  rw [dif_neg c5]; rw [if_neg c5] at hA
  by_cases c6 : x = "Utf8View"
  · rw [dif_pos c6]; rw [if_pos c6] at hA; subst c6
    rcases l with _ | ⟨a, _ | ⟨b, _ | ⟨c, l⟩⟩⟩ <;>
      first | exact H_6 rfl rfl | exact H_47 (by rw [hA]; simp)
  rw [dif_neg c6]; rw [if_neg c6] at hA
  by_cases c7 : x = "U8"
  · rw [dif_pos c7]; rw [if_pos c7] at hA; subst c7
    rcases l with _ | ⟨a, _ | ⟨b, _ | ⟨c, l⟩⟩⟩ <;>
      first | exact H_7 rfl rfl | exact H_47 (by rw [hA]; simp)
  rw [dif_neg c7]; rw [if_neg c7] at hA
  by_cases c8 : x = "UInt8"
  · rw [dif_pos c8]; rw [if_pos c8] at hA; subst c8
    rcases l with _ | ⟨a, _ | ⟨b, _ | ⟨c, l⟩⟩⟩ <;>
      first | exact H_8 rfl rfl | exact H_47 (by rw [hA]; simp)
  rw [dif_neg c8]; rw [if_neg c8] at hA
  by_cases c9 : x = "U16"
  · rw [dif_pos c9]; rw [if_pos c9] at hA; subst c9
    rcases l with _ | ⟨a, _ | ⟨b, _ | ⟨c, l⟩⟩⟩ <;>
      first | exact H_9 rfl rfl | exact H_47 (by rw [hA]; simp)
  rw [dif_neg c9]; rw [if_neg c9] at hA
  by_cases c10 : x = "UInt16"
  · rw [dif_pos c10]; rw [if_pos c10] at hA; subst c10
    rcases l with _ | ⟨a, _ | ⟨b, _ | ⟨c, l⟩⟩⟩ <;>
      first | exact H_10 rfl rfl | exact H_47 (by rw [hA]; simp)
  rw [dif_neg c10]; rw [if_neg c10] at hA
  by_cases c11 : x = "U32"
  · rw [dif_pos c11]; rw [if_pos c11] at hA; subst c11
    rcases l with _ | ⟨a, _ | ⟨b, _ | ⟨c, l⟩⟩⟩ <;>
      first | exact H_11 rfl rfl | exact H_47 (by rw [hA]; simp)
  rw [dif_neg c11]; rw [if_neg c11] at hA
  by_cases c12 : x = "UInt32"
  · rw [dif_pos c12]; rw [if_pos c12] at hA; subst c12
    rcases l with _ | ⟨a, _ | ⟨b, _ | ⟨c, l⟩⟩⟩ <;>
      first | exact H_12 rfl rfl | exact H_47 (by rw [hA]; simp)
  rw [dif_neg c12]; rw [if_neg c12] at hA
  by_cases c13 : x = "U64"
  · rw [dif_pos c13]; rw [if_pos c13] at hA; subst c13
    rcases l with _ | ⟨a, _ | ⟨b, _ | ⟨c, l⟩⟩⟩ <;>
      first | exact H_13 rfl rfl | exact H_47 (by rw [hA]; simp)
  rw [dif_neg c13]; rw [if_neg c13] at hA
  by_cases c14 : x = "UInt64"
  · rw [dif_pos c14]; rw [if_pos c14] at hA; subst c14
    rcases l with _ | ⟨a, _ | ⟨b, _ | ⟨c, l⟩⟩⟩ <;>
      first | exact H_14 rfl rfl | exact H_47 (by rw [hA]; simp)
  rw [dif_neg c14]; rw [if_neg c14] at hA
  by_cases c15 : x = "I8"
  · rw [dif_pos c15]; rw [if_pos c15] at hA; subst c15
    rcases l with _ | ⟨a, _ | ⟨b, _ | ⟨c, l⟩⟩⟩ <;>
      first | exact H_15 rfl rfl | exact H_47 (by rw [hA]; simp)
  rw [dif_neg c15]; rw [if_neg c15] at hA
  by_cases c16 : x = "Int8"
  · rw [dif_pos c16]; rw [if_pos c16] at hA; subst c16
    rcases l with _ | ⟨a, _ | ⟨b, _ | ⟨c, l⟩⟩⟩ <;>
      first | exact H_16 rfl rfl | exact H_47 (by rw [hA]; simp)
  rw [dif_neg c16]; rw [if_neg c16] at hA
  by_cases c17 : x = "I16"
  · rw [dif_pos c17]; rw [if_pos c17] at hA; subst c17
    rcases l with _ | ⟨a, _ | ⟨b, _ | ⟨c, l⟩⟩⟩ <;>
      first | exact H_17 rfl rfl | exact H_47 (by rw [hA]; simp)
  rw [dif_neg c17]; rw [if_neg c17] at hA
  by_cases c18 : x = "Int16"
  · rw [dif_pos c18]; rw [if_pos c18] at hA; subst c18
    rcases l with _ | ⟨a, _ | ⟨b, _ | ⟨c, l⟩⟩⟩ <;>
      first | exact H_18 rfl rfl | exact H_47 (by rw [hA]; simp)
  rw [dif_neg c18]; rw [if_neg c18] at hA
  by_cases c19 : x = "I32"
  · rw [dif_pos c19]; rw [if_pos c19] at hA; subst c19
    rcases l with _ | ⟨a, _ | ⟨b, _ | ⟨c, l⟩⟩⟩ <;>
      first | exact H_19 rfl rfl | exact H_47 (by rw [hA]; simp)
  rw [dif_neg c19]; rw [if_neg c19] at hA
  by_cases c20 : x = "Int32"
  · rw [dif_pos c20]; rw [if_pos c20] at hA; subst c20
    rcases l with _ | ⟨a, _ | ⟨b, _ | ⟨c, l⟩⟩⟩ <;>
      first | exact H_20 rfl rfl | exact H_47 (by rw [hA]; simp)
  rw [dif_neg c20]; rw [if_neg c20] at hA
  by_cases c21 : x = "I64"
  · rw [dif_pos c21]; rw [if_pos c21] at hA; subst c21
    rcases l with _ | ⟨a, _ | ⟨b, _ | ⟨c, l⟩⟩⟩ <;>
      first | exact H_21 rfl rfl | exact H_47 (by rw [hA]; simp)
  rw [dif_neg c21]; rw [if_neg c21] at hA
  by_cases c22 : x = "Int64"
  · rw [dif_pos c22]; rw [if_pos c22] at hA; subst c22
    rcases l with _ | ⟨a, _ | ⟨b, _ | ⟨c, l⟩⟩⟩ <;>
      first | exact H_22 rfl rfl | exact H_47 (by rw [hA]; simp)
  rw [dif_neg c22]; rw [if_neg c22] at hA
  by_cases c23 : x = "F16"
  · rw [dif_pos c23]; rw [if_pos c23] at hA; subst c23
    rcases l with _ | ⟨a, _ | ⟨b, _ | ⟨c, l⟩⟩⟩ <;>
      first | exact H_23 rfl rfl | exact H_47 (by rw [hA]; simp)
  rw [dif_neg c23]; rw [if_neg c23] at hA
  by_cases c24 : x = "Float16"
  · rw [dif_pos c24]; rw [if_pos c24] at hA; subst c24
    rcases l with _ | ⟨a, _ | ⟨b, _ | ⟨c, l⟩⟩⟩ <;>
      first | exact H_24 rfl rfl | exact H_47 (by rw [hA]; simp)
  rw [dif_neg c24]; rw [if_neg c24] at hA
  by_cases c25 : x = "F32"
  · rw [dif_pos c25]; rw [if_pos c25] at hA; subst c25
    rcases l with _ | ⟨a, _ | ⟨b, _ | ⟨c, l⟩⟩⟩ <;>
      first | exact H_25 rfl rfl | exact H_47 (by rw [hA]; simp)
  rw [dif_neg c25]; rw [if_neg c25] at hA
  by_cases c26 : x = "Float32"
  · rw [dif_pos c26]; rw [if_pos c26] at hA; subst c26
    rcases l with _ | ⟨a, _ | ⟨b, _ | ⟨c, l⟩⟩⟩ <;>
      first | exact H_26 rfl rfl | exact H_47 (by rw [hA]; simp)
  rw [dif_neg c26]; rw [if_neg c26] at hA
  by_cases c27 : x = "F64"
  · rw [dif_pos c27]; rw [if_pos c27] at hA; subst c27
    rcases l with _ | ⟨a, _ | ⟨b, _ | ⟨c, l⟩⟩⟩ <;>
      first | exact H_27 rfl rfl | exact H_47 (by rw [hA]; simp)
  rw [dif_neg c27]; rw [if_neg c27] at hA
  by_cases c28 : x = "Float64"
  · rw [dif_pos c28]; rw [if_pos c28] at hA; subst c28
    rcases l with _ | ⟨a, _ | ⟨b, _ | ⟨c, l⟩⟩⟩ <;>
      first | exact H_28 rfl rfl | exact H_47 (by rw [hA]; simp)
  rw [dif_neg c28]; rw [if_neg c28] at hA
  by_cases c29 : x = "Date32"
  · rw [dif_pos c29]; rw [if_pos c29] at hA; subst c29
    rcases l with _ | ⟨a, _ | ⟨b, _ | ⟨c, l⟩⟩⟩ <;>
      first | exact H_29 rfl rfl | exact H_47 (by rw [hA]; simp)
  rw [dif_neg c29]; rw [if_neg c29] at hA
  by_cases c30 : x = "Date64"
  · rw [dif_pos c30]; rw [if_pos c30] at hA; subst c30
    rcases l with _ | ⟨a, _ | ⟨b, _ | ⟨c, l⟩⟩⟩ <;>
      first | exact H_30 rfl rfl | exact H_47 (by rw [hA]; simp)
  rw [dif_neg c30]; rw [if_neg c30] at hA
  by_cases c31 : x = "Binary"
  · rw [dif_pos c31]; rw [if_pos c31] at hA; subst c31
    rcases l with _ | ⟨a, _ | ⟨b, _ | ⟨c, l⟩⟩⟩ <;>
      first | exact H_31 rfl rfl | exact H_47 (by rw [hA]; simp)
  rw [dif_neg c31]; rw [if_neg c31] at hA
  by_cases c32 : x = "LargeBinary"
  · rw [dif_pos c32]; rw [if_pos c32] at hA; subst c32
    rcases l with _ | ⟨a, _ | ⟨b, _ | ⟨c, l⟩⟩⟩ <;>
      first | exact H_32 rfl rfl | exact H_47 (by rw [hA]; simp)
  rw [dif_neg c32]; rw [if_neg c32] at hA
  by_cases c33 : x = "FixedSizeBinary"
  · rw [dif_pos c33]; rw [if_pos c33] at hA; subst c33
    rcases l with _ | ⟨a, _ | ⟨b, _ | ⟨c, l⟩⟩⟩ <;>
      first | exact H_33 _ rfl rfl | exact H_47 (by rw [hA]; simp)
  rw [dif_neg c33]; rw [if_neg c33] at hA
  by_cases c34 : x = "BinaryView"
  · rw [dif_pos c34]; rw [if_pos c34] at hA; subst c34
    rcases l with _ | ⟨a, _ | ⟨b, _ | ⟨c, l⟩⟩⟩ <;>
      first | exact H_34 rfl rfl | exact H_47 (by rw [hA]; simp)
  rw [dif_neg c34]; rw [if_neg c34] at hA
  by_cases c35 : x = "Timestamp"
  · rw [dif_pos c35]; rw [if_pos c35] at hA; subst c35
    rcases l with _ | ⟨a, _ | ⟨b, _ | ⟨c, l⟩⟩⟩ <;>
      first | exact H_35 _ _ rfl rfl | exact H_47 (by rw [hA]; simp)
  rw [dif_neg c35]; rw [if_neg c35] at hA
  by_cases c36 : x = "Time32"
  · rw [dif_pos c36]; rw [if_pos c36] at hA; subst c36
    rcases l with _ | ⟨a, _ | ⟨b, _ | ⟨c, l⟩⟩⟩ <;>
      first | exact H_36 _ rfl rfl | exact H_47 (by rw [hA]; simp)
  rw [dif_neg c36]; rw [if_neg c36] at hA
  by_cases c37 : x = "Time64"
  · rw [dif_pos c37]; rw [if_pos c37] at hA; subst c37
    rcases l with _ | ⟨a, _ | ⟨b, _ | ⟨c, l⟩⟩⟩ <;>
      first | exact H_37 _ rfl rfl | exact H_47 (by rw [hA]; simp)
  rw [dif_neg c37]; rw [if_neg c37] at hA
  by_cases c38 : x = "Duration"
  · rw [dif_pos c38]; rw [if_pos c38] at hA; subst c38
    rcases l with _ | ⟨a, _ | ⟨b, _ | ⟨c, l⟩⟩⟩ <;>
      first | exact H_38 _ rfl rfl | exact H_47 (by rw [hA]; simp)
  rw [dif_neg c38]; rw [if_neg c38] at hA
  by_cases c39 : x = "Decimal128"
  · rw [dif_pos c39]; rw [if_pos c39] at hA; subst c39
    rcases l with _ | ⟨a, _ | ⟨b, _ | ⟨c, l⟩⟩⟩ <;>
      first | exact H_39 _ _ rfl rfl | exact H_47 (by rw [hA]; simp)
  rw [dif_neg c39]; rw [if_neg c39] at hA
  by_cases c40 : x = "Struct"
  · rw [dif_pos c40]; rw [if_pos c40] at hA; subst c40
    rcases l with _ | ⟨a, _ | ⟨b, _ | ⟨c, l⟩⟩⟩ <;>
      first | exact H_40 rfl rfl | exact H_47 (by rw [hA]; simp)
  rw [dif_neg c40]; rw [if_neg c40] at hA
  by_cases c41 : x = "List"
  · rw [dif_pos c41]; rw [if_pos c41] at hA; subst c41
    rcases l with _ | ⟨a, _ | ⟨b, _ | ⟨c, l⟩⟩⟩ <;>
      first | exact H_41 rfl rfl | exact H_47 (by rw [hA]; simp)
  rw [dif_neg c41]; rw [if_neg c41] at hA
  by_cases c42 : x = "LargeList"
  · rw [dif_pos c42]; rw [if_pos c42] at hA; subst c42
    rcases l with _ | ⟨a, _ | ⟨b, _ | ⟨c, l⟩⟩⟩ <;>
      first | exact H_42 rfl rfl | exact H_47 (by rw [hA]; simp)
  rw [dif_neg c42]; rw [if_neg c42] at hA
  by_cases c43 : x = "FixedSizeList"
  · rw [dif_pos c43]; rw [if_pos c43] at hA; subst c43
    rcases l with _ | ⟨a, _ | ⟨b, _ | ⟨c, l⟩⟩⟩ <;>
      first | exact H_43 _ rfl rfl | exact H_47 (by rw [hA]; simp)
  rw [dif_neg c43]; rw [if_neg c43] at hA
  by_cases c44 : x = "Dictionary"
  · rw [dif_pos c44]; rw [if_pos c44] at hA; subst c44
    rcases l with _ | ⟨a, _ | ⟨b, _ | ⟨c, l⟩⟩⟩ <;>
      first | exact H_44 rfl rfl | exact H_47 (by rw [hA]; simp)
  rw [dif_neg c44]; rw [if_neg c44] at hA
  by_cases c45 : x = "Map"
  · rw [dif_pos c45]; rw [if_pos c45] at hA; subst c45
    rcases l with _ | ⟨a, _ | ⟨b, _ | ⟨c, l⟩⟩⟩ <;>
      first | exact H_45 rfl rfl | exact H_47 (by rw [hA]; simp)
  rw [dif_neg c45]; rw [if_neg c45] at hA
  by_cases c46 : x = "Union"
  · rw [dif_pos c46]; rw [if_pos c46] at hA; subst c46
    rcases l with _ | ⟨a, _ | ⟨b, _ | ⟨c, l⟩⟩⟩ <;>
      first | exact H_46 rfl rfl | exact H_47 (by rw [hA]; simp)
  rw [dif_neg c46]; rw [if_neg c46] at hA
  exact H_47 (by rw [hA]; simp)

/-- the arms as a table -/
def modelTable : List (String × Nat) :=
  [("Null", 0), ("Bool", 0), ("Boolean", 0), ("Utf8", 0), ("LargeUtf8", 0), ("Utf8View", 0), ("U8", 0), ("UInt8", 0), ("U16", 0), ("UInt16", 0), ("U32", 0), ("UInt32", 0), ("U64", 0), ("UInt64", 0), ("I8", 0), ("Int8", 0), ("I16", 0), ("Int16", 0), ("I32", 0), ("Int32", 0), ("I64", 0), ("Int64", 0), ("F16", 0), ("Float16", 0), ("F32", 0), ("Float32", 0), ("F64", 0), ("Float64", 0), ("Date32", 0), ("Date64", 0), ("Binary", 0), ("LargeBinary", 0), ("FixedSizeBinary", 1), ("BinaryView", 0), ("Timestamp", 2), ("Time32", 1), ("Time64", 1), ("Duration", 1), ("Decimal128", 2), ("Struct", 0), ("List", 0), ("LargeList", 0), ("FixedSizeList", 1), ("Dictionary", 0), ("Map", 0), ("Union", 0)]

theorem modelArity_mem (x : String) (n : Nat) (h : modelArity x = some n) : (x, n) ∈ modelTable := by
  unfold modelArity at h
  by_cases c1 : x = "Null"
  · rw [if_pos c1] at h; subst c1; cases h; decide
  rw [if_neg c1] at h
  by_cases c2 : x = "Bool"
  · rw [if_pos c2] at h; subst c2; cases h; decide
  rw [if_neg c2] at h
  by_cases c3 : x = "Boolean"
  · rw [if_pos c3] at h; subst c3; cases h; decide
  rw [if_neg c3] at h
  by_cases c4 : x = "Utf8"
  · rw [if_pos c4] at h; subst c4; cases h; decide
  rw [if_neg c4] at h
  by_cases c5 : x = "LargeUtf8"
  · rw [if_pos c5] at h; subst c5; cases h; decide
  rw [if_neg c5] at h
  by_cases c6 : x = "Utf8View"
  · rw [if_pos c6] at h; subst c6; cases h; decide
  rw [if_neg c6] at h
  by_cases c7 : x = "U8"
  · rw [if_pos c7] at h; subst c7; cases h; decide
  rw [if_neg c7] at h
  by_cases c8 : x = "UInt8"
  · rw [if_pos c8] at h; subst c8; cases h; decide
  rw [if_neg c8] at h
  by_cases c9 : x = "U16"
  · rw [if_pos c9] at h; subst c9; cases h; decide
  rw [if_neg c9] at h
  by_cases c10 : x = "UInt16"
  · rw [if_pos c10] at h; subst c10; cases h; decide
  rw [if_neg c10] at h
  by_cases c11 : x = "U32"
  · rw [if_pos c11] at h; subst c11; cases h; decide
  rw [if_neg c11] at h
  by_cases c12 : x = "UInt32"
  · rw [if_pos c12] at h; subst c12; cases h; decide
  rw [if_neg c12] at h
  by_cases c13 : x = "U64"
  · rw [if_pos c13] at h; subst c13; cases h; decide
  rw [if_neg c13] at h
  by_cases c14 : x = "UInt64"
  · rw [if_pos c14] at h; subst c14; cases h; decide
  rw [if_neg c14] at h
  by_cases c15 : x = "I8"
  · rw [if_pos c15] at h; subst c15; cases h; decide
  rw [if_neg c15] at h
  by_cases c16 : x = "Int8"
  · rw [if_pos c16] at h; subst c16; cases h; decide
  rw [if_neg c16] at h
  by_cases c17 : x = "I16"
  · rw [if_pos c17] at h; subst c17; cases h; decide
  rw [if_neg c17] at h
  by_cases c18 : x = "Int16"
  · rw [if_pos c18] at h; subst c18; cases h; decide
  rw [if_neg c18] at h
  by_cases c19 : x = "I32"
  · rw [if_pos c19] at h; subst c19; cases h; decide
  rw [if_neg c19] at h
  by_cases c20 : x = "Int32"
  · rw [if_pos c20] at h; subst c20; cases h; decide
  rw [if_neg c20] at h
  by_cases c21 : x = "I64"
  · rw [if_pos c21] at h; subst c21; cases h; decide
  rw [if_neg c21] at h
  by_cases c22 : x = "Int64"
  · rw [if_pos c22] at h; subst c22; cases h; decide
  rw [if_neg c22] at h
  by_cases c23 : x = "F16"
  · rw [if_pos c23] at h; subst c23; cases h; decide
  rw [if_neg c23] at h
  by_cases c24 : x = "Float16"
  · rw [if_pos c24] at h; subst c24; cases h; decide
  rw [if_neg c24] at h
  by_cases c25 : x = "F32"
  · rw [if_pos c25] at h; subst c25; cases h; decide
  rw [if_neg c25] at h
  by_cases c26 : x = "Float32"
  · rw [if_pos c26] at h; subst c26; cases h; decide
  rw [if_neg c26] at h
  by_cases c27 : x = "F64"
  · rw [if_pos c27] at h; subst c27; cases h; decide
  rw [if_neg c27] at h
  by_cases c28 : x = "Float64"
  · rw [if_pos c28] at h; subst c28; cases h; decide
  rw [if_neg c28] at h
  by_cases c29 : x = "Date32"
  · rw [if_pos c29] at h; subst c29; cases h; decide
  rw [if_neg c29] at h
  by_cases c30 : x = "Date64"
  · rw [if_pos c30] at h; subst c30; cases h; decide
  rw [if_neg c30] at h
  by_cases c31 : x = "Binary"
  · rw [if_pos c31] at h; subst c31; cases h; decide
  rw [if_neg c31] at h
  by_cases c32 : x = "LargeBinary"
  · rw [if_pos c32] at h; subst c32; cases h; decide
  rw [if_neg c32] at h
  by_cases c33 : x = "FixedSizeBinary"
  · rw [if_pos c33] at h; subst c33; cases h; decide
  rw [if_neg c33] at h
  by_cases c34 : x = "BinaryView"
  · rw [if_pos c34] at h; subst c34; cases h; decide
  rw [if_neg c34] at h
  by_cases c35 : x = "Timestamp"
  · rw [if_pos c35] at h; subst c35; cases h; decide
  rw [if_neg c35] at h
  by_cases c36 : x = "Time32"
  · rw [if_pos c36] at h; subst c36; cases h; decide
  rw [if_neg c36] at h
  by_cases c37 : x = "Time64"
  · rw [if_pos c37] at h; subst c37; cases h; decide
  rw [if_neg c37] at h
  by_cases c38 : x = "Duration"
  · rw [if_pos c38] at h; subst c38; cases h; decide
  rw [if_neg c38] at h
  by_cases c39 : x = "Decimal128"
  · rw [if_pos c39] at h; subst c39; cases h; decide
  rw [if_neg c39] at h
  by_cases c40 : x = "Struct"
  · rw [if_pos c40] at h; subst c40; cases h; decide
  rw [if_neg c40] at h
  by_cases c41 : x = "List"
  · rw [if_pos c41] at h; subst c41; cases h; decide
  rw [if_neg c41] at h
  by_cases c42 : x = "LargeList"
  · rw [if_pos c42] at h; subst c42; cases h; decide
  rw [if_neg c42] at h
  by_cases c43 : x = "FixedSizeList"
  · rw [if_pos c43] at h; subst c43; cases h; decide
  rw [if_neg c43] at h
  by_cases c44 : x = "Dictionary"
  · rw [if_pos c44] at h; subst c44; cases h; decide
  rw [if_neg c44] at h
  by_cases c45 : x = "Map"
  · rw [if_pos c45] at h; subst c45; cases h; decide
  rw [if_neg c45] at h
  by_cases c46 : x = "Union"
  · rw [if_pos c46] at h; subst c46; cases h; decide
  rw [if_neg c46] at h
  cases h

end SaModel.Lemmas.C09
