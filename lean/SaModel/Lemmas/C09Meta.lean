import SaModel.Spec.SchemaOK
/-
C09: the metadata clause of `SchemaOK` made explicit — every strictly key-sorted association list (what a Rust
`HashMap` looks like on the wire) is in HashMap normal form, `metaOK`.
-/
namespace SaModel.SchemaJson
open SaModel

/-- strictly increasing keys -/
def sortedMeta : Metadata → Bool
  | [] => true
  | (k, _) :: r => r.all (fun kv => decide (k < kv.1)) && sortedMeta r

theorem get?_none_of_lb (k : String) : (r : Metadata) → (∀ kv ∈ r, k < kv.1) → Metadata.get? r k = none
  | [], _ => rfl
  | (k', v') :: r, h => by
    have h0 : k < k' := h (k', v') (by simp)
    have hne : k' ≠ k := fun e => String.lt_irrefl k (e ▸ h0)
    simp [Metadata.get?, hne, get?_none_of_lb k r (fun kv hkv => h kv (by simp [hkv]))]

theorem insertMeta_of_lb (k v : String) (r : Metadata) (h : ∀ kv ∈ r, k < kv.1) : insertMeta k v r = (k, v) :: r := by
  cases r with
  | nil => rfl
  | cons kv r =>
    obtain ⟨k', v'⟩ := kv
    have : k < k' := h (k', v') (by simp)
    simp [insertMeta, this]

theorem canonMeta_of_sorted : (m : Metadata) → sortedMeta m = true → canonMeta m = m
  | [], _ => rfl
  | (k, v) :: r, h => by
    simp only [sortedMeta, Bool.and_eq_true, List.all_eq_true, decide_eq_true_eq] at h
    have ih := canonMeta_of_sorted r h.2
    simp [canonMeta, ih, hasKey, get?_none_of_lb k r h.1, insertMeta_of_lb k v r h.1]

theorem sorted_filter (p : String × String → Bool) : (m : Metadata) → sortedMeta m = true → sortedMeta (m.filter p) = true
  | [], _ => rfl
  | (k, v) :: r, h => by
    simp only [sortedMeta, Bool.and_eq_true, List.all_eq_true, decide_eq_true_eq] at h
    have ih := sorted_filter p r h.2
    simp only [List.filter]
    split
    · simp only [sortedMeta, Bool.and_eq_true, List.all_eq_true, decide_eq_true_eq, ih, and_true]
      intro kv hkv
      exact h.1 kv (List.mem_filter.1 hkv).1
    · exact ih

theorem mem_of_get? (k s : String) : (r : Metadata) → Metadata.get? r k = some s → ∃ kv ∈ r, kv.1 = k
  | [], h => by simp [Metadata.get?] at h
  | (k', v') :: r, h => by
    by_cases e : k' = k
    · exact ⟨(k', v'), by simp, e⟩
    · simp [Metadata.get?, e] at h
      obtain ⟨kv, hkv, hk⟩ := mem_of_get? k s r h
      exact ⟨kv, by simp [hkv], hk⟩

theorem ne_of_get?_none (k : String) : (r : Metadata) → Metadata.get? r k = none → ∀ kv ∈ r, kv.1 ≠ k
  | [], _ => by simp
  | (k', v') :: r, h => by
    by_cases e : k' = k
    · simp [Metadata.get?, e] at h
    · simp [Metadata.get?, e] at h
      intro kv hkv
      simp only [List.mem_cons] at hkv
      rcases hkv with rfl | hkv
      · exact e
      · exact ne_of_get?_none k r h kv hkv

theorem insert_split (k s : String) : (m : Metadata) → sortedMeta m = true → Metadata.get? m k = some s →
    insertMeta k s (m.filter (fun kv => decide (kv.1 ≠ k))) = m
  | [], _, h => by simp [Metadata.get?] at h
  | (k', v') :: r, hs, hg => by
    simp only [sortedMeta, Bool.and_eq_true, List.all_eq_true, decide_eq_true_eq] at hs
    by_cases e : k' = k
    · subst e
      have hv : v' = s := by simpa [Metadata.get?] using hg
      subst hv
      have hne : ∀ kv ∈ r, kv.1 ≠ k' := fun kv hkv => (String.ne_of_lt (hs.1 kv hkv)).symm
      have hf : r.filter (fun kv => decide (kv.1 ≠ k')) = r := List.filter_eq_self.2 (fun kv hkv => by simp [hne kv hkv])
      rw [List.filter_cons_of_neg (by simp), hf, insertMeta_of_lb k' v' r hs.1]
    · have hg' : Metadata.get? r k = some s := by simpa [Metadata.get?, e] using hg
      obtain ⟨kv, hkv, hk⟩ := mem_of_get? k s r hg'
      have hlt : k' < k := hk ▸ hs.1 kv hkv
      have h1 : ¬ k < k' := String.lt_asymm hlt
      have h2 : ¬ k = k' := fun h => e h.symm
      have ih := insert_split k s r hs.2 hg'
      rw [List.filter_cons_of_pos (by simp [e])]
      simp only [insertMeta, h1, h2, ↓reduceIte, ih]

/-- every strictly key-sorted metadata list is in HashMap normal form -/
theorem metaOK_of_sorted (m : Metadata) (h : sortedMeta m = true) : metaOK m = true := by
  have hc := canonMeta_of_sorted _ (sorted_filter (fun kv => decide (kv.1 ≠ STRATEGY_KEY)) m h)
  simp only [metaOK, decide_eq_true_eq, metaRT, nonStrategy, hc]
  split
  · next hg =>
    have hne := ne_of_get?_none STRATEGY_KEY m hg
    exact List.filter_eq_self.2 (fun kv hkv => by simp [hne kv hkv])
  · next s hg => exact insert_split STRATEGY_KEY s m h hg

example : sortedMeta [("ARROW:extension:name", "x"), (STRATEGY_KEY, "MapAsStruct"), ("a", "")] = true := by decide +kernel

end SaModel.SchemaJson
