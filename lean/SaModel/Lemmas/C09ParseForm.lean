import SaModel.Codec.SchemaJson
/-
C09: `parseFieldWith` on an object as a plain chain of binds over named steps (the do-block of the model compiles to
nested join points, which `split` / `simp` restructure badly).
-/
namespace SaModel.SchemaJson
open SaModel SaModel.Dsl

def getName (a : Option JVal) : R String :=
  match a with
  | some (.str s) => pure s
  | some _ => fail "Cannot extract string from non-string value"
  | none => fail "missing field `name`"
def getDataType (a : Option JVal) : R Text :=
  match a with
  | some (.str s) => pure s.toList
  | some _ => fail "invalid type: expected string or DataType variant"
  | none => fail "missing field `data_type`"
def getNullable (a : Option JVal) : R Bool :=
  match a with
  | none => pure false
  | some (.bool b) => pure b
  | some _ => fail "Cannot deserialize bool from non-bool"
def getMetadata (a : Option JVal) : R Metadata :=
  match a with
  | none => pure []
  | some (.obj m) => metaOfObj m
  | some _ => fail "Cannot deserialize a map from a non-map value"
def dupKeys (o : JObj) : Bool := knownKeys.any (fun k => o.count k > 1)

theorem parseFieldWith_obj (pinned : Bool) (o : JObj) :
    parseFieldWith pinned (.obj o) =
      (if dupKeys o then fail "duplicate field" else do
        let name ← getName (o.get? "name")
        let dataType ← getDataType (o.get? "data_type")
        let nullable ← getNullable (o.get? "nullable")
        let strategy ← parseStrategyOpt (o.get? "strategy")
        let metadata ← getMetadata (o.get? "metadata")
        let children ← parseChildrenWith pinned o
        intoField pinned name dataType nullable strategy children metadata) := by
  unfold parseFieldWith dupKeys
  generalize o.get? "name" = a
  generalize o.get? "data_type" = b
  generalize o.get? "nullable" = c
  generalize o.get? "metadata" = d
  generalize parseStrategyOpt (o.get? "strategy") = st
  generalize (knownKeys.any fun k => decide (o.count k > 1)) = dup
  cases dup
  case true => rfl
  case false =>
    rcases a with _ | (_|_|_|_|_|_) <;> try rfl
    all_goals rcases b with _ | (_|_|_|_|_|_) <;> try rfl
    all_goals (rcases c with _ | (_|_|_|_|_|_) <;> try rfl)
    all_goals (rcases st with _ | st <;> try rfl)
    all_goals (rcases d with _ | (_|_|_|_|_|_) <;> try rfl)
end SaModel.SchemaJson
