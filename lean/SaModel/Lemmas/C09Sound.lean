import SaModel.Lemmas.C09Match
import SaModel.Lemmas.C09Valid
/-
C09: what `build_data_type` returns (model `Dsl.buildDataTypeOfTerm`), for EVERY term and list of children: parameters
in the range of their Rust types, maps unsorted, unions dense with ids 0,1,2,…, and the nested fields are among the
children handed in.  Proved arm by arm through `buildDataTypeOfTerm_match_elim`.
-/
namespace SaModel.SchemaJson
open SaModel SaModel.Dsl SaModel.Lemmas.C09

theorem bind_ok_inv {α β} {x : R α} {f : α → R β} {b : β} (h : (x >>= f) = .ok b) : ∃ a, x = .ok a ∧ f a = .ok b := by
  cases x with
  | error e => simp [bind, Except.bind] at h
  | ok a => exact ⟨a, rfl, h⟩

theorem parseIntLit_range {signed : Bool} {lo hi : Int} {s : Text} {v : Int} (h : parseIntLit signed lo hi s = .ok v) :
    lo ≤ v ∧ v ≤ hi := by
  unfold parseIntLit at h
  simp only [] at h
  have key : ∀ w, (if lo ≤ w ∧ w ≤ hi then (pure w : R Int)
      else fail "number too large or too small to fit in target type") = .ok v → lo ≤ v ∧ v ≤ hi := by
    intro w hw
    split at hw
    · rename_i hc; cases hw; exact hc
    · cases hw
  split at h
  · obtain ⟨n, _, h⟩ := bind_ok_inv h
    obtain ⟨w, _, h⟩ := bind_ok_inv h
    exact key _ h
  · split at h
    · obtain ⟨w, _, h⟩ := bind_ok_inv h
      exact key _ h
    · obtain ⟨n, _, h⟩ := bind_ok_inv h
      obtain ⟨w, _, h⟩ := bind_ok_inv h
      exact key _ h

theorem parseI32_range {s : Text} {n : Int} (h : parseI32 s = .ok n) : i32Range n = true := by
  have := parseIntLit_range h
  unfold i32Range i32Max
  simp only [Bool.and_eq_true, decide_eq_true_eq]
  exact this

theorem parseI8_range {s : Text} {n : Int} (h : parseI8 s = .ok n) : -128 ≤ n ∧ n ≤ 127 := parseIntLit_range h

theorem parseU8_range {s : Text} {p : Nat} (h : parseU8 s = .ok p) : p ≤ 255 := by
  unfold parseU8 at h
  obtain ⟨v, hv, h2⟩ := bind_ok_inv h
  have := parseIntLit_range hv
  cases h2
  omega

theorem unionChildren_sound : (cs : List Field) → (idx : Nat) → (us : UFields) → unionChildren idx cs = .ok us →
    idsFrom idx us = true ∧ us.toList.map (·.2) = cs
  | [], _, us, h => by cases h; exact ⟨rfl, rfl⟩
  | f :: r, idx, us, h => by
    unfold unionChildren at h
    simp only [] at h
    split at h
    · cases h
    · rename_i hi
      obtain ⟨rest, hr, h3⟩ := bind_ok_inv h
      cases h3
      have ih := unionChildren_sound r (idx + 1) rest hr
      simp only [idsFrom, UFields.toList, List.map_cons, ih, Bool.and_true, decide_true, Bool.true_and, decide_eq_true_eq]
      exact ⟨by omega, trivial⟩

/-- the nested fields of a data type, as far as they are fields of the schema (the two types of a dictionary are not) -/
def kids : DataType → List Field
  | .dictionary _ _ => []
  | dt => childList dt

/-- what every result of `build_data_type` satisfies -/
def Built (children : List Field) (dt : DataType) : Prop :=
  typeOK dt = true ∧ rangeTop dt = true ∧ ∀ c ∈ kids dt, c ∈ children
where
  /-- parameters of the type itself in range -/
  rangeTop : DataType → Bool
    | .fixedSizeBinary n => i32Range n
    | .fixedSizeList _ n => i32Range n
    | _ => true

theorem built_leaf (children : List Field) (dt : DataType) (h1 : typeOK dt = true) (h2 : Built.rangeTop dt = true)
    (h3 : kids dt = []) : Built children dt :=
  ⟨h1, h2, by rw [h3]; intro c hc; cases hc⟩

theorem buildDataTypeOfTerm_built (t : Term) (children : List Field) (dt : DataType)
    (h : buildDataTypeOfTerm t children = .ok dt) : Built children dt := by
  unfold buildDataTypeOfTerm at h
  obtain ⟨⟨name, args⟩, _, hb⟩ := bind_ok_inv h
  clear h
  dsimp only at hb
  revert dt
  apply buildDataTypeOfTerm_match_elim (fun r => ∀ dt, r = .ok dt → Built children dt)
  case H_33 =>
    intro a _ _ dt h
    obtain ⟨s, _, h⟩ := bind_ok_inv h
    obtain ⟨n, hn, h⟩ := bind_ok_inv h
    cases h
    have := parseI32_range hn
    refine ⟨?_, this, by intro c hc; cases hc⟩
    simpa [typeOK, i32Range] using this
  case H_35 =>
    intro a b _ _ dt h
    obtain ⟨s, _, h⟩ := bind_ok_inv h
    obtain ⟨u, _, h⟩ := bind_ok_inv h
    obtain ⟨o, _, h⟩ := bind_ok_inv h
    cases o with
    | none => cases h; exact built_leaf _ _ rfl rfl rfl
    | some term =>
      obtain ⟨tz, _, h⟩ := bind_ok_inv h
      cases h; exact built_leaf _ _ rfl rfl rfl
  case H_36 =>
    intro a _ _ dt h
    obtain ⟨s, _, h⟩ := bind_ok_inv h
    obtain ⟨u, _, h⟩ := bind_ok_inv h
    cases h; exact built_leaf _ _ rfl rfl rfl
  case H_37 =>
    intro a _ _ dt h
    obtain ⟨s, _, h⟩ := bind_ok_inv h
    obtain ⟨u, _, h⟩ := bind_ok_inv h
    cases h; exact built_leaf _ _ rfl rfl rfl
  case H_38 =>
    intro a _ _ dt h
    obtain ⟨s, _, h⟩ := bind_ok_inv h
    obtain ⟨u, _, h⟩ := bind_ok_inv h
    cases h; exact built_leaf _ _ rfl rfl rfl
  case H_39 =>
    intro a b _ _ dt h
    obtain ⟨s, _, h⟩ := bind_ok_inv h
    obtain ⟨p, hp, h⟩ := bind_ok_inv h
    obtain ⟨s2, _, h⟩ := bind_ok_inv h
    obtain ⟨sc, hsc, h⟩ := bind_ok_inv h
    cases h
    have h1 := parseU8_range hp
    have h2 := parseI8_range hsc
    refine built_leaf _ _ ?_ rfl rfl
    simp [typeOK, h1, h2]
  case H_40 =>
    intro _ _ dt h
    cases h
    refine ⟨rfl, rfl, ?_⟩
    simp [kids, childList]
  case H_41 =>
    intro _ _ dt h
    split at h
    · cases h; exact ⟨rfl, rfl, by simp [kids, childList]⟩
    · cases h
  case H_42 =>
    intro _ _ dt h
    split at h
    · cases h; exact ⟨rfl, rfl, by simp [kids, childList]⟩
    · cases h
  case H_43 =>
    intro a _ _ dt h
    split at h
    · obtain ⟨s, _, h⟩ := bind_ok_inv h
      obtain ⟨n, hn, h⟩ := bind_ok_inv h
      cases h
      have := parseI32_range hn
      refine ⟨?_, this, by simp [kids, childList]⟩
      simpa [typeOK, i32Range] using this
    · cases h
  case H_44 =>
    intro _ _ dt h
    split at h
    · cases h; exact built_leaf _ _ rfl rfl rfl
    · cases h
  case H_45 =>
    intro _ _ dt h
    split at h
    · cases h; exact ⟨rfl, rfl, by simp [kids, childList]⟩
    · cases h
  case H_46 =>
    intro _ _ dt h
    obtain ⟨us, hu, h⟩ := bind_ok_inv h
    cases h
    have := unionChildren_sound children 0 us hu
    refine ⟨by simp [typeOK, this.1], rfl, ?_⟩
    simp only [kids, childList, this.2]
    intro c hc; exact hc
  case H_47 =>
    intro _ dt h; cases h
  all_goals
    intro _ _ dt h
    cases h
    exact built_leaf _ _ rfl rfl rfl

end SaModel.SchemaJson
