import SaModel.Lemmas.C09SoundMeta
import SaModel.Lemmas.C09ParseForm
/-
C09: whatever `CustomField::into_field` returns lies in `SchemaOK` — the reader never produces a field outside the
domain of the round-trip theorem.  `parseField_sound` is the statement for every JSON value.
-/
namespace SaModel.SchemaJson
open SaModel SaModel.Dsl

/-! ## a predicate on every field of a field list -/

theorem rangeFields_of_all : (fs : Fields) → (∀ c ∈ fs.toList, rangeField c = true) → rangeFields fs = true
  | .nil, _ => rfl
  | .cons f r, h => by
    simp only [Fields.toList, List.mem_cons] at h
    simp [rangeFields, h f (Or.inl rfl), rangeFields_of_all r (fun c hc => h c (Or.inr hc))]
theorem reprFields_of_all : (fs : Fields) → (∀ c ∈ fs.toList, reprField c = true) → reprFields fs = true
  | .nil, _ => rfl
  | .cons f r, h => by
    simp only [Fields.toList, List.mem_cons] at h
    simp [reprFields, h f (Or.inl rfl), reprFields_of_all r (fun c hc => h c (Or.inr hc))]
theorem rangeUFields_of_all : (us : UFields) → (∀ c ∈ us.toList.map (·.2), rangeField c = true) → rangeUFields us = true
  | .nil, _ => rfl
  | .cons _ f r, h => by
    simp only [UFields.toList, List.map_cons, List.mem_cons] at h
    simp [rangeUFields, h f (Or.inl rfl), rangeUFields_of_all r (fun c hc => h c (Or.inr hc))]
theorem reprUFields_of_all : (us : UFields) → (∀ c ∈ us.toList.map (·.2), reprField c = true) → reprUFields us = true
  | .nil, _ => rfl
  | .cons _ f r, h => by
    simp only [UFields.toList, List.map_cons, List.mem_cons] at h
    simp [reprUFields, h f (Or.inl rfl), reprUFields_of_all r (fun c hc => h c (Or.inr hc))]

/-! ## the data type `build_data_type` returns, given children in `SchemaOK` -/

theorem side_repr_of_built {children : List Field} {dt : DataType} (hb : Built children dt)
    (hc : ∀ c ∈ children, SchemaOK c) (nl : Bool) :
    rangeType dt = true ∧ reprType (normNullable dt nl) dt = true := by
  obtain ⟨ht, hr, hk⟩ := hb
  have hv : ∀ c ∈ kids dt, validField c = true := fun c h => by
    have := hc c (hk c h); simp only [SchemaOK, schemaOK, Bool.and_eq_true] at this; exact this.1
  have hp : ∀ c ∈ kids dt, reprField c = true := fun c h => by
    have := hc c (hk c h); simp only [SchemaOK, schemaOK, Bool.and_eq_true] at this; exact this.2
  have hrg : ∀ c ∈ kids dt, rangeField c = true := fun c h => (side_of_valid c (hv c h)).1
  cases dt with
  | struct fs =>
    simp only [kids, childList] at hrg hp
    exact ⟨rangeFields_of_all fs hrg, reprFields_of_all fs hp⟩
  | list f =>
    simp only [kids, childList, List.mem_singleton, forall_eq] at hrg hp
    exact ⟨hrg, hp⟩
  | largeList f =>
    simp only [kids, childList, List.mem_singleton, forall_eq] at hrg hp
    exact ⟨hrg, hp⟩
  | fixedSizeList f n =>
    simp only [kids, childList, List.mem_singleton, forall_eq] at hrg hp
    simp only [Built.rangeTop] at hr
    exact ⟨by simp [rangeType, hr, hrg], hp⟩
  | map e sorted =>
    simp only [kids, childList, List.mem_singleton, forall_eq] at hrg hp
    simp only [typeOK] at ht
    exact ⟨hrg, by simp [reprType, ht, hp]⟩
  | union us mode =>
    simp only [kids, childList] at hrg hp
    simp only [typeOK, Bool.and_eq_true] at ht
    exact ⟨rangeUFields_of_all us hrg, by simp [reprType, ht.1, ht.2, reprUFields_of_all us hp]⟩
  | fixedSizeBinary n => exact ⟨hr, rfl⟩
  | decimal128 p s => exact ⟨ht, rfl⟩
  | null => exact ⟨rfl, rfl⟩
  | _ => exact ⟨rfl, rfl⟩

/-- `CustomField::into_field`: children in `SchemaOK` and sorted metadata in, a field in `SchemaOK` out -/
theorem intoField_sound (pinned : Bool) (name : String) (s : Text) (nl : Bool) (strat : Option Strategy)
    (children : List Field) (md : Metadata) (f : Field) (hc : ∀ c ∈ children, SchemaOK c) (hm : sortedMeta md = true)
    (h : intoField pinned name s nl strat children md = .ok f) : SchemaOK f := by
  unfold intoField at h
  obtain ⟨dt, hdt, h⟩ := bind_ok_inv h
  obtain ⟨md', hmd, h⟩ := bind_ok_inv h
  obtain ⟨u, hval, h⟩ := bind_ok_inv h
  cases h
  unfold buildDataTypeWith at hdt
  obtain ⟨t, _, hdt⟩ := bind_ok_inv hdt
  have hb := buildDataTypeOfTerm_built t children dt hdt
  obtain ⟨h1, h3⟩ := side_repr_of_built hb hc nl
  have hv := validField_of_validate _ (by simpa [rangeField] using h1) hval
  have hmo := metaOK_of_sorted md' (merge_sorted hmd hm)
  simp only [SchemaOK, schemaOK, hv, reprField, hmo, h3, Bool.and_self]

/-! ## every value the reader accepts -/

mutual
theorem parseField_sound (pinned : Bool) : (j : JVal) → (f : Field) → parseFieldWith pinned j = .ok f → SchemaOK f
  | .obj o, f, h => by
    rw [parseFieldWith_obj] at h
    split at h
    · cases h
    obtain ⟨name, _, h⟩ := bind_ok_inv h
    obtain ⟨dataType, _, h⟩ := bind_ok_inv h
    obtain ⟨nullable, _, h⟩ := bind_ok_inv h
    obtain ⟨strategy, _, h⟩ := bind_ok_inv h
    obtain ⟨metadata, hmd, h⟩ := bind_ok_inv h
    obtain ⟨children, hch, h⟩ := bind_ok_inv h
    have hc := parseChildren_sound pinned o children hch
    have hm : sortedMeta metadata = true := by
      unfold getMetadata at hmd
      split at hmd
      · cases hmd; rfl
      · exact metaOfObj_sorted _ _ hmd
      · cases hmd
    exact intoField_sound pinned name dataType nullable strategy children metadata f hc hm h
  | .null, _, h | .bool _, _, h | .num _, _, h | .str _, _, h | .arr _, _, h => by
    simp [parseFieldWith, fail] at h
theorem parseChildren_sound (pinned : Bool) : (o : JObj) → (fs : List Field) → parseChildrenWith pinned o = .ok fs →
    ∀ c ∈ fs, SchemaOK c
  | .nil, fs, h => by cases h; intro c hc; cases hc
  | .cons k v r, fs, h => by
    unfold parseChildrenWith at h
    split at h
    · match v, h with
      | .arr vs, h => exact parseFieldList_sound pinned vs fs h
      | .null, h | .bool _, h | .num _, h | .str _, h | .obj _, h => cases h
    · exact parseChildren_sound pinned r fs h
theorem parseFieldList_sound (pinned : Bool) : (vs : JVals) → (fs : List Field) → parseFieldListWith pinned vs = .ok fs →
    ∀ c ∈ fs, SchemaOK c
  | .nil, fs, h => by cases h; intro c hc; cases hc
  | .cons v r, fs, h => by
    unfold parseFieldListWith at h
    obtain ⟨f, hf, h⟩ := bind_ok_inv h
    obtain ⟨rest, hr, h⟩ := bind_ok_inv h
    cases h
    intro c hc
    simp only [List.mem_cons] at hc
    rcases hc with rfl | hc
    · exact parseField_sound pinned v _ hf
    · exact parseFieldList_sound pinned r rest hr c hc
end

end SaModel.SchemaJson
