import SaModel.Lemmas.C09Meta
import SaModel.Lemmas.C09Sound
/-
C09: the metadata `CustomField` / `into_field` produce is a HashMap in normal form (`metaOK`): what `metaOfObj` returns
is strictly key-sorted, and `merge_strategy_with_metadata` keeps it so.
-/
namespace SaModel.SchemaJson
open SaModel SaModel.Dsl

theorem String.lt_of_not_lt_ne {a b : String} (h1 : ¬ a < b) (h2 : a ≠ b) : b < a := by
  apply Classical.byContradiction
  intro h3
  exact h2 (String.le_antisymm (String.not_lt.mp h3) (String.not_lt.mp h1))

theorem mem_insertMeta (k v : String) : (m : Metadata) → ∀ kv ∈ insertMeta k v m, kv = (k, v) ∨ kv ∈ m
  | [], kv, h => by simp [insertMeta] at h; exact Or.inl h
  | (k', v') :: r, kv, h => by
    unfold insertMeta at h
    split at h
    · simp only [List.mem_cons] at h ⊢
      rcases h with h | h | h
      · exact Or.inl h
      · exact Or.inr (Or.inl h)
      · exact Or.inr (Or.inr h)
    · split at h
      · simp only [List.mem_cons] at h ⊢
        rcases h with h | h
        · exact Or.inl h
        · exact Or.inr (Or.inr h)
      · simp only [List.mem_cons] at h ⊢
        rcases h with h | h
        · exact Or.inr (Or.inl h)
        · rcases mem_insertMeta k v r kv h with h | h
          · exact Or.inl h
          · exact Or.inr (Or.inr h)

theorem sorted_insertMeta (k v : String) : (m : Metadata) → sortedMeta m = true → sortedMeta (insertMeta k v m) = true
  | [], _ => rfl
  | (k', v') :: r, h => by
    have h' := h
    simp only [sortedMeta, Bool.and_eq_true, List.all_eq_true, decide_eq_true_eq] at h
    unfold insertMeta
    split
    · rename_i hlt
      simp only [sortedMeta, Bool.and_eq_true, List.all_eq_true, decide_eq_true_eq, List.mem_cons]
      refine ⟨?_, h.1, h.2⟩
      intro kv hkv
      rcases hkv with rfl | hkv
      · exact hlt
      · exact String.lt_trans hlt (h.1 kv hkv)
    · split
      · rename_i _ heq
        subst heq
        simp only [sortedMeta, Bool.and_eq_true, List.all_eq_true, decide_eq_true_eq]
        exact h
      · rename_i h1 h2
        have hlt : k' < k := String.lt_of_not_lt_ne h1 h2
        simp only [sortedMeta, Bool.and_eq_true, List.all_eq_true, decide_eq_true_eq]
        refine ⟨?_, sorted_insertMeta k v r h.2⟩
        intro kv hkv
        rcases mem_insertMeta k v r kv hkv with rfl | hkv
        · exact hlt
        · exact h.1 kv hkv

theorem metaOfObj_sorted : (o : JObj) → (m : Metadata) → metaOfObj o = .ok m → sortedMeta m = true
  | .nil, m, h => by cases h; rfl
  | .cons k (.str v) r, m, h => by
    unfold metaOfObj at h
    obtain ⟨m', hm', h⟩ := bind_ok_inv h
    have ih := metaOfObj_sorted r m' hm'
    cases h
    split
    · exact ih
    · exact sorted_insertMeta k v m' ih
  | .cons _ .null _, _, h | .cons _ (.bool _) _, _, h | .cons _ (.num _) _, _, h | .cons _ (.arr _) _, _, h
  | .cons _ (.obj _) _, _, h => by simp [metaOfObj, fail] at h

theorem merge_sorted {md m : Metadata} {st : Option Strategy} (h : mergeStrategyWithMetadata md st = .ok m)
    (hs : sortedMeta md = true) : sortedMeta m = true := by
  unfold mergeStrategyWithMetadata at h
  split at h
  · cases h
  · cases st with
    | none => cases h; exact hs
    | some s => cases h; exact sorted_insertMeta _ _ _ hs

end SaModel.SchemaJson
