import SaModel.Lemmas.C09Dsl
/-
`parseTerm (showTerm t ++ rest) = (t, rest)` for every well-formed term (C09, dsl level), by structural recursion
over the mutual `Term` / `Terms`.
-/
namespace SaModel.Dsl

mutual
/-- fuel that certainly suffices to parse the printed form -/
def Term.need : Term → Nat
  | .mk _ _ args => args.need + 2
def Terms.need : Terms → Nat
  | .nil => 0
  | .cons t r => max t.need r.need + 1
end

mutual
/-- well-formed: an unquoted name is a non-empty run of identifier characters -/
def Term.OK : Term → Prop
  | .mk name quoted args => (quoted = false → name ≠ [] ∧ ∀ c ∈ name, isIdentChar c = true) ∧ args.OK
def Terms.OK : Terms → Prop
  | .nil => True
  | .cons t r => t.OK ∧ r.OK
end

/-- what may follow a printed term: nothing, a comma or a closing parenthesis -/
def RestOK (rest : Text) : Prop := ∀ c r, rest = c :: r → c = ',' ∨ c = ')'

theorem RestOK.not_ident {rest : Text} (h : RestOK rest) : ∀ c r, rest = c :: r → isIdentChar c = false := by
  intro c r hr
  rcases h c r hr with rfl | rfl <;> decide

theorem RestOK.trim {rest : Text} (h : RestOK rest) : trimStart rest = rest := by
  cases rest with
  | nil => rfl
  | cons c r =>
    apply trimStart_cons_of_not_ws
    rcases h c r rfl with rfl | rfl <;> decide

theorem RestOK.not_paren {rest : Text} (h : RestOK rest) : startsWith '(' rest = false := by
  cases rest with
  | nil => rfl
  | cons c r =>
    rcases h c r rfl with rfl | rfl <;> rfl

theorem restOK_tail (esc : Char → Bool) (r : Terms) (rest : Text) : RestOK (showArgsTail esc r ++ rest) := by
  intro c r' h
  cases r with
  | nil => simp [showArgsTail] at h; exact Or.inr h.1.symm
  | cons t r => simp [showArgsTail] at h; exact Or.inl h.1.symm

theorem parseArgLoop_space (p : Bool) (f : Nat) (s : Text) : parseArgLoop p f (' ' :: s) = parseArgLoop p f s := by
  cases f with
  | zero => simp [parseArgLoop]
  | succ f =>
    have : trimStart (' ' :: s) = trimStart s := by
      have : isWhitespace ' ' = true := by decide
      simp [trimStart, this]
    simp [parseArgLoop, this]

/-- a printed well-formed term followed by anything starts with a non-white-space character -/
theorem trimStart_showTerm (esc : Char → Bool) (t : Term) (h : t.OK) (x : Text) :
    trimStart (showTerm esc t ++ x) = showTerm esc t ++ x := by
  cases t with
  | mk name quoted args =>
    simp only [Term.OK] at h
    cases quoted with
    | true =>
      simp only [showTerm, showQuoted, ↓reduceIte, List.cons_append]
      exact trimStart_cons_of_not_ws (by decide)
    | false =>
      obtain ⟨hne, hid⟩ := h.1 rfl
      cases name with
      | nil => exact absurd rfl hne
      | cons c n =>
        simp only [showTerm, Bool.false_eq_true, ↓reduceIte, List.cons_append]
        exact trimStart_cons_of_not_ws (identChar_not_ws (hid c (by simp)))

theorem parseTermName_show (esc : Char → Bool) (name : Text) (quoted : Bool)
    (h : quoted = false → name ≠ [] ∧ ∀ c ∈ name, isIdentChar c = true) (x : Text)
    (hx : ∀ c r, x = c :: r → isIdentChar c = false) :
    parseTermName false ((if quoted then showQuoted esc name else name) ++ x) = .ok (name, quoted, x) := by
  cases quoted with
  | true =>
    have := scanQuoted_escapeStr esc name x
    simp only [↓reduceIte, showQuoted, List.cons_append, List.append_assoc, List.nil_append, parseTermName, startsWith,
      decide_true, List.tail_cons, Bool.false_eq_true, this]
    rfl
  | false =>
    obtain ⟨hne, hid⟩ := h rfl
    cases name with
    | nil => exact absurd rfl hne
    | cons c n =>
      have hq : c ≠ '"' := by
        intro hc; subst hc
        have := hid '"' (by simp)
        revert this; decide
      have hs := spanIdent_append (c :: n) x hid hx
      simp only [List.cons_append] at hs
      simp only [Bool.false_eq_true, ↓reduceIte, List.cons_append, parseTermName, startsWith, hq, decide_false,
        parseIdentTermName, hs]
      rfl

mutual
theorem parseTerm_show (esc : Char → Bool) : (t : Term) → t.OK → ∀ (f : Nat) (rest : Text), t.need ≤ f → RestOK rest →
    parseTerm false f (showTerm esc t ++ rest) = .ok (t, rest)
  | .mk name quoted args, hok, f, rest, hf, hrest => by
    simp only [Term.need] at hf
    obtain ⟨f', rfl⟩ : ∃ f', f = f' + 1 := ⟨f - 1, by omega⟩
    obtain ⟨f'', rfl⟩ : ∃ f'', f' = f'' + 1 := ⟨f' - 1, by omega⟩
    simp only [Term.OK] at hok
    have htrim := trimStart_showTerm esc (.mk name quoted args) (by simpa [Term.OK] using hok) rest
    -- what follows the name is `(`, or the rest
    have hx : ∀ c r, showArgs esc args ++ rest = c :: r → isIdentChar c = false := by
      intro c r h
      cases args with
      | nil => exact hrest.not_ident c r (by simpa [showArgs] using h)
      | cons a as =>
        simp [showArgs] at h
        rw [← h.1]; decide
    have hname := parseTermName_show esc name quoted hok.1 (showArgs esc args ++ rest) hx
    have htrim2 : trimStart (showArgs esc args ++ rest) = showArgs esc args ++ rest := by
      cases args with
      | nil => simpa [showArgs] using hrest.trim
      | cons a as =>
        simp only [showArgs, List.cons_append]
        exact trimStart_cons_of_not_ws (by decide)
    have hargs : parseArguments false (f'' + 1) (showArgs esc args ++ rest) = .ok (args, rest) := by
      cases args with
      | nil =>
        simp only [showArgs, List.nil_append, parseArguments, hrest.not_paren, Bool.false_eq_true, ↓reduceIte]
        rfl
      | cons a as =>
        have hl := parseArgLoop_show esc (.cons a as) hok.2 (by simp) f'' rest (by simp only [Terms.need] at hf ⊢; omega)
        have hp : trimStart (')' :: rest) = ')' :: rest := trimStart_cons_of_not_ws (by decide)
        have hs1 : ∀ x, startsWith '(' ('(' :: x) = true := by intro x; simp [startsWith]
        have hs2 : ∀ x, startsWith ')' (')' :: x) = true := by intro x; simp [startsWith]
        simp only [showArgs, List.tail_cons, List.append_assoc] at hl
        simp only [showArgs, List.cons_append, List.append_assoc, parseArguments, hs1, ↓reduceIte,
          List.tail_cons, hl, bind, Except.bind, hp, hs2]
        rfl
    rw [showTerm, List.append_assoc] at htrim ⊢
    simp only [parseTerm, htrim, hname, bind, Except.bind, htrim2, hargs]
    rfl
theorem parseArgLoop_show (esc : Char → Bool) : (ts : Terms) → ts.OK → ts ≠ .nil → ∀ (f : Nat) (rest : Text), ts.need ≤ f →
    parseArgLoop false f ((showArgs esc ts).tail ++ rest) = .ok (ts, ')' :: rest)
  | .nil, _, hne, _, _, _ => absurd rfl hne
  | .cons t r, hok, _, f, rest, hf => by
    simp only [Terms.need] at hf
    obtain ⟨f', rfl⟩ : ∃ f', f = f' + 1 := ⟨f - 1, by omega⟩
    simp only [Terms.OK] at hok
    have ht := parseTerm_show esc t hok.1 f' (showArgsTail esc r ++ rest) (by omega) (restOK_tail esc r rest)
    have htrim := trimStart_showTerm esc t hok.1 (showArgsTail esc r ++ rest)
    have htrim2 := (restOK_tail esc r rest).trim
    simp only [showArgs, List.tail_cons, List.append_assoc, parseArgLoop, htrim, ht, bind, Except.bind, htrim2]
    cases r with
    | nil =>
      have hs : startsWith ',' (')' :: rest) = false := by simp [startsWith]
      simp only [showArgsTail, List.cons_append, List.nil_append, hs, Bool.false_eq_true, ↓reduceIte]
      rfl
    | cons t' r' =>
      have hl := parseArgLoop_show esc (.cons t' r') hok.2 (by simp) f' rest (by omega)
      have hs : ∀ x, startsWith ',' (',' :: x) = true := by intro x; simp [startsWith]
      simp only [showArgs, List.tail_cons, List.append_assoc] at hl
      simp only [showArgsTail, List.cons_append, List.append_assoc, hs, ↓reduceIte, List.tail_cons,
        parseArgLoop_space, hl]
      rfl
end

end SaModel.Dsl
