import SaModel.Spec.SchemaOK
import SaModel.Lemmas.C06InterpBase
import SaModel.Lemmas.C06Side
/-
C09 (b): every field `Tracer::to_field` emits lies in the round-trip domain `SchemaOK` of the JSON form.

`to_field_schemaOK`: for every tracer whose primitive nodes hold a type of the tracer's leaf alphabet and no strategy
(`C07.WF`, the reachable-state invariant of `from_samples`), options whose overwrites are themselves in the domain
(`OwOK`; an overwrite replaces the traced field as given), the field is `schemaOK` — for EVERY option, `allow_null_fields`
included: a `Null` field is always emitted nullable, also for a position no sample reached (`Tracer::Unknown`; repo fix
5168cf7 — before it `UnknownTracer::to_field` kept the unset nullable flag and the JSON form read the field back nullable:
`Props.C09.C09_unseen_position_outside_pinned`).
The constructor lemmas `ok_*` are shared with the `from_type` side (Lemmas/C09TracedTy.lean).
-/
namespace SaModel.Lemmas.C09T
open SaModel SaModel.Trace SaModel.SchemaJson SaModel.Lemmas.C06

/-- the overwrites of the options are fields of the domain -/
def OwOK (o : Options) : Prop := ∀ kv ∈ o.overwrites, schemaOK kv.2 = true

theorem wo_inv {o : Options} {n p : String} {k : Unit → R Field} {f : Field} (h : withOverwrite o n p k = .ok f) :
    (∃ kv ∈ o.overwrites, f = kv.2) ∨ k () = .ok f := by
  unfold withOverwrite Options.get_overwrite at h
  cases hf : o.overwrites.find? (fun kv => kv.1 == p) with
  | none => simp only [hf] at h; exact .inr h
  | some kv =>
    simp only [hf] at h
    split at h
    · simp [fail] at h
    · cases h; exact .inl ⟨kv, List.mem_of_find?_eq_some hf, rfl⟩

/-! ### constructor lemmas -/

theorem ok_mk {n : String} {dt : DataType} {nl : Bool} {m : Metadata} (h1 : validType m dt = true)
    (h2 : metaOK m = true) (h3 : reprType nl dt = true) : schemaOK (.mk n dt nl m) = true := by
  simp [schemaOK, validField, reprField, h1, h2, h3]

theorem ok_inv {n : String} {dt : DataType} {nl : Bool} {m : Metadata} (h : schemaOK (.mk n dt nl m) = true) :
    validType m dt = true ∧ metaOK m = true ∧ reprType nl dt = true := by
  simpa [schemaOK, validField, reprField, and_assoc] using h

theorem ok_valid {f : Field} (h : schemaOK f = true) : validField f = true := by
  simp only [schemaOK, Bool.and_eq_true] at h; exact h.1

theorem ok_repr {f : Field} (h : schemaOK f = true) : reprField f = true := by
  simp only [schemaOK, Bool.and_eq_true] at h; exact h.2

theorem meta_nil : metaOK [] = true := by decide
theorem strat_nil : stratClass [] = .absent := by decide
theorem noStrat_nil : noStrat [] = true := by decide

theorem validFields_ofList : ∀ l : List Field, (∀ f ∈ l, validField f = true) → validFields (Fields.ofList l) = true
  | [], _ => by simp [Fields.ofList, validFields]
  | f :: r, h => by
    simp only [Fields.ofList, validFields, Bool.and_eq_true]
    exact ⟨h f (by simp), validFields_ofList r (fun g hg => h g (by simp [hg]))⟩

theorem reprFields_ofList : ∀ l : List Field, (∀ f ∈ l, reprField f = true) → reprFields (Fields.ofList l) = true
  | [], _ => by simp [Fields.ofList, reprFields]
  | f :: r, h => by
    simp only [Fields.ofList, reprFields, Bool.and_eq_true]
    exact ⟨h f (by simp), reprFields_ofList r (fun g hg => h g (by simp [hg]))⟩

theorem validFields_mem : ∀ fs : Fields, validFields fs = true → ∀ f ∈ fs.toList, validField f = true
  | .nil, _, f, hf => by simp [Fields.toList] at hf
  | .cons g r, h, f, hf => by
    simp only [validFields, Bool.and_eq_true] at h
    simp only [Fields.toList, List.mem_cons] at hf
    rcases hf with rfl | hf
    · exact h.1
    · exact validFields_mem r h.2 f hf

theorem reprFields_mem : ∀ fs : Fields, reprFields fs = true → ∀ f ∈ fs.toList, reprField f = true
  | .nil, _, f, hf => by simp [Fields.toList] at hf
  | .cons g r, h, f, hf => by
    simp only [reprFields, Bool.and_eq_true] at h
    simp only [Fields.toList, List.mem_cons] at hf
    rcases hf with rfl | hf
    · exact h.1
    · exact reprFields_mem r h.2 f hf

/-- the strategies a struct field may carry -/
def structMeta (m : Metadata) : Bool :=
  (stratClass m = .absent || stratClass m = .known .mapAsStruct || stratClass m = .known .tupleAsStruct) && metaOK m

theorem structMeta_nil : structMeta [] = true := by decide
theorem structMeta_map : structMeta (strategyMeta .mapAsStruct) = true := by decide
theorem structMeta_tuple : structMeta (strategyMeta .tupleAsStruct) = true := by decide

theorem ok_struct {n : String} {nl : Bool} {m : Metadata} {l : List Field} (hm : structMeta m = true)
    (h : ∀ f ∈ l, schemaOK f = true) : schemaOK (.mk n (.struct (Fields.ofList l)) nl m) = true := by
  simp only [structMeta, Bool.and_eq_true] at hm
  refine ok_mk ?_ hm.2 ?_
  · simp only [validType, Bool.and_eq_true]
    exact ⟨hm.1, validFields_ofList l (fun f hf => ok_valid (h f hf))⟩
  · simp only [reprType]
    exact reprFields_ofList l (fun f hf => ok_repr (h f hf))

/-- the children of a struct field of the domain are fields of the domain -/
theorem ok_struct_children {n : String} {nl : Bool} {m : Metadata} {fs : Fields}
    (h : schemaOK (.mk n (.struct fs) nl m) = true) : ∀ f ∈ fs.toList, schemaOK f = true := by
  obtain ⟨h1, _, h3⟩ := ok_inv h
  simp only [validType, Bool.and_eq_true] at h1
  simp only [reprType] at h3
  intro f hf
  simp only [schemaOK, Bool.and_eq_true]
  exact ⟨validFields_mem fs h1.2 f hf, reprFields_mem fs h3 f hf⟩

theorem ok_null (n : String) : schemaOK (.mk n .null true []) = true :=
  ok_mk (by simp [validType, strat_nil]) meta_nil (by simp [reprType])

theorem ok_list (b : Bool) {n : String} {nl : Bool} {item : Field} (h : schemaOK item = true) :
    schemaOK (.mk n (if b then .largeList item else .list item) nl []) = true := by
  cases b <;>
    exact ok_mk (by simp [validType, noStrat_nil, ok_valid h]) meta_nil (by simp [reprType, ok_repr h])

theorem ok_map {n : String} {nl : Bool} {kf vf : Field} (hk : schemaOK kf = true) (hv : schemaOK vf = true) :
    schemaOK (.mk n (.map (Field.mk "entries" (.struct (Fields.ofList [kf, vf])) false []) false) nl []) = true := by
  have he : schemaOK (Field.mk "entries" (.struct (Fields.ofList [kf, vf])) false []) = true :=
    ok_struct structMeta_nil (by intro f hf; simp at hf; rcases hf with rfl | rfl <;> assumption)
  refine ok_mk ?_ meta_nil ?_
  · simp only [validType, noStrat_nil, Bool.true_and, Bool.and_eq_true]
    exact ⟨by simp [isStruct2, Fields.ofList], ok_valid he⟩
  · simp only [reprType, Bool.not_false, Bool.true_and]; exact ok_repr he

theorem ok_dictionary (o : Options) (n : String) (nl : Bool) :
    schemaOK (default_dictionary_field n nl o.string_type) = true := by
  simp only [default_dictionary_field, Options.string_type]
  split <;> exact ok_mk (by simp [validType, noStrat_nil, isIntType, isDictValueType]) meta_nil (by simp [reprType])

theorem ok_unknown_variant : schemaOK unknown_variant_field = true := by decide

/-- the leaf types of the tracer's alphabet other than `Null`: valid without a strategy, expressible -/
theorem leaf_plain (o : Options) : ∀ ty ∈ leafTypes o, isNull ty = true ∨ (validType [] ty && reprType false ty) = true := by
  simp only [leafTypes, Options.string_type]
  cases o.string_as_large_utf8 <;> decide

theorem repr_mono {nl : Bool} {ty : DataType} (h : reprType false ty = true) : reprType nl ty = true := by
  cases ty <;> simp_all [reprType]

theorem ok_leaf (o : Options) {n : String} {nl : Bool} {ty : DataType} (hty : ty ∈ leafTypes o) (hn : isNull ty = false) :
    schemaOK (.mk n ty nl []) = true := by
  rcases leaf_plain o ty hty with h | h
  · rw [hn] at h; cases h
  · simp only [Bool.and_eq_true] at h
    exact ok_mk h.1 meta_nil (repr_mono h.2)

/-! ### unions -/

/-- what the variant loop of `UnionTracer::to_field` establishes from index `idx` on -/
structure OkU (idx : Nat) (l : List (Int × Field)) : Prop where
  valid : validUFields (UFields.ofList l) = true
  repr : reprUFields (UFields.ofList l) = true
  ids : idsFrom idx (UFields.ofList l) = true

theorem okU_nil (idx : Nat) : OkU idx [] :=
  ⟨by simp [UFields.ofList, validUFields], by simp [UFields.ofList, reprUFields], by simp [UFields.ofList, idsFrom]⟩

theorem okU_cons {idx : Nat} {f : Field} {l : List (Int × Field)} (hi : ¬ idx > 127) (hf : schemaOK f = true)
    (h : OkU (idx + 1) l) : OkU idx ((Int.ofNat idx, f) :: l) :=
  ⟨by simp only [UFields.ofList, validUFields, Bool.and_eq_true]; exact ⟨ok_valid hf, h.valid⟩,
   by simp only [UFields.ofList, reprUFields, Bool.and_eq_true]; exact ⟨ok_repr hf, h.repr⟩,
   by simp [UFields.ofList, idsFrom, h.ids]; omega⟩

theorem ok_union {n : String} {nl : Bool} {l : List (Int × Field)} (h : OkU 0 l) :
    schemaOK (.mk n (.union (UFields.ofList l) .dense) nl []) = true :=
  ok_mk (by simp [validType, noStrat_nil, h.valid]) meta_nil (by simp [reprType, h.ids, h.repr])

/-! ### the traversal -/

mutual
theorem to_field_schemaOK (o : Options) (how : OwOK o) :
    ∀ (t : Tracer) (f : Field), C07.WF o t → t.to_field o = .ok f → schemaOK f = true
  | .unknown n p nl, f, _, h => by
    rw [Tracer.to_field] at h
    rcases wo_inv h with ⟨kv, hkv, rfl⟩ | h
    · exact how kv hkv
    · split at h
      · simp [fail] at h
      · cases h; exact ok_null n
  | .primitive n p nl ty st, f, hw, h => by
    rw [C07.WF] at hw
    obtain ⟨rfl, hs⟩ := hw
    have hty := (C07.mem_leafStates.mp hs).1
    rw [Tracer.to_field] at h
    rcases wo_inv h with ⟨kv, hkv, rfl⟩ | h
    · exact how kv hkv
    · cases hnull : isNull ty with
      | true =>
        simp only [hnull, Bool.and_true, if_true] at h
        split at h
        · simp [fail] at h
        · cases h; exact ok_null n
      | false =>
        simp only [hnull, Bool.and_false, Bool.false_eq_true, if_false] at h
        split at h
        · split at h
          · cases h; exact ok_leaf o hty hnull
          · cases h; exact ok_dictionary o n nl
        · cases h; exact ok_leaf o hty hnull
  | .list n p nl i, f, hw, h => by
    rw [C07.WF] at hw
    rw [Tracer.to_field] at h
    rcases wo_inv h with ⟨kv, hkv, rfl⟩ | h
    · exact how kv hkv
    · obtain ⟨item, hi, h⟩ := bind_ok'.mp h
      cases h
      exact ok_list _ (to_field_schemaOK o how i item hw hi)
  | .map n p nl k v, f, hw, h => by
    rw [C07.WF] at hw
    rw [Tracer.to_field] at h
    rcases wo_inv h with ⟨kv, hkv, rfl⟩ | h
    · exact how kv hkv
    · obtain ⟨kf, hk, h⟩ := bind_ok'.mp h
      obtain ⟨vf, hv, h⟩ := bind_ok'.mp h
      cases h
      exact ok_map (to_field_schemaOK o how k kf hw.1 hk) (to_field_schemaOK o how v vf hw.2 hv)
  | .struct n p nl fs m s, f, hw, h => by
    rw [C07.WF] at hw
    rw [Tracer.to_field] at h
    rcases wo_inv h with ⟨kv, hkv, rfl⟩ | h
    · exact how kv hkv
    · obtain ⟨fields, hfs, h⟩ := bind_ok'.mp h
      have ih := to_fieldsF_schemaOK o how s fs fields hw hfs
      cases m with
      | map => cases h; exact ok_struct structMeta_map (fun g hg => ih g ((mem_sortByName fields g).1 hg))
      | struct => cases h; exact ok_struct structMeta_nil ih
  | .tuple n p nl ts, f, hw, h => by
    rw [C07.WF] at hw
    rw [Tracer.to_field] at h
    rcases wo_inv h with ⟨kv, hkv, rfl⟩ | h
    · exact how kv hkv
    · obtain ⟨fields, hfs, h⟩ := bind_ok'.mp h
      cases h
      exact ok_struct structMeta_tuple (to_fieldsT_schemaOK o how ts fields hw hfs)
  | .union n p nl vs, f, hw, h => by
    rw [C07.WF] at hw
    rw [Tracer.to_field] at h
    rcases wo_inv h with ⟨kv, hkv, rfl⟩ | h
    · exact how kv hkv
    · split at h
      · cases h; exact ok_dictionary o n nl
      · split at h
        · simp [fail] at h
        · obtain ⟨fields, hfs, h⟩ := bind_ok'.mp h
          cases h
          exact ok_union (to_fieldsV_schemaOK o how vs 0 fields hw hfs)
theorem to_fieldsT_schemaOK (o : Options) (how : OwOK o) :
    ∀ (ts : Tracers) (l : List Field), C07.TsWF o ts → ts.to_fields o = .ok l → ∀ f ∈ l, schemaOK f = true
  | .nil, l, _, h => by
    simp only [Tracers.to_fields] at h; cases h; simp
  | .cons t r, l, hw, h => by
    rw [C07.TsWF] at hw
    simp only [Tracers.to_fields] at h
    obtain ⟨f, hf, h⟩ := bind_ok'.mp h
    obtain ⟨fs, hfs, h⟩ := bind_ok'.mp h
    cases h
    intro g hg
    rcases List.mem_cons.1 hg with rfl | hg
    · exact to_field_schemaOK o how t _ hw.1 hf
    · exact to_fieldsT_schemaOK o how r fs hw.2 hfs g hg
theorem to_fieldsF_schemaOK (o : Options) (how : OwOK o) (s : Nat) :
    ∀ (fs : TFields) (l : List Field), C07.FWF o s fs → fs.to_fields o = .ok l → ∀ f ∈ l, schemaOK f = true
  | .nil, l, _, h => by
    simp only [TFields.to_fields] at h; cases h; simp
  | .cons _ _ t r, l, hw, h => by
    rw [C07.FWF] at hw
    simp only [TFields.to_fields] at h
    obtain ⟨f, hf, h⟩ := bind_ok'.mp h
    obtain ⟨fs', hfs, h⟩ := bind_ok'.mp h
    cases h
    intro g hg
    rcases List.mem_cons.1 hg with rfl | hg
    · exact to_field_schemaOK o how t _ hw.2.2.2.1 hf
    · exact to_fieldsF_schemaOK o how s r fs' hw.2.2.2.2 hfs g hg
theorem to_fieldsV_schemaOK (o : Options) (how : OwOK o) :
    ∀ (vs : Variants) (idx : Nat) (l : List (Int × Field)), C07.VWF o vs → vs.to_fields o idx = .ok l → OkU idx l
  | .nil, idx, l, _, h => by
    simp only [Variants.to_fields] at h; cases h; exact okU_nil idx
  | .absent r, idx, l, hw, h => by
    rw [C07.VWF] at hw
    simp only [Variants.to_fields] at h
    split at h
    · obtain ⟨_, hx, _⟩ := bind_ok'.mp h; simp [fail] at hx
    rename_i hidx
    obtain ⟨fs, hfs, h⟩ := bind_ok'.mp h
    cases h
    exact okU_cons hidx ok_unknown_variant (to_fieldsV_schemaOK o how r (idx + 1) fs hw hfs)
  | .present _ t r, idx, l, hw, h => by
    rw [C07.VWF] at hw
    simp only [Variants.to_fields] at h
    split at h
    · obtain ⟨_, hx, _⟩ := bind_ok'.mp h; simp [fail] at hx
    rename_i hidx
    obtain ⟨f, hf, h⟩ := bind_ok'.mp h
    obtain ⟨fs, hfs, h⟩ := bind_ok'.mp h
    cases h
    exact okU_cons hidx (to_field_schemaOK o how t f hw.1 hf) (to_fieldsV_schemaOK o how r (idx + 1) fs hw.2 hfs)
end

/-- the packaging for `Tracer.to_schema` -/
theorem to_schema_schemaOK (o : Options) (how : OwOK o) (t : Tracer)
    (hw : C07.WF o t) (fields : List Field) (h : t.to_schema o = .ok fields) : ∀ f ∈ fields, schemaOK f = true := by
  obtain ⟨n, children, md, hr, rfl⟩ := to_schema_ok o t fields h
  exact ok_struct_children (to_field_schemaOK o how t _ hw hr)

end SaModel.Lemmas.C09T
