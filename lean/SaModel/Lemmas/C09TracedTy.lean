import SaModel.Lemmas.C09Traced
import SaModel.Lemmas.C08NotWalkable
/-
C09 (b), `from_type`: every field of the documented mapping `Spec.mapping` lies in the round-trip domain `SchemaOK`
(structural recursion over the type description), hence — `C08_from_type` (`fromType_spec`): `from_type` IS the documented
result — every schema `from_type` returns, for ALL options (a `Null` field of the mapping is always nullable, so
`allow_null_fields` needs no hypothesis here) whose overwrites are in the domain.
-/
namespace SaModel.Lemmas.C09T
open SaModel SaModel.Trace SaModel.Trace.Spec SaModel.SchemaJson SaModel.Lemmas.C06 SaModel.Lemmas.C08

theorem ow_inv {o : Options} {n p : String} {k : Unit → R Field} {f : Field} (h : overwritten o n p k = .ok f) :
    (∃ kv ∈ o.overwrites, f = kv.2) ∨ k () = .ok f := by
  unfold overwritten at h
  cases hf : o.overwrites.find? (fun kv => kv.1 = p) with
  | none => simp only [hf] at h; exact .inr h
  | some kv =>
    obtain ⟨k', f'⟩ := kv
    simp only [hf] at h
    split at h
    · cases h; exact .inl ⟨_, List.mem_of_find?_eq_some hf, rfl⟩
    · simp [fail] at h

theorem ok_plain {n : String} {nl : Bool} {ty : DataType} (h : (validType [] ty && reprType false ty) = true) :
    schemaOK (.mk n ty nl []) = true := by
  simp only [Bool.and_eq_true] at h
  exact ok_mk h.1 meta_nil (repr_mono h.2)

theorem ok_int (t : IntTy) (n : String) (nl : Bool) : schemaOK (.mk n (intDataType t) nl []) = true := by
  cases t <;> exact ok_plain (by decide)

theorem ok_nullField {o : Options} {n : String} {f : Field} (h : nullField o n = .ok f) : schemaOK f = true := by
  unfold nullField at h
  split at h
  · cases h; exact ok_null n
  · simp [fail] at h

theorem ok_stringField (o : Options) (n : String) (nl : Bool) : schemaOK (stringField o n nl) = true := by
  unfold stringField
  split
  · exact ok_dictionary o n nl
  · simp only [Options.string_type]; split <;> exact ok_plain (by decide)

theorem structMeta_tupleMeta : structMeta tupleMeta = true := by decide

mutual
theorem mapping_schemaOK (o : Options) (how : OwOK o) :
    ∀ (ty : Ty) (name path : String) (nl : Bool) (f : Field), mapping o name path nl ty = .ok f → schemaOK f = true
  | .unit, name, path, nl, f, h => by
    rw [mapping] at h
    rcases ow_inv h with ⟨kv, hkv, rfl⟩ | h
    · exact how kv hkv
    · exact ok_nullField h
  | .unitStruct _, name, path, nl, f, h => by
    rw [mapping] at h
    rcases ow_inv h with ⟨kv, hkv, rfl⟩ | h
    · exact how kv hkv
    · exact ok_nullField h
  | .bool, name, path, nl, f, h => by
    rw [mapping] at h
    rcases ow_inv h with ⟨kv, hkv, rfl⟩ | h
    · exact how kv hkv
    · cases h; exact ok_plain (by decide)
  | .int t, name, path, nl, f, h => by
    rw [mapping] at h
    rcases ow_inv h with ⟨kv, hkv, rfl⟩ | h
    · exact how kv hkv
    · cases h; exact ok_int t name nl
  | .f32, name, path, nl, f, h => by
    rw [mapping] at h
    rcases ow_inv h with ⟨kv, hkv, rfl⟩ | h
    · exact how kv hkv
    · cases h; exact ok_plain (by decide)
  | .f64, name, path, nl, f, h => by
    rw [mapping] at h
    rcases ow_inv h with ⟨kv, hkv, rfl⟩ | h
    · exact how kv hkv
    · cases h; exact ok_plain (by decide)
  | .char, name, path, nl, f, h => by
    rw [mapping] at h
    rcases ow_inv h with ⟨kv, hkv, rfl⟩ | h
    · exact how kv hkv
    · cases h; exact ok_plain (by decide)
  | .string, name, path, nl, f, h => by
    rw [mapping] at h
    rcases ow_inv h with ⟨kv, hkv, rfl⟩ | h
    · exact how kv hkv
    · cases h; exact ok_stringField o name nl
  | .bytes, name, path, nl, f, h => by
    rw [mapping] at h
    rcases ow_inv h with ⟨kv, hkv, rfl⟩ | h
    · exact how kv hkv
    · cases h; exact ok_plain (by decide)
  | .option t, name, path, nl, f, h => by
    rw [mapping] at h
    exact mapping_schemaOK o how t name path true f h
  | .newtypeStruct _ t, name, path, nl, f, h => by
    rw [mapping] at h
    exact mapping_schemaOK o how t name path nl f h
  | .vec t, name, path, nl, f, h => by
    rw [mapping] at h
    rcases ow_inv h with ⟨kv, hkv, rfl⟩ | h
    · exact how kv hkv
    · obtain ⟨item, hi, h⟩ := bind_ok'.mp h
      cases h
      exact ok_list _ (mapping_schemaOK o how t _ _ _ item hi)
  | .tuple ts, name, path, nl, f, h => by
    rw [mapping] at h
    rcases ow_inv h with ⟨kv, hkv, rfl⟩ | h
    · exact how kv hkv
    · obtain ⟨fs, hfs, h⟩ := bind_ok'.mp h
      cases h
      exact ok_struct structMeta_tupleMeta (mappingTys_schemaOK o how ts path 0 fs hfs)
  | .tupleStruct _ ts, name, path, nl, f, h => by
    rw [mapping] at h
    rcases ow_inv h with ⟨kv, hkv, rfl⟩ | h
    · exact how kv hkv
    · obtain ⟨fs, hfs, h⟩ := bind_ok'.mp h
      cases h
      exact ok_struct structMeta_tupleMeta (mappingTys_schemaOK o how ts path 0 fs hfs)
  | .map k v, name, path, nl, f, h => by
    rw [mapping] at h
    rcases ow_inv h with ⟨kv, hkv, rfl⟩ | h
    · exact how kv hkv
    · obtain ⟨kf, hk, h⟩ := bind_ok'.mp h
      obtain ⟨vf, hv, h⟩ := bind_ok'.mp h
      cases h
      exact ok_map (mapping_schemaOK o how k _ _ _ kf hk) (mapping_schemaOK o how v _ _ _ vf hv)
  | .struct _ fs, name, path, nl, f, h => by
    rw [mapping] at h
    rcases ow_inv h with ⟨kv, hkv, rfl⟩ | h
    · exact how kv hkv
    · obtain ⟨fields, hfs, h⟩ := bind_ok'.mp h
      cases h
      exact ok_struct structMeta_nil (mappingFields_schemaOK o how fs path fields hfs)
  | .enum _ vs, name, path, nl, f, h => by
    rw [mapping] at h
    rcases ow_inv h with ⟨kv, hkv, rfl⟩ | h
    · exact how kv hkv
    · split at h
      · cases h; exact ok_dictionary o name nl
      · split at h
        · simp [fail] at h
        · obtain ⟨children, hc, h⟩ := bind_ok'.mp h
          cases h
          exact ok_union (mappingVariants_schemaOK o how vs path 0 children hc)
theorem mappingTys_schemaOK (o : Options) (how : OwOK o) :
    ∀ (ts : Tys) (path : String) (i : Nat) (l : List Field), mappingTys o path i ts = .ok l → ∀ f ∈ l, schemaOK f = true
  | .nil, path, i, l, h => by
    simp only [mappingTys] at h; cases h; simp
  | .cons t r, path, i, l, h => by
    simp only [mappingTys] at h
    obtain ⟨f, hf, h⟩ := bind_ok'.mp h
    obtain ⟨fs, hfs, h⟩ := bind_ok'.mp h
    cases h
    intro g hg
    rcases List.mem_cons.1 hg with rfl | hg
    · exact mapping_schemaOK o how t _ _ _ _ hf
    · exact mappingTys_schemaOK o how r path (i + 1) fs hfs g hg
theorem mappingFields_schemaOK (o : Options) (how : OwOK o) :
    ∀ (fs : TyFields) (path : String) (l : List Field), mappingFields o path fs = .ok l → ∀ f ∈ l, schemaOK f = true
  | .nil, path, l, h => by
    simp only [mappingFields] at h; cases h; simp
  | .cons n t r, path, l, h => by
    simp only [mappingFields] at h
    obtain ⟨f, hf, h⟩ := bind_ok'.mp h
    obtain ⟨fs', hfs, h⟩ := bind_ok'.mp h
    cases h
    intro g hg
    rcases List.mem_cons.1 hg with rfl | hg
    · exact mapping_schemaOK o how t _ _ _ _ hf
    · exact mappingFields_schemaOK o how r path fs' hfs g hg
theorem mappingVariants_schemaOK (o : Options) (how : OwOK o) :
    ∀ (vs : TyVariants) (path : String) (i : Nat) (l : List (Int × Field)), mappingVariants o path i vs = .ok l → OkU i l
  | .nil, path, i, l, h => by
    simp only [mappingVariants] at h; cases h; exact okU_nil i
  | .unit n r, path, i, l, h => by
    simp only [mappingVariants] at h
    split at h
    · obtain ⟨_, hx, _⟩ := bind_ok'.mp h; simp [fail] at hx
    rename_i hidx
    obtain ⟨f, hf, h⟩ := bind_ok'.mp h
    obtain ⟨fs, hfs, h⟩ := bind_ok'.mp h
    cases h
    refine okU_cons hidx ?_ (mappingVariants_schemaOK o how r path (i + 1) fs hfs)
    rcases ow_inv hf with ⟨kv, hkv, rfl⟩ | hf
    · exact how kv hkv
    · exact ok_nullField hf
  | .newtype n t r, path, i, l, h => by
    simp only [mappingVariants] at h
    split at h
    · obtain ⟨_, hx, _⟩ := bind_ok'.mp h; simp [fail] at hx
    rename_i hidx
    obtain ⟨f, hf, h⟩ := bind_ok'.mp h
    obtain ⟨fs, hfs, h⟩ := bind_ok'.mp h
    cases h
    exact okU_cons hidx (mapping_schemaOK o how t _ _ _ _ hf) (mappingVariants_schemaOK o how r path (i + 1) fs hfs)
  | .tuple n ts r, path, i, l, h => by
    simp only [mappingVariants] at h
    split at h
    · obtain ⟨_, hx, _⟩ := bind_ok'.mp h; simp [fail] at hx
    rename_i hidx
    obtain ⟨f, hf, h⟩ := bind_ok'.mp h
    obtain ⟨fs, hfs, h⟩ := bind_ok'.mp h
    cases h
    refine okU_cons hidx ?_ (mappingVariants_schemaOK o how r path (i + 1) fs hfs)
    rcases ow_inv hf with ⟨kv, hkv, rfl⟩ | hf
    · exact how kv hkv
    · obtain ⟨cs, hcs, hf⟩ := bind_ok'.mp hf
      cases hf
      exact ok_struct structMeta_tupleMeta (mappingTys_schemaOK o how ts _ 0 cs hcs)
  | .struct n fields r, path, i, l, h => by
    simp only [mappingVariants] at h
    split at h
    · obtain ⟨_, hx, _⟩ := bind_ok'.mp h; simp [fail] at hx
    rename_i hidx
    obtain ⟨f, hf, h⟩ := bind_ok'.mp h
    obtain ⟨fs, hfs, h⟩ := bind_ok'.mp h
    cases h
    refine okU_cons hidx ?_ (mappingVariants_schemaOK o how r path (i + 1) fs hfs)
    rcases ow_inv hf with ⟨kv, hkv, rfl⟩ | hf
    · exact how kv hkv
    · obtain ⟨cs, hcs, hf⟩ := bind_ok'.mp hf
      cases hf
      exact ok_struct structMeta_nil (mappingFields_schemaOK o how fields _ cs hcs)
end

/-- the documented result of `from_type` is a list of fields of the domain -/
theorem fromTypeSpec_schemaOK (o : Options) (how : OwOK o) (ty : Ty) (fields : List Field)
    (h : fromTypeSpec o ty = .ok fields) : ∀ f ∈ fields, schemaOK f = true := by
  unfold fromTypeSpec at h
  split at h
  · simp [fail] at h
  split at h
  · simp [fail] at h
  split at h
  · simp [fail] at h
  obtain ⟨root, hr, h⟩ := bind_ok'.mp h
  have hroot := mapping_schemaOK o how ty _ _ _ root hr
  obtain ⟨n, dt, nl, md⟩ := root
  simp only [Field.nullable, Field.dataType] at h
  cases nl with
  | true => simp [fail] at h
  | false =>
    cases dt <;> simp [fail] at h
    subst h
    exact ok_struct_children hroot

/-- **every schema `from_type` returns lies in the domain** -/
theorem fromType_schemaOK (c : Code) (o : Options) (how : OwOK o) (ty : Ty) (fields : List Field)
    (h : fromType c o ty = .ok fields) : ∀ f ∈ fields, schemaOK f = true := by
  have ha := fromType_spec c o ty
  rw [h] at ha
  cases hs : fromTypeSpec o ty with
  | error e => rw [hs] at ha; cases e <;> exact ha.elim
  | ok fs' =>
    rw [hs] at ha
    have : fields = fs' := ha
    subst this
    exact fromTypeSpec_schemaOK o how ty fields hs

end SaModel.Lemmas.C09T
