import SaModel.Lemmas.C09Term
/-
C09, data-type level: the printed data type is the printed form of a well-formed term (`typeTerm`), which
`Term::from_str` reads back, and `build_data_type` maps that term and the printed children back to the type.
-/
namespace SaModel.Dsl
open SaModel

def identT (s : Text) : Term := .mk s false .nil
def callT (s : Text) (args : Terms) : Term := .mk s false args

/-- the term whose `Display` form `PrettyFieldDataType` writes -/
def typeTerm : DataType → Term
  | .null => identT "Null".toList | .boolean => identT "Bool".toList
  | .int8 => identT "I8".toList | .int16 => identT "I16".toList | .int32 => identT "I32".toList | .int64 => identT "I64".toList
  | .uint8 => identT "U8".toList | .uint16 => identT "U16".toList | .uint32 => identT "U32".toList | .uint64 => identT "U64".toList
  | .float16 => identT "F16".toList | .float32 => identT "F32".toList | .float64 => identT "F64".toList
  | .utf8 => identT "Utf8".toList | .largeUtf8 => identT "LargeUtf8".toList | .utf8View => identT "Utf8View".toList
  | .binary => identT "Binary".toList | .largeBinary => identT "LargeBinary".toList | .binaryView => identT "BinaryView".toList
  | .date32 => identT "Date32".toList | .date64 => identT "Date64".toList
  | .decimal128 p s => callT "Decimal128".toList (.cons (identT (showInt (Int.ofNat p))) (.cons (identT (showInt s)) .nil))
  | .duration u => callT "Duration".toList (.cons (identT (showUnit u)) .nil)
  | .time32 u => callT "Time32".toList (.cons (identT (showUnit u)) .nil)
  | .time64 u => callT "Time64".toList (.cons (identT (showUnit u)) .nil)
  | .timestamp u none => callT "Timestamp".toList (.cons (identT (showUnit u)) (.cons (identT "None".toList) .nil))
  | .timestamp u (some tz) => callT "Timestamp".toList (.cons (identT (showUnit u))
      (.cons (callT "Some".toList (.cons (.mk tz.toList true .nil) .nil)) .nil))
  | .fixedSizeBinary n => callT "FixedSizeBinary".toList (.cons (identT (showInt n)) .nil)
  | .fixedSizeList _ n => callT "FixedSizeList".toList (.cons (identT (showInt n)) .nil)
  | .struct _ => identT "Struct".toList | .map _ _ => identT "Map".toList | .union _ _ => identT "Union".toList
  | .dictionary _ _ => identT "Dictionary".toList | .largeList _ => identT "LargeList".toList | .list _ => identT "List".toList
  | .interval _ => identT "Interval".toList | .runEndEncoded _ _ => identT "RunEndEncoded".toList

theorem showType?_isSome (esc : Char → Bool) (dt : DataType) : (showType? esc dt).isSome = printable dt := by
  cases dt <;> rfl

theorem showType_eq_showTerm (esc : Char → Bool) (dt : DataType) (h : printable dt = true) :
    showType esc dt = showTerm esc (typeTerm dt) := by
  cases dt with
  | timestamp u tz =>
    cases tz <;>
      simp [showType, showType?, typeTerm, identT, callT, showTerm, showArgs, showArgsTail, showQuoted]
  | interval _ => simp [printable] at h
  | runEndEncoded _ _ => simp [printable] at h
  | _ => simp [showType, showType?, typeTerm, identT, callT, showTerm, showArgs, showArgsTail]

theorem showUnit_ident (u : TimeUnit) : showUnit u ≠ [] ∧ ∀ c ∈ showUnit u, isIdentChar c = true := by
  cases u <;> decide

theorem identT_OK {s : Text} (h : s ≠ [] ∧ ∀ c ∈ s, isIdentChar c = true) : (identT s).OK := by
  simp only [identT, Term.OK, Terms.OK, and_true]; intro _; exact h

theorem typeTerm_OK (dt : DataType) : (typeTerm dt).OK := by
  have lit : ∀ s : Text, (s ≠ [] ∧ ∀ c ∈ s, isIdentChar c = true) → ∀ args : Terms, args.OK → (callT s args).OK := by
    intro s h args ha; simp only [callT, Term.OK]; exact ⟨fun _ => h, ha⟩
  cases dt with
  | decimal128 p s =>
    exact lit _ (by decide) _ ⟨identT_OK (showInt_ident _), identT_OK (showInt_ident _), trivial⟩
  | duration u => exact lit _ (by decide) _ ⟨identT_OK (showUnit_ident u), trivial⟩
  | time32 u => exact lit _ (by decide) _ ⟨identT_OK (showUnit_ident u), trivial⟩
  | time64 u => exact lit _ (by decide) _ ⟨identT_OK (showUnit_ident u), trivial⟩
  | fixedSizeBinary n => exact lit _ (by decide) _ ⟨identT_OK (showInt_ident _), trivial⟩
  | fixedSizeList _ n => exact lit _ (by decide) _ ⟨identT_OK (showInt_ident _), trivial⟩
  | timestamp u tz =>
    cases tz with
    | none => exact lit _ (by decide) _ ⟨identT_OK (showUnit_ident u), identT_OK (by decide), trivial⟩
    | some tz =>
      refine lit _ (by decide) _ ⟨identT_OK (showUnit_ident u), lit _ (by decide) _ ⟨?_, trivial⟩, trivial⟩
      simp [Term.OK, Terms.OK]
  | _ => exact identT_OK (by decide)

theorem typeTerm_need (dt : DataType) : (typeTerm dt).need ≤ 16 := by
  cases dt with
  | timestamp u tz => cases tz <;> simp [typeTerm, identT, callT, Term.need, Terms.need]
  | _ => simp [typeTerm, identT, callT, Term.need, Terms.need]

theorem typeTerm_depth (dt : DataType) : (typeTerm dt).depth ≤ 2 := by
  cases dt with
  | timestamp u tz => cases tz <;> simp [typeTerm, identT, callT, Term.depth, Terms.depth]
  | _ => simp [typeTerm, identT, callT, Term.depth, Terms.depth]

/-- `Term::from_str` reads the printed data type back as its term -/
theorem fromStr_showType (esc : Char → Bool) (dt : DataType) (h : printable dt = true) :
    Term.fromStr (showType esc dt) = .ok (typeTerm dt) := by
  have hp := parseTerm_show esc (typeTerm dt) (typeTerm_OK dt) (3 * (showType esc dt).length + 16) []
    (by have := typeTerm_need dt; omega) (by intro c r h; cases h)
  rw [List.append_nil, ← showType_eq_showTerm esc dt h] at hp
  have hd : ¬ (typeTerm dt).depth > MAX_TERM_DEPTH := by
    have := typeTerm_depth dt; unfold MAX_TERM_DEPTH; omega
  simp only [Term.fromStr, Term.fromStrWith, hp, bind, Except.bind, trimStart, hd, ↓reduceIte]
  rfl

end SaModel.Dsl
