import SaModel.Lemmas.C09Json
import SaModel.Spec.SchemaSide
/-
C09: `validate_field` accepts ONLY valid fields — the converse of `validateField_of_valid`, under the side condition
`rangeField` of `Spec/SchemaSide.lean` (parameters in the range of their Rust types), which follows from `validField`.
(Before `fix: validate_map_field validates the entries field itself` a second side condition was needed, `entriesField`:
the entries field of a map was not validated as the struct field it is; `validField` implies it, `side_of_valid`.)
-/
namespace SaModel.SchemaJson
open SaModel SaModel.Dsl

/-! ## reading the strategy back -/

theorem parse_ok_stratClass {m : Metadata} {s : String} {st : Strategy} (hg : m.get? STRATEGY_KEY = some s)
    (hp : Strategy.parse s = .ok st) : stratClass m = .known st := by
  unfold stratClass
  simp only [hg]
  unfold Strategy.parse at hp
  split at hp
  · rename_i h1; cases hp; simp [h1]
  split at hp
  · rename_i h1 h2; cases hp; simp [h2]
  split at hp
  · rename_i h1 h2 h3; cases hp; simp [h3]
  split at hp
  · rename_i h1 h2 h3 h4; cases hp; simp [h4]
  · cases hp

theorem getStrategy_ok {m : Metadata} {o : Option Strategy} (h : getStrategyFromMetadata m = .ok o) :
    stratClass m = (match o with | none => .absent | some st => .known st) := by
  unfold getStrategyFromMetadata at h
  cases hg : m.get? STRATEGY_KEY with
  | none =>
    simp only [hg] at h
    cases h
    simp [stratClass, hg]
  | some s =>
    simp only [hg, bind, Except.bind] at h
    cases hp : Strategy.parse s with
    | error e => simp [hp] at h
    | ok st =>
      simp only [hp, pure, Except.pure] at h
      cases h
      exact parse_ok_stratClass hg hp

theorem noStrat_of_noStrategy {m : Metadata} (h : noStrategy m = .ok ()) : noStrat m = true := by
  unfold noStrategy at h
  cases hg : getStrategyFromMetadata m with
  | error e => simp [hg, bind, Except.bind] at h
  | ok o =>
    cases o with
    | none => simpa [noStrat] using getStrategy_ok hg
    | some st => simp [hg, bind, Except.bind, fail] at h

theorem bind_unit_ok {x : R Unit} {f : Unit → R Unit} (h : (x >>= f) = .ok ()) : x = .ok () ∧ f () = .ok () := by
  cases x with
  | error e => simp [bind, Except.bind] at h
  | ok u => exact ⟨rfl, h⟩

/-! ## `validate_field` accepts only valid fields -/

mutual
theorem validField_of_validate : (f : Field) → rangeField f = true → validateField f = .ok () → validField f = true
  | .mk _ dt _ m, hr, h => by
    simp only [rangeField] at hr
    simp only [validateField] at h
    simp only [validField]
    exact validType_of_validate m dt hr h
theorem validType_of_validate (m : Metadata) : (dt : DataType) → rangeType dt = true →
    validateDataType m dt = .ok () → validType m dt = true
  | .null, _, h => by
    simp only [validateDataType] at h
    cases hg : getStrategyFromMetadata m with
    | error e => simp [hg, bind, Except.bind] at h
    | ok o =>
      have hc := getStrategy_ok hg
      cases o with
      | none => simp [validType, hc]
      | some st => cases st <;> simp [hg, bind, Except.bind, fail] at h <;> simp [validType, hc]
  | .struct fs, hr, h => by
    simp only [validateDataType] at h
    simp only [rangeType] at hr
    cases hg : getStrategyFromMetadata m with
    | error e => simp [hg, bind, Except.bind] at h
    | ok o =>
      have hc := getStrategy_ok hg
      cases o with
      | none =>
        simp only [hg, bind, Except.bind, pure, Except.pure] at h
        simp [validType, hc, validFields_of_validate fs hr h]
      | some st =>
        cases st <;> simp only [hg, bind, Except.bind, pure, Except.pure, fail] at h <;>
          first
            | (simp [validType, hc, validFields_of_validate fs hr h]; done)
            | (cases h)
  | .fixedSizeBinary n, hr, h => by
    simp only [validateDataType] at h
    simp only [rangeType, i32Range, Bool.and_eq_true, decide_eq_true_eq] at hr
    split at h
    · cases h
    · rename_i hn
      simp only [validType, noStrat_of_noStrategy h, Bool.true_and, Bool.and_eq_true, decide_eq_true_eq]
      omega
  | .time32 u, _, h => by
    simp only [validateDataType] at h
    obtain ⟨h1, h2⟩ := bind_unit_ok h
    cases u <;> first | (cases h2; done) | simp [validType, noStrat_of_noStrategy h1]
  | .time64 u, _, h => by
    simp only [validateDataType] at h
    obtain ⟨h1, h2⟩ := bind_unit_ok h
    cases u <;> first | (cases h2; done) | simp [validType, noStrat_of_noStrategy h1]
  | .decimal128 p s, hr, h => by
    simp only [validateDataType] at h
    simp only [rangeType] at hr
    simp only [validType, noStrat_of_noStrategy h, Bool.true_and]
    exact hr
  | .list f, hr, h => by
    simp only [validateDataType] at h
    simp only [rangeType] at hr
    obtain ⟨h1, h2⟩ := bind_unit_ok h
    simp [validType, noStrat_of_noStrategy h1, validField_of_validate f hr h2]
  | .largeList f, hr, h => by
    simp only [validateDataType] at h
    simp only [rangeType] at hr
    obtain ⟨h1, h2⟩ := bind_unit_ok h
    simp [validType, noStrat_of_noStrategy h1, validField_of_validate f hr h2]
  | .fixedSizeList f n, hr, h => by
    simp only [validateDataType] at h
    simp only [rangeType, i32Range, Bool.and_eq_true, decide_eq_true_eq] at hr
    split at h
    · cases h
    · rename_i hn
      obtain ⟨h1, h2⟩ := bind_unit_ok h
      simp only [validType, noStrat_of_noStrategy h1, validField_of_validate f hr.2 h2, Bool.true_and, Bool.and_true,
        Bool.and_eq_true, decide_eq_true_eq]
      omega
  | .map (.mk en (.struct (.cons kf (.cons vf .nil))) enl me) sorted, hr, h => by
    -- the entries field is validated as a struct field: its strategy included
    simp only [validateDataType] at h
    simp only [rangeType] at hr
    obtain ⟨h1, h2⟩ := bind_unit_ok h
    have he := validField_of_validate (.mk en (.struct (.cons kf (.cons vf .nil))) enl me) hr h2
    simp only [validType, noStrat_of_noStrategy h1, isStruct2, he, Bool.true_and]
  | .map (.mk _ (.struct .nil) _ _) _, _, h
  | .map (.mk _ (.struct (.cons _ .nil)) _ _) _, _, h
  | .map (.mk _ (.struct (.cons _ (.cons _ (.cons _ _)))) _ _) _, _, h => by
    simp only [validateDataType] at h
    obtain ⟨_, h2⟩ := bind_unit_ok h
    cases h2
  | .map (.mk _ .null _ _) _, _, h | .map (.mk _ .boolean _ _) _, _, h | .map (.mk _ .int8 _ _) _, _, h
  | .map (.mk _ .int16 _ _) _, _, h | .map (.mk _ .int32 _ _) _, _, h | .map (.mk _ .int64 _ _) _, _, h
  | .map (.mk _ .uint8 _ _) _, _, h | .map (.mk _ .uint16 _ _) _, _, h | .map (.mk _ .uint32 _ _) _, _, h
  | .map (.mk _ .uint64 _ _) _, _, h | .map (.mk _ .float16 _ _) _, _, h | .map (.mk _ .float32 _ _) _, _, h
  | .map (.mk _ .float64 _ _) _, _, h | .map (.mk _ .utf8 _ _) _, _, h | .map (.mk _ .largeUtf8 _ _) _, _, h
  | .map (.mk _ .utf8View _ _) _, _, h | .map (.mk _ .binary _ _) _, _, h | .map (.mk _ .largeBinary _ _) _, _, h
  | .map (.mk _ .binaryView _ _) _, _, h | .map (.mk _ (.fixedSizeBinary _) _ _) _, _, h
  | .map (.mk _ .date32 _ _) _, _, h | .map (.mk _ .date64 _ _) _, _, h
  | .map (.mk _ (.timestamp _ _) _ _) _, _, h | .map (.mk _ (.time32 _) _ _) _, _, h
  | .map (.mk _ (.time64 _) _ _) _, _, h | .map (.mk _ (.duration _) _ _) _, _, h
  | .map (.mk _ (.interval _) _ _) _, _, h | .map (.mk _ (.decimal128 _ _) _ _) _, _, h
  | .map (.mk _ (.list _) _ _) _, _, h | .map (.mk _ (.largeList _) _ _) _, _, h
  | .map (.mk _ (.fixedSizeList _ _) _ _) _, _, h | .map (.mk _ (.map _ _) _ _) _, _, h
  | .map (.mk _ (.dictionary _ _) _ _) _, _, h | .map (.mk _ (.runEndEncoded _ _) _ _) _, _, h
  | .map (.mk _ (.union _ _) _ _) _, _, h => by
    simp only [validateDataType] at h
    obtain ⟨_, h2⟩ := bind_unit_ok h
    cases h2
  | .dictionary k v, _, h => by
    simp only [validateDataType] at h
    obtain ⟨h1, h2⟩ := bind_unit_ok h
    split at h2
    · cases h2
    · split at h2
      · cases h2
      · rename_i hk hv
        simp at hk hv
        simp [validType, noStrat_of_noStrategy h1, hk, hv]
  | .union us mode, hr, h => by
    simp only [validateDataType] at h
    simp only [rangeType] at hr
    obtain ⟨h1, h2⟩ := bind_unit_ok h
    simp [validType, noStrat_of_noStrategy h1, validUFields_of_validate us hr h2]
  | .interval _, _, h => by simp [validateDataType, fail] at h
  | .runEndEncoded _ _, _, h => by simp [validateDataType, fail] at h
  | .boolean, _, h | .int8, _, h | .int16, _, h | .int32, _, h | .int64, _, h | .uint8, _, h
  | .uint16, _, h | .uint32, _, h | .uint64, _, h | .float16, _, h | .float32, _, h | .float64, _, h
  | .utf8, _, h | .largeUtf8, _, h | .utf8View, _, h | .binary, _, h | .largeBinary, _, h
  | .binaryView, _, h | .date32, _, h | .date64, _, h | .timestamp _ _, _, h | .duration _, _, h => by
    simp only [validateDataType] at h
    simp only [validType]
    exact noStrat_of_noStrategy h
theorem validFields_of_validate : (fs : Fields) → rangeFields fs = true →
    validateFields fs = .ok () → validFields fs = true
  | .nil, _, _ => rfl
  | .cons f r, hr, h => by
    simp only [rangeFields, Bool.and_eq_true] at hr
    simp only [validateFields] at h
    obtain ⟨h1, h2⟩ := bind_unit_ok h
    simp [validFields, validField_of_validate f hr.1 h1, validFields_of_validate r hr.2 h2]
theorem validUFields_of_validate : (us : UFields) → rangeUFields us = true →
    validateUFields us = .ok () → validUFields us = true
  | .nil, _, _ => rfl
  | .cons _ f r, hr, h => by
    simp only [rangeUFields, Bool.and_eq_true] at hr
    simp only [validateUFields] at h
    obtain ⟨h1, h2⟩ := bind_unit_ok h
    simp [validUFields, validField_of_validate f hr.1 h1, validUFields_of_validate r hr.2 h2]
end

/-! ## valid fields have parameters in range and map entries annotated like structs -/

mutual
theorem side_of_valid : (f : Field) → validField f = true → rangeField f = true ∧ entriesField f = true
  | .mk _ dt _ m, h => by
    simp only [validField] at h
    simp only [rangeField, entriesField]
    exact sideType_of_valid m dt h
theorem sideType_of_valid (m : Metadata) : (dt : DataType) → validType m dt = true →
    rangeType dt = true ∧ entriesType dt = true
  | .struct fs, h => by
    simp only [validType, Bool.and_eq_true] at h
    simp only [rangeType, entriesType]
    exact sideFields_of_valid fs h.2
  | .list f, h => by
    simp only [validType, Bool.and_eq_true] at h
    simp only [rangeType, entriesType]
    exact side_of_valid f h.2
  | .largeList f, h => by
    simp only [validType, Bool.and_eq_true] at h
    simp only [rangeType, entriesType]
    exact side_of_valid f h.2
  | .fixedSizeList f n, h => by
    simp only [validType, Bool.and_eq_true, decide_eq_true_eq] at h
    have := side_of_valid f h.2
    simp only [rangeType, entriesType, i32Range, Bool.and_eq_true, decide_eq_true_eq, this]
    refine ⟨⟨⟨by omega, h.1.2⟩, trivial⟩, trivial⟩
  | .map (.mk en edt enl em) sorted, h => by
    simp only [validType, Bool.and_eq_true] at h
    have := side_of_valid (.mk en edt enl em) h.2
    simp only [rangeType, entriesType, Bool.and_eq_true, this]
    refine ⟨trivial, ?_, trivial⟩
    have h2 := h.2
    cases edt <;> first | rfl | skip
    simp only [validField, validType, Bool.and_eq_true] at h2
    exact h2.1
  | .union us mode, h => by
    simp only [validType, Bool.and_eq_true] at h
    simp only [rangeType, entriesType]
    exact sideUFields_of_valid us h.2
  | .fixedSizeBinary n, h => by
    simp only [validType, Bool.and_eq_true, decide_eq_true_eq] at h
    simp only [rangeType, entriesType, i32Range, Bool.and_eq_true, decide_eq_true_eq]
    refine ⟨⟨by omega, h.2⟩, trivial⟩
  | .decimal128 p s, h => by
    simp only [validType, Bool.and_eq_true] at h
    simp only [rangeType, entriesType, Bool.and_eq_true]
    exact ⟨⟨⟨h.1.1.2, h.1.2⟩, h.2⟩, trivial⟩
  | .null, _ | .boolean, _ | .int8, _ | .int16, _ | .int32, _ | .int64, _ | .uint8, _ | .uint16, _ | .uint32, _
  | .uint64, _ | .float16, _ | .float32, _ | .float64, _ | .utf8, _ | .largeUtf8, _ | .utf8View, _ | .binary, _
  | .largeBinary, _ | .binaryView, _ | .date32, _ | .date64, _ | .timestamp _ _, _ | .time32 _, _ | .time64 _, _
  | .duration _, _ | .interval _, _ | .dictionary _ _, _ | .runEndEncoded _ _, _ => ⟨rfl, rfl⟩
theorem sideFields_of_valid : (fs : Fields) → validFields fs = true → rangeFields fs = true ∧ entriesFields fs = true
  | .nil, _ => ⟨rfl, rfl⟩
  | .cons f r, h => by
    simp only [validFields, Bool.and_eq_true] at h
    have h1 := side_of_valid f h.1
    have h2 := sideFields_of_valid r h.2
    simp [rangeFields, entriesFields, h1, h2]
theorem sideUFields_of_valid : (us : UFields) → validUFields us = true →
    rangeUFields us = true ∧ entriesUFields us = true
  | .nil, _ => ⟨rfl, rfl⟩
  | .cons _ f r, h => by
    simp only [validUFields, Bool.and_eq_true] at h
    have h1 := side_of_valid f h.1
    have h2 := sideUFields_of_valid r h.2
    simp [rangeUFields, entriesUFields, h1, h2]
end

/-- `validate_field` decides `validField` (on fields whose numeric parameters are values of their Rust types: the model's
`Field` carries unbounded integers) -/
theorem validate_iff_valid (f : Field) (hr : rangeField f = true) : validateField f = .ok () ↔ validField f = true :=
  ⟨validField_of_validate f hr, validateField_of_valid f⟩

end SaModel.SchemaJson
