import SaModel.Lemmas.C01Cont
import SaModel.Lemmas.C01DefaultAt
/-
`take` after any successful operation leaves the same builder behind as `take` before it: no push, null or
placeholder changes the part of a builder state that survives `take` (paths, types, nullability, child
structure; name cache / `seen` / counters only through their lengths).  No invariant is needed.
Used by C10 (`take_is_fresh`) and to carry schema-level predicates (`Safe`) across pushes.
-/
namespace SaModel.Build
open SaModel SaModel.Spec

theorem pure_ok {α} (a b : α) : (pure a : R α) = .ok b ↔ a = b := by
  constructor
  · intro h; cases h; rfl
  · rintro rfl; rfl

theorem setValidity_skel {v v' : Validity} {n : Nat} {b : Bool} (h : setValidity v n b = .ok v') :
    (v'.map fun _ => ([] : List Bool)) = v.map fun _ => [] := by
  cases v with
  | none => cases b <;> simp [setValidity, fail] at h; subst h; rfl
  | some bits => simp [setValidity] at h; subst h; rfl

theorem setValidityDefault_skel (v : Validity) (n : Nat) :
    ((setValidityDefault v n).map fun _ => ([] : List Bool)) = v.map fun _ => [] := by
  cases v <;> rfl

theorem takeRestAll_set : ∀ (fs : BL) (i : Nat) (c c' : B) (m : FieldMeta), fs.get? i = some (c, m) →
    takeRest c' = takeRest c → takeRestAll (fs.set i c') = takeRestAll fs
  | .nil, _, _, _, _, h, _ => by simp [BL.get?] at h
  | .cons b m r, 0, c, c', _, h, hc => by
    simp [BL.get?] at h; obtain ⟨rfl, rfl⟩ := h
    simp [BL.set, takeRestAll, hc]
  | .cons b m r, i + 1, c, c', m', h, hc => by
    simp only [BL.get?] at h
    simp [BL.set, takeRestAll, takeRestAll_set r i c c' m' h hc]

/-! ### placeholders and nulls -/

theorem iter_skel {α} (f : α → R α) (g : α → Validity) (hstep : ∀ a a', f a = .ok a' →
    ((g a').map fun _ => ([] : List Bool)) = (g a).map fun _ => []) :
    ∀ (k : Nat) (a a' : α), iter k f a = .ok a' → ((g a').map fun _ => ([] : List Bool)) = (g a).map fun _ => []
  | 0, a, a', h => by simp [iter] at h; subst h; rfl
  | k + 1, a, a', h => by
    simp only [iter] at h
    obtain ⟨a1, h1, h2⟩ := (bind_ok _ _ _).1 h
    rw [iter_skel f g hstep k a1 a' h2, hstep a a1 h1]

theorem iter_offs_skel (k : Nat) (v v' : Validity) (offs offs' : List Int)
    (h : iter k (fun (s : Validity × List Int) => do
      let o ← duplicateLast s.2
      pure (setValidityDefault s.1 (s.2.length - 1), o)) (v, offs) = .ok (v', offs')) :
    (v'.map fun _ => ([] : List Bool)) = v.map fun _ => [] := by
  refine iter_skel _ (fun s => s.1) ?_ k (v, offs) (v', offs') h
  intro a a' ha
  obtain ⟨o, _, ho⟩ := (bind_ok _ _ _).1 ha
  cases ho
  exact setValidityDefault_skel _ _

mutual
theorem pushDefaultK_takeRest : ∀ (b : B) (k : Nat) (b' : B), pushDefaultK b k = .ok b' → takeRest b' = takeRest b
  | .null p len, k, b', h => by simp [pushDefaultK] at h; subst h; rfl
  | .unknownVariant p, k, b', h => by
    simp only [pushDefaultK] at h
    split at h
    · cases h; rfl
    · simp [ctx_ok, fail] at h
  | .leaf p kind v vals, k, b', h => by
    simp only [pushDefaultK] at h
    obtain ⟨⟨v', vals'⟩, h1, h2⟩ := (bind_ok _ _ _).1 h
    cases h2
    have := iter_skel _ (fun (s : Validity × List Int) => s.1) (by
      intro a a' ha; cases ha; exact setValidityDefault_skel _ _) k _ _ h1
    simp only at this
    simp [takeRest, this]
  | .bytes p ty v offs data, k, b', h => by
    simp only [pushDefaultK, ctx_ok] at h
    obtain ⟨⟨v', offs'⟩, h1, h2⟩ := (bind_ok _ _ _).1 h
    cases h2
    simp [takeRest, iter_offs_skel k v v' offs offs' h1]
  | .bytesView p ty v views buf, k, b', h => by
    simp only [pushDefaultK] at h
    obtain ⟨⟨v', views'⟩, h1, h2⟩ := (bind_ok _ _ _).1 h
    cases h2
    have := iter_skel _ (fun (s : Validity × List Nat) => s.1) (by
      intro a a' ha; cases ha; exact setValidityDefault_skel _ _) k _ _ h1
    simp only at this
    simp [takeRest, this]
  | .fixedSizeBinary p n len v buf cur, k, b', h => by
    simp only [pushDefaultK] at h
    obtain ⟨⟨len', v', buf'⟩, h1, h2⟩ := (bind_ok _ _ _).1 h
    cases h2
    have := iter_skel _ (fun (s : Nat × Validity × Bytes) => s.2.1) (by
      intro a a' ha; cases ha; exact setValidityDefault_skel _ _) k _ _ h1
    simp only at this
    simp [takeRest, this]
  | .list p large fm v offs el, k, b', h => by
    simp only [pushDefaultK, ctx_ok] at h
    obtain ⟨⟨v', offs'⟩, h1, h2⟩ := (bind_ok _ _ _).1 h
    cases h2
    simp [takeRest, iter_offs_skel k v v' offs offs' h1]
  | .fixedSizeList p fm n len v cur el, k, b', h => by
    simp only [pushDefaultK, ctx_ok] at h
    obtain ⟨⟨len', v'⟩, h1, h2⟩ := (bind_ok _ _ _).1 h
    obtain ⟨el', h3, h4⟩ := (bind_ok _ _ _).1 h2
    cases h4
    have := iter_skel _ (fun (s : Nat × Validity) => s.2) (by
      intro a a' ha; cases ha; exact setValidityDefault_skel _ _) k _ _ h1
    simp only at this
    simp [takeRest, this, pushDefaultK_takeRest el (k * n) el' h3]
  | .map p mm v offs ks vs, k, b', h => by
    simp only [pushDefaultK, ctx_ok] at h
    obtain ⟨⟨v', offs'⟩, h1, h2⟩ := (bind_ok _ _ _).1 h
    cases h2
    simp [takeRest, iter_offs_skel k v v' offs offs' h1]
  | .struct p len v fs cached next seen, k, b', h => by
    simp only [pushDefaultK, ctx_ok] at h
    obtain ⟨⟨len', v'⟩, h1, h2⟩ := (bind_ok _ _ _).1 h
    obtain ⟨fs', h3, h4⟩ := (bind_ok _ _ _).1 h2
    cases h4
    have := iter_skel _ (fun (s : Nat × Validity) => s.2) (by
      intro a a' ha; cases ha; exact setValidityDefault_skel _ _) k _ _ h1
    simp only at this
    simp [takeRest, this, pushDefaultKAll_takeRest fs k fs' h3]
  | .dictionary p idx vals index, k, b', h => by
    simp only [pushDefaultK, ctx_ok] at h
    obtain ⟨idx', h1, h2⟩ := (bind_ok _ _ _).1 h
    cases h2
    simp [takeRest, pushDefaultK_takeRest idx k idx' h1]
  | .union p .nil types offs cur, k, b', h => by
    simp only [pushDefaultK, ctx_ok] at h
    split at h
    · cases h; rfl
    · simp [fail] at h
  | .union p (.cons c m rest) types offs cur, k, b', h => by
    simp only [pushDefaultK, ctx_ok] at h
    split at h
    · simp [fail] at h
    split at h
    · simp [fail] at h
    · obtain ⟨fs', h1, h2⟩ := (bind_ok _ _ _).1 h
      split at h2
      · simp [fail] at h2
      cases h2
      obtain ⟨cj, mj, hg⟩ := firstReal_get c m rest
      rw [pushDefaultKAt_eq _ _ k cj mj hg] at h1
      obtain ⟨c', h3, h4⟩ := (bind_ok _ _ _).1 h1
      cases h4
      simp [takeRest, takeRestAll_set _ _ cj c' mj hg (pushDefaultK_takeRest_at _ _ cj mj hg k c' h3)]
theorem pushDefaultKAll_takeRest : ∀ (fs : BL) (k : Nat) (fs' : BL), pushDefaultKAll fs k = .ok fs' →
    takeRestAll fs' = takeRestAll fs
  | .nil, k, fs', h => by simp [pushDefaultKAll] at h; subst h; rfl
  | .cons b m rest, k, fs', h => by
    simp only [pushDefaultKAll] at h
    obtain ⟨b', h1, h2⟩ := (bind_ok _ _ _).1 h
    obtain ⟨r', h3, h4⟩ := (bind_ok _ _ _).1 h2
    cases h4
    simp [takeRestAll, pushDefaultK_takeRest b k b' h1, pushDefaultKAll_takeRest rest k r' h3]
theorem pushDefaultK_takeRest_at : ∀ (fs : BL) (j : Nat) (c : B) (m : FieldMeta), fs.get? j = some (c, m) →
    ∀ (k : Nat) (c' : B), pushDefaultK c k = .ok c' → takeRest c' = takeRest c
  | .nil, _, _, _, h => by simp [BL.get?] at h
  | .cons b _ _, 0, c, m, h => by
    simp only [BL.get?, Option.some.injEq, Prod.mk.injEq] at h
    rw [← h.1]
    exact pushDefaultK_takeRest b
  | .cons _ _ rest, j + 1, c, m, h => pushDefaultK_takeRest_at rest j c m (by simpa [BL.get?] using h)
end

theorem pushNone_takeRest : ∀ (b : B) (b' : B), pushNone b = .ok b' → takeRest b' = takeRest b
  | .null p len, b', h => by simp [pushNone] at h; subst h; rfl
  | .unknownVariant p, b', h => by simp [pushNone, ctx_ok, fail] at h
  | .leaf p k v vals, b', h => by
    simp only [pushNone, ctx_ok] at h
    obtain ⟨v', h1, h2⟩ := (bind_ok _ _ _).1 h
    cases h2
    simp [takeRest, setValidity_skel h1]
  | .bytes p ty v offs data, b', h => by
    simp only [pushNone, ctx_ok] at h
    obtain ⟨v', h1, h2⟩ := (bind_ok _ _ _).1 h
    obtain ⟨o', _, h4⟩ := (bind_ok _ _ _).1 h2
    cases h4
    simp [takeRest, setValidity_skel h1]
  | .bytesView p ty v views buf, b', h => by
    simp only [pushNone, ctx_ok] at h
    obtain ⟨v', h1, h2⟩ := (bind_ok _ _ _).1 h
    cases h2
    simp [takeRest, setValidity_skel h1]
  | .fixedSizeBinary p n len v buf cur, b', h => by
    simp only [pushNone, ctx_ok] at h
    obtain ⟨v', h1, h2⟩ := (bind_ok _ _ _).1 h
    cases h2
    simp [takeRest, setValidity_skel h1]
  | .list p large fm v offs el, b', h => by
    simp only [pushNone, ctx_ok] at h
    obtain ⟨v', h1, h2⟩ := (bind_ok _ _ _).1 h
    obtain ⟨o', _, h4⟩ := (bind_ok _ _ _).1 h2
    cases h4
    simp [takeRest, setValidity_skel h1]
  | .fixedSizeList p fm n len v cur el, b', h => by
    simp only [pushNone, ctx_ok] at h
    obtain ⟨v', h1, h2⟩ := (bind_ok _ _ _).1 h
    obtain ⟨el', h3, h4⟩ := (bind_ok _ _ _).1 h2
    cases h4
    simp [takeRest, setValidity_skel h1, pushDefaultK_takeRest el n el' h3]
  | .map p mm v offs ks vs, b', h => by
    simp only [pushNone, ctx_ok] at h
    obtain ⟨v', h1, h2⟩ := (bind_ok _ _ _).1 h
    obtain ⟨o', _, h4⟩ := (bind_ok _ _ _).1 h2
    cases h4
    simp [takeRest, setValidity_skel h1]
  | .struct p len v fs cached next seen, b', h => by
    simp only [pushNone, ctx_ok] at h
    obtain ⟨v', h1, h2⟩ := (bind_ok _ _ _).1 h
    obtain ⟨fs', h3, h4⟩ := (bind_ok _ _ _).1 h2
    cases h4
    simp [takeRest, setValidity_skel h1, pushDefaultKAll_takeRest fs 1 fs' h3]
  | .dictionary p idx vals index, b', h => by
    simp only [pushNone, ctx_ok] at h
    split at h
    · simp [fail] at h
    obtain ⟨idx', h1, h2⟩ := (bind_ok _ _ _).1 h
    cases h2
    simp [takeRest, pushNone_takeRest idx idx' ((ctx_ok _ _ _).1 h1)]
  | .union p fs types offs cur, b', h => by simp [pushNone, ctx_ok, fail] at h

/-! ### scalars -/

theorem pushScalar_takeRest (ext : Ext) : ∀ (b : B) (x : SVal) (b' : B), pushScalar ext b x = .ok b' →
    takeRest b' = takeRest b
  | .null p len, x, b', h => by
    unfold pushScalar at h
    split at h
    · cases h; rfl
    · simp [notSupported, fail] at h
  | .unknownVariant p, x, b', h => by simp [pushScalar, fail] at h
  | .leaf p k v vals, x, b', h => by
    simp only [pushScalar] at h
    obtain ⟨val, _, h2⟩ := (bind_ok _ _ _).1 h
    obtain ⟨v', h3, h4⟩ := (bind_ok _ _ _).1 h2
    cases h4
    simp [takeRest, setValidity_skel h3]
  | .bytes p ty v offs data, x, b', h => by
    simp only [pushScalar] at h
    obtain ⟨bs, _, h2⟩ := (bind_ok _ _ _).1 h
    obtain ⟨v', h3, h4⟩ := (bind_ok _ _ _).1 h2
    obtain ⟨o1, _, h5⟩ := (bind_ok _ _ _).1 h4
    obtain ⟨o2, _, h6⟩ := (bind_ok _ _ _).1 h5
    cases h6
    simp [takeRest, setValidity_skel h3]
  | .bytesView p ty v views buf, x, b', h => by
    simp only [pushScalar] at h
    obtain ⟨bs, _, h2⟩ := (bind_ok _ _ _).1 h
    obtain ⟨⟨views', buf'⟩, _, h2⟩ := (bind_ok _ _ _).1 h2
    obtain ⟨v', h3, h4⟩ := (bind_ok _ _ _).1 h2
    cases h4
    simp [takeRest, setValidity_skel h3]
  | .fixedSizeBinary p n len v buf cur, x, b', h => by
    unfold pushScalar at h
    split at h
    · split at h
      · simp [fail] at h
      · obtain ⟨v', h3, h4⟩ := (bind_ok _ _ _).1 h
        cases h4
        simp [takeRest, setValidity_skel h3]
    · simp [notSupported, fail] at h
  | .dictionary p idx vals index, x, b', h => by
    unfold pushScalar at h
    simp only at h
    split at h
    · split at h
      · obtain ⟨idx', h1, h2⟩ := (bind_ok _ _ _).1 h
        cases h2
        rw [ctx_eq_ok] at h1
        simp [takeRest, pushScalar_takeRest ext idx _ idx' h1]
      · obtain ⟨vals', h1, h2⟩ := (bind_ok _ _ _).1 h
        obtain ⟨idx', h3, h4⟩ := (bind_ok _ _ _).1 h2
        cases h4
        rw [ctx_eq_ok] at h1 h3
        simp [takeRest, pushScalar_takeRest ext idx _ idx' h3, pushScalar_takeRest ext vals _ vals' h1]
    · simp [notSupported, fail] at h
  | .list _ _ _ _ _ _, x, b', h => by simp [pushScalar, notSupported, fail] at h
  | .fixedSizeList _ _ _ _ _ _ _, x, b', h => by simp [pushScalar, notSupported, fail] at h
  | .map _ _ _ _ _ _, x, b', h => by simp [pushScalar, notSupported, fail] at h
  | .struct _ _ _ _ _ _ _, x, b', h => by simp [pushScalar, notSupported, fail] at h
  | .union _ _ _ _ _, x, b', h => by simp [pushScalar, notSupported, fail] at h

end SaModel.Build
