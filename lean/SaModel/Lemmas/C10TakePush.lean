import SaModel.Lemmas.C10Take
import SaModel.Lemmas.C01MapOps
/-
`push` (the whole mutual block) never changes what `take` leaves behind.
-/
namespace SaModel.Build
open SaModel SaModel.Spec

/-- the part of a struct state that survives `take` -/
def SSkel (s' s : SS) : Prop :=
  s'.path = s.path ∧ (s'.validity.map fun _ => ([] : List Bool)) = (s.validity.map fun _ => []) ∧
  takeRestAll s'.fields = takeRestAll s.fields ∧ s'.cached.length = s.cached.length ∧ s'.seen.length = s.seen.length

theorem SSkel.refl (s : SS) : SSkel s s := ⟨rfl, rfl, rfl, rfl, rfl⟩

theorem SSkel.trans {a b c : SS} (h1 : SSkel a b) (h2 : SSkel b c) : SSkel a c :=
  ⟨h1.1.trans h2.1, h1.2.1.trans h2.2.1, h1.2.2.1.trans h2.2.2.1, h1.2.2.2.1.trans h2.2.2.2.1,
    h1.2.2.2.2.trans h2.2.2.2.2⟩

theorem SSkel.toB {s' s : SS} (h : SSkel s' s) : takeRest s'.toB = takeRest s.toB := by
  obtain ⟨h1, h2, h3, h4, h5⟩ := h
  simp [SS.toB, takeRest, h1, h2, h3, h4, h5]

theorem SSkel.next (s : SS) (n : Nat) : SSkel { s with next := n } s := ⟨rfl, rfl, rfl, rfl, rfl⟩

theorem lookup_length (names : List String) (cached : List (Option (String × Nat))) (guess : Nat) (key : String × Nat) :
    (lookup names cached guess key).2.length = cached.length := by
  unfold lookup
  split
  · rfl
  · split
    · rfl
    · simp only; split <;> simp

theorem SS.start_skel {s s' : SS} (h : s.start = .ok s') : SSkel s' s := by
  simp only [SS.start] at h
  obtain ⟨v', h1, h2⟩ := (bind_ok _ _ _).1 h
  cases h2
  exact ⟨rfl, setValidity_skel h1, rfl, rfl, by simp⟩

theorem SS.element_skel {s s' : SS} {idx : Nat} {pc : B → R B}
    (hpc : ∀ c c', pc c = .ok c' → takeRest c' = takeRest c) (h : s.element idx pc = .ok s') : SSkel s' s := by
  unfold SS.element at h
  split at h
  · simp [panic] at h
  · simp [ctx_ok, fail] at h
  · split at h
    · simp [panic] at h
    · rename_i c m hget
      obtain ⟨c', h1, h2⟩ := (bind_ok _ _ _).1 h
      cases h2
      exact ⟨rfl, rfl, takeRestAll_set _ _ c c' m hget (hpc c c' h1), rfl, by simp⟩

theorem endFields_takeRest : ∀ (fs : BL) (seen : List Bool) (fs' : BL), endFields fs seen = .ok fs' →
    takeRestAll fs' = takeRestAll fs
  | .nil, _, fs', h => by simp [endFields] at h; subst h; rfl
  | .cons b m rest, [], fs', h => by simp [endFields, panic] at h
  | .cons b m rest, s :: sr, fs', h => by
    simp only [endFields] at h
    split at h
    · obtain ⟨r, h1, h2⟩ := (bind_ok _ _ _).1 h
      cases h2
      simp [takeRestAll, endFields_takeRest rest sr r h1]
    · split at h
      · simp [fail] at h
      · obtain ⟨b', h0, h'⟩ := (bind_ok _ _ _).1 h
        obtain ⟨r, h1, h2⟩ := (bind_ok _ _ _).1 h'
        cases h2
        simp [takeRestAll, endFields_takeRest rest sr r h1, pushNone_takeRest b b' h0]

theorem SS.finishRow_skel {s s' : SS} (h : s.finishRow = .ok s') : SSkel s' s := by
  simp only [SS.finishRow] at h
  obtain ⟨fs, h1, h2⟩ := (bind_ok _ _ _).1 h
  cases h2
  exact ⟨rfl, rfl, endFields_takeRest _ _ _ h1, rfl, rfl⟩

/-- a whole record (`start`, fields, `end`) -/
theorem record_skel {p len v fs cached next seen} {pf : SS → R SS} {b' : B}
    (hpf : ∀ s s', pf s = .ok s' → SSkel s' s)
    (h : (do
      let s ← SS.start ⟨p, len, v, fs, cached, next, seen⟩
      let s ← pf s
      let s ← s.finishRow
      pure s.toB : R B) = .ok b') : takeRest b' = takeRest (.struct p len v fs cached next seen) := by
  obtain ⟨s1, h1, h⟩ := (bind_ok _ _ _).1 h
  obtain ⟨s2, h2, h⟩ := (bind_ok _ _ _).1 h
  obtain ⟨s3, h3, h⟩ := (bind_ok _ _ _).1 h
  cases h
  exact ((SS.finishRow_skel h3).trans ((hpf _ _ h2).trans (SS.start_skel h1))).toB

theorem recordWith_takeRest {pf : SS → R SS} (hpf : ∀ s s', pf s = .ok s' → SSkel s' s) :
    ∀ (b b' : B), recordWith pf b = .ok b' → takeRest b' = takeRest b := by
  intro b b' h
  cases b with
  | struct p len v fs cached next seen => exact record_skel hpf h
  | _ => simp [recordWith, notSupported, fail] at h

theorem seqLikeWith_takeRest {pe : Bool → B → List Int → R (B × List Int)} {pc : B → Nat → R (B × Nat)}
    {pt : SS → R SS} {bytes : R Bytes}
    (hpe : ∀ large el offs r, pe large el offs = .ok r → takeRest r.1 = takeRest el)
    (hpc : ∀ el c r, pc el c = .ok r → takeRest r.1 = takeRest el)
    (hpt : ∀ s s', pt s = .ok s' → SSkel s' s) :
    ∀ (b : B) (k : SeqKind) (b' : B), seqLikeWith pe pc pt bytes b k = .ok b' → takeRest b' = takeRest b := by
  intro b k b' h
  cases b with
  | list p large fm v offs el =>
    simp only [seqLikeWith] at h
    obtain ⟨v', h1, h⟩ := (bind_ok _ _ _).1 h
    obtain ⟨o1, _, h⟩ := (bind_ok _ _ _).1 h
    obtain ⟨⟨el', o2⟩, h3, h⟩ := (bind_ok _ _ _).1 h
    cases h
    simp [takeRest, setValidity_skel h1, hpe _ _ _ _ h3]
  | fixedSizeList p fm n len v cur el =>
    simp only [seqLikeWith] at h
    obtain ⟨v', h1, h⟩ := (bind_ok _ _ _).1 h
    obtain ⟨⟨el', cnt⟩, h3, h⟩ := (bind_ok _ _ _).1 h
    simp only at h
    split at h
    · simp [fail] at h
    · cases h
      simp [takeRest, setValidity_skel h1, hpc _ _ _ h3]
  | bytes p ty v offs data =>
    simp only [seqLikeWith] at h
    split at h
    · obtain ⟨v', h1, h⟩ := (bind_ok _ _ _).1 h
      obtain ⟨o1, _, h⟩ := (bind_ok _ _ _).1 h
      obtain ⟨bs, _, h⟩ := (bind_ok _ _ _).1 h
      obtain ⟨o2, _, h⟩ := (bind_ok _ _ _).1 h
      cases h
      simp [takeRest, setValidity_skel h1]
    · simp [notSupported, fail] at h
  | bytesView p ty v views buf =>
    simp only [seqLikeWith] at h
    split at h
    · obtain ⟨v', h1, h⟩ := (bind_ok _ _ _).1 h
      obtain ⟨bs, _, h⟩ := (bind_ok _ _ _).1 h
      obtain ⟨⟨views', buf'⟩, _, h⟩ := (bind_ok _ _ _).1 h
      cases h
      simp [takeRest, setValidity_skel h1]
    · simp [notSupported, fail] at h
  | fixedSizeBinary p n len v buf cur =>
    simp only [seqLikeWith] at h
    obtain ⟨v', h1, h⟩ := (bind_ok _ _ _).1 h
    obtain ⟨bs, _, h⟩ := (bind_ok _ _ _).1 h
    split at h
    · simp [fail] at h
    · cases h
      simp [takeRest, setValidity_skel h1]
  | struct p len v fs cached next seen =>
    cases k with
    | seq => simp [seqLikeWith, notSupported, fail] at h
    | tuple => simp only [seqLikeWith] at h; exact record_skel hpt h
    | tupleStruct => simp only [seqLikeWith] at h; exact record_skel hpt h
  | unknownVariant p => simp [seqLikeWith, fail] at h
  | null p len => simp [seqLikeWith, notSupported, fail] at h
  | leaf p kind v vals => simp [seqLikeWith, notSupported, fail] at h
  | map p mm v offs ks vs => simp [seqLikeWith, notSupported, fail] at h
  | dictionary p idx vals index => simp [seqLikeWith, notSupported, fail] at h
  | union p fs types offs cur => simp [seqLikeWith, notSupported, fail] at h

theorem serializeVariant_ok {fs : BL} {types offs cur : List Int} {idx : Nat} {r : B × List Int × List Int × List Int}
    (h : serializeVariant fs types offs cur idx = .ok r) :
    ∃ m co, fs.get? idx = some (r.1, m) ∧ cur[idx]? = some co ∧ idx ≤ 127 ∧
      r.2.1 = types ++ [(idx : Int)] ∧ r.2.2.1 = offs ++ [co] ∧ r.2.2.2 = cur.set idx (co + 1) := by
  unfold serializeVariant at h
  split at h
  · simp [fail] at h
  · rename_i c m hget
    split at h
    · simp [panic] at h
    · rename_i co hco
      split at h
      · simp [fail] at h
      · split at h
        · simp [fail] at h
        · cases h
          exact ⟨m, co, hget, hco, by omega, rfl, rfl, rfl⟩

/-- one row of a union: bookkeeping + the variant's child -/
theorem union_row_takeRest {p fs types offs cur} {i : Nat} {pc : B → R B} {b' : B}
    (hpc : ∀ c c', pc c = .ok c' → takeRest c' = takeRest c)
    (h : (do
      let (c, types', offs', cur') ← serializeVariant fs types offs cur i
      let c' ← pc c
      pure (.union p (fs.set i c') types' offs' cur') : R B) = .ok b') :
    takeRest b' = takeRest (.union p fs types offs cur) := by
  obtain ⟨⟨c, t', o', cur'⟩, h1, h⟩ := (bind_ok _ _ _).1 h
  obtain ⟨c', h2, h⟩ := (bind_ok _ _ _).1 h
  cases h
  obtain ⟨m, co, hget, _, _, _, _, hcur⟩ := serializeVariant_ok h1
  simp only at hget hcur
  subst hcur
  simp [takeRest, takeRestAll_set _ _ c c' m hget (hpc c c' h2)]

theorem pushByteElems_takeRest (ext : Ext) (large : Bool) : ∀ (bs : Bytes) (el : B) (offs : List Int) (r : B × List Int),
    pushByteElems ext large el offs bs = .ok r → takeRest r.1 = takeRest el
  | [], el, offs, r, h => by simp [pushByteElems] at h; subst h; rfl
  | x :: rest, el, offs, r, h => by
    simp only [pushByteElems] at h
    obtain ⟨o', _, h⟩ := (bind_ok _ _ _).1 h
    obtain ⟨el', h2, h⟩ := (bind_ok _ _ _).1 h
    rw [pushByteElems_takeRest ext large rest el' o' r h, pushScalar_takeRest ext el _ el' ((ctx_ok _ _ _).1 h2)]

end SaModel.Build

namespace SaModel.Build
open SaModel SaModel.Spec

mutual
theorem push_takeRest (ext : Ext) : ∀ (x : SVal) (b b' : B), push ext b x = .ok b' → takeRest b' = takeRest b
  | .some v, b, b', h => by rw [push] at h; exact push_takeRest ext v b b' h
  | .newtypeStruct _ v, b, b', h => by rw [push] at h; exact push_takeRest ext v b b' h
  | .none, b, b', h => by rw [push] at h; exact pushNone_takeRest b b' h
  | .unit, b, b', h => by
    cases b with
    | unknownVariant p => simp [push, ctx_ok, fail] at h
    | _ => simp only [push] at h; exact pushNone_takeRest _ b' h
  | .seq xs, b, b', h => by
    rw [push, ctx_ok] at h
    exact seqLikeWith_takeRest (fun large el offs r hr => pushElems_takeRest ext xs large el offs r hr)
      (fun el c r hr => pushCountElems_takeRest ext xs el c r hr)
      (fun s s' hs => pushTupleElems_takeRest ext xs s s' hs) b _ b' h
  | .tuple xs, b, b', h => by
    rw [push, ctx_ok] at h
    exact seqLikeWith_takeRest (fun large el offs r hr => pushElems_takeRest ext xs large el offs r hr)
      (fun el c r hr => pushCountElems_takeRest ext xs el c r hr)
      (fun s s' hs => pushTupleElems_takeRest ext xs s s' hs) b _ b' h
  | .tupleStruct _ xs, b, b', h => by
    rw [push, ctx_ok] at h
    exact seqLikeWith_takeRest (fun large el offs r hr => pushElems_takeRest ext xs large el offs r hr)
      (fun el c r hr => pushCountElems_takeRest ext xs el c r hr)
      (fun s s' hs => pushTupleElems_takeRest ext xs s s' hs) b _ b' h
  | .record _ fs, b, b', h => by
    rw [push, ctx_ok] at h
    exact recordWith_takeRest (fun s s' hs => pushFields_takeRest ext fs s s' hs) b b' h
  | .map es, b, b', h => by
    cases b with
    | struct p len v fs cached next seen =>
      simp only [push, ctx_ok] at h
      exact record_skel (pf := fun s => pushStructEntries ext { s with next := UNKNOWN_KEY } es)
        (fun s s' hs => (pushStructEntries_takeRest ext es _ s' hs).trans (SSkel.next s _)) h
    | map p mm v offs ks vs =>
      simp only [push, ctx_ok] at h
      obtain ⟨v', h1, h⟩ := (bind_ok _ _ _).1 h
      obtain ⟨o1, _, h⟩ := (bind_ok _ _ _).1 h
      obtain ⟨⟨o2, ks', vs'⟩, h3, h⟩ := (bind_ok _ _ _).1 h
      cases h
      have := pushMapEntries_takeRest ext es _ _ _ _ h3
      simp [takeRest, setValidity_skel h1, this.1, this.2]
    | _ => simp [push, ctx_ok, notSupported, fail] at h
  | .mapRaw ops, b, b', h => by
    cases b with
    | struct p len v fs cached next seen =>
      simp only [push, ctx_ok] at h
      exact record_skel (pf := fun s => pushStructOps ext { s with next := UNKNOWN_KEY } ops)
        (fun s s' hs => (pushStructOps_takeRest ext ops _ s' hs).trans (SSkel.next s _)) h
    | map p mm v offs ks vs =>
      simp only [push, ctx_ok] at h
      obtain ⟨v', h1, h⟩ := (bind_ok _ _ _).1 h
      obtain ⟨o1, _, h⟩ := (bind_ok _ _ _).1 h
      obtain ⟨⟨o2, ks', vs'⟩, h3, h⟩ := (bind_ok _ _ _).1 h
      cases h
      have := pushMapOps_takeRest ext ops _ _ _ _ _ h3
      simp [takeRest, setValidity_skel h1, this.1, this.2]
    | _ => simp [push, ctx_ok, notSupported, fail] at h
  | .unitVariant n i vn, b, b', h => by
    cases b with
    | union p fs types offs cur =>
      simp only [push, ctx_ok] at h
      refine union_row_takeRest (pc := fun c => match c with
          | .unknownVariant _ => ctx c.ann (fail "Unknown variant does not support serialize_unit")
          | _ => pushNone c) ?_ h
      intro c c' hc
      split at hc
      · simp [ctx_ok, fail] at hc
      · exact pushNone_takeRest c c' hc
    | _ => simp only [push, ctx_ok] at h; exact pushScalar_takeRest ext _ _ b' h
  | .newtypeVariant _ i _ v, b, b', h => by
    cases b with
    | union p fs types offs cur =>
      simp only [push, ctx_ok] at h
      exact union_row_takeRest (pc := fun c => push ext c v) (fun c c' hc => push_takeRest ext v c c' hc) h
    | bytes _ ty _ _ _ => simp only [push, ctx_ok] at h; split at h <;> simp [notSupported, fail] at h
    | bytesView _ ty _ _ _ => simp only [push, ctx_ok] at h; split at h <;> simp [notSupported, fail] at h
    | _ => simp [push, ctx_ok, notSupported, fail] at h
  | .tupleVariant _ i _ xs, b, b', h => by
    cases b with
    | union p fs types offs cur =>
      simp only [push, ctx_ok] at h
      refine union_row_takeRest (pc := fun c => ctx c.ann (seqLikeWith (fun large el offs => pushElems ext large el offs xs)
        (fun el c => pushCountElems ext el c xs) (fun s => pushTupleElems ext s xs) (u8All xs) c .tupleStruct)) ?_ h
      intro c c' hc
      rw [ctx_ok] at hc
      exact seqLikeWith_takeRest (fun large el offs r hr => pushElems_takeRest ext xs large el offs r hr)
        (fun el c r hr => pushCountElems_takeRest ext xs el c r hr)
        (fun s s' hs => pushTupleElems_takeRest ext xs s s' hs) c _ c' hc
    | bytes _ ty _ _ _ => simp only [push, ctx_ok] at h; split at h <;> simp [notSupported, fail] at h
    | bytesView _ ty _ _ _ => simp only [push, ctx_ok] at h; split at h <;> simp [notSupported, fail] at h
    | _ => simp [push, ctx_ok, notSupported, fail] at h
  | .structVariant _ i _ fields, b, b', h => by
    cases b with
    | union p fs types offs cur =>
      simp only [push, ctx_ok] at h
      refine union_row_takeRest (pc := fun c => ctx c.ann (recordWith (fun s => pushFields ext s fields) c)) ?_ h
      intro c c' hc
      rw [ctx_ok] at hc
      exact recordWith_takeRest (fun s s' hs => pushFields_takeRest ext fields s s' hs) c c' hc
    | bytes _ ty _ _ _ => simp only [push, ctx_ok] at h; split at h <;> simp [notSupported, fail] at h
    | bytesView _ ty _ _ _ => simp only [push, ctx_ok] at h; split at h <;> simp [notSupported, fail] at h
    | _ => simp [push, ctx_ok, notSupported, fail] at h
  | .bytes bs, b, b', h => by
    cases b with
    | list p large fm v offs el =>
      simp only [push, ctx_ok] at h
      obtain ⟨v', h1, h⟩ := (bind_ok _ _ _).1 h
      obtain ⟨o1, _, h⟩ := (bind_ok _ _ _).1 h
      obtain ⟨⟨el', o2⟩, h3, h⟩ := (bind_ok _ _ _).1 h
      cases h
      simp [takeRest, setValidity_skel h1, pushByteElems_takeRest ext large bs el o1 _ h3]
    | _ => simp only [push, ctx_ok] at h; exact pushScalar_takeRest ext _ _ b' h
  | .bool x, b, b', h => by rw [push, ctx_ok] at h; exact pushScalar_takeRest ext _ _ b' h
  | .int t x, b, b', h => by rw [push, ctx_ok] at h; exact pushScalar_takeRest ext _ _ b' h
  | .f32 x, b, b', h => by rw [push, ctx_ok] at h; exact pushScalar_takeRest ext _ _ b' h
  | .f64 x, b, b', h => by rw [push, ctx_ok] at h; exact pushScalar_takeRest ext _ _ b' h
  | .char x, b, b', h => by rw [push, ctx_ok] at h; exact pushScalar_takeRest ext _ _ b' h
  | .str x, b, b', h => by rw [push, ctx_ok] at h; exact pushScalar_takeRest ext _ _ b' h
  | .unitStruct x, b, b', h => by
    cases b with
    | unknownVariant p => simp [push, ctx_ok, fail] at h
    | _ => simp only [push] at h; exact pushNone_takeRest _ b' h

theorem pushElems_takeRest (ext : Ext) : ∀ (xs : SVals) (large : Bool) (el : B) (offs : List Int) (r : B × List Int),
    pushElems ext large el offs xs = .ok r → takeRest r.1 = takeRest el
  | .nil, large, el, offs, r, h => by rw [pushElems] at h; cases h; rfl
  | .cons x rest, large, el, offs, r, h => by
    rw [pushElems] at h
    obtain ⟨o', _, h⟩ := (bind_ok _ _ _).1 h
    obtain ⟨el', h2, h⟩ := (bind_ok _ _ _).1 h
    rw [pushElems_takeRest ext rest large el' o' r h, push_takeRest ext x el el' h2]

theorem pushCountElems_takeRest (ext : Ext) : ∀ (xs : SVals) (el : B) (c : Nat) (r : B × Nat),
    pushCountElems ext el c xs = .ok r → takeRest r.1 = takeRest el
  | .nil, el, c, r, h => by rw [pushCountElems] at h; cases h; rfl
  | .cons x rest, el, c, r, h => by
    rw [pushCountElems] at h
    obtain ⟨el', h2, h⟩ := (bind_ok _ _ _).1 h
    rw [pushCountElems_takeRest ext rest el' (c + 1) r h, push_takeRest ext x el el' h2]

theorem pushTupleElems_takeRest (ext : Ext) : ∀ (xs : SVals) (s s' : SS), pushTupleElems ext s xs = .ok s' → SSkel s' s
  | .nil, s, s', h => by rw [pushTupleElems] at h; cases h; exact SSkel.refl _
  | .cons x rest, s, s', h => by
    rw [pushTupleElems] at h
    split at h
    · obtain ⟨s1, h1, h⟩ := (bind_ok _ _ _).1 h
      exact (pushTupleElems_takeRest ext rest s1 s' h).trans
        (SS.element_skel (fun c c' hc => push_takeRest ext x c c' hc) h1)
    · exact pushTupleElems_takeRest ext rest s s' h

theorem pushFields_takeRest (ext : Ext) : ∀ (fs : SFields) (s s' : SS), pushFields ext s fs = .ok s' → SSkel s' s
  | .nil, s, s', h => by rw [pushFields] at h; cases h; exact SSkel.refl _
  | .cons key al x rest, s, s', h => by
    rw [pushFields] at h
    have hl := lookup_length s.fields.names s.cached s.next (key, al)
    split at h
    · rename_i cached' heq
      rw [heq] at hl
      exact (pushFields_takeRest ext rest _ s' h).trans ⟨rfl, rfl, rfl, hl, rfl⟩
    · rename_i idx cached' heq
      rw [heq] at hl
      obtain ⟨s1, h1, h⟩ := (bind_ok _ _ _).1 h
      exact ((pushFields_takeRest ext rest s1 s' h).trans
        (SS.element_skel (fun c c' hc => push_takeRest ext x c c' hc) h1)).trans ⟨rfl, rfl, rfl, hl, rfl⟩

theorem pushStructEntries_takeRest (ext : Ext) : ∀ (es : SEntries) (s s' : SS),
    pushStructEntries ext s es = .ok s' → SSkel s' s
  | .nil, s, s', h => by rw [pushStructEntries] at h; cases h; exact SSkel.refl _
  | .cons k x rest, s, s', h => by
    rw [pushStructEntries] at h
    obtain ⟨key, _, h⟩ := (bind_ok _ _ _).1 h
    split at h
    · exact (pushStructEntries_takeRest ext rest _ s' h).trans (SSkel.next s _)
    · obtain ⟨s1, h1, h⟩ := (bind_ok _ _ _).1 h
      exact ((pushStructEntries_takeRest ext rest _ s' h).trans (SSkel.next s1 _)).trans
        (SS.element_skel (fun c c' hc => push_takeRest ext x c c' hc) h1)

theorem pushStructOps_takeRest (ext : Ext) : ∀ (ops : SMapOps) (s s' : SS),
    pushStructOps ext s ops = .ok s' → SSkel s' s
  | .nil, s, s', h => by rw [pushStructOps] at h; cases h; exact SSkel.refl _
  | .key k rest, s, s', h => by
    rw [pushStructOps] at h
    obtain ⟨key, _, h⟩ := (bind_ok _ _ _).1 h
    exact (pushStructOps_takeRest ext rest _ s' h).trans (SSkel.next s _)
  | .value x rest, s, s', h => by
    rw [pushStructOps] at h
    split at h
    · obtain ⟨s1, h1, h⟩ := (bind_ok _ _ _).1 h
      exact ((pushStructOps_takeRest ext rest _ s' h).trans (SSkel.next s1 _)).trans
        (SS.element_skel (fun c c' hc => push_takeRest ext x c c' hc) h1)
    · exact (pushStructOps_takeRest ext rest _ s' h).trans (SSkel.next s _)

theorem pushMapEntries_takeRest (ext : Ext) : ∀ (es : SEntries) (offs : List Int) (ks vs : B) (r : List Int × B × B),
    pushMapEntries ext offs ks vs es = .ok r → takeRest r.2.1 = takeRest ks ∧ takeRest r.2.2 = takeRest vs
  | .nil, offs, ks, vs, r, h => by rw [pushMapEntries] at h; cases h; exact ⟨rfl, rfl⟩
  | .cons k x rest, offs, ks, vs, r, h => by
    rw [pushMapEntries] at h
    obtain ⟨o', _, h⟩ := (bind_ok _ _ _).1 h
    obtain ⟨ks', h2, h⟩ := (bind_ok _ _ _).1 h
    obtain ⟨vs', h3, h⟩ := (bind_ok _ _ _).1 h
    have := pushMapEntries_takeRest ext rest o' ks' vs' r h
    rw [this.1, this.2, push_takeRest ext k ks ks' h2, push_takeRest ext x vs vs' h3]
    exact ⟨rfl, rfl⟩

theorem pushMapOps_takeRest (ext : Ext) : ∀ (ops : SMapOps) (pd : Bool) (offs : List Int) (ks vs : B) (r : List Int × B × B),
    pushMapOps ext pd offs ks vs ops = .ok r → takeRest r.2.1 = takeRest ks ∧ takeRest r.2.2 = takeRest vs
  | .nil, pd, offs, ks, vs, r, h => by
    obtain ⟨_, rfl⟩ := pushMapOps_nil_ok h; exact ⟨rfl, rfl⟩
  | .key k rest, pd, offs, ks, vs, r, h => by
    obtain ⟨_, o', ks', _, h2, h⟩ := pushMapOps_key_ok h
    have := pushMapOps_takeRest ext rest true o' ks' vs r h
    rw [this.1, this.2, push_takeRest ext k ks ks' h2]
    exact ⟨rfl, rfl⟩
  | .value x rest, pd, offs, ks, vs, r, h => by
    obtain ⟨_, vs', h3, h⟩ := pushMapOps_value_ok h
    have := pushMapOps_takeRest ext rest false offs ks vs' r h
    rw [this.1, this.2, push_takeRest ext x vs vs' h3]
    exact ⟨rfl, rfl⟩
end

end SaModel.Build
