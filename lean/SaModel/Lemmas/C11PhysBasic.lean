import SaModel.Lemmas.C11PhysDefs
/-
C11, physical equality: `erase` commutes with everything that does not look at a serde value —
`serialize_none`, `serialize_default`, the scalar calls, `into_array`.
-/
namespace SaModel.Build
open SaModel SaModel.Spec

theorem setValidity_setV {v v' : Validity} {i : Nat} {b : Bool} (h : setValidity v i b = .ok v') : v' = setV v i b := by
  cases v with
  | none => cases b <;> simp [setValidity, fail] at h; subst h; rfl
  | some bits => simp [setValidity] at h; subst h; rfl

theorem BL.get?_eraseL : ∀ (fs : BL) (j : Nat), (eraseL fs).get? j = (fs.get? j).map fun x => (erase x.1, x.2)
  | .nil, _ => by simp [eraseL, BL.get?]
  | .cons b m r, 0 => by simp [eraseL, BL.get?]
  | .cons b m r, j + 1 => by simp [eraseL, BL.get?, BL.get?_eraseL r j]

theorem BL.set_eraseL : ∀ (fs : BL) (j : Nat) (c : B), eraseL (fs.set j c) = (eraseL fs).set j (erase c)
  | .nil, _, _ => by simp [eraseL, BL.set]
  | .cons b m r, 0, c => by simp [eraseL, BL.set]
  | .cons b m r, j + 1, c => by simp [eraseL, BL.set, BL.set_eraseL r j c]

theorem BL.length_eraseL : ∀ (fs : BL), (eraseL fs).length = fs.length
  | .nil => by simp [eraseL]
  | .cons b m r => by simp [eraseL, BL.length, BL.length_eraseL r]

theorem BL.names_eraseL : ∀ (fs : BL), (eraseL fs).names = fs.names
  | .nil => by simp [eraseL]
  | .cons b m r => by simp [eraseL, BL.names, BL.names_eraseL r]

theorem erase_ann (b : B) : (erase b).ann = b.ann := by
  cases b <;> simp [erase, B.ann, B.label, B.path]

theorem erase_isNullable (b : B) : (erase b).isNullable = b.isNullable := by
  match b with
  | .null .. | .unknownVariant .. | .leaf .. | .bytes .. | .bytesView .. | .fixedSizeBinary ..
  | .list .. | .fixedSizeList .. | .map .. | .struct .. | .union .. => simp [erase, B.isNullable]
  | .dictionary p idx vals index => simp [erase, B.isNullable, erase_isNullable idx]

theorem erase_rows (b : B) : (erase b).rows = b.rows := by
  match b with
  | .null .. | .unknownVariant .. | .leaf .. | .bytes .. | .bytesView .. | .fixedSizeBinary ..
  | .list .. | .fixedSizeList .. | .map .. | .struct .. | .union .. => simp [erase, B.rows]
  | .dictionary p idx vals index => simp [erase, B.rows, erase_rows idx]

theorem erase_isPlaceholder (b : B) : (erase b).isPlaceholder = b.isPlaceholder := by
  cases b <;> simp [erase, B.isPlaceholder]

theorem firstReal?_eraseL : ∀ (fs : BL), firstReal? (eraseL fs) = firstReal? fs
  | .nil => by simp [eraseL]
  | .cons b m r => by simp [eraseL, firstReal?, erase_isPlaceholder, firstReal?_eraseL r]

theorem firstReal_eraseL (fs : BL) : firstReal (eraseL fs) = firstReal fs := by
  simp [firstReal, firstReal?_eraseL]

mutual
theorem erase_erase : ∀ (b : B), erase (erase b) = erase b
  | .null .. | .unknownVariant .. | .leaf .. | .bytes .. | .bytesView .. | .fixedSizeBinary .. => by simp [erase]
  | .list p large fm v offs el => by simp [erase, erase_erase el]
  | .fixedSizeList p fm n len v cur el => by simp [erase, erase_erase el]
  | .map p mm v offs ks vs => by simp [erase, erase_erase ks, erase_erase vs]
  | .struct p len v fs _ _ _ => by simp [erase, eraseL_eraseL fs]
  | .dictionary p idx vals index => by simp [erase, erase_erase idx, erase_erase vals]
  | .union p fs types offs cur => by simp [erase, eraseL_eraseL fs]
theorem eraseL_eraseL : ∀ (fs : BL), eraseL (eraseL fs) = eraseL fs
  | .nil => by simp [eraseL]
  | .cons b m r => by simp [eraseL, erase_erase b, eraseL_eraseL r]
end

mutual
theorem pushDefaultK_erase : ∀ (b : B) (k : Nat) (b' : B), pushDefaultK b k = .ok b' →
    pushDefaultK (erase b) k = .ok (erase b')
  | .null p len, k, b', h => by simp [pushDefaultK] at h; subst h; simp [erase, pushDefaultK]
  | .unknownVariant p, k, b', h => by
    simp only [pushDefaultK] at h
    split at h
    · cases h; simp [erase, pushDefaultK, *]
    · simp [ctx_ok, fail] at h
  | .leaf p kind v vals, k, b', h => by
    simp only [pushDefaultK] at h
    obtain ⟨⟨v', vals'⟩, h1, h2⟩ := (bind_ok _ _ _).1 h
    cases h2
    simp only [erase, pushDefaultK, h1]; rfl
  | .bytes p ty v offs data, k, b', h => by
    simp only [pushDefaultK, ctx_ok] at h
    obtain ⟨⟨v', offs'⟩, h1, h2⟩ := (bind_ok _ _ _).1 h
    cases h2
    simp only [erase, pushDefaultK, ctx_ok, h1]; rfl
  | .bytesView p ty v views buf, k, b', h => by
    simp only [pushDefaultK] at h
    obtain ⟨⟨v', views'⟩, h1, h2⟩ := (bind_ok _ _ _).1 h
    cases h2
    simp only [erase, pushDefaultK, h1]; rfl
  | .fixedSizeBinary p n len v buf cur, k, b', h => by
    simp only [pushDefaultK] at h
    obtain ⟨⟨len', v', buf'⟩, h1, h2⟩ := (bind_ok _ _ _).1 h
    cases h2
    simp only [erase, pushDefaultK, h1]; rfl
  | .list p large fm v offs el, k, b', h => by
    simp only [pushDefaultK, ctx_ok] at h
    obtain ⟨⟨v', offs'⟩, h1, h2⟩ := (bind_ok _ _ _).1 h
    cases h2
    simp only [erase, pushDefaultK, ctx_ok, h1]; rfl
  | .fixedSizeList p fm n len v cur el, k, b', h => by
    simp only [pushDefaultK, ctx_ok] at h
    obtain ⟨⟨len', v'⟩, h1, h2⟩ := (bind_ok _ _ _).1 h
    obtain ⟨el', h3, h4⟩ := (bind_ok _ _ _).1 h2
    cases h4
    simp only [erase, pushDefaultK, ctx_ok, h1, pushDefaultK_erase el (k * n) el' h3]; rfl
  | .map p mm v offs ks vs, k, b', h => by
    simp only [pushDefaultK, ctx_ok] at h
    obtain ⟨⟨v', offs'⟩, h1, h2⟩ := (bind_ok _ _ _).1 h
    cases h2
    simp only [erase, pushDefaultK, ctx_ok, h1]; rfl
  | .struct p len v fs cached next seen, k, b', h => by
    simp only [pushDefaultK, ctx_ok] at h
    obtain ⟨⟨len', v'⟩, h1, h2⟩ := (bind_ok _ _ _).1 h
    obtain ⟨fs', h3, h4⟩ := (bind_ok _ _ _).1 h2
    cases h4
    simp only [erase, pushDefaultK, ctx_ok, h1, pushDefaultKAll_erase fs k fs' h3]; rfl
  | .dictionary p idx vals index, k, b', h => by
    simp only [pushDefaultK, ctx_ok] at h
    obtain ⟨idx', h1, h2⟩ := (bind_ok _ _ _).1 h
    cases h2
    simp only [erase, pushDefaultK, ctx_ok, pushDefaultK_erase idx k idx' h1]; rfl
  | .union p .nil types offs cur, k, b', h => by
    simp only [pushDefaultK, ctx_ok] at h
    split at h
    · cases h; simp [erase, eraseL, pushDefaultK, ctx_ok, *]
    · simp [fail] at h
  | .union p (.cons c m rest) types offs cur, k, b', h => by
    simp only [pushDefaultK, ctx_ok] at h
    split at h
    · simp [fail] at h
    rename_i hk0
    split at h
    · simp [fail] at h
    · rename_i hk
      obtain ⟨fs', h1, h2⟩ := (bind_ok _ _ _).1 h
      split at h2
      · simp [fail] at h2
      rename_i hk2
      cases h2
      have hfr : firstReal (.cons (erase c) m (eraseL rest)) = firstReal (.cons c m rest) := by
        have := firstReal_eraseL (.cons c m rest)
        simpa only [eraseL] using this
      have hat := pushDefaultKAt_erase (.cons c m rest) (firstReal (.cons c m rest)) k fs' h1
      simp only [eraseL] at hat
      simp only [erase, eraseL, pushDefaultK, ctx_ok, hfr, hk0, hk, if_false, hat]
      exact (bind_ok _ _ _).2 ⟨_, rfl, by simp only [hk2, if_false]; rfl⟩
theorem pushDefaultKAll_erase : ∀ (fs : BL) (k : Nat) (fs' : BL), pushDefaultKAll fs k = .ok fs' →
    pushDefaultKAll (eraseL fs) k = .ok (eraseL fs')
  | .nil, k, fs', h => by simp [pushDefaultKAll] at h; subst h; simp [eraseL, pushDefaultKAll]
  | .cons b m rest, k, fs', h => by
    simp only [pushDefaultKAll] at h
    obtain ⟨b', h1, h2⟩ := (bind_ok _ _ _).1 h
    obtain ⟨r', h3, h4⟩ := (bind_ok _ _ _).1 h2
    cases h4
    simp only [eraseL, pushDefaultKAll, pushDefaultK_erase b k b' h1, pushDefaultKAll_erase rest k r' h3]; rfl
theorem pushDefaultKAt_erase : ∀ (fs : BL) (j k : Nat) (fs' : BL), pushDefaultKAt fs j k = .ok fs' →
    pushDefaultKAt (eraseL fs) j k = .ok (eraseL fs')
  | .nil, j, k, fs', h => by simp [pushDefaultKAt] at h; subst h; simp [eraseL, pushDefaultKAt]
  | .cons b m rest, 0, k, fs', h => by
    simp only [pushDefaultKAt] at h
    obtain ⟨b', h1, h2⟩ := (bind_ok _ _ _).1 h
    cases h2
    simp only [eraseL, pushDefaultKAt, pushDefaultK_erase b k b' h1]; rfl
  | .cons b m rest, j + 1, k, fs', h => by
    simp only [pushDefaultKAt] at h
    obtain ⟨r', h1, h2⟩ := (bind_ok _ _ _).1 h
    cases h2
    simp only [eraseL, pushDefaultKAt, pushDefaultKAt_erase rest j k r' h1]; rfl
end

theorem pushNone_erase : ∀ (b b' : B), pushNone b = .ok b' → pushNone (erase b) = .ok (erase b')
  | .null p len, b', h => by simp [pushNone] at h; subst h; simp [erase, pushNone]
  | .unknownVariant p, b', h => by simp [pushNone, ctx_ok, fail] at h
  | .leaf p k v vals, b', h => by
    simp only [pushNone, ctx_ok] at h
    obtain ⟨v', h1, h2⟩ := (bind_ok _ _ _).1 h
    cases h2
    simp only [erase, pushNone, ctx_ok, h1]; rfl
  | .bytes p ty v offs data, b', h => by
    simp only [pushNone, ctx_ok] at h
    obtain ⟨v', h1, h2⟩ := (bind_ok _ _ _).1 h
    obtain ⟨o', h3, h4⟩ := (bind_ok _ _ _).1 h2
    cases h4
    simp only [erase, pushNone, ctx_ok, h1, h3]; rfl
  | .bytesView p ty v views buf, b', h => by
    simp only [pushNone, ctx_ok] at h
    obtain ⟨v', h1, h2⟩ := (bind_ok _ _ _).1 h
    cases h2
    simp only [erase, pushNone, ctx_ok, h1]; rfl
  | .fixedSizeBinary p n len v buf cur, b', h => by
    simp only [pushNone, ctx_ok] at h
    obtain ⟨v', h1, h2⟩ := (bind_ok _ _ _).1 h
    cases h2
    simp only [erase, pushNone, ctx_ok, h1]; rfl
  | .list p large fm v offs el, b', h => by
    simp only [pushNone, ctx_ok] at h
    obtain ⟨v', h1, h2⟩ := (bind_ok _ _ _).1 h
    obtain ⟨o', h3, h4⟩ := (bind_ok _ _ _).1 h2
    cases h4
    simp only [erase, pushNone, ctx_ok, h1, h3]; rfl
  | .fixedSizeList p fm n len v cur el, b', h => by
    simp only [pushNone, ctx_ok] at h
    obtain ⟨v', h1, h2⟩ := (bind_ok _ _ _).1 h
    obtain ⟨el', h3, h4⟩ := (bind_ok _ _ _).1 h2
    cases h4
    simp only [erase, pushNone, ctx_ok, h1, pushDefaultK_erase el n el' h3]; rfl
  | .map p mm v offs ks vs, b', h => by
    simp only [pushNone, ctx_ok] at h
    obtain ⟨v', h1, h2⟩ := (bind_ok _ _ _).1 h
    obtain ⟨o', h3, h4⟩ := (bind_ok _ _ _).1 h2
    cases h4
    simp only [erase, pushNone, ctx_ok, h1, h3]; rfl
  | .struct p len v fs cached next seen, b', h => by
    simp only [pushNone, ctx_ok] at h
    obtain ⟨v', h1, h2⟩ := (bind_ok _ _ _).1 h
    obtain ⟨fs', h3, h4⟩ := (bind_ok _ _ _).1 h2
    cases h4
    simp only [erase, pushNone, ctx_ok, h1, pushDefaultKAll_erase fs 1 fs' h3]; rfl
  | .dictionary p idx vals index, b', h => by
    simp only [pushNone, ctx_ok] at h
    split at h
    · simp [fail] at h
    rename_i hn
    obtain ⟨idx', h1, h2⟩ := (bind_ok _ _ _).1 h
    cases h2
    have h1' := pushNone_erase idx idx' ((ctx_ok _ _ _).1 h1)
    simp only [erase, pushNone, ctx_ok, erase_isNullable, hn]
    refine (bind_ok _ _ _).2 ⟨erase idx', (ctx_ok _ _ _).2 h1', rfl⟩
  | .union p fs types offs cur, b', h => by simp [pushNone, ctx_ok, fail] at h

theorem noneL_erase {b b' : B} (h : pushNone b = .ok b') : noneL (erase b) = erase b' := by
  simp [noneL, pushNone_erase b b' h]

theorem map_erase_fix (r : R B) (h : ∀ b', r = .ok b' → erase b' = b') : r = r.map erase := by
  cases r with
  | error e => rfl
  | ok b' => simp [Except.map, h b' rfl]

/-- the scalar calls do not look at the erased parts -/
theorem ctx_map_erase (ann : List (String × String)) (r : R B) : ctx ann (r.map erase) = (ctx ann r).map erase := by
  cases r with
  | ok v => rfl
  | error e => cases e <;> simp [ctx, Except.map] <;> split <;> rfl

theorem pushScalar_erase (ext : Ext) : ∀ (b : B) (x : SVal), pushScalar ext (erase b) x = (pushScalar ext b x).map erase
  | .null p len, x => by
    simp only [erase]
    apply map_erase_fix
    intro b' h
    unfold pushScalar at h
    split at h
    · cases h; simp [erase]
    · simp [notSupported, fail] at h
  | .unknownVariant p, x => by
    simp only [erase]
    apply map_erase_fix
    intro b' h
    simp [pushScalar, fail] at h
  | .leaf p k v vals, x => by
    simp only [erase]
    apply map_erase_fix
    intro b' h
    simp only [pushScalar] at h
    obtain ⟨val, _, h2⟩ := (bind_ok _ _ _).1 h
    obtain ⟨v', h3, h4⟩ := (bind_ok _ _ _).1 h2
    cases h4
    simp [erase]
  | .bytes p ty v offs data, x => by
    simp only [erase]
    apply map_erase_fix
    intro b' h
    simp only [pushScalar] at h
    obtain ⟨bs, _, h2⟩ := (bind_ok _ _ _).1 h
    obtain ⟨v', h3, h4⟩ := (bind_ok _ _ _).1 h2
    obtain ⟨o1, _, h5⟩ := (bind_ok _ _ _).1 h4
    obtain ⟨o2, _, h6⟩ := (bind_ok _ _ _).1 h5
    cases h6
    simp [erase]
  | .bytesView p ty v views buf, x => by
    simp only [erase]
    apply map_erase_fix
    intro b' h
    simp only [pushScalar] at h
    obtain ⟨bs, _, h2⟩ := (bind_ok _ _ _).1 h
    obtain ⟨⟨views', buf'⟩, _, h2⟩ := (bind_ok _ _ _).1 h2
    obtain ⟨v', h3, h4⟩ := (bind_ok _ _ _).1 h2
    cases h4
    simp [erase]
  | .fixedSizeBinary p n len v buf cur, x => by
    simp only [erase]
    unfold pushScalar
    split
    · split
      · rfl
      · cases setValidity v len true <;> simp [bind, Except.bind, Except.map, pure, Except.pure, erase]
    · rfl
  | .dictionary p idx vals index, x => by
    simp only [erase]
    unfold pushScalar
    simp only
    cases hk : scalarToString ext x with
    | none => rfl
    | some s =>
      cases hi : indexOfName index s with
      | some i =>
        simp only [hi, pushScalar_erase ext idx, erase_ann, ctx_map_erase]
        cases ctx idx.ann (pushScalar ext idx (.int .u64 i)) <;> simp [bind, Except.bind, Except.map, pure, Except.pure, erase]
      | none =>
        simp only [hi, pushScalar_erase ext idx, pushScalar_erase ext vals, erase_ann, ctx_map_erase]
        cases ctx vals.ann (pushScalar ext vals (.str s)) <;> cases ctx idx.ann (pushScalar ext idx (.int .u64 index.length)) <;>
          simp [bind, Except.bind, Except.map, pure, Except.pure, erase]
  | .list _ _ _ _ _ _, x => by simp [erase, pushScalar, notSupported, fail, Except.map]
  | .fixedSizeList _ _ _ _ _ _ _, x => by simp [erase, pushScalar, notSupported, fail, Except.map]
  | .map _ _ _ _ _ _, x => by simp [erase, pushScalar, notSupported, fail, Except.map]
  | .struct _ _ _ _ _ _ _, x => by simp [erase, pushScalar, notSupported, fail, Except.map]
  | .union _ _ _ _ _, x => by simp [erase, pushScalar, notSupported, fail, Except.map]

theorem ctx_map_erase_discard {α} (ann : List (String × String)) (r : R B) (k : R α) :
    (ctx ann (r.map erase) >>= fun _ => k) = (ctx ann r >>= fun _ => k) := by
  cases r <;> rfl

mutual
theorem finish_erase (ext : Ext) : ∀ (b : B), finish ext (erase b) = finish ext b
  | .null .. | .unknownVariant .. | .leaf .. | .bytes .. | .bytesView .. => by simp only [erase]
  | .fixedSizeBinary .. => by simp only [erase, finish]
  | .list p large fm v offs el => by simp only [erase, finish, finish_erase ext el]
  | .fixedSizeList p fm n len v cur el => by simp only [erase, finish, finish_erase ext el]
  | .map p mm v offs ks vs => by simp only [erase, finish, finish_erase ext ks, finish_erase ext vs]
  | .struct p len v fs _ _ _ => by simp only [erase, finish, finishFields_erase ext fs]
  | .dictionary p idx vals index => by
    simp only [erase, finish, finish_erase ext idx, finish_erase ext vals, erase_isNullable, erase_rows,
      erase_ann, pushScalar_erase, ctx_map_erase_discard]
  | .union p fs types offs cur => by simp only [erase, finish, finishUFields_erase ext fs 0]
theorem finishFields_erase (ext : Ext) : ∀ (fs : BL), finishFields ext (eraseL fs) = finishFields ext fs
  | .nil => by simp only [eraseL]
  | .cons b m rest => by simp only [eraseL, finishFields, finish_erase ext b, finishFields_erase ext rest]
theorem finishUFields_erase (ext : Ext) : ∀ (fs : BL) (idx : Nat), finishUFields ext (eraseL fs) idx = finishUFields ext fs idx
  | .nil, _ => by simp only [eraseL]
  | .cons b m rest, idx => by
    simp only [eraseL, finishUFields, finish_erase ext b, finishUFields_erase ext rest (idx + 1)]
end

end SaModel.Build
