import SaModel.Lemmas.C01CompDefs
/-
C11, physical equality of the arrays across presentations: vocabulary.

* `erase b`      — the builder state without the parts that depend on HOW the last record was presented and never
                   reach an array: the struct builder's name cache, `next` and the per-record `seen` flags (reset by
                   `StructBuilder::start`), and `current_n` of a fixed-size binary builder (only written by the
                   sequence presentation).  `finish ext b = finish ext (erase b)` (`Lemmas/C11PhysBasic.lean`).
* `pushL un lv b` — the state after pushing a value whose DOCUMENTED value is `lv` (`Spec.interpDT`), as a total
                   function of the erased state and `lv` alone: no serde value, no field names, no cache.
                   `push ext b x = ok b'` and `interpDT … x = ok lv` give `pushL un lv (erase b) = erase b'`
                   (`Lemmas/C11PhysPush.lean: push_phys`); hence two presentations of one logical value leave the
                   same state up to `erase`.
                   `un` recovers the string from its UTF-8 bytes (`un (strBytes s) = s`): the dictionary builder
                   keeps the strings themselves in its index.
-/
namespace SaModel.Build
open SaModel SaModel.Spec

mutual
/-- forget the presentation dependent scratch state -/
def erase : B → B
  | .null p len => .null p len
  | .unknownVariant p => .unknownVariant p
  | .leaf p k v vals => .leaf p k v vals
  | .bytes p ty v offs data => .bytes p ty v offs data
  | .bytesView p ty v views buf => .bytesView p ty v views buf
  | .fixedSizeBinary p n len v buf _ => .fixedSizeBinary p n len v buf 0
  | .list p large fm v offs el => .list p large fm v offs (erase el)
  | .fixedSizeList p fm n len v cur el => .fixedSizeList p fm n len v cur (erase el)
  | .map p mm v offs ks vs => .map p mm v offs (erase ks) (erase vs)
  | .struct p len v fs _ _ _ => .struct p len v (eraseL fs) [] 0 []
  | .dictionary p idx vals index => .dictionary p (erase idx) (erase vals) index
  | .union p fs types offs cur => .union p (eraseL fs) types offs cur
def eraseL : BL → BL
  | .nil => .nil
  | .cons b m r => .cons (erase b) m (eraseL r)
end

/-- `set_validity(idx, value)` when it succeeds -/
def setV (v : Validity) (idx : Nat) (value : Bool) : Validity := v.map fun bits => setBit bits idx value

/-- the last offset -/
def lastOff (offs : List Int) : Int := offs.getLast?.getD 0

/-- what a leaf builder stores for a logical value -/
def encLeaf : LVal → Int
  | .bool c => boolInt c
  | .int v => v
  | .float v => v
  | _ => 0

def bytesOfL : LVal → Bytes
  | .str bs => bs
  | .bin bs => bs
  | _ => []

def LVals.length : LVals → Nat
  | .nil => 0
  | .cons _ r => LVals.length r + 1

def LEntries.length : LEntries → Nat
  | .nil => 0
  | .cons _ _ r => LEntries.length r + 1

/-- `serialize_none` as a total function (identity where it is refused) -/
def noneL (b : B) : B :=
  match pushNone b with
  | .ok b' => b'
  | .error _ => b

/-- a scalar logical value (`bool`, `int`, `float`, `str`, `bin`) into the builder that stores it -/
def scalarL (un : Bytes → String) : B → LVal → B
  | .leaf p k v vals, lv => .leaf p k (setV v vals.length true) (vals ++ [encLeaf lv])
  | .bytes p ty v offs data, lv =>
    .bytes p ty (setV v (offs.length - 1) true) (offs ++ [lastOff offs + ((bytesOfL lv).length : Int)]) (data ++ bytesOfL lv)
  | .bytesView p ty v views buf, lv =>
    if (bytesOfL lv).length ≤ 12 then .bytesView p ty (setV v views.length true) (views ++ [packInline (bytesOfL lv)]) buf
    else .bytesView p ty (setV v views.length true) (views ++ [packExtern (bytesOfL lv) 0 buf.length]) (buf ++ bytesOfL lv)
  | .fixedSizeBinary p n len v buf cur, lv => .fixedSizeBinary p n (len + 1) (setV v len true) (buf ++ bytesOfL lv) cur
  | .dictionary p idx vals index, lv =>
    match indexOfName index (un (bytesOfL lv)) with
    | some i => .dictionary p (scalarL un idx (.int i)) vals index
    | none => .dictionary p (scalarL un idx (.int index.length)) (scalarL un vals (.str (bytesOfL lv))) (index ++ [un (bytesOfL lv)])
  | b, _ => b
termination_by structural b => b

mutual
/-- the state after a value with documented value `lv` has been pushed -/
def pushL (un : Bytes → String) : LVal → B → B
  | .null, b => noneL b
  | .bool c, b => scalarL un b (.bool c)
  | .int v, b => scalarL un b (.int v)
  | .float v, b => scalarL un b (.float v)
  | .str bs, b => scalarL un b (.str bs)
  | .bin bs, b => scalarL un b (.bin bs)
  | .list items, b =>
    match b with
    | .list p large fm v offs el =>
      .list p large fm (setV v (offs.length - 1) true) (offs ++ [lastOff offs + (LVals.length items : Int)]) (pushLs un items el)
    | .fixedSizeList p fm n len v _ el => .fixedSizeList p fm n (len + 1) (setV v len true) n (pushLs un items el)
    | b => b
  | .struct lfs, b =>
    match b with
    | .struct p len v fs cached next seen => .struct p (len + 1) (setV v len true) (pushLF un lfs fs) cached next seen
    | b => b
  | .map es, b =>
    match b with
    | .map p mm v offs ks vs =>
      .map p mm (setV v (offs.length - 1) true) (offs ++ [lastOff offs + (LEntries.length es : Int)])
        (pushLK un es ks) (pushLW un es vs)
    | b => b
  | .union tid lv, b =>
    match b with
    | .union p fs types offs cur =>
      match fs.get? tid.toNat with
      | some (c, _) =>
        .union p (fs.set tid.toNat (pushL un lv c)) (types ++ [((tid.toNat : Nat) : Int)]) (offs ++ [cur.getD tid.toNat 0])
          (cur.set tid.toNat (cur.getD tid.toNat 0 + 1))
      | none => b
    | b => b
/-- list elements, in order, into the element builder -/
def pushLs (un : Bytes → String) : LVals → B → B
  | .nil, el => el
  | .cons v r, el => pushLs un r (pushL un v el)
/-- the fields of a struct value, in schema order, into the children -/
def pushLF (un : Bytes → String) : LFields → BL → BL
  | .nil, fs => fs
  | .cons _ v r, fs =>
    match fs with
    | .nil => .nil
    | .cons b m rest => .cons (pushL un v b) m (pushLF un r rest)
/-- the keys of the entries of a map value into the key builder -/
def pushLK (un : Bytes → String) : LEntries → B → B
  | .nil, ks => ks
  | .cons k _ r, ks => pushLK un r (pushL un k ks)
/-- the values of the entries of a map value into the value builder -/
def pushLW (un : Bytes → String) : LEntries → B → B
  | .nil, vs => vs
  | .cons _ w r, vs => pushLW un r (pushL un w vs)
end

end SaModel.Build
