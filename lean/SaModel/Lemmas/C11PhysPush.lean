import SaModel.Lemmas.C11PhysStruct
/-
C11, physical equality: **the state after a push depends on the documented value only.**

  push_phys   push ext b x = ok b'  →  interpDT ext dt n md x = ok lv  →  pushL un lv (erase b) = erase b'

for every builder family and every serde value without raw key/value streams, at any nesting (hypotheses of R2:
`WFH`, `NoDictKey`, `Shape`).  One mutual structural recursion over the serde value; the loops (`pushElems`, `pushCountElems`,
`pushTupleElems`, `pushFields`, `pushStructEntries`, `pushMapEntries`) are part of it.
-/
namespace SaModel.Build
open SaModel SaModel.Spec

theorem LEntries.length_ofList : ∀ (l : List (LVal × LVal)), LEntries.length (LEntries.ofList l) = l.length
  | [] => rfl
  | (_, _) :: r => by simp [LEntries.ofList, LEntries.length, LEntries.length_ofList r]

theorem get?_lt_length {α} {l : List α} {j : Nat} {a : α} (h : l[j]? = some a) : j < l.length := by
  rcases Nat.lt_or_ge j l.length with h' | h'
  · exact h'
  · rw [List.getElem?_eq_none_iff.mpr h'] at h; cases h

/-- the hypotheses the union row needs about the variant's child -/
theorem union_child {p fs types offs cur} {i : Nat} {c : B} {m : FieldMeta} {ufs : UFields}
    (hwf : WFH (.union p fs types offs cur)) (hs : NoDictKey (.union p fs types offs cur)) (hsu : ShapeU fs ufs 0)
    (hget : fs.get? i = some (c, m)) :
    WFH c ∧ NoDictKey c ∧ ∃ fname fdt fn fmd, ufs.toList[i]? = some ((i : Int), .mk fname fdt fn fmd) ∧ Shape c fdt fn fmd := by
  simp only [WFH] at hwf
  simp only [NoDictKey] at hs
  obtain ⟨fname, fdt, fn, fmd, hufs, hshc⟩ := ShapeU.get fs ufs 0 i c m hsu hget
  simp only [Nat.zero_add] at hufs
  exact ⟨(WFHU_get _ _ _ _ hwf.2.2.1 hget).2, NoDictKeyL.get _ _ _ hs hget, fname, fdt, fn, fmd, hufs, hshc⟩

/-- what the induction hypothesis for `pushTupleElems` provides: field `j ≥ next` receives element `j - next`, fields
before `next` are not touched -/
def TuplePhys (ext : Ext) (un : Bytes → String) (xs : SVals) : Prop :=
  ∀ (fs0 : BL) (s s' : SS) (adds : List (List LVal)) (sfs : Fields), MidH fs0 s adds → ShapeL s.fields sfs →
    pushTupleElems ext s xs = .ok s' →
    ∀ j f found, sfs.toList[j]? = some f → (j < s.next → ChildRel un s s' j []) ∧
      (s.next ≤ j → interpNth ext f.dataType f.nullable f.metadata (j - s.next) xs = .ok found → ChildRel un s s' j found)

/-- what the induction hypothesis for `pushFields` provides -/
def FieldsPhys (ext : Ext) (un : Bytes → String) (fields : SFields) : Prop :=
  ∀ (fs0 : BL) (s s' : SS) (adds : List (List LVal)) (sfs : Fields), MidH fs0 s adds → ShapeL s.fields sfs →
    pushFields ext s fields = .ok s' →
    ∀ j f found, sfs.toList[j]? = some f →
      interpByName ext f.name f.dataType f.nullable f.metadata fields = .ok found → ChildRel un s s' j found

/-- a positional record (tuple, tuple struct, tuple variant) into a struct builder -/
theorem tuple_phys (ext : Ext) (un : Bytes → String) (xs : SVals) (hloop : TuplePhys ext un xs)
    {p len v fs cached next seen} {b' : B} {dt : DataType} {n : Bool} {md : Metadata} {lv : LVal}
    (hwf : WFH (.struct p len v fs cached next seen)) (hs : NoDictKey (.struct p len v fs cached next seen))
    (hsh : Shape (.struct p len v fs cached next seen) dt n md)
    (h : (do
      let s ← SS.start ⟨p, len, v, fs, cached, next, seen⟩
      let s ← pushTupleElems ext s xs
      let s ← s.finishRow
      pure s.toB : R B) = .ok b')
    (hi : seqSpec ext true dt md xs = .ok lv) :
    pushL un lv (erase (.struct p len v fs cached next seen)) = erase b' := by
  have hsh' := hsh
  simp only [Shape] at hsh'
  obtain ⟨_, sfs, rfl, hsl⟩ := hsh'
  simp only [seqSpec, isUnknownVariant, Bool.false_eq_true, if_false, if_true] at hi
  have hnd : fs.names.Nodup := by simp only [WFH] at hwf; exact hwf.2.2.2.1
  refine record_phys (pf := fun s => pushTupleElems ext s xs) _ hwf hs hsl (pushTupleElems_refines ext xs) ?_ h hi
  intro s1 s2 hn0 hf1 hm1 hp j f found hj hc
  have hidx : indexOfName (sfs.toList.map Field.name) f.name = some j := by
    rw [← ShapeL.names fs sfs hsl]
    exact SaModel.Props.C11Front.indexOfName_of_get _ hnd _ j (names_at hsl hj)
  rw [hidx, Option.getD_some] at hc
  exact (hloop fs s1 s2 _ sfs hm1 (by rw [hf1]; exact hsl) hp j f found hj).2
    (by omega) (by rw [hn0]; exact hc)

/-- a struct presentation (record, struct variant) into a struct builder -/
theorem fields_phys (ext : Ext) (un : Bytes → String) (fields : SFields) (hloop : FieldsPhys ext un fields)
    {p len v fs cached next seen} {b' : B} {sfs : Fields} {n : Bool} {md : Metadata} {lv : LVal}
    (hwf : WFH (.struct p len v fs cached next seen)) (hs : NoDictKey (.struct p len v fs cached next seen))
    (hsh : Shape (.struct p len v fs cached next seen) (.struct sfs) n md)
    (h : (do
      let s ← SS.start ⟨p, len, v, fs, cached, next, seen⟩
      let s ← pushFields ext s fields
      let s ← s.finishRow
      pure s.toB : R B) = .ok b')
    (hi : structOf sfs.toList (fun f => interpByName ext f.name f.dataType f.nullable f.metadata fields) = .ok lv) :
    pushL un lv (erase (.struct p len v fs cached next seen)) = erase b' := by
  have hsh' := hsh
  simp only [Shape] at hsh'
  obtain ⟨_, sfs', hsfs, hsl⟩ := hsh'
  cases hsfs
  refine record_phys (pf := fun s => pushFields ext s fields) _ hwf hs hsl (pushFields_refines ext fields) ?_ h hi
  intro s1 s2 _ hf1 hm1 hp j f found hj hc
  exact hloop fs s1 s2 _ sfs hm1 (by rw [hf1]; exact hsl) hp j f found hj hc

/-- the value of a tuple variant is a positional presentation at the variant's type -/
theorem interpDT_tupleVariant_seq (ext : Ext) (ufs : UFields) (mode : UnionMode) (n : Bool) (md : Metadata) (a : String)
    (i : Nat) (vn : String) (xs : SVals) (tid : Int) (nm : String) (cdt : DataType) (cn : Bool) (cmd : Metadata)
    (lv : LVal) (hufs : ufs.toList[i]? = some (tid, .mk nm cdt cn cmd))
    (h : interpDT ext (.union ufs mode) n md (.tupleVariant a i vn xs) = .ok lv) :
    ∃ lvc, seqSpec ext true cdt cmd xs = .ok lvc ∧ lv = .union tid lvc := by
  simp only [interpDT, hufs] at h
  unfold seqSpec
  by_cases hu : isUnknownVariant cdt cmd = true
  · simp [hu, fail] at h
  · simp only [hu, Bool.false_eq_true, if_false] at h ⊢
    cases cdt
    case struct cfs =>
      simp only [if_true] at h ⊢
      obtain ⟨r, hr, h⟩ := (bind_ok _ _ _).1 h
      cases h
      exact ⟨r, hr, rfl⟩
    case list f =>
      cases f
      simp only at h ⊢
      obtain ⟨r, hr, h⟩ := (bind_ok _ _ _).1 h
      cases h
      exact ⟨_, by simp [hr, bind, Except.bind, pure, Except.pure], rfl⟩
    case largeList f =>
      cases f
      simp only at h ⊢
      obtain ⟨r, hr, h⟩ := (bind_ok _ _ _).1 h
      cases h
      exact ⟨_, by simp [hr, bind, Except.bind, pure, Except.pure], rfl⟩
    case fixedSizeList f k =>
      cases f
      simp only at h ⊢
      obtain ⟨r, hr, h⟩ := (bind_ok _ _ _).1 h
      split at h
      · rename_i hk
        cases h
        exact ⟨_, by simp [hr, hk, bind, Except.bind, pure, Except.pure], rfl⟩
      · simp [fail] at h
    case binary =>
      simp only at h ⊢
      obtain ⟨r, hr, h⟩ := (bind_ok _ _ _).1 h
      cases h
      exact ⟨_, by simp [hr, bind, Except.bind, pure, Except.pure], rfl⟩
    case largeBinary =>
      simp only at h ⊢
      obtain ⟨r, hr, h⟩ := (bind_ok _ _ _).1 h
      cases h
      exact ⟨_, by simp [hr, bind, Except.bind, pure, Except.pure], rfl⟩
    case binaryView =>
      simp only at h ⊢
      obtain ⟨r, hr, h⟩ := (bind_ok _ _ _).1 h
      cases h
      exact ⟨_, by simp [hr, bind, Except.bind, pure, Except.pure], rfl⟩
    case fixedSizeBinary k =>
      simp only at h ⊢
      obtain ⟨r, hr, h⟩ := (bind_ok _ _ _).1 h
      split at h
      · rename_i hk
        cases h
        exact ⟨_, by simp [hr, hk, bind, Except.bind, pure, Except.pure], rfl⟩
      · simp [fail] at h
    all_goals (simp only [fail] at h; cases h)

mutual
theorem push_phys (ext : Ext) (un : Bytes → String) (hun : ∀ s, un (strBytes s) = s) :
    ∀ (x : SVal) (b b' : B) (dt : DataType) (n : Bool) (md : Metadata) (lv : LVal),
    noRaw x = true → WFH b → NoDictKey b → Shape b dt n md → push ext b x = .ok b' → interpDT ext dt n md x = .ok lv →
    pushL un lv (erase b) = erase b'
  | .some v, b, b', dt, n, md, lv, hraw, hwf, hs, hsh, h, hi => by
    rw [push] at h; rw [interpDT] at hi
    exact push_phys ext un hun v b b' dt n md lv (by simpa [noRaw] using hraw) hwf hs hsh h hi
  | .newtypeStruct _ v, b, b', dt, n, md, lv, hraw, hwf, hs, hsh, h, hi => by
    rw [push] at h; rw [interpDT] at hi
    exact push_phys ext un hun v b b' dt n md lv (by simpa [noRaw] using hraw) hwf hs hsh h hi
  | .none, b, b', dt, n, md, lv, _, _, _, _, h, hi => by
    rw [push] at h; rw [interpDT] at hi
    have := interpNull_ok hi
    subst this
    simp only [pushL]
    exact noneL_erase h
  | .unit, b, b', dt, n, md, lv, _, _, _, _, h, hi => by
    rw [interpDT] at hi
    have := interpNull_ok hi
    subst this
    cases b with
    | unknownVariant p => simp [push, ctx_ok, fail] at h
    | _ => simp only [push] at h; simp only [pushL]; exact noneL_erase h
  | .unitStruct _, b, b', dt, n, md, lv, _, _, _, _, h, hi => by
    rw [interpDT] at hi
    have := interpNull_ok hi
    subst this
    cases b with
    | unknownVariant p => simp [push, ctx_ok, fail] at h
    | _ => simp only [push] at h; simp only [pushL]; exact noneL_erase h
  | .seq xs, b, b', dt, n, md, lv, hraw, hwf, hs, hsh, h, hi => by
    rw [push, ctx_ok] at h; rw [interpDT_seq] at hi
    have hraw' : noRaws xs = true := by simpa [noRaw] using hraw
    cases b with
    | struct p len v fs cached next seen => simp [seqLikeWith, notSupported, fail] at h
    | _ =>
      exact seqLike_phys (pushElems_phys ext un hun xs hraw') (pushCountElems_phys ext un hun xs hraw') _ .seq b' dt n md lv
        hwf hs hsh (by intro _ _ _ _ _ _ _ hc; cases hc) h hi
  | .tuple xs, b, b', dt, n, md, lv, hraw, hwf, hs, hsh, h, hi => by
    rw [push, ctx_ok] at h; rw [interpDT_tuple] at hi
    have hraw' : noRaws xs = true := by simpa [noRaw] using hraw
    cases b with
    | struct p len v fs cached next seen =>
      simp only [seqLikeWith] at h
      exact tuple_phys ext un xs (pushTupleElems_phys ext un hun xs hraw') hwf hs hsh h hi
    | _ =>
      exact seqLike_phys (pushElems_phys ext un hun xs hraw') (pushCountElems_phys ext un hun xs hraw') _ .tuple b' dt n md lv
        hwf hs hsh (by intro _ _ _ _ _ _ _ hc; cases hc) h hi
  | .tupleStruct _ xs, b, b', dt, n, md, lv, hraw, hwf, hs, hsh, h, hi => by
    rw [push, ctx_ok] at h; rw [interpDT_tupleStruct] at hi
    have hraw' : noRaws xs = true := by simpa [noRaw] using hraw
    cases b with
    | struct p len v fs cached next seen =>
      simp only [seqLikeWith] at h
      exact tuple_phys ext un xs (pushTupleElems_phys ext un hun xs hraw') hwf hs hsh h hi
    | _ =>
      exact seqLike_phys (pushElems_phys ext un hun xs hraw') (pushCountElems_phys ext un hun xs hraw') _ .tupleStruct b' dt n md lv
        hwf hs hsh (by intro _ _ _ _ _ _ _ hc; cases hc) h hi
  | .record _ fields, b, b', dt, n, md, lv, hraw, hwf, hs, hsh, h, hi => by
    have hraw' : noRawf fields = true := by simpa [noRaw] using hraw
    cases b with
    | struct p len v fs cached next seen =>
      simp only [push, ctx_ok, recordWith] at h
      have hsh' := hsh
      simp only [Shape] at hsh'
      obtain ⟨_, sfs, rfl, _⟩ := hsh'
      simp only [interpDT, isUnknownVariant, Bool.false_eq_true, if_false] at hi
      exact fields_phys ext un fields (pushFields_phys ext un hun fields hraw') hwf hs hsh h hi
    | _ => simp [push, ctx_ok, recordWith, notSupported, fail] at h
  | .map es, b, b', dt, n, md, lv, hraw, hwf, hs, hsh, h, hi => by
    have hraw' : noRawe es = true := by simpa [noRaw] using hraw
    cases b with
    | struct p len v fs cached next seen =>
      simp only [push, ctx_ok] at h
      have hsh' := hsh
      simp only [Shape] at hsh'
      obtain ⟨_, sfs, rfl, hsl⟩ := hsh'
      simp only [interpDT, isUnknownVariant, Bool.false_eq_true, if_false] at hi
      obtain ⟨_, _, hi⟩ := (bind_ok _ _ _).1 hi
      refine record_phys (pf := fun s => pushStructEntries ext { s with next := UNKNOWN_KEY } es)
        (fun f => interpByKey ext f.name f.dataType f.nullable f.metadata es) hwf hs hsl
        ((pushStructEntries_refines ext es).next _) ?_ h hi
      intro s1 s2 _ hf1 hm1 hp j f found hj hc
      have := pushStructEntries_phys ext un hun es fs _ s2 _ sfs hraw' (hm1.next UNKNOWN_KEY)
        (by simp only; rw [hf1]; exact hsl) hp j f found hj hc
      exact ChildRel.of_eq rfl rfl this
    | map p mm v offs ks vs =>
      simp only [push, ctx_ok] at h
      obtain ⟨v', h1, h⟩ := (bind_ok _ _ _).1 h
      obtain ⟨o1, h2, h⟩ := (bind_ok _ _ _).1 h
      obtain ⟨⟨o2, ks', vs'⟩, h3, h⟩ := (bind_ok _ _ _).1 h
      cases h
      simp only [Shape] at hsh
      obtain ⟨_, ename, kn, kdt, knl, kmd, vn, vdt, vnl, vmd, rest, en, emd, sorted, rfl, hsk, hsv⟩ := hsh
      simp only [interpDT, isUnknownVariant, Bool.false_eq_true, if_false] at hi
      obtain ⟨ents, hents, hi⟩ := (bind_ok _ _ _).1 hi
      cases hi
      simp only [WFH] at hwf
      simp only [NoDictKey] at hs
      obtain ⟨l, hl, rfl⟩ := duplicateLast_ok h2
      obtain ⟨hk, hv, ho⟩ := pushMapEntries_phys ext un hun es _ ks vs _ kdt knl kmd vdt vnl vmd ents hraw'
        hwf.2.2.2.1 hwf.2.2.2.2 hs.1 hs.2 hsk hsv h3 hents
      have ho' := ho offs l rfl
      simp only at hk hv ho'
      subst ho'
      have hv' := setValidity_setV h1
      subst hv'
      simp only [pushL, erase, hk, hv, LEntries.length_ofList, lastOff, hl, Option.getD_some]
    | _ => simp [push, ctx_ok, notSupported, fail] at h
  | .mapRaw _, _, _, _, _, _, _, hraw, _, _, _, _, _ => by simp [noRaw] at hraw
  | .unitVariant a i vn, b, b', dt, n, md, lv, _, hwf, hs, hsh, h, hi => by
    cases b with
    | union p fs types offs cur =>
      simp only [push, ctx_ok] at h
      have hsh' := hsh
      simp only [Shape] at hsh'
      obtain ⟨ufs, mode, rfl, hsu⟩ := hsh'
      obtain ⟨⟨c0, t0, o0, cur0⟩, hsv, _⟩ := (bind_ok _ _ _).1 h
      obtain ⟨m0, _, hget0, _⟩ := serializeVariant_ok hsv
      obtain ⟨_, _, fname, fdt, fn, fmd, hufs, _⟩ := union_child hwf hs hsu hget0
      simp only [interpDT, hufs] at hi
      obtain ⟨lvc, hlvc, hi⟩ := (bind_ok _ _ _).1 hi
      cases hi
      have hnull := interpNull_ok hlvc
      subst hnull
      refine union_row_phys (pc := fun c => match c with
          | .unknownVariant _ => ctx c.ann (fail "Unknown variant does not support serialize_unit")
          | _ => pushNone c) rfl h ?_
      intro c m c' _ hpc
      split at hpc
      · simp [ctx_ok, fail] at hpc
      · simp only [pushL]; exact noneL_erase hpc
    | _ =>
      simp only [push, ctx_ok] at h
      rw [interpDT_unitVariant_scalar ext dt n md a i vn (pushScalar_scalarDT ext _ _ b' dt n md hsh h)] at hi
      exact pushScalar_phys ext un hun _ _ b' dt n md lv hsh h hi
  | .newtypeVariant _ i _ v, b, b', dt, n, md, lv, hraw, hwf, hs, hsh, h, hi => by
    have hraw' : noRaw v = true := by simpa [noRaw] using hraw
    cases b with
    | union p fs types offs cur =>
      simp only [push, ctx_ok] at h
      have hsh' := hsh
      simp only [Shape] at hsh'
      obtain ⟨ufs, mode, rfl, hsu⟩ := hsh'
      obtain ⟨⟨c0, t0, o0, cur0⟩, hsv, _⟩ := (bind_ok _ _ _).1 h
      obtain ⟨m0, _, hget0, _⟩ := serializeVariant_ok hsv
      obtain ⟨hwc, hsc, fname, fdt, fn, fmd, hufs, hshc⟩ := union_child hwf hs hsu hget0
      simp only [interpDT, hufs] at hi
      obtain ⟨lvc, hlvc, hi⟩ := (bind_ok _ _ _).1 hi
      cases hi
      refine union_row_phys (pc := fun c => push ext c v) rfl h ?_
      intro c m c' hget hpc
      simp only at hget0
      rw [hget0] at hget; cases hget
      exact push_phys ext un hun v _ c' fdt fn fmd lvc hraw' hwc hsc hshc hpc hlvc
    | bytes _ ty _ _ _ => simp only [push, ctx_ok] at h; split at h <;> simp [notSupported, fail] at h
    | bytesView _ ty _ _ _ => simp only [push, ctx_ok] at h; split at h <;> simp [notSupported, fail] at h
    | _ => simp [push, ctx_ok, notSupported, fail] at h
  | .tupleVariant _ i _ xs, b, b', dt, n, md, lv, hraw, hwf, hs, hsh, h, hi => by
    have hraw' : noRaws xs = true := by simpa [noRaw] using hraw
    cases b with
    | union p fs types offs cur =>
      simp only [push, ctx_ok] at h
      have hsh' := hsh
      simp only [Shape] at hsh'
      obtain ⟨ufs, mode, rfl, hsu⟩ := hsh'
      obtain ⟨⟨c0, t0, o0, cur0⟩, hsv, hrest⟩ := (bind_ok _ _ _).1 h
      obtain ⟨m0, _, hget0, _⟩ := serializeVariant_ok hsv
      obtain ⟨hwc, hsc, fname, fdt, fn, fmd, hufs, hshc⟩ := union_child hwf hs hsu hget0
      have hi' := interpDT_tupleVariant_seq ext ufs mode n md _ i _ xs _ fname fdt fn fmd lv hufs hi
      obtain ⟨lvc, hsp, rfl⟩ := hi'
      refine union_row_phys (pc := fun c => ctx c.ann (seqLikeWith (fun large el offs => pushElems ext large el offs xs)
        (fun el c => pushCountElems ext el c xs) (fun s => pushTupleElems ext s xs) (u8All xs) c .tupleStruct)) rfl h ?_
      intro c m c' hget hpc
      simp only at hget0
      rw [hget0] at hget; cases hget
      rw [ctx_ok] at hpc
      cases c0 with
      | struct p' len' v' fs' cached' next' seen' =>
        simp only [seqLikeWith] at hpc
        exact tuple_phys ext un xs (pushTupleElems_phys ext un hun xs hraw') hwc hsc hshc hpc hsp
      | _ =>
        exact seqLike_phys (pushElems_phys ext un hun xs hraw') (pushCountElems_phys ext un hun xs hraw') _ .tupleStruct c' fdt fn fmd lvc
          hwc hsc hshc (by intro _ _ _ _ _ _ _ hc; cases hc) hpc hsp
    | bytes _ ty _ _ _ => simp only [push, ctx_ok] at h; split at h <;> simp [notSupported, fail] at h
    | bytesView _ ty _ _ _ => simp only [push, ctx_ok] at h; split at h <;> simp [notSupported, fail] at h
    | _ => simp [push, ctx_ok, notSupported, fail] at h
  | .structVariant _ i _ fields, b, b', dt, n, md, lv, hraw, hwf, hs, hsh, h, hi => by
    have hraw' : noRawf fields = true := by simpa [noRaw] using hraw
    cases b with
    | union p fs types offs cur =>
      simp only [push, ctx_ok] at h
      have hsh' := hsh
      simp only [Shape] at hsh'
      obtain ⟨ufs, mode, rfl, hsu⟩ := hsh'
      obtain ⟨⟨c0, t0, o0, cur0⟩, hsv, hrest⟩ := (bind_ok _ _ _).1 h
      obtain ⟨m0, _, hget0, _⟩ := serializeVariant_ok hsv
      obtain ⟨hwc, hsc, fname, fdt, fn, fmd, hufs, hshc⟩ := union_child hwf hs hsu hget0
      obtain ⟨c1, hpc1, _⟩ := (bind_ok _ _ _).1 hrest
      rw [ctx_ok] at hpc1
      simp only at hget0
      cases c0 with
      | struct p' len' v' fs' cached' next' seen' =>
        simp only [recordWith] at hpc1
        have hshc' := hshc
        simp only [Shape] at hshc'
        obtain ⟨_, sfs, rfl, hsl⟩ := hshc'
        simp only [interpDT, hufs, isUnknownVariant, Bool.false_eq_true, if_false] at hi
        obtain ⟨lvc, hlvc, hi⟩ := (bind_ok _ _ _).1 hi
        cases hi
        refine union_row_phys (pc := fun c => ctx c.ann (recordWith (fun s => pushFields ext s fields) c)) rfl h ?_
        intro c m c' hget hpc
        rw [hget0] at hget; cases hget
        rw [ctx_ok] at hpc
        simp only [recordWith] at hpc
        exact fields_phys ext un fields (pushFields_phys ext un hun fields hraw') hwc hsc hshc hpc hlvc
      | _ => simp [recordWith, notSupported, fail] at hpc1
    | bytes _ ty _ _ _ => simp only [push, ctx_ok] at h; split at h <;> simp [notSupported, fail] at h
    | bytesView _ ty _ _ _ => simp only [push, ctx_ok] at h; split at h <;> simp [notSupported, fail] at h
    | _ => simp [push, ctx_ok, notSupported, fail] at h
  | .bytes bs, b, b', dt, n, md, lv, _, hwf, hs, hsh, h, hi => by
    cases b with
    | list p large fm v offs el =>
      simp only [push, ctx_ok] at h
      obtain ⟨v', h1, h⟩ := (bind_ok _ _ _).1 h
      obtain ⟨o1, h2, h⟩ := (bind_ok _ _ _).1 h
      obtain ⟨⟨el', o2⟩, h3, h⟩ := (bind_ok _ _ _).1 h
      cases h
      obtain ⟨l, hl, rfl⟩ := duplicateLast_ok h2
      simp only [Shape] at hsh
      obtain ⟨_, cname, cdt, cn, cmd, rfl, hsel⟩ := hsh
      have hi' : ∃ ls, bs.mapM (fun x => interpScalar ext cdt (.int .u8 x.toNat)) = .ok ls ∧ lv = .list (LVals.ofList ls) := by
        cases large <;> simp only [interpDT, isUnknownVariant, Bool.false_eq_true, if_false] at hi <;>
          (obtain ⟨ls, hls, hi⟩ := (bind_ok _ _ _).1 hi; cases hi; exact ⟨ls, hls, rfl⟩)
      obtain ⟨ls, hls, rfl⟩ := hi'
      obtain ⟨hel, hlen, ho⟩ := pushByteElems_phys ext un hun large bs el _ _ cdt cn cmd ls hsel h3 hls
      have ho' := ho offs l rfl
      simp only at hel ho'
      subst ho'
      have hv' := setValidity_setV h1
      subst hv'
      simp only [pushL, erase, hel, LVals.length_ofList, hlen, lastOff, hl, Option.getD_some]
    | _ =>
      simp only [push, ctx_ok] at h
      rw [interpDT_bytes_scalar ext dt n md bs (pushScalar_scalarDT ext _ _ b' dt n md hsh h)] at hi
      split at hi
      · simp [fail] at hi
      · exact pushScalar_phys ext un hun _ _ b' dt n md lv hsh h hi
  | .bool x, b, b', dt, n, md, lv, _, _, _, hsh, h, hi => by
    rw [push, ctx_ok] at h; rw [interpDT] at hi
    split at hi
    · simp [fail] at hi
    · exact pushScalar_phys ext un hun _ _ b' dt n md lv hsh h hi
  | .int t x, b, b', dt, n, md, lv, _, _, _, hsh, h, hi => by
    rw [push, ctx_ok] at h; rw [interpDT] at hi
    split at hi
    · simp [fail] at hi
    · exact pushScalar_phys ext un hun _ _ b' dt n md lv hsh h hi
  | .f32 x, b, b', dt, n, md, lv, _, _, _, hsh, h, hi => by
    rw [push, ctx_ok] at h; rw [interpDT] at hi
    split at hi
    · simp [fail] at hi
    · exact pushScalar_phys ext un hun _ _ b' dt n md lv hsh h hi
  | .f64 x, b, b', dt, n, md, lv, _, _, _, hsh, h, hi => by
    rw [push, ctx_ok] at h; rw [interpDT] at hi
    split at hi
    · simp [fail] at hi
    · exact pushScalar_phys ext un hun _ _ b' dt n md lv hsh h hi
  | .char x, b, b', dt, n, md, lv, _, _, _, hsh, h, hi => by
    rw [push, ctx_ok] at h; rw [interpDT] at hi
    split at hi
    · simp [fail] at hi
    · exact pushScalar_phys ext un hun _ _ b' dt n md lv hsh h hi
  | .str x, b, b', dt, n, md, lv, _, _, _, hsh, h, hi => by
    rw [push, ctx_ok] at h; rw [interpDT] at hi
    split at hi
    · simp [fail] at hi
    · exact pushScalar_phys ext un hun _ _ b' dt n md lv hsh h hi

theorem pushElems_phys (ext : Ext) (un : Bytes → String) (hun : ∀ s, un (strBytes s) = s) : ∀ (xs : SVals), noRaws xs = true →
    ElemsPhys ext un xs (fun large el offs => pushElems ext large el offs xs)
  | .nil, _ => by
    intro large el offs r cdt cn cmd ls _ _ _ h hi
    simp only [pushElems] at h; cases h
    simp only [interpAll] at hi; cases hi
    exact ⟨rfl, by intro base l ho; simpa using ho⟩
  | .cons x rest, hraw => by
    intro large el offs r cdt cn cmd ls hwf hs hsh h hi
    have hraw' : noRaw x = true ∧ noRaws rest = true := by simpa [noRaws] using hraw
    simp only [pushElems] at h
    obtain ⟨o', h1, h⟩ := (bind_ok _ _ _).1 h
    obtain ⟨el', h2, h⟩ := (bind_ok _ _ _).1 h
    simp only [interpAll] at hi
    obtain ⟨lv, hlv, hi⟩ := (bind_ok _ _ _).1 hi
    obtain ⟨ls', hls', hi⟩ := (bind_ok _ _ _).1 hi
    cases hi
    obtain ⟨hel', _⟩ := push_refines ext x el el' hwf hs h2
    have ht := push_takeRest ext x el el' h2
    have hx := push_phys ext un hun x el el' cdt cn cmd lv hraw'.1 hwf hs hsh h2 hlv
    obtain ⟨ih1, ih2⟩ := pushElems_phys ext un hun rest hraw'.2 large el' o' r cdt cn cmd ls' hel' (NoDictKey.of_takeRest ht hs)
      (Shape.of_takeRest ht hsh) h hls'
    refine ⟨by simp only [LVals.ofList, pushLs, hx]; exact ih1, ?_⟩
    intro base l ho
    subst ho
    have := incrementLast_snoc h1
    subst this
    rw [ih2 base (l + 1) rfl, List.length_cons]
    have e : l + 1 + (ls'.length : Int) = l + ((ls'.length + 1 : Nat) : Int) := by omega
    rw [e]

theorem pushCountElems_phys (ext : Ext) (un : Bytes → String) (hun : ∀ s, un (strBytes s) = s) : ∀ (xs : SVals), noRaws xs = true →
    CountPhys ext un xs (fun el c => pushCountElems ext el c xs)
  | .nil, _ => by
    intro el c r cdt cn cmd ls _ _ _ h hi
    simp only [pushCountElems] at h; cases h
    simp only [interpAll] at hi; cases hi
    exact ⟨rfl, rfl⟩
  | .cons x rest, hraw => by
    intro el c r cdt cn cmd ls hwf hs hsh h hi
    have hraw' : noRaw x = true ∧ noRaws rest = true := by simpa [noRaws] using hraw
    simp only [pushCountElems] at h
    obtain ⟨el', h2, h⟩ := (bind_ok _ _ _).1 h
    simp only [interpAll] at hi
    obtain ⟨lv, hlv, hi⟩ := (bind_ok _ _ _).1 hi
    obtain ⟨ls', hls', hi⟩ := (bind_ok _ _ _).1 hi
    cases hi
    obtain ⟨hel', _⟩ := push_refines ext x el el' hwf hs h2
    have ht := push_takeRest ext x el el' h2
    have hx := push_phys ext un hun x el el' cdt cn cmd lv hraw'.1 hwf hs hsh h2 hlv
    obtain ⟨ih1, ih2⟩ := pushCountElems_phys ext un hun rest hraw'.2 el' (c + 1) r cdt cn cmd ls' hel' (NoDictKey.of_takeRest ht hs)
      (Shape.of_takeRest ht hsh) h hls'
    refine ⟨by simp only [LVals.ofList, pushLs, hx]; exact ih1, ?_⟩
    rw [ih2]; simp only [List.length_cons]; omega

/-- positional records: field `j ≥ next` receives element `j - next`, fields before `next` are not touched -/
theorem pushTupleElems_phys (ext : Ext) (un : Bytes → String) (hun : ∀ s, un (strBytes s) = s) :
    ∀ (xs : SVals), noRaws xs = true → TuplePhys ext un xs
  | .nil, _ => by
    intro fs0 s s' adds sfs _ _ h
    simp only [pushTupleElems] at h; cases h
    intro j f found _
    refine ⟨fun _ => ChildRel.refl un s j, fun _ hf => ?_⟩
    simp only [interpNth] at hf; cases hf
    exact ChildRel.refl un s j
  | .cons x rest, hraw => by
    intro fs0 s s' adds sfs hm hsl h
    have hraw' : noRaw x = true ∧ noRaws rest = true := by simpa [noRaws] using hraw
    simp only [pushTupleElems] at h
    split at h
    · rename_i hlt
      obtain ⟨s1, h1, h⟩ := (bind_ok _ _ _).1 h
      obtain ⟨c, m, c', lv0, hget, hseen, hpc, hwc, hsc, _, hm1, _, hnext, _, hfs1, _⟩ := SS.element_rowsH hm
        (StepOKH.of_push (fun c c' => push_refines ext x c c')) h1
      obtain ⟨_, _, _, _, _, _, _, hs1⟩ := SS.element_parts h1
      obtain ⟨fi, hji, hshc, _, _⟩ := ShapeL.get _ _ _ _ _ hsl hget
      have hsl1 : ShapeL s1.fields sfs := by
        rw [hfs1]; exact ShapeL.set_push hsl hget (push_takeRest ext x c c' hpc)
      have ih := pushTupleElems_phys ext un hun rest hraw'.2 fs0 s1 s' _ sfs hm1 hsl1 h
      intro j f found hj
      obtain ⟨ih1, ih2⟩ := ih j f found hj
      rw [hnext] at ih1 ih2
      refine ⟨?_, ?_⟩
      · intro hjn
        exact ChildRel.step_ne (by omega) hfs1 hs1 (ih1 (by omega))
      · intro hjn hf
        by_cases hij : s.next = j
        · subst hij
          rw [hji] at hj; cases hj
          have h0 : s.next - s.next = 0 := by omega
          rw [h0] at hf
          simp only [interpNth] at hf
          obtain ⟨lv, hlv, hf⟩ := (bind_ok _ _ _).1 hf
          cases hf
          have hx := push_phys ext un hun x c c' _ _ _ lv hraw'.1 hwc hsc hshc hpc hlv
          exact ChildRel.step_eq hget hseen hfs1 hs1 hx (ih1 (by omega))
        · have hj' : j - s.next = (j - (s.next + 1)) + 1 := by omega
          rw [hj'] at hf
          simp only [interpNth] at hf
          exact ChildRel.step_ne hij hfs1 hs1 (ih2 (by omega) hf)
    · rename_i hge
      have ih := pushTupleElems_phys ext un hun rest hraw'.2 fs0 s s' adds sfs hm hsl h
      intro j f found hj
      obtain ⟨ih1, _⟩ := ih j f found hj
      have hjlt : j < s.fields.length := by rw [← hsl.length]; exact get?_lt_length hj
      exact ⟨ih1, fun hle => absurd hjlt (by omega)⟩

theorem pushFields_phys (ext : Ext) (un : Bytes → String) (hun : ∀ s, un (strBytes s) = s) :
    ∀ (fields : SFields), noRawf fields = true → FieldsPhys ext un fields
  | .nil, _ => by
    intro fs0 s s' adds sfs _ _ h
    simp only [pushFields] at h; cases h
    intro j f found _ hf
    simp only [interpByName] at hf; cases hf
    exact ChildRel.refl un s j
  | .cons key al x rest, hraw => by
    intro fs0 s s' adds sfs hm hsl h
    have hraw' : noRaw x = true ∧ noRawf rest = true := by simpa [noRawf] using hraw
    simp only [pushFields] at h
    have hls := SaModel.Props.C11Front.lookup_sound s.fields.names s.cached s.next (key, al) hm.nodup hm.cache
    split at h
    · rename_i cached' heq
      rw [heq] at hls
      have hnone : indexOfName s.fields.names key = none := hls.1.symm
      have ih := pushFields_phys ext un hun rest hraw'.2 fs0 _ s' adds sfs (hm.cached cached' hls.2) hsl h
      intro j f found hj hf
      have hne := key_none hm.nodup hnone (names_at hsl hj)
      simp only [interpByName, hne, Bool.false_eq_true, if_false] at hf
      obtain ⟨vs, hvs, hf⟩ := (bind_ok _ _ _).1 hf
      cases hf
      exact ChildRel.of_eq rfl rfl (ih j f _ hj hvs)
    · rename_i idx cached' heq
      rw [heq] at hls
      have hidx : indexOfName s.fields.names key = some idx := hls.1.symm
      obtain ⟨s1, h1, h⟩ := (bind_ok _ _ _).1 h
      obtain ⟨c, m, c', lv0, hget, hseen, hpc, hwc, hsc, _, hm1, _, _, _, hfs1, _⟩ :=
        SS.element_rowsH (hm.cached cached' hls.2)
          (StepOKH.of_push (fun c c' => push_refines ext x c c')) h1
      obtain ⟨_, _, _, _, _, _, _, hs1⟩ := SS.element_parts h1
      simp only at hget hfs1 hseen hs1
      obtain ⟨fi, hji, hshc, _, _⟩ := ShapeL.get _ _ _ _ _ hsl hget
      have hsl1 : ShapeL s1.fields sfs := by
        rw [hfs1]; exact ShapeL.set_push hsl hget (push_takeRest ext x c c' hpc)
      have ih := pushFields_phys ext un hun rest hraw'.2 fs0 s1 s' _ sfs hm1 hsl1 h
      intro j f found hj hf
      have hk := key_at hm.nodup hidx (names_at hsl hj)
      simp only [interpByName] at hf
      obtain ⟨vs, hvs, hf⟩ := (bind_ok _ _ _).1 hf
      by_cases hij : idx = j
      · subst hij
        rw [hji] at hj; cases hj
        simp only [decide_true] at hk
        simp only [hk, if_true] at hf
        obtain ⟨lv, hlv, hf⟩ := (bind_ok _ _ _).1 hf
        cases hf
        have hx := push_phys ext un hun x c c' _ _ _ lv hraw'.1 hwc hsc hshc hpc hlv
        exact ChildRel.step_eq (s := s) hget hseen hfs1 hs1 hx (ih idx fi _ hji hvs)
      · simp only [hij, decide_false] at hk
        simp only [hk, Bool.false_eq_true, if_false] at hf
        cases hf
        exact ChildRel.step_ne (s := s) hij hfs1 hs1 (ih j f _ hj hvs)

theorem pushStructEntries_phys (ext : Ext) (un : Bytes → String) (hun : ∀ s, un (strBytes s) = s) :
    ∀ (es : SEntries) (fs0 : BL) (s s' : SS) (adds : List (List LVal)) (sfs : Fields), noRawe es = true →
    MidH fs0 s adds → ShapeL s.fields sfs → pushStructEntries ext s es = .ok s' →
    ∀ j f found, sfs.toList[j]? = some f →
      interpByKey ext f.name f.dataType f.nullable f.metadata es = .ok found → ChildRel un s s' j found
  | .nil, fs0, s, s', adds, sfs, _, _, _, h => by
    simp only [pushStructEntries] at h; cases h
    intro j f found _ hf
    simp only [interpByKey, keyOf_eq] at hf; cases hf
    exact ChildRel.refl un s j
  | .cons k x rest, fs0, s, s', adds, sfs, hraw, hm, hsl, h => by
    have hraw' : (noRaw k = true ∧ noRaw x = true) ∧ noRawe rest = true := by simpa [noRawe] using hraw
    simp only [pushStructEntries] at h
    obtain ⟨key, hkey, h⟩ := (bind_ok _ _ _).1 h
    have hopt : ∀ fname : String, ((keyStr k).toOption == some fname) = (key == fname) := by
      intro fname; rw [hkey]; simp [Except.toOption]
    split at h
    · rename_i hnone
      have ih := pushStructEntries_phys ext un hun rest fs0 _ s' adds sfs hraw'.2 (hm.next UNKNOWN_KEY) hsl h
      intro j f found hj hf
      have hne := key_none hm.nodup hnone (names_at hsl hj)
      simp only [interpByKey, keyOf_eq, hopt, hne, Bool.false_eq_true, if_false] at hf
      obtain ⟨vs, hvs, hf⟩ := (bind_ok _ _ _).1 hf
      cases hf
      exact ChildRel.of_eq rfl rfl (ih j f _ hj hvs)
    · rename_i idx hidx
      obtain ⟨s1, h1, h⟩ := (bind_ok _ _ _).1 h
      obtain ⟨c, m, c', lv0, hget, hseen, hpc, hwc, hsc, _, hm1, _, _, _, hfs1, _⟩ :=
        SS.element_rowsH hm (StepOKH.of_push (fun c c' => push_refines ext x c c')) h1
      obtain ⟨_, _, _, _, _, _, _, hs1⟩ := SS.element_parts h1
      obtain ⟨fi, hji, hshc, _, _⟩ := ShapeL.get _ _ _ _ _ hsl hget
      have hsl1 : ShapeL s1.fields sfs := by
        rw [hfs1]; exact ShapeL.set_push hsl hget (push_takeRest ext x c c' hpc)
      have ih := pushStructEntries_phys ext un hun rest fs0 _ s' _ sfs hraw'.2 (hm1.next UNKNOWN_KEY) hsl1 h
      intro j f found hj hf
      have hk := key_at hm.nodup hidx (names_at hsl hj)
      simp only [interpByKey, keyOf_eq, hopt] at hf
      obtain ⟨vs, hvs, hf⟩ := (bind_ok _ _ _).1 hf
      by_cases hij : idx = j
      · subst hij
        rw [hji] at hj; cases hj
        simp only [decide_true] at hk
        simp only [hk, if_true] at hf
        obtain ⟨lv, hlv, hf⟩ := (bind_ok _ _ _).1 hf
        cases hf
        have hx := push_phys ext un hun x c c' _ _ _ lv hraw'.1.2 hwc hsc hshc hpc hlv
        exact ChildRel.step_eq (s := s) hget hseen hfs1 hs1 hx (ChildRel.of_eq rfl rfl (ih idx fi _ hji hvs))
      · simp only [hij, decide_false] at hk
        simp only [hk, Bool.false_eq_true, if_false] at hf
        cases hf
        exact ChildRel.step_ne (s := s) hij hfs1 hs1 (ChildRel.of_eq rfl rfl (ih j f _ hj hvs))

theorem pushMapEntries_phys (ext : Ext) (un : Bytes → String) (hun : ∀ s, un (strBytes s) = s) :
    ∀ (es : SEntries) (offs : List Int) (ks vs : B) (r : List Int × B × B)
    (kdt : DataType) (kn : Bool) (kmd : Metadata) (vdt : DataType) (vn : Bool) (vmd : Metadata) (ents : List (LVal × LVal)),
    noRawe es = true → WFH ks → WFH vs → NoDictKey ks → NoDictKey vs → Shape ks kdt kn kmd → Shape vs vdt vn vmd →
    pushMapEntries ext offs ks vs es = .ok r → interpEntries ext kdt kn kmd vdt vn vmd es = .ok ents →
    pushLK un (LEntries.ofList ents) (erase ks) = erase r.2.1 ∧ pushLW un (LEntries.ofList ents) (erase vs) = erase r.2.2 ∧
      ∀ base l, offs = base ++ [l] → r.1 = base ++ [l + (ents.length : Int)]
  | .nil, offs, ks, vs, r, kdt, kn, kmd, vdt, vn, vmd, ents, _, _, _, _, _, _, _, h, hi => by
    simp only [pushMapEntries] at h; cases h
    simp only [interpEntries] at hi; cases hi
    exact ⟨rfl, rfl, by intro base l ho; simpa using ho⟩
  | .cons k x rest, offs, ks, vs, r, kdt, kn, kmd, vdt, vn, vmd, ents, hraw, hk, hv, hsk, hsv, hshk, hshv, h, hi => by
    have hraw' : (noRaw k = true ∧ noRaw x = true) ∧ noRawe rest = true := by simpa [noRawe] using hraw
    simp only [pushMapEntries] at h
    obtain ⟨o', h1, h⟩ := (bind_ok _ _ _).1 h
    obtain ⟨ks', h2, h⟩ := (bind_ok _ _ _).1 h
    obtain ⟨vs', h3, h⟩ := (bind_ok _ _ _).1 h
    simp only [interpEntries] at hi
    obtain ⟨kv, hkv, hi⟩ := (bind_ok _ _ _).1 hi
    obtain ⟨vv, hvv, hi⟩ := (bind_ok _ _ _).1 hi
    obtain ⟨ents', hents', hi⟩ := (bind_ok _ _ _).1 hi
    cases hi
    obtain ⟨hk', _⟩ := push_refines ext k ks ks' hk hsk h2
    obtain ⟨hv', _⟩ := push_refines ext x vs vs' hv hsv h3
    have htk := push_takeRest ext k ks ks' h2
    have htv := push_takeRest ext x vs vs' h3
    have hxk := push_phys ext un hun k ks ks' kdt kn kmd kv hraw'.1.1 hk hsk hshk h2 hkv
    have hxv := push_phys ext un hun x vs vs' vdt vn vmd vv hraw'.1.2 hv hsv hshv h3 hvv
    obtain ⟨ih1, ih2, ih3⟩ := pushMapEntries_phys ext un hun rest o' ks' vs' r kdt kn kmd vdt vn vmd ents' hraw'.2 hk' hv'
      (NoDictKey.of_takeRest htk hsk) (NoDictKey.of_takeRest htv hsv) (Shape.of_takeRest htk hshk) (Shape.of_takeRest htv hshv) h hents'
    refine ⟨by simp only [LEntries.ofList, pushLK, hxk]; exact ih1, by simp only [LEntries.ofList, pushLW, hxv]; exact ih2, ?_⟩
    intro base l ho
    subst ho
    have := incrementLast_snoc h1
    subst this
    rw [ih3 base (l + 1) rfl, List.length_cons]
    have e : l + 1 + (ents'.length : Int) = l + ((ents'.length + 1 : Nat) : Int) := by omega
    rw [e]
end

end SaModel.Build
